(* OracleProofs.v — the compressor model run with a match-finder oracle (WModel/Oracle.v):

     call_ok_b_sound : call_ok_b_sound_statement     the boolean contract check is sound
     oracle_C01      : oracle_C01_statement          C01 for any match finder passing the check
     oracle_C10      : oracle_C10_statement          C10 likewise
     oracle_refines  : oracle_refines_statement      the model's own lz77 as the oracle = the model run

   Structure: (1) toks_cover_b on the array of the input implies the expansion equation of the
   contract; (2) a forward invariant `qinv` of the dyn state inside an odyn (the ghost of
   TraceContent.v, the rendering invariant `good` of StreamRender.v, event_ok of every event);
   the flags o_mismatch / o_contract are monotone (`fle`), so a good final state means every
   call on the way was answered with the model's arguments and passed the contract check;
   (3) lifted through Writer.Write's loop and whole histories; (4) composed with trace decoding
   as in WriterTheorems.v; (6) for oracle_refines: the contract check is also complete on what
   lz_ok guarantees (toks_cover_complete), and the oracle run fed with the model's answers is the
   model run with an empty table (`rt`), call by call (loop_sim ... run_sim). *)
From Verif Require Import LZ77Proofs GenerateProofs HuffmanProofs RenderProofs HeaderProofs SymbolsProofs
     TraceDecode WriterStateProofs TraceContent StreamRender WriterTheorems.
From Verif Require Import OracleSpec.
From Coq Require Import ZArith Lia ZifyBool ZifyNat ZifyN.
Open Scope N_scope.

Local Notation writer := WriterSM.writer.

(* ------------------------------------------------------------------ *)
(* 1. the boolean contract                                              *)

Lemma range_eqb_spec : forall a n p q, range_eqb a p q n = true ->
  forall i, i < N.of_nat n -> aget a (p + i) = aget a (q + i).
Proof.
  intros a. induction n as [|n IH]; intros p q H i Hi; [lia|].
  cbn [range_eqb] in H. apply andb_true_iff in H. destruct H as (H0 & Hr).
  destruct (N.eq_dec i 0) as [E|E].
  - subst i. rewrite !N.add_0_r. lia.
  - replace (p + i) with (p + 1 + (i - 1)) by lia. replace (q + i) with (q + 1 + (i - 1)) by lia.
    apply IH; [exact Hr|lia].
Qed.

Lemma toks_cover_sound : forall input W ts pos e,
  toks_cover_b (arr_of_list input) W pos ts = Some e -> e <= lenN input ->
  e = pos + tlen ts /\ toks_ok W pos ts /\ lits_ok ts /\
  expand_rev ts (pre input pos) = pre input e.
Proof.
  intros input W. induction ts as [|t r IH]; intros pos e H He.
  - cbn [toks_cover_b] in H. inversion H; subst e. cbn [tlen toks_ok expand_rev].
    split; [lia|]. split; [exact I|]. split; [constructor|reflexivity].
  - destruct t as [b|len dist]; cbn [toks_cover_b] in H.
    + destruct ((b <? 256) && (aget (arr_of_list input) pos =? b)) eqn:C; [|discriminate H].
      apply andb_true_iff in C. destruct C as (C1 & C2).
      destruct (IH _ _ H He) as (I1 & I2 & I3 & I4).
      cbn [tlen tok_len toks_ok tok_ok expand_rev].
      split; [lia|]. split; [split; [exact I|exact I2]|]. split; [constructor; [lia|exact I3]|].
      rewrite <- I4. f_equal. rewrite pre_succ by lia. f_equal.
      rewrite aget_of_list in C2. lia.
    + destruct ((3 <=? len) && (len <=? 258) && (1 <=? dist) && (dist <=? W) && (dist <=? pos)
                && range_eqb (arr_of_list input) (pos - dist) pos (N.to_nat len)) eqn:C;
        [|discriminate H].
      apply andb_true_iff in C. destruct C as (C & C6).
      apply andb_true_iff in C. destruct C as (C & C5).
      apply andb_true_iff in C. destruct C as (C & C4).
      apply andb_true_iff in C. destruct C as (C & C3).
      apply andb_true_iff in C. destruct C as (C1 & C2).
      destruct (IH _ _ H He) as (I1 & I2 & I3 & I4).
      cbn [tlen tok_len toks_ok tok_ok expand_rev].
      split; [lia|]. split; [split; [lia|exact I2]|]. split; [constructor; [exact I|exact I3]|].
      rewrite <- I4. f_equal.
      replace (pos + len) with (pos + N.of_nat (N.to_nat len)) by lia.
      apply copy_ok. unfold matches.
      split; [lia|]. split; [lia|]. split; [lia|].
      intros i Hi. rewrite <- !aget_of_list. eapply range_eqb_spec; eassumption.
Qed.

Theorem call_ok_b_sound : call_ok_b_sound_statement.
Proof.
  unfold call_ok_b_sound_statement. intros W input k H. unfold call_ok_b in H.
  apply andb_true_iff in H. destruct H as (H & B5).
  apply andb_true_iff in H. destruct H as (H & B4).
  apply andb_true_iff in H. destruct H as (H & B3).
  apply andb_true_iff in H. destruct H as (B1 & B2).
  destruct (toks_cover_b (arr_of_list input) W (k_off k) (k_new k)) as [e|] eqn:E; [|discriminate B3].
  assert (e = k_noff k) by lia. subst e.
  destruct (toks_cover_sound input W _ _ _ E ltac:(lia)) as (I1 & I2 & I3 & I4).
  unfold call_ok. split; [lia|]. split; [lia|]. split; [exact I2|]. split; [exact I3|exact I4].
Qed.

(* ------------------------------------------------------------------ *)
(* 2. the flags only get worse                                          *)

Definition ogood (o : odyn) : Prop := o_mismatch o = false /\ o_contract o = true.

Definition fle (o o' : odyn) : Prop :=
  (o_mismatch o = true -> o_mismatch o' = true) /\ (o_contract o = false -> o_contract o' = false).

Lemma fle_refl : forall o, fle o o.
Proof. intros o. split; auto. Qed.

Lemma fle_trans : forall a b c, fle a b -> fle b c -> fle a c.
Proof. intros a b c (A1 & A2) (B1 & B2). split; auto. Qed.

Lemma fle_good : forall o o', fle o o' -> ogood o' -> ogood o.
Proof.
  intros o o' (F1 & F2) (G1 & G2). split.
  - destruct (o_mismatch o); [|reflexivity]. rewrite F1 in G1 by reflexivity. discriminate G1.
  - destruct (o_contract o); [reflexivity|]. rewrite F2 in G2 by reflexivity. discriminate G2.
Qed.

Lemma fle_lift_r : forall o o1 c, fle o o1 -> fle o (olift o1 c).
Proof. intros o o1 c H. exact H. Qed.

Lemma fle_lift_l : forall o o1 c, fle o o1 -> fle (olift o c) o1.
Proof. intros o o1 c H. exact H. Qed.

Definition args_okb (c : dyn) (flush : bool) (k : lzcall) : bool :=
  Bool.eqb flush (k_flush k) && (k_len k =? lenN (dbuf c)) && (k_proc k =? dproc c)
  && (k_off k =? didx c) && (k_ntok0 k =? dntok c).

Definition after_call (c : dyn) (k : lzcall) : dyn :=
  mkdyn (dW c) (dmask c) (dsync c) (dbuf c) (k_noff k) (dproc c + (k_noff k - didx c))
        (dtable c) (rev (k_new k) ++ dtoks c) (k_ntok k) (dbb c) (ddest c) (doob c).

Definition ostep (o : odyn) (flush : bool) (k : lzcall) (rest : list lzcall) : odyn :=
  mkodyn (after_call (od o) k) rest (o_mismatch o || negb (args_okb (od o) flush k))
         (o_contract o && call_ok_b (dW (od o)) (dbuf (od o)) k) (o_calls o + 1).

Lemma oloop_unfold : forall f o flush final k rest, o_ans o = k :: rest ->
  odyn_compress_loop (S f) o flush final =
  let o1 := ostep o flush k rest in
  let c1 := od o1 in
  if (k_ntok k <? max_token) && negb flush then (o1, false)
  else
    let at_end := didx c1 =? lenN (dbuf c1) in
    let '(c2, failed) := dyn_encode_block c1 (final && at_end) in
    let o2 := olift o1 c2 in
    if failed then (o2, true)
    else if at_end then (o2, false)
    else odyn_compress_loop f o2 flush final.
Proof. intros f o flush final k rest H. cbn [odyn_compress_loop]. rewrite H. reflexivity. Qed.

Lemma ostep_fle : forall o flush k rest, fle o (ostep o flush k rest).
Proof.
  intros o flush k rest. unfold fle, ostep. cbn [o_mismatch o_contract]. split; intros H; rewrite H; reflexivity.
Qed.

Lemma ostep_good : forall o flush k rest, ogood (ostep o flush k rest) ->
  ogood o /\ args_okb (od o) flush k = true /\ call_ok_b (dW (od o)) (dbuf (od o)) k = true.
Proof.
  intros o flush k rest (G1 & G2). unfold ostep in G1, G2. cbn [o_mismatch o_contract] in G1, G2.
  apply orb_false_iff in G1. destruct G1 as (G1 & G1').
  apply andb_true_iff in G2. destruct G2 as (G2 & G2').
  split; [split; assumption|]. split; [|exact G2'].
  destruct (args_okb (od o) flush k); [reflexivity|discriminate G1'].
Qed.

Lemma oloop_fle : forall fuel o flush final, fle o (fst (odyn_compress_loop fuel o flush final)).
Proof.
  induction fuel as [|f IH]; intros o flush final.
  - cbn [odyn_compress_loop fst]. split; cbn [o_mismatch o_contract]; auto.
  - destruct (o_ans o) as [|k rest] eqn:Ea.
    + cbn [odyn_compress_loop]. rewrite Ea. cbn [fst]. split; cbn [o_mismatch o_contract]; auto.
    + rewrite (oloop_unfold f o flush final k rest Ea). cbv zeta.
      pose proof (ostep_fle o flush k rest) as F1.
      set (o1 := ostep o flush k rest) in *.
      destruct ((k_ntok k <? max_token) && negb flush); [exact F1|].
      destruct (dyn_encode_block (od o1) (final && (didx (od o1) =? lenN (dbuf (od o1))))) as [c2 failed].
      destruct failed; [exact F1|].
      destruct (didx (od o1) =? lenN (dbuf (od o1))); [exact F1|].
      eapply fle_trans; [|apply IH]. exact F1.
Qed.

Lemma ocompress_block_fle : forall o flush final, fle o (fst (odyn_compress_block o flush final)).
Proof.
  intros o flush final. unfold odyn_compress_block.
  destruct (final && (lenN (dbuf (od o)) =? 0)).
  - destruct (dyn_compress_block (od o) flush final) as [c1 failed]. cbn [fst]. apply fle_lift_r, fle_refl.
  - apply oloop_fle.
Qed.

Lemma oflush_fle : forall o, fle o (fst (odyn_flush o)).
Proof.
  intros o. unfold odyn_flush. pose proof (ocompress_block_fle o true false) as F.
  destruct (odyn_compress_block o true false) as [o1 failed]. cbn [fst] in F.
  destruct failed; [exact F|].
  destruct (bb_take (bb_empty_block false (dbb (od o1)))) as [chunk bb].
  destruct (dest_write (dest_event (ddest (od o1)) ESync) chunk) as [d1 failed1]. exact F.
Qed.

Lemma oaccumulate_fle : forall o data, fle o (fst (fst (o_accumulate o data))).
Proof.
  intros o data. unfold o_accumulate. destruct (dyn_accumulate (od o) data) as [[c1 n] t].
  cbn [fst]. apply fle_lift_r, fle_refl.
Qed.

(* ------------------------------------------------------------------ *)
(* 3. the invariant of the dyn state inside an odyn: ghost (TraceContent), rendering
      (StreamRender.good), every event encodable                         *)

Definition qinv (W : N) (D : list N) (c : dyn) : Prop :=
  dW c = W /\ 0 < W <= 32768 /\ didx c <= lenN (dbuf c) /\ bytes_ok D /\
  good (ddest c) (dbb c) /\ Forall event_ok (dtrace (ddest c)) /\
  exists X, D = X ++ dbuf c /\ (X = [] \/ W <= didx c) /\
    ghost W X (dbuf c) (didx c) (dtrace (ddest c)) (dtoks c).

Lemma ghost_call : forall W X buf idx tr toks k,
  ghost W X buf idx tr toks -> idx <= lenN buf -> call_ok W buf k -> k_off k = idx ->
  ghost W X buf (k_noff k) tr (rev (k_new k) ++ toks).
Proof.
  intros W X buf idx tr toks k (H & G1 & G2 & G3 & G4) Hidx (K1 & K2 & K3 & K4 & K5) Hoff. subst idx.
  exists H. split; [exact G1|]. rewrite rev_app_distr, rev_involutive.
  assert (Hlen : lenN H + tlen (rev toks) = lenN X + k_off k).
  { rewrite <- expand_len, G4, lenN_app, !lenN_rev, lenN_firstn by exact Hidx. lia. }
  split; [|split].
  - apply toks_ok_app. split; [exact G2|]. eapply toks_ok_mono; [exact K3|lia].
  - unfold lits_ok. apply Forall_app. split; [exact G3|exact K4].
  - rewrite expand_rev_app, G4.
    rewrite (expand_rev_lift W) by (rewrite lenN_rev, lenN_firstn by exact Hidx; exact K3).
    rewrite K5. reflexivity.
Qed.

Lemma toks_block_ok : forall W b ts, W <= 32768 -> toks_ok W b ts -> lits_ok ts ->
  block_ok ts /\ Forall tok_fits ts.
Proof.
  intros W b ts HW Ht Hl. split.
  - apply (proj1 block_always_ok). revert b Ht Hl. induction ts as [|t r IH]; intros b Ht Hl; [constructor|].
    cbn [toks_ok] in Ht. destruct Ht as (Ht & Hr). inversion Hl as [|t' r' Hl1 Hl2]; subst.
    constructor; [|eapply IH; eassumption].
    destruct t as [x|len dist]; cbn [tok_ok] in Ht; [exact Hl1|lia].
  - eapply toks_ok_fits; [|exact Ht]. lia.
Qed.

Lemma encode_block_q : forall W c last b, good (ddest c) (dbb c) -> W <= 32768 ->
  toks_ok W b (rev (dtoks c)) -> lits_ok (rev (dtoks c)) ->
  exists bb d1,
    dyn_encode_block c last =
      (mkdyn (dW c) (dmask c) (dsync c) (dbuf c) (didx c) (dproc c) (dtable c) [] 0 bb d1 (doob c), false) /\
    good d1 bb /\ dtrace d1 = EBlock (frev (dtoks c)) last :: dtrace (ddest c) /\
    block_ok (frev (dtoks c)) /\ (last = true -> bb_acc bb = []).
Proof.
  intros W c last b Hg HW Ht Hl. unfold dyn_encode_block.
  destruct (toks_block_ok W b _ HW Ht Hl) as (Hbok & Hfit). rewrite <- frev_rev in Hbok, Hfit.
  pose proof (encode_block_last_acc (dsync c) (frev (dtoks c)) (dbb c)) as Hacc.
  destruct (encode_block (dsync c) (frev (dtoks c)) last (dbb c)) as [chunks bb] eqn:E.
  pose proof (dest_write_all_trace chunks (dest_event (ddest c) (EBlock (frev (dtoks c)) last))) as T.
  destruct (dest_write_all (dest_event (ddest c) (EBlock (frev (dtoks c)) last)) chunks) as [d1 failed] eqn:Ew.
  cbn [fst dest_event dtrace] in T.
  destruct (emit_block encode_block_ok _ _ _ _ _ _ _ _ _ Hg Hbok Hfit E Ew) as (Hg1 & Hf). subst failed.
  exists bb, d1. split; [reflexivity|]. split; [exact Hg1|]. split; [exact T|]. split; [exact Hbok|].
  intros El. subst last. rewrite E in Hacc. exact Hacc.
Qed.

Lemma args_okb_true : forall c flush k, args_okb c flush k = true ->
  k_off k = didx c /\ k_len k = lenN (dbuf c) /\ k_ntok0 k = dntok c.
Proof.
  intros c flush k H. unfold args_okb in H.
  apply andb_true_iff in H. destruct H as (H & A5).
  apply andb_true_iff in H. destruct H as (H & A4).
  apply andb_true_iff in H. destruct H as (H & A3).
  apply andb_true_iff in H. destruct H as (A1 & A2).
  split; [lia|]. split; lia.
Qed.

Lemma ostep_q : forall W D o flush k rest, ogood (ostep o flush k rest) -> qinv W D (od o) ->
  qinv W D (od (ostep o flush k rest)).
Proof.
  intros W D o flush k rest Hg (HW & HW32 & Hidx & HbD & Hgd & Hev & X & HD & HX & Hgh).
  destruct (ostep_good _ _ _ _ Hg) as (_ & Ha & Hc).
  apply args_okb_true in Ha. destruct Ha as (Ha & _).
  apply call_ok_b_sound in Hc. rewrite HW in Hc.
  pose proof Hc as (K1 & K2 & _).
  unfold ostep, after_call. cbn [od dW didx dbuf ddest dbb dtoks].
  split; [exact HW|]. split; [exact HW32|]. split; [exact K2|]. split; [exact HbD|].
  split; [exact Hgd|]. split; [exact Hev|]. exists X. split; [exact HD|].
  split; [destruct HX as [HX|HX]; [left; exact HX|right; cbn [didx]; lia]|].
  eapply ghost_call; eassumption.
Qed.

Lemma oloop_q : forall W D flush final fuel o o' failed,
  odyn_compress_loop fuel o flush final = (o', failed) -> ogood o' ->
  qinv W D (od o) -> nonfinal (dtrace (ddest (od o))) ->
  failed = false /\ qinv W D (od o') /\
  (flush = true -> didx (od o') = lenN (dbuf (od o')) /\ dtoks (od o') = [] /\
     (exists ts t, dtrace (ddest (od o')) = EBlock ts final :: t /\ nonfinal t) /\
     (final = true -> bb_acc (dbb (od o')) = [])) /\
  (final = false -> nonfinal (dtrace (ddest (od o')))).
Proof.
  intros W D flush final. induction fuel as [|f IH]; intros o o' failed H Hg Hq Hnf.
  - cbn [odyn_compress_loop] in H. injection H as Ho Hf; subst o' failed.
    destruct Hg as (Hm & _). cbn [o_mismatch] in Hm. discriminate Hm.
  - destruct (o_ans o) as [|k rest] eqn:Ea.
    + cbn [odyn_compress_loop] in H. rewrite Ea in H. injection H as Ho Hf; subst o' failed.
      destruct Hg as (Hm & _). cbn [o_mismatch] in Hm. discriminate Hm.
    + rewrite (oloop_unfold f o flush final k rest Ea) in H. cbv zeta in H.
      set (o1 := ostep o flush k rest) in *.
      assert (Htr1 : dtrace (ddest (od o1)) = dtrace (ddest (od o))) by reflexivity.
      destruct ((k_ntok k <? max_token) && negb flush) eqn:EA.
      * injection H as Ho Hf; subst o' failed.
        assert (flush = false) by (destruct flush; [rewrite andb_false_r in EA; discriminate EA|reflexivity]).
        subst flush.
        split; [reflexivity|]. split; [apply ostep_q; assumption|].
        split; [intros E; discriminate E|]. intros _. rewrite Htr1. exact Hnf.
      * set (at_end := didx (od o1) =? lenN (dbuf (od o1))) in *.
        destruct (dyn_encode_block (od o1) (final && at_end)) as [c2 failed2] eqn:E2.
        assert (Hg1 : ogood o1).
        { destruct failed2; [injection H as Ho Hf; subst o' failed; exact Hg|].
          destruct at_end; [injection H as Ho Hf; subst o' failed; exact Hg|].
          eapply fle_good; [|exact Hg].
          pose proof (oloop_fle f (olift o1 c2) flush final) as F. rewrite H in F. exact F. }
        pose proof (ostep_q W D o flush k rest Hg1 Hq) as Hq1. fold o1 in Hq1.
        destruct Hq1 as (HW & HW32 & Hidx1 & HbD & Hgd & Hev & X & HD & HX & Hgh).
        pose proof Hgh as (Hh & G1 & G2 & G3 & G4).
        destruct (encode_block_q W (od o1) (final && at_end) (lenN Hh) Hgd (proj2 HW32) G2 G3)
          as (bb & d1 & E & Hgood & Htr & Hbok & Hacc).
        rewrite E in E2. inversion E2; subst c2 failed2. clear E2.
        set (c2 := mkdyn (dW (od o1)) (dmask (od o1)) (dsync (od o1)) (dbuf (od o1)) (didx (od o1))
                         (dproc (od o1)) (dtable (od o1)) [] 0 bb d1 (doob (od o1))) in *.
        assert (Hq2 : qinv W D c2).
        { unfold qinv, c2. cbn [dW didx dbuf ddest dbb dtoks].
          split; [exact HW|]. split; [exact HW32|]. split; [exact Hidx1|]. split; [exact HbD|].
          split; [exact Hgood|]. split; [rewrite Htr; constructor; [exact Hbok|exact Hev]|].
          exists X. split; [exact HD|]. split; [exact HX|]. rewrite Htr. apply ghost_emit. exact Hgh. }
        destruct at_end eqn:EE.
        -- injection H as Ho Hf; subst o' failed. cbn [od olift].
           split; [reflexivity|]. split; [exact Hq2|]. split.
           ++ intros _. unfold at_end in EE. apply N.eqb_eq in EE. split; [exact EE|].
              split; [reflexivity|]. unfold c2. cbn [ddest dbb]. rewrite Htr, Htr1, andb_true_r.
              split; [eexists _, _; split; [reflexivity|exact Hnf]|].
              intros Ef. apply Hacc. rewrite Ef. reflexivity.
           ++ intros Ef. unfold c2. cbn [ddest]. rewrite Htr, Htr1. constructor; [|exact Hnf].
              subst final. reflexivity.
        -- apply (IH (olift o1 c2) o' failed H Hg); cbn [od olift]; [exact Hq2|].
           unfold c2. cbn [ddest]. rewrite Htr, Htr1, andb_false_r. constructor; [reflexivity|exact Hnf].
Qed.

(* Compress from Writer.Write *)
Lemma ocompress_q : forall W D o o' failed, o_compress o = (o', failed) -> ogood o' ->
  qinv W D (od o) -> nonfinal (dtrace (ddest (od o))) ->
  failed = false /\ qinv W D (od o') /\ nonfinal (dtrace (ddest (od o'))).
Proof.
  intros W D o o' failed H Hg Hq Hnf. unfold o_compress, odyn_compress_block in H. cbn [andb] in H.
  destruct (oloop_q W D false false _ o o' failed H Hg Hq Hnf) as (R1 & R2 & _ & R4).
  split; [exact R1|]. split; [exact R2|exact (R4 eq_refl)].
Qed.

(* Flush *)
Lemma oflush_q : forall W D o o' failed, odyn_flush o = (o', failed) -> ogood o' ->
  qinv W D (od o) -> nonfinal (dtrace (ddest (od o))) ->
  failed = false /\ qinv W D (od o') /\ nonfinal (dtrace (ddest (od o'))) /\
  (exists t, dtrace (ddest (od o')) = ESync :: t) /\
  tr_ok W (rev (dtrace (ddest (od o')))) (rev D) /\ bb_acc (dbb (od o')) = [].
Proof.
  intros W D o o' failed H Hg Hq Hnf. unfold odyn_flush, odyn_compress_block in H. cbn [andb] in H.
  destruct (odyn_compress_loop (S (S (length (dbuf (od o))))) o true false) as [o1 failed1] eqn:E1.
  assert (Hg1 : ogood o1).
  { destruct failed1; [injection H as Ho Hf; subst o' failed; exact Hg|].
    destruct (bb_take (bb_empty_block false (dbb (od o1)))) as [chunk bb].
    destruct (dest_write (dest_event (ddest (od o1)) ESync) chunk) as [d1 failed2].
    injection H as Ho Hf; subst o' failed. exact Hg. }
  destruct (oloop_q W D true false _ o o1 failed1 E1 Hg1 Hq Hnf) as (R1 & R2 & R3 & R4).
  subst failed1. destruct (R3 eq_refl) as (R3a & R3b & _ & _). specialize (R4 eq_refl).
  pose proof (bb_take_empty_acc false (dbb (od o1))) as Hacc.
  destruct (bb_take (bb_empty_block false (dbb (od o1)))) as [chunk bb] eqn:Ebt. cbn [snd] in Hacc.
  pose proof (dest_write_trace (dest_event (ddest (od o1)) ESync) chunk) as T.
  destruct (dest_write (dest_event (ddest (od o1)) ESync) chunk) as [d1 failed2] eqn:Ew.
  cbn [fst dest_event dtrace] in T.
  destruct R2 as (HW & HW32 & Hidx & HbD & Hgd & Hev & X & HD & HX & Hgh).
  destruct (emit_marker bitbuf_ok (ddest (od o1)) (dbb (od o1)) false chunk bb d1 failed2 Hgd Ebt Ew)
    as (Hgd1 & Hf2).
  subst failed2. injection H as Ho Hf. subst o' failed. cbn [od olift ddest dbb].
  split; [reflexivity|]. split; [|split; [|split; [|split]]].
  - unfold qinv. cbn [dW didx dbuf ddest dbb dtoks].
    split; [exact HW|]. split; [exact HW32|]. split; [exact Hidx|]. split; [exact HbD|].
    split; [exact Hgd1|]. split; [rewrite T; constructor; [exact I|exact Hev]|].
    exists X. split; [exact HD|]. split; [exact HX|]. rewrite T. apply ghost_sync. exact Hgh.
  - rewrite T. constructor; [reflexivity|exact R4].
  - rewrite T. eexists. reflexivity.
  - rewrite T. cbn [rev]. apply tr_ok_sync. rewrite HD. apply ghost_final.
    rewrite R3a, R3b in Hgh. exact Hgh.
  - exact Hacc.
Qed.

(* Close *)
Lemma oclose_q : forall W D o o' failed, o_close o = (o', failed) -> ogood o' ->
  qinv W D (od o) -> nonfinal (dtrace (ddest (od o))) ->
  failed = false /\ good (ddest (od o')) (dbb (od o')) /\ Forall event_ok (dtrace (ddest (od o'))) /\
  trace_complete (rev (dtrace (ddest (od o')))) = true /\
  tr_ok W (rev (dtrace (ddest (od o')))) (rev D) /\ bb_acc (dbb (od o')) = [].
Proof.
  intros W D o o' failed H Hg Hq Hnf. unfold o_close, odyn_compress_block in H. cbn [andb] in H.
  destruct (lenN (dbuf (od o)) =? 0) eqn:E0.
  - unfold dyn_compress_block in H. cbn [andb] in H. rewrite E0 in H.
    pose proof (bb_take_empty_acc true (dbb (od o))) as Hacc.
    destruct (bb_take (bb_empty_block true (dbb (od o)))) as [chunk bb] eqn:Ebt. cbn [snd] in Hacc.
    pose proof (dest_write_trace (dest_event (ddest (od o)) EFinalEmpty) chunk) as T.
    destruct (dest_write (dest_event (ddest (od o)) EFinalEmpty) chunk) as [d1 failed2] eqn:Ew.
    cbn [fst dest_event dtrace] in T.
    destruct Hq as (HW & HW32 & Hidx & HbD & Hgd & Hev & X & HD & HX & Hgh).
    destruct (emit_marker bitbuf_ok (ddest (od o)) (dbb (od o)) true chunk bb d1 failed2 Hgd Ebt Ew)
      as (Hgd1 & Hf2).
    subst failed2. injection H as Ho Hf. subst o' failed. cbn [od olift ddest dbb].
    split; [reflexivity|]. split; [exact Hgd1|]. rewrite T.
    split; [constructor; [exact I|exact Hev]|]. cbn [rev]. split; [|split; [|exact Hacc]].
    + rewrite trace_complete_snoc; [reflexivity|]. apply Forall_rev. exact Hnf.
    + assert (Hb0 : dbuf (od o) = []) by (apply lenN_0; lia).
      rewrite Hb0 in *. rewrite lenN_nil in Hidx.
      assert (HX0 : X = []) by (destruct HX as [HX|HX]; [exact HX|lia]).
      subst X. subst D. cbn [app rev]. apply tr_ok_fempty. eapply ghost_empty. exact Hgh.
  - destruct (oloop_q W D true true _ o o' failed H Hg Hq Hnf) as (R1 & R2 & R3 & _).
    destruct (R3 eq_refl) as (R3a & R3b & (ts & t & R3c & R3d) & R3e).
    destruct R2 as (HW & HW32 & Hidx & HbD & Hgd & Hev & X & HD & HX & Hgh).
    split; [exact R1|]. split; [exact Hgd|]. split; [exact Hev|]. split; [|split; [|exact (R3e eq_refl)]].
    + rewrite R3c. cbn [rev]. rewrite trace_complete_snoc; [reflexivity|]. apply Forall_rev. exact R3d.
    + rewrite HD. apply ghost_final. rewrite R3a, R3b in Hgh. exact Hgh.
Qed.

(* Accumulate *)
Lemma qinv_pre : forall W D c, qinv W D c -> qinv W D (dpre c) /\ ddest (dpre c) = ddest c.
Proof.
  intros W D c Hq. unfold dpre. destruct (2 * dW c <=? didx c) eqn:E; [|split; [exact Hq|reflexivity]].
  destruct Hq as (HW & HW32 & Hidx & HbD & Hgd & Hev & X & HD & HX & Hgh).
  split; [|reflexivity].
  assert (Hlen : lenN (skipn (N.to_nat (didx c - dW c)) (dbuf c)) = lenN (dbuf c) - (didx c - dW c)).
  { unfold lenN. rewrite skipn_length. lia. }
  unfold qinv. cbn [dslide dW didx dbuf ddest dbb dtoks].
  split; [exact HW|]. split; [exact HW32|]. split; [lia|]. split; [exact HbD|].
  split; [exact Hgd|]. split; [exact Hev|].
  exists (X ++ firstn (N.to_nat (didx c - dW c)) (dbuf c)).
  split; [rewrite <- app_assoc, firstn_skipn; exact HD|]. split; [right; lia|].
  apply ghost_slide; [exact Hgh|lia].
Qed.

Lemma qinv_append : forall W D c chunk, qinv W D c -> bytes_ok chunk -> qinv W (D ++ chunk) (dappend c chunk).
Proof.
  intros W D c chunk (HW & HW32 & Hidx & HbD & Hgd & Hev & X & HD & HX & Hgh) Hb.
  unfold qinv. cbn [dappend dW didx dbuf ddest dbb dtoks].
  split; [exact HW|]. split; [exact HW32|]. split; [rewrite lenN_app; lia|].
  split; [apply Forall_app; split; assumption|]. split; [exact Hgd|]. split; [exact Hev|].
  exists X. split; [rewrite HD, app_assoc; reflexivity|]. split; [exact HX|].
  apply ghost_append; assumption.
Qed.

Lemma oaccumulate_q : forall W D o data o1 k trig, o_accumulate o data = (o1, k, trig) ->
  qinv W D (od o) -> bytes_ok data ->
  qinv W (D ++ firstn k data) (od o1) /\ dtrace (ddest (od o1)) = dtrace (ddest (od o)).
Proof.
  intros W D o data o1 k trig H Hq Hb. unfold o_accumulate in H.
  rewrite accumulate_unfold in H. cbv zeta in H. injection H as Ho Hk Ht. subst o1 k. cbn [od olift].
  destruct (qinv_pre W D (od o) Hq) as (Hq1 & Hd1).
  rewrite firstn_firstn_len. split.
  - apply qinv_append; [exact Hq1|]. apply Forall_firstn_. exact Hb.
  - cbn [dappend ddest]. rewrite Hd1. reflexivity.
Qed.

(* ------------------------------------------------------------------ *)
(* 4. Writer.Write's loop and whole histories                           *)

Local Notation O_loop := (write_loop odyn o_accumulate o_compress).
Local Notation O_step := (wstep odyn o_accumulate o_compress odyn_flush o_close o_reset).
Local Notation O_run := (WriterSM.wrun odyn o_accumulate o_compress odyn_flush o_close o_reset).

Lemma owrite_loop_fle : forall fuel o data num o' n failed,
  O_loop fuel o data num = Some (o', n, failed) -> fle o o'.
Proof.
  induction fuel as [|f IH]; intros o data num o' n failed H.
  - destruct data; cbn [write_loop] in H; [|discriminate H]. injection H as Ho _ _. subst o'. apply fle_refl.
  - destruct data as [|x data]; cbn [write_loop] in H.
    + injection H as Ho _ _. subst o'. apply fle_refl.
    + pose proof (oaccumulate_fle o (x :: data)) as F1.
      destruct (o_accumulate o (x :: data)) as [[o1 k] trig]. cbn [fst] in F1. destruct trig.
      * pose proof (ocompress_block_fle o1 false false) as F2. fold (o_compress o1) in F2.
        destruct (o_compress o1) as [o2 failed2]. cbn [fst] in F2. destruct failed2.
        -- injection H as Ho _ _. subst o'. eapply fle_trans; eassumption.
        -- apply IH in H. eapply fle_trans; [exact F1|]. eapply fle_trans; eassumption.
      * apply IH in H. eapply fle_trans; eassumption.
Qed.

Lemma owrite_loop_q : forall W fuel data o D num o' n failed,
  O_loop fuel o data num = Some (o', n, failed) -> ogood o' ->
  qinv W D (od o) -> nonfinal (dtrace (ddest (od o))) -> bytes_ok data ->
  failed = false /\ qinv W (D ++ data) (od o') /\ nonfinal (dtrace (ddest (od o'))).
Proof.
  intros W. induction fuel as [|f IH]; intros data o D num o' n failed H Hg Hq Hnf Hb.
  - destruct data; cbn [write_loop] in H; [|discriminate H]. injection H as Ho _ Hf. subst o' failed.
    rewrite app_nil_r. split; [reflexivity|]. split; assumption.
  - destruct data as [|x data]; cbn [write_loop] in H.
    + injection H as Ho _ Hf. subst o' failed.
      rewrite app_nil_r. split; [reflexivity|]. split; assumption.
    + destruct (o_accumulate o (x :: data)) as [[o1 k] trig] eqn:Ea.
      destruct (oaccumulate_q W D o (x :: data) o1 k trig Ea Hq Hb) as (Hq1 & Htr1).
      assert (Hnf1 : nonfinal (dtrace (ddest (od o1)))) by (rewrite Htr1; exact Hnf).
      assert (Hb' : bytes_ok (skipn k (x :: data))).
      { unfold bytes_ok in *. rewrite Forall_forall in *. intros y Hy. apply Hb.
        eapply In_skipn. exact Hy. }
      assert (HD : D ++ x :: data = (D ++ firstn k (x :: data)) ++ skipn k (x :: data)).
      { rewrite <- app_assoc, firstn_skipn. reflexivity. }
      rewrite HD. destruct trig.
      * destruct (o_compress o1) as [o2 failed2] eqn:Ec.
        assert (Hg2 : ogood o2).
        { destruct failed2; [injection H as Ho _ Hf; subst o' failed; exact Hg|].
          eapply fle_good; [|exact Hg]. eapply owrite_loop_fle. exact H. }
        destruct (ocompress_q W _ o1 o2 failed2 Ec Hg2 Hq1 Hnf1) as (Hf2 & Hq2 & Hnf2).
        subst failed2. eapply IH; eassumption.
      * eapply IH; eassumption.
Qed.

Lemma owstep_fle : forall fuel w o w' e, O_step fuel w o = Some (w', e) -> fle (wc odyn w) (wc odyn w').
Proof.
  intros fuel w o w' e H. destruct o as [d| | |]; cbn [wstep] in H.
  - unfold wwrite in H. destruct (we odyn w).
    + destruct (O_loop fuel (wc odyn w) d 0) as [[[c n] failed]|] eqn:El; [|discriminate H].
      injection H as Hw _. subst w'. cbn [wc]. eapply owrite_loop_fle. exact El.
    + injection H as Hw _. subst w'. apply fle_refl.
    + injection H as Hw _. subst w'. apply fle_refl.
  - unfold wflush in H. destruct (we odyn w).
    + pose proof (oflush_fle (wc odyn w)) as F. destruct (odyn_flush (wc odyn w)) as [c failed].
      injection H as Hw _. subst w'. exact F.
    + injection H as Hw _. subst w'. apply fle_refl.
    + injection H as Hw _. subst w'. apply fle_refl.
  - unfold wclose in H. destruct (we odyn w).
    + pose proof (ocompress_block_fle (wc odyn w) true true) as F. fold (o_close (wc odyn w)) in F.
      destruct (o_close (wc odyn w)) as [c failed].
      injection H as Hw _. subst w'. exact F.
    + injection H as Hw _. subst w'. apply fle_refl.
    + injection H as Hw _. subst w'. apply fle_refl.
  - injection H as Hw _. subst w'. unfold wreset, o_reset. cbn [wc]. apply fle_lift_r, fle_refl.
Qed.

Lemma owrun_fle : forall fuel ops w w' es, O_run fuel w ops = Some (w', es) -> fle (wc odyn w) (wc odyn w').
Proof.
  intros fuel. induction ops as [|o r IH]; intros w w' es H; cbn [WriterSM.wrun] in H.
  - injection H as Hw _. subst w'. apply fle_refl.
  - destruct (O_step fuel w o) as [[w1 e]|] eqn:Es; [|discriminate H].
    destruct (O_run fuel w1 r) as [[w2 es2]|] eqn:Er; [|discriminate H].
    injection H as Hw _. subst w'. eapply fle_trans; [eapply owstep_fle; exact Es|eapply IH; exact Er].
Qed.

Lemma owrun_app : forall fuel a b (w : writer odyn),
  O_run fuel w (a ++ b) =
  match O_run fuel w a with
  | None => None
  | Some (w1, f1) =>
    match O_run fuel w1 b with None => None | Some (w2, f2) => Some (w2, f1 ++ f2) end
  end.
Proof.
  intros fuel. induction a as [|o r IH]; intros b w.
  - cbn [app WriterSM.wrun]. destruct (O_run fuel w b) as [[w2 f2]|]; reflexivity.
  - cbn [app WriterSM.wrun].
    destruct (O_step fuel w o) as [[w1 e]|]; [|reflexivity].
    rewrite IH.
    destruct (O_run fuel w1 r) as [[w2 es]|]; [|reflexivity].
    destruct (O_run fuel w2 b) as [[w3 f3]|]; reflexivity.
Qed.

Lemma orun_q : forall W fuel h w D w' flags, no_close h -> bytes_ok (hist_data h) ->
  O_run fuel w (map hop_op h) = Some (w', flags) -> ogood (wc odyn w') ->
  we odyn w = ENone -> qinv W D (od (wc odyn w)) -> nonfinal (dtrace (ddest (od (wc odyn w)))) ->
  Forall (fun e => e = false) flags /\ we odyn w' = ENone /\
  qinv W (D ++ hist_data h) (od (wc odyn w')) /\ nonfinal (dtrace (ddest (od (wc odyn w')))).
Proof.
  intros W fuel. induction h as [|o r IH]; intros w D w' flags Hnc Hb H Hg Hwe Hq Hnf.
  - cbn [map WriterSM.wrun] in H. injection H as Hw Hfl. subst w' flags.
    split; [constructor|]. split; [exact Hwe|]. cbn [hist_data flat_map]. rewrite app_nil_r.
    split; assumption.
  - inversion Hnc as [|o' r' Ho Hncr]; subst.
    change (hist_data (o :: r)) with ((match o with HWrite d => d | _ => [] end) ++ hist_data r) in *.
    unfold bytes_ok in Hb. apply Forall_app in Hb. destruct Hb as (Hb1 & Hb2).
    cbn [map WriterSM.wrun] in H.
    destruct (O_step fuel w (hop_op o)) as [[w1 e]|] eqn:Es; [|discriminate H].
    destruct (O_run fuel w1 (map hop_op r)) as [[w2 es2]|] eqn:Er; [|discriminate H].
    injection H as Hw Hfl. subst w2 flags.
    assert (Hg1 : ogood (wc odyn w1)).
    { eapply fle_good; [|exact Hg]. eapply owrun_fle. exact Er. }
    destruct o as [d| |]; [| |congruence]; cbn [hop_op wstep] in Es.
    + unfold wwrite in Es. rewrite Hwe in Es.
      destruct (O_loop fuel (wc odyn w) d 0) as [[[c n] failed]|] eqn:El; [|discriminate Es].
      injection Es as Hw He. subst w1 e. cbn [wc] in Hg1.
      destruct (owrite_loop_q W fuel d (wc odyn w) D 0%nat c n failed El Hg1 Hq Hnf Hb1) as (Hf & Hq1 & Hnf1).
      subst failed.
      destruct (IH (mkw odyn c ENone) (D ++ d) w' es2 Hncr Hb2 Er Hg eq_refl Hq1 Hnf1)
        as (Hfl & Hwe' & Hq' & Hnf').
      split; [constructor; [reflexivity|exact Hfl]|]. split; [exact Hwe'|].
      rewrite app_assoc. split; assumption.
    + unfold wflush in Es. rewrite Hwe in Es.
      destruct (odyn_flush (wc odyn w)) as [c failed] eqn:El.
      injection Es as Hw He. subst w1 e. cbn [wc] in Hg1.
      destruct (oflush_q W D (wc odyn w) c failed El Hg1 Hq Hnf) as (Hf & Hq1 & Hnf1 & _).
      subst failed.
      destruct (IH (mkw odyn c ENone) D w' es2 Hncr Hb2 Er Hg eq_refl Hq1 Hnf1)
        as (Hfl & Hwe' & Hq' & Hnf').
      split; [constructor; [reflexivity|exact Hfl]|]. split; [exact Hwe'|].
      cbn [app]. split; assumption.
Qed.

Lemma o_new_q : forall sync level (win4k : bool) answers,
  qinv (if win4k then 4096 else 32768) (@nil N) (od (wc odyn (o_new sync level win4k answers))) /\
  nonfinal (dtrace (ddest (od (wc odyn (o_new sync level win4k answers))))).
Proof.
  intros sync level win4k answers. unfold o_new. cbn [wc od].
  set (W := if win4k then 4096 else 32768).
  assert (HW : 0 < W <= 32768) by (unfold W; destruct win4k; lia).
  split; [|constructor].
  unfold qinv. cbn [dyn_new dW didx dbuf ddest dbb dtoks dest_new dtrace].
  split; [reflexivity|]. split; [exact HW|]. split; [rewrite lenN_nil; lia|]. split; [constructor|].
  split.
  { unfold good. cbn [dfail dchunks dtrace bb_empty bb_out bb_acc rev concat].
    split; [reflexivity|]. split; [reflexivity|]. split; [apply Nat.le_0_l|].
    split; [apply Forall_nil|reflexivity]. }
  split; [constructor|].
  exists []. split; [reflexivity|]. split; [left; reflexivity|].
  exists []. split; [apply tr_ok_nil|]. split; [exact I|]. split; [constructor|reflexivity].
Qed.

(* ------------------------------------------------------------------ *)
(* 5. the end-to-end statements                                         *)

Lemma win_le : forall win4k : bool, (if win4k then 4096 else 32768) <= 32768.
Proof. intros win4k. destruct win4k; lia. Qed.

Theorem oracle_C01 : oracle_C01_statement.
Proof.
  unfold oracle_C01_statement. intros sync level win4k answers h w flags Hnc Hb Hrun Hg.
  unfold ohrun in Hrun. rewrite map_app, owrun_app in Hrun.
  set (fuel := S (length (hist_data (h ++ [HClose])))) in *.
  destruct (O_run fuel (o_new sync level win4k answers) (map hop_op h)) as [[w1 f1]|] eqn:E1;
    [|discriminate Hrun].
  destruct (O_run fuel w1 (map hop_op [HClose])) as [[w2 f2]|] eqn:E2; [|discriminate Hrun].
  injection Hrun as Hw Hfl. subst w2 flags.
  assert (Hg1 : ogood (wc odyn w1)).
  { eapply fle_good; [|exact Hg]. eapply owrun_fle. exact E2. }
  destruct (o_new_q sync level win4k answers) as (Hq0 & Hnf0).
  destruct (orun_q _ fuel h _ [] w1 f1 Hnc Hb E1 Hg1 eq_refl Hq0 Hnf0) as (Hfl1 & Hwe1 & Hq1 & Hnf1).
  cbn [app] in Hq1.
  cbn [map hop_op WriterSM.wrun wstep] in E2. unfold wclose in E2. rewrite Hwe1 in E2.
  destruct (o_close (wc odyn w1)) as [c failed] eqn:Ec.
  injection E2 as Hw Hf2. subst w f2. unfold o_good in Hg. cbn [wc] in Hg.
  destruct (oclose_q _ _ _ _ _ Ec Hg Hq1 Hnf1) as (Hf & Hgd & Hev & Hcomp & Hok & Hacc).
  subst failed. apply tr_ok_data in Hok. destruct Hok as (Hok1 & Hok2).
  unfold o_run_trace, o_run_bytes, o_dest. cbn [wc].
  split; [apply Forall_app; split; [exact Hfl1|constructor; [reflexivity|constructor]]|].
  split; [exact Hok1|]. split; [exact Hok2|].
  destruct Hgd as (_ & _ & _ & Hby & Hbits). rewrite Hacc, app_nil_r in Hbits.
  assert (Hrb : concat (rev (dchunks (ddest (od c)))) =
                bytes_of_bits (trace_bits (rev (dtrace (ddest (od c)))) [])).
  { rewrite <- Hbits. symmetry. apply bytes_bits_id. exact Hby. }
  pose proof (trace_decode_thm (rev (dtrace (ddest (od c)))) Hcomp (Forall_rev Hev)
                (trace_toks_ok_weaken _ _ _ _ (win_le win4k) Hok1)) as HD.
  cbv zeta in HD. rewrite <- Hrb, Hok2 in HD. cbv zeta. exact HD.
Qed.

Theorem oracle_C10 : oracle_C10_statement.
Proof.
  unfold oracle_C10_statement. intros sync level win4k answers h w flags Hnc Hb Hrun Hg.
  unfold ohrun in Hrun. rewrite map_app, owrun_app in Hrun.
  set (fuel := S (length (hist_data (h ++ [HFlush])))) in *.
  destruct (O_run fuel (o_new sync level win4k answers) (map hop_op h)) as [[w1 f1]|] eqn:E1;
    [|discriminate Hrun].
  destruct (O_run fuel w1 (map hop_op [HFlush])) as [[w2 f2]|] eqn:E2; [|discriminate Hrun].
  injection Hrun as Hw Hfl. subst w2 flags.
  assert (Hg1 : ogood (wc odyn w1)).
  { eapply fle_good; [|exact Hg]. eapply owrun_fle. exact E2. }
  destruct (o_new_q sync level win4k answers) as (Hq0 & Hnf0).
  destruct (orun_q _ fuel h _ [] w1 f1 Hnc Hb E1 Hg1 eq_refl Hq0 Hnf0) as (Hfl1 & Hwe1 & Hq1 & Hnf1).
  cbn [app] in Hq1.
  cbn [map hop_op WriterSM.wrun wstep] in E2. unfold wflush in E2. rewrite Hwe1 in E2.
  destruct (odyn_flush (wc odyn w1)) as [c failed] eqn:Ec.
  injection E2 as Hw Hf2. subst w f2. unfold o_good in Hg. cbn [wc] in Hg.
  destruct (oflush_q _ _ _ _ _ Ec Hg Hq1 Hnf1) as (Hf & Hq2 & Hnf2 & (t & Ht) & Hok & Hacc).
  subst failed. apply tr_ok_data in Hok. destruct Hok as (Hok1 & Hok2).
  unfold o_run_trace, o_run_bytes, o_dest. cbn [wc].
  split; [apply Forall_app; split; [exact Hfl1|constructor; [reflexivity|constructor]]|].
  destruct Hq2 as (_ & _ & _ & _ & Hgd & Hev & _).
  destruct Hgd as (_ & _ & _ & Hby & Hbits). rewrite Hacc, app_nil_r in Hbits.
  assert (Hrb : concat (rev (dchunks (ddest (od c)))) =
                bytes_of_bits (trace_bits (rev (dtrace (ddest (od c)))) [])).
  { rewrite <- Hbits. symmetry. apply bytes_bits_id. exact Hby. }
  assert (Htr : rev (dtrace (ddest (od c))) = rev t ++ [ESync]) by (rewrite Ht; reflexivity).
  assert (Hnft : nonfinal (rev t)).
  { rewrite Ht in Hnf2. inversion Hnf2 as [|e0 l0 He0 Hl0]; subst. apply Forall_rev. exact Hl0. }
  assert (Hev' : Forall event_ok (rev t)).
  { rewrite Ht in Hev. inversion Hev as [|e0 l0 He0 Hl0]; subst. apply Forall_rev. exact Hl0. }
  assert (Hok' : trace_toks_ok 32768 (rev t ++ [ESync]) 0).
  { rewrite <- Htr. eapply trace_toks_ok_weaken; [apply (win_le win4k)|exact Hok1]. }
  pose proof (trace_flush_thm (rev t) Hnft Hev' Hok') as HD.
  cbv zeta in HD. rewrite <- Htr, <- Hrb in HD. destruct HD as (H1 & H2 & _).
  cbv zeta. split; [exact H1|]. rewrite H2, <- Hok2, Htr.
  unfold trace_data. rewrite TraceContent.trace_data_rev_app. reflexivity.
Qed.

(* ------------------------------------------------------------------ *)
(* 6. the model's own match finder as the oracle                        *)

(* 6a. completeness of the boolean contract on what lz_ok guarantees *)

Lemma copy_from_suffix : forall n h d, exists Y, copy_from h d n = Y ++ h.
Proof.
  induction n as [|n IH]; intros h d.
  - exists []. reflexivity.
  - cbn [copy_from]. destruct (IH (nth (N.to_nat d - 1) h 0 :: h) d) as (Y & E).
    exists (Y ++ [nth (N.to_nat d - 1) h 0]). rewrite E, <- app_assoc. reflexivity.
Qed.

Lemma expand_suffix : forall ts h, exists Y, expand_rev ts h = Y ++ h.
Proof.
  induction ts as [|t r IH]; intros h.
  - exists []. reflexivity.
  - destruct t as [b|len dist]; cbn [expand_rev].
    + destruct (IH (b :: h)) as (Y & E). exists (Y ++ [b]). rewrite E, <- app_assoc. reflexivity.
    + destruct (copy_from_suffix (N.to_nat len) h dist) as (Y1 & E1).
      destruct (IH (copy_from h dist (N.to_nat len))) as (Y & E).
      exists (Y ++ Y1). rewrite E, E1, app_assoc. reflexivity.
Qed.

Lemma pre_len : forall input n, n <= lenN input -> lenN (pre input n) = n.
Proof. intros input n H. unfold pre. rewrite lenN_rev. apply lenN_firstn. exact H. Qed.

Lemma pre_suffix : forall input e Y Z, e <= lenN input -> pre input e = Y ++ Z ->
  Z = pre input (lenN Z) /\ lenN Z <= e.
Proof.
  intros input e Y Z He H. unfold pre in H.
  apply (f_equal (@rev N)) in H. rewrite rev_involutive, rev_app_distr in H.
  assert (HL : lenN Z <= e).
  { apply (f_equal (@length N)) in H. rewrite app_length, !rev_length, firstn_length in H.
    unfold lenN in *. lia. }
  split; [|exact HL]. unfold pre.
  assert (E : firstn (N.to_nat (lenN Z)) input = rev Z).
  { replace (firstn (N.to_nat (lenN Z)) input)
      with (firstn (N.to_nat (lenN Z)) (firstn (N.to_nat e) input))
      by (rewrite firstn_firstn; f_equal; lia).
    rewrite H. unfold lenN. rewrite Nat2N.id. apply firstn_len_app. apply rev_length. }
  rewrite E. symmetry. apply rev_involutive.
Qed.

Lemma copy_conv : forall input dist (m : nat) off, 1 <= dist -> dist <= off ->
  off + N.of_nat m <= lenN input ->
  copy_from (pre input off) dist m = pre input (off + N.of_nat m) ->
  forall i, i < N.of_nat m ->
    nth (N.to_nat (off - dist + i)) input 0 = nth (N.to_nat (off + i)) input 0.
Proof.
  intros input dist. induction m as [|m IH]; intros off H1 H2 H3 H i Hi; [lia|].
  cbn [copy_from] in H.
  set (x := nth (N.to_nat dist - 1) (pre input off) 0) in *.
  destruct (copy_from_suffix m (x :: pre input off) dist) as (Y & EY).
  rewrite EY in H. symmetry in H.
  destruct (pre_suffix input _ Y _ H3 H) as (HS & _).
  rewrite lenN_cons, pre_len in HS by lia.
  rewrite pre_succ in HS by lia. injection HS as Hx.
  assert (Hx' : x = nth (N.to_nat (off - dist)) input 0).
  { unfold x, pre. rewrite nth_rev_firstn by (unfold lenN in H3; lia). f_equal. lia. }
  destruct (N.eq_dec i 0) as [E0|E0].
  - subst i. rewrite !N.add_0_r. rewrite <- Hx', Hx. reflexivity.
  - replace (off - dist + i) with (off + 1 - dist + (i - 1)) by lia.
    replace (off + i) with (off + 1 + (i - 1)) by lia.
    apply IH; try lia.
    rewrite (pre_succ input off) by lia. rewrite <- Hx.
    replace (off + 1 + N.of_nat m) with (off + N.of_nat (S m)) by lia.
    rewrite H. exact EY.
Qed.

Lemma range_eqb_complete : forall a n p q,
  (forall i, i < N.of_nat n -> aget a (p + i) = aget a (q + i)) -> range_eqb a p q n = true.
Proof.
  intros a. induction n as [|n IH]; intros p q H; [reflexivity|].
  cbn [range_eqb]. apply andb_true_iff. split.
  - specialize (H 0 ltac:(lia)). rewrite !N.add_0_r in H. lia.
  - apply IH. intros i Hi. specialize (H (1 + i) ltac:(lia)). rewrite !N.add_assoc in H. exact H.
Qed.

Lemma toks_cover_complete : forall input W, bytes_ok input ->
  forall ts pos e, toks_ok W pos ts -> pos <= lenN input -> e <= lenN input ->
  expand_rev ts (pre input pos) = pre input e ->
  toks_cover_b (arr_of_list input) W pos ts = Some e.
Proof.
  intros input W Hb. induction ts as [|t r IH]; intros pos e Ht Hp He H.
  - cbn [expand_rev] in H. cbn [toks_cover_b]. f_equal.
    apply (f_equal (@lenN N)) in H. rewrite !pre_len in H by assumption. exact H.
  - cbn [toks_ok] in Ht. destruct Ht as (Ht & Hr).
    destruct t as [b|len dist]; cbn [expand_rev tok_len tok_ok toks_cover_b] in *.
    + destruct (expand_suffix r (b :: pre input pos)) as (Y & EY).
      rewrite EY in H. symmetry in H.
      destruct (pre_suffix input _ Y _ He H) as (HS & HL).
      rewrite lenN_cons, pre_len in HS, HL by assumption.
      rewrite pre_succ in HS by lia. injection HS as Hx.
      assert (Hlt : b < 256).
      { rewrite Hx. unfold bytes_ok in Hb. rewrite Forall_forall in Hb. apply Hb.
        apply nth_In. unfold lenN in *. lia. }
      rewrite aget_of_list, <- Hx.
      replace ((b <? 256) && (b =? b)) with true by lia.
      apply IH; [exact Hr|lia|exact He|].
      rewrite (pre_succ input pos) by lia. rewrite <- Hx. rewrite H. exact EY.
    + destruct (expand_suffix r (copy_from (pre input pos) dist (N.to_nat len))) as (Y & EY).
      rewrite EY in H. symmetry in H.
      destruct (pre_suffix input _ Y _ He H) as (HS & HL).
      rewrite copy_from_len, pre_len in HS, HL by assumption.
      assert (HR : range_eqb (arr_of_list input) (pos - dist) pos (N.to_nat len) = true).
      { apply range_eqb_complete. intros i Hi. rewrite !aget_of_list.
        apply (copy_conv input dist (N.to_nat len) pos); try lia. exact HS. }
      rewrite HR.
      replace ((3 <=? len) && (len <=? 258) && (1 <=? dist) && (dist <=? W) && (dist <=? pos) && true)
        with true by lia.
      apply IH; [exact Hr|lia|exact He|].
      replace (pos + len) with (pos + N.of_nat (N.to_nat len)) by lia.
      rewrite <- HS. rewrite H. exact EY.
Qed.

(* the recorded answer of one call of the model's match finder *)
Definition answer_of (c : dyn) (flush : bool) (new_rev : list tok) (r : lz_res) : lzcall :=
  mkcall flush (lenN (dbuf c)) (dproc c) (didx c) (dntok c) (lz_off r) (rev new_rev) (lz_ntok r).

Lemma answer_ok : forall c flush r, bytes_ok (dbuf c) -> didx c <= lenN (dbuf c) ->
  lz_ok (dW c) (dbuf c) (didx c) (dtoks c) (dntok c) max_token flush r ->
  exists new_rev, lz_toks r = new_rev ++ dtoks c /\
    call_ok_b (dW c) (dbuf c) (answer_of c flush new_rev r) = true.
Proof.
  intros c flush r Hb Hidx (new & K1 & K2 & K3 & K4 & K5 & K6 & K7).
  exists new. split; [exact K1|].
  unfold call_ok_b, answer_of. cbn [k_off k_noff k_new k_ntok0 k_ntok].
  rewrite (toks_cover_complete (dbuf c) (dW c) Hb (rev new) (didx c) (lz_off r) K6 Hidx K4 K5).
  rewrite lenN_rev, K2. lia.
Qed.

(* 6b. the oracle run never touches the table and never flags an out-of-bounds read: its dyn
   state is the model's with an empty table *)
Definition rt (c : dyn) : dyn :=
  mkdyn (dW c) (dmask c) (dsync c) (dbuf c) (didx c) (dproc c) aempty (dtoks c) (dntok c)
        (dbb c) (ddest c) false.

Lemma rt_accumulate : forall c data,
  dyn_accumulate (rt c) data =
  (rt (fst (fst (dyn_accumulate c data))), snd (fst (dyn_accumulate c data)), snd (dyn_accumulate c data)).
Proof.
  intros c data. unfold dyn_accumulate, rt. cbn [dW didx dbuf dmask dsync dproc dtable dtoks dntok dbb ddest doob].
  destruct (2 * dW c <=? didx c); reflexivity.
Qed.

Lemma rt_encode : forall c last,
  dyn_encode_block (rt c) last = (rt (fst (dyn_encode_block c last)), snd (dyn_encode_block c last)).
Proof.
  intros c last. unfold dyn_encode_block, rt. cbn [dW didx dbuf dmask dsync dproc dtable dtoks dntok dbb ddest doob].
  destruct (encode_block (dsync c) (frev (dtoks c)) last (dbb c)) as [chunks bb].
  destruct (dest_write_all (dest_event (ddest c) (EBlock (frev (dtoks c)) last)) chunks) as [d1 failed].
  destruct failed; reflexivity.
Qed.

Lemma encode_ntok : forall c last, snd (dyn_encode_block c last) = false ->
  dntok (fst (dyn_encode_block c last)) = 0.
Proof.
  intros c last. unfold dyn_encode_block.
  destruct (encode_block (dsync c) (frev (dtoks c)) last (dbb c)) as [chunks bb].
  destruct (dest_write_all (dest_event (ddest c) (EBlock (frev (dtoks c)) last)) chunks) as [d1 failed].
  destruct failed; cbn [fst snd dntok]; [discriminate|reflexivity].
Qed.

Definition pinv (c : dyn) : Prop := oinv c /\ bytes_ok (dbuf c) /\ dntok c < max_token.

Lemma args_okb_self : forall c flush new_rev r, args_okb (rt c) flush (answer_of c flush new_rev r) = true.
Proof.
  intros c flush new_rev r. unfold args_okb, answer_of, rt.
  cbn [k_flush k_len k_proc k_off k_ntok0 dbuf dproc didx dntok].
  rewrite Bool.eqb_reflx. lia.
Qed.

Lemma ostep_sim : forall c flush new_rev r a rest mis con n,
  lz_toks r = new_rev ++ dtoks c ->
  call_ok_b (dW c) (dbuf c) (answer_of c flush new_rev r) = true ->
  ostep (mkodyn (rt c) a mis con n) flush (answer_of c flush new_rev r) rest =
  mkodyn (rt (after_lz c r)) rest mis con (n + 1).
Proof.
  intros c flush new_rev r a rest mis con n K1 Hc. unfold ostep. cbn [od o_mismatch o_contract o_calls].
  rewrite args_okb_self. change (dW (rt c)) with (dW c). change (dbuf (rt c)) with (dbuf c).
  rewrite Hc, orb_false_r, andb_true_r. f_equal.
  unfold after_call, after_lz, rt, answer_of.
  cbn [dW didx dbuf dmask dsync dproc dtable dtoks dntok dbb ddest doob k_noff k_new k_ntok].
  rewrite rev_involutive, <- K1. reflexivity.
Qed.

Lemma loop_sim : forall flush final fuel c, pinv c ->
  (N.to_nat (lenN (dbuf c) - didx c) < fuel)%nat ->
  (exists ans, forall rest mis con n,
     odyn_compress_loop fuel (mkodyn (rt c) (ans ++ rest) mis con n) flush final =
     (mkodyn (rt (fst (dyn_compress_loop fuel c flush final))) rest mis con (n + lenN ans),
      snd (dyn_compress_loop fuel c flush final))) /\
  (snd (dyn_compress_loop fuel c flush final) = false -> pinv (fst (dyn_compress_loop fuel c flush final))).
Proof.
  intros flush final. induction fuel as [|f IH]; intros c (Ho & Hb & Hnt) Hf; [lia|].
  rewrite loop_unfold. cbv zeta.
  destruct (lz_oinv c flush Ho) as (Noob & HK & Ho1).
  pose proof Ho as (_ & _ & _ & Hidx & _).
  destruct (answer_ok c flush _ Hb Hidx HK) as (new & K1 & Hc).
  pose proof HK as (new' & _ & _ & K3 & K4 & _ & _ & K7).
  set (r := TraceContent.lzcall c flush) in *. set (c1 := after_lz c r) in *.
  set (k := answer_of c flush new r) in *.
  assert (Hstep : forall a rest mis con n, ostep (mkodyn (rt c) a mis con n) flush k rest =
                                            mkodyn (rt c1) rest mis con (n + 1)).
  { intros a rest mis con n. apply ostep_sim; assumption. }
  change (dntok c1) with (lz_ntok r). change (didx c1) with (lz_off r). change (dbuf c1) with (dbuf c).
  destruct ((lz_ntok r <? max_token) && negb flush) eqn:EA.
  - split.
    + exists [k]. intros rest mis con n. cbn [app fst snd].
      rewrite (oloop_unfold f (mkodyn (rt c) (k :: rest) mis con n) flush final k rest eq_refl). cbv zeta. rewrite Hstep.
      change (k_ntok k) with (lz_ntok r). rewrite EA. reflexivity.
    + intros _. cbn [fst]. split; [exact Ho1|]. split; [exact Hb|]. change (dntok c1) with (lz_ntok r). lia.
  - pose proof (rt_encode c1 (final && (lz_off r =? lenN (dbuf c)))) as RE.
    pose proof (encode_block_oinv c1 (final && (lz_off r =? lenN (dbuf c)))) as EO.
    pose proof (encode_block_frame c1 (final && (lz_off r =? lenN (dbuf c)))) as EF.
    pose proof (encode_ntok c1 (final && (lz_off r =? lenN (dbuf c)))) as EN.
    destruct (dyn_encode_block c1 (final && (lz_off r =? lenN (dbuf c)))) as [c2 failed] eqn:E2.
    cbn [fst snd] in RE, EN. specialize (EO c2 failed eq_refl Ho1).
    destruct (EF c2 failed eq_refl) as (F1 & F2 & F3 & F4 & F5 & F6). clear EF.
    assert (Hcommon : forall rest' mis con n,
      odyn_compress_loop (S f) (mkodyn (rt c) (k :: rest') mis con n) flush final =
      (let o2 := mkodyn (rt c2) rest' mis con (n + 1) in
       if failed then (o2, true) else if lz_off r =? lenN (dbuf c) then (o2, false)
       else odyn_compress_loop f o2 flush final)).
    { intros rest' mis con n.
      rewrite (oloop_unfold f (mkodyn (rt c) (k :: rest') mis con n) flush final k rest' eq_refl). cbv zeta. rewrite Hstep.
      change (k_ntok k) with (lz_ntok r). rewrite EA. cbn [od].
      change (didx (rt c1)) with (lz_off r). change (dbuf (rt c1)) with (dbuf c).
      rewrite RE. reflexivity. }
    assert (Hp2 : failed = false -> pinv c2).
    { intros Ef. split; [exact EO|]. split; [rewrite F2; exact Hb|]. rewrite (EN Ef). exact max_token_pos. }
    destruct failed.
    + split; [|cbn [snd]; intros E; discriminate E].
      exists [k]. intros rest mis con n. cbn [app fst snd]. rewrite Hcommon. reflexivity.
    + destruct (lz_off r =? lenN (dbuf c)) eqn:EE.
      * split; [|intros _; cbn [fst]; apply Hp2; reflexivity].
        exists [k]. intros rest mis con n. cbn [app fst snd]. rewrite Hcommon. reflexivity.
      * assert (Hge : dntok c < lz_ntok r).
        { destruct flush; cbn [negb] in EA; [|lia].
          destruct (N.leb_spec (lz_ntok r) max_token) as [Hle|Hgt]; [|lia].
          specialize (K7 eq_refl Hle). lia. }
        assert (Hadv : didx c < lz_off r).
        { eapply lz_ok_advance; [exact HK|exact Hidx|exact Hge]. }
        destruct (IH c2 (Hp2 eq_refl)) as ((ans2 & IH1) & IH2).
        { rewrite F2, F3. change (didx c1) with (lz_off r). change (dbuf c1) with (dbuf c). lia. }
        split; [|exact IH2].
        exists (k :: ans2). intros rest mis con n. cbn [app]. rewrite Hcommon. cbv zeta.
        rewrite IH1. rewrite lenN_cons. do 2 f_equal. lia.
Qed.

Lemma rt_short : forall c flush final, final && (lenN (dbuf c) =? 0) = true ->
  dyn_compress_block (rt c) flush final =
  (rt (fst (dyn_compress_block c flush final)), snd (dyn_compress_block c flush final)).
Proof.
  intros c flush final E. unfold dyn_compress_block. change (dbuf (rt c)) with (dbuf c). rewrite E.
  change (dbb (rt c)) with (dbb c). change (ddest (rt c)) with (ddest c).
  destruct (bb_take (bb_empty_block true (dbb c))) as [chunk bb].
  destruct (dest_write (dest_event (ddest c) EFinalEmpty) chunk) as [d1 failed]. reflexivity.
Qed.

Lemma cblock_sim : forall flush final c, pinv c ->
  (exists ans, forall rest mis con n,
     odyn_compress_block (mkodyn (rt c) (ans ++ rest) mis con n) flush final =
     (mkodyn (rt (fst (dyn_compress_block c flush final))) rest mis con (n + lenN ans),
      snd (dyn_compress_block c flush final))) /\
  (snd (dyn_compress_block c flush final) = false -> pinv (fst (dyn_compress_block c flush final))).
Proof.
  intros flush final c Hp. destruct (final && (lenN (dbuf c) =? 0)) eqn:E.
  - split.
    + exists []. intros rest mis con n. unfold odyn_compress_block. cbn [od app].
      change (dbuf (rt c)) with (dbuf c). rewrite E, (rt_short c flush final E).
      cbn [olift od o_ans o_mismatch o_contract o_calls]. rewrite lenN_nil, N.add_0_r. reflexivity.
    + intros _. destruct Hp as (Ho & Hb & Hnt).
      split; [apply compress_block_oinv; exact Ho|].
      unfold dyn_compress_block. rewrite E.
      destruct (bb_take (bb_empty_block true (dbb c))) as [chunk bb].
      destruct (dest_write (dest_event (ddest c) EFinalEmpty) chunk) as [d1 failed].
      cbn [fst dbuf dntok]. split; assumption.
  - destruct (loop_sim flush final (S (S (length (dbuf c)))) c Hp (fuel_block c)) as ((ans & S1) & S2).
    unfold dyn_compress_block. rewrite E. split; [|exact S2].
    exists ans. intros rest mis con n. unfold odyn_compress_block. cbn [od].
    change (dbuf (rt c)) with (dbuf c). rewrite E. apply S1.
Qed.

Lemma flush_sim : forall c, pinv c ->
  (exists ans, forall rest mis con n,
     odyn_flush (mkodyn (rt c) (ans ++ rest) mis con n) =
     (mkodyn (rt (fst (dyn_flush c))) rest mis con (n + lenN ans), snd (dyn_flush c))) /\
  (snd (dyn_flush c) = false -> pinv (fst (dyn_flush c))).
Proof.
  intros c Hp. destruct (cblock_sim true false c Hp) as ((ans & S1) & S2). unfold odyn_flush, dyn_flush.
  destruct (dyn_compress_block c true false) as [c1 failed1] eqn:E1. cbn [fst snd] in S1, S2.
  destruct failed1.
  - split; [|cbn [snd]; intros E; discriminate E].
    exists ans. intros rest mis con n. rewrite S1. reflexivity.
  - specialize (S2 eq_refl).
    destruct (bb_take (bb_empty_block false (dbb c1))) as [chunk bb] eqn:Eb.
    destruct (dest_write (dest_event (ddest c1) ESync) chunk) as [d1 failed2] eqn:Ew. split.
    + exists ans. intros rest mis con n. rewrite S1. cbn [od].
      change (dbb (rt c1)) with (dbb c1). change (ddest (rt c1)) with (ddest c1). rewrite Eb, Ew. reflexivity.
    + cbn [fst snd]. intros _. destruct S2 as (Ho & Hb & Hnt).
      split; [eapply oinv_frame; [exact Ho|reflexivity..]|]. cbn [dbuf dntok]. split; assumption.
Qed.

Lemma accumulate_pinv : forall c data, pinv c -> bytes_ok data -> pinv (fst (fst (dyn_accumulate c data))).
Proof.
  intros c data (Ho & Hb & Hnt) Hd. split; [apply accumulate_oinv; exact Ho|].
  rewrite accumulate_unfold. cbv zeta. cbn [fst dappend dbuf dntok]. split.
  - unfold bytes_ok. apply Forall_app. split; [|apply Forall_firstn_; exact Hd].
    unfold dpre. destruct (2 * dW c <=? didx c); [|exact Hb].
    cbn [dslide dbuf]. unfold bytes_ok in Hb. rewrite Forall_forall in *. intros y Hy. apply Hb.
    eapply In_skipn. exact Hy.
  - unfold dpre. destruct (2 * dW c <=? didx c); exact Hnt.
Qed.

Lemma wloop_sim : forall fuel data c num c' n failed, pinv c -> bytes_ok data ->
  write_loop comp c_accumulate c_compress fuel (CDyn c) data num = Some (c', n, failed) ->
  exists ans d', c' = CDyn d' /\ (failed = false -> pinv d') /\
    forall rest mis con m,
      O_loop fuel (mkodyn (rt c) (ans ++ rest) mis con m) data num =
      Some (mkodyn (rt d') rest mis con (m + lenN ans), n, failed).
Proof.
  induction fuel as [|f IH]; intros data c num c' n failed Hp Hb H.
  - destruct data; cbn [write_loop] in H; [|discriminate H]. injection H as Hc Hn Hf. subst c' n failed.
    exists [], c. split; [reflexivity|]. split; [intros _; exact Hp|].
    intros rest mis con m. cbn [write_loop app]. rewrite lenN_nil, N.add_0_r. reflexivity.
  - destruct data as [|x data].
    + cbn [write_loop] in H. injection H as Hc Hn Hf. subst c' n failed.
      exists [], c. split; [reflexivity|]. split; [intros _; exact Hp|].
      intros rest mis con m. cbn [write_loop app]. rewrite lenN_nil, N.add_0_r. reflexivity.
    + cbn [write_loop c_accumulate] in H.
      pose proof (rt_accumulate c (x :: data)) as RA.
      pose proof (accumulate_pinv c (x :: data) Hp Hb) as Hp1.
      destruct (dyn_accumulate c (x :: data)) as [[d1 k] trig] eqn:Ea. cbn [fst snd] in RA, Hp1.
      assert (Hb' : bytes_ok (skipn k (x :: data))).
      { unfold bytes_ok in *. rewrite Forall_forall in *. intros y Hy. apply Hb.
        eapply In_skipn. exact Hy. }
      assert (HA : forall a mis con m,
        o_accumulate (mkodyn (rt c) a mis con m) (x :: data) = (mkodyn (rt d1) a mis con m, k, trig)).
      { intros a mis con m. unfold o_accumulate. cbn [od]. rewrite RA. reflexivity. }
      destruct trig.
      * cbn [c_compress] in H.
        destruct (cblock_sim false false d1 Hp1) as ((ans1 & S1) & S2).
        destruct (dyn_compress_block d1 false false) as [d2 failed2] eqn:Ec. cbn [fst snd] in S1, S2.
        destruct failed2.
        -- injection H as Hc Hn Hf. subst c' n failed.
           exists ans1, d2. split; [reflexivity|]. split; [intros E; discriminate E|].
           intros rest mis con m. cbn [write_loop]. rewrite HA. unfold o_compress. rewrite S1. reflexivity.
        -- destruct (IH _ d2 _ _ _ _ (S2 eq_refl) Hb' H) as (ans2 & d' & Ec' & Hp' & S3).
           exists (ans1 ++ ans2), d'. split; [exact Ec'|]. split; [exact Hp'|].
           intros rest mis con m. cbn [write_loop]. rewrite HA. unfold o_compress.
           rewrite <- app_assoc, S1, S3, lenN_app, N.add_assoc. reflexivity.
      * destruct (IH _ d1 _ _ _ _ Hp1 Hb' H) as (ans2 & d' & Ec' & Hp' & S3).
        exists ans2, d'. split; [exact Ec'|]. split; [exact Hp'|].
        intros rest mis con m. cbn [write_loop]. rewrite HA. apply S3.
Qed.

Lemma run_sim : forall fuel h d e w' flags, (e = ENone -> pinv d) -> bytes_ok (hist_data h) ->
  W_run fuel (mkw comp (CDyn d) e) (map hop_op h) = Some (w', flags) ->
  exists ans d' e', w' = mkw comp (CDyn d') e' /\
    forall rest mis con m,
      O_run fuel (mkw odyn (mkodyn (rt d) (ans ++ rest) mis con m) e) (map hop_op h) =
      Some (mkw odyn (mkodyn (rt d') rest mis con (m + lenN ans)) e', flags).
Proof.
  intros fuel. unfold W_run. induction h as [|o r IH]; intros d e w' flags Hp Hb H.
  - cbn [map WriterSM.wrun] in H. injection H as Hw Hf. subst w' flags.
    exists [], d, e. split; [reflexivity|]. intros rest mis con m.
    cbn [map WriterSM.wrun app]. rewrite lenN_nil, N.add_0_r. reflexivity.
  - change (hist_data (o :: r)) with ((match o with HWrite d => d | _ => [] end) ++ hist_data r) in Hb.
    unfold bytes_ok in Hb. apply Forall_app in Hb. destruct Hb as (Hb1 & Hb2).
    cbn [map WriterSM.wrun] in H.
    destruct (wstep comp c_accumulate c_compress c_flush c_close (c_reset_to None) fuel
                    (mkw comp (CDyn d) e) (hop_op o)) as [[w1 e1]|] eqn:Es; [|discriminate H].
    destruct (WriterSM.wrun comp c_accumulate c_compress c_flush c_close (c_reset_to None) fuel w1
                            (map hop_op r)) as [[w2 es2]|] eqn:Er; [|discriminate H].
    injection H as Hw Hf. subst w2 flags.
    (* one step: the oracle does the same with some answers *)
    assert (Hone : exists ans1 d1 e1', w1 = mkw comp (CDyn d1) e1' /\ (e1' = ENone -> pinv d1) /\
      forall rest mis con m,
        O_step fuel (mkw odyn (mkodyn (rt d) (ans1 ++ rest) mis con m) e) (hop_op o) =
        Some (mkw odyn (mkodyn (rt d1) rest mis con (m + lenN ans1)) e1', e1)).
    { destruct o as [dd| |]; cbn [hop_op wstep] in Es |- *.
      - unfold wwrite in Es |- *. cbn [we wc] in Es |- *. destruct e.
        + destruct (write_loop comp c_accumulate c_compress fuel (CDyn d) dd 0) as [[[c n] failed]|] eqn:El;
            [|discriminate Es].
          injection Es as Hw He. subst w1 e1.
          destruct (wloop_sim fuel dd d 0%nat c n failed (Hp eq_refl) Hb1 El) as (ans1 & d1 & Ec & Hp1 & S1).
          subst c. exists ans1, d1, (if failed then EDest else ENone). split; [reflexivity|].
          split; [destruct failed; [intros E; discriminate E|intros _; apply Hp1; reflexivity]|].
          intros rest mis con m. rewrite S1. reflexivity.
        + injection Es as Hw He. subst w1 e1. exists [], d, EClosed. split; [reflexivity|].
          split; [intros E; discriminate E|]. intros rest mis con m.
          cbn [app]. rewrite lenN_nil, N.add_0_r. reflexivity.
        + injection Es as Hw He. subst w1 e1. exists [], d, EDest. split; [reflexivity|].
          split; [intros E; discriminate E|]. intros rest mis con m.
          cbn [app]. rewrite lenN_nil, N.add_0_r. reflexivity.
      - unfold wflush in Es |- *. cbn [we wc] in Es |- *. destruct e.
        + cbn [c_flush] in Es.
          destruct (flush_sim d (Hp eq_refl)) as ((ans1 & S1) & S2).
          destruct (dyn_flush d) as [d1 failed] eqn:El. cbn [fst snd] in S1, S2.
          injection Es as Hw He. subst w1 e1.
          exists ans1, d1, (if failed then EDest else ENone). split; [reflexivity|].
          split; [destruct failed; [intros E; discriminate E|intros _; apply S2; reflexivity]|].
          intros rest mis con m. rewrite S1. reflexivity.
        + injection Es as Hw He. subst w1 e1. exists [], d, EClosed. split; [reflexivity|].
          split; [intros E; discriminate E|]. intros rest mis con m.
          cbn [app]. rewrite lenN_nil, N.add_0_r. reflexivity.
        + injection Es as Hw He. subst w1 e1. exists [], d, EDest. split; [reflexivity|].
          split; [intros E; discriminate E|]. intros rest mis con m.
          cbn [app]. rewrite lenN_nil, N.add_0_r. reflexivity.
      - unfold wclose in Es |- *. cbn [we wc] in Es |- *. destruct e.
        + cbn [c_close] in Es.
          destruct (cblock_sim true true d (Hp eq_refl)) as ((ans1 & S1) & S2).
          destruct (dyn_compress_block d true true) as [d1 failed] eqn:El. cbn [fst snd] in S1, S2.
          injection Es as Hw He. subst w1 e1.
          exists ans1, d1, (if failed then EDest else EClosed). split; [reflexivity|].
          split; [destruct failed; intros E; discriminate E|].
          intros rest mis con m. unfold o_close. rewrite S1. reflexivity.
        + injection Es as Hw He. subst w1 e1. exists [], d, EClosed. split; [reflexivity|].
          split; [intros E; discriminate E|]. intros rest mis con m.
          cbn [app]. rewrite lenN_nil, N.add_0_r. reflexivity.
        + injection Es as Hw He. subst w1 e1. exists [], d, EDest. split; [reflexivity|].
          split; [intros E; discriminate E|]. intros rest mis con m.
          cbn [app]. rewrite lenN_nil, N.add_0_r. reflexivity. }
    destruct Hone as (ans1 & d1 & e1' & Ew1 & Hp1 & S1). subst w1.
    destruct (IH d1 e1' w' es2 Hp1 Hb2 Er) as (ans2 & d' & e' & Ew' & S2).
    exists (ans1 ++ ans2), d', e'. split; [exact Ew'|].
    intros rest mis con m. cbn [map WriterSM.wrun].
    rewrite <- app_assoc, S1, S2, lenN_app, N.add_assoc. reflexivity.
Qed.

Theorem oracle_refines : oracle_refines_statement.
Proof.
  unfold oracle_refines_statement. intros sync level win4k h w flags Hl Hb Hrun.
  unfold hrun in Hrun.
  set (W := if win4k then 4096 else 32768) in *.
  set (mask := if (level =? 1)%Z then 4095 else 32767).
  assert (Hnew : comp_new sync level win4k None = CDyn (dyn_new W mask sync (dest_new None))).
  { unfold comp_new. destruct Hl as [Hl|[Hl|Hl]]; subst level; reflexivity. }
  rewrite Hnew in Hrun.
  assert (Hp0 : pinv (dyn_new W mask sync (dest_new None))).
  { split; [apply new_oinv; unfold W; destruct win4k; lia|]. split; [constructor|exact max_token_pos]. }
  destruct (run_sim _ h _ ENone w flags (fun _ => Hp0) Hb Hrun) as (ans & d' & e' & Ew & S).
  specialize (S [] false true 0). rewrite app_nil_r in S.
  exists ans, (mkw odyn (mkodyn (rt d') [] false true (0 + lenN ans)) e'), flags.
  split; [exact S|]. split; [split; reflexivity|]. split; [|reflexivity].
  subst w. reflexivity.
Qed.

Print Assumptions call_ok_b_sound.
Print Assumptions oracle_C01.
Print Assumptions oracle_C10.
Print Assumptions oracle_refines.
