(* EngineSafetyLongFitDefs.v -- shared definitions and the statements of the four parts of the proof
   of LongCodesFit (EngineSafetyHeader.v): "the long-code groups of every accepted literal/length
   code fit longCodeLookup[1264]".

   Part A (EngineSafetyLongFitCodes.v)  codes_statement : what setAndExpandLitLenHuffCode stores in
          litAndDistHuff: every non-empty entry is the (bit-reversed, expanded) canonical code of a symbol.
   Part B (EngineSafetyLongFitLoop.v)   groups_statement : elc_loop (encodeLongCodes) does not panic
          if the sum over the 4096 possible group keys of a weight function is at most 1264.
   Part C (EngineSafetyLongFit.v)       the weights of the canonical code are dominated by the value of
          an abstract "track machine" run over the 286 symbols.
   Part D (EngineSafetyLongFitDP.v)     machine_statement : every run of the track machine has value
          <= 1264 (certified dynamic programme).

   NOTE (quirk of the Go code, faithfully modelled): encodeLongCodes marks processed codes with
   invalidCodeValue = 0xFFFFFF, whose low 12 bits are 4095; when the group with key 4095 is
   processed, already marked entries of earlier groups match again, and maxLen becomes the length
   of the last of them: the group 4095 can be as large as 2^(M-12), M the largest expanded length
   of all long codes.  Hence the special treatment of the key 4095 (groups_statement) and the
   component mM of the machine. *)
From Verif Require Import Engine EngineTables.
From Verif Require Import Base EngineSafetyBase EngineSafetyBits EngineSafetyInv.
From Coq Require Import List NArith ZArith Bool Lia ZifyBool ZifyNat ZifyN.
Import ListNotations.
Open Scope N_scope.

(* ---------------------------------------------------------------- the canonical code *)
(* Huffman length of symbol s (0 <= s < 286) in the array of code lengths *)
Definition Hlen (h : arr) (s : N) : N := hc_len (aget h s).

(* number of extra bits of symbol s (0 for the literals and the end-of-block symbol) *)
Definition sym_extra (s : N) : N := if s <? 257 then 0 else aget rfc_len_extra (s - 257).

(* first code of the length l: fcode 1 = 0, fcode (l+1) = 2 * (fcode l + #symbols of length l) *)
Fixpoint fcode (h : arr) (l : nat) : N :=
  match l with
  | O => 0
  | S k => match k with
           | O => 0
           | S _ => 2 * (fcode h k + count_len h 0 286 (N.of_nat k))
           end
  end.

(* canonical code value of symbol s: first code of its length + number of earlier symbols of
   the same length *)
Definition ccode (h : arr) (s : N) : N :=
  fcode h (N.to_nat (Hlen h s)) + count_len h 0 (N.to_nat s) (Hlen h s).

(* the huffCode stored for the expansion x (x < 2^sym_extra s) of symbol s *)
Definition xentry (h : arr) (s x : N) : N :=
  hc_set (N.lor (bitReverse2 (ccode h s) (Hlen h s)) (N.shiftl x (Hlen h s)))
         (Hlen h s + sym_extra s).

(* ---------------------------------------------------------------- Part A *)
Definition codes_statement : Prop :=
  forall d d1,
    rl_post_lit (litAndDistHuff d) (litCount d) (litExpandCount d) ->
    setAndExpandLitLenHuffCode d = (d1, ENone) ->
    let h := litAndDistHuff d in
    (* the code is not over-subscribed *)
    fcode h 15 + count_len h 0 286 15 <= 32768 /\
    (* every entry of non-zero length is an expanded canonical code *)
    (forall t, t < 514 -> hc_len (aget (litAndDistHuff d1) t) <> 0 ->
       exists s x, s < 286 /\ x < 2 ^ sym_extra s /\ Hlen h s <> 0 /\
                   aget (litAndDistHuff d1) t = xentry h s x).

(* ---------------------------------------------------------------- Part B *)
(* sum_{g < n} f g *)
Fixpoint sumN (n : nat) (f : N -> N) : N :=
  match n with O => 0 | S k => sumN k f + f (N.of_nat k) end.

(* the k-th long code of d (k < litCount[22] - litCount[13]): its huffCode *)
Definition long_entry (d : dynHdr) (k : N) : N :=
  aget (litAndDistHuff d) (aget (codeList d) (aget (litCount d) 13 + k)).

Definition groups_statement : Prop :=
  forall d (B : N -> N) (V : N),
    litlen_sorted d ->
    (forall k, k < aget (litCount d) 22 - aget (litCount d) 13 ->
       let v := long_entry d k in
       hc_code v < 1048576 /\
       2 ^ (hc_len v - 12) <= B (N.land (hc_code v) 4095) /\
       2 ^ (hc_len v - 12) <= V /\
       (N.land (hc_code v) 4095 = 4095 -> V <= B 4095)) ->
    sumN 4096 B <= 1264 ->
    long_groups_fit d.

(* ---------------------------------------------------------------- Part D: the track machine *)
(* class of symbol s = its number of extra bits: 0 for 0..264 and 285, 1 for 265..268, ...,
   5 for 281..284 *)
Definition sym_class (s : N) : N :=
  if s <? 265 then 0 else if s =? 285 then 0 else (s - 261) / 4.

(* One track per Huffman length 13, 14, 15 (S = 2, 4, 8 codes per 12-bit prefix).
   oL: number of codes of the current block (prefix) already placed, mL: 0 if the current block is
   empty, otherwise 1 + the largest class in it; mM: a bound for the largest expanded length seen;
   acc: value of the closed blocks and of the symbols not placed on a track. *)
Record mst := mkM { o13 : N; m13 : N; o14 : N; m14 : N; o15 : N; m15 : N; mM : N; acc : N }.

(* value of a block of a track with S codes per block *)
Definition blkval (S m : N) : N := if m =? 0 then 0 else S * 2 ^ (m - 1).

(* place a symbol of class e on a track: (new o, new m, value of the block if it is closed) *)
Definition place (S o m e : N) : N * N * N :=
  let m' := N.max m (e + 1) in
  if o + 1 =? S then (0, 0, blkval S m') else (o + 1, m', 0).

(* symbol of class e, choice c: 13, 14, 15 = placed on that track, anything else = not on a track
   (Huffman length 0..12): then it contributes at most 2^e *)
Definition mstep (e c : N) (st : mst) : mst :=
  if c =? 13 then
    let '(o, m, g) := place 2 (o13 st) (m13 st) e in
    mkM o m (o14 st) (m14 st) (o15 st) (m15 st) (N.max (mM st) (13 + e)) (acc st + g)
  else if c =? 14 then
    let '(o, m, g) := place 4 (o14 st) (m14 st) e in
    mkM (o13 st) (m13 st) o m (o15 st) (m15 st) (N.max (mM st) (14 + e)) (acc st + g)
  else if c =? 15 then
    let '(o, m, g) := place 8 (o15 st) (m15 st) e in
    mkM (o13 st) (m13 st) (o14 st) (m14 st) o m (N.max (mM st) (15 + e)) (acc st + g)
  else
    mkM (o13 st) (m13 st) (o14 st) (m14 st) (o15 st) (m15 st) (N.max (mM st) (12 + e))
        (acc st + 2 ^ e).

(* the three tracks start at arbitrary offsets *)
Definition minit (a b c : N) : mst := mkM a 0 b 0 c 0 15 0.

(* symbols 0 .. n-1, in this order; ch s = the choice for symbol s *)
Fixpoint mrun (ch : N -> N) (n : nat) (st : mst) : mst :=
  match n with
  | O => st
  | S k => mstep (sym_class (N.of_nat k)) (ch (N.of_nat k)) (mrun ch k st)
  end.

(* the open blocks are closed; the last block of track 15 may be inflated to 2^(mM-12) *)
Definition mfinal (st : mst) : N :=
  acc st + blkval 2 (m13 st) + blkval 4 (m14 st) + N.max (blkval 8 (m15 st)) (2 ^ (mM st - 12)).

Definition machine_statement : Prop :=
  forall (ch : N -> N) a b c, a < 2 -> b < 4 -> c < 8 ->
    mfinal (mrun ch 286 (minit a b c)) <= 1264.
