(* EngineRefineLitLenBase.v -- shared lemmas for the proof of gen_litlen_statement
   (proofs/EngineRefineLitLen*.v): arrays, forN/iterN induction, machine integers, bit fields,
   huffCode accessors.  The first part is a copy of proofs/EngineSafetyBase.v (which is being
   edited concurrently and must not be Required from here). *)
From Coq Require Import List NArith ZArith Bool Lia ZifyBool ZifyNat ZifyN.
From Verif Require Import Bits Huffman Inflate.
From Verif Require Import Base EngineTables Engine.
Import ListNotations.
Open Scope N_scope.

(* ---------------------------------------------------------------- arrays *)
Lemma succ_pos_inj : forall i j, N.succ_pos i = N.succ_pos j -> i = j.
Proof.
  intros i j H. apply N.succ_inj. rewrite <- !N.succ_pos_spec. now rewrite H.
Qed.

Lemma aget_aset : forall a i v j, aget (aset a i v) j = if j =? i then v else aget a j.
Proof.
  intros a i v j. unfold aget, aset. destruct (N.eqb_spec j i) as [Heq|Hne].
  - subst j. now rewrite PositiveMap.gss.
  - rewrite PositiveMap.gso; auto. intro H; apply Hne, succ_pos_inj, H.
Qed.

Lemma aget_aset_same : forall a i v, aget (aset a i v) i = v.
Proof. intros. rewrite aget_aset, N.eqb_refl. reflexivity. Qed.

Lemma aget_aset_other : forall a i v j, j <> i -> aget (aset a i v) j = aget a j.
Proof. intros a i v j H. rewrite aget_aset. destruct (N.eqb_spec j i); [contradiction|reflexivity]. Qed.

Lemma aget_empty : forall j, aget aempty j = 0.
Proof. intros j. unfold aget, aempty. now rewrite PositiveMap.gempty. Qed.

(* a property of all entries of an array *)
Definition all_entries (P : N -> Prop) (a : arr) : Prop := forall i, P (aget a i).

Lemma all_entries_empty : forall P : N -> Prop, P 0 -> all_entries P aempty.
Proof. intros P H i. rewrite aget_empty. exact H. Qed.

Lemma all_entries_aset : forall (P : N -> Prop) a i v,
  all_entries P a -> P v -> all_entries P (aset a i v).
Proof.
  intros P a i v Ha Hv j. rewrite aget_aset. destruct (j =? i); [exact Hv|apply Ha].
Qed.

(* ---------------------------------------------------------------- iterN / forN *)
Lemma iterN_ind : forall (St : Type) (P : N -> St -> Prop) (f : N -> St -> St) n i s,
  P i s ->
  (forall j x, i <= j < i + N.of_nat n -> P j x -> P (j + 1) (f j x)) ->
  P (i + N.of_nat n) (iterN n i f s).
Proof.
  intros St P f n. induction n as [|k IH]; intros i s H0 Hstep.
  - cbn [iterN]. replace (i + N.of_nat 0) with i by lia. exact H0.
  - cbn [iterN]. replace (i + N.of_nat (S k)) with ((i + 1) + N.of_nat k) by lia.
    apply IH.
    + apply Hstep; [lia|exact H0].
    + intros j x Hj Hx. apply Hstep; [lia|exact Hx].
Qed.

(* invariant rule for "for i := lo; i < hi; i++" *)
Lemma forN_ind : forall (St : Type) (P : N -> St -> Prop) (f : N -> St -> St) lo hi s,
  lo <= hi ->
  P lo s ->
  (forall j x, lo <= j < hi -> P j x -> P (j + 1) (f j x)) ->
  P hi (forN lo hi f s).
Proof.
  intros St P f lo hi s Hle H0 Hstep. unfold forN.
  replace hi with (lo + N.of_nat (N.to_nat (hi - lo))) at 1 by lia.
  apply iterN_ind; [exact H0|].
  intros j x Hj Hx. apply Hstep; [lia|exact Hx].
Qed.

(* the same without an index in the invariant *)
Lemma forN_inv : forall (St : Type) (P : St -> Prop) (f : N -> St -> St) lo hi s,
  P s ->
  (forall j x, lo <= j < hi -> P x -> P (f j x)) ->
  P (forN lo hi f s).
Proof.
  intros St P f lo hi s H0 Hstep.
  destruct (N.le_gt_cases lo hi) as [Hle|Hgt].
  - apply (forN_ind St (fun _ x => P x)); auto.
  - unfold forN. replace (hi - lo) with 0 by lia. cbn. exact H0.
Qed.

Lemma forN_empty : forall (St : Type) (f : N -> St -> St) lo hi s, hi <= lo -> forN lo hi f s = s.
Proof. intros St f lo hi s H. unfold forN. replace (hi - lo) with 0 by lia. reflexivity. Qed.

(* ---------------------------------------------------------------- machine integers *)
Lemma land_ones_lt : forall x k, N.land x (N.ones k) < 2 ^ k.
Proof. intros x k. rewrite N.land_ones. apply N.mod_lt. apply N.pow_nonzero. lia. Qed.

Lemma u16_lt : forall x, u16 x < 65536.
Proof. intros x. unfold u16. change mask16 with (N.ones 16). apply (land_ones_lt x 16). Qed.
Lemma u32_lt : forall x, u32 x < 4294967296.
Proof. intros x. unfold u32. change mask32 with (N.ones 32). apply (land_ones_lt x 32). Qed.
Lemma u8_lt : forall x, u8 x < 256.
Proof. intros x. unfold u8. change 255 with (N.ones 8). apply (land_ones_lt x 8). Qed.
Lemma u64_lt : forall x, u64 x < 18446744073709551616.
Proof. intros x. unfold u64. change mask64 with (N.ones 64). apply (land_ones_lt x 64). Qed.

Lemma u16_small : forall x, x < 65536 -> u16 x = x.
Proof. intros x H. unfold u16. change mask16 with (N.ones 16). rewrite N.land_ones. apply N.mod_small. exact H. Qed.
Lemma u32_small : forall x, x < 4294967296 -> u32 x = x.
Proof. intros x H. unfold u32. change mask32 with (N.ones 32). rewrite N.land_ones. apply N.mod_small. exact H. Qed.

Lemma u16_mod : forall x, u16 x = x mod 65536.
Proof. intros x. unfold u16. change mask16 with (N.ones 16). now rewrite N.land_ones. Qed.
Lemma u32_mod : forall x, u32 x = x mod 4294967296.
Proof. intros x. unfold u32. change mask32 with (N.ones 32). now rewrite N.land_ones. Qed.

Lemma shiftr_lt : forall x a b, x < 2 ^ (a + b) -> N.shiftr x a < 2 ^ b.
Proof.
  intros x a b H. rewrite N.shiftr_div_pow2.
  apply N.div_lt_upper_bound; [apply N.pow_nonzero; lia|].
  rewrite <- N.pow_add_r. exact H.
Qed.

Lemma land_le_r : forall a b, N.land a b <= b.
Proof.
  intros a b. apply N.ldiff_le. apply N.bits_inj. intro n.
  rewrite N.ldiff_spec, N.land_spec, N.bits_0.
  destruct (N.testbit a n), (N.testbit b n); reflexivity.
Qed.

Lemma land_le_l : forall a b, N.land a b <= a.
Proof. intros a b. rewrite N.land_comm. apply land_le_r. Qed.

(* ---------------------------------------------------------------- bit fields *)
Lemma lor_lt_pow2 : forall a b k, a < 2 ^ k -> b < 2 ^ k -> N.lor a b < 2 ^ k.
Proof.
  intros a b k Ha Hb.
  destruct (N.eq_dec (N.lor a b) 0) as [H0|H0].
  - rewrite H0. apply N.neq_0_lt_0. apply N.pow_nonzero. lia.
  - apply N.log2_lt_pow2; [lia|]. rewrite N.log2_lor.
    assert (Hla : a <> 0 -> N.log2 a < k) by (intro; apply N.log2_lt_pow2; lia).
    assert (Hlb : b <> 0 -> N.log2 b < k) by (intro; apply N.log2_lt_pow2; lia).
    destruct (N.eq_dec a 0) as [Ha0|Ha0]; destruct (N.eq_dec b 0) as [Hb0|Hb0]; subst.
    + rewrite N.lor_0_l in H0. contradiction.
    + change (N.log2 0) with 0. specialize (Hlb Hb0). lia.
    + change (N.log2 0) with 0. specialize (Hla Ha0). lia.
    + specialize (Hla Ha0). specialize (Hlb Hb0). lia.
Qed.

Lemma testbit_small : forall a k n, a < 2 ^ k -> k <= n -> N.testbit a n = false.
Proof.
  intros a k n Ha Hn. destruct (N.eq_dec a 0) as [->|Hz]; [apply N.bits_0|].
  apply N.bits_above_log2. apply N.lt_le_trans with k; [|exact Hn].
  apply N.log2_lt_pow2; lia.
Qed.

(* field extraction from  a | (b << k)  with a < 2^k *)
Lemma shiftr_lor_shiftl : forall a b k, a < 2 ^ k -> N.shiftr (N.lor a (N.shiftl b k)) k = b.
Proof.
  intros a b k Ha. apply N.bits_inj. intro n.
  rewrite N.shiftr_spec by lia. rewrite N.lor_spec.
  rewrite (testbit_small a k (n + k)) by (auto; lia). cbn [orb].
  rewrite N.shiftl_spec_high by lia. f_equal. lia.
Qed.

Lemma land_ones_lor_shiftl : forall a b k, a < 2 ^ k -> N.land (N.lor a (N.shiftl b k)) (N.ones k) = a.
Proof.
  intros a b k Ha. apply N.bits_inj. intro n.
  rewrite N.land_spec, N.lor_spec.
  destruct (N.lt_ge_cases n k) as [Hlt|Hge].
  - rewrite N.ones_spec_low by exact Hlt. rewrite N.shiftl_spec_low by exact Hlt.
    rewrite orb_false_r, andb_true_r. reflexivity.
  - rewrite N.ones_spec_high by exact Hge. rewrite andb_false_r.
    symmetry. apply (testbit_small a k n); auto.
Qed.

Lemma shiftl_lt_pow2 : forall b k m, b < 2 ^ m -> N.shiftl b k < 2 ^ (m + k).
Proof.
  intros b k m H. rewrite N.shiftl_mul_pow2, N.pow_add_r.
  apply N.mul_lt_mono_pos_r; [|exact H]. apply N.neq_0_lt_0, N.pow_nonzero. lia.
Qed.

(* bit set by lor *)
Lemma lor_testbit_r : forall a b n, N.testbit b n = true -> N.testbit (N.lor a b) n = true.
Proof. intros a b n H. rewrite N.lor_spec, H. apply orb_true_r. Qed.
Lemma lor_testbit_l : forall a b n, N.testbit a n = true -> N.testbit (N.lor a b) n = true.
Proof. intros a b n H. rewrite N.lor_spec, H. reflexivity. Qed.

Lemma u32_testbit : forall x n, n < 32 -> N.testbit (u32 x) n = N.testbit x n.
Proof.
  intros x n H. unfold u32. change mask32 with (N.ones 32).
  rewrite N.land_spec, N.ones_spec_low by exact H. apply andb_true_r.
Qed.
Lemma u16_testbit : forall x n, n < 16 -> N.testbit (u16 x) n = N.testbit x n.
Proof.
  intros x n H. unfold u16. change mask16 with (N.ones 16).
  rewrite N.land_spec, N.ones_spec_low by exact H. apply andb_true_r.
Qed.

Lemma land_pow2_testbit : forall x n, N.land x (2 ^ n) = 0 <-> N.testbit x n = false.
Proof.
  intros x n. split; intro H.
  - destruct (N.testbit x n) eqn:E; [|reflexivity].
    exfalso. assert (N.testbit (N.land x (2 ^ n)) n = true).
    { rewrite N.land_spec, E, N.pow2_bits_true. reflexivity. }
    rewrite H, N.bits_0 in H0. discriminate.
  - apply N.bits_inj. intro m. rewrite N.land_spec, N.bits_0.
    destruct (N.eq_dec m n) as [->|Hne]; [rewrite H; reflexivity|].
    rewrite N.pow2_bits_false by auto. apply andb_false_r.
Qed.

(* ---------------------------------------------------------------- additions *)
Lemma forN_aset_get : forall (g : N -> N) lo hi a j, lo <= hi ->
  aget (forN lo hi (fun i t => aset t i (g i)) a) j =
  if (lo <=? j) && (j <? hi) then g j else aget a j.
Proof.
  intros g lo hi a j Hle.
  apply (forN_ind arr (fun k t => forall j, aget t j = if (lo <=? j) && (j <? k) then g j else aget a j)).
  - exact Hle.
  - intros j0. destruct (lo <=? j0) eqn:E1; destruct (j0 <? lo) eqn:E2; try reflexivity. lia.
  - intros k t Hk IH j0. rewrite aget_aset. rewrite IH.
    destruct (N.eqb_spec j0 k) as [->|Hne].
    + replace ((lo <=? k) && (k <? k + 1)) with true by lia. reflexivity.
    + destruct (lo <=? j0) eqn:E1; cbn [andb]; [|reflexivity].
      destruct (j0 <? k) eqn:E2; destruct (j0 <? k + 1) eqn:E3; try reflexivity; lia.
Qed.

Lemma u16_u32 : forall x, u16 (u32 x) = u16 x.
Proof. intros x. unfold u16, u32. rewrite <- N.land_assoc. f_equal. Qed.

Lemma mod16_u32 : forall x, u32 x mod 65536 = x mod 65536.
Proof. intros x. rewrite <- !u16_mod. apply u16_u32. Qed.

Lemma sub32_le : forall a b, b <= a -> sub32 a b = a - b.
Proof. intros a b H. unfold sub32, subw. destruct (b <=? a) eqn:E; [reflexivity|lia]. Qed.

Lemma sub32_gt : forall a b, a < b -> b < 4294967296 -> sub32 a b = a + 4294967296 - b.
Proof. intros a b H Hb. unfold sub32, subw. destruct (b <=? a) eqn:E; [lia|reflexivity]. Qed.

Lemma next_index_eq : forall x, x < 65536 -> u16 (sub16 x 1 + 1) = x.
Proof.
  intros x H2. unfold sub16, subw. destruct (1 <=? x) eqn:E.
  - replace (x - 1 + 1) with x by lia. apply u16_small. exact H2.
  - assert (x = 0) by lia. subst x. vm_compute. reflexivity.
Qed.

Lemma shl32_1 : forall k, k < 32 -> shl32 1 k = 2 ^ k.
Proof.
  intros k Hk. unfold shl32. destruct (32 <=? k) eqn:E; [lia|].
  rewrite N.shiftl_1_l. apply u32_small. change 4294967296 with (2 ^ 32).
  apply N.pow_lt_mono_r; lia.
Qed.

Lemma shl32_small : forall x k m, x < 2 ^ m -> m + k <= 32 -> k < 32 -> shl32 x k = N.shiftl x k.
Proof.
  intros x k m Hx Hm Hk. unfold shl32. destruct (32 <=? k) eqn:E; [lia|].
  apply u32_small. change 4294967296 with (2 ^ 32).
  apply N.lt_le_trans with (2 ^ (m + k)); [apply shiftl_lt_pow2; exact Hx|].
  apply N.pow_le_mono_r; lia.
Qed.

Lemma lt_pow2_mono : forall a m n, a < 2 ^ m -> m <= n -> a < 2 ^ n.
Proof.
  intros a m n Ha Hn. apply N.lt_le_trans with (2 ^ m); [exact Ha|].
  apply N.pow_le_mono_r; [lia|exact Hn].
Qed.

(* a | (b << k) = a + b * 2^k  for a < 2^k *)
Lemma lor_shiftl_add : forall a b k, a < 2 ^ k -> N.lor a (N.shiftl b k) = a + b * 2 ^ k.
Proof.
  intros a b k Ha. rewrite N.shiftl_mul_pow2. symmetry. rewrite N.add_comm.
  rewrite <- N.lxor_lor.
  - rewrite N.add_nocarry_lxor; [apply N.lxor_comm|].
    apply N.bits_inj. intro n. rewrite N.land_spec, N.bits_0.
    destruct (N.lt_ge_cases n k) as [Hlt|Hge].
    + rewrite N.mul_pow2_bits_low by exact Hlt. reflexivity.
    + rewrite (testbit_small a k n Ha Hge). apply andb_false_r.
  - apply N.bits_inj. intro n. rewrite N.land_spec, N.bits_0.
    destruct (N.lt_ge_cases n k) as [Hlt|Hge].
    + rewrite N.mul_pow2_bits_low by exact Hlt. apply andb_false_r.
    + rewrite (testbit_small a k n Ha Hge). reflexivity.
Qed.

Lemma land_ones_mod : forall x k, N.land x (N.ones k) = x mod 2 ^ k.
Proof. intros. apply N.land_ones. Qed.

(* huffCode accessors *)
Lemma hc_set_small : forall c l, c < 16777216 -> l < 256 -> hc_set c l = c + l * 16777216.
Proof.
  intros c l Hc Hl. unfold hc_set.
  rewrite (lor_shiftl_add c l 24) by exact Hc. change (2 ^ 24) with 16777216.
  apply u32_small. lia.
Qed.

Lemma hc_len_set : forall c l, c < 16777216 -> l < 256 -> hc_len (hc_set c l) = l.
Proof.
  intros c l Hc Hl. rewrite hc_set_small by assumption. unfold hc_len.
  rewrite N.shiftr_div_pow2. change (2 ^ 24) with 16777216.
  rewrite N.div_add by lia. rewrite N.div_small by exact Hc. reflexivity.
Qed.

Lemma hc_code_set : forall c l, c < 16777216 -> l < 256 -> hc_code (hc_set c l) = c.
Proof.
  intros c l Hc Hl. rewrite hc_set_small by assumption. unfold hc_code.
  change 16777215 with (N.ones 24). rewrite N.land_ones. change (2 ^ 24) with 16777216.
  rewrite N.mod_add by lia. apply N.mod_small. exact Hc.
Qed.

Lemma hc_set_lt : forall c l, hc_set c l < 4294967296.
Proof. intros. unfold hc_set. apply u32_lt. Qed.

(* marking a code: hc_setcode h 0xFFFFFF *)
Lemma hc_setcode_set : forall c l, c < 16777216 -> l < 256 ->
  hc_setcode (hc_set c l) invalidCodeValue = hc_set invalidCodeValue l.
Proof.
  intros c l Hc Hl. unfold hc_setcode, hc_set, invalidCodeValue, u32.
  change mask32 with (N.ones 32).
  change (N.land 16777215 16777215) with (N.ones 24).
  change 16777215 with (N.ones 24).
  change 4278190080 with (N.shiftl (N.ones 8) 24).
  apply N.bits_inj. intro n.
  rewrite !N.lor_spec, !N.land_spec, !N.lor_spec.
  destruct (N.lt_ge_cases n 24) as [H24|H24].
  - rewrite (N.ones_spec_low 24 n) by exact H24.
    rewrite (N.ones_spec_low 32 n) by lia.
    rewrite orb_true_r. reflexivity.
  - rewrite (N.ones_spec_high 24 n) by exact H24.
    rewrite (testbit_small c 24 n Hc H24).
    rewrite !N.shiftl_spec_high by lia. cbn [orb]. rewrite orb_false_r.
    destruct (N.lt_ge_cases n 32) as [H32|H32].
    + rewrite (N.ones_spec_low 32 n) by exact H32.
      rewrite (N.ones_spec_low 8 (n - 24)) by lia.
      rewrite !andb_true_r. reflexivity.
    + rewrite (N.ones_spec_high 32 n) by exact H32.
      rewrite !andb_false_r. reflexivity.
Qed.

Lemma indexToSym_le : forall x, x < 514 -> indexToSym x <= 512.
Proof. intros x H. unfold indexToSym. destruct (x =? 513) eqn:E; lia. Qed.

Lemma br_drop_0 : forall b, br_drop b 0 = b.
Proof.
  intros [bits len inp inl]. unfold br_drop. cbn [r_bits r_len r_in r_inlen].
  rewrite N.shiftr_0_r. f_equal. lia.
Qed.
