(* EngineCompleteRdHdr2.v -- readHeader with the stronger table predicate tabs_for2
   (RModel/EngineCompleteSpecD.v): proofs/EngineRefineRdHdrA.v (tryDecodeHeader_refine) and
   proofs/EngineRefineRdHdr.v (readHeader_refine_partial) re-run with hdr_result2 instead of
   hdr_result; the only new content is lens_good in the two Huffman cases. *)
From Coq Require Import List NArith ZArith Bool Lia ZifyBool ZifyNat ZifyN.
From Verif Require Import Bits Huffman HuffmanSpec Inflate InflateSpec InflateMono.
From Verif Require Import Base EngineTables Engine EngineRefineSpec EngineRefineSpecBlock
  EngineRefineSpecHdr EngineRefineSpecNeed EngineRefineSpecReach EngineRefineSpecTop
  EngineCompleteSpecA EngineCompleteSpecB EngineCompleteSpecD EngineRefineBits EngineRefineBridge.
From Verif Require Import EngineRefineRdHdrA EngineRefineRdHdrB.
Import ListNotations.
Open Scope N_scope.

Local Opaque setupDynamicHeader prepareForLitBlock.

(* ---------------------------------------------------------------- the fixed code is good *)
Lemma Forall_le15 : forall l, forallb (fun x => Nat.leb x 15) l = true ->
  Forall (fun x => (x <= 15)%nat) l.
Proof.
  intros l H. apply Forall_forall. intros x Hx. rewrite forallb_forall in H.
  apply Nat.leb_le. apply H. exact Hx.
Qed.

Lemma fixed_lens_good : lens_good fixed_lit_lens fixed_dist_lens.
Proof.
  unfold lens_good.
  split; [apply Forall_le15; vm_compute; reflexivity|].
  split; [apply Forall_le15; vm_compute; reflexivity|].
  split; [right; reflexivity|].
  unfold fixed_dist_lens. rewrite repeat_length. lia.
Qed.

(* ---------------------------------------------------------------- tryDecodeHeader *)
Definition tryDecodeHeader_refine_body2 : Prop :=
  forall s e p,
    br_wf (rd s) -> (0 <= r_len (rd s))%Z -> ((Z.of_N p + r_len (rd s)) mod 8 = 0)%Z ->
    let '(s', err) := tryDecodeHeader s in
    same_hdr_frame s s' /\ headerBuffered s' = headerBuffered s /\ headerBuffer s' = headerBuffer s /\
    (err = ENone ->
       br_wf (rd s') /\ (0 <= r_len (rd s'))%Z /\
       hdr_result2 s' (mkbs (br_bits (rd s) ++ e) p) e).

Theorem tryDecodeHeader_refine2 :
  setupDynamicHeader_refine_body2 -> prepareForLitBlock_refine_statement ->
  static_lit_tab_ok_statement -> static_dist_tab_ok_statement -> tryDecodeHeader_refine_body2.
Proof.
  intros HD HP HSL HSD s e p Hwf H0 Hal. unfold tryDecodeHeader.
  destruct (readBits_step s 1 e p Hwf H0 ltac:(lia) Hal) as (bf & bA & RA & WA & TA).
  rewrite RA. cbv beta iota zeta.
  set (sB := set_bfinal (set_rd s bA) bf).
  assert (EBrd : rd sB = bA) by reflexivity.
  destruct (Z.ltb_spec (r_len bA) 0) as [HnegA|HposA].
  { (* out of input after the first bit *)
    destruct (readBits_neg sB 2 ltac:(rewrite EBrd; exact WA) ltac:(rewrite EBrd; exact HnegA))
      as (bt & bC & RC & HnegC).
    rewrite RC. cbv beta iota zeta. cbn [rd set_rd].
    replace (r_len bC <? 0)%Z with true by lia.
    split; [repeat split|]. split; [reflexivity|]. split; [reflexivity|]. discriminate. }
  destruct (TA HposA) as [T1 Hal1].
  destruct (readBits_step sB 2 e (p + 1) ltac:(rewrite EBrd; exact WA) ltac:(rewrite EBrd; exact HposA)
              ltac:(lia) ltac:(rewrite EBrd; exact Hal1)) as (bt & bC & RC & WC & TC).
  rewrite RC. cbv beta iota zeta. rewrite EBrd in TC.
  set (sC := set_rd sB bC).
  assert (ECrd : rd sC = bC) by reflexivity.
  assert (ECbf : bfinal sC = bf) by reflexivity.
  rewrite ECrd.
  destruct (Z.ltb_spec (r_len bC) 0) as [HnegC|HposC].
  { split; [repeat split|]. split; [reflexivity|]. split; [reflexivity|]. discriminate. }
  destruct (TC HposC) as [T2 Hal2].
  change (N.to_nat 1) with 1%nat in T1. change (N.to_nat 2) with 2%nat in T2.
  destruct (N.eqb_spec bt 0) as [Ebt0|Nbt0].
  { (* stored *)
    pose proof (HP sC e (p + 1 + 2)) as P. rewrite ECrd in P. specialize (P WC HposC Hal2).
    destruct (prepareForLitBlock sC) as [s' err].
    destruct P as (SS & OV & _ & _ & OK).
    destruct SS as (S1 & S2 & S3 & S4 & S5 & S6 & S7).
    split; [split; [rewrite S1; reflexivity|split; [rewrite OV; reflexivity|rewrite S7; reflexivity]]|].
    split; [rewrite S4; reflexivity|]. split; [rewrite S5; reflexivity|].
    intros Eerr. destruct (OK Eerr) as (W' & H0' & Hm8 & Hph & len & s4 & nlen & s5 & A1 & A2 & A3 & A4 & A5).
    split; [exact W'|]. split; [exact H0'|].
    exists bf, (mkbs (br_bits bA ++ e) (p + 1)), bt, (mkbs (br_bits bC ++ e) (p + 1 + 2)).
    split; [exact T1|]. split; [exact T2|]. split; [rewrite S3; exact ECbf|].
    right. right. split; [exact Ebt0|]. split; [exact Hph|].
    exists len, s4, nlen, s5.
    split; [exact A1|]. split; [exact A2|]. split; [exact A3|]. split; [exact A4|].
    split; [exact A5|exact Hm8]. }
  destruct (N.eqb_spec bt 1) as [Ebt1|Nbt1].
  { (* fixed *)
    unfold setupStaticHeader.
    split; [repeat split|]. split; [reflexivity|]. split; [reflexivity|].
    intros _. cbn [rd set_phase set_tb]. rewrite ECrd.
    split; [exact WC|]. split; [exact HposC|].
    exists bf, (mkbs (br_bits bA ++ e) (p + 1)), bt, (mkbs (br_bits bC ++ e) (p + 1 + 2)).
    split; [exact T1|]. split; [exact T2|]. split; [reflexivity|].
    left. split; [exact Ebt1|]. split; [reflexivity|].
    destruct fixed_tries_some as (lt & dt & EF & El & Ed).
    exists lt, dt. split; [exact EF|]. split; [|reflexivity].
    cbn [tb set_phase set_tb].
    exists fixed_lit_lens, fixed_dist_lens. split; [exact El|]. split; [exact Ed|].
    split; [exact HSL|]. split; [exact HSD|exact fixed_lens_good]. }
  destruct (N.eqb_spec bt 2) as [Ebt2|Nbt2].
  { (* dynamic *)
    pose proof (HD sC e (p + 1 + 2)) as P. rewrite ECrd in P. specialize (P WC HposC).
    destruct (setupDynamicHeader sC) as [s' err].
    destruct P as (W' & SF & OK).
    destruct SF as (S1 & S2 & S3 & S4 & S5 & S6 & S7).
    split; [split; [rewrite S1; reflexivity|split; [rewrite S2; reflexivity|rewrite S7; reflexivity]]|].
    split; [rewrite S5; reflexivity|]. split; [rewrite S6; reflexivity|].
    intros Eerr. destruct (OK Eerr) as (H0' & Hph & ll & dl & lt & dt & p' & A1 & A2 & A3 & A4 & A5 & A6).
    split; [exact W'|]. split; [exact H0'|].
    exists bf, (mkbs (br_bits bA ++ e) (p + 1)), bt, (mkbs (br_bits bC ++ e) (p + 1 + 2)).
    split; [exact T1|]. split; [exact T2|]. split; [rewrite S3; exact ECbf|].
    right. left. split; [exact Ebt2|]. split; [exact Hph|].
    exists lt, dt, (mkbs (br_bits (rd s') ++ e) p'). split; [exact A1|]. split; [|reflexivity].
    exists ll, dl. split; [exact A2|]. split; [exact A3|]. split; [exact A4|]. split; [exact A5|exact A6]. }
  (* btype 3 *)
  split; [repeat split|]. split; [reflexivity|]. split; [reflexivity|]. discriminate.
Qed.


Print Assumptions tryDecodeHeader_refine2.

Lemma hdr_result2_sfx : forall s' S e, hdr_result2 s' S e ->
  exists k, br_bits (rd s') ++ e = skipn k (bl S).
Proof.
  intros s' S e (bf & x1 & bt & x2 & T1 & T2 & _ & Hc).
  apply take_sfx in T1. apply take_sfx in T2. rewrite T1, skipn_skipn' in T2.
  destruct Hc as [(_ & _ & lt & dt & _ & _ & BL)|[(_ & _ & lt & dt & x3 & DH & _ & BL)|
                  (_ & _ & len & x4 & nlen & x5 & A1 & A2 & _ & _ & BL & _)]].
  - rewrite <- BL, T2. eexists; reflexivity.
  - apply dyn_header_sfx in DH. rewrite <- BL, DH, T2, skipn_skipn'. eexists; reflexivity.
  - apply take_sfx in A1. apply take_sfx in A2. unfold align in A1. cbn [bl] in A1.
    rewrite <- BL, A2, A1, T2, !skipn_skipn'. eexists; reflexivity.
Qed.

Lemma hdr_result2_transfer : forall s2 s' S e' e,
  br_bits (rd s2) ++ e' = br_bits (rd s') ++ e -> r_len (rd s') = r_len (rd s2) ->
  bfinal s' = bfinal s2 -> phase s' = phase s2 -> tb s' = tb s2 ->
  litBlockLength s' = litBlockLength s2 ->
  hdr_result2 s2 S e' -> hdr_result2 s' S e.
Proof.
  intros s2 s' S e' e Eb El Ebf Eph Etb Ell (bf & x1 & bt & x2 & T1 & T2 & Hbf & Hc).
  exists bf, x1, bt, x2. split; [exact T1|]. split; [exact T2|]. split; [rewrite Ebf; exact Hbf|].
  rewrite Eph, Etb, Ell, El, <- Eb.
  exact Hc.
Qed.

Local Opaque tryDecodeHeader.

Lemma hdr_ok_staged_of_empty2 : forall s,
  hdr_ok s -> r_in (rd s) = [] -> r_inlen (rd s) = 0 -> hdr_ok_staged s.
Proof.
  intros s (WL & _) Hin Hlen _. unfold lrd in WL. rewrite Hin, Hlen, app_nil_r, N.add_0_r in WL.
  exact WL.
Qed.

(* the body of readHeader with the tryDecodeHeader result abstracted *)
Definition rh_instance2 (s : inflate) (e : list bool) (p : N) (r : inflate * ierr) : Prop :=
  let '(s', err) := r in
  same_hdr_frame s s' /\
  (err = ENone ->
     br_wf (rd s') /\ (0 <= r_len (rd s'))%Z /\ headerBuffer s' = [] /\ headerBuffered s' = 0 /\
     hdr_result2 s' (mkbs (lbits s ++ e) p) e) /\
  (err = EEndInput ->
     hdr_ok s' /\ hdr_ok_staged s' /\ phase s' = phaseDecodingHeader /\ lbits s' = lbits s /\
     r_in (rd s') = [] /\ r_inlen (rd s') = 0 /\
     r_bits (rd s') = r_bits (rd s) /\ r_len (rd s') = r_len (rd s)).

Lemma rh_vacuous2 : forall s e p s' err,
  same_hdr_frame s s' -> err <> ENone -> err <> EEndInput -> rh_instance2 s e p (s', err).
Proof.
  intros s e p s' err FR N1 N2. unfold rh_instance2.
  split; [exact FR|]. split; intros E; congruence.
Qed.

(* the EEndInput exit: everything is kept *)
Lemma rh_end_input2 : forall s e p s3,
  hdr_ok s -> same_hdr_frame s s3 ->
  N.min (maxHdrSize - headerBuffered s) (r_inlen (rd s)) = r_inlen (rd s) ->
  headerBuffered s + r_inlen (rd s) <= 300 ->
  rh_instance2 s e p
    (set_phase
       (set_rd (set_header s3 (headerBuffered s + N.min (maxHdrSize - headerBuffered s) (r_inlen (rd s)))
                  (headerBuffer s ++ firstn (N.to_nat (N.min (maxHdrSize - headerBuffered s) (r_inlen (rd s))))
                                            (r_in (rd s))))
               (mkBR (r_bits (rd s)) (r_len (rd s)) [] 0))
       phaseDecodingHeader, EEndInput).
Proof.
  intros s e p s3 Hok FR Emin Hle. rewrite Emin.
  pose proof Hok as (WL & H0 & Ehb & Hhb & Hph & Hnb).
  pose proof WL as (L1 & _). unfold lrd in L1. cbn [r_in r_inlen] in L1.
  rewrite app_length in L1.
  assert (Efn : firstn (N.to_nat (r_inlen (rd s))) (r_in (rd s)) = r_in (rd s)).
  { apply firstn_all2. lia. }
  rewrite Efn.
  set (s' := set_phase _ _).
  assert (Elrd : lrd s' = lrd s).
  { unfold lrd, s'. cbn [rd headerBuffer headerBuffered set_phase set_rd set_header r_bits r_len r_in r_inlen].
    rewrite app_nil_r, N.add_0_r. reflexivity. }
  assert (Hok' : hdr_ok s').
  { unfold hdr_ok. rewrite Elrd. split; [exact WL|].
    unfold s'. cbn [rd headerBuffer headerBuffered phase set_phase set_rd set_header r_len].
    split; [exact H0|]. split; [rewrite app_length; lia|]. split; [exact Hle|].
    split; [right; reflexivity|]. intros Hx. discriminate Hx. }
  unfold rh_instance2.
  split; [destruct FR as (F1 & F2 & F3); repeat split; assumption|].
  split; [discriminate|]. intros _.
  split; [exact Hok'|].
  split; [apply hdr_ok_staged_of_empty2; [exact Hok'|reflexivity|reflexivity]|].
  split; [reflexivity|].
  split; [unfold lbits; rewrite Elrd; reflexivity|].
  repeat split.
Qed.

(* ---------------------------------------------------------------- not staged *)
Lemma readHeader_fresh2 : forall s e p,
  (forall s e p,
    br_wf (rd s) -> (0 <= r_len (rd s))%Z -> ((Z.of_N p + r_len (rd s)) mod 8 = 0)%Z ->
    let '(s', err) := tryDecodeHeader s in
    same_hdr_frame s s' /\ headerBuffered s' = headerBuffered s /\ headerBuffer s' = headerBuffer s /\
    (err = ENone ->
       br_wf (rd s') /\ (0 <= r_len (rd s'))%Z /\
       hdr_result2 s' (mkbs (br_bits (rd s) ++ e) p) e)) ->
  header_bound_statement ->
  hdr_ok s -> phase s = phaseNewBlock -> ((Z.of_N p + r_len (rd s)) mod 8 = 0)%Z ->
  rh_instance2 s e p (readHeader s).
Proof.
  intros s e p T HB Hok HphN Hal.
  pose proof Hok as (WL & H0 & Ehb & Hhb & Hph & Hnb).
  specialize (Hnb HphN).
  assert (Ehb0 : headerBuffered s = 0) by (rewrite Ehb, Hnb; reflexivity).
  assert (Elrd : lrd s = rd s).
  { unfold lrd. rewrite Hnb, Ehb0. cbn [app]. rewrite N.add_0_l. destruct (rd s); reflexivity. }
  assert (Wf : br_wf (rd s)) by (rewrite <- Elrd; exact WL).
  assert (Elb : lbits s = br_bits (rd s)) by (unfold lbits; rewrite Elrd; reflexivity).
  unfold readHeader. rewrite HphN. change (phaseNewBlock =? phaseDecodingHeader) with false.
  cbv beta iota zeta. cbn [andb].
  pose proof (T s e p Wf H0 Hal) as R.
  destruct (tryDecodeHeader s) as [s2 err] eqn:ET. destruct R as (FR & B1 & B2 & OK).
  assert (FR0 : same_hdr_frame s (set_header s2 0 [])).
  { destruct FR as (F1 & F2 & F3). repeat split; assumption. }
  destruct err; try (apply rh_vacuous2; [assumption|discriminate|discriminate]).
  - (* ENone *)
    destruct (OK eq_refl) as (W2 & H02 & HR).
    unfold rh_instance2. split; [exact FR0|]. split; [intros _|discriminate].
    cbn [rd headerBuffer headerBuffered set_header].
    split; [exact W2|]. split; [exact H02|]. split; [reflexivity|]. split; [reflexivity|].
    rewrite Elb.
    eapply hdr_result2_transfer; [| | | | | |exact HR]; reflexivity.
  - (* EEndInput *)
    pose proof (HB s s2 Wf H0 ET) as Hb.
    apply rh_end_input2; [exact Hok|exact FR| |].
    + rewrite Ehb0. unfold maxHdrSize. lia.
    + rewrite Ehb0. lia.
Qed.

(* ---------------------------------------------------------------- staged *)
Lemma readHeader_staged2 : forall s e p,
  (forall s e p,
    br_wf (rd s) -> (0 <= r_len (rd s))%Z -> ((Z.of_N p + r_len (rd s)) mod 8 = 0)%Z ->
    let '(s', err) := tryDecodeHeader s in
    same_hdr_frame s s' /\ headerBuffered s' = headerBuffered s /\ headerBuffer s' = headerBuffer s /\
    (err = ENone ->
       br_wf (rd s') /\ (0 <= r_len (rd s'))%Z /\
       hdr_result2 s' (mkbs (br_bits (rd s) ++ e) p) e)) ->
  header_bound_statement ->
  hdr_ok s -> hdr_ok_staged s -> phase s = phaseDecodingHeader ->
  ((Z.of_N p + r_len (rd s)) mod 8 = 0)%Z ->
  rh_instance2 s e p (readHeader s).
Proof.
  intros s e p T HB Hok HS HphD Hal.
  pose proof Hok as (WL & H0 & Ehb & Hhb & Hph & Hnb).
  specialize (HS HphD).
  pose proof WL as (L1 & _ & _ & L4 & _). unfold lrd in L1, L4. cbn [r_in r_inlen] in L1, L4.
  rewrite app_length in L1.
  assert (Einlen : r_inlen (rd s) = N.of_nat (length (r_in (rd s)))) by lia.
  apply Forall_app in L4. destruct L4 as [Fh Fi].
  unfold readHeader. rewrite HphD. change (phaseDecodingHeader =? phaseDecodingHeader) with true.
  cbv beta iota zeta. cbn [andb].
  set (c := N.min (maxHdrSize - headerBuffered s) (r_inlen (rd s))).
  set (fin := firstn (N.to_nat c) (r_in (rd s))).
  set (rest := skipn (N.to_nat c) (r_in (rd s))).
  assert (Hc : c <= r_inlen (rd s)) by (unfold c; lia).
  assert (Lfin : length fin = N.to_nat c) by (unfold fin; apply firstn_length_le; lia).
  assert (Ffin : Forall (fun x => x < 256) fin) by (apply Forall_firstn'; exact Fi).
  assert (Frest : Forall (fun x => x < 256) rest) by (apply Forall_skipn'; exact Fi).
  assert (Esplit : r_in (rd s) = fin ++ rest) by (symmetry; apply firstn_skipn).
  set (s1 := set_rd s (br_set_in (rd s) (headerBuffer s ++ fin) (c + headerBuffered s))).
  assert (W1 : br_wf (rd s1)).
  { pose proof (br_wf_app_in _ fin HS H0 Ffin) as X. cbn zeta in X. cbn [r_bits r_len r_in r_inlen] in X.
    replace (headerBuffered s + N.of_nat (length fin)) with (c + headerBuffered s) in X by lia.
    exact (proj1 X). }
  set (e' := bits_of_bytes rest ++ e).
  assert (Estream : lbits s ++ e = br_bits (rd s1) ++ e').
  { unfold lbits, lrd, br_bits, s1, e'. cbn [rd set_rd br_set_in r_bits r_len r_in].
    rewrite Esplit. rewrite !bits_of_bytes_app, <- !app_assoc. reflexivity. }
  pose proof (T s1 e' p W1 H0 Hal) as R.
  destruct (tryDecodeHeader s1) as [s2 err] eqn:ET. destruct R as (FR & B1 & B2 & OK).
  assert (FR' : same_hdr_frame s s2) by exact FR.
  set (read := (Z.of_N (c + headerBuffered s) - Z.of_N (r_inlen (rd s2)) - Z.of_N (headerBuffered s))%Z).
  assert (Eread : read = (Z.of_N c - Z.of_N (r_inlen (rd s2)))%Z) by (unfold read; lia).
  clearbody read.
  set (b3 := br_set_in (rd s2) (skipn (Z.to_nat read) (r_in (rd s))) (r_inlen (rd s) - Z.to_N read)).
  assert (FR3 : same_hdr_frame s (set_rd s2 b3)).
  { destruct FR' as (F1 & F2 & F3). repeat split; assumption. }
  assert (FR4 : same_hdr_frame s (set_header (set_rd s2 b3) 0 [])).
  { destruct FR' as (F1 & F2 & F3). repeat split; assumption. }
  destruct err; try (apply rh_vacuous2; [exact FR'|discriminate|discriminate]);
    (destruct ((read <? 0)%Z || (Z.of_N (r_inlen (rd s)) <? read)%Z) eqn:Echk;
     [apply rh_vacuous2; [exact FR'|discriminate|discriminate]|]);
    try (apply rh_vacuous2; [exact FR4|discriminate|discriminate]).
  - (* ENone *)
    destruct (OK eq_refl) as (W2 & H02 & HR).
    destruct (hdr_result2_sfx _ _ _ HR) as [k Hk]. cbn [bl] in Hk.
    pose proof W2 as (V1 & _ & _ & V4 & _).
    assert (Hle : (length (r_in (rd s2)) <= length fin)%nat) by lia.
    assert (Fhf : Forall (fun x => x < 256) (headerBuffer s ++ fin)) by (apply Forall_app; split; assumption).
    pose proof (staged_suffix (r_bits (rd s)) (r_bits (rd s2)) (r_len (rd s)) (r_len (rd s2))
                  (headerBuffer s) fin (r_in (rd s2)) e' k Fhf V4 H0 H02 Hk Hle) as Er2.
    assert (Ern : Z.to_nat read = (length fin - length (r_in (rd s2)))%nat) by lia.
    assert (Esk : skipn (Z.to_nat read) (r_in (rd s)) = r_in (rd s2) ++ rest).
    { transitivity (skipn (Z.to_nat read) fin ++ rest); [apply skipn_firstn_split; lia|].
      rewrite Ern, <- Er2. reflexivity. }
    pose proof (br_wf_app_in (rd s2) rest W2 H02 Frest) as X. cbn zeta in X. destruct X as (W3 & Eb3).
    assert (Eb : b3 = mkBR (r_bits (rd s2)) (r_len (rd s2)) (r_in (rd s2) ++ rest)
                           (r_inlen (rd s2) + N.of_nat (length rest))).
    { unfold b3, br_set_in. rewrite Esk. f_equal. unfold rest. rewrite skipn_length. lia. }
    unfold rh_instance2. split; [exact FR4|]. split; [intros _|discriminate].
    rewrite Eb. cbn [rd headerBuffer headerBuffered set_header set_rd].
    split; [exact W3|]. split; [exact H02|]. split; [reflexivity|]. split; [reflexivity|].
    rewrite Estream.
    eapply hdr_result2_transfer; [| | | | | |exact HR]; try reflexivity.
    cbn [rd set_header set_rd]. rewrite Eb3. unfold e'. rewrite app_assoc. reflexivity.
  - (* EEndInput *)
    pose proof (HB s1 s2 W1 H0 ET) as Hb.
    change (r_inlen (rd s1)) with (c + headerBuffered s) in Hb.
    assert (Emin : c = r_inlen (rd s)) by (unfold c, maxHdrSize in *; lia).
    apply rh_end_input2; [exact Hok|exact FR3|exact Emin|lia].
Qed.

(* ---------------------------------------------------------------- readHeader *)
Theorem readHeader_refine2 :
  setupDynamicHeader_refine_body2 -> header_bound_statement ->
  prepareForLitBlock_refine_statement ->
  static_lit_tab_ok_statement -> static_dist_tab_ok_statement -> readHeader_refine_body2.
Proof.
  intros HD HB HP HSL HSD s e p Hok HS Hal.
  pose proof (tryDecodeHeader_refine2 HD HP HSL HSD) as T.
  assert (G : rh_instance2 s e p (readHeader s)).
  { pose proof Hok as (_ & _ & _ & _ & [HphN|HphD] & _).
    - apply readHeader_fresh2; [intros; apply T; assumption|exact HB|exact Hok|exact HphN|exact Hal].
    - apply readHeader_staged2; [intros; apply T; assumption|exact HB|exact Hok|exact HS|exact HphD|exact Hal]. }
  unfold rh_instance2 in G. exact G.
Qed.

Print Assumptions readHeader_refine2.
