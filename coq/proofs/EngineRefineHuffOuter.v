(* EngineRefineHuffOuter.v -- M5, layer C: the outer loop huff_outer (one literal/length table
   lookup per iteration) against the reference. *)
From Coq Require Import List NArith ZArith Bool Lia ZifyBool ZifyNat ZifyN.
From Verif Require Import Bits Huffman HuffmanSpec Inflate InflateSpec InflateMono.
From Verif Require Import Base EngineTables Engine EngineRefineSpec EngineRefineSpecBlock
                          EngineRefineBits EngineRefineBridge.
From Verif Require HuffmanProofs SymbolsProofs EngineFacts.
From Verif Require Import EngineRefineHuffBase EngineRefineHuffSyms EngineRefineHuffDist
                          EngineRefineHuffInner.
Import ListNotations.
Open Scope N_scope.

Lemma huff_outer_S : forall f s b out w,
  huff_outer (S f) s b out w =
  if phase s =? phaseHeaderDecoded then
    match load_lt57 b with
    | None => (s, b, out, w, EPanic)
    | Some bT =>
      match load_le15 bT with
      | None => (s, bT, out, w, EPanic)
      | Some b1 =>
        match litlen_decode (tb s) b1 with
        | None => (s, b1, out, w, EPanic)
        | Some (b2, symCount, nextLits) =>
          if symCount =? 0 then (s, b2, out, w, EInvalidSymbol)
          else if (r_len b2 <? 0)%Z then (s, bT, out, w, EEndInput)
          else
            match huff_inner 8 s b2 out w symCount nextLits bT w with
            | HCont s b out w => huff_outer f s b out w
            | HFin s b out w e => (s, b, out, w, e)
            end
        end
      end
    end
  else (s, b, out, w, ENone).
Proof. reflexivity. Qed.

(* result of the outer loop, relative to the call (s, st, bs0, w) *)
Definition OPost (L0 D : N) (lt dt : trie) (e : list bool) (s : inflate) (st : ostate) (bs0 : bs) (w : N)
    (r : inflate * bitrd * arr * N * ierr) : Prop :=
  let '(s', b', out', w', err) := r in
  exists st' bs' ended o' ph',
    sym_run lt dt st bs0 st' bs' ended /\ s' = upd s ph' o' /\
    Final L0 D o' out' w' st' /\ w <= w' /\ w' <= outLen /\
    ((err = ENone /\ ended = true /\ o' = mkOV L0 0 0 0 /\ good_rd e b' bs' /\ ph' = eob_phase s) \/
     (err = EEndInput /\ ended = false /\ (o' = mkOV L0 0 0 0 \/ o' = ov0) /\ good_rd e b' bs' /\
      ph' = phase s) \/
     (err = EOutputOverflow /\ good_rd e b' bs' /\ w' = outLen /\ ph' = ph_of ended s) \/
     isError err = true \/ err = EPanic \/ err = EFuel).

Lemma Final_ov0 : forall L0 D out w st, winD D out w st -> Final L0 D ov0 out w st.
Proof.
  intros. unfold Final, flush_arr, flush_ovf, ov0. cbn. split; [assumption|]. split; [lia|]. split; [lia|].
  left; reflexivity.
Qed.

Lemma eob_phase_not_hd : forall s, eob_phase s =? phaseHeaderDecoded = false.
Proof. intros s. unfold eob_phase. destruct (bfinal s =? 1); reflexivity. Qed.

Lemma huff_outer_spec : forall L0 D ll dl lt dt e fuel s b out w st bs0,
  mktrie 15 ll = Some lt -> mktrie 15 dl = Some dt ->
  lit_tab_ok ll (tb s) -> dist_tab_ok dl (tb s) ->
  phase s = phaseHeaderDecoded -> ov s = mkOV L0 0 0 0 ->
  winD D out w st -> w <= outLen -> good_rd e b bs0 ->
  OPost L0 D lt dt e s st bs0 w (huff_outer fuel s b out w).
Proof.
  intros L0 D ll dl lt dt e.
  induction fuel as [|f IH]; intros s b out w st bs0 Hlt Hdt Hlit Hdist Hph Hov W Hw (Hwf & H0 & Hbl).
  { cbn [huff_outer OPost]. exists st, bs0, false, (ov s), (phase s).
    split; [apply sr_refl|]. split; [symmetry; apply upd_id|].
    split; [rewrite Hov; apply Final_plain; exact W|]. split; [lia|]. split; [exact Hw|].
    right; right; right; right; right; reflexivity. }
  rewrite huff_outer_S. rewrite Hph. change (phaseHeaderDecoded =? phaseHeaderDecoded) with true. cbv iota.
  destruct (load_lt57_bits b Hwf) as (bT & LT & WfT & BitsT & _ & LenT). rewrite LT.
  destruct (load_le15_bits bT WfT) as (b1 & L1 & Wf1 & Bits1 & _ & Len1). rewrite L1.
  assert (Hs_id : s = upd s (phase s) (mkOV L0 0 0 0)) by (rewrite <- Hov; symmetry; apply upd_id).
  assert (HInv : forall sc nl, Inv L0 D s out w st sc nl).
  { intros sc nl. unfold Inv. rewrite Hov. cbn [copyOverflowLength copyOverflowDistance writeOverflowLen writeOverflowLits].
    split; [reflexivity|]. split; [reflexivity|]. left. auto. }
  assert (GT : good_rd e bT bs0) by (split; [exact WfT|split; [lia|rewrite BitsT; exact Hbl]]).
  (* the three ways out without a decoded symbol *)
  assert (Hfatal : forall bx err, isError err = true ->
            OPost L0 D lt dt e s st bs0 w (s, bx, out, w, err)).
  { intros bx err Herr. cbn [OPost]. exists st, bs0, false, (mkOV L0 0 0 0), (phase s).
    split; [apply sr_refl|]. split; [exact Hs_id|]. split; [apply Final_plain; exact W|].
    split; [lia|]. split; [exact Hw|]. right; right; right; left; exact Herr. }
  assert (Hend : OPost L0 D lt dt e s st bs0 w (s, bT, out, w, EEndInput)).
  { cbn [OPost]. exists st, bs0, false, (mkOV L0 0 0 0), (phase s).
    split; [apply sr_refl|]. split; [exact Hs_id|]. split; [apply Final_plain; exact W|].
    split; [lia|]. split; [exact Hw|]. right; left.
    split; [reflexivity|]. split; [reflexivity|]. split; [left; reflexivity|]. split; [exact GT|reflexivity]. }
  destruct (Hlit b1) as [(syms & Hn & Hlta & Hx & Hdec)|(Hnone & cnt & lits & Hdec & Hcnt)]; rewrite Hdec.
  2:{ (* no extended code word *)
    destruct Hcnt as [->|[-> Hbig]].
    - cbn [N.eqb]. apply Hfatal. reflexivity.
    - change (1 =? 0) with false. cbv iota.
      destruct (Z.ltb_spec (r_len b1) 0) as [Hneg|_]; [lia|].
      rewrite (huff_inner_S 7). change (1 =? 0) with false. cbv iota zeta.
      change 65535 with 0xFFFF in *.
      destruct (N.ltb_spec (N.land lits 0xFFFF) 256) as [Hlt256|_]; [lia|].
      change (1 <? 1) with false. cbn [orb].
      destruct (N.eqb_spec (N.land lits 0xFFFF) 256) as [Heq|_]; [lia|].
      unfold maxLitLenSym. destruct (N.leb_spec (N.land lits 0xFFFF) 512) as [Hle|_]; [lia|].
      apply Hfatal. reflexivity. }
  set (K := N.of_nat (syms_bits syms)) in *.
  set (b2 := br_drop b1 K) in *.
  destruct (N.eqb_spec (N.of_nat (length syms)) 0) as [Hz|_]; [lia|].
  destruct (Z.ltb_spec (r_len b2) 0) as [Hneg|Hge]; [exact Hend|].
  assert (HK : (Z.of_nat (syms_bits syms) <= r_len b1)%Z).
  { unfold b2, br_drop, K in Hge. cbn [r_len] in Hge. lia. }
  destruct (br_drop_bits b1 K Wf1 ltac:(unfold K; lia)) as (Wf2 & _ & _). fold b2 in Wf2.
  pose proof (xseq_pend (xcodes ll) e syms b1 Wf1 HK Hx) as Hp. fold K b2 in Hp.
  rewrite Bits1, BitsT, <- Hbl in Hp.
  pose proof (huff_inner_spec L0 D ll dl lt dt e bT w 8 s b2 out w syms st bs0 Hlt Hdt Hdist
               (HInv _ _) Hw ltac:(lia) Wf2 Hge Hlta ltac:(lia) Hp) as HP.
  destruct (huff_inner 8 s b2 out w (N.of_nat (length syms)) (pack_syms syms) bT w)
    as [s1 b3 out1 w1|s1 b3 out1 w1 err]; cbn [Post] in HP.
  - (* go on with the next entry *)
    destruct HP as (st1 & bs1 & ended & R & Es1 & G1 & W1 & Hw1 & Hw1').
    destruct ended.
    + (* the block ended: the next iteration returns nil *)
      unfold ph_of in Es1.
      destruct f as [|f'].
      * cbn [huff_outer OPost]. exists st1, bs1, true, (mkOV L0 0 0 0), (eob_phase s).
        split; [exact R|]. split; [exact Es1|]. split; [apply Final_plain; exact W1|].
        split; [exact Hw1|]. split; [exact Hw1'|]. right; right; right; right; right; reflexivity.
      * rewrite huff_outer_S.
        assert (Eph : phase s1 =? phaseHeaderDecoded = false).
        { rewrite Es1. unfold upd. cbn [set_ov set_phase phase]. apply eob_phase_not_hd. }
        rewrite Eph. cbn [OPost]. exists st1, bs1, true, (mkOV L0 0 0 0), (eob_phase s).
        split; [exact R|]. split; [exact Es1|]. split; [apply Final_plain; exact W1|].
        split; [exact Hw1|]. split; [exact Hw1'|]. left.
        split; [reflexivity|]. split; [reflexivity|]. split; [reflexivity|]. split; [exact G1|reflexivity].
    + unfold ph_of in Es1. rewrite <- Hs_id in Es1. subst s1.
      pose proof (IH s b3 out1 w1 st1 bs1 Hlt Hdt Hlit Hdist Hph Hov W1 Hw1' G1) as HO.
      destruct (huff_outer f s b3 out1 w1) as [[[[s' b'] out'] w'] err]. cbn [OPost] in *.
      destruct HO as (st' & bs' & ended & o' & ph' & R2 & E2 & F2 & H1 & H2 & H3).
      exists st', bs', ended, o', ph'. split; [eapply sym_run_trans; eassumption|].
      split; [exact E2|]. split; [exact F2|]. split; [lia|]. split; [exact H2|exact H3].
  - cbn [OPost].
    destruct HP as [(E1 & E2 & E3 & E4 & E5)|(st' & bs' & ended & o' & R & Es1 & F & H1 & H2 & H3)].
    + (* roll-back to the start of this entry *)
      subst err b3 w1. exists st, bs0, false, ov0, (phase s).
      split; [apply sr_refl|]. split; [exact E5|].
      split; [apply Final_ov0; apply (winD_ext D out); [exact W|exact E4]|].
      split; [lia|]. split; [exact Hw|]. right; left.
      split; [reflexivity|]. split; [reflexivity|]. split; [right; reflexivity|]. split; [exact GT|reflexivity].
    + exists st', bs', ended, o', (ph_of ended s). split; [exact R|]. split; [exact Es1|].
      split; [exact F|]. split; [exact H1|]. split; [exact H2|].
      destruct H3 as [(Ee & G & Ew)|H3].
      * right; right; left. split; [exact Ee|]. split; [exact G|]. split; [exact Ew|reflexivity].
      * right; right; right. exact H3.
Qed.
