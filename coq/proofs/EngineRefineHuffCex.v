(* EngineRefineHuffCex.v -- M5: decodeHuffman_refine_statement and decodeHuffman_refine2_statement
   are false as written (a stale writeOverflowLits with writeOverflowLen = 0 survives a call
   that parks nothing, so `ov s2 = ov0` fails).  See EngineRefineHuffMain.v for what holds. *)
From Coq Require Import List NArith ZArith Bool Lia ZifyBool ZifyNat ZifyN.
From Verif Require Import Bits Huffman HuffmanSpec Inflate InflateSpec InflateMono.
From Verif Require Import Base EngineTables Engine EngineRefineSpec EngineRefineSpecBlock
                          EngineRefineSpecBlock2 EngineRefineBits EngineRefineBridge.
From Verif Require EngineRefineStatic.
Import ListNotations.
Open Scope N_scope.

(* ---------------------------------------------------------------- the statements as written
   are false *)
Definition cex_state : inflate :=
  mkInflate br0 true (mkOV 5 0 0 0) static_tabs phaseHeaderDecoded 0 0 0 [] dyn0 0%Z.
Definition cex_ost : ostate := mkost [] 0 0 0 [].

Lemma cex_hyps : forall lt dt,
  mktrie 15 fixed_lit_lens = Some lt -> mktrie 15 fixed_dist_lens = Some dt ->
  br_wf (rd cex_state) /\ (0 <= r_len (rd cex_state))%Z /\
  phase cex_state = phaseHeaderDecoded /\ (bfinal cex_state = 0 \/ bfinal cex_state = 1) /\
  writeOverflowLen (ov cex_state) = 0 /\ tabs_for (tb cex_state) lt dt /\
  win_rel aempty 0 cex_ost /\ 0 <= outLen.
Proof.
  intros lt dt Hlt Hdt.
  split.
  { unfold br_wf, cex_state, br0. cbn [rd r_inlen r_in r_len r_bits length].
    split; [reflexivity|]. split; [lia|]. split; [reflexivity|]. split; [constructor|].
    intros i Hi. rewrite N.bits_0 in Hi. discriminate. }
  split; [cbn; lia|]. split; [reflexivity|]. split; [left; reflexivity|]. split; [reflexivity|].
  split.
  { exists fixed_lit_lens, fixed_dist_lens. split; [exact Hlt|]. split; [exact Hdt|].
    split; [exact EngineRefineStatic.static_lit_tab_ok|exact EngineRefineStatic.static_dist_tab_ok]. }
  split.
  { unfold win_rel, cex_ost. cbn [oavail olen rout length]. split; [reflexivity|]. split; [reflexivity|].
    split; [lia|]. split; [left; reflexivity|]. intros i Hi. lia. }
  unfold outLen. lia.
Qed.

Lemma cex_run : decodeHuffman cex_state aempty 0 = (cex_state, aempty, 0, EEndInput).
Proof. vm_compute. reflexivity. Qed.

Lemma cex_flush : flush_ov cex_state aempty 0 = (cex_state, aempty, 0).
Proof. vm_compute. reflexivity. Qed.

Lemma cex_ov : ov cex_state <> ov0.
Proof. unfold cex_state, ov0. cbn [ov]. discriminate. Qed.

Theorem decodeHuffman_refine_statement_false : ~ decodeHuffman_refine_statement.
Proof.
  intros H.
  destruct (mktrie 15 fixed_lit_lens) as [lt|] eqn:Hlt; [|vm_compute in Hlt; discriminate].
  destruct (mktrie 15 fixed_dist_lens) as [dt|] eqn:Hdt; [|vm_compute in Hdt; discriminate].
  destruct (cex_hyps lt dt Hlt Hdt) as (P1 & P2 & P3 & P4 & P5 & P6 & P7 & P8).
  specialize (H cex_state aempty 0 lt dt cex_ost [] 0 P1 P2 P3 P4 P5 P6 P7 P8).
  rewrite cex_run in H. cbv beta iota zeta in H. rewrite cex_flush in H. cbv beta iota zeta in H.
  destruct H as (st' & bs' & ended & C1 & C2 & C3 & C4 & C5 & C6 & C7 & C8 & C9 & C10 & C11 & C12 & C13 & C14 & C15).
  exact (cex_ov C14).
Qed.

Theorem decodeHuffman_refine2_statement_false : ~ decodeHuffman_refine2_statement.
Proof.
  intros H.
  destruct (mktrie 15 fixed_lit_lens) as [lt|] eqn:Hlt; [|vm_compute in Hlt; discriminate].
  destruct (mktrie 15 fixed_dist_lens) as [dt|] eqn:Hdt; [|vm_compute in Hdt; discriminate].
  destruct (cex_hyps lt dt Hlt Hdt) as (P1 & P2 & P3 & P4 & P5 & P6 & P7 & P8).
  specialize (H cex_state aempty 0 lt dt cex_ost [] 0 P1 P2 P3 P4 P5 P6 P7 P8).
  rewrite cex_run in H. cbv beta iota zeta in H. rewrite cex_flush in H. cbv beta iota zeta in H.
  destruct H as (st' & bs' & ended & C1 & C2 & C3 & C4 & C5 & C6 & C7 & C8 & C9 & C10 & C11 & C12 & C13 & C14 & C15 & C16).
  exact (cex_ov C15).
Qed.

Print Assumptions decodeHuffman_refine_statement_false.
Print Assumptions decodeHuffman_refine2_statement_false.
