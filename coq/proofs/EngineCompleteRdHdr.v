(* EngineCompleteRdHdr.v -- completeness side, block headers: tryDecodeHeader / readHeader
   return EInvalidBlock only if the reference cannot take a block-header step from there
   (whatever follows), unless the block is not strict.
   Statements in RModel/EngineCompleteSpecB.v. *)
From Coq Require Import List NArith ZArith Bool Lia ZifyBool ZifyNat ZifyN.
From Verif Require Import Bits Huffman HuffmanSpec Inflate InflateSpec InflateMono.
From Verif Require Import Base EngineTables Engine EngineRefineSpec EngineRefineSpecBlock
  EngineRefineSpecHdr EngineRefineSpecNeed EngineRefineSpecReach EngineRefineSpecTop
  EngineCompleteSpecA EngineCompleteSpecB EngineRefineBits EngineRefineBridge.
From Verif Require Import EngineRefineRdHdrA EngineRefineRdHdrB.
Import ListNotations.
Open Scope N_scope.

(* ---------------------------------------------------------------- a block-header step *)
Lemma rstep_block_inv : forall st S c', rstep (CBlock st S) c' ->
  exists bf s1 bt s2,
    take 1 S = Some (bf, s1) /\ take 2 s1 = Some (bt, s2) /\
    (bt = 1 \/
     (bt = 2 /\ exists lt dt s3, dyn_header s2 = HOk (lt, dt) s3) \/
     (bt = 0 /\ exists len s4 nlen s5,
        take 16 (align s2) = Some (len, s4) /\ take 16 s4 = Some (nlen, s5) /\
        len + nlen = 65535)).
Proof.
  intros st S c' H.
  inversion H as [st0 S0 bf y1 y2 lt dt A1 A2 A3
                 |st0 S0 bf y1 y2 lt dt y3 A1 A2 A3
                 |st0 S0 bf y1 y2 len y4 nlen y5 A1 A2 A3 A4 A5| | | | ]; subst.
  - exists bf, y1, 1, y2. split; [exact A1|]. split; [exact A2|]. left. reflexivity.
  - exists bf, y1, 2, y2. split; [exact A1|]. split; [exact A2|]. right. left.
    split; [reflexivity|]. exists lt, dt, y3. exact A3.
  - exists bf, y1, 0, y2. split; [exact A1|]. split; [exact A2|]. right. right.
    split; [reflexivity|]. exists len, y4, nlen, y5. repeat split; assumption.
Qed.

(* ---------------------------------------------------------------- prepareForLitBlock rejects:
   LEN and NLEN were read from four whole bytes behind the byte boundary, and do not match *)
Lemma prepareForLitBlock_reject : forall s e p,
  br_wf (rd s) -> (0 <= r_len (rd s))%Z -> ((Z.of_N p + r_len (rd s)) mod 8 = 0)%Z ->
  snd (prepareForLitBlock s) = EInvalidBlock ->
  exists len s4 nlen s5,
    take 16 (align (mkbs (br_bits (rd s) ++ e) p)) = Some (len, s4) /\
    take 16 s4 = Some (nlen, s5) /\ len + nlen <> 65535.
Proof.
  intros s e p Hwf H0 Hal H.
  unfold prepareForLitBlock, loadBits in H.
  destruct (load_lt57_bits (rd s) Hwf) as (b1 & L1 & W1 & Eb & _ & Hle).
  rewrite L1 in H. cbv zeta in H. cbn [rd set_rd] in H.
  destruct (r_len b1 <? 0)%Z eqn:En; [cbn [snd] in H; discriminate|].
  set (n1 := Z.to_N (r_len b1)) in *.
  destruct (u8 (n1 / 8) <? 4) eqn:E4; [cbn [snd] in H; discriminate|].
  set (k0 := n1 mod 8) in *.
  set (bits := N.shiftr (r_bits b1) k0) in *.
  set (len := N.land bits 65535) in *.
  set (nlen := N.land (N.shiftr bits 16) 65535) in *.
  destruct (negb (len =? 65535 - nlen)) eqn:Eneq.
  2: { match type of H with context [if ?c then _ else _] => destruct c end;
       cbn [snd] in H; discriminate. }
  clear H.
  pose proof W1 as (_ & W64 & _).
  assert (Hn1 : Z.of_N n1 = r_len b1) by (unfold n1; lia).
  assert (Hu8 : u8 (n1 / 8) = n1 / 8).
  { unfold u8. change 255 with (N.ones 8). rewrite N.land_ones. apply N.mod_small.
    change (2 ^ 8) with 256. zify. Z.div_mod_to_equations. lia. }
  rewrite Hu8 in E4.
  assert (H32 : 32 <= n1 - k0 /\ k0 <= n1 /\ k0 < 8).
  { unfold k0. zify. Z.div_mod_to_equations. lia. }
  (* the alignment at the loaded reader *)
  assert (Hal1 : ((Z.of_N p + r_len b1) mod 8 = 0)%Z).
  { pose proof (f_equal (@length bool) Eb) as EL. rewrite !br_bits_length in EL.
    Z.div_mod_to_equations. lia. }
  assert (Ek : (8 - p mod 8) mod 8 = k0).
  { unfold k0. zify. Z.div_mod_to_equations. lia. }
  destruct (br_drop_bits b1 k0 W1 ltac:(lia)) as (W2 & Eb2 & Hk0).
  set (b2 := br_drop b1 k0) in *.
  assert (Hl2 : r_len b2 = (r_len b1 - Z.of_N k0)%Z) by reflexivity.
  pose proof (next_bits_take b2 16 e (p + k0) W2 ltac:(lia)) as X3.
  unfold next_bits in X3. destruct X3 as [W3 X3].
  set (b3 := br_drop b2 16) in *.
  assert (Hl3 : r_len b3 = (r_len b2 - 16)%Z) by reflexivity.
  pose proof (next_bits_take b3 16 e (p + k0 + 16) W3 ltac:(lia)) as X4.
  unfold next_bits in X4. destruct X4 as [W4 X4].
  change (N.to_nat 16) with 16%nat in X3, X4. change (N.ones 16) with 65535 in X3, X4.
  exists len, (mkbs (br_bits b3 ++ e) (p + k0 + 16)), nlen,
         (mkbs (br_bits (br_drop b3 16) ++ e) (p + k0 + 16 + 16)).
  split; [|split].
  - unfold align. cbn [bl bp]. rewrite Ek. rewrite <- Eb.
    rewrite EngineRefineRdHdrB.skipn_app_le by exact Hk0. rewrite <- Eb2. exact X3.
  - exact X4.
  - assert (Hnl : nlen < 65536).
    { unfold nlen. change 65535 with (N.ones 16). rewrite N.land_ones. apply N.mod_lt. discriminate. }
    clearbody len nlen. lia.
Qed.

Local Opaque setupDynamicHeader prepareForLitBlock.

(* ---------------------------------------------------------------- tryDecodeHeader *)
Theorem tryDecodeHeader_reject :
  setupDynamicHeader_reject_body -> setupDynamicHeader_refine_body ->
  prepareForLitBlock_refine_statement -> tryDecodeHeader_reject_body.
Proof.
  intros HR _ _ s e p st Hwf H0 Hal Herr Hstrict c' Hstep.
  apply rstep_block_inv in Hstep. destruct Hstep as (bf' & x1 & bt' & x2 & A1 & A2 & Hc).
  unfold tryDecodeHeader in Herr.
  destruct (readBits_step s 1 e p Hwf H0 ltac:(lia) Hal) as (bf & bA & RA & WA & TA).
  rewrite RA in Herr. cbv beta iota zeta in Herr.
  set (sB := set_bfinal (set_rd s bA) bf) in *.
  assert (EBrd : rd sB = bA) by reflexivity.
  destruct (Z.ltb_spec (r_len bA) 0) as [HnegA|HposA].
  { destruct (readBits_neg sB 2 ltac:(rewrite EBrd; exact WA) ltac:(rewrite EBrd; exact HnegA))
      as (bt & bC & RC & HnegC).
    rewrite RC in Herr. cbv beta iota zeta in Herr. cbn [rd set_rd] in Herr.
    replace (r_len bC <? 0)%Z with true in Herr by lia. cbn [snd] in Herr. discriminate. }
  destruct (TA HposA) as [T1 Hal1].
  destruct (readBits_step sB 2 e (p + 1) ltac:(rewrite EBrd; exact WA) ltac:(rewrite EBrd; exact HposA)
              ltac:(lia) ltac:(rewrite EBrd; exact Hal1)) as (bt & bC & RC & WC & TC).
  rewrite RC in Herr. cbv beta iota zeta in Herr. rewrite EBrd in TC.
  set (sC := set_rd sB bC) in *.
  assert (ECrd : rd sC = bC) by reflexivity.
  rewrite ECrd in Herr.
  destruct (Z.ltb_spec (r_len bC) 0) as [HnegC|HposC]; [cbn [snd] in Herr; discriminate|].
  destruct (TC HposC) as [T2 Hal2].
  change (N.to_nat 1) with 1%nat in T1. change (N.to_nat 2) with 2%nat in T2.
  (* the reference reads the same three bits *)
  rewrite T1 in A1. inversion A1; subst bf' x1. clear A1.
  rewrite T2 in A2. inversion A2; subst bt' x2. clear A2.
  destruct (N.eqb_spec bt 0) as [E0|N0].
  { destruct Hc as [Hc|[(Hc & _)|(_ & len & s4 & nlen & s5 & B1 & B2 & B3)]]; [lia|lia|].
    destruct (prepareForLitBlock_reject sC e (p + 1 + 2) WC HposC Hal2 Herr)
      as (len' & s4' & nlen' & s5' & C1 & C2 & C3).
    change (rd sC) with bC in C1.
    rewrite B1 in C1. inversion C1; subst len' s4'.
    rewrite B2 in C2. inversion C2; subst nlen' s5'. contradiction. }
  destruct (N.eqb_spec bt 1) as [E1|N1]; [cbn [snd] in Herr; discriminate|].
  destruct (N.eqb_spec bt 2) as [E2|N2]; [|destruct Hc as [Hc|[(Hc & _)|(Hc & _)]]; lia].
  destruct Hc as [Hc|[(_ & lt & dt & s3 & DH)|(Hc & _)]]; [lia| |lia].
  destruct (HR sC e (p + 1 + 2) WC HposC Herr lt dt s3 DH) as (ll & dl & s3' & DL & Hfit).
  change (rd sC) with bC in DL. subst bt.
  pose proof (Hstrict bf _ _ ll dl s3' T1 T2 DL) as Hfit'. congruence.
Qed.

Print Assumptions tryDecodeHeader_reject.

(* ---------------------------------------------------------------- readHeader *)
Local Opaque tryDecodeHeader.

Theorem readHeader_reject : tryDecodeHeader_reject_body -> readHeader_reject_body.
Proof.
  intros TR s e p st Hok HS Hal Herr Hstrict c'.
  pose proof Hok as (WL & H0 & Ehb & Hhb & [HphN|HphD] & Hnb).
  - (* not staged *)
    specialize (Hnb HphN).
    assert (Ehb0 : headerBuffered s = 0) by (rewrite Ehb, Hnb; reflexivity).
    assert (Elrd : lrd s = rd s).
    { unfold lrd. rewrite Hnb, Ehb0. cbn [app]. rewrite N.add_0_l. destruct (rd s); reflexivity. }
    assert (Wf : br_wf (rd s)) by (rewrite <- Elrd; exact WL).
    assert (Elb : lbits s = br_bits (rd s)) by (unfold lbits; rewrite Elrd; reflexivity).
    rewrite Elb in *.
    apply (TR s e p st Wf H0 Hal); [|exact Hstrict].
    unfold readHeader in Herr. rewrite HphN in Herr.
    change (phaseNewBlock =? phaseDecodingHeader) with false in Herr.
    cbv beta iota zeta in Herr. cbn [andb] in Herr.
    destruct (tryDecodeHeader s) as [s2 err]. cbn [snd].
    destruct err; cbn [snd] in Herr; try discriminate. reflexivity.
  - (* staged *)
    specialize (HS HphD).
    pose proof WL as (L1 & _ & _ & L4 & _). unfold lrd in L1, L4. cbn [r_in r_inlen] in L1, L4.
    rewrite app_length in L1.
    apply Forall_app in L4. destruct L4 as [Fh Fi].
    unfold readHeader in Herr. rewrite HphD in Herr.
    change (phaseDecodingHeader =? phaseDecodingHeader) with true in Herr.
    cbv beta iota zeta in Herr. cbn [andb] in Herr.
    set (c := N.min (maxHdrSize - headerBuffered s) (r_inlen (rd s))) in *.
    set (fin := firstn (N.to_nat c) (r_in (rd s))) in *.
    set (rest := skipn (N.to_nat c) (r_in (rd s))).
    assert (Hc : c <= r_inlen (rd s)) by (unfold c; lia).
    assert (Lfin : length fin = N.to_nat c) by (unfold fin; apply firstn_length_le; lia).
    assert (Ffin : Forall (fun x => x < 256) fin) by (apply Forall_firstn'; exact Fi).
    assert (Esplit : r_in (rd s) = fin ++ rest) by (symmetry; apply firstn_skipn).
    set (s1 := set_rd s (br_set_in (rd s) (headerBuffer s ++ fin) (c + headerBuffered s))) in *.
    assert (W1 : br_wf (rd s1)).
    { pose proof (br_wf_app_in _ fin HS H0 Ffin) as X. cbn zeta in X. cbn [r_bits r_len r_in r_inlen] in X.
      replace (headerBuffered s + N.of_nat (length fin)) with (c + headerBuffered s) in X by lia.
      exact (proj1 X). }
    set (e' := bits_of_bytes rest ++ e).
    assert (Estream : lbits s ++ e = br_bits (rd s1) ++ e').
    { unfold lbits, lrd, br_bits, s1, e'. cbn [rd set_rd br_set_in r_bits r_len r_in].
      rewrite Esplit. rewrite !bits_of_bytes_app, <- !app_assoc. reflexivity. }
    rewrite Estream in *.
    apply (TR s1 e' p st W1 H0 Hal); [|exact Hstrict].
    destruct (tryDecodeHeader s1) as [s2 err]. cbn [snd].
    destruct err; cbn [snd] in Herr; try discriminate;
      match type of Herr with context [if ?c then _ else _] => destruct c end;
      cbn [snd] in Herr; try discriminate.
    reflexivity.
Qed.

Print Assumptions readHeader_reject.
