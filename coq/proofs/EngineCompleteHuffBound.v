(* EngineCompleteHuffBound.v -- completeness side of M5, layer 3:
   - entry_bits_bound: one literal/length table entry drops at most 35 bits (derived from
     lit_tab_ok alone: entries with more than one symbol come from the short table, whose
     result depends on 12 bits only, and a literal has one code word);
   - need_entry: a table entry whose words end beyond the real bits: the reference runs over
     the whole symbols and then needs input. *)
From Coq Require Import List NArith ZArith Bool Lia ZifyBool ZifyNat ZifyN.
From Verif Require Import Bits Huffman HuffmanSpec Inflate InflateSpec InflateMono.
From Verif Require Import Base EngineTables Engine EngineRefineSpec EngineRefineSpecBlock
                          EngineRefineBits EngineRefineBridge.
From Verif Require HuffmanProofs SymbolsProofs EngineFacts.
From Verif Require Import EngineRefineHuffBase EngineRefineHuffSyms.
From Verif Require Import EngineCompleteSpecA EngineCompleteHuffTrie EngineCompleteHuffPad.
Import ListNotations.
Open Scope N_scope.

Ltac Zify.zify_post_hook ::= Z.div_mod_to_equations.

(* ---------------------------------------------------------------- the short table looks at
   12 bits *)
Lemma br_drop_inj : forall b k k', br_drop b k = br_drop b k' -> k = k'.
Proof.
  intros b k k' H. apply (f_equal r_len) in H. unfold br_drop in H. cbn [r_len] in H. lia.
Qed.

Lemma some3_inj : forall (x x' : bitrd) (y y' z z' : N),
  Some (x, y, z) = Some (x', y', z') -> x = x' /\ y = y' /\ z = z'.
Proof. intros x x' y y' z z' H. injection H. auto. Qed.

Lemma litlen_short_low12 : forall t b b' k c l,
  N.land (r_bits b') 4095 = N.land (r_bits b) 4095 ->
  litlen_decode t b = Some (br_drop b k, c, l) -> c <> 1 ->
  litlen_decode t b' = Some (br_drop b' k, c, l).
Proof.
  intros t b b' k c l Hlow H Hc. unfold litlen_decode in *. rewrite Hlow.
  set (nextSym := aget (litShort t) (N.land (r_bits b) 4095)) in *.
  destruct (N.land nextSym largeFlagBit =? 0).
  - cbv zeta in H |- *.
    pose proof (f_equal (fun o : option (bitrd * N * N) =>
                  match o with Some (x, _, _) => r_len x | None => 0%Z end) H) as H1.
    pose proof (f_equal (fun o : option (bitrd * N * N) =>
                  match o with Some (_, y, _) => y | None => 0 end) H) as H2.
    pose proof (f_equal (fun o : option (bitrd * N * N) =>
                  match o with Some (_, _, z) => z | None => 0 end) H) as H3.
    cbv beta iota in H1, H2, H3. unfold br_drop in H1. cbn [r_len] in H1.
    assert (Hk : N.shiftr nextSym 28 = k) by lia. clear H H1.
    subst k c l. reflexivity.
  - cbv zeta in H.
    destruct (1264 <=? N.land nextSym largeShortSymMask
                       + N.shiftr (N.land (u32 (r_bits b)) (ones32 (N.shiftr nextSym 26))) 12);
      [discriminate|].
    pose proof (f_equal (fun o : option (bitrd * N * N) =>
                  match o with Some (_, y, _) => y | None => 0 end) H) as H2.
    cbv beta iota in H2. congruence.
Qed.

Lemma lit_word_unique : forall ll a la va la' va',
  In (a, la, va) (xcodes ll) -> In (a, la', va') (xcodes ll) -> a < 256 -> la = la' /\ va = va'.
Proof.
  intros ll a la va la' va' H H' Ha.
  destruct (xcodes_inv _ _ _ _ H) as (s0 & len0 & c & Hc & [(H1 & E1 & -> & ->)|(H1 & base & eb & x & Hn & Hx & E1 & _)]).
  2:{ destruct (len_table_bounds _ _ _ Hn) as (B1 & _). lia. }
  destruct (xcodes_inv _ _ _ _ H') as (s0' & len0' & c' & Hc' & [(H1' & E1' & -> & ->)|(H1' & base & eb & x & Hn & Hx & E1' & _)]).
  2:{ destruct (len_table_bounds _ _ _ Hn) as (B1 & _). lia. }
  assert (s0' = s0) by lia. subst s0'.
  destruct (canon_sym_unique ll s0 len0 c len0' c' Hc Hc') as [-> ->]. auto.
Qed.

Lemma testbit12_low : forall v, N.testbit (N.land v 4095) 12 = false.
Proof.
  intros v. apply N.testbit_false. change 4095 with (N.ones 12). rewrite N.land_ones.
  change (2 ^ 12) with 4096. lia.
Qed.
Lemma testbit12_high : forall v, N.testbit (N.land v 4095 + 4096) 12 = true.
Proof.
  intros v. apply N.testbit_true. change 4095 with (N.ones 12). rewrite N.land_ones.
  change (2 ^ 12) with 4096. lia.
Qed.

Lemma entry_bits_bound : forall ll t, lit_tab_ok ll t -> Forall (fun x => (x <= 15)%nat) ll ->
  forall b syms, (1 <= length syms <= 3)%nat -> lits_then_any syms ->
  xseq (xcodes ll) (r_bits b) syms ->
  litlen_decode t b = Some (br_drop b (N.of_nat (syms_bits syms)), N.of_nat (length syms), pack_syms syms) ->
  (syms_bits syms <= 35)%nat.
Proof.
  intros ll t Hok Hl b syms Hn Hlta Hx Hdec.
  destruct syms as [|[a la] [|[a2 la2] [|[X lX] [|y r]]]]; cbn [length] in Hn; try lia.
  - cbn [xseq] in Hx. destruct Hx as [(va & Hia & _) _].
    destruct (xcodes_len_bound ll a la va Hl Hia) as [B _]. cbn [syms_bits fold_right snd]. lia.
  - cbn [xseq] in Hx. destruct Hx as [(va & Hia & _) [(v2 & Hi2 & _) _]].
    destruct Hlta as [Ha _].
    destruct (xcodes_len_bound ll a la va Hl Hia) as [_ B]. specialize (B ltac:(lia)).
    destruct (xcodes_len_bound ll a2 la2 v2 Hl Hi2) as [B2 _]. cbn [syms_bits fold_right snd]. lia.
  - cbn [xseq] in Hx. destruct Hx as [(va & Hia & Hma) [(vb & Hib & Hmb) [(vX & HiX & _) _]]].
    destruct Hlta as [Ha [Hb _]].
    destruct (xcodes_len_bound ll X lX vX Hl HiX) as [BX _].
    cbn [syms_bits fold_right snd] in *.
    destruct (Nat.leb_spec (la + la2) 12) as [Hsm|Hbig]; [lia|]. exfalso.
    set (K := N.of_nat (la + (la2 + (lX + 0)))) in *.
    set (pk := pack_syms [(a, la); (a2, la2); (X, lX)]) in *.
    (* two readers that differ in bit 12 only from the low 12 bits of b *)
    assert (Hflip : forall v', N.land v' 4095 = N.land (r_bits b) 4095 ->
              xmatch v' la va /\ xmatch (N.shiftr v' (N.of_nat la)) la2 vb).
    { intros v' Hlow.
      set (b' := mkBR v' (r_len b) (r_in b) (r_inlen b)).
      assert (Hd' : litlen_decode t b' = Some (br_drop b' K, N.of_nat 3, pk)).
      { apply (litlen_short_low12 t b b'); [exact Hlow|exact Hdec|lia]. }
      destruct (Hok b') as [(syms' & Hn' & Hlta' & Hx' & Hdec')|(_ & cnt & lits & Hdec' & _)].
      - rewrite Hd' in Hdec'. apply some3_inj in Hdec'. destruct Hdec' as (E1 & E2 & E3).
        destruct syms' as [|[a' la'] [|[b2' lb'] [|[X' lX'] [|y r]]]]; cbn [length] in E2; try lia.
        destruct Hlta' as [Ha' [Hb' _]].
        unfold pk in E3. cbn [pack_syms] in E3.
        assert (a' = a /\ b2' = a2) by lia. destruct H as [-> ->].
        cbn [xseq] in Hx'. destruct Hx' as [(va' & Hia' & Hma') [(vb' & Hib' & Hmb') _]].
        cbn [r_bits b'] in Hma', Hmb'.
        destruct (lit_word_unique ll a la va la' va' Hia Hia' Ha) as [<- <-].
        destruct (lit_word_unique ll a2 la2 vb lb' vb' Hib Hib' Hb) as [<- <-].
        split; assumption.
      - rewrite Hd' in Hdec'. apply some3_inj in Hdec'. destruct Hdec' as (E1 & _ & _).
        apply (f_equal r_len) in E1. unfold br_drop, b' in E1. cbn [r_len] in E1.
        unfold K in E1. lia. }
    destruct (Hflip (N.land (r_bits b) 4095)) as [M1 M1'].
    { change 4095 with (N.ones 12). rewrite !N.land_ones, N.mod_mod by (apply N.pow_nonzero; lia). reflexivity. }
    destruct (Hflip (N.land (r_bits b) 4095 + 4096)) as [M2 M2'].
    { change 4095 with (N.ones 12). rewrite !N.land_ones. change (2 ^ 12) with 4096. lia. }
    unfold xmatch in M1, M1', M2, M2'.
    pose proof (testbit12_low (r_bits b)) as T1. pose proof (testbit12_high (r_bits b)) as T2.
    set (v1 := N.land (r_bits b) 4095) in *. set (v2 := v1 + 4096) in *. clearbody v2. clearbody v1.
    destruct (Nat.ltb_spec 12 la) as [Hin|Hout].
    + assert (E : N.testbit (N.land v1 (N.ones (N.of_nat la))) 12
                  = N.testbit (N.land v2 (N.ones (N.of_nat la))) 12)
        by (rewrite M1, M2; reflexivity).
      rewrite !N.land_spec, N.ones_spec_low, !andb_true_r in E by lia. congruence.
    + assert (E : N.testbit (N.land (N.shiftr v1 (N.of_nat la)) (N.ones (N.of_nat la2))) (12 - N.of_nat la)
                  = N.testbit (N.land (N.shiftr v2 (N.of_nat la)) (N.ones (N.of_nat la2))) (12 - N.of_nat la))
        by (rewrite M1', M2'; reflexivity).
      rewrite !N.land_spec, N.ones_spec_low, !andb_true_r, !N.shiftr_spec' in E by lia.
      replace (12 - N.of_nat la + N.of_nat la) with 12 in E by lia. congruence.
Qed.

(* ---------------------------------------------------------------- an entry that ends beyond
   the real bits *)
Lemma need_entry : forall ll lt dt syms b st p,
  mktrie 15 ll = Some lt -> lits_then_any syms -> xseq (xcodes ll) (r_bits b) syms ->
  br_wf b -> r_in b = [] -> (0 <= r_len b < Z.of_nat (syms_bits syms))%Z ->
  exists st2 bs2, sym_run lt dt st (mkbs (br_bits b) p) st2 bs2 false /\
                  exists a c, sym1 lt dt st2 bs2 = SStop a c NeedInput.
Proof.
  intros ll lt dt. induction syms as [|[s len] r IH]; intros b st p Hmk Hlta Hx Hwf Hex Hlen.
  - cbn [syms_bits fold_right] in Hlen. lia.
  - cbn [xseq] in Hx. destruct Hx as [(val & Hin & Hm) Hr].
    change (syms_bits ((s, len) :: r)) with (len + syms_bits r)%nat in Hlen.
    destruct (Z.ltb_spec (r_len b) (Z.of_nat len)) as [Hcross|Hwhole].
    + exists st, (mkbs (br_bits b) p). split; [apply sr_refl|]. eexists _, _.
      apply (need_word ll lt dt s len val b st p Hmk Hin Hm Hwf Hex). lia.
    + destruct r as [|y r'].
      { cbn [syms_bits fold_right] in Hlen. lia. }
      destruct Hlta as [Hs Hltr].
      destruct (br_drop_bits b (N.of_nat len) Hwf ltac:(lia)) as (D1 & _ & _).
      pose proof (stream_head b len Hwf Hwhole) as Hsh. unfold xmatch in Hm. rewrite Hm in Hsh.
      destruct (xcode_sem ll lt dt s len val (br_bits (br_drop b (N.of_nat len))) p st Hmk Hin) as (_ & S1 & _ & _).
      cbv zeta in S1. rewrite <- Hsh in S1.
      destruct (IH (br_drop b (N.of_nat len)) (push s st) (p + N.of_nat len) Hmk Hltr) as (st2 & bs2 & R & Hst).
      * unfold br_drop; cbn [r_bits]. exact Hr.
      * exact D1.
      * unfold br_drop; cbn [r_in]. exact Hex.
      * unfold br_drop; cbn [r_len]. lia.
      * exists st2, bs2. split; [|exact Hst]. eapply sr_step; [apply S1; exact Hs|exact R].
Qed.
