(* EngineResetRun.v -- a Reader reused through Reset behaves like a new one (EngineResetSpec.v),
   given the simulation result for readHeader (readHeader_sim_statement, EngineResetDefs.v).

   Files: EngineResetRun1.v  structural invariants (cached input lengths never exceed the real
                             lengths: bit reader, staged header, bufio buffer), the decomposition
                             of huff_inner / decomperss / step into named parts;
          EngineResetRun2.v  the simulation for decodeHuffman, decodeLiteralBlock, decomp_loop,
                             decomperss;
          this file          step, Read, erun_loop and the two theorems.

   Simulation relation dsim f1 f2 (f1 reused, f2 new): all live fields of the inflate state equal
   (core), lookups equal whenever phase = HeaderDecoded, both overflow lengths 0, same positions,
   buffer, error, flags; hist agrees below writePos.  In addition the reused side carries the
   invariant rinv (while no error is recorded: r_inlen <= length r_in, headerBuffered <= length
   headerBuffer, blen <= length bbuf), which is what makes decodeLiteralBlock advance `written`
   only over bytes it has stored. *)
From Verif Require Import Base Engine EngineReset EngineResetSpec EngineSafetyBase EngineResetDefs.
From Verif Require Import EngineResetRun1 EngineResetRun2.
From Coq Require Import List NArith ZArith Bool Lia ZifyBool ZifyNat ZifyN.
Import ListNotations.
Open Scope N_scope.

(* ---------------------------------------------------------------- the reused reader as a lifted new one *)
Definition dlift (t : tabs) (d : dynHdr) (h : arr) (f : decompressor) : decompressor :=
  mkD (set_dyn (set_tb (state f) t) d) (writePos f) (readPos f) h (rBuf f) (derr f) (peekSize f)
      (eof f) (haveBits f).

Lemma dsim_lift : forall f1 f2, dsim f1 f2 ->
  f1 = dlift (tb (state f1)) (dyn (state f1)) (hist f1) f2.
Proof.
  intros f1 f2 ((Hcore & _) & Hw & Hr & _ & Hb & He & Hp & Heof & Hhb).
  unfold dlift. rewrite <- (core_eq_ex _ _ Hcore), <- Hw, <- Hr, <- Hb, <- He, <- Hp, <- Heof, <- Hhb.
  destruct f1; reflexivity.
Qed.

Ltac destr_inner c :=
  match c with
  | context [match ?c' with _ => _ end] => destr_inner c'
  | context [if ?c' then _ else _] => destr_inner c'
  | _ => destruct c eqn:?
  end.
Ltac both_match :=
  match goal with
  | |- context [match ?c with _ => _ end] => destr_inner c
  | |- context [if ?c then _ else _] => destr_inner c
  end.

Ltac red_all :=
  cbv beta iota zeta;
  cbn [fst snd dlift set_state set_dyn set_tb set_phase set_rd set_inputNil set_roffset rOffset
       state writePos readPos hist rBuf derr peekSize eof haveBits
       rd inputNil ov tb phase bfinal litBlockLength headerBuffered headerBuffer dyn roffset
       r_bits r_len r_in r_inlen br_set_in].

(* prepare: f1 := lifted f2, everything destructed *)
Ltac prep f1 f2 Hd :=
  let Hl := fresh "Hl" in
  pose proof (dsim_lift f1 f2 Hd) as Hl;
  destruct Hd as ((_ & Htb & Hwov & Hcov) & _ & _ & Ha & _);
  revert Hl Htb Hwov Hcov Ha; generalize (tb (state f1)) (dyn (state f1)) (hist f1);
  intros t d h Hl; subst f1;
  destruct f2 as [s2 wp rp h2 rb de ps eo hvb];
  destruct s2 as [rd0 nil0 ov0 tb0 ph bf lbl hb hbuf dyn0 ro];
  unfold tb_ok; red_all; intros Htb Hwov Hcov Ha.

Ltac leaf Htb Hwov Hcov Ha :=
  red_all; split; [|reflexivity];
  unfold dsim, ssim, tb_ok; red_all;
  split; [split; [reflexivity|split; [first [exact Htb|intros Hx; discriminate Hx]|
                                       split; [exact Hwov|exact Hcov]]]|];
  repeat (split; [first [reflexivity|exact Ha]|]); first [reflexivity|exact Ha].

Lemma step_pre_rel : forall f1 f2, dsim f1 f2 ->
  dsim (fst (step_pre f1)) (fst (step_pre f2)) /\ snd (step_pre f1) = snd (step_pre f2).
Proof.
  intros f1 f2 Hd. prep f1 f2 Hd.
  unfold step_pre. red_all.
  repeat (both_match; red_all).
  all: leaf Htb Hwov Hcov Ha.
Qed.

Lemma step_post_rel : forall f1 f2 e a b, dsim f1 f2 ->
  dsim (fst (step_post f1 e a b)) (fst (step_post f2 e a b)) /\
  snd (step_post f1 e a b) = snd (step_post f2 e a b).
Proof.
  intros f1 f2 e a b Hd. prep f1 f2 Hd.
  unfold step_post, step_discard, step_discard_at, held_nonneg. red_all.
  repeat (both_match; red_all).
  all: leaf Htb Hwov Hcov Ha.
Qed.

(* ---------------------------------------------------------------- the history slide *)
Lemma slide_spec : forall wp h j,
  2 * historySize <= wp -> j < historySize ->
  aget (forN 0 historySize (fun i h => aset h i (aget h (wp - historySize + i))) h) j =
  aget h (wp - historySize + j).
Proof.
  intros wp h j Hwp Hj.
  assert (H : (forall j, j < historySize ->
                 aget (forN 0 historySize (fun i h => aset h i (aget h (wp - historySize + i))) h) j
                 = aget h (wp - historySize + j)) /\
              (forall j, historySize <= j ->
                 aget (forN 0 historySize (fun i h => aset h i (aget h (wp - historySize + i))) h) j
                 = aget h j)).
  { apply (forN_ind arr (fun i x => (forall j, j < i -> aget x j = aget h (wp - historySize + j)) /\
                                     (forall j, i <= j -> aget x j = aget h j))).
    - unfold historySize. lia.
    - split; [intros k Hk; lia|intros k _; reflexivity].
    - intros i x Hi (P1 & P2). unfold historySize in *. split.
      + intros k Hk. rewrite aget_aset. destruct (N.eqb_spec k i) as [->|Hne].
        * apply P2. lia.
        * apply P1. lia.
      + intros k Hk. rewrite aget_aset. destruct (N.eqb_spec k i) as [->|Hne]; [lia|].
        apply P2. lia. }
  apply (proj1 H). exact Hj.
Qed.

Lemma slide_rel : forall f1 f2, dsim f1 f2 -> dsim (slide f1) (slide f2).
Proof.
  intros f1 f2 (Hs & Hw & Hr & Ha & Hb & He & Hp & Heof & Hhb). unfold slide. cbv zeta.
  rewrite <- Hw.
  destruct (historySize * 2 <=? writePos f1) eqn:E.
  - unfold dsim. cbn [state writePos readPos hist rBuf derr peekSize eof haveBits].
    split; [exact Hs|]. split; [reflexivity|]. split; [reflexivity|].
    split; [|repeat (split; [assumption|]); assumption].
    intros j Hj. rewrite !slide_spec by lia. apply Ha. unfold historySize in *. lia.
  - unfold dsim. cbn [state writePos readPos hist rBuf derr peekSize eof haveBits].
    split; [exact Hs|]. split; [reflexivity|]. split; [reflexivity|].
    split; [exact Ha|]. repeat (split; [assumption|]); assumption.
Qed.

Lemma slide_dinv : forall f, dinv f -> dinv (slide f).
Proof.
  intros f (H1 & H2). destruct (slide_state f) as (A & B). split; [rewrite A|rewrite B]; assumption.
Qed.

(* ---------------------------------------------------------------- step *)
Lemma decomperss_rel : readHeader_sim_statement -> forall f1 f2,
  dsim f1 f2 -> sinv (state f1) ->
  dsim (fst (decomperss f1)) (fst (decomperss f2)) /\ snd (decomperss f1) = snd (decomperss f2).
Proof.
  intros HRH f1 f2 Hd Hi. rewrite (decomperss_eq f1), (decomperss_eq f2).
  apply decomperss_F_rel; assumption.
Qed.

Lemma dsim_rd : forall f1 f2, dsim f1 f2 -> rd (state f1) = rd (state f2).
Proof. intros f1 f2 ((Hc & _) & _). apply core_rd. exact Hc. Qed.

Lemma step_rel : readHeader_sim_statement -> forall f1 f2,
  dsim f1 f2 -> dinv f1 ->
  dsim (fst (step f1)) (fst (step f2)) /\ snd (step f1) = snd (step f2).
Proof.
  intros HRH f1 f2 Hd Hi. rewrite !step_eq. unfold step_D.
  assert (Hph : phase (state f1) = phase (state f2)).
  { destruct Hd as ((Hc & _) & _). apply core_phase. exact Hc. }
  rewrite <- Hph.
  destruct (phase (state f1) =? phaseFinish); [cbn [fst snd]; split; [exact Hd|reflexivity]|].
  pose proof (step_pre_rel f1 f2 Hd) as (P1 & P2).
  pose proof (step_pre_inv f1 Hi) as P3.
  destruct (step_pre f1) as [g1 r1]. destruct (step_pre f2) as [g2 r2].
  cbn [fst snd] in P1, P2, P3. subst r2.
  destruct r1 as [e|]; [cbn [fst snd]; split; [exact P1|reflexivity]|].
  cbv zeta.
  pose proof (slide_rel g1 g2 P1) as S1. pose proof (slide_dinv g1 P3) as S2.
  pose proof (decomperss_rel HRH _ _ S1 (proj1 S2)) as (D1 & D2).
  rewrite <- (dsim_rd _ _ S1).
  destruct (decomperss (slide g1)) as [k1 e1]. destruct (decomperss (slide g2)) as [k2 e2].
  cbn [fst snd] in D1, D2. subst e2.
  apply step_post_rel. exact D1.
Qed.

(* ---------------------------------------------------------------- Read *)
Lemma hist_slice_agree : forall n h1 h2 pos wp,
  agree wp h1 h2 -> pos + N.of_nat n <= wp -> hist_slice n h1 pos = hist_slice n h2 pos.
Proof.
  induction n as [|n IH]; intros h1 h2 pos wp Ha Hn; cbn [hist_slice]; [reflexivity|].
  rewrite (Ha pos) by lia. f_equal. apply (IH h1 h2 (pos + 1) wp Ha). lia.
Qed.

Definition rinv (f : decompressor) : Prop := derr f = None -> dinv f.

Lemma read_loop_rel : readHeader_sim_statement -> forall fuel f1 f2 plen,
  dsim f1 f2 -> rinv f1 ->
  dsim (fst (fst (read_loop fuel f1 plen))) (fst (fst (read_loop fuel f2 plen))) /\
  rinv (fst (fst (read_loop fuel f1 plen))) /\
  snd (fst (read_loop fuel f1 plen)) = snd (fst (read_loop fuel f2 plen)) /\
  snd (read_loop fuel f1 plen) = snd (read_loop fuel f2 plen).
Proof.
  intros HRH. induction fuel as [|k IH]; intros f1 f2 plen Hd Hi; cbn [read_loop].
  - cbn [fst snd]. split; [exact Hd|split; [exact Hi|split; reflexivity]].
  - pose proof Hd as (Hs & Hw & Hr & Ha & Hb & He & Hp & Heof & Hhb).
    rewrite <- Hw, <- Hr, <- He.
    destruct (readPos f1 <? writePos f1) eqn:E.
    + cbv zeta. cbn [writePos readPos derr].
      assert (Hsl : hist_slice (N.to_nat (N.min plen (writePos f1 - readPos f1))) (hist f1) (readPos f1) =
                    hist_slice (N.to_nat (N.min plen (writePos f1 - readPos f1))) (hist f2) (readPos f1)).
      { apply (hist_slice_agree _ _ _ _ (writePos f1) Ha). lia. }
      rewrite <- Hsl.
      assert (Hd' : dsim
        (mkD (state f1) (writePos f1) (readPos f1 + N.min plen (writePos f1 - readPos f1)) (hist f1)
             (rBuf f1) (derr f1) (peekSize f1) (eof f1) (haveBits f1))
        (mkD (state f2) (writePos f1) (readPos f1 + N.min plen (writePos f1 - readPos f1)) (hist f2)
             (rBuf f2) (derr f1) (peekSize f2) (eof f2) (haveBits f2))).
      { unfold dsim. cbn [state writePos readPos hist rBuf derr peekSize eof haveBits].
        split; [exact Hs|]. split; [reflexivity|]. split; [reflexivity|]. split; [exact Ha|].
        split; [exact Hb|]. split; [reflexivity|]. split; [exact Hp|]. split; [exact Heof|exact Hhb]. }
      assert (Hi' : rinv
        (mkD (state f1) (writePos f1) (readPos f1 + N.min plen (writePos f1 - readPos f1)) (hist f1)
             (rBuf f1) (derr f1) (peekSize f1) (eof f1) (haveBits f1))).
      { intros Hn. exact (Hi Hn). }
      destruct (writePos f1 =? readPos f1 + N.min plen (writePos f1 - readPos f1));
        cbn [fst snd]; (split; [exact Hd'|split; [exact Hi'|split; reflexivity]]).
    + destruct (derr f1) as [e|] eqn:Ede.
      * cbn [fst snd]. split; [exact Hd|]. split; [exact Hi|]. split; reflexivity.
      * specialize (Hi Ede).
        pose proof (step_rel HRH f1 f2 Hd Hi) as (S1 & S2).
        pose proof (step_inv f1) as S3.
        destruct (step f1) as [g1 r1]. destruct (step f2) as [g2 r2]. cbn [fst snd] in S1, S2. subst r2.
        specialize (S3 g1 Hi).
        assert (Hd' : dsim (set_err g1 r1) (set_err g2 r1)).
        { destruct S1 as (Q1 & Q2 & Q3 & Q4 & Q5 & Q6 & Q7 & Q8 & Q9).
          unfold dsim, set_err. cbn [state writePos readPos hist rBuf derr peekSize eof haveBits].
          split; [exact Q1|]. split; [exact Q2|]. split; [exact Q3|]. split; [exact Q4|].
          split; [exact Q5|]. split; [reflexivity|]. split; [exact Q7|]. split; [exact Q8|exact Q9]. }
        assert (Hi' : rinv (set_err g1 r1)).
        { intros Hn. unfold set_err in Hn. cbn [derr] in Hn. subst r1. exact (S3 eq_refl). }
        assert (Hwp : writePos (set_err g1 r1) = writePos (set_err g2 r1)) by (destruct Hd' as (_ & Q & _); exact Q).
        assert (Hrp : readPos (set_err g1 r1) = readPos (set_err g2 r1)) by (destruct Hd' as (_ & _ & Q & _); exact Q).
        destruct r1 as [e'|].
        -- rewrite <- Hwp, <- Hrp.
           destruct (writePos (set_err g1 (Some e')) <=? readPos (set_err g1 (Some e'))).
           ++ cbn [fst snd]. split; [exact Hd'|]. split; [exact Hi'|]. split; reflexivity.
           ++ apply IH; assumption.
        -- apply IH; assumption.
Qed.

(* ---------------------------------------------------------------- the run *)
Lemma dRead_eq : forall f p, dRead f p = read_loop big_fuel f p.
Proof. intros f p. unfold dRead. reflexivity. Qed.

Lemma dsim_rBuf : forall f1 f2, dsim f1 f2 -> rBuf f1 = rBuf f2.
Proof. intros f1 f2 (_ & _ & _ & _ & H & _). exact H. Qed.

Lemma erun_loop_rel : readHeader_sim_statement -> forall reads f1 f2 acc,
  dsim f1 f2 -> rinv f1 ->
  fst (erun_loop f1 reads acc) = fst (erun_loop f2 reads acc) /\
  rBuf (snd (erun_loop f1 reads acc)) = rBuf (snd (erun_loop f2 reads acc)).
Proof.
  intros HRH. induction reads as [|p rest IH]; intros f1 f2 acc Hd Hi; cbn [erun_loop].
  - cbn [fst snd]. split; [reflexivity|apply dsim_rBuf; exact Hd].
  - rewrite (dRead_eq f1 p), (dRead_eq f2 p).
    pose proof (read_loop_rel HRH big_fuel f1 f2 p Hd Hi) as (R1 & R2 & R3 & R4).
    destruct (read_loop big_fuel f1 p) as [[g1 b1] r1].
    destruct (read_loop big_fuel f2 p) as [[g2 b2] r2].
    cbn [fst snd] in R1, R2, R3, R4. subst b2 r2.
    destruct r1; try (cbn [fst snd]; split; [reflexivity|apply dsim_rBuf; exact R1]).
    apply IH; assumption.
Qed.

Lemma dsim_reset : forall f bs cs t, dsim (dReset f (mkbufrd bs cs t)) (newReader bs cs t).
Proof.
  intros f bs cs t. unfold dReset, newReader, mkbufrd, dsim, ssim, tb_ok.
  cbn [state writePos readPos hist rBuf derr peekSize eof haveBits].
  split.
  { split; [reflexivity|]. split; [intros Hx; discriminate Hx|]. split; reflexivity. }
  split; [reflexivity|]. split; [reflexivity|]. split; [apply agree_0|].
  split; [reflexivity|]. split; [reflexivity|]. split; [reflexivity|]. split; reflexivity.
Qed.

Lemma rinv_reset : forall f bs cs t, rinv (dReset f (mkbufrd bs cs t)).
Proof.
  intros f bs cs t _. unfold dReset, mkbufrd, dinv, sinv, inlen_ok, binv. cbn. lia.
Qed.

Theorem reset_equiv_cond : readHeader_sim_statement -> reset_equiv_statement.
Proof.
  intros HRH. unfold reset_equiv_statement.
  intros bufsize1 chunks1 term1 reads1 bufsize2 chunks2 term2 reads2.
  unfold erun2, erun_ext.
  destruct (eread_all (newReader bufsize1 chunks1 term1) reads1 []) as [l1 f1].
  pose proof (erun_loop_rel HRH reads2 (dReset f1 (mkbufrd bufsize2 chunks2 term2))
                (newReader bufsize2 chunks2 term2) [] (dsim_reset _ _ _ _) (rinv_reset _ _ _ _))
    as (A & B).
  destruct (erun_loop (dReset f1 (mkbufrd bufsize2 chunks2 term2)) reads2 []) as [l2 g1].
  destruct (erun_loop (newReader bufsize2 chunks2 term2) reads2 []) as [l2' g2].
  cbn [fst snd] in A, B. subst l2'. rewrite B. reflexivity.
Qed.

Print Assumptions reset_equiv_cond.

Theorem reset_equiv_obs_cond : readHeader_sim_statement -> reset_equiv_statement_obs.
Proof.
  intros HRH. unfold reset_equiv_statement_obs.
  intros bufsize1 chunks1 term1 reads1 bufsize2 chunks2 term2 reads2.
  pose proof (reset_equiv_cond HRH bufsize1 chunks1 (term_of term1) reads1
                bufsize2 chunks2 (term_of term2) reads2) as H.
  unfold erun2_obs, erun_obs.
  destruct (erun2 bufsize1 chunks1 (term_of term1) reads1 bufsize2 chunks2 (term_of term2) reads2)
    as [[l1 l2] n2].
  change (if term2 then TErr else TEOF) with (term_of term2).
  rewrite <- H. reflexivity.
Qed.

Print Assumptions reset_equiv_obs_cond.
