(* HuffmanProofs.v — proofs of the statements of Spec/HuffmanSpec.v *)
From Verif Require Import HuffmanSpec.
From Coq Require Import Lia ZifyBool ZifyNat ZifyN.
Open Scope N_scope.

(* ------------------------------------------------------------------ *)
(* code_bits                                                            *)

Lemma frev_rev : forall A (l : list A), frev l = rev l.
Proof. intros A l. unfold frev. symmetry. apply rev_alt. Qed.

Lemma bits_of_N_length : forall n v, length (bits_of_N n v) = n.
Proof.
  induction n as [|n IH]; intros v; cbn [bits_of_N length].
  - reflexivity.
  - rewrite IH. reflexivity.
Qed.

Lemma code_bits_rev : forall len c, code_bits len c = rev (bits_of_N len c).
Proof. intros len c. unfold code_bits. apply frev_rev. Qed.

Lemma code_bits_length : forall len c, length (code_bits len c) = len.
Proof. intros len c. rewrite code_bits_rev, rev_length. apply bits_of_N_length. Qed.

(* ------------------------------------------------------------------ *)
(* trie lookup                                                          *)

Fixpoint tlookup (t : trie) (w : list bool) : option nat :=
  match t, w with
  | TLeaf s, [] => Some s
  | TNode t0 t1, b :: r => tlookup (if b then t1 else t0) r
  | _, _ => None
  end.

Lemma tlookup_empty : forall w, tlookup TEmpty w = None.
Proof. intros w. destruct w; reflexivity. Qed.

Lemma tinsert_lookup_same : forall w t s t',
  tinsert t w s = Some t' -> tlookup t' w = Some s.
Proof.
  induction w as [|b r IH]; intros t s t' H.
  - destruct t; cbn [tinsert] in H; try discriminate.
    injection H as <-. reflexivity.
  - destruct t as [|x|t0 t1]; cbn [tinsert] in H.
    + destruct (tinsert TEmpty r s) as [t2|] eqn:E; try discriminate.
      injection H as <-. apply IH in E.
      destruct b; cbn [tlookup]; exact E.
    + discriminate.
    + destruct b.
      * destruct (tinsert t1 r s) as [t2|] eqn:E; try discriminate.
        injection H as <-. cbn [tlookup]. eapply IH; eauto.
      * destruct (tinsert t0 r s) as [t2|] eqn:E; try discriminate.
        injection H as <-. cbn [tlookup]. eapply IH; eauto.
Qed.

Lemma tinsert_lookup_other : forall w t s t' w' s',
  tinsert t w s = Some t' -> tlookup t w' = Some s' -> tlookup t' w' = Some s'.
Proof.
  induction w as [|b r IH]; intros t s t' w' s' H L.
  - destruct t; cbn [tinsert] in H; try discriminate.
    all: try (rewrite tlookup_empty in L; discriminate).
  - destruct t as [|x|t0 t1]; cbn [tinsert] in H.
    + rewrite tlookup_empty in L. discriminate.
    + discriminate.
    + destruct w' as [|b' r']; cbn [tlookup] in L; try discriminate.
      destruct b.
      * destruct (tinsert t1 r s) as [t2|] eqn:E; try discriminate.
        injection H as <-. cbn [tlookup]. destruct b'.
        -- eapply IH; eauto.
        -- exact L.
      * destruct (tinsert t0 r s) as [t2|] eqn:E; try discriminate.
        injection H as <-. cbn [tlookup]. destruct b'.
        -- exact L.
        -- eapply IH; eauto.
Qed.

Lemma build_lookup : forall cs t t',
  build cs t = Some t' ->
  (forall w s, tlookup t w = Some s -> tlookup t' w = Some s) /\
  (forall s len c, In (s, len, c) cs -> tlookup t' (code_bits len c) = Some s).
Proof.
  induction cs as [|[[s0 len0] c0] r IH]; intros t t' H.
  - cbn [build] in H. injection H as <-. split.
    + intros w s L. exact L.
    + intros s len c HIn. destruct HIn.
  - cbn [build] in H.
    destruct (tinsert t (code_bits len0 c0) s0) as [t1|] eqn:E; try discriminate.
    destruct (IH _ _ H) as [IH1 IH2]. split.
    + intros w s L. apply IH1. eapply tinsert_lookup_other; eauto.
    + intros s len c HIn. destruct HIn as [HEq|HIn].
      * injection HEq as <- <- <-. apply IH1. eapply tinsert_lookup_same; eauto.
      * apply IH2. exact HIn.
Qed.

Lemma decode_lookup : forall w t s rest p,
  tlookup t w = Some s ->
  decode_sym t (mkbs (w ++ rest) p) = DOk s (mkbs rest (p + N.of_nat (length w))).
Proof.
  induction w as [|b r IH]; intros t s rest p L.
  - destruct t as [|x|t0 t1]; cbn [tlookup] in L; try discriminate.
    injection L as <-. cbn [decode_sym app length].
    replace (p + N.of_nat 0) with p by lia. reflexivity.
  - destruct t as [|x|t0 t1]; cbn [tlookup] in L; try discriminate.
    cbn [decode_sym app]. unfold take1. cbn [bl bp].
    rewrite (IH _ _ rest (p + 1) L). cbn [length].
    replace (p + 1 + N.of_nat (length r)) with (p + N.of_nat (S (length r))) by lia.
    reflexivity.
Qed.

Theorem decode_encode : decode_encode_statement.
Proof.
  unfold decode_encode_statement.
  intros maxl l t s len c rest p Hmk HIn.
  unfold mktrie in Hmk.
  destruct (oversubscribed maxl l) eqn:Eo; try discriminate.
  destruct (build_lookup _ _ _ Hmk) as [_ HL].
  specialize (HL _ _ _ HIn).
  rewrite (decode_lookup _ _ _ rest p HL).
  rewrite code_bits_length. reflexivity.
Qed.

(* ------------------------------------------------------------------ *)
(* canon_complete                                                       *)

Lemma assign_complete : forall l sym nc s, (nth s l 0 <> 0)%nat ->
  exists c, In ((sym + s)%nat, nth s l 0%nat, c) (assign l sym nc).
Proof.
  induction l as [|x r IH]; intros sym nc s Hs.
  - destruct s; cbn [nth] in Hs; congruence.
  - destruct s as [|s'].
    + cbn [nth] in Hs |- *. cbn [assign].
      destruct (Nat.eqb x 0) eqn:E.
      * apply Nat.eqb_eq in E. congruence.
      * exists (nth x nc 0). replace (sym + 0)%nat with sym by lia.
        left. reflexivity.
    + cbn [nth] in Hs |- *. cbn [assign].
      replace (sym + S s')%nat with (S sym + s')%nat by lia.
      destruct (Nat.eqb x 0) eqn:E.
      * apply IH. exact Hs.
      * destruct (IH (S sym) (upd x (nth x nc 0 + 1) nc) s' Hs) as [c Hc].
        exists c. right. exact Hc.
Qed.

Theorem canon_complete : canon_complete_statement.
Proof.
  unfold canon_complete_statement. intros l s Hs.
  unfold canon.
  destruct (assign_complete l 0%nat (map (first_code l) (seq 0 17)) s Hs) as [c Hc].
  exists c. exact Hc.
Qed.

(* ------------------------------------------------------------------ *)
(* decode_consumes                                                      *)

Definition notleaf (t : trie) : Prop :=
  match t with TLeaf _ => False | _ => True end.

Lemma decode_sym_consumes : forall t s x s',
  decode_sym t s = DOk x s' ->
  exists k, bl s = firstn k (bl s) ++ bl s' /\ bp s' = bp s + N.of_nat k /\
            length (bl s) = (k + length (bl s'))%nat /\ (notleaf t -> (0 < k)%nat).
Proof.
  induction t as [|y|t0 IH0 t1 IH1]; intros s x s' H.
  - cbn [decode_sym] in H. discriminate.
  - cbn [decode_sym] in H. injection H as <- <-.
    exists 0%nat. cbn [firstn app notleaf]. repeat split; try lia. all: try (intros []).
  - cbn [decode_sym] in H.
    destruct (take1 s) as [[b s1]|] eqn:E; try discriminate.
    unfold take1 in E. destruct (bl s) as [|b0 r0] eqn:Ebl; try discriminate.
    injection E as <- <-.
    assert (HH : exists k, bl (mkbs r0 (bp s + 1)) = firstn k (bl (mkbs r0 (bp s + 1))) ++ bl s' /\
                      bp s' = bp (mkbs r0 (bp s + 1)) + N.of_nat k /\
                      length (bl (mkbs r0 (bp s + 1))) = (k + length (bl s'))%nat).
    { destruct b0.
      - destruct (IH1 _ _ _ H) as [k [A [B [C _]]]]. exists k. auto.
      - destruct (IH0 _ _ _ H) as [k [A [B [C _]]]]. exists k. auto. }
    destruct HH as [k [A [B C]]]. cbn [bl bp] in A, B, C.
    exists (S k). cbn [firstn app length].
    repeat split.
    + rewrite <- A. reflexivity.
    + lia.
    + lia.
    + intros _. lia.
Qed.

Lemma tinsert_notleaf : forall w t s t',
  w <> [] -> notleaf t -> tinsert t w s = Some t' -> notleaf t'.
Proof.
  intros w t s t' Hw Ht H.
  destruct w as [|b r]; try congruence.
  destruct t as [|x|t0 t1]; cbn [tinsert] in H.
  - destruct (tinsert TEmpty r s) as [t2|]; try discriminate.
    injection H as <-. destruct b; exact I.
  - discriminate.
  - destruct b.
    + destruct (tinsert t1 r s) as [t2|]; try discriminate. injection H as <-. exact I.
    + destruct (tinsert t0 r s) as [t2|]; try discriminate. injection H as <-. exact I.
Qed.

Lemma assign_len_nonzero : forall l sym nc s x c,
  In (s, x, c) (assign l sym nc) -> x <> 0%nat.
Proof.
  induction l as [|x0 r IH]; intros sym nc s x c HIn.
  - destruct HIn.
  - cbn [assign] in HIn. destruct (Nat.eqb x0 0) eqn:E.
    + eapply IH; eauto.
    + destruct HIn as [HEq|HIn].
      * injection HEq as <- <- <-. apply Nat.eqb_neq in E. exact E.
      * eapply IH; eauto.
Qed.

Lemma build_notleaf : forall cs t t',
  (forall s x c, In (s, x, c) cs -> x <> 0%nat) ->
  notleaf t -> build cs t = Some t' -> notleaf t'.
Proof.
  induction cs as [|[[s0 len0] c0] r IH]; intros t t' Hcs Ht H.
  - cbn [build] in H. injection H as <-. exact Ht.
  - cbn [build] in H.
    destruct (tinsert t (code_bits len0 c0) s0) as [t1|] eqn:E; try discriminate.
    apply (IH t1 t').
    + intros s x c HIn. eapply Hcs. right. exact HIn.
    + eapply tinsert_notleaf; [ | exact Ht | exact E].
      intros Hnil. apply (f_equal (@length bool)) in Hnil.
      rewrite code_bits_length in Hnil. cbn [length] in Hnil.
      eapply Hcs; [left; reflexivity | exact Hnil].
    + exact H.
Qed.

Theorem decode_consumes : decode_consumes_statement.
Proof.
  unfold decode_consumes_statement.
  intros maxl l t s x s' Hmk Hd.
  unfold mktrie in Hmk.
  destruct (oversubscribed maxl l) eqn:Eo; try discriminate.
  assert (Hnl : notleaf t).
  { eapply build_notleaf; [ | | exact Hmk].
    - intros s0 x0 c0 HIn. unfold canon in HIn. eapply assign_len_nonzero; eauto.
    - exact I. }
  destruct (decode_sym_consumes _ _ _ _ Hd) as [k [A [B [C D]]]].
  exists k. repeat split; auto.
Qed.

(* ------------------------------------------------------------------ *)
(* kraft_sufficient                                                     *)

(* --- tries: insertion succeeds exactly on "free" words ------------- *)

Fixpoint free (t : trie) (w : list bool) : Prop :=
  match t with
  | TEmpty => True
  | TLeaf _ => False
  | TNode t0 t1 =>
    match w with
    | [] => False
    | b :: r => free (if b then t1 else t0) r
    end
  end.

Lemma tinsert_free : forall w t s, free t w -> exists t', tinsert t w s = Some t'.
Proof.
  induction w as [|b r IH]; intros t s F.
  - destruct t as [|x|t0 t1]; cbn [free] in F; try contradiction.
    cbn [tinsert]. eauto.
  - destruct t as [|x|t0 t1]; cbn [free] in F; try contradiction.
    + cbn [tinsert]. destruct (IH TEmpty s I) as [t2 E]. rewrite E. eauto.
    + cbn [tinsert]. destruct b.
      * destruct (IH t1 s F) as [t2 E]. rewrite E. eauto.
      * destruct (IH t0 s F) as [t2 E]. rewrite E. eauto.
Qed.

Definition prefix (w w' : list bool) : Prop := exists z, w' = w ++ z.

Lemma prefix_nil : forall w, prefix [] w.
Proof. intros w. exists w. reflexivity. Qed.

Lemma prefix_cons_inv : forall b w b' w', prefix (b :: w) (b' :: w') -> b = b' /\ prefix w w'.
Proof.
  intros b w b' w' [z Hz]. cbn [app] in Hz. injection Hz as -> ->.
  split; [reflexivity | exists z; reflexivity].
Qed.

Lemma prefix_cons : forall b w w', prefix w w' -> prefix (b :: w) (b :: w').
Proof. intros b w w' [z Hz]. exists z. cbn [app]. rewrite Hz. reflexivity. Qed.

Definition incomparable (w w' : list bool) : Prop := ~ prefix w w' /\ ~ prefix w' w.

Lemma incomparable_cons : forall b w w', incomparable (b :: w) (b :: w') -> incomparable w w'.
Proof.
  intros b w w' [A B]. split; intros P.
  - apply A. apply prefix_cons. exact P.
  - apply B. apply prefix_cons. exact P.
Qed.

(* inserting w' keeps w free, provided w and w' are incomparable *)
Lemma tinsert_keeps_free : forall w' t s t' w,
  tinsert t w' s = Some t' -> free t w -> incomparable w w' -> free t' w.
Proof.
  induction w' as [|b' r' IH]; intros t s t' w H F Inc.
  - exfalso. destruct Inc as [_ B]. apply B. apply prefix_nil.
  - destruct w as [|b r].
    { exfalso. destruct Inc as [A _]. apply A. apply prefix_nil. }
    destruct t as [|x|t0 t1]; cbn [tinsert] in H.
    + destruct (tinsert TEmpty r' s) as [t2|] eqn:E; try discriminate.
      injection H as <-.
      destruct b, b'; cbn [free]; try exact I.
      * eapply IH; [exact E | exact I | eapply incomparable_cons; exact Inc].
      * eapply IH; [exact E | exact I | eapply incomparable_cons; exact Inc].
    + discriminate.
    + cbn [free] in F. destruct b'.
      * destruct (tinsert t1 r' s) as [t2|] eqn:E; try discriminate.
        injection H as <-. cbn [free]. destruct b.
        -- eapply IH; [exact E | exact F | eapply incomparable_cons; exact Inc].
        -- exact F.
      * destruct (tinsert t0 r' s) as [t2|] eqn:E; try discriminate.
        injection H as <-. cbn [free]. destruct b.
        -- exact F.
        -- eapply IH; [exact E | exact F | eapply incomparable_cons; exact Inc].
Qed.

Definition word (e : nat * nat * N) : list bool :=
  match e with (_, len, c) => code_bits len c end.

Lemma build_succeeds : forall cs t,
  Forall (fun e => free t (word e)) cs ->
  ForallOrdPairs (fun e1 e2 => incomparable (word e1) (word e2)) cs ->
  exists t', build cs t = Some t'.
Proof.
  induction cs as [|[[s0 len0] c0] r IH]; intros t HF HP.
  - cbn [build]. eauto.
  - cbn [build].
    inversion HF as [|e0 r0 F0 Fr]; subst.
    inversion HP as [|e0 r0 P0 Pr]; subst.
    cbn [word] in F0.
    destruct (tinsert_free _ _ s0 F0) as [t1 E]. rewrite E.
    apply IH; [ | exact Pr].
    rewrite Forall_forall in *. intros e He.
    eapply tinsert_keeps_free; [exact E | apply Fr; exact He | ].
    specialize (P0 e He). cbn [word] in P0. destruct P0 as [A B].
    split; assumption.
Qed.

(* --- bit lists and numbers ------------------------------------------ *)

Lemma pow2_S : forall n : nat, 2 ^ N.of_nat (S n) = 2 * 2 ^ N.of_nat n.
Proof. intros n. rewrite Nat2N.inj_succ, N.pow_succ_r'. reflexivity. Qed.

Lemma pow2_pos : forall n : nat, 0 < 2 ^ N.of_nat n.
Proof. intros n. apply N.neq_0_lt_0. apply N.pow_nonzero. discriminate. Qed.

Lemma pow2_add : forall a b : nat, 2 ^ N.of_nat (a + b) = 2 ^ N.of_nat a * 2 ^ N.of_nat b.
Proof. intros a b. rewrite Nat2N.inj_add, N.pow_add_r. reflexivity. Qed.

Lemma N_of_bits_app : forall l1 l2,
  N_of_bits (l1 ++ l2) = N_of_bits l1 + 2 ^ N.of_nat (length l1) * N_of_bits l2.
Proof.
  induction l1 as [|b r IH]; intros l2.
  - cbn [app length N_of_bits]. change (2 ^ N.of_nat 0) with 1. lia.
  - cbn [app length N_of_bits]. rewrite IH, pow2_S. lia.
Qed.

Lemma N_of_bits_lt : forall l, N_of_bits l < 2 ^ N.of_nat (length l).
Proof.
  induction l as [|b r IH].
  - cbn [length N_of_bits]. change (2 ^ N.of_nat 0) with 1. lia.
  - cbn [length N_of_bits]. rewrite pow2_S. destruct b; lia.
Qed.

Lemma N_of_bits_of_N : forall n v, v < 2 ^ N.of_nat n -> N_of_bits (bits_of_N n v) = v.
Proof.
  induction n as [|n IH]; intros v Hv.
  - change (2 ^ N.of_nat 0) with 1 in Hv. cbn [bits_of_N N_of_bits]. lia.
  - rewrite pow2_S in Hv. cbn [bits_of_N N_of_bits].
    pose proof (N.div2_odd v) as Hd.
    assert (Hb : N.b2n (N.odd v) = if N.odd v then 1 else 0) by (destruct (N.odd v); reflexivity).
    rewrite Hb in Hd.
    rewrite IH.
    + lia.
    + destruct (N.odd v); lia.
Qed.

(* a code word extended by z: the numeric picture *)
Lemma code_bits_prefix_arith : forall b1 c1 b2 c2 z,
  c1 < 2 ^ N.of_nat b1 -> c2 < 2 ^ N.of_nat b2 ->
  code_bits b2 c2 = code_bits b1 c1 ++ z ->
  b2 = (b1 + length z)%nat /\
  c1 * 2 ^ N.of_nat (length z) <= c2 /\ c2 < (c1 + 1) * 2 ^ N.of_nat (length z).
Proof.
  intros b1 c1 b2 c2 z H1 H2 HE.
  assert (HL : b2 = (b1 + length z)%nat).
  { apply (f_equal (@length bool)) in HE.
    rewrite app_length, !code_bits_length in HE. exact HE. }
  split; [exact HL|].
  rewrite !code_bits_rev in HE.
  apply (f_equal (@rev bool)) in HE.
  rewrite rev_app_distr, !rev_involutive in HE.
  apply (f_equal N_of_bits) in HE.
  rewrite N_of_bits_app, rev_length in HE.
  rewrite (N_of_bits_of_N _ _ H1), (N_of_bits_of_N _ _ H2) in HE.
  pose proof (N_of_bits_lt (rev z)) as Hz. rewrite rev_length in Hz.
  remember (2 ^ N.of_nat (length z)) as P.
  remember (N_of_bits (rev z)) as q.
  lia.
Qed.

(* --- arithmetic of first_code and the Kraft sum ---------------------- *)

Definition cnt (l : lens) (b : nat) : N := if Nat.eqb b 0 then 0 else count_len l b.

Definition ind (x b : nat) : N := if Nat.eqb b 0 then 0 else if Nat.eqb x b then 1 else 0.

Definition w1 (x b : nat) : N :=
  if (Nat.eqb x 0 || (b <=? x)%nat)%bool then 0 else 2 ^ N.of_nat (b - x).

Fixpoint psum (l : lens) (b : nat) : N :=
  match l with
  | [] => 0
  | x :: r => w1 x b + psum r b
  end.

Lemma cnt_nil : forall b, cnt [] b = 0.
Proof. intros b. unfold cnt, count_len. cbn [count_occ]. destruct (Nat.eqb b 0); reflexivity. Qed.

Lemma cnt_cons : forall x r b, cnt (x :: r) b = ind x b + cnt r b.
Proof.
  intros x r b. unfold cnt, ind, count_len. cbn [count_occ].
  destruct (Nat.eqb b 0) eqn:Eb; [reflexivity|].
  destruct (Nat.eq_dec x b) as [He|Hne].
  - apply Nat.eqb_eq in He. rewrite He. lia.
  - apply Nat.eqb_neq in Hne. rewrite Hne. lia.
Qed.

Lemma w1_S : forall x b, w1 x (S b) = 2 * (w1 x b + ind x b).
Proof.
  intros x b. unfold w1, ind.
  destruct (Nat.eqb x 0) eqn:Ex; cbn [orb].
  - apply Nat.eqb_eq in Ex. subst x.
    destruct (Nat.eqb b 0) eqn:Eb; [reflexivity|].
    destruct (Nat.eqb 0 b) eqn:Eb'; [|reflexivity].
    apply Nat.eqb_eq in Eb'. apply Nat.eqb_neq in Eb. lia.
  - apply Nat.eqb_neq in Ex.
    destruct (S b <=? x)%nat eqn:E1.
    + apply Nat.leb_le in E1.
      assert (E2 : (b <=? x)%nat = true) by (apply Nat.leb_le; lia). rewrite E2.
      assert (E3 : Nat.eqb x b = false) by (apply Nat.eqb_neq; lia). rewrite E3.
      destruct (Nat.eqb b 0); reflexivity.
    + apply Nat.leb_gt in E1.
      destruct (b <=? x)%nat eqn:E2.
      * apply Nat.leb_le in E2. assert (x = b) by lia. subst x.
        rewrite Nat.eqb_refl.
        assert (E3 : Nat.eqb b 0 = false) by (apply Nat.eqb_neq; lia). rewrite E3.
        replace (S b - b)%nat with 1%nat by lia. reflexivity.
      * apply Nat.leb_gt in E2.
        assert (E3 : Nat.eqb x b = false) by (apply Nat.eqb_neq; lia). rewrite E3.
        replace (S b - x)%nat with (S (b - x)) by lia. rewrite pow2_S.
        destruct (Nat.eqb b 0); lia.
Qed.

Lemma psum_S : forall l b, psum l (S b) = 2 * (psum l b + cnt l b).
Proof.
  induction l as [|x r IH]; intros b.
  - cbn [psum]. rewrite cnt_nil. reflexivity.
  - cbn [psum]. rewrite cnt_cons, IH, w1_S. lia.
Qed.

Lemma psum_0 : forall l, psum l 0 = 0.
Proof.
  induction l as [|x r IH].
  - reflexivity.
  - cbn [psum]. rewrite IH. unfold w1. cbn [Nat.leb]. rewrite orb_true_r. reflexivity.
Qed.

Lemma first_code_S : forall l b, first_code l (S b) = 2 * (first_code l b + cnt l b).
Proof. intros l b. reflexivity. Qed.

Lemma first_code_psum : forall l b, first_code l b = psum l b.
Proof.
  intros l. induction b as [|b IH].
  - rewrite psum_0. reflexivity.
  - rewrite first_code_S, psum_S, IH. reflexivity.
Qed.

Definition kterm (maxl x : nat) : N := if Nat.eqb x 0 then 0 else 2 ^ N.of_nat (maxl - x).

Lemma term_bound : forall maxl x b, (b <= maxl)%nat ->
  (w1 x b + ind x b) * 2 ^ N.of_nat (maxl - b) <= kterm maxl x.
Proof.
  intros maxl x b Hb. unfold w1, ind, kterm.
  destruct (Nat.eqb x 0) eqn:Ex; cbn [orb].
  - apply Nat.eqb_eq in Ex. subst x.
    destruct (Nat.eqb b 0) eqn:Eb; [lia|].
    destruct (Nat.eqb 0 b) eqn:Eb'; [|lia].
    apply Nat.eqb_eq in Eb'. apply Nat.eqb_neq in Eb. lia.
  - apply Nat.eqb_neq in Ex.
    destruct (b <=? x)%nat eqn:E2.
    + apply Nat.leb_le in E2.
      destruct (Nat.eqb b 0); [lia|].
      destruct (Nat.eqb x b) eqn:E3.
      * apply Nat.eqb_eq in E3. subst x. lia.
      * lia.
    + apply Nat.leb_gt in E2.
      assert (E3 : Nat.eqb x b = false) by (apply Nat.eqb_neq; lia). rewrite E3.
      replace (maxl - x)%nat with ((b - x) + (maxl - b))%nat by lia.
      rewrite pow2_add.
      destruct (Nat.eqb b 0); lia.
Qed.

Lemma kraft_bound : forall maxl l b, (b <= maxl)%nat ->
  (psum l b + cnt l b) * 2 ^ N.of_nat (maxl - b) <= kraft maxl l.
Proof.
  intros maxl l b Hb. induction l as [|x r IH].
  - cbn [psum kraft]. rewrite cnt_nil. lia.
  - cbn [psum kraft]. rewrite cnt_cons.
    pose proof (term_bound maxl x b Hb) as HT. unfold kterm in HT.
    remember (2 ^ N.of_nat (maxl - b)) as P.
    lia.
Qed.

(* Kraft => codes of length b fit into b bits *)
Lemma first_code_fits : forall maxl l b, (b <= maxl)%nat ->
  oversubscribed maxl l = false ->
  first_code l b + cnt l b <= 2 ^ N.of_nat b.
Proof.
  intros maxl l b Hb Ho. unfold oversubscribed in Ho. apply N.ltb_ge in Ho.
  pose proof (kraft_bound maxl l b Hb) as HK.
  rewrite <- first_code_psum in HK.
  assert (HP : 2 ^ N.of_nat maxl = 2 ^ N.of_nat b * 2 ^ N.of_nat (maxl - b)).
  { rewrite <- pow2_add. f_equal. lia. }
  rewrite HP in Ho.
  apply (N.mul_le_mono_pos_r _ _ (2 ^ N.of_nat (maxl - b))).
  - apply pow2_pos.
  - lia.
Qed.

(* the interval of length b2, cut down to b1 bits, lies after the interval of length b1 *)
Lemma first_code_mono : forall l b1 d,
  (first_code l b1 + cnt l b1) * 2 ^ N.of_nat (S d) <= first_code l (b1 + S d).
Proof.
  intros l b1. induction d as [|d IH].
  - replace (b1 + 1)%nat with (S b1) by lia. rewrite first_code_S.
    change (2 ^ N.of_nat 1) with 2. lia.
  - replace (b1 + S (S d))%nat with (S (b1 + S d)) by lia.
    rewrite first_code_S. rewrite (pow2_S (S d)).
    remember (2 ^ N.of_nat (S d)) as P.
    remember (first_code l b1 + cnt l b1) as A.
    lia.
Qed.

(* --- the values handed out by assign --------------------------------- *)

Lemma upd_nil : forall A i (v : A), upd i v [] = [].
Proof. intros A i v. unfold upd. destruct i; reflexivity. Qed.

Lemma upd_0 : forall A (v a : A) l, upd 0 v (a :: l) = v :: l.
Proof. intros. reflexivity. Qed.

Lemma upd_S : forall A i (v a : A) l, upd (S i) v (a :: l) = a :: upd i v l.
Proof. intros. reflexivity. Qed.

Lemma upd_length : forall A (l : list A) i v, length (upd i v l) = length l.
Proof.
  induction l as [|a l IH]; intros i v.
  - rewrite upd_nil. reflexivity.
  - destruct i as [|i].
    + rewrite upd_0. reflexivity.
    + rewrite upd_S. cbn [length]. rewrite IH. reflexivity.
Qed.

Lemma nth_upd_same : forall A (l : list A) i v d, (i < length l)%nat -> nth i (upd i v l) d = v.
Proof.
  induction l as [|a l IH]; intros i v d Hi.
  - cbn [length] in Hi. lia.
  - destruct i as [|i].
    + rewrite upd_0. reflexivity.
    + rewrite upd_S. cbn [nth]. apply IH. cbn [length] in Hi. lia.
Qed.

Lemma nth_upd_other : forall A (l : list A) i j v d, i <> j -> nth j (upd i v l) d = nth j l d.
Proof.
  induction l as [|a l IH]; intros i j v d Hij.
  - rewrite upd_nil. reflexivity.
  - destruct i as [|i].
    + rewrite upd_0. destruct j as [|j]; [congruence | reflexivity].
    + rewrite upd_S. destruct j as [|j]; [reflexivity|].
      cbn [nth]. apply IH. congruence.
Qed.

Definition occ (r : lens) (x : nat) : N := N.of_nat (count_occ Nat.eq_dec r x).

Lemma occ_cons_same : forall x r, occ (x :: r) x = occ r x + 1.
Proof.
  intros x r. unfold occ. cbn [count_occ].
  destruct (Nat.eq_dec x x) as [_|Hne]; [lia | congruence].
Qed.

Lemma occ_cons_other : forall x0 r x, x0 <> x -> occ (x0 :: r) x = occ r x.
Proof.
  intros x0 r x Hne. unfold occ. cbn [count_occ].
  destruct (Nat.eq_dec x0 x) as [He|_]; [congruence | reflexivity].
Qed.

(* every entry's value lies in [nc[x], nc[x] + #occurrences of x) *)
Lemma assign_range : forall r sym nc s x c,
  Forall (fun y => (y < length nc)%nat) r ->
  In (s, x, c) (assign r sym nc) ->
  x <> 0%nat /\ In x r /\ nth x nc 0 <= c /\ c < nth x nc 0 + occ r x.
Proof.
  induction r as [|x0 r IH]; intros sym nc s x c HF HIn.
  - destruct HIn.
  - inversion HF as [|y0 r0 Hx0 HFr]; subst.
    cbn [assign] in HIn. destruct (Nat.eqb x0 0) eqn:E.
    + apply Nat.eqb_eq in E. subst x0.
      destruct (IH _ _ _ _ _ HFr HIn) as [A [B [C D]]].
      split; [exact A|]. split; [right; exact B|]. split; [exact C|].
      rewrite occ_cons_other by congruence. exact D.
    + apply Nat.eqb_neq in E. destruct HIn as [HEq|HIn].
      * injection HEq as <- <- <-.
        split; [exact E|]. split; [left; reflexivity|].
        rewrite occ_cons_same. lia.
      * assert (HFr' : Forall (fun y => Nat.lt y (length (upd x0 (nth x0 nc 0 + 1) nc))) r).
        { rewrite upd_length. exact HFr. }
        destruct (IH _ _ _ _ _ HFr' HIn) as [A [B [C D]]].
        split; [exact A|]. split; [right; exact B|].
        destruct (Nat.eq_dec x0 x) as [He|Hne].
        -- subst x. rewrite nth_upd_same in C, D by exact Hx0.
           rewrite occ_cons_same. lia.
        -- rewrite nth_upd_other in C, D by exact Hne.
           rewrite occ_cons_other by exact Hne. lia.
Qed.

(* entries of equal length get strictly increasing values *)
Lemma assign_increasing : forall r sym nc,
  Forall (fun y => (y < length nc)%nat) r ->
  ForallOrdPairs (fun e1 e2 : nat * nat * N =>
                    snd (fst e1) = snd (fst e2) -> snd e1 < snd e2) (assign r sym nc).
Proof.
  induction r as [|x0 r IH]; intros sym nc HF.
  - cbn [assign]. constructor.
  - inversion HF as [|y0 r0 Hx0 HFr]; subst.
    cbn [assign]. destruct (Nat.eqb x0 0) eqn:E.
    + apply IH. exact HFr.
    + assert (HFr' : Forall (fun y => Nat.lt y (length (upd x0 (nth x0 nc 0 + 1) nc))) r).
      { rewrite upd_length. exact HFr. }
      constructor.
      * rewrite Forall_forall. intros [[s x] c] HIn. cbn [fst snd]. intros Hx. subst x.
        destruct (assign_range _ _ _ _ _ _ HFr' HIn) as [_ [_ [C _]]].
        rewrite nth_upd_same in C by exact Hx0. lia.
      * apply IH. exact HFr'.
Qed.

Lemma nth_first_codes : forall l x, (x < 17)%nat ->
  nth x (map (first_code l) (seq 0 17)) 0 = first_code l x.
Proof.
  intros l x Hx.
  change (nth x (map (first_code l) (seq 0 17)) (first_code l 0%nat) = first_code l x).
  rewrite map_nth. rewrite seq_nth by exact Hx. reflexivity.
Qed.

Lemma FOP_impl : forall A (P : A -> Prop) (R R' : A -> A -> Prop) (l : list A),
  (forall a b, P a -> P b -> R a b -> R' a b) ->
  Forall P l -> ForallOrdPairs R l -> ForallOrdPairs R' l.
Proof.
  intros A P R R' l HI. induction l as [|a l IH]; intros HP HR.
  - constructor.
  - inversion HP as [|a0 l0 Pa Pl]; subst.
    inversion HR as [|a0 l0 Ra Rl]; subst.
    constructor.
    + rewrite Forall_forall in *. intros b Hb. apply HI; auto.
    + apply IH; assumption.
Qed.

(* --- canonical codes are prefix free ----------------------------------- *)

Definition good (maxl : nat) (l : lens) (e : nat * nat * N) : Prop :=
  match e with
  | (_, x, c) => x <> 0%nat /\ (x <= maxl)%nat /\ first_code l x <= c /\ c < first_code l x + cnt l x
  end.

Lemma good_noprefix : forall maxl l s1 b1 c1 s2 b2 c2,
  oversubscribed maxl l = false ->
  good maxl l (s1, b1, c1) -> good maxl l (s2, b2, c2) ->
  (b1 = b2 -> c1 <> c2) ->
  ~ prefix (code_bits b1 c1) (code_bits b2 c2).
Proof.
  intros maxl l s1 b1 c1 s2 b2 c2 Ho [N1 [M1 [L1 U1]]] [N2 [M2 [L2 U2]]] Hne [z Hz].
  pose proof (first_code_fits maxl l b1 M1 Ho) as F1.
  pose proof (first_code_fits maxl l b2 M2 Ho) as F2.
  assert (H1 : c1 < 2 ^ N.of_nat b1) by lia.
  assert (H2 : c2 < 2 ^ N.of_nat b2) by lia.
  destruct (code_bits_prefix_arith _ _ _ _ _ H1 H2 Hz) as [HL [HA HB]].
  destruct (length z) as [|d] eqn:Ez.
  - change (2 ^ N.of_nat 0) with 1 in HA, HB.
    apply Hne; lia.
  - pose proof (first_code_mono l b1 d) as HM. rewrite <- HL in HM.
    assert (HC : (c1 + 1) * 2 ^ N.of_nat (S d) <= (first_code l b1 + cnt l b1) * 2 ^ N.of_nat (S d)).
    { apply N.mul_le_mono_r. lia. }
    lia.
Qed.

Lemma canon_good : forall maxl l, (maxl <= 16)%nat ->
  Forall (fun x => (x <= maxl)%nat) l ->
  Forall (good maxl l) (canon l).
Proof.
  intros maxl l Hm Hl. rewrite Forall_forall. intros [[s x] c] HIn.
  unfold canon in HIn.
  assert (HF : Forall (fun y => (y < length (map (first_code l) (seq 0 17)))%nat) l).
  { rewrite map_length, seq_length. rewrite Forall_forall in *.
    intros y Hy. specialize (Hl y Hy). lia. }
  destruct (assign_range _ _ _ _ _ _ HF HIn) as [A [B [C D]]].
  rewrite Forall_forall in Hl. specialize (Hl x B).
  rewrite nth_first_codes in C, D by lia.
  unfold good. split; [exact A|]. split; [exact Hl|]. split; [exact C|].
  unfold cnt. assert (E : Nat.eqb x 0 = false) by (apply Nat.eqb_neq; exact A).
  rewrite E. exact D.
Qed.

Theorem kraft_sufficient : kraft_sufficient_statement.
Proof.
  unfold kraft_sufficient_statement. intros maxl l Hm Hl Ho.
  unfold mktrie. rewrite Ho.
  apply build_succeeds.
  - rewrite Forall_forall. intros e _. exact I.
  - assert (HF : Forall (fun y => (y < length (map (first_code l) (seq 0 17)))%nat) l).
    { rewrite map_length, seq_length. rewrite Forall_forall in *.
      intros y Hy. specialize (Hl y Hy). lia. }
    pose proof (assign_increasing l 0%nat _ HF) as HInc. fold (canon l) in HInc.
    pose proof (canon_good maxl l Hm Hl) as HG.
    eapply FOP_impl; [ | exact HG | exact HInc].
    intros [[s1 b1] c1] [[s2 b2] c2] G1 G2 HR. cbn [fst snd] in HR. cbn [word].
    split.
    + eapply good_noprefix; [exact Ho | exact G1 | exact G2 | ].
      intros Hb. specialize (HR Hb). lia.
    + eapply good_noprefix; [exact Ho | exact G2 | exact G1 | ].
      intros Hb. symmetry in Hb. specialize (HR Hb). lia.
Qed.

Print Assumptions decode_encode.
Print Assumptions canon_complete.
Print Assumptions decode_consumes.
Print Assumptions kraft_sufficient.
