(* LZ77Proofs.v — proofs of the two statements of WModel/LZ77Spec.v about the executable
   model of the match finder (WModel/LZ77.v). *)
From Verif Require Import LZ77Spec.
From Coq Require Import Lia ZifyBool ZifyNat ZifyN.
Open Scope N_scope.

(* ------------------------------------------------------------------ *)
(* arrays                                                               *)

Lemma succ_pos_inj : forall i j, N.succ_pos i = N.succ_pos j -> i = j.
Proof.
  intros i j H. apply N.succ_inj. rewrite <- !N.succ_pos_spec. now rewrite H.
Qed.

Lemma aget_aset : forall a i v j, aget (aset a i v) j = if j =? i then v else aget a j.
Proof.
  intros a i v j. unfold aget, aset. destruct (N.eqb_spec j i) as [Heq|Hne].
  - subst j. now rewrite PositiveMap.gss.
  - rewrite PositiveMap.gso; auto. intro H; apply Hne, succ_pos_inj, H.
Qed.

Lemma aget_empty : forall j, aget aempty j = 0.
Proof. intros j. unfold aget, aempty. now rewrite PositiveMap.gempty. Qed.

Lemma lenN_cons : forall A (x : A) l, lenN (x :: l) = lenN l + 1.
Proof. intros. unfold lenN. cbn [length]. lia. Qed.

Lemma lenN_nil : forall A, lenN (@nil A) = 0.
Proof. reflexivity. Qed.

Lemma aget_fill : forall l i a j,
  aget (arr_fill l i a) j =
  if (i <=? j) && (j <? i + lenN l) then nth (N.to_nat (j - i)) l 0 else aget a j.
Proof.
  induction l as [|x r IH]; intros i a j.
  - rewrite lenN_nil. cbn [arr_fill].
    destruct ((i <=? j) && (j <? i + 0)) eqn:E; [lia|reflexivity].
  - cbn [arr_fill]. rewrite IH, lenN_cons, aget_aset.
    destruct ((i + 1 <=? j) && (j <? i + 1 + lenN r)) eqn:E1;
    destruct ((i <=? j) && (j <? i + (lenN r + 1))) eqn:E2; try lia.
    + replace (N.to_nat (j - i)) with (S (N.to_nat (j - (i + 1)))) by lia.
      reflexivity.
    + destruct (N.eqb_spec j i) as [Heq|Hne]; [|lia].
      subst j. replace (N.to_nat (i - i)) with O by lia. reflexivity.
    + destruct (N.eqb_spec j i) as [Heq|Hne]; [lia|reflexivity].
Qed.

Lemma aget_of_list : forall l j, aget (arr_of_list l) j = nth (N.to_nat j) l 0.
Proof.
  intros l j. unfold arr_of_list. rewrite aget_fill, aget_empty.
  destruct ((0 <=? j) && (j <? 0 + lenN l)) eqn:E.
  - now rewrite N.sub_0_r.
  - symmetry. apply nth_overflow. unfold lenN in E. lia.
Qed.

(* ------------------------------------------------------------------ *)
(* lists                                                                *)

Lemma nth_firstn_lt : forall (l : list N) n k, (k < n)%nat -> nth k (firstn n l) 0 = nth k l 0.
Proof.
  induction l as [|x r IH]; intros n k H.
  - now rewrite firstn_nil.
  - destruct n as [|n]; [lia|]. destruct k as [|k]; [reflexivity|].
    cbn [firstn nth]. apply IH. lia.
Qed.

Lemma nth_skipn_add : forall (l : list N) k i, nth i (skipn k l) 0 = nth (k + i) l 0.
Proof.
  induction l as [|x r IH]; intros k i.
  - rewrite skipn_nil. destruct (k + i)%nat; destruct i; reflexivity.
  - destruct k as [|k]; [reflexivity|]. cbn [skipn Nat.add nth]. apply IH.
Qed.

Lemma firstn_S_nth : forall (l : list N) k, (k < length l)%nat ->
  firstn (S k) l = firstn k l ++ [nth k l 0].
Proof.
  induction l as [|x r IH]; intros k H.
  - cbn [length] in H. lia.
  - destruct k as [|k]; [reflexivity|].
    cbn [length] in H. change (firstn (S (S k)) (x :: r)) with (x :: firstn (S k) r).
    rewrite IH by lia. reflexivity.
Qed.

Lemma nth_rev_firstn : forall (l : list N) n k, (k < n <= length l)%nat ->
  nth k (rev (firstn n l)) 0 = nth (n - 1 - k) l 0.
Proof.
  intros l n k H.
  rewrite rev_nth by (rewrite firstn_length_le; lia).
  rewrite firstn_length_le by lia.
  rewrite nth_firstn_lt by lia. f_equal. lia.
Qed.

Lemma skipn_cons_nth : forall (l : list N) k b l', skipn k l = b :: l' ->
  (k < length l)%nat /\ b = nth k l 0 /\ l' = skipn (S k) l.
Proof.
  induction l as [|x r IH]; intros k b l' H.
  - rewrite skipn_nil in H. discriminate.
  - destruct k as [|k].
    + cbn [skipn] in H. inversion H; subst. cbn [length nth skipn]. repeat split. lia.
    + cbn [skipn] in H. apply IH in H. destruct H as (H1 & H2 & H3).
      cbn [length nth]. repeat split; auto. lia.
Qed.

Lemma skipn_nil_len : forall (l : list N) k, skipn k l = [] -> (length l <= k)%nat.
Proof.
  intros l k H. pose proof (skipn_length k l) as HL. rewrite H in HL. cbn [length] in HL. lia.
Qed.

(* ------------------------------------------------------------------ *)
(* tokens                                                               *)

Fixpoint tlen (ts : list tok) : N :=
  match ts with [] => 0 | t :: r => tok_len t + tlen r end.

Lemma tlen_app : forall t1 t2, tlen (t1 ++ t2) = tlen t1 + tlen t2.
Proof.
  induction t1 as [|t r IH]; intros t2.
  - reflexivity.
  - cbn [app tlen]. rewrite IH. lia.
Qed.

Lemma expand_rev_app : forall t1 t2 h,
  expand_rev (t1 ++ t2) h = expand_rev t2 (expand_rev t1 h).
Proof.
  induction t1 as [|t r IH]; intros t2 h.
  - reflexivity.
  - destruct t as [b|len dist]; cbn [app expand_rev]; apply IH.
Qed.

Lemma toks_ok_app : forall W t1 t2 b,
  toks_ok W b (t1 ++ t2) <-> toks_ok W b t1 /\ toks_ok W (b + tlen t1) t2.
Proof.
  induction t1 as [|t r IH]; intros t2 b.
  - cbn [app toks_ok tlen]. rewrite N.add_0_r. tauto.
  - cbn [app toks_ok tlen]. rewrite IH. rewrite N.add_assoc. tauto.
Qed.

Definition pre (input : list N) (n : N) : list N := rev (firstn (N.to_nat n) input).

Lemma pre_succ : forall input n, n < lenN input ->
  pre input (n + 1) = nth (N.to_nat n) input 0 :: pre input n.
Proof.
  intros input n H. unfold pre.
  replace (N.to_nat (n + 1)) with (S (N.to_nat n)) by lia.
  rewrite firstn_S_nth by (unfold lenN in H; lia).
  now rewrite rev_unit.
Qed.

Definition matches (input : list N) (off dist m : N) : Prop :=
  1 <= dist /\ dist <= off /\ off + m <= lenN input /\
  forall i, i < m -> nth (N.to_nat (off - dist + i)) input 0 = nth (N.to_nat (off + i)) input 0.

Lemma matches_shift : forall input off dist m k, matches input off dist m -> k <= m ->
  matches input (off + k) dist (m - k).
Proof.
  intros input off dist m k (H1 & H2 & H3 & H4) Hk. repeat split; try lia.
  intros i Hi. replace (off + k - dist + i) with (off - dist + (k + i)) by lia.
  replace (off + k + i) with (off + (k + i)) by lia. apply H4. lia.
Qed.

Lemma matches_shorter : forall input off dist m m', matches input off dist m -> m' <= m ->
  matches input off dist m'.
Proof.
  intros input off dist m m' (H1 & H2 & H3 & H4) Hk. repeat split; try lia.
  intros i Hi. apply H4. lia.
Qed.

Lemma copy_ok : forall input dist (m : nat) off,
  matches input off dist (N.of_nat m) ->
  copy_from (pre input off) dist m = pre input (off + N.of_nat m).
Proof.
  intros input dist. induction m as [|m IH]; intros off HM.
  - cbn [copy_from]. f_equal. lia.
  - cbn [copy_from].
    assert (Hh : nth (N.to_nat dist - 1) (pre input off) 0 :: pre input off = pre input (off + 1)).
    { destruct HM as (H1 & H2 & H3 & H4).
      rewrite pre_succ by lia. f_equal. unfold pre.
      rewrite nth_rev_firstn by (unfold lenN in H3; lia).
      replace (N.to_nat off - 1 - (N.to_nat dist - 1))%nat with (N.to_nat (off - dist + 0)) by lia.
      rewrite H4 by lia. f_equal. lia. }
    rewrite Hh.
    replace (off + N.of_nat (S m)) with (off + 1 + N.of_nat m) by lia.
    apply IH.
    replace (N.of_nat m) with (N.of_nat (S m) - 1) by lia.
    apply matches_shift; [exact HM|lia].
Qed.

(* a group of tokens (newest first) standing at position off and covering adv bytes *)
Definition good (W : N) (input : list N) (off : N) (ts : list tok) (adv : N) : Prop :=
  off + adv <= lenN input /\
  expand_rev (rev ts) (pre input off) = pre input (off + adv) /\
  toks_ok W off (rev ts) /\
  tlen (rev ts) = adv.

Lemma good_nil : forall W input off, off <= lenN input -> good W input off [] 0.
Proof.
  intros W input off H. unfold good. cbn [rev expand_rev toks_ok tlen].
  rewrite N.add_0_r. auto.
Qed.

Lemma good_app : forall W input off t1 a1 t2 a2,
  good W input off t1 a1 -> good W input (off + a1) t2 a2 ->
  good W input off (t2 ++ t1) (a1 + a2).
Proof.
  intros W input off t1 a1 t2 a2 (A1 & A2 & A3 & A4) (B1 & B2 & B3 & B4).
  unfold good. rewrite rev_app_distr, expand_rev_app, toks_ok_app, tlen_app, A2, A4, B4.
  rewrite N.add_assoc. auto.
Qed.

Lemma good_lit : forall W input off, off < lenN input ->
  good W input off [TLit (nth (N.to_nat off) input 0)] 1.
Proof.
  intros W input off H. unfold good. cbn [rev app expand_rev toks_ok tlen tok_len tok_ok].
  rewrite pre_succ by lia. repeat split; auto. lia.
Qed.

Lemma good_match : forall W input off dist m,
  matches input off dist m -> 3 <= m -> m <= 258 -> dist <= W ->
  good W input off [TMatch m dist] m.
Proof.
  intros W input off dist m HM H3 H258 HW. unfold good.
  cbn [rev app expand_rev toks_ok tlen tok_len tok_ok].
  pose proof HM as (H1 & H2 & H5 & H4).
  repeat split; auto; try lia.
  rewrite copy_ok by (rewrite N2Nat.id; exact HM).
  now rewrite N2Nat.id.
Qed.

(* ------------------------------------------------------------------ *)
(* common prefix length, matchLength                                    *)

Lemma cpl_spec : forall a l p cap acc, exists n,
  cpl a p l cap acc = acc + n /\ n <= lenN l /\ n <= cap /\
  forall i, i < n -> aget a (p + i) = nth (N.to_nat i) l 0.
Proof.
  intros a. induction l as [|x r IH]; intros p cap acc.
  - exists 0. cbn [cpl]. rewrite lenN_nil. repeat split; try lia.
  - cbn [cpl]. destruct ((0 <? cap) && (aget a p =? x)) eqn:E.
    + destruct (IH (p + 1) (cap - 1) (acc + 1)) as (n & H1 & H2 & H3 & H4).
      exists (n + 1). rewrite lenN_cons. repeat split; try lia.
      intros i Hi. destruct (N.eq_dec i 0) as [Hz|Hnz].
      * subst i. rewrite N.add_0_r. cbn [N.to_nat nth]. lia.
      * replace (p + i) with (p + 1 + (i - 1)) by lia.
        replace (N.to_nat i) with (S (N.to_nat (i - 1))) by lia.
        cbn [nth]. apply H4. lia.
    + exists 0. repeat split; try lia.
Qed.

Lemma match_length_spec : forall a prev offset e l,
  match_length a prev offset e l <= lenN l /\
  forall i, i < match_length a prev offset e l -> aget a (prev + i) = nth (N.to_nat i) l 0.
Proof.
  intros a prev offset e l. unfold match_length.
  destruct (cpl_spec a l prev 8 0) as (n & H1 & H2 & H3 & H4).
  rewrite H1, N.add_0_l.
  destruct (n <? 8) eqn:E8; [split; [lia|exact H4]|].
  assert (n = 8) by lia. subst n.
  destruct (e <? offset + 16) eqn:E16; [split; [lia|exact H4]|].
  destruct (cpl_spec a (skipn 8 l) (prev + 8) (e - offset - 8) 0) as (n & G1 & G2 & G3 & G4).
  rewrite G1, N.add_0_l.
  assert (HL : lenN (skipn 8 l) = lenN l - 8).
  { unfold lenN. rewrite skipn_length. lia. }
  split; [lia|].
  intros i Hi. destruct (N.ltb_spec i 8) as [Hlt|Hge]; [apply H4; exact Hlt|].
  replace (prev + i) with (prev + 8 + (i - 8)) by lia.
  rewrite G4 by lia. rewrite nth_skipn_add. f_equal. lia.
Qed.

(* ------------------------------------------------------------------ *)
(* the loop emitting 258-tokens                                         *)

Lemma emit258_spec : forall W input off dist maxToken fuel ml adv ntok acc acc' adv' ml' nt' stopped,
  dist <= W ->
  matches input (off + adv) dist ml -> 1 <= ml -> ml < 258 * N.of_nat fuel ->
  good W input off acc adv ->
  emit258 fuel dist ml adv ntok maxToken acc = (acc', adv', ml', nt', stopped) ->
  good W input off acc' adv' /\ nt' + lenN acc = ntok + lenN acc' /\ adv <= adv' /\
  (stopped = true -> maxToken < nt' /\ adv < adv') /\
  (stopped = false -> matches input (off + adv') dist ml' /\ 1 <= ml' /\ ml' <= 258).
Proof.
  intros W input off dist maxToken.
  induction fuel as [|f IH]; intros ml adv ntok acc acc' adv' ml' nt' stopped HW HM H1 Hf HG HE.
  - lia.
  - cbn [emit258] in HE. destruct (258 <? ml) eqn:E258.
    + assert (HG' : good W input off (TMatch 258 dist :: acc) (adv + 258)).
      { change (TMatch 258 dist :: acc) with ([TMatch 258 dist] ++ acc).
        apply good_app; [exact HG|].
        apply good_match; try lia. apply matches_shorter with (m := ml); [exact HM|lia]. }
      destruct (maxToken <? ntok + 1) eqn:EM.
      * inversion HE; subst. rewrite lenN_cons.
        split; [exact HG'|]. split; [lia|]. split; [lia|]. split.
        -- intros _. lia.
        -- intros Hs. discriminate Hs.
      * apply IH in HE; try lia; try exact HG'.
        -- rewrite lenN_cons in HE. destruct HE as (G1 & G2 & G3 & G4 & G5).
           split; [exact G1|]. split; [lia|]. split; [lia|]. split.
           ++ intros Hs. apply G4 in Hs. lia.
           ++ exact G5.
        -- replace (off + (adv + 258)) with (off + adv + 258) by lia.
           apply matches_shift; [exact HM|lia].
    + inversion HE; subst.
      split; [exact HG|]. split; [lia|]. split; [lia|]. split.
      * intros Hs. discriminate Hs.
      * intros _. split; [exact HM|lia].
Qed.

(* ------------------------------------------------------------------ *)
(* one position                                                         *)

Lemma good_lit_cons : forall W input off acc adv,
  good W input off acc adv -> off + adv < lenN input ->
  good W input off (TLit (aget (arr_of_list input) (off + adv)) :: acc) (adv + 1).
Proof.
  intros W input off acc adv HG H. rewrite aget_of_list.
  change (good W input off ([TLit (nth (N.to_nat (off + adv)) input 0)] ++ acc) (adv + 1)).
  apply good_app; [exact HG|]. apply good_lit. exact H.
Qed.

Lemma good_match_cons : forall W input off acc adv dist m,
  good W input off acc adv -> matches input (off + adv) dist m -> 3 <= m -> m <= 258 ->
  dist <= W ->
  good W input off (TMatch m dist :: acc) (adv + m).
Proof.
  intros W input off acc adv dist m HG HM H3 H258 HW.
  change (good W input off ([TMatch m dist] ++ acc) (adv + m)).
  apply good_app; [exact HG|]. apply good_match; assumption.
Qed.

Lemma lz_step_ok : forall W input e mask rel offset table ntok maxToken,
  offset < lenN input ->
  forall r, r = lz_step (arr_of_list input) e mask W rel offset (skipn (N.to_nat offset) input)
                 table ntok maxToken ->
  sr_oob r = false ->
  good W input offset (sr_toks r) (sr_adv r) /\ 1 <= sr_adv r /\
  (sr_stop r = true -> maxToken < ntok + lenN (sr_toks r)).
Proof.
  intros W input e mask rel offset table ntok maxToken Hoff r Hr Hoob.
  assert (HG0 : good W input offset [] 0) by (apply good_nil; lia).
  unfold lz_step in Hr.
  set (h := N.land (hash4 (load32 (arr_of_list input) offset)) mask) in Hr.
  set (dist := ((rel + offset) mod two16 + two16 - aget table h) mod two16) in Hr.
  set (table1 := aset table h ((rel + offset) mod two16)) in Hr.
  set (ml := match_length (arr_of_list input) (offset - dist) offset e
                          (skipn (N.to_nat offset) input)) in Hr.
  assert (HLIT : good W input offset [TLit (aget (arr_of_list input) offset)] (0 + 1)).
  { pose proof (good_lit_cons W input offset [] 0 HG0) as HL.
    rewrite N.add_0_r in HL. apply HL. exact Hoff. }
  destruct ((1 <=? dist) && (dist <=? W)) eqn:EC.
  2:{ subst r. cbn [sr_toks sr_adv sr_stop]. split; [exact HLIT|]. split; [lia|].
      intros Hs. rewrite lenN_cons, lenN_nil. lia. }
  destruct (offset <? dist) eqn:EO.
  { subst r. discriminate Hoob. }
  assert (HM : matches input offset dist ml).
  { destruct (match_length_spec (arr_of_list input) (offset - dist) offset e
                                (skipn (N.to_nat offset) input)) as (ML1 & ML2).
    fold ml in ML1, ML2.
    assert (HL : lenN (skipn (N.to_nat offset) input) = lenN input - offset).
    { unfold lenN. rewrite skipn_length. lia. }
    split; [lia|]. split; [lia|]. split; [lia|].
    intros i Hi. specialize (ML2 i Hi). rewrite aget_of_list, nth_skipn_add in ML2.
    rewrite ML2. f_equal. lia. }
  destruct (258 <? ml) eqn:E258.
  - destruct (emit258 (S (N.to_nat (ml / 258))) dist ml 0 ntok maxToken [])
      as [[[[acc adv] ml'] nt] stopped] eqn:EE.
    apply emit258_spec with (W := W) (input := input) (off := offset) in EE;
      [ | lia | rewrite N.add_0_r; exact HM | lia | | exact HG0 ].
    2:{ pose proof (N.div_mod ml 258) as HD. pose proof (N.mod_lt ml 258) as HL. lia. }
    destruct EE as (G1 & G2 & G3 & G4 & G5). rewrite lenN_nil in G2.
    destruct stopped.
    + subst r. cbn [sr_toks sr_adv sr_stop]. destruct G4 as (G4a & G4b); [reflexivity|].
      split; [exact G1|]. split; [lia|]. intros _. lia.
    + destruct G5 as (G5a & G5b & G5c); [reflexivity|].
      destruct (4 <=? ml') eqn:E4.
      * subst r. cbn [sr_toks sr_adv sr_stop]. split.
        -- apply good_match_cons; try assumption; lia.
        -- split; [lia|]. intros Hs. rewrite lenN_cons. lia.
      * subst r. cbn [sr_toks sr_adv sr_stop]. split.
        -- apply good_lit_cons; [exact G1|]. destruct G5a as (_ & _ & M3 & _). lia.
        -- split; [lia|]. intros Hs. rewrite lenN_cons. lia.
  - destruct (4 <=? ml) eqn:E4.
    + subst r. cbn [sr_toks sr_adv sr_stop]. split.
      * apply good_match; try assumption; lia.
      * split; [lia|]. intros Hs. rewrite lenN_cons, lenN_nil. lia.
    + subst r. cbn [sr_toks sr_adv sr_stop]. split; [exact HLIT|]. split; [lia|].
      intros Hs. rewrite lenN_cons, lenN_nil. lia.
Qed.

(* ------------------------------------------------------------------ *)
(* the loop                                                             *)

Lemma lz_loop_oob_true : forall flush a len e mask W rel maxToken l offset skip table toks ntok,
  lz_oob (lz_loop flush a len e mask W rel maxToken l offset skip table toks ntok true) = true.
Proof.
  intros flush a len e mask W rel maxToken.
  induction l as [|b l' IH]; intros offset skip table toks ntok.
  - reflexivity.
  - cbn [lz_loop]. destruct skip as [|k]; [|apply IH].
    destruct (offset <? e).
    + destruct (sr_stop _); [reflexivity|]. cbn [orb]. apply IH.
    + destruct flush; [|reflexivity].
      destruct (maxToken <? ntok + 1); [reflexivity|apply IH].
Qed.

Lemma lz_loop_ok : forall flush W input e mask rel maxToken l offset skip table toks ntok,
  l = skipn (N.to_nat offset) input ->
  offset + N.of_nat skip <= lenN input ->
  forall r, r = lz_loop flush (arr_of_list input) (lenN input) e mask W rel maxToken
                        l offset skip table toks ntok false ->
  lz_oob r = false ->
  exists new adv,
    lz_toks r = new ++ toks /\ lz_ntok r = ntok + lenN new /\
    good W input (offset + N.of_nat skip) new adv /\
    lz_off r = offset + N.of_nat skip + adv /\
    (flush = true -> lz_ntok r <= maxToken -> lz_off r = lenN input).
Proof.
  intros flush W input e mask rel maxToken.
  induction l as [|b l' IH]; intros offset skip table toks ntok Hl Hlen r Hr Hoob.
  - cbn [lz_loop] in Hr. symmetry in Hl. apply skipn_nil_len in Hl.
    assert (Hs : skip = O) by (unfold lenN in Hlen; lia). subst skip.
    assert (Ho : offset = lenN input) by (unfold lenN in *; lia).
    exists [], 0. subst r. cbn [lz_toks lz_ntok lz_off app].
    rewrite lenN_nil. change (N.of_nat 0) with 0. rewrite !N.add_0_r.
    split; [reflexivity|]. split; [reflexivity|]. split; [apply good_nil; lia|].
    split; [reflexivity|]. intros _ _. exact Ho.
  - symmetry in Hl. apply skipn_cons_nth in Hl. destruct Hl as (Hlt & Hb & Hl').
    assert (Hl'' : l' = skipn (N.to_nat (offset + 1)) input).
    { rewrite Hl'. f_equal. lia. }
    cbn [lz_loop] in Hr. destruct skip as [|k].
    + change (N.of_nat 0) with 0 in *. rewrite N.add_0_r in *.
      destruct (offset <? e) eqn:Ee.
      * remember (lz_step (arr_of_list input) e mask W rel offset (b :: l') table ntok maxToken)
          as sr eqn:Hsr.
        destruct (sr_oob sr) eqn:Esro.
        { exfalso. cbn [orb] in Hr. destruct (sr_stop sr).
          - subst r. discriminate Hoob.
          - subst r. rewrite lz_loop_oob_true in Hoob. discriminate Hoob. }
        cbn [orb] in Hr.
        assert (Hsr' : sr = lz_step (arr_of_list input) e mask W rel offset
                                    (skipn (N.to_nat offset) input) table ntok maxToken).
        { rewrite Hsr. f_equal. rewrite Hb, Hl'.
          clear - Hlt. revert Hlt. generalize (N.to_nat offset) as k. intros k.
          revert k. induction input as [|x xs IHx]; intros k Hk.
          - cbn [length] in Hk. lia.
          - destruct k as [|k]; [reflexivity|]. cbn [length] in Hk.
            cbn [nth]. change (skipn (S (S k)) (x :: xs)) with (skipn (S k) xs).
            change (skipn (S k) (x :: xs)) with (skipn k xs). apply IHx. lia. }
        destruct (lz_step_ok W input e mask rel offset table ntok maxToken
                    ltac:(unfold lenN; lia) sr Hsr' Esro) as (SG & SA & SS).
        destruct (sr_stop sr) eqn:Estop.
        -- exists (sr_toks sr), (sr_adv sr). subst r. cbn [lz_toks lz_ntok lz_off].
           split; [reflexivity|]. split; [reflexivity|]. split; [exact SG|].
           split; [reflexivity|]. intros _ Hle. specialize (SS eq_refl). lia.
        -- destruct SG as (SG1 & SG2).
           destruct (IH (offset + 1) (N.to_nat (sr_adv sr) - 1)%nat (sr_table sr)
                        (sr_toks sr ++ toks) (ntok + lenN (sr_toks sr)) Hl''
                        ltac:(lia) r Hr Hoob) as (new & adv & I1 & I2 & I3 & I4 & I5).
           replace (offset + 1 + N.of_nat (N.to_nat (sr_adv sr) - 1)) with (offset + sr_adv sr)
             in * by lia.
           exists (new ++ sr_toks sr), (sr_adv sr + adv).
           split; [rewrite I1; apply app_assoc|].
           split; [rewrite I2; unfold lenN; rewrite app_length; lia|].
           split; [apply good_app; [split; assumption|exact I3]|].
           split; [lia|exact I5].
      * destruct flush.
        -- destruct (maxToken <? ntok + 1) eqn:EM.
           ++ exists [TLit b], 1. subst r. cbn [lz_toks lz_ntok lz_off].
              split; [reflexivity|]. split; [reflexivity|].
              split; [rewrite Hb; apply good_lit; unfold lenN; lia|].
              split; [reflexivity|]. intros _ Hle. lia.
           ++ destruct (IH (offset + 1) O table (TLit b :: toks) (ntok + 1) Hl''
                        ltac:(unfold lenN; lia) r Hr Hoob) as (new & adv & I1 & I2 & I3 & I4 & I5).
              change (N.of_nat 0) with 0 in *. rewrite N.add_0_r in *.
              exists (new ++ [TLit b]), (1 + adv).
              split; [rewrite I1, <- app_assoc; reflexivity|].
              split; [rewrite I2; unfold lenN; rewrite app_length; cbn [length]; lia|].
              split; [apply good_app; [rewrite Hb; apply good_lit; unfold lenN; lia|exact I3]|].
              split; [lia|exact I5].
        -- exists [], 0. subst r. cbn [lz_toks lz_ntok lz_off app]. rewrite lenN_nil, !N.add_0_r.
           split; [reflexivity|]. split; [reflexivity|].
           split; [apply good_nil; unfold lenN; lia|]. split; [reflexivity|].
           intros Hf. discriminate Hf.
    + destruct (IH (offset + 1) k table toks ntok Hl'' ltac:(lia) r Hr Hoob)
        as (new & adv & I1 & I2 & I3 & I4 & I5).
      replace (offset + 1 + N.of_nat k) with (offset + N.of_nat (S k)) in * by lia.
      exists new, adv. split; [exact I1|]. split; [exact I2|]. split; [exact I3|].
      split; [exact I4|exact I5].
Qed.

Theorem lz77_ok : lz77_ok_statement.
Proof.
  unfold lz77_ok_statement.
  intros flush mask W input processed offset table toks ntok maxToken Hoff Hoob.
  set (r := lz77 flush mask W input processed offset table toks ntok maxToken) in *.
  unfold lz77 in r.
  destruct (lz_loop_ok flush W input (lenN input - 8) mask (processed - offset) maxToken
              (skipn (N.to_nat offset) input) offset O table toks ntok eq_refl
              ltac:(change (N.of_nat 0) with 0; lia) r eq_refl Hoob)
    as (new & adv & I1 & I2 & I3 & I4 & I5).
  change (N.of_nat 0) with 0 in *. rewrite N.add_0_r in *.
  destruct I3 as (G1 & G2 & G3 & G4).
  unfold lz_ok. exists new.
  split; [exact I1|]. split; [exact I2|]. split; [lia|]. split; [lia|].
  split; [|split; [exact G3|exact I5]].
  rewrite I4. exact G2.
Qed.

Print Assumptions lz77_ok.

(* ------------------------------------------------------------------ *)
(* out-of-bounds freedom                                                *)

Definition tinv (W rel : N) (table : arr) (pos : N) : Prop :=
  W <= pos \/ (rel = 0 /\ table_below table (pos + 2)).

Lemma tinv_step : forall W rel t t' pos pos',
  tinv W rel t pos -> pos <= pos' ->
  (rel = 0 -> table_below t (pos + 2) -> table_below t' (pos' + 2)) ->
  tinv W rel t' pos'.
Proof.
  intros W rel t t' pos pos' [H|(H1 & H2)] Hle Ht.
  - left. lia.
  - right. split; [exact H1|]. apply Ht; assumption.
Qed.

Lemma table_below_mono : forall t b b', table_below t b -> b <= b' -> table_below t b'.
Proof. intros t b b' H Hle h. specialize (H h). lia. Qed.

Lemma table_below_aset : forall t b i v, table_below t b -> v <= b -> table_below (aset t i v) b.
Proof.
  intros t b i v H Hv h. rewrite aget_aset. destruct (h =? i); [exact Hv|apply H].
Qed.

Lemma mod16_le : forall x b, x <= b -> x mod two16 <= b.
Proof.
  intros x b H. pose proof (N.mod_le x two16) as HM. unfold two16 in *. lia.
Qed.

Lemma table_below_update3 : forall a mask off t b,
  table_below t b -> off + 2 <= b -> table_below (update3 a mask 0 off t) b.
Proof.
  intros a mask off t b H Hb. unfold update3.
  repeat apply table_below_aset; try exact H; apply mod16_le; lia.
Qed.

Lemma lz_step_noob : forall a W e mask rel offset l table ntok maxToken,
  W <= 32768 -> tinv W rel table offset ->
  forall r, r = lz_step a e mask W rel offset l table ntok maxToken ->
  sr_oob r = false /\ tinv W rel (sr_table r) (offset + sr_adv r).
Proof.
  intros a W e mask rel offset l table ntok maxToken HW HT r Hr.
  unfold lz_step in Hr.
  set (h := N.land (hash4 (load32 a offset)) mask) in Hr.
  set (dist := ((rel + offset) mod two16 + two16 - aget table h) mod two16) in Hr.
  set (table1 := aset table h ((rel + offset) mod two16)) in Hr.
  set (ml := match_length a (offset - dist) offset e l) in Hr.
  assert (HT1 : forall adv, tinv W rel table1 (offset + adv)).
  { intros adv. apply tinv_step with (t := table) (pos := offset); [exact HT|lia|].
    intros Hrel Hb. subst rel. apply table_below_aset.
    - apply table_below_mono with (b := offset + 2); [exact Hb|lia].
    - apply mod16_le. lia. }
  assert (HT2 : forall adv, tinv W rel (update3 a mask rel offset table1) (offset + adv)).
  { intros adv. apply tinv_step with (t := table) (pos := offset); [exact HT|lia|].
    intros Hrel Hb. subst rel. apply table_below_update3; [|lia]. apply table_below_aset.
    - apply table_below_mono with (b := offset + 2); [exact Hb|lia].
    - apply mod16_le. lia. }
  destruct ((1 <=? dist) && (dist <=? W)) eqn:EC.
  2:{ subst r. cbn [sr_oob sr_table sr_adv]. split; [reflexivity|apply HT1]. }
  destruct (offset <? dist) eqn:EO.
  { exfalso. destruct HT as [HT|(Hrel & Hb)]; [lia|].
    specialize (Hb h). subst rel. unfold dist, two16 in *. clear Hr HT1 HT2 table1 ml.
    rewrite N.add_0_l in *.
    rewrite (N.mod_small offset 65536) in * by lia.
    destruct (N.leb_spec (aget table h) offset) as [Hle|Hgt].
    - replace (offset + 65536 - aget table h) with (offset - aget table h + 1 * 65536) in * by lia.
      rewrite N.mod_add in * by lia. rewrite N.mod_small in * by lia. lia.
    - rewrite N.mod_small in * by lia. lia. }
  destruct (258 <? ml) eqn:E258.
  - destruct (emit258 (S (N.to_nat (ml / 258))) dist ml 0 ntok maxToken [])
      as [[[[acc adv] ml'] nt] stopped].
    destruct stopped.
    + subst r. cbn [sr_oob sr_table sr_adv]. split; [reflexivity|apply HT2].
    + destruct (4 <=? ml') eqn:E4.
      * subst r. cbn [sr_oob sr_table sr_adv]. split; [reflexivity|].
        apply tinv_step with (t := update3 a mask rel offset table1) (pos := offset + adv);
          [apply HT2|lia|].
        intros Hrel Hb. subst rel. apply table_below_update3; [|lia].
        apply table_below_mono with (b := offset + adv + 2); [exact Hb|lia].
      * subst r. cbn [sr_oob sr_table sr_adv]. split; [reflexivity|apply HT2].
  - destruct (4 <=? ml) eqn:E4.
    + subst r. cbn [sr_oob sr_table sr_adv]. split; [reflexivity|apply HT2].
    + subst r. cbn [sr_oob sr_table sr_adv]. split; [reflexivity|apply HT1].
Qed.

Lemma lz_loop_noob : forall flush W input e mask rel maxToken,
  W <= 32768 ->
  forall l offset skip table toks ntok,
  l = skipn (N.to_nat offset) input ->
  offset + N.of_nat skip <= lenN input ->
  tinv W rel table (offset + N.of_nat skip) ->
  forall r, r = lz_loop flush (arr_of_list input) (lenN input) e mask W rel maxToken
                        l offset skip table toks ntok false ->
  lz_oob r = false /\ tinv W rel (lz_table r) (lz_off r).
Proof.
  intros flush W input e mask rel maxToken HW.
  induction l as [|b l' IH]; intros offset skip table toks ntok Hl Hlen HT r Hr.
  - cbn [lz_loop] in Hr. symmetry in Hl. apply skipn_nil_len in Hl.
    assert (Hs : skip = O) by (unfold lenN in Hlen; lia). subst skip.
    change (N.of_nat 0) with 0 in *. rewrite N.add_0_r in *.
    subst r. cbn [lz_oob lz_table lz_off]. split; [reflexivity|exact HT].
  - pose proof Hl as Hl0.
    symmetry in Hl. apply skipn_cons_nth in Hl. destruct Hl as (Hlt & Hb & Hl').
    assert (Hl'' : l' = skipn (N.to_nat (offset + 1)) input).
    { rewrite Hl'. f_equal. lia. }
    cbn [lz_loop] in Hr. destruct skip as [|k].
    + change (N.of_nat 0) with 0 in *. rewrite N.add_0_r in *.
      destruct (offset <? e) eqn:Ee.
      * remember (lz_step (arr_of_list input) e mask W rel offset (b :: l') table ntok maxToken)
          as sr eqn:Hsr.
        destruct (lz_step_noob _ _ _ _ _ _ _ _ _ _ HW HT sr Hsr) as (N1 & N2).
        rewrite Hl0 in Hsr.
        destruct (lz_step_ok W input e mask rel offset table ntok maxToken
                    ltac:(unfold lenN; lia) sr Hsr N1) as ((SG & _) & SA & _).
        rewrite N1 in Hr. cbn [orb] in Hr.
        destruct (sr_stop sr) eqn:Estop.
        -- subst r. cbn [lz_oob lz_table lz_off]. split; [reflexivity|exact N2].
        -- apply (IH (offset + 1) (N.to_nat (sr_adv sr) - 1)%nat (sr_table sr)
                     (sr_toks sr ++ toks) (ntok + lenN (sr_toks sr)) Hl'' ltac:(lia)); [|exact Hr].
           replace (offset + 1 + N.of_nat (N.to_nat (sr_adv sr) - 1)) with (offset + sr_adv sr)
             by lia.
           exact N2.
      * assert (HT' : tinv W rel table (offset + 1)).
        { apply tinv_step with (t := table) (pos := offset); [exact HT|lia|].
          intros _ Hbl. apply table_below_mono with (b := offset + 2); [exact Hbl|lia]. }
        destruct flush.
        -- destruct (maxToken <? ntok + 1) eqn:EM.
           ++ subst r. cbn [lz_oob lz_table lz_off]. split; [reflexivity|exact HT'].
           ++ apply (IH (offset + 1) O table (TLit b :: toks) (ntok + 1) Hl''
                        ltac:(unfold lenN; lia)); [|exact Hr].
              change (N.of_nat 0) with 0. rewrite N.add_0_r. exact HT'.
        -- subst r. cbn [lz_oob lz_table lz_off]. split; [reflexivity|exact HT].
    + apply (IH (offset + 1) k table toks ntok Hl'' ltac:(lia)); [|exact Hr].
      replace (offset + 1 + N.of_nat k) with (offset + N.of_nat (S k)) by lia. exact HT.
Qed.

Theorem lz77_no_oob : lz77_no_oob_statement.
Proof.
  unfold lz77_no_oob_statement.
  intros flush mask W input processed offset table toks ntok maxToken Hoff HW0 HW HI.
  set (r := lz77 flush mask W input processed offset table toks ntok maxToken).
  unfold lz77 in r.
  destruct (lz_loop_noob flush W input (lenN input - 8) mask (processed - offset) maxToken HW
              (skipn (N.to_nat offset) input) offset O table toks ntok eq_refl
              ltac:(change (N.of_nat 0) with 0; lia)) with (r := r) as (R1 & R2).
  - change (N.of_nat 0) with 0. rewrite N.add_0_r.
    destruct HI as [HI|(HI1 & HI2)]; [left; exact HI|right]. split; [lia|exact HI2].
  - reflexivity.
  - split; [exact R1|]. destruct R2 as [R2|(_ & R2)]; [left|right]; exact R2.
Qed.

Print Assumptions lz77_no_oob.
