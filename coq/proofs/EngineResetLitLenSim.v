(* EngineResetLitLenSim.v -- genForLitLen (the literal/length table builder of RModel/Engine.v)
   run over two different stale table pairs and two scratch code lists that agree below
   litCount[22] yields the same error and tables related by large_rel (EngineResetDefs.v); and
   large_rel implies equal lookups (lit_eq). *)
From Verif Require Import Base Engine EngineTables EngineSafetyBase EngineSafetyBits EngineSafetyInv EngineResetDefs.
From Coq Require Import List NArith ZArith Bool Lia ZifyBool ZifyNat ZifyN.
Import ListNotations.
Open Scope N_scope.

(* ---------------------------------------------------------------- two-run induction principles *)
Lemma ls_iterN2_ind : forall (S1 S2 : Type) (P : N -> S1 -> S2 -> Prop)
    (f1 : N -> S1 -> S1) (f2 : N -> S2 -> S2) n i s1 s2,
  P i s1 s2 ->
  (forall j x1 x2, i <= j < i + N.of_nat n -> P j x1 x2 -> P (j + 1) (f1 j x1) (f2 j x2)) ->
  P (i + N.of_nat n) (iterN n i f1 s1) (iterN n i f2 s2).
Proof.
  intros S1 S2 P f1 f2 n. induction n as [|k IH]; intros i s1 s2 H0 Hstep.
  - cbn [iterN]. replace (i + N.of_nat 0) with i by lia. exact H0.
  - cbn [iterN]. replace (i + N.of_nat (S k)) with ((i + 1) + N.of_nat k) by lia.
    apply IH.
    + apply Hstep; [lia|exact H0].
    + intros j x1 x2 Hj Hx. apply Hstep; [lia|exact Hx].
Qed.

Lemma ls_forN2_ind : forall (S1 S2 : Type) (P : N -> S1 -> S2 -> Prop)
    (f1 : N -> S1 -> S1) (f2 : N -> S2 -> S2) lo hi s1 s2,
  lo <= hi ->
  P lo s1 s2 ->
  (forall j x1 x2, lo <= j < hi -> P j x1 x2 -> P (j + 1) (f1 j x1) (f2 j x2)) ->
  P hi (forN lo hi f1 s1) (forN lo hi f2 s2).
Proof.
  intros S1 S2 P f1 f2 lo hi s1 s2 Hle H0 Hstep. unfold forN.
  replace hi with (lo + N.of_nat (N.to_nat (hi - lo))) at 1 by lia.
  apply ls_iterN2_ind; [exact H0|].
  intros j x1 x2 Hj Hx. apply Hstep; [lia|exact Hx].
Qed.

Lemma ls_forN2_inv : forall (S1 S2 : Type) (P : S1 -> S2 -> Prop)
    (f1 : N -> S1 -> S1) (f2 : N -> S2 -> S2) lo hi s1 s2,
  P s1 s2 ->
  (forall j x1 x2, lo <= j < hi -> P x1 x2 -> P (f1 j x1) (f2 j x2)) ->
  P (forN lo hi f1 s1) (forN lo hi f2 s2).
Proof.
  intros S1 S2 P f1 f2 lo hi s1 s2 H0 Hstep.
  destruct (N.le_gt_cases lo hi) as [Hle|Hgt].
  - apply (ls_forN2_ind S1 S2 (fun _ x1 x2 => P x1 x2)); auto.
  - rewrite !forN_empty by lia. exact H0.
Qed.

Lemma ls_forN_ext : forall (S : Type) (f1 f2 : N -> S -> S) lo hi s,
  (forall j x, lo <= j < hi -> f1 j x = f2 j x) ->
  forN lo hi f1 s = forN lo hi f2 s.
Proof.
  intros S f1 f2 lo hi s H.
  apply (ls_forN2_inv S S (fun x1 x2 => x1 = x2)); [reflexivity|].
  intros j x1 x2 Hj Hx. subst x2. apply H. exact Hj.
Qed.

(* ---------------------------------------------------------------- small arithmetic (copies) *)
Lemma ls_sub32_le : forall a b, b <= a -> sub32 a b = a - b.
Proof.
  intros a b H. unfold sub32, subw. destruct (b <=? a) eqn:E; [reflexivity|lia].
Qed.

Lemma ls_shiftl_lt : forall b k m n, b < 2 ^ m -> m + k <= n -> N.shiftl b k < 2 ^ n.
Proof.
  intros b k m n Hb Hn. apply N.lt_le_trans with (2 ^ (m + k)).
  - apply shiftl_lt_pow2. exact Hb.
  - apply N.pow_le_mono_r; [lia|exact Hn].
Qed.

Lemma ls_lt_pow2_mono : forall a m n, a < 2 ^ m -> m <= n -> a < 2 ^ n.
Proof.
  intros a m n Ha Hn. apply N.lt_le_trans with (2 ^ m); [exact Ha|].
  apply N.pow_le_mono_r; [lia|exact Hn].
Qed.

Lemma ls_pow2_le : forall a b, a <= b -> 2 ^ a <= 2 ^ b.
Proof. intros a b H. apply N.pow_le_mono_r; [lia|exact H]. Qed.

Lemma ls_hc_setcode_lt : forall v c, hc_setcode v c < 4294967296.
Proof.
  intros v c. unfold hc_setcode. change 4294967296 with (2 ^ 32). apply lor_lt_pow2.
  - pose proof (land_le_r v 4278190080) as H. change (2 ^ 32) with 4294967296. lia.
  - pose proof (land_le_r c 16777215) as H. change (2 ^ 32) with 4294967296. lia.
Qed.

Lemma ls_hc_setcode_len : forall v c, v < 4294967296 -> hc_len (hc_setcode v c) = hc_len v.
Proof.
  intros v c Hv. unfold hc_len, hc_setcode. apply N.bits_inj. intro n.
  rewrite !N.shiftr_spec by lia. rewrite N.lor_spec, !N.land_spec.
  change 16777215 with (N.ones 24). rewrite N.ones_spec_high by lia.
  rewrite andb_false_r, orb_false_r.
  change 4278190080 with (N.shiftl (N.ones 8) 24).
  rewrite N.shiftl_spec_high by lia. replace (n + 24 - 24) with n by lia.
  destruct (N.lt_ge_cases n 8) as [Hlt|Hge].
  - rewrite N.ones_spec_low by exact Hlt. apply andb_true_r.
  - rewrite N.ones_spec_high by exact Hge. rewrite andb_false_r.
    symmetry. apply (testbit_small v 32); [exact Hv|lia].
Qed.

(* ---------------------------------------------------------------- unflagged entries *)
(* no entry below n carries the long-code flag (bit 25) *)
Definition ls_nf (n : N) (t : arr) : Prop := forall i, i < n -> N.testbit (aget t i) 25 = false.
(* the two short tables agree below n and are unflagged there *)
Definition ls_R (n : N) (t1 t2 : arr) : Prop := agree n t1 t2 /\ ls_nf n t1.

Lemma ls_R_0 : forall t1 t2, ls_R 0 t1 t2.
Proof. intros t1 t2. split; intros i Hi; lia. Qed.

Lemma ls_R_aset : forall n t1 t2 i v,
  ls_R n t1 t2 -> N.testbit v 25 = false -> ls_R n (aset t1 i v) (aset t2 i v).
Proof.
  intros n t1 t2 i v [Ha Hn] Hv. split; [apply agree_aset; exact Ha|].
  intros j Hj. rewrite aget_aset. destruct (j =? i); [exact Hv|apply Hn; exact Hj].
Qed.

Lemma ls_R_aset_next : forall n t1 t2 v,
  ls_R n t1 t2 -> N.testbit v 25 = false -> ls_R (n + 1) (aset t1 n v) (aset t2 n v).
Proof.
  intros n t1 t2 v [Ha Hn] Hv. split; [apply agree_aset_next; exact Ha|].
  intros j Hj. rewrite aget_aset. destruct (N.eqb_spec j n) as [_|Hne]; [exact Hv|].
  apply Hn. lia.
Qed.

Lemma ls_zero_R : forall hi t1 t2,
  ls_R hi (forN 0 hi (fun i t => aset t i 0) t1) (forN 0 hi (fun i t => aset t i 0) t2).
Proof.
  intros hi t1 t2.
  apply (ls_forN2_ind arr arr (fun x a b => ls_R x a b)); [lia|apply ls_R_0|].
  intros j x1 x2 _ Hx. apply ls_R_aset_next; [exact Hx|reflexivity].
Qed.

Lemma ls_zero_agree : forall lo hi t1 t2, lo <= hi -> agree lo t1 t2 ->
  agree hi (forN lo hi (fun x t => aset t x 0) t1) (forN lo hi (fun x t => aset t x 0) t2).
Proof.
  intros lo hi t1 t2 Hle Ha.
  apply (ls_forN2_ind arr arr (fun x a b => agree x a b)); [exact Hle|exact Ha|].
  intros j x1 x2 _ Hx. apply agree_aset_next. exact Hx.
Qed.

(* the doubling copy t[cs+i] := t[i], i < cs *)
Lemma ls_double_R : forall cs t1 t2, ls_R cs t1 t2 ->
  ls_R (cs * 2) (forN 0 cs (fun i t => aset t (cs + i) (aget t i)) t1)
                (forN 0 cs (fun i t => aset t (cs + i) (aget t i)) t2).
Proof.
  intros cs t1 t2 H. replace (cs * 2) with (cs + cs) by lia.
  apply (ls_forN2_ind arr arr (fun x a b => ls_R (cs + x) a b)); [lia| |].
  - replace (cs + 0) with cs by lia. exact H.
  - intros j x1 x2 Hj [Ha Hn]. replace (cs + (j + 1)) with (cs + j + 1) by lia.
    rewrite <- (Ha j) by lia. apply ls_R_aset_next; [split; assumption|].
    apply Hn. lia.
Qed.

(* sym part below 2^25, code length at bit 28, symbol count m at bit 26 *)
Lemma ls_entry_nf : forall s c m, s < 2 ^ 25 ->
  N.testbit (u32 (N.lor (N.lor s (N.shiftl c 28)) (N.shiftl m 26))) 25 = false.
Proof.
  intros s c m Hs. rewrite u32_testbit by lia. rewrite !N.lor_spec.
  rewrite (testbit_small s 25 25) by (auto; lia).
  rewrite !N.shiftl_spec_low by lia. reflexivity.
Qed.

Lemma ls_single_nf : forall s c, s <= 512 ->
  N.testbit (u32 (N.lor (N.lor s (N.shiftl c 28)) (N.shiftl 1 26))) 25 = false.
Proof. intros s c Hs. apply ls_entry_nf. apply (ls_lt_pow2_mono s 10 25); [change (2 ^ 10) with 1024|]; lia. Qed.

Lemma ls_pair_nf : forall s1 s2 c, s1 < 256 -> s2 <= 512 ->
  N.testbit (u32 (N.lor (N.lor (N.lor s1 (N.shiftl s2 8)) (N.shiftl c 28)) (N.shiftl 2 26))) 25 = false.
Proof.
  intros s1 s2 c H1 H2. apply ls_entry_nf. apply lor_lt_pow2.
  - apply (ls_lt_pow2_mono s1 8 25); [change (2 ^ 8) with 256|]; lia.
  - apply (ls_shiftl_lt s2 8 10 25); [change (2 ^ 10) with 1024|]; lia.
Qed.

Lemma ls_triple_nf : forall s1 s2 s3 c, s1 < 256 -> s2 < 256 -> s3 <= 511 ->
  N.testbit (u32 (N.lor (N.lor (N.lor (N.lor s1 (N.shiftl s2 8)) (N.shiftl s3 16)) (N.shiftl c 28))
                        (N.shiftl 3 26))) 25 = false.
Proof.
  intros s1 s2 s3 c H1 H2 H3. apply ls_entry_nf. apply lor_lt_pow2; [apply lor_lt_pow2|].
  - apply (ls_lt_pow2_mono s1 8 25); [change (2 ^ 8) with 256|]; lia.
  - apply (ls_shiftl_lt s2 8 8 25); [change (2 ^ 8) with 256|]; lia.
  - apply (ls_shiftl_lt s3 16 9 25); [change (2 ^ 9) with 512|]; lia.
Qed.

(* ---------------------------------------------------------------- the two runs *)
Section Sim.
Variables d1 d2 : dynHdr.
Hypothesis Hh : litAndDistHuff d1 = litAndDistHuff d2.
Hypothesis Hlc : litCount d1 = litCount d2.
Hypothesis Hcl : agree (aget (litCount d1) 22) (codeList d1) (codeList d2).
Hypothesis HS : litlen_sorted d1.

Local Notation nn := (aget (litCount d1) 22).

Lemma ls_lc_step : forall L, L < 22 -> aget (litCount d1) L <= aget (litCount d1) (L + 1).
Proof. destruct HS as (_ & _ & H & _). exact H. Qed.

Lemma ls_lc_mono_nat : forall n a, a + N.of_nat n <= 22 ->
  aget (litCount d1) a <= aget (litCount d1) (a + N.of_nat n).
Proof.
  induction n as [|n IH]; intros a Ha.
  - replace (a + N.of_nat 0) with a by lia. lia.
  - replace (a + N.of_nat (S n)) with (a + N.of_nat n + 1) by lia.
    pose proof (IH a ltac:(lia)) as H1.
    pose proof (ls_lc_step (a + N.of_nat n) ltac:(lia)) as H2. lia.
Qed.

Lemma ls_lc_mono : forall a b, a <= b -> b <= 22 -> aget (litCount d1) a <= aget (litCount d1) b.
Proof.
  intros a b Hab Hb. replace b with (a + N.of_nat (N.to_nat (b - a))) by lia.
  apply ls_lc_mono_nat. lia.
Qed.

Lemma ls_lc_le : forall a, a <= 22 -> aget (litCount d1) a <= nn.
Proof. intros a Ha. apply ls_lc_mono; lia. Qed.

Lemma ls_nn_le : nn <= 514.
Proof. destruct HS as (_ & _ & _ & H22 & _). exact H22. Qed.

Lemma ls_bucket_nat : forall n a k, a + N.of_nat n <= 22 ->
  aget (litCount d1) a <= k < aget (litCount d1) (a + N.of_nat n) ->
  exists L, a <= L < a + N.of_nat n /\
    aget (litCount d1) L <= k < aget (litCount d1) (L + 1) /\
    aget (codeList d1) k < 514 /\ hc_len (aget (litAndDistHuff d1) (aget (codeList d1) k)) = L.
Proof.
  induction n as [|n IH]; intros a k Ha Hk.
  - replace (a + N.of_nat 0) with a in Hk by lia. lia.
  - replace (a + N.of_nat (S n)) with (a + N.of_nat n + 1) in Hk by lia.
    destruct (N.lt_ge_cases k (aget (litCount d1) (a + N.of_nat n))) as [Hlt|Hge].
    + destruct (IH a k ltac:(lia) ltac:(lia)) as (L & HL & Hb & Hc).
      exists L. split; [lia|]. split; [exact Hb|exact Hc].
    + exists (a + N.of_nat n). split; [lia|]. split; [lia|].
      destruct HS as (_ & _ & _ & _ & _ & Hbk). apply Hbk; lia.
Qed.

Lemma ls_bucket_ex : forall a b k, a <= b -> b <= 22 ->
  aget (litCount d1) a <= k < aget (litCount d1) b ->
  exists L, a <= L < b /\
    aget (litCount d1) L <= k < aget (litCount d1) (L + 1) /\
    aget (codeList d1) k < 514 /\ hc_len (aget (litAndDistHuff d1) (aget (codeList d1) k)) = L.
Proof.
  intros a b k Hab Hb Hk.
  replace b with (a + N.of_nat (N.to_nat (b - a))) in Hk by lia.
  destruct (ls_bucket_nat (N.to_nat (b - a)) a k ltac:(lia) Hk) as (L & HL & Hr).
  exists L. split; [lia|exact Hr].
Qed.

Lemma ls_huff_lt : forall i, aget (litAndDistHuff d1) i < 4294967296.
Proof. destruct HS as (_ & _ & _ & _ & H & _). exact H. Qed.

(* ---------------------------------------------------------------- encodeSingles *)
Lemma ls_singles_sim : forall ll m t1 t2 t1' p1 t2' p2,
  ll + 1 <= 22 -> ls_R m t1 t2 ->
  encodeSingles t1 d1 ll = (t1', p1) -> encodeSingles t2 d2 ll = (t2', p2) ->
  p1 = p2 /\ ls_R m t1' t2'.
Proof.
  intros ll m t1 t2 t1' p1 t2' p2 Hll HR H1 H2. unfold encodeSingles in H1, H2.
  rewrite <- Hlc, <- Hh in H2.
  pose proof (ls_lc_le (ll + 1) Hll) as Hend.
  destruct ((aget (litCount d1) (ll + 1) <? aget (litCount d1) ll) ||
            (516 <? aget (litCount d1) (ll + 1))) eqn:E.
  - inversion H1. inversion H2. subst. split; [reflexivity|exact HR].
  - apply pair_equal_spec in H1. apply pair_equal_spec in H2.
    destruct H1 as [<- <-]. destruct H2 as [<- <-]. split; [reflexivity|].
    apply (ls_forN2_inv arr arr (ls_R m)); [exact HR|].
    intros k x1 x2 Hk Hx. rewrite <- (Hcl k) by lia.
    destruct (maxLitLenSym <? indexToSym (aget (codeList d1) k)) eqn:E2; [exact Hx|].
    apply ls_R_aset; [exact Hx|]. apply ls_single_nf. unfold maxLitLenSym in E2. lia.
Qed.

(* ---------------------------------------------------------------- encodePairs *)
Definition ls_pairs_inner (huff cl : arr) (sym1 sym1Code sym1Len sym2Len : N) (k : N) (a : arr * bool)
  : arr * bool :=
  let '(t, stop) := a in
  if stop then a
  else
    let sym2Index := aget cl k in
    let sym2 := indexToSym sym2Index in
    if maxLitLenSym <? sym2 then (t, true)
    else
      let sym2Code := hc_code (aget huff sym2Index) in
      let code := u32 (N.lor sym1Code (shl32 sym2Code sym1Len)) in
      let codeLen := sym1Len + sym2Len in
      (aset t code (u32 (N.lor (N.lor (N.lor sym1 (N.shiftl sym2 8))
                                      (N.shiftl codeLen 28)) (N.shiftl 2 26))),
       false).

Lemma ls_pairs_inner_sim : forall huff sym1 sym1Code sym1Len sym2Len start endi m t1 t2,
  sym1 < 256 -> endi <= nn -> ls_R m t1 t2 ->
  ls_R m (fst (forN start endi (ls_pairs_inner huff (codeList d1) sym1 sym1Code sym1Len sym2Len) (t1, false)))
         (fst (forN start endi (ls_pairs_inner huff (codeList d2) sym1 sym1Code sym1Len sym2Len) (t2, false))).
Proof.
  intros huff sym1 sym1Code sym1Len sym2Len start endi m t1 t2 Hs1 Hend HR.
  pose (P := fun a1 a2 : arr * bool => snd a1 = snd a2 /\ ls_R m (fst a1) (fst a2)).
  assert (HP : P
            (forN start endi (ls_pairs_inner huff (codeList d1) sym1 sym1Code sym1Len sym2Len) (t1, false))
            (forN start endi (ls_pairs_inner huff (codeList d2) sym1 sym1Code sym1Len sym2Len) (t2, false))).
  { apply (ls_forN2_inv _ _ P); [split; [reflexivity|exact HR]|].
    intros k [x1 st1] [x2 st2] Hk [Hst Hx]. unfold P. cbn [fst snd] in Hst, Hx. subst st2.
    unfold ls_pairs_inner. rewrite <- (Hcl k) by lia.
    destruct st1; [split; [reflexivity|exact Hx]|].
    cbv zeta.
    destruct (maxLitLenSym <? indexToSym (aget (codeList d1) k)) eqn:E2;
      [split; [reflexivity|exact Hx]|].
    split; [reflexivity|]. cbn [fst]. apply ls_R_aset; [exact Hx|].
    apply ls_pair_nf; [exact Hs1|]. unfold maxLitLenSym in E2. lia. }
  exact (proj2 HP).
Qed.

Ltac ls_leaf H1 H2 HR :=
  apply pair_equal_spec in H1; apply pair_equal_spec in H2;
  destruct H1 as [<- <-]; destruct H2 as [<- <-]; split; [reflexivity|exact HR].

Lemma ls_pairs_loop_sim : forall fuel m t1 t2 ll index1 iend t1' e1 t2' e2,
  iend <= nn -> ls_R m t1 t2 ->
  pairs_loop fuel t1 d1 ll index1 iend = (t1', e1) ->
  pairs_loop fuel t2 d2 ll index1 iend = (t2', e2) ->
  e1 = e2 /\ ls_R m t1' t2'.
Proof.
  induction fuel as [|f IH]; intros m t1 t2 ll index1 iend t1' e1 t2' e2 Hend HR H1 H2.
  - cbn [pairs_loop] in H1, H2. ls_leaf H1 H2 HR.
  - cbn [pairs_loop] in H1, H2. rewrite <- Hlc, <- Hh in H2.
    destruct (index1 <? iend) eqn:E1; [|ls_leaf H1 H2 HR].
    rewrite <- (Hcl index1) in H2 by lia.
    destruct (256 <=? indexToSym (aget (codeList d1) index1)) eqn:E2.
    + exact (IH _ _ _ _ _ _ _ _ _ _ Hend HR H1 H2).
    + set (s2l := sub32 ll (hc_len (aget (litAndDistHuff d1) (aget (codeList d1) index1)))) in *.
      destruct (22 <=? s2l) eqn:E3; [ls_leaf H1 H2 HR|].
      pose proof (ls_lc_le (s2l + 1) ltac:(lia)) as Hendi.
      destruct ((aget (litCount d1) (s2l + 1) <? aget (litCount d1) s2l) ||
                (516 <? aget (litCount d1) (s2l + 1))) eqn:E4; [ls_leaf H1 H2 HR|].
      pose (X1 := forN (aget (litCount d1) s2l) (aget (litCount d1) (s2l + 1))
                    (ls_pairs_inner (litAndDistHuff d1) (codeList d1)
                       (indexToSym (aget (codeList d1) index1))
                       (hc_code (aget (litAndDistHuff d1) (aget (codeList d1) index1)))
                       (hc_len (aget (litAndDistHuff d1) (aget (codeList d1) index1))) s2l)
                    (t1, false)).
      pose (X2 := forN (aget (litCount d1) s2l) (aget (litCount d1) (s2l + 1))
                    (ls_pairs_inner (litAndDistHuff d1) (codeList d2)
                       (indexToSym (aget (codeList d1) index1))
                       (hc_code (aget (litAndDistHuff d1) (aget (codeList d1) index1)))
                       (hc_len (aget (litAndDistHuff d1) (aget (codeList d1) index1))) s2l)
                    (t2, false)).
      assert (Hin : ls_R m (fst X1) (fst X2)).
      { apply ls_pairs_inner_sim; [lia|exact Hendi|exact HR]. }
      match type of H1 with (let '(short, _) := ?X in _) = _ => change X with X1 in H1 end.
      match type of H2 with (let '(short, _) := ?X in _) = _ => change X with X2 in H2 end.
      clearbody X1 X2. destruct X1 as [u1 st1]. destruct X2 as [u2 st2]. cbn [fst] in Hin.
      exact (IH _ _ _ _ _ _ _ _ _ _ Hend Hin H1 H2).
Qed.

Lemma ls_encodePairs_eq : forall t d ll minLen,
  encodePairs t d ll minLen =
  pairs_loop small_fuel t d ll (aget (litCount d) minLen) (aget (litCount d) (sub32 ll minLen + 1)).
Proof. reflexivity. Qed.

Lemma ls_encodePairs_sim : forall m t1 t2 ll minLen t1' e1 t2' e2,
  minLen <= ll -> ll <= 21 -> ls_R m t1 t2 ->
  encodePairs t1 d1 ll minLen = (t1', e1) -> encodePairs t2 d2 ll minLen = (t2', e2) ->
  e1 = e2 /\ ls_R m t1' t2'.
Proof.
  intros m t1 t2 ll minLen t1' e1 t2' e2 Hm Hll HR H1 H2. rewrite ls_encodePairs_eq in H1, H2.
  rewrite <- Hlc in H2. rewrite ls_sub32_le in H1, H2 by exact Hm.
  refine (ls_pairs_loop_sim _ _ _ _ _ _ _ _ _ _ _ _ HR H1 H2). apply ls_lc_le. lia.
Qed.

(* ---------------------------------------------------------------- encodeTriples *)
Definition ls_triples_inner (huff cl : arr) (sym1 sym2 sym1Code sym2Code sym1Len sym2Len sym3Len : N)
           (k : N) (a : arr * bool) : arr * bool :=
  let '(t, stop) := a in
  if stop then a
  else
    let sym3Index := aget cl k in
    let sym3 := indexToSym sym3Index in
    let sym3Code := hc_code (aget huff sym3Index) in
    if maxLitLenSym - 1 <? sym3 then (t, true)
    else
      let code := u32 (N.lor (N.lor sym1Code (shl32 sym2Code sym1Len))
                             (shl32 sym3Code (sym2Len + sym1Len))) in
      let codeLen := sym1Len + sym2Len + sym3Len in
      (aset t code
            (u32 (N.lor (N.lor (N.lor (N.lor sym1 (N.shiftl sym2 8)) (N.shiftl sym3 16))
                               (N.shiftl codeLen 28)) (N.shiftl 3 26))),
       false).

Lemma ls_triples_inner_sim : forall huff sym1 sym2 sym1Code sym2Code sym1Len sym2Len sym3Len
    start endi m t1 t2,
  sym1 < 256 -> sym2 < 256 -> endi <= nn -> ls_R m t1 t2 ->
  ls_R m (fst (forN start endi (ls_triples_inner huff (codeList d1) sym1 sym2 sym1Code sym2Code
                                  sym1Len sym2Len sym3Len) (t1, false)))
         (fst (forN start endi (ls_triples_inner huff (codeList d2) sym1 sym2 sym1Code sym2Code
                                  sym1Len sym2Len sym3Len) (t2, false))).
Proof.
  intros huff sym1 sym2 sym1Code sym2Code sym1Len sym2Len sym3Len start endi m t1 t2
         Hs1 Hs2 Hend HR.
  pose (P := fun a1 a2 : arr * bool => snd a1 = snd a2 /\ ls_R m (fst a1) (fst a2)).
  assert (HP : P
            (forN start endi (ls_triples_inner huff (codeList d1) sym1 sym2 sym1Code sym2Code
                                  sym1Len sym2Len sym3Len) (t1, false))
            (forN start endi (ls_triples_inner huff (codeList d2) sym1 sym2 sym1Code sym2Code
                                  sym1Len sym2Len sym3Len) (t2, false))).
  { apply (ls_forN2_inv _ _ P); [split; [reflexivity|exact HR]|].
    intros k [x1 st1] [x2 st2] Hk [Hst Hx]. unfold P. cbn [fst snd] in Hst, Hx. subst st2.
    unfold ls_triples_inner. rewrite <- (Hcl k) by lia.
    destruct st1; [split; [reflexivity|exact Hx]|].
    cbv zeta.
    destruct (maxLitLenSym - 1 <? indexToSym (aget (codeList d1) k)) eqn:E2;
      [split; [reflexivity|exact Hx]|].
    split; [reflexivity|]. cbn [fst]. apply ls_R_aset; [exact Hx|].
    apply ls_triple_nf; [exact Hs1|exact Hs2|]. unfold maxLitLenSym in E2. lia. }
  exact (proj2 HP).
Qed.

Lemma ls_triples_loop2_sim : forall fuel m t1 t2 ll sym1 sym1Len sym1Code index2 iend2 t1' e1 t2' e2,
  sym1 < 256 -> iend2 <= nn -> ls_R m t1 t2 ->
  triples_loop2 fuel t1 d1 ll sym1 sym1Len sym1Code index2 iend2 = (t1', e1) ->
  triples_loop2 fuel t2 d2 ll sym1 sym1Len sym1Code index2 iend2 = (t2', e2) ->
  e1 = e2 /\ ls_R m t1' t2'.
Proof.
  induction fuel as [|f IH];
    intros m t1 t2 ll sym1 sym1Len sym1Code index2 iend2 t1' e1 t2' e2 Hs1 Hend HR H1 H2.
  - cbn [triples_loop2] in H1, H2. ls_leaf H1 H2 HR.
  - cbn [triples_loop2] in H1, H2. rewrite <- Hlc, <- Hh in H2.
    destruct (index2 <? iend2) eqn:E1; [|ls_leaf H1 H2 HR].
    rewrite <- (Hcl index2) in H2 by lia.
    destruct (256 <=? indexToSym (aget (codeList d1) index2)) eqn:E2.
    + exact (IH _ _ _ _ _ _ _ _ _ _ _ _ _ Hs1 Hend HR H1 H2).
    + set (s2len := hc_len (aget (litAndDistHuff d1) (aget (codeList d1) index2))) in *.
      set (s3l := sub32 (sub32 ll sym1Len) s2len) in *.
      destruct (22 <=? s3l) eqn:E3; [ls_leaf H1 H2 HR|].
      pose proof (ls_lc_le (s3l + 1) ltac:(lia)) as Hendi.
      pose (X1 := forN (aget (litCount d1) s3l) (aget (litCount d1) (s3l + 1))
                    (ls_triples_inner (litAndDistHuff d1) (codeList d1) sym1
                       (indexToSym (aget (codeList d1) index2)) sym1Code
                       (hc_code (aget (litAndDistHuff d1) (aget (codeList d1) index2)))
                       sym1Len s2len s3l)
                    (t1, false)).
      pose (X2 := forN (aget (litCount d1) s3l) (aget (litCount d1) (s3l + 1))
                    (ls_triples_inner (litAndDistHuff d1) (codeList d2) sym1
                       (indexToSym (aget (codeList d1) index2)) sym1Code
                       (hc_code (aget (litAndDistHuff d1) (aget (codeList d1) index2)))
                       sym1Len s2len s3l)
                    (t2, false)).
      assert (Hin : ls_R m (fst X1) (fst X2)).
      { apply ls_triples_inner_sim; [exact Hs1|lia|exact Hendi|exact HR]. }
      match type of H1 with (let '(short, _) := ?X in _) = _ => change X with X1 in H1 end.
      match type of H2 with (let '(short, _) := ?X in _) = _ => change X with X2 in H2 end.
      clearbody X1 X2. destruct X1 as [u1 st1]. destruct X2 as [u2 st2]. cbn [fst] in Hin.
      exact (IH _ _ _ _ _ _ _ _ _ _ _ _ _ Hs1 Hend Hin H1 H2).
Qed.

Lemma ls_triples_loop1_sim : forall fuel m t1 t2 ll minLen index1 iend1 t1' e1 t2' e2,
  iend1 <= nn -> ls_R m t1 t2 ->
  triples_loop1 fuel t1 d1 ll minLen index1 iend1 = (t1', e1) ->
  triples_loop1 fuel t2 d2 ll minLen index1 iend1 = (t2', e2) ->
  e1 = e2 /\ ls_R m t1' t2'.
Proof.
  induction fuel as [|f IH]; intros m t1 t2 ll minLen index1 iend1 t1' e1 t2' e2 Hend HR H1 H2.
  - cbn [triples_loop1] in H1, H2. ls_leaf H1 H2 HR.
  - cbn [triples_loop1] in H1, H2. rewrite <- Hlc, <- Hh in H2.
    destruct (index1 <? iend1) eqn:E1; [|ls_leaf H1 H2 HR].
    rewrite <- (Hcl index1) in H2 by lia.
    destruct (256 <=? indexToSym (aget (codeList d1) index1)) eqn:E2.
    + exact (IH _ _ _ _ _ _ _ _ _ _ _ Hend HR H1 H2).
    + set (s1len := hc_len (aget (litAndDistHuff d1) (aget (codeList d1) index1))) in *.
      destruct (sub32 ll s1len <? 2 * minLen) eqn:E3; [ls_leaf H1 H2 HR|].
      set (i2 := sub32 (sub32 ll s1len) minLen + 1) in *.
      destruct (23 <=? i2) eqn:E4; [ls_leaf H1 H2 HR|].
      pose proof (ls_lc_le i2 ltac:(lia)) as Hend2.
      destruct (triples_loop2 small_fuel t1 d1 ll (indexToSym (aget (codeList d1) index1)) s1len
                  (hc_code (aget (litAndDistHuff d1) (aget (codeList d1) index1)))
                  (aget (litCount d1) minLen) (aget (litCount d1) i2)) as [u1 f1] eqn:L1.
      destruct (triples_loop2 small_fuel t2 d2 ll (indexToSym (aget (codeList d1) index1)) s1len
                  (hc_code (aget (litAndDistHuff d1) (aget (codeList d1) index1)))
                  (aget (litCount d1) minLen) (aget (litCount d1) i2)) as [u2 f2] eqn:L2.
      assert (Hs1 : indexToSym (aget (codeList d1) index1) < 256) by lia.
      destruct (ls_triples_loop2_sim _ _ _ _ _ _ _ _ _ _ _ _ _ _ Hs1 Hend2 HR L1 L2)
        as [Hf Hu].
      subst f2. destruct f1; try (ls_leaf H1 H2 Hu).
      exact (IH _ _ _ _ _ _ _ _ _ _ _ Hend Hu H1 H2).
Qed.

Lemma ls_encodeTriples_eq : forall t d ll minLen,
  encodeTriples t d ll minLen =
  triples_loop1 small_fuel t d ll minLen (aget (litCount d) minLen)
                (aget (litCount d) (sub32 ll (2 * minLen) + 1)).
Proof. reflexivity. Qed.

Lemma ls_encodeTriples_sim : forall m t1 t2 ll minLen t1' e1 t2' e2,
  2 * minLen <= ll -> ll <= 21 -> ls_R m t1 t2 ->
  encodeTriples t1 d1 ll minLen = (t1', e1) -> encodeTriples t2 d2 ll minLen = (t2', e2) ->
  e1 = e2 /\ ls_R m t1' t2'.
Proof.
  intros m t1 t2 ll minLen t1' e1 t2' e2 Hm Hll HR H1 H2. rewrite ls_encodeTriples_eq in H1, H2.
  rewrite <- Hlc in H2. rewrite ls_sub32_le in H1, H2 by exact Hm.
  refine (ls_triples_loop1_sim _ _ _ _ _ _ _ _ _ _ _ _ _ HR H1 H2). apply ls_lc_le. lia.
Qed.

(* ---------------------------------------------------------------- the main loop of genForLitLen *)
Definition ls_body (d : dynHdr) (multisym minLen : N) (ll : N) (st : arr * N * ierr)
  : arr * N * ierr :=
  let '(t, cs, err) := st in
  match err with
  | ENone =>
    let t := forN 0 (N.min cs (4096 - cs)) (fun i t => aset t (cs + i) (aget t i)) t in
    let cs := cs * 2 in
    let '(t, pan) := encodeSingles t d ll in
    if pan then (t, cs, EPanic)
    else if (singleSymFlag <=? multisym) || (ll <? 2 * minLen) then (t, cs, ENone)
    else
      let '(t, e) := encodePairs t d ll minLen in
      match e with
      | ENone =>
        if (doubleSymFlag <=? multisym) || (ll <? 3 * minLen) then (t, cs, ENone)
        else let '(t, e) := encodeTriples t d ll minLen in (t, cs, e)
      | _ => (t, cs, e)
      end
  | _ => st
  end.

Ltac ls_leaf3 H1 H2 :=
  apply pair_equal_spec in H1; apply pair_equal_spec in H2;
  destruct H1 as [H1 <-]; destruct H2 as [H2 <-];
  apply pair_equal_spec in H1; apply pair_equal_spec in H2;
  destruct H1 as [<- <-]; destruct H2 as [<- <-].

Lemma ls_body_sim : forall multisym minLen ll cs t1 t2 t1' cs1 e1 t2' cs2 e2,
  1 <= minLen -> minLen <= ll -> ll <= 12 -> cs = 2 ^ (ll - 1) -> ls_R cs t1 t2 ->
  ls_body d1 multisym minLen ll (t1, cs, ENone) = (t1', cs1, e1) ->
  ls_body d2 multisym minLen ll (t2, cs, ENone) = (t2', cs2, e2) ->
  e1 = e2 /\ cs1 = 2 ^ ll /\ cs2 = 2 ^ ll /\ ls_R (2 ^ ll) t1' t2'.
Proof.
  intros multisym minLen ll cs t1 t2 t1' cs1 e1 t2' cs2 e2 Hm1 Hm Hll Hcs HR H1 H2.
  assert (Hcs2 : cs * 2 = 2 ^ ll).
  { subst cs. replace ll with (N.succ (ll - 1)) at 2 by lia. rewrite N.pow_succ_r'. lia. }
  assert (Hcsle : cs <= 2048).
  { subst cs. change 2048 with (2 ^ 11). apply ls_pow2_le. lia. }
  unfold ls_body in H1, H2. cbv beta iota zeta in H1, H2.
  replace (N.min cs (4096 - cs)) with cs in H1, H2 by lia.
  pose proof (ls_double_R cs t1 t2 HR) as HD.
  rewrite Hcs2 in H1, H2, HD.
  set (T1 := forN 0 cs (fun i t => aset t (cs + i) (aget t i)) t1) in *.
  set (T2 := forN 0 cs (fun i t => aset t (cs + i) (aget t i)) t2) in *.
  clearbody T1 T2.
  destruct (encodeSingles T1 d1 ll) as [u1 p1] eqn:S1.
  destruct (encodeSingles T2 d2 ll) as [u2 p2] eqn:S2.
  assert (Hl22 : ll + 1 <= 22) by lia. assert (Hl21 : ll <= 21) by lia.
  destruct (ls_singles_sim _ _ _ _ _ _ _ _ Hl22 HD S1 S2) as [Hp HU]. subst p2.
  destruct p1.
  { ls_leaf3 H1 H2. auto. }
  destruct ((singleSymFlag <=? multisym) || (ll <? 2 * minLen)) eqn:C1.
  { ls_leaf3 H1 H2. auto. }
  destruct (encodePairs u1 d1 ll minLen) as [v1 f1] eqn:P1.
  destruct (encodePairs u2 d2 ll minLen) as [v2 f2] eqn:P2.
  destruct (ls_encodePairs_sim _ _ _ _ _ _ _ _ _ Hm Hl21 HU P1 P2) as [Hf HV]. subst f2.
  destruct f1; try (ls_leaf3 H1 H2; auto).
  destruct ((doubleSymFlag <=? multisym) || (ll <? 3 * minLen)) eqn:C2.
  { ls_leaf3 H1 H2. auto. }
  destruct (encodeTriples v1 d1 ll minLen) as [w1 g1] eqn:T1e.
  destruct (encodeTriples v2 d2 ll minLen) as [w2 g2] eqn:T2e.
  assert (Hm2 : 2 * minLen <= ll) by lia.
  destruct (ls_encodeTriples_sim _ _ _ _ _ _ _ _ _ Hm2 Hl21 HV T1e T2e) as [Hg HW].
  subst g2. ls_leaf3 H1 H2. auto.
Qed.

(* ---------------------------------------------------------------- encodeLongCodes *)
Definition ls_scan (d : dynHdr) (huff : arr) (firstBits : N) (j : N) (a : N * list N)
  : N * list N :=
  let '(ml, tl) := a in
  let lj := aget (codeList d) (aget (litCount d) 13 + j) in
  if N.land (hc_code (aget huff lj)) 4095 =? firstBits
  then (hc_len (aget huff lj), lj :: tl) else a.

Definition ls_fold (fuel : nat) (lcl grp : N) (a : arr * arr * bool) (sym1Index : N) : arr * arr * bool :=
  let '(long, huff, pan) := a in
  let sym1 := indexToSym sym1Index in
  let sym1Len := hc_len (aget huff sym1Index) in
  let sym1Code := hc_code (aget huff sym1Index) in
  let longBits := N.shiftr sym1Code 12 in
  let minInc := shl32 1 (sym1Len - 12) in
  let entry := u16 (N.lor sym1 (N.shiftl sym1Len 10)) in
  let '(long, pan) := long_fill fuel 1264 mask32 long lcl longBits grp minInc entry pan in
  (long, aset huff sym1Index (hc_setcode (aget huff sym1Index) invalidCodeValue), pan).

Definition ls_step (fuel : nat) (d : dynHdr) (n : N) (i : N) (st : arr * arr * arr * N * bool)
  : arr * arr * arr * N * bool :=
  let '(short, long, huff, lcl, pan) := st in
  if pan then st
  else if 516 <=? aget (litCount d) 13 + i then (short, long, huff, lcl, true)
  else
    let li := aget (codeList d) (aget (litCount d) 13 + i) in
    if hc_code (aget huff li) =? invalidCodeValue then st
    else
      let maxLen0 := hc_len (aget huff li) in
      let firstBits := N.land (hc_code (aget huff li)) 4095 in
      let '(maxLen, tempRev) := forN (i + 1) n (ls_scan d huff firstBits) (maxLen0, [li]) in
      let temp := frev tempRev in
      let grp := shl32 1 (maxLen - 12) in
      if 1264 <? lcl + grp then (short, long, huff, lcl, true)
      else
        let long := forN lcl (lcl + grp) (fun x t => aset t x 0) long in
        let '(long, huff, pan) := fold_left (ls_fold fuel lcl grp) temp (long, huff, pan) in
        let short := aset short firstBits
                       (u32 (N.lor (N.lor lcl (N.shiftl maxLen 26)) largeFlagBit)) in
        (short, long, huff, u32 (lcl + grp), pan).

Lemma ls_elc_loop_eq : forall short long d cll,
  elc_loop short long d cll =
  forN 0 (sub32 cll (aget (litCount d) 13)) (ls_step small_fuel d (sub32 cll (aget (litCount d) 13)))
       (short, long, litAndDistHuff d, 0, false).
Proof. reflexivity. Qed.

Definition ls_huffinv (huff : arr) : Prop :=
  forall x, aget huff x < 4294967296 /\
            hc_len (aget huff x) = hc_len (aget (litAndDistHuff d1) x).

Lemma ls_huffinv_0 : ls_huffinv (litAndDistHuff d1).
Proof. intros x. split; [apply ls_huff_lt|reflexivity]. Qed.

Lemma ls_huffinv_mark : forall huff x,
  ls_huffinv huff -> ls_huffinv (aset huff x (hc_setcode (aget huff x) invalidCodeValue)).
Proof.
  intros huff x Hi y. rewrite aget_aset. destruct (y =? x) eqn:E.
  - assert (y = x) by lia. subst y. destruct (Hi x) as [H1 H2].
    split; [apply ls_hc_setcode_lt|]. rewrite ls_hc_setcode_len by exact H1. exact H2.
  - apply Hi.
Qed.

Lemma ls_long_fill_sim : forall fuel bound wrap base lim minInc entry m l1 l2 longBits pan l1' p1 l2' p2,
  agree m l1 l2 ->
  long_fill fuel bound wrap l1 base longBits lim minInc entry pan = (l1', p1) ->
  long_fill fuel bound wrap l2 base longBits lim minInc entry pan = (l2', p2) ->
  p1 = p2 /\ agree m l1' l2'.
Proof.
  induction fuel as [|f IH];
    intros bound wrap base lim minInc entry m l1 l2 longBits pan l1' p1 l2' p2 HA H1 H2.
  - cbn [long_fill] in H1, H2. ls_leaf H1 H2 HA.
  - cbn [long_fill] in H1, H2. destruct (longBits <? lim) eqn:E1; [|ls_leaf H1 H2 HA].
    destruct (bound <=? base + longBits) eqn:E2; [ls_leaf H1 H2 HA|].
    refine (IH _ _ _ _ _ _ _ _ _ _ _ _ _ _ _ _ H1 H2). apply agree_aset. exact HA.
Qed.

Lemma ls_fold_sim : forall fuel lcl grp temp m long1 long2 huff pan l1' h1' p1' l2' h2' p2',
  agree m long1 long2 -> ls_huffinv huff ->
  fold_left (ls_fold fuel lcl grp) temp (long1, huff, pan) = (l1', h1', p1') ->
  fold_left (ls_fold fuel lcl grp) temp (long2, huff, pan) = (l2', h2', p2') ->
  h1' = h2' /\ p1' = p2' /\ agree m l1' l2' /\ ls_huffinv h1'.
Proof.
  intros fuel lcl grp temp. induction temp as [|x r IH];
    intros m long1 long2 huff pan l1' h1' p1' l2' h2' p2' HA Hi H1 H2.
  - cbn [fold_left] in H1, H2.
    apply pair_equal_spec in H1; apply pair_equal_spec in H2.
    destruct H1 as [H1 <-]; destruct H2 as [H2 <-].
    apply pair_equal_spec in H1; apply pair_equal_spec in H2.
    destruct H1 as [<- <-]; destruct H2 as [<- <-]. auto.
  - cbn [fold_left] in H1, H2.
    unfold ls_fold at 2 in H1. unfold ls_fold at 2 in H2. cbv beta iota zeta in H1, H2.
    match type of H1 with context [long_fill ?a ?b ?c ?dd ?e ?f ?g ?hh ?i ?j] =>
      destruct (long_fill a b c dd e f g hh i j) as [u1 q1] eqn:EL1 end.
    match type of H2 with context [long_fill ?a ?b ?c ?dd ?e ?f ?g ?hh ?i ?j] =>
      destruct (long_fill a b c dd e f g hh i j) as [u2 q2] eqn:EL2 end.
    destruct (ls_long_fill_sim _ _ _ _ _ _ _ _ _ _ _ _ _ _ _ _ HA EL1 EL2) as [Hq HU]. subst q2.
    exact (IH _ _ _ _ _ _ _ _ _ _ _ HU (ls_huffinv_mark _ _ Hi) H1 H2).
Qed.

Local Notation idx := (aget (litCount d1) 13).

Lemma ls_idx_le : idx <= nn.
Proof. apply ls_lc_le. lia. Qed.

Lemma ls_long_len : forall k huff, ls_huffinv huff -> idx <= k < nn ->
  13 <= hc_len (aget huff (aget (codeList d1) k)) <= 21.
Proof.
  intros k huff Hi Hk.
  destruct (ls_bucket_ex 13 22 k ltac:(lia) ltac:(lia) Hk) as (L & HL & _ & _ & Hlen).
  destruct (Hi (aget (codeList d1) k)) as [_ He]. rewrite He, Hlen. lia.
Qed.

Lemma ls_scan_eq : forall huff fb i a,
  forN (i + 1) (nn - idx) (ls_scan d1 huff fb) a = forN (i + 1) (nn - idx) (ls_scan d2 huff fb) a.
Proof.
  intros huff fb i a. pose proof ls_idx_le as Hle. apply ls_forN_ext.
  intros j [ml tl] Hj. unfold ls_scan. rewrite <- Hlc. rewrite <- (Hcl (idx + j)) by lia.
  reflexivity.
Qed.

Lemma ls_scan_len : forall huff fb i ml0 tl0, ls_huffinv huff -> 13 <= ml0 <= 21 ->
  13 <= fst (forN (i + 1) (nn - idx) (ls_scan d1 huff fb) (ml0, tl0)) <= 21.
Proof.
  intros huff fb i ml0 tl0 Hi H0. pose proof ls_idx_le as Hle.
  apply (forN_inv _ (fun a : N * list N => 13 <= fst a <= 21)); [exact H0|].
  intros j [ml tl] Hj Ha. cbn [fst] in Ha. unfold ls_scan.
  destruct (N.land (hc_code (aget huff (aget (codeList d1) (idx + j)))) 4095 =? fb);
    [|exact Ha].
  cbn [fst]. apply ls_long_len; [exact Hi|lia].
Qed.

(* long-code pointers of the short table address groups below lcl *)
Definition ls_ptr_ok (s : arr) (lcl : N) : Prop :=
  forall i, i < 4096 -> N.land (aget s i) largeFlagBit <> 0 ->
    N.shiftr (aget s i) 26 <= 31 /\
    N.land (aget s i) largeShortSymMask + 2 ^ (N.shiftr (aget s i) 26 - 12) <= lcl.

Lemma ls_ptr_fields : forall c ml, c <= 1264 -> ml <= 31 ->
  N.shiftr (u32 (N.lor (N.lor c (N.shiftl ml 26)) largeFlagBit)) 26 = ml /\
  N.land (u32 (N.lor (N.lor c (N.shiftl ml 26)) largeFlagBit)) largeShortSymMask = c.
Proof.
  intros c ml Hc Hml.
  assert (Hc25 : c < 2 ^ 25).
  { apply (ls_lt_pow2_mono c 11 25); [change (2 ^ 11) with 2048|]; lia. }
  assert (Hml5 : ml < 2 ^ 5) by (change (2 ^ 5) with 32; lia).
  change largeFlagBit with (2 ^ 25).
  assert (Hf : 2 ^ 25 < 2 ^ 26) by (apply N.pow_lt_mono_r; lia).
  assert (Hx : N.lor (N.lor c (N.shiftl ml 26)) (2 ^ 25) < 2 ^ 32).
  { apply lor_lt_pow2; [apply lor_lt_pow2|].
    - apply (ls_lt_pow2_mono c 25 32); [exact Hc25|lia].
    - apply (ls_shiftl_lt ml 26 5 32); [exact Hml5|lia].
    - apply N.pow_lt_mono_r; lia. }
  rewrite u32_small by (change 4294967296 with (2 ^ 32); exact Hx).
  split.
  - replace (N.lor (N.lor c (N.shiftl ml 26)) (2 ^ 25))
      with (N.lor (N.lor c (2 ^ 25)) (N.shiftl ml 26)).
    2:{ rewrite <- !N.lor_assoc. f_equal. apply N.lor_comm. }
    apply shiftr_lor_shiftl. apply lor_lt_pow2; [|exact Hf].
    apply (ls_lt_pow2_mono c 25 26); [exact Hc25|lia].
  - change largeShortSymMask with (N.ones 25). apply N.bits_inj. intro n.
    rewrite N.land_spec, !N.lor_spec. destruct (N.lt_ge_cases n 25) as [Hlt|Hge].
    + rewrite N.ones_spec_low by exact Hlt. rewrite N.shiftl_spec_low by lia.
      rewrite N.pow2_bits_false by lia. rewrite !orb_false_r, andb_true_r. reflexivity.
    + rewrite N.ones_spec_high by exact Hge. rewrite andb_false_r.
      symmetry. apply (testbit_small c 25 n); [exact Hc25|exact Hge].
Qed.

Lemma ls_ptr_ok_step : forall s c ml fb,
  ls_ptr_ok s c -> 13 <= ml <= 21 -> c + 2 ^ (ml - 12) <= 1264 ->
  ls_ptr_ok (aset s fb (u32 (N.lor (N.lor c (N.shiftl ml 26)) largeFlagBit))) (c + 2 ^ (ml - 12)).
Proof.
  intros s c ml fb Hp Hml Hfit i Hi Hfl. rewrite aget_aset in Hfl |- *.
  destruct (i =? fb) eqn:E.
  - destruct (ls_ptr_fields c ml ltac:(lia) ltac:(lia)) as [F1 F2]. rewrite F1, F2. lia.
  - destruct (Hp i Hi Hfl) as [G1 G2]. split; [exact G1|lia].
Qed.

Lemma ls_nf_ptr_ok : forall s, ls_nf 4096 s -> ls_ptr_ok s 0.
Proof.
  intros s Hn i Hi Hfl. exfalso. apply Hfl. change largeFlagBit with (2 ^ 25).
  apply land_pow2_testbit. apply Hn. exact Hi.
Qed.

Definition ls_linv (st1 st2 : arr * arr * arr * N * bool) : Prop :=
  let '(s1, l1, h1, c1, p1) := st1 in
  let '(s2, l2, h2, c2, p2) := st2 in
  p1 = p2 /\
  (p1 = false ->
   h1 = h2 /\ c1 = c2 /\ c1 <= 1264 /\ agree 4096 s1 s2 /\ agree c1 l1 l2 /\
   ls_ptr_ok s1 c1 /\ ls_huffinv h1).

Lemma ls_linv_pan : forall s1 l1 h1 c1 s2 l2 h2 c2, ls_linv (s1, l1, h1, c1, true) (s2, l2, h2, c2, true).
Proof. intros. unfold ls_linv. split; [reflexivity|discriminate]. Qed.

Lemma ls_shl32_grp : forall ml, 13 <= ml <= 21 ->
  shl32 1 (ml - 12) = 2 ^ (ml - 12) /\ 2 ^ (ml - 12) <= 512.
Proof.
  intros ml Hml. assert (Hle : 2 ^ (ml - 12) <= 512).
  { change 512 with (2 ^ 9). apply ls_pow2_le. lia. }
  split; [|exact Hle]. unfold shl32. destruct (32 <=? ml - 12) eqn:E; [lia|].
  rewrite N.shiftl_1_l. apply u32_small. lia.
Qed.

Lemma ls_step_sim : forall fuel i st1 st2,
  i < nn - idx -> ls_linv st1 st2 ->
  ls_linv (ls_step fuel d1 (nn - idx) i st1) (ls_step fuel d2 (nn - idx) i st2).
Proof.
  intros fuel i [[[[s1 l1] h1] c1] p1] [[[[s2 l2] h2] c2] p2] Hi Hinv.
  pose proof ls_idx_le as Hle.
  unfold ls_linv in Hinv. destruct Hinv as [Hp Hrest]. subst p2. destruct p1.
  - unfold ls_step. apply ls_linv_pan.
  - destruct (Hrest eq_refl) as (Hhh & Hc & Hc1264 & HAs & HAl & Hptr & Hhi). subst h2 c2.
    unfold ls_step. cbv beta iota zeta. rewrite <- Hlc. rewrite <- (Hcl (idx + i)) by lia.
    destruct (516 <=? idx + i) eqn:E516; [apply ls_linv_pan|].
    destruct (hc_code (aget h1 (aget (codeList d1) (idx + i))) =? invalidCodeValue) eqn:Einv.
    { unfold ls_linv. split; [reflexivity|]. intros _. auto 10. }
    rewrite <- ls_scan_eq.
    pose proof (ls_scan_len h1
                  (N.land (hc_code (aget h1 (aget (codeList d1) (idx + i)))) 4095) i
                  (hc_len (aget h1 (aget (codeList d1) (idx + i))))
                  [aget (codeList d1) (idx + i)] Hhi
                  (ls_long_len (idx + i) h1 Hhi ltac:(lia))) as Hml.
    destruct (forN (i + 1) (nn - idx)
                (ls_scan d1 h1 (N.land (hc_code (aget h1 (aget (codeList d1) (idx + i)))) 4095))
                (hc_len (aget h1 (aget (codeList d1) (idx + i))),
                 [aget (codeList d1) (idx + i)])) as [maxLen tempRev] eqn:ES.
    cbn [fst] in Hml.
    destruct (ls_shl32_grp maxLen Hml) as [Hgrp Hgle]. rewrite Hgrp.
    destruct (1264 <? c1 + 2 ^ (maxLen - 12)) eqn:Efit; [apply ls_linv_pan|].
    destruct (fold_left (ls_fold fuel c1 (2 ^ (maxLen - 12))) (frev tempRev)
                (forN c1 (c1 + 2 ^ (maxLen - 12)) (fun x t => aset t x 0) l1, h1, false))
      as [[L1 H1'] P1] eqn:F1.
    destruct (fold_left (ls_fold fuel c1 (2 ^ (maxLen - 12))) (frev tempRev)
                (forN c1 (c1 + 2 ^ (maxLen - 12)) (fun x t => aset t x 0) l2, h1, false))
      as [[L2 H2'] P2] eqn:F2.
    assert (HA0 : agree (c1 + 2 ^ (maxLen - 12))
                    (forN c1 (c1 + 2 ^ (maxLen - 12)) (fun x t => aset t x 0) l1)
                    (forN c1 (c1 + 2 ^ (maxLen - 12)) (fun x t => aset t x 0) l2)).
    { apply ls_zero_agree; [lia|exact HAl]. }
    destruct (ls_fold_sim _ _ _ _ _ _ _ _ _ _ _ _ _ _ _ HA0 Hhi F1 F2) as (HH & HP & HAL & Hhi').
    subst H2' P2.
    unfold ls_linv. split; [reflexivity|]. intros _.
    rewrite u32_small by lia.
    split; [reflexivity|]. split; [reflexivity|]. split; [lia|].
    split; [apply agree_aset; exact HAs|]. split; [exact HAL|].
    split; [|exact Hhi']. apply ls_ptr_ok_step; [exact Hptr|exact Hml|lia].
Qed.

Lemma ls_elc_sim : forall s1 l1 s2 l2 S1 L1 H1 C1 P1 S2 L2 H2 C2 P2,
  ls_R 4096 s1 s2 ->
  elc_loop s1 l1 d1 nn = (S1, L1, H1, C1, P1) ->
  elc_loop s2 l2 d2 nn = (S2, L2, H2, C2, P2) ->
  P1 = P2 /\ (P1 = false -> large_rel S1 L1 S2 L2).
Proof.
  intros s1 l1 s2 l2 S1 L1 H1 C1 P1 S2 L2 H2 C2 P2 [HA HN] E1 E2.
  pose proof ls_idx_le as Hle.
  rewrite ls_elc_loop_eq in E1, E2. rewrite <- Hlc, <- Hh in E2.
  rewrite (ls_sub32_le nn idx Hle) in E1, E2.
  assert (HL : ls_linv (S1, L1, H1, C1, P1) (S2, L2, H2, C2, P2)).
  { rewrite <- E1, <- E2. apply (ls_forN2_inv _ _ ls_linv).
    - unfold ls_linv. split; [reflexivity|]. intros _.
      split; [reflexivity|]. split; [reflexivity|]. split; [lia|]. split; [exact HA|].
      split; [apply agree_0|]. split; [apply ls_nf_ptr_ok; exact HN|apply ls_huffinv_0].
    - intros j x1 x2 Hj Hx. apply ls_step_sim; [lia|exact Hx]. }
  unfold ls_linv in HL. destruct HL as [HP HR]. split; [exact HP|].
  intros Hpf. destruct (HR Hpf) as (_ & _ & _ & HAs & HAl & Hptr & _).
  split; [exact HAs|]. intros i Hi Hfl. destruct (Hptr i Hi Hfl) as [G1 G2].
  split; [exact G1|]. apply (agree_le _ C1); [exact G2|exact HAl].
Qed.

(* the first code length *)
Lemma ls_lastLen : 0 < nn ->
  1 <= hc_len (aget (litAndDistHuff d1) (aget (codeList d1) 0)) <= 21.
Proof.
  intros Hn.
  assert (H0 : aget (litCount d1) 0 = 0) by (destruct HS as (H & _); exact H).
  assert (H1 : aget (litCount d1) 1 = 0) by (destruct HS as (_ & H & _); exact H).
  destruct (ls_bucket_ex 0 22 0 ltac:(lia) ltac:(lia) ltac:(lia)) as (L & HL & Hb & _ & Hlen).
  rewrite Hlen. destruct (N.eq_dec L 0) as [->|Hne]; [|lia].
  change (0 + 1) with 1 in Hb. lia.
Qed.

Lemma ls_genForLitLen_eq : forall short long d m,
  genForLitLen short long d m =
  let codeListLen := aget (litCount d) 22 in
  if codeListLen =? 0 then (aempty, long, d, ENone)
  else
    let lastLen0 := hc_len (aget (litAndDistHuff d) (aget (codeList d) 0)) in
    let lastLen := if 12 <? lastLen0 then 13 else lastLen0 in
    let copySize := if lastLen =? 0 then 0 else N.shiftl 1 (lastLen - 1) in
    let short := forN 0 copySize (fun i t => aset t i 0) short in
    let '(short, _, err) := forN lastLen 13 (ls_body d m lastLen) (short, copySize, ENone) in
    match err with
    | ENone =>
      let '(short, long, huff, pan) := encodeLongCodes short long d codeListLen in
      (short, long, set_dyn_huff d huff, if pan then EPanic else ENone)
    | _ => (short, long, d, err)
    end.
Proof. reflexivity. Qed.

(* the relation kept by the main loop *)
Definition ls_minv (ll : N) (a1 a2 : arr * N * ierr) : Prop :=
  snd a1 = snd a2 /\
  (snd a1 = ENone ->
   snd (fst a1) = 2 ^ (ll - 1) /\ snd (fst a2) = 2 ^ (ll - 1) /\
   ls_R (2 ^ (ll - 1)) (fst (fst a1)) (fst (fst a2))).

Lemma ls_main_sim : forall m lastLen t1 t2,
  1 <= lastLen <= 13 -> ls_R (2 ^ (lastLen - 1)) t1 t2 ->
  ls_minv 13 (forN lastLen 13 (ls_body d1 m lastLen) (t1, 2 ^ (lastLen - 1), ENone))
             (forN lastLen 13 (ls_body d2 m lastLen) (t2, 2 ^ (lastLen - 1), ENone)).
Proof.
  intros m lastLen t1 t2 Hl HR.
  apply (ls_forN2_ind _ _ ls_minv); [lia| |].
  - unfold ls_minv. cbn [fst snd]. auto.
  - intros j [[x1 c1] e1] [[x2 c2] e2] Hj [He Hx]. cbn [fst snd] in He, Hx. subst e2.
    destruct e1;
      try (unfold ls_body, ls_minv; cbn [fst snd]; split; [reflexivity|discriminate]).
    destruct (Hx eq_refl) as (Hc1 & Hc2 & HRj). subst c1 c2.
    destruct (ls_body d1 m lastLen j (x1, 2 ^ (j - 1), ENone)) as [[y1 k1] f1] eqn:B1.
    destruct (ls_body d2 m lastLen j (x2, 2 ^ (j - 1), ENone)) as [[y2 k2] f2] eqn:B2.
    destruct (ls_body_sim m lastLen j (2 ^ (j - 1)) x1 x2 y1 k1 f1 y2 k2 f2
                ltac:(lia) ltac:(lia) ltac:(lia) eq_refl HRj B1 B2) as (Hf & Hk1 & Hk2 & HRy).
    unfold ls_minv. cbn [fst snd]. replace (j + 1 - 1) with j by lia.
    split; [exact Hf|]. intros _. auto.
Qed.

Ltac ls_leaf4 H :=
  let Ha := fresh "Ha" in let Hb := fresh "Hb" in let Hc := fresh "Hc" in let Hd := fresh "Hd" in
  apply pair_equal_spec in H; destruct H as [H Hd];
  apply pair_equal_spec in H; destruct H as [H Hc];
  apply pair_equal_spec in H; destruct H as [Ha Hb].

Lemma ls_gen_sim : forall sh1 lg1 sh2 lg2 m s1 l1 d1' e1 s2 l2 d2' e2,
  genForLitLen sh1 lg1 d1 m = (s1, l1, d1', e1) ->
  genForLitLen sh2 lg2 d2 m = (s2, l2, d2', e2) ->
  e1 = e2 /\ (e1 = ENone -> large_rel s1 l1 s2 l2).
Proof.
  intros sh1 lg1 sh2 lg2 m s1 l1 d1' e1 s2 l2 d2' e2 G1 G2.
  rewrite ls_genForLitLen_eq in G1, G2. cbv zeta in G1, G2.
  rewrite <- Hlc, <- Hh in G2.
  destruct (nn =? 0) eqn:En.
  - ls_leaf4 G1. ls_leaf4 G2. subst. split; [reflexivity|]. intros _.
    split; [apply agree_refl|]. intros i Hi Hfl. exfalso. apply Hfl.
    rewrite aget_empty. reflexivity.
  - rewrite <- (Hcl 0) in G2 by lia.
    pose proof (ls_lastLen ltac:(lia)) as HL0.
    set (L0 := hc_len (aget (litAndDistHuff d1) (aget (codeList d1) 0))) in *.
    set (lastLen := if 12 <? L0 then 13 else L0) in *.
    assert (Hl : 1 <= lastLen <= 13) by (unfold lastLen; destruct (12 <? L0) eqn:E12; lia).
    destruct (lastLen =? 0) eqn:El0; [lia|]. rewrite N.shiftl_1_l in G1, G2.
    pose proof (ls_main_sim m lastLen _ _ Hl (ls_zero_R (2 ^ (lastLen - 1)) sh1 sh2)) as HM.
    destruct (forN lastLen 13 (ls_body d1 m lastLen)
                (forN 0 (2 ^ (lastLen - 1)) (fun i t => aset t i 0) sh1, 2 ^ (lastLen - 1), ENone))
      as [[t1 c1] f1] eqn:M1.
    destruct (forN lastLen 13 (ls_body d2 m lastLen)
                (forN 0 (2 ^ (lastLen - 1)) (fun i t => aset t i 0) sh2, 2 ^ (lastLen - 1), ENone))
      as [[t2 c2] f2] eqn:M2.
    unfold ls_minv in HM. cbn [fst snd] in HM. destruct HM as [Hf HM]. subst f2.
    destruct f1;
      try (ls_leaf4 G1; ls_leaf4 G2; subst; split; [reflexivity|discriminate]).
    destruct (HM eq_refl) as (_ & _ & HR). change (2 ^ (13 - 1)) with 4096 in HR.
    rewrite encodeLongCodes_eq in G1, G2.
    destruct (elc_loop t1 lg1 d1 nn) as [[[[S1 L1] H1] C1] P1] eqn:EL1.
    destruct (elc_loop t2 lg2 d2 nn) as [[[[S2 L2] H2] C2] P2] eqn:EL2.
    destruct (ls_elc_sim _ _ _ _ _ _ _ _ _ _ _ _ _ _ HR EL1 EL2) as [HP HLR]. subst P2.
    ls_leaf4 G1. ls_leaf4 G2. subst. split; [reflexivity|].
    intros He. apply HLR. destruct P1; [discriminate|reflexivity].
Qed.

End Sim.

Theorem genForLitLen_sim : genForLitLen_sim_statement.
Proof.
  unfold genForLitLen_sim_statement.
  intros sh1 lg1 sh2 lg2 d1 d2 m s1 l1 d1' e1 s2 l2 d2' e2 Hh Hlc Hcl HS G1 G2.
  exact (ls_gen_sim d1 d2 Hh Hlc Hcl HS _ _ _ _ _ _ _ _ _ _ _ _ _ G1 G2).
Qed.
Print Assumptions genForLitLen_sim.

(* ---------------------------------------------------------------- large_rel gives equal lookups *)
Lemma ls_group_index : forall bits k,
  k <= 31 -> N.shiftr (N.land (u32 bits) (ones32 k)) 12 < 2 ^ (k - 12).
Proof.
  intros bits k Hk. unfold ones32. destruct (32 <=? k) eqn:E; [lia|].
  apply shiftr_lt. apply (ls_lt_pow2_mono _ k); [apply land_ones_lt|lia].
Qed.

Theorem large_rel_lit : forall s1 l1 s2 l2 c1 d1 c2 d2,
  large_rel s1 l1 s2 l2 -> lit_eq (mkTB s1 l1 c1 d1) (mkTB s2 l2 c2 d2).
Proof.
  intros s1 l1 s2 l2 c1 d1 c2 d2 [HA HP] b. unfold litlen_decode. cbn [litShort litLong].
  assert (Hnb : N.land (r_bits b) 4095 < 4096).
  { change 4095 with (N.ones 12). change 4096 with (2 ^ 12). apply land_ones_lt. }
  rewrite <- (HA _ Hnb).
  destruct (N.land (aget s1 (N.land (r_bits b) 4095)) largeFlagBit =? 0) eqn:Efl; [reflexivity|].
  destruct (HP _ Hnb ltac:(lia)) as [Hk HAl].
  cbv zeta.
  pose proof (ls_group_index (r_bits b) _ Hk) as Hg.
  destruct (1264 <=? _) eqn:E; [reflexivity|].
  match goal with |- context [aget l2 ?i] => rewrite <- (HAl i) by lia end. reflexivity.
Qed.
Print Assumptions large_rel_lit.
