(* EngineCompleteGlue3.v -- the exact form of setupDynamicHeader_need
   (RModel/EngineCompleteSpecF.v): when setupDynamicHeader reports EEndInput, the reference's
   dyn_header on exactly the bits the engine holds stops with NeedInput.  Same proof as
   proofs/EngineRefineGlueNeed.v (sdh_mid_need), from the exact component statements. *)
From Coq Require Import List NArith ZArith Bool Lia ZifyBool ZifyNat ZifyN.
From Verif Require Import Bits Huffman HuffmanSpec Inflate.
From Verif Require Import Base EngineTables Engine EngineRefineSpec EngineRefineSpecNeed
     EngineCompleteSpecA EngineCompleteSpecF
     EngineRefineBits EngineRefineBridge EngineRefineGlue EngineRefineGlueNeed EngineCompleteGlue.
From Verif Require HuffmanProofs.
Import ListNotations.
Open Scope N_scope.

Lemma dyn_header_short3 : forall l p, (length l < 14)%nat ->
  dyn_header (mkbs l p) = HStop NeedInput.
Proof.
  intros l p Hl. unfold dyn_header.
  destruct (take 5 (mkbs l p)) as [[hlit t1]|] eqn:E1; [|reflexivity].
  destruct (take 5 t1) as [[hdist t2]|] eqn:E2; [|reflexivity].
  destruct (take 4 t2) as [[hclen t3]|] eqn:E3; [|reflexivity].
  exfalso. apply glue_take_length in E1, E2, E3. cbn [bl] in E1. lia.
Qed.

Lemma sdh_mid_need3 :
  canon_pad_statement -> gen_clc_statement -> codeLenCodes_refine_statement ->
  codeLenCodes_need3_statement -> readLitDistLens_need3_statement ->
  forall s ms p,
    br_wf (rd s) -> br_loaded 57 (rd s) ->
    arr_zero (litAndDistHuff (dyn s)) -> arr_zero (litCount (dyn s)) ->
    arr_zero (distCount (dyn s)) -> arr_zero (litExpandCount (dyn s)) ->
    snd (sdh_mid s ms) = EEndInput ->
    dyn_header (mkbs (br_bits (rd s)) p) = HStop NeedInput.
Proof.
  intros Hpad Hclc Hclcr Hcn Hrn s ms p Hwf Hld Z1 Z2 Z3 Z4 Herr.
  unfold sdh_mid in Herr.
  destruct (r_len (rd s) <? 14)%Z eqn:E14.
  { apply dyn_header_short3. rewrite br_bits_length.
    destruct Hld as [Hl|Hl]; [|lia]. rewrite Hl. cbn [length]. lia. }
  destruct (next_bits (rd s) 5) as [hlit b1] eqn:N1.
  destruct (next_bits_facts (rd s) 5 [] p Hwf ltac:(lia) hlit b1 N1) as (W1 & T1 & R1 & I1 & V1).
  destruct (next_bits b1 5) as [hdist b2] eqn:N2.
  destruct (next_bits_facts b1 5 [] (p + 5) W1 ltac:(lia) hdist b2 N2) as (W2 & T2 & R2 & I2 & V2).
  destruct (next_bits b2 4) as [hclen b3] eqn:N3.
  destruct (next_bits_facts b2 4 [] (p + 5 + 5) W2 ltac:(lia) hclen b3 N3) as (W3 & T3 & R3 & I3 & V3).
  rewrite !app_nil_r in T1, T2, T3.
  change (N.to_nat 5) with 5%nat in T1, T2. change (N.to_nat 4) with 4%nat in T3.
  change (2 ^ 5) with 32 in V1, V2. change (2 ^ 4) with 16 in V3.
  cbv zeta in Herr.
  destruct ((29 <? hlit) || (29 <? hdist) || (15 <? hclen)) eqn:Eb.
  { cbn [snd] in Herr. discriminate Herr. }
  apply orb_false_iff in Eb. destruct Eb as [Eb Eb3].
  pose proof Eb as Eb12.
  apply orb_false_iff in Eb. destruct Eb as [Eb1 Eb2].
  set (s2 := set_rd s b3) in *.
  assert (C1 : br_wf (rd s2)) by exact W3.
  assert (C2 : (0 <= r_len (rd s2))%Z) by (change (rd s2) with b3; lia).
  assert (C3 : br_loaded 12 (rd s2)).
  { change (rd s2) with b3. destruct Hld as [Hl|Hl]; [left; rewrite I3, I2, I1; exact Hl|right; lia]. }
  assert (C4 : hclen <= 15) by lia.
  pose proof (Hclcr Hclc s2 hclen [] (p + 5 + 5 + 4) C1 C2 C3 C4) as C.
  pose proof (Hcn Hclc s2 hclen (p + 5 + 5 + 4) C1 C2 C3 C4) as CN.
  change (rd s2) with b3 in CN.
  destruct (codeLenCodes s2 hclen) as [s3 err3] eqn:E3.
  cbn [snd] in CN.
  destruct C as (CW & CF & CT & CP & CA1 & CA2 & CA3 & CA4 & CE).
  destruct err3; [ | | cbn [snd] in Herr; discriminate Herr .. ].
  2:{ (* codeLenCodes ran out of input *)
    unfold dyn_header. rewrite T1, T2, T3, Eb12, (CN eq_refl). reflexivity. }
  destruct (CE eq_refl) as (C0 & cl & Crc & CE2). cbv zeta in CE2. destruct CE2 as (Cov & Ctab).
  change (rd s2) with b3 in Crc. rewrite !app_nil_r in Crc.
  assert (Hcl7 : Forall (fun x => (x <= 7)%nat) (scatter clen_order cl (repeat 0%nat 19))).
  { apply scatter_Forall.
    - eapply read_clens_le7. exact Crc.
    - apply Forall_forall. intros x Hx. apply repeat_spec in Hx. lia. }
  assert (Hl19 : (length (scatter clen_order cl (repeat 0%nat 19)) <= 19)%nat).
  { rewrite scatter_length, repeat_length. lia. }
  destruct (HuffmanProofs.kraft_sufficient 7%nat _ ltac:(lia) Hcl7 Cov) as [ct Hct].
  assert (ZZ1 : arr_zero (litAndDistHuff (dyn s3))) by (intros i; rewrite CA1; apply Z1).
  assert (ZZ2 : arr_zero (litCount (dyn s3))) by (intros i; rewrite CA2; apply Z2).
  assert (ZZ3 : arr_zero (distCount (dyn s3))) by (intros i; rewrite CA3; apply Z3).
  assert (ZZ4 : arr_zero (litExpandCount (dyn s3))) by (intros i; rewrite CA4; apply Z4).
  assert (Hhl : hlit <= 29) by lia.
  assert (Hhd : hdist <= 29) by lia.
  pose proof (Hrn Hpad s3 hlit hdist _ ct (p + 5 + 5 + 4 + 3 * (hclen + 4)) CW C0 Hhl Hhd
                  Hcl7 Cov Hl19 Hct Ctab ZZ1 ZZ2 ZZ3 ZZ4) as R.
  destruct (readLitDistLens s3 hdist hlit) as [s4 err4] eqn:E4.
  cbv zeta in R.
  assert (RR : read_lens (N.to_nat hlit + 257 + (N.to_nat hdist + 1)) ct
                         (N.to_nat hlit + 257 + (N.to_nat hdist + 1)) []
                         (mkbs (br_bits (rd s3)) (p + 5 + 5 + 4 + 3 * (hclen + 4)))
               = HStop NeedInput).
  { destruct err4; [ | | cbn [snd] in Herr; discriminate Herr .. ].
    - destruct (r_len (rd s4) <? 0)%Z eqn:Eneg.
      + apply R. right. split; [reflexivity|lia].
      + exfalso. exact (sdh_tail_not_end s4 ms Herr).
    - apply R. left. reflexivity. }
  unfold dyn_header. rewrite T1, T2, T3, Eb12, Crc. cbv zeta. rewrite Hct, RR. reflexivity.
Qed.

Theorem setupDynamicHeader_need3 : setupDynamicHeader_need3_statement.
Proof.
  intros Hpad Hclc Hclcr Hcn Hrn s p Hwf H0 Herr.
  rewrite sdh_eq in Herr.
  set (s0 := sdh_start s) in *.
  assert (Hwf0 : br_wf (rd s0)) by exact Hwf.
  unfold loadBits in Herr.
  destruct (load_lt57_bits (rd s0) Hwf0) as (b1 & L1 & L2 & L3 & L4 & L5).
  rewrite L1 in Herr.
  change (br_bits (rd s)) with (br_bits (rd s0)). rewrite <- L3.
  exact (sdh_mid_need3 Hpad Hclc Hclcr Hcn Hrn (set_rd s0 b1) (sdh_multisym s0) p L2 L4
           arr_zero_empty arr_zero_empty arr_zero_empty arr_zero_empty Herr).
Qed.

Print Assumptions setupDynamicHeader_need3.
