(* SNAPSHOT (frozen copy, taken for the Reset-equivalence proof EngineResetProofs.v) of
   proofs/EngineSafetyRL.v as of 2026-10-01 23:40, truncated before its final theorem
   readLitDistLens_spec (not needed; EngineResetHdr3.v proves the histogram invariant without
   bit-reader hypotheses). *)
(* EngineSafetyRL.v -- safety of the code-length reader readLitDistLens (rl_loop, rl_put, rl_rep,
   clc_decode, expand_adjust) of RModel/Engine.v, and the histogram invariants it establishes
   (rl_post).  Main theorem: readLitDistLens_spec (statement exactly as requested). *)
From Verif Require Import Engine EngineTables.
From Verif Require Import Base EngineSafetyBase EngineSafetyBits EngineSafetyInv.
From Coq Require Import List NArith ZArith Bool Lia ZifyBool ZifyNat ZifyN.
Import ListNotations.
Open Scope N_scope.

(* ---------------------------------------------------------------- huffCode entries *)
Definition ent_ok (e : N) : Prop := e < 4294967296 /\ hc_len e <= 15.

Lemma hc_len_0 : hc_len 0 = 0.
Proof. reflexivity. Qed.

Lemma ent_ok_0 : ent_ok 0.
Proof. split; [lia|rewrite hc_len_0; lia]. Qed.

Lemma hc_set_0_small : forall sym, sym < 16 ->
  hc_set 0 sym < 4294967296 /\ hc_len (hc_set 0 sym) = sym.
Proof.
  intros sym Hs. unfold hc_set, hc_len.
  assert (H : N.shiftl sym 24 < 2 ^ (4 + 24)).
  { apply shiftl_lt_pow2. change (2 ^ 4) with 16. exact Hs. }
  change (2 ^ (4 + 24)) with 268435456 in H.
  rewrite N.lor_0_l. rewrite u32_small by lia.
  split; [lia|].
  rewrite N.shiftr_shiftl_l by lia. change (24 - 24) with 0. apply N.shiftl_0_r.
Qed.

Lemma ent_ok_set : forall sym, sym < 16 -> ent_ok (hc_set 0 sym).
Proof.
  intros sym Hs. destruct (hc_set_0_small sym Hs) as [H1 H2]. split; [exact H1|]. rewrite H2. lia.
Qed.

(* ---------------------------------------------------------------- count_len under one aset *)
Lemma count_len_le : forall h base n l, count_len h base n l <= N.of_nat n.
Proof.
  intros h base n l. induction n as [|k IH]; cbn [count_len]; [lia|].
  destruct (hc_len (aget h (base + N.of_nat k)) =? l); lia.
Qed.

Lemma count_len_aset : forall h p v base n l,
  hc_len (aget h p) <> l ->
  count_len (aset h p v) base n l =
  count_len h base n l +
  (if (base <=? p) && (p <? base + N.of_nat n) && (hc_len v =? l) then 1 else 0).
Proof.
  intros h p v base n l Hold. induction n as [|k IH].
  - cbn [count_len]. destruct (base <=? p) eqn:E1; cbn [andb]; [|reflexivity].
    replace (p <? base + N.of_nat 0) with false by lia. reflexivity.
  - cbn [count_len]. rewrite IH. rewrite aget_aset.
    destruct (N.eqb_spec (base + N.of_nat k) p) as [Heq|Hne].
    + subst p.
      replace (base <=? base + N.of_nat k) with true by lia.
      replace (base + N.of_nat k <? base + N.of_nat k) with false by lia.
      replace (base + N.of_nat k <? base + N.of_nat (S k)) with true by lia.
      cbn [andb].
      replace (hc_len (aget h (base + N.of_nat k)) =? l) with false by lia.
      destruct (hc_len v =? l); lia.
    + destruct (base <=? p) eqn:E1; cbn [andb]; [|lia].
      destruct (p <? base + N.of_nat k) eqn:E2.
      * replace (p <? base + N.of_nat (S k)) with true by lia. lia.
      * replace (p <? base + N.of_nat (S k)) with false by lia. lia.
Qed.

(* the 15 counts of a range add up to at most its size *)
Lemma one_of_15 : forall x,
  (if x =? 1 then 1 else 0) + (if x =? 2 then 1 else 0) + (if x =? 3 then 1 else 0) +
  (if x =? 4 then 1 else 0) + (if x =? 5 then 1 else 0) + (if x =? 6 then 1 else 0) +
  (if x =? 7 then 1 else 0) + (if x =? 8 then 1 else 0) + (if x =? 9 then 1 else 0) +
  (if x =? 10 then 1 else 0) + (if x =? 11 then 1 else 0) + (if x =? 12 then 1 else 0) +
  (if x =? 13 then 1 else 0) + (if x =? 14 then 1 else 0) + (if x =? 15 then 1 else 0) <= 1.
Proof.
  intros x.
  destruct (x =? 1) eqn:E1; destruct (x =? 2) eqn:E2; try lia;
  destruct (x =? 3) eqn:E3; try lia; destruct (x =? 4) eqn:E4; try lia;
  destruct (x =? 5) eqn:E5; try lia; destruct (x =? 6) eqn:E6; try lia;
  destruct (x =? 7) eqn:E7; try lia; destruct (x =? 8) eqn:E8; try lia;
  destruct (x =? 9) eqn:E9; try lia; destruct (x =? 10) eqn:E10; try lia;
  destruct (x =? 11) eqn:E11; try lia; destruct (x =? 12) eqn:E12; try lia;
  destruct (x =? 13) eqn:E13; try lia; destruct (x =? 14) eqn:E14; try lia;
  destruct (x =? 15) eqn:E15; lia.
Qed.

Lemma count_len_sum15 : forall h base n,
  count_len h base n 1 + count_len h base n 2 + count_len h base n 3 + count_len h base n 4 +
  count_len h base n 5 + count_len h base n 6 + count_len h base n 7 + count_len h base n 8 +
  count_len h base n 9 + count_len h base n 10 + count_len h base n 11 + count_len h base n 12 +
  count_len h base n 13 + count_len h base n 14 + count_len h base n 15 <= N.of_nat n.
Proof.
  intros h base n. induction n as [|k IH]; cbn [count_len]; [lia|].
  pose proof (one_of_15 (hc_len (aget h (base + N.of_nat k)))) as H1.
  lia.
Qed.

(* ---------------------------------------------------------------- ex_dec / ex_inc under one aset *)
Lemma ex_dec_aset : forall h p v n L,
  hc_len (aget h p) = 0 ->
  ex_dec (aset h p v) n L =
  ex_dec h n L +
  (if (264 <=? p) && (p <? 264 + N.of_nat n) && (hc_len v =? L) && negb (L =? 0) then 1 else 0).
Proof.
  intros h p v n L Hold. induction n as [|k IH].
  - cbn [ex_dec]. destruct (264 <=? p) eqn:E1; cbn [andb]; [|reflexivity].
    replace (p <? 264 + N.of_nat 0) with false by lia. reflexivity.
  - cbn [ex_dec]. cbv zeta. rewrite IH. rewrite aget_aset.
    destruct (N.eqb_spec (264 + N.of_nat k) p) as [Heq|Hne].
    + subst p.
      replace (264 <=? 264 + N.of_nat k) with true by lia.
      replace (264 + N.of_nat k <? 264 + N.of_nat k) with false by lia.
      replace (264 + N.of_nat k <? 264 + N.of_nat (S k)) with true by lia.
      cbn [andb]. rewrite Hold.
      destruct (0 =? L) eqn:E0.
      * replace (L =? 0) with true by lia. cbn [negb andb]. rewrite andb_false_r. lia.
      * cbn [andb]. lia.
    + destruct (264 <=? p) eqn:E1; cbn [andb]; [|lia].
      destruct (p <? 264 + N.of_nat k) eqn:E2.
      * replace (p <? 264 + N.of_nat (S k)) with true by lia. lia.
      * replace (p <? 264 + N.of_nat (S k)) with false by lia. lia.
Qed.

Lemma ex_inc_aset : forall h p v n L,
  hc_len (aget h p) = 0 ->
  ex_inc (aset h p v) n L =
  ex_inc h n L +
  (if (264 <=? p) && (p <? 264 + N.of_nat n) && negb (hc_len v =? 0) && (hc_len v + len_extra p =? L)
   then 2 ^ len_extra p else 0).
Proof.
  intros h p v n L Hold. induction n as [|k IH].
  - cbn [ex_inc]. destruct (264 <=? p) eqn:E1; cbn [andb]; [|reflexivity].
    replace (p <? 264 + N.of_nat 0) with false by lia. reflexivity.
  - cbn [ex_inc]. cbv zeta. rewrite IH. rewrite aget_aset.
    destruct (N.eqb_spec (264 + N.of_nat k) p) as [Heq|Hne].
    + subst p.
      replace (264 <=? 264 + N.of_nat k) with true by lia.
      replace (264 + N.of_nat k <? 264 + N.of_nat k) with false by lia.
      replace (264 + N.of_nat k <? 264 + N.of_nat (S k)) with true by lia.
      cbn [andb]. rewrite Hold.
      change (0 =? 0) with true. cbn [negb andb]. lia.
    + destruct (264 <=? p) eqn:E1; cbn [andb]; [|lia].
      destruct (p <? 264 + N.of_nat k) eqn:E2.
      * replace (p <? 264 + N.of_nat (S k)) with true by lia. lia.
      * replace (p <? 264 + N.of_nat (S k)) with false by lia. lia.
Qed.

(* ---------------------------------------------------------------- expand_adjust *)
Lemma sub16_1_lt : forall a, a < 65536 -> sub16 a 1 < 65536.
Proof.
  intros a H. unfold sub16, subw. change (N.shiftl 1 16) with 65536.
  destruct (1 <=? a) eqn:E; lia.
Qed.

Lemma expand_adjust_lt : forall ex len prev,
  (forall L, aget ex L < 65536) -> forall L, aget (expand_adjust ex len prev) L < 65536.
Proof.
  intros ex len prev H L. unfold expand_adjust. cbv zeta.
  rewrite aget_aset. destruct (L =? len + _); [apply u16_lt|].
  rewrite aget_aset. destruct (L =? len); [apply sub16_1_lt, H|apply H].
Qed.

Ltac Zify.zify_post_hook ::= Z.div_mod_to_equations.

Lemma expand_adjust_eq : forall ex len prev L D I,
  (forall L, aget ex L < 65536) ->
  (aget ex L + D) mod 65536 = I mod 65536 ->
  let extra := aget rfc_len_extra (Z.to_N (prev - 257)) in
  (aget (expand_adjust ex len prev) L + (D + (if len =? L then 1 else 0))) mod 65536 =
  (I + (if len + extra =? L then 2 ^ extra else 0)) mod 65536.
Proof.
  intros ex len prev L D I Hlt Heq extra. unfold expand_adjust. cbv zeta. fold extra.
  rewrite N.shiftl_1_l. set (t := 2 ^ extra).
  rewrite !aget_aset. unfold sub16, subw. change (N.shiftl 1 16) with 65536.
  rewrite !u16_mod.
  pose proof (Hlt len) as B1. pose proof (Hlt L) as B2. pose proof (Hlt (len + extra)) as B3.
  destruct (N.eqb_spec L (len + extra)) as [E1|E1].
  - replace (len + extra =? L) with true by lia.
    destruct (N.eqb_spec (len + extra) len) as [E2|E2].
    + replace (len =? L) with true by lia. rewrite <- E1 in *. replace len with L in * by lia.
      destruct (1 <=? aget ex L) eqn:E3; lia.
    + replace (len =? L) with false by lia. rewrite <- E1 in *. lia.
  - replace (len + extra =? L) with false by lia.
    destruct (N.eqb_spec L len) as [E2|E2].
    + replace (len =? L) with true by lia. subst L.
      destruct (1 <=? aget ex len) eqn:E3; lia.
    + replace (len =? L) with false by lia. lia.
Qed.

Ltac Zify.zify_post_hook ::= idtac.

(* ---------------------------------------------------------------- the loop-state invariant *)
Definition RLI (split : Z) (st : rlst) : Prop :=
  (rl_inDist st = false -> (0 <= rl_curr st <= split)%Z) /\
  (rl_inDist st = true -> (286 <= rl_curr st)%Z) /\
  (forall i, ent_ok (aget (rl_h st) i)) /\
  (forall p, (rl_curr st <= Z.of_N p)%Z -> aget (rl_h st) p = 0) /\
  (forall l, 1 <= l <= 15 -> aget (rl_lc st) l = count_len (rl_h st) 0 286 l) /\
  (forall l, 1 <= l <= 15 -> aget (rl_dc st) l = count_len (rl_h st) 286 30 l) /\
  (forall L, aget (rl_ex st) L < 65536) /\
  (forall L, 1 <= L ->
     (aget (rl_ex st) L + ex_dec (rl_h st) 22 L) mod 65536 = ex_inc (rl_h st) 22 L mod 65536).

(* position in the coordinate system where the literal part is shifted so that split = 286:
   every stored code length advances it by exactly one *)
Definition vpos (split : Z) (st : rlst) : Z :=
  if rl_inDist st then rl_curr st else (rl_curr st + (286 - split))%Z.

Lemma RLI_set_b : forall split st b, RLI split st -> RLI split (rl_set_b st b).
Proof. intros split st b H. exact H. Qed.

(* one store at position p in mode d *)
Lemma put_core : forall st split p d h,
  (257 <= split <= 286)%Z ->
  RLI split st -> ent_ok h ->
  (d = false -> (0 <= p < split)%Z) -> (d = true -> (286 <= p < 316)%Z) ->
  (rl_curr st <= p)%Z ->
  RLI split (mkRL (rl_b st) (aset (rl_h st) (Z.to_N p) h)
                  (fst (rl_count_inc st d (hc_len h))) (snd (rl_count_inc st d (hc_len h)))
                  (if (hc_len h =? 0) || (split <=? p)%Z || (p <? 264)%Z then rl_ex st
                   else expand_adjust (rl_ex st) (hc_len h) p)
                  (p + 1)%Z p d).
Proof.
  intros st split p d h Hs (P1 & P2 & P3 & P4 & P5 & P6 & P7 & P8) Hh Hd0 Hd1 Hcp.
  set (q := Z.to_N p).
  assert (Hq : Z.of_N q = p) by (unfold q; destruct d; [specialize (Hd1 eq_refl)|specialize (Hd0 eq_refl)]; lia).
  assert (Hz : aget (rl_h st) q = 0) by (apply P4; lia).
  assert (Hl0 : hc_len (aget (rl_h st) q) = 0) by (rewrite Hz; apply hc_len_0).
  set (len := hc_len h).
  assert (Hlen : len <= 15) by (apply Hh).
  unfold RLI. cbn [rl_inDist rl_curr rl_h rl_lc rl_dc rl_ex].
  split; [intros ->; specialize (Hd0 eq_refl); lia|].
  split; [intros ->; specialize (Hd1 eq_refl); lia|].
  split.
  { intros i. rewrite aget_aset. destruct (i =? q); [exact Hh|apply P3]. }
  split.
  { intros p' Hp'. rewrite aget_aset_other by lia. apply P4. lia. }
  split.
  { intros l Hl. rewrite count_len_aset by lia. change (N.of_nat 286) with 286. fold len.
    pose proof (count_len_le (aset (rl_h st) q h) 0 286 l) as Hle.
    rewrite count_len_aset in Hle by lia. change (N.of_nat 286) with 286 in Hle. fold len in Hle.
    unfold rl_count_inc. destruct d; cbn [fst snd].
    - specialize (Hd1 eq_refl). replace (q <? 0 + 286) with false by lia.
      rewrite andb_false_r. cbn [andb]. rewrite P5 by exact Hl. lia.
    - specialize (Hd0 eq_refl). replace (0 <=? q) with true in * by lia.
      replace (q <? 0 + 286) with true in * by lia. cbn [andb] in *.
      rewrite aget_aset. destruct (N.eqb_spec l len) as [E|E].
      + subst l. rewrite N.eqb_refl in *. rewrite P5 by exact Hl. rewrite u16_small by lia. reflexivity.
      + replace (len =? l) with false by lia. rewrite P5 by exact Hl. lia. }
  split.
  { intros l Hl. rewrite count_len_aset by lia. change (N.of_nat 30) with 30. fold len.
    pose proof (count_len_le (aset (rl_h st) q h) 286 30 l) as Hle.
    rewrite count_len_aset in Hle by lia. change (N.of_nat 30) with 30 in Hle. fold len in Hle.
    unfold rl_count_inc. destruct d; cbn [fst snd].
    - specialize (Hd1 eq_refl). replace (286 <=? q) with true in * by lia.
      replace (q <? 286 + 30) with true in * by lia. cbn [andb] in *.
      rewrite aget_aset. destruct (N.eqb_spec l len) as [E|E].
      + subst l. rewrite N.eqb_refl in *. rewrite P6 by exact Hl. rewrite u16_small by lia. reflexivity.
      + replace (len =? l) with false by lia. rewrite P6 by exact Hl. lia.
    - specialize (Hd0 eq_refl). replace (286 <=? q) with false by lia.
      cbn [andb]. rewrite P6 by exact Hl. lia. }
  split.
  { intros L. destruct ((len =? 0) || (split <=? p)%Z || (p <? 264)%Z); [apply P7|].
    apply expand_adjust_lt. exact P7. }
  intros L HL.
  rewrite ex_dec_aset by exact Hl0. rewrite ex_inc_aset by exact Hl0.
  change (N.of_nat 22) with 22. fold len.
  destruct ((len =? 0) || (split <=? p)%Z || (p <? 264)%Z) eqn:Ec.
  - assert (Hc : len = 0 \/ (q < 264) \/ (286 <= q)).
    { destruct d; [specialize (Hd1 eq_refl); lia|specialize (Hd0 eq_refl); lia]. }
    replace ((264 <=? q) && (q <? 264 + 22) && (len =? L) && negb (L =? 0)) with false by lia.
    replace ((264 <=? q) && (q <? 264 + 22) && negb (len =? 0) && (len + len_extra q =? L))
      with false by lia.
    rewrite !N.add_0_r. apply P8. exact HL.
  - assert (Hc : len <> 0 /\ 264 <= q < 286) by lia.
    replace ((264 <=? q) && (q <? 264 + 22) && (len =? L) && negb (L =? 0)) with (len =? L) by lia.
    replace ((264 <=? q) && (q <? 264 + 22) && negb (len =? 0) && (len + len_extra q =? L))
      with (len + len_extra q =? L) by lia.
    pose proof (expand_adjust_eq (rl_ex st) len p L (ex_dec (rl_h st) 22 L) (ex_inc (rl_h st) 22 L)
                  P7 (P8 L HL)) as HE.
    cbv zeta in HE.
    replace (aget rfc_len_extra (Z.to_N (p - 257))) with (len_extra q) in HE.
    + exact HE.
    + unfold len_extra. f_equal. lia.
Qed.

(* ---------------------------------------------------------------- rl_put / rl_rep *)
Lemma rl_put_spec : forall st split endv h,
  (257 <= split <= 286)%Z -> (287 <= endv <= 316)%Z ->
  RLI split st -> ent_ok h -> (vpos split st < endv)%Z ->
  exists st', rl_put st split endv h = Some st' /\ RLI split st' /\
              vpos split st' = (vpos split st + 1)%Z /\ rl_b st' = rl_b st.
Proof.
  intros st split endv h Hs He HI Hh Hv.
  pose proof HI as (P1 & P2 & _).
  unfold rl_put. unfold vpos in Hv.
  destruct (rl_curr st =? split)%Z eqn:Ec.
  - (* jump to the distance part *)
    replace (endv <=? 286)%Z with false by lia.
    destruct (rl_count_inc st true (hc_len h)) as [lc dc] eqn:Ecnt.
    eexists. split; [reflexivity|].
    split.
    + pose proof (put_core st split 286%Z true h Hs HI Hh) as HP.
      rewrite Ecnt in HP. cbn [fst snd] in HP. apply HP.
      * intros Hc; discriminate.
      * intros _. lia.
      * lia.
    + split; [|reflexivity]. unfold vpos. cbn [rl_inDist rl_curr].
      destruct (rl_inDist st); lia.
  - destruct (rl_inDist st) eqn:Ed.
    + specialize (P2 eq_refl).
      replace (endv <=? rl_curr st)%Z with false by lia.
      destruct (rl_count_inc st true (hc_len h)) as [lc dc] eqn:Ecnt.
      eexists. split; [reflexivity|].
      split.
      * pose proof (put_core st split (rl_curr st) true h Hs HI Hh) as HP.
        rewrite Ecnt in HP. cbn [fst snd] in HP. apply HP.
        -- intros Hc; discriminate.
        -- intros _. lia.
        -- lia.
      * split; [|reflexivity]. unfold vpos. cbn [rl_inDist rl_curr]. rewrite Ed. reflexivity.
    + specialize (P1 eq_refl).
      replace (endv <=? rl_curr st)%Z with false by lia.
      destruct (rl_count_inc st false (hc_len h)) as [lc dc] eqn:Ecnt.
      eexists. split; [reflexivity|].
      split.
      * pose proof (put_core st split (rl_curr st) false h Hs HI Hh) as HP.
        rewrite Ecnt in HP. cbn [fst snd] in HP. apply HP.
        -- intros _. lia.
        -- intros Hc; discriminate.
        -- lia.
      * split; [|reflexivity]. unfold vpos. cbn [rl_inDist rl_curr]. rewrite Ed. lia.
Qed.

Lemma rl_rep_spec : forall n st split endv h,
  (257 <= split <= 286)%Z -> (287 <= endv <= 316)%Z ->
  RLI split st -> ent_ok h -> (vpos split st + Z.of_nat n <= endv)%Z ->
  exists st', rl_rep n st split endv h = Some st' /\ RLI split st' /\
              vpos split st' = (vpos split st + Z.of_nat n)%Z /\ rl_b st' = rl_b st.
Proof.
  induction n as [|k IH]; intros st split endv h Hs He HI Hh Hv.
  - exists st. split; [reflexivity|]. split; [exact HI|]. split; [lia|reflexivity].
  - cbn [rl_rep].
    destruct (rl_put_spec st split endv h Hs He HI Hh ltac:(lia)) as (st1 & R1 & R2 & R3 & R4).
    rewrite R1.
    destruct (IH st1 split endv h Hs He R2 Hh ltac:(lia)) as (st2 & S1 & S2 & S3 & S4).
    exists st2. split; [exact S1|]. split; [exact S2|]. split; [lia|congruence].
Qed.

(* ---------------------------------------------------------------- clc_decode *)
Lemma clc_decode_spec : forall clcS clcL b,
  all_entries clc_entry_ok clcS ->
  exists sym k, clc_decode clcS clcL b = Some (sym, br_drop b k) /\ k <= 15.
Proof.
  intros clcS clcL b H. unfold clc_decode. cbv zeta. unfold smallFlagBit.
  destruct (H (N.land (r_bits b) 1023)) as [Hlt Hfl].
  rewrite Hfl. change (0 =? 0) with true. cbv iota.
  eexists. eexists. split; [reflexivity|].
  assert (Hk : N.shiftr (aget clcS (N.land (r_bits b) 1023)) 11 < 2 ^ 4).
  { apply shiftr_lt. change (2 ^ (11 + 4)) with 32768. exact Hlt. }
  change (2 ^ 4) with 16 in Hk. lia.
Qed.

(* ---------------------------------------------------------------- the loop *)
Definition RL_OUT (split : Z) (st st' : rlst) (e : ierr) : Prop :=
  (e = ENone \/ e = EEndInput \/ e = EInvalidBlock) /\
  RLI split st' /\ br_inv (rl_b st') /\
  (e = EEndInput -> r_inlen (rl_b st') = 0) /\
  (avail (rl_b st') <= avail (rl_b st))%Z /\ r_inlen (rl_b st') <= r_inlen (rl_b st) /\
  (-22 <= r_len (rl_b st'))%Z.

Lemma RL_OUT_trans : forall split st st1 st' e,
  RL_OUT split st1 st' e ->
  (avail (rl_b st1) <= avail (rl_b st))%Z -> r_inlen (rl_b st1) <= r_inlen (rl_b st) ->
  RL_OUT split st st' e.
Proof.
  intros split st st1 st' e (A1 & A2 & A3 & A4 & A5 & A6 & A7) H1 H2.
  unfold RL_OUT. split; [exact A1|]. split; [exact A2|]. split; [exact A3|]. split; [exact A4|].
  split; [lia|]. split; [lia|exact A7].
Qed.

(* a state returned as it is (only the bit reader changed) *)
Lemma RL_OUT_stop : forall split st b e,
  RLI split st -> br_inv b ->
  (e = ENone \/ e = EEndInput \/ e = EInvalidBlock) ->
  (e = EEndInput -> (r_len b < 0)%Z) ->
  (avail b <= avail (rl_b st))%Z -> r_inlen b <= r_inlen (rl_b st) -> (-22 <= r_len b)%Z ->
  RL_OUT split st (rl_set_b st b) e.
Proof.
  intros split st b e HI Hb He Hend Ha Hn Hl. unfold RL_OUT. cbn [rl_set_b rl_b].
  split; [exact He|]. split; [apply RLI_set_b; exact HI|]. split; [exact Hb|].
  split; [intros Hc; apply Hb, Hend, Hc|]. split; [exact Ha|]. split; [exact Hn|exact Hl].
Qed.

Lemma vpos_lt : forall split endv st,
  (257 <= split <= 286)%Z -> (287 <= endv <= 316)%Z ->
  RLI split st -> (rl_curr st < endv)%Z -> (vpos split st < endv)%Z.
Proof.
  intros split endv st Hs He (P1 & P2 & _) Hc. unfold vpos.
  destruct (rl_inDist st); [exact Hc|]. specialize (P1 eq_refl). lia.
Qed.

Lemma rl_loop_spec : forall fuel clcS clcL split endv st st' e,
  (257 <= split <= 286)%Z -> (287 <= endv <= 316)%Z ->
  all_entries clc_entry_ok clcS ->
  RLI split st -> br_inv (rl_b st) -> (-7 <= r_len (rl_b st))%Z ->
  (Z.max 0 (endv - vpos split st) < Z.of_nat fuel)%Z ->
  rl_loop fuel clcS clcL split endv st = (st', e) ->
  RL_OUT split st st' e.
Proof.
  induction fuel as [|f IH]; intros clcS clcL split endv st st' e Hs He Hclc HI Hb Hl Hm Hrun.
  - lia.
  - cbn [rl_loop] in Hrun.
    destruct (rl_curr st <? endv)%Z eqn:Ecur.
    + pose proof (vpos_lt split endv st Hs He HI ltac:(lia)) as Hvp.
      destruct (load_le15_spec (rl_b st) Hb) as (b1 & L1 & L2 & L3 & L4 & L5).
      rewrite L1 in Hrun.
      destruct (clc_decode_spec clcS clcL b1 Hclc) as (sym & k & D1 & D2).
      rewrite D1 in Hrun.
      destruct (br_drop_ok 16 b1 k L2 ltac:(lia)) as (K1 & K2 & K3 & K4 & K5).
      remember (br_drop b1 k) as b2 eqn:Eb2.
      cbn [rl_set_b rl_curr rl_h rl_prev rl_inDist rl_lc rl_dc rl_ex] in Hrun.
      assert (K1i : br_inv b2) by (apply K1).
      assert (Ha2 : (avail b2 <= avail (rl_b st))%Z) by lia.
      assert (Hn2 : r_inlen b2 <= r_inlen (rl_b st)) by lia.
      destruct (r_len b2 <? 0)%Z eqn:Eneg.
      { (* the input ran out *)
        destruct ((256 <? rl_curr st)%Z && (hc_len (aget (rl_h st) 256) =? 0));
          inversion Hrun; subst st' e; apply RL_OUT_stop; auto; try lia; intros Hc; discriminate. }
      destruct (sym <? 16) eqn:E16.
      { (* a code length 0..15 *)
        assert (HI2 : RLI split (rl_set_b st b2)) by (apply RLI_set_b; exact HI).
        destruct (rl_put_spec (rl_set_b st b2) split endv (hc_set 0 sym) Hs He HI2
                    (ent_ok_set sym ltac:(lia)) Hvp) as (st1 & R1 & R2 & R3 & R4).
        rewrite R1 in Hrun. cbn [rl_set_b rl_b] in R4.
        apply (RL_OUT_trans split st st1); [|rewrite R4; exact Ha2|rewrite R4; exact Hn2].
        apply (IH clcS clcL split endv); auto.
        - rewrite R4; exact K1i.
        - rewrite R4; lia.
        - rewrite R3. change (vpos split (rl_set_b st b2)) with (vpos split st). lia. }
      destruct (load_raw_spec b2 K1i) as (b3 & M1 & M2 & M3 & M4 & M5).
      destruct (sym =? 16) eqn:Es16.
      { (* repeat the previous length 3..6 times *)
        rewrite M1 in Hrun. unfold next_bits in Hrun.
        destruct (br_drop_ok 57 b3 2 M2 ltac:(lia)) as (N1 & N2 & N3 & N4 & N5).
        pose proof (land_ones_lt (r_bits b3) 2) as Hret. change (2 ^ 2) with 4 in Hret.
        remember (N.land (r_bits b3) (N.ones 2)) as ret eqn:Eret.
        remember (br_drop b3 2) as b4 eqn:Eb4.
        assert (N1i : br_inv b4) by (apply N1).
        cbn [rl_set_b rl_curr rl_h rl_prev rl_inDist rl_lc rl_dc rl_ex] in Hrun.
        change (rl_set_b (rl_set_b st b2) b4) with (rl_set_b st b4) in Hrun.
        assert (Ha4 : (avail b4 <= avail (rl_b st))%Z) by lia.
        assert (Hn4 : r_inlen b4 <= r_inlen (rl_b st)) by lia.
        match type of Hrun with (if ?c then _ else _) = _ => destruct c eqn:Echk end.
        { inversion Hrun; subst st' e. apply RL_OUT_stop; auto; try lia. intros Hc; discriminate. }
        assert (HI4 : RLI split (rl_set_b st b4)) by (apply RLI_set_b; exact HI).
        assert (Hrep : ent_ok (aget (rl_h st) (Z.to_N (rl_prev st)))) by (apply HI).
        assert (Hv4 : (vpos split (rl_set_b st b4) + Z.of_nat (Z.to_nat (Z.of_N (3 + ret))) <= endv)%Z).
        { change (vpos split (rl_set_b st b4)) with (vpos split st).
          pose proof HI as (P1 & P2 & _). unfold vpos in *.
          destruct (rl_inDist st); [specialize (P2 eq_refl)|specialize (P1 eq_refl)];
          destruct ((rl_curr st <=? split)%Z && (split <? rl_curr st + Z.of_N (3 + ret))%Z) eqn:Ex; lia. }
        destruct (rl_rep_spec _ (rl_set_b st b4) split endv _ Hs He HI4 Hrep Hv4)
          as (st1 & R1 & R2 & R3 & R4).
        rewrite R1 in Hrun. cbn [rl_set_b rl_b] in R4.
        apply (RL_OUT_trans split st st1); [|rewrite R4; exact Ha4|rewrite R4; exact Hn4].
        apply (IH clcS clcL split endv); auto.
        - rewrite R4; exact N1i.
        - rewrite R4; lia.
        - rewrite R3. change (vpos split (rl_set_b st b4)) with (vpos split st). lia. }
      destruct ((sym =? 17) || (sym =? 18)) eqn:Es17.
      { (* a run of zeros *)
        rewrite M1 in Hrun. unfold next_bits in Hrun.
        set (nb := if sym =? 17 then 3 else 7) in *.
        assert (Hnb : nb = 3 \/ nb = 7) by (unfold nb; destruct (sym =? 17); auto).
        assert (Hnx : (if sym =? 17 then (N.land (r_bits b3) (N.ones 3), br_drop b3 3)
                       else (N.land (r_bits b3) (N.ones 7), br_drop b3 7)) =
                      (N.land (r_bits b3) (N.ones nb), br_drop b3 nb)).
        { unfold nb. destruct (sym =? 17); reflexivity. }
        rewrite Hnx in Hrun. clear Hnx.
        destruct (br_drop_ok 57 b3 nb M2 ltac:(lia)) as (N1 & N2 & N3 & N4 & N5).
        remember (N.land (r_bits b3) (N.ones nb)) as ret eqn:Eret.
        remember (br_drop b3 nb) as b4 eqn:Eb4.
        assert (N1i : br_inv b4) by (apply N1).
        assert (Ha4 : (avail b4 <= avail (rl_b st))%Z) by lia.
        assert (Hn4 : r_inlen b4 <= r_inlen (rl_b st)) by lia.
        remember (Z.of_N ((if sym =? 17 then 3 else 11) + ret)) as i eqn:Ei.
        assert (Hi : (3 <= i)%Z) by (rewrite Ei; destruct (sym =? 17); lia).
        pose proof HI as (P1 & P2 & P3 & P4 & P5 & P6 & P7 & P8).
        destruct (if negb (rl_inDist st) && (split <? rl_curr st + i)%Z then _ else _)
          as [[curr' prev'] d'] eqn:Enew.
        match type of Hrun with rl_loop _ _ _ _ _ ?s = _ => set (st1 := s) in * end.
        assert (Hnew : (rl_curr st <= curr')%Z /\ (vpos split st + 3 <= (if d' then curr' else curr' + (286 - split)))%Z /\
                       (d' = false -> (0 <= curr' <= split)%Z) /\ (d' = true -> (286 <= curr')%Z)).
        { unfold vpos. destruct (rl_inDist st) eqn:Ed.
          - specialize (P2 eq_refl). cbn [negb andb] in Enew. apply pair_equal_spec in Enew; destruct Enew as [Enew Ed']; apply pair_equal_spec in Enew;
              destruct Enew as [Ec' Ep']; subst curr' prev' d'.
            split; [lia|]. split; [lia|]. split; [intros Hc; discriminate|intros _; lia].
          - specialize (P1 eq_refl). cbn [negb andb] in Enew.
            destruct (split <? rl_curr st + i)%Z eqn:Ex; apply pair_equal_spec in Enew; destruct Enew as [Enew Ed']; apply pair_equal_spec in Enew;
              destruct Enew as [Ec' Ep']; subst curr' prev' d'.
            + split; [lia|]. split; [lia|]. split; [intros Hc; discriminate|intros _; lia].
            + split; [lia|]. split; [lia|]. split; [intros _; lia|intros Hc; discriminate]. }
        destruct Hnew as (Hw1 & Hw2 & Hw3 & Hw4).
        assert (HI1 : RLI split st1).
        { unfold RLI, st1. cbn [rl_inDist rl_curr rl_h rl_lc rl_dc rl_ex].
          split; [exact Hw3|]. split; [exact Hw4|]. split; [exact P3|].
          split; [intros p Hp; apply P4; lia|]. split; [exact P5|]. split; [exact P6|].
          split; [exact P7|exact P8]. }
        apply (RL_OUT_trans split st st1); [|exact Ha4|exact Hn4].
        apply (IH clcS clcL split endv); auto.
        - unfold st1; cbn [rl_b]. lia.
        - unfold vpos at 1. unfold st1 at 1 2 3. cbn [rl_inDist rl_curr]. lia. }
      (* symbol > 18 *)
      inversion Hrun; subst st' e. apply RL_OUT_stop; auto; try lia. intros Hc; discriminate.
    + (* end of the loop *)
      assert (Hstop : forall e0, (e0 = ENone \/ e0 = EEndInput \/ e0 = EInvalidBlock) ->
                                 e0 <> EEndInput -> RL_OUT split st st e0).
      { intros e0 H1 H2. unfold RL_OUT. split; [exact H1|]. split; [exact HI|]. split; [exact Hb|].
        split; [intros Hc; contradiction|]. split; [lia|]. split; [lia|lia]. }
      destruct ((endv <? rl_curr st)%Z || (hc_len (aget (rl_h st) 256) =? 0));
        inversion Hrun; subst st' e; apply Hstop; auto; discriminate.
Qed.

(* ---------------------------------------------------------------- the initial state *)
Lemma count_len_empty : forall base n l, l <> 0 -> count_len aempty base n l = 0.
Proof.
  intros base n l Hl. induction n as [|k IH]; cbn [count_len]; [reflexivity|].
  rewrite IH, aget_empty, hc_len_0. replace (0 =? l) with false by lia. reflexivity.
Qed.

Lemma ex_dec_empty : forall n L, ex_dec aempty n L = 0.
Proof.
  intros n L. induction n as [|k IH]; cbn [ex_dec]; [reflexivity|]. cbv zeta.
  rewrite IH, aget_empty, hc_len_0.
  destruct (N.eqb_spec 0 L) as [E|E].
  - subst L. reflexivity.
  - reflexivity.
Qed.

Lemma ex_inc_empty : forall n L, ex_inc aempty n L = 0.
Proof.
  intros n L. induction n as [|k IH]; cbn [ex_inc]; [reflexivity|]. cbv zeta.
  rewrite IH, aget_empty, hc_len_0. reflexivity.
Qed.

Lemma RLI_init : forall split b,
  (257 <= split <= 286)%Z ->
  RLI split (mkRL b aempty aempty aempty aempty 0%Z (-1)%Z false).
Proof.
  intros split b Hs. unfold RLI. cbn [rl_inDist rl_curr rl_h rl_lc rl_dc rl_ex].
  split; [intros _; lia|]. split; [intros Hc; discriminate|].
  split; [intros i; rewrite aget_empty; exact ent_ok_0|].
  split; [intros p _; apply aget_empty|].
  split; [intros l Hl; rewrite aget_empty, count_len_empty by lia; reflexivity|].
  split; [intros l Hl; rewrite aget_empty, count_len_empty by lia; reflexivity|].
  split; [intros L; rewrite aget_empty; lia|].
  intros L _. rewrite aget_empty, ex_dec_empty, ex_inc_empty. reflexivity.
Qed.

Lemma RLI_post : forall split st,
  RLI split st -> rl_post (rl_h st) (rl_lc st) (rl_dc st) (rl_ex st).
Proof.
  intros split st (P1 & P2 & P3 & P4 & P5 & P6 & P7 & P8).
  assert (Hh : huff_ok (rl_h st)) by (intros i; apply P3).
  split.
  - split; [exact Hh|]. split; [exact P5|]. split; [exact P7|exact P8].
  - split; [exact Hh|]. split; [exact P6|].
    pose proof (count_len_sum15 (rl_h st) 286 30) as Hsum. change (N.of_nat 30) with 30 in Hsum.
    unfold sum15.
    rewrite (P6 1), (P6 2), (P6 3), (P6 4), (P6 5), (P6 6), (P6 7), (P6 8), (P6 9), (P6 10),
            (P6 11), (P6 12), (P6 13), (P6 14), (P6 15) by lia.
    exact Hsum.
Qed.

(* (snapshot truncated here: the final theorem readLitDistLens_spec is not needed) *)
