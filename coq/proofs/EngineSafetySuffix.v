(* EngineSafetySuffix.v -- the decoder functions of RModel/Engine.v never invent input: the remaining
   input list of the bit reader after a call is a suffix (skipn) of the one before.  Purely
   structural, no invariants needed. *)
From Verif Require Import Engine EngineTables.
From Verif Require Import Base EngineSafetyBase EngineSafetyBits EngineSafetyInv.
From Verif Require Import EngineSafetyRL.
From Coq Require Import List NArith ZArith Bool Lia ZifyBool ZifyNat ZifyN.
Import ListNotations.
Open Scope N_scope.

Definition in_suffix (l l' : list N) : Prop := exists k : nat, l' = skipn k l.

Lemma in_suffix_refl : forall l, in_suffix l l.
Proof. intros l. exists 0%nat. reflexivity. Qed.

Lemma skipn_skipn_N : forall k1 k2 (a : list N), skipn k2 (skipn k1 a) = skipn (k1 + k2) a.
Proof.
  induction k1 as [|k1 IH]; intros k2 a.
  - reflexivity.
  - destruct a as [|x r].
    + cbn [skipn Nat.add]. destruct k2; reflexivity.
    + cbn [skipn Nat.add]. apply IH.
Qed.

Lemma in_suffix_trans : forall a b c, in_suffix a b -> in_suffix b c -> in_suffix a c.
Proof.
  intros a b c [k1 H1] [k2 H2]. exists (k1 + k2)%nat.
  rewrite H2, H1. apply skipn_skipn_N.
Qed.

Lemma in_suffix_skipn : forall k l, in_suffix l (skipn k l).
Proof. intros k l. exists k. reflexivity. Qed.

Lemma in_suffix_tail : forall x l, in_suffix (x :: l) l.
Proof. intros x l. exists 1%nat. reflexivity. Qed.

Lemma Forall_skipn_N : forall (P : N -> Prop) k l, Forall P l -> Forall P (skipn k l).
Proof.
  intros P k. induction k as [|k IH]; intros l H.
  - exact H.
  - destruct l as [|x r].
    + exact H.
    + cbn [skipn]. apply IH. inversion H; assumption.
Qed.

Lemma in_suffix_Forall : forall (P : N -> Prop) l l', in_suffix l l' -> Forall P l -> Forall P l'.
Proof. intros P l l' [k Hk] H. rewrite Hk. apply Forall_skipn_N. exact H. Qed.

(* ---------------------------------------------------------------- bit buffer *)
Lemma load_bytes_suffix : forall n b, in_suffix (r_in b) (r_in (load_bytes n b)).
Proof.
  induction n as [|n IH]; intros b.
  - cbn [load_bytes]. apply in_suffix_refl.
  - cbn [load_bytes]. destruct (r_in b) as [|x rest] eqn:E.
    + rewrite E. apply in_suffix_refl.
    + eapply in_suffix_trans; [apply in_suffix_tail|].
      match goal with |- in_suffix _ (r_in (load_bytes n ?b1)) =>
        pose proof (IH b1) as H end.
      cbn [r_in] in H. exact H.
Qed.

Lemma some_inj : forall (A : Type) (x y : A), Some x = Some y -> x = y.
Proof. intros A x y H. injection H as H. exact H. Qed.

Lemma load_raw_suffix : forall b b', load_raw b = Some b' -> in_suffix (r_in b) (r_in b').
Proof.
  intros b b' H. unfold load_raw in H. cbv zeta in H.
  destruct (r_len b <? 0)%Z.
  - destruct (r_inlen b =? 0); [|discriminate].
    apply some_inj in H. subst b'. apply in_suffix_refl.
  - destruct (64 <? r_len b)%Z; [discriminate|].
    destruct (8 <=? r_inlen b).
    + remember (r_in b) as l eqn:El.
      destruct l as [|a0 [|a1 [|a2 [|a3 [|a4 [|a5 [|a6 [|a7 l]]]]]]]]; try discriminate.
      apply some_inj in H. subst b'. cbn [r_in]. apply in_suffix_skipn.
    + apply some_inj in H. subst b'. apply load_bytes_suffix.
Qed.

Lemma load_lt57_suffix : forall b b', load_lt57 b = Some b' -> in_suffix (r_in b) (r_in b').
Proof.
  intros b b' H. unfold load_lt57 in H. destruct (r_len b <? 57)%Z.
  - apply load_raw_suffix. exact H.
  - apply some_inj in H. subst b'. apply in_suffix_refl.
Qed.

Lemma load_le15_suffix : forall b b', load_le15 b = Some b' -> in_suffix (r_in b) (r_in b').
Proof.
  intros b b' H. unfold load_le15 in H. destruct (r_len b <=? 15)%Z.
  - apply load_raw_suffix. exact H.
  - apply some_inj in H. subst b'. apply in_suffix_refl.
Qed.

Lemma br_drop_in : forall b k, r_in (br_drop b k) = r_in b.
Proof. intros b k. reflexivity. Qed.

Lemma next_bits_in : forall b k, r_in (snd (next_bits b k)) = r_in b.
Proof. intros b k. reflexivity. Qed.

Lemma next_bits_in' : forall b k v b', next_bits b k = (v, b') -> r_in b' = r_in b.
Proof.
  intros b k v b' H. unfold next_bits in H. apply pair_equal_spec in H.
  destruct H as [_ H]. subst b'. reflexivity.
Qed.

Lemma clc_decode_in : forall cs cl b v b', clc_decode cs cl b = Some (v, b') -> r_in b' = r_in b.
Proof.
  intros cs cl b v b' H. unfold clc_decode in H. cbv zeta in H.
  destruct (N.land (aget cs (N.land (r_bits b) 1023)) smallFlagBit =? 0).
  - apply some_inj in H. apply pair_equal_spec in H. destruct H as [_ H]. subst b'. reflexivity.
  - match type of H with (if ?c then _ else _) = _ => destruct c end; [discriminate|].
    apply some_inj in H. apply pair_equal_spec in H. destruct H as [_ H]. subst b'. reflexivity.
Qed.

Lemma dist_decode_in : forall t b v b', dist_decode t b = Some (v, b') -> r_in b' = r_in b.
Proof.
  intros t b v b' H. unfold dist_decode in H. cbv zeta in H.
  destruct (N.land (aget (distShort t) (N.land (r_bits b) 1023)) smallFlagBit =? 0).
  - match type of H with (if ?c then _ else _) = _ => destruct c end;
      apply some_inj in H; apply pair_equal_spec in H; destruct H as [_ H]; subst b'; reflexivity.
  - match type of H with (if ?c then _ else _) = _ => destruct c end; [discriminate|].
    match type of H with (if ?c then _ else _) = _ => destruct c end;
      apply some_inj in H; apply pair_equal_spec in H; destruct H as [_ H]; subst b'; reflexivity.
Qed.

Lemma litlen_decode_in : forall t b b' sc nl,
  litlen_decode t b = Some (b', sc, nl) -> r_in b' = r_in b.
Proof.
  intros t b b' sc nl H. unfold litlen_decode in H. cbv zeta in H.
  destruct (N.land (aget (litShort t) (N.land (r_bits b) 4095)) largeFlagBit =? 0).
  - apply some_inj in H. apply pair_equal_spec in H. destruct H as [H _].
    apply pair_equal_spec in H. destruct H as [H _]. subst b'. reflexivity.
  - match type of H with (if ?c then _ else _) = _ => destruct c end; [discriminate|].
    apply some_inj in H. apply pair_equal_spec in H. destruct H as [H _].
    apply pair_equal_spec in H. destruct H as [H _]. subst b'. reflexivity.
Qed.

Lemma copy_list_suffix : forall n l out pos, in_suffix l (snd (copy_list l n out pos)).
Proof.
  induction n as [|n IH]; intros l out pos.
  - destruct l as [|x r]; cbn [copy_list snd]; apply in_suffix_refl.
  - destruct l as [|x r]; cbn [copy_list].
    + cbn [snd]. apply in_suffix_refl.
    + eapply in_suffix_trans; [apply in_suffix_tail|]. apply IH.
Qed.

Lemma lit_drain_in : forall fuel b out w c len b' out' w' c' fl,
  lit_drain fuel b out w c len = Some (b', out', w', c', fl) -> r_in b' = r_in b.
Proof.
  induction fuel as [|f IH]; intros b out w c len b' out' w' c' fl H.
  - cbn [lit_drain] in H. discriminate.
  - cbn [lit_drain] in H. cbv zeta in H.
    destruct (r_len b =? 0)%Z.
    + apply some_inj in H. repeat (apply pair_equal_spec in H; destruct H as [H _]).
      subst b'. reflexivity.
    + destruct (c + 1 =? len).
      * apply some_inj in H. repeat (apply pair_equal_spec in H; destruct H as [H _]).
        subst b'. reflexivity.
      * apply IH in H. rewrite H. reflexivity.
Qed.

(* ---------------------------------------------------------------- tactics *)
Lemma in_suffix_eq : forall (b b' : bitrd), r_in b' = r_in b -> in_suffix (r_in b) (r_in b').
Proof. intros b b' H. rewrite H. apply in_suffix_refl. Qed.

(* destruct one match scrutinee of H *)
Ltac dm H :=
  match type of H with
  | context [match ?x with _ => _ end] =>
    lazymatch x with
    | context [match _ with _ => _ end] => fail
    | _ => destruct x eqn:?; cbv beta iota in H;
           lazymatch type of H with
           | None = Some _ => discriminate H
           | Some _ = None => discriminate H
           | _ => idtac
           end
    end
  end.

(* H : (a, b, ..) = (a', b', ..)  ~>  H : a = a' *)
Ltac fin H := repeat (apply pair_equal_spec in H; destruct H as [H _]).

(* chain the in_suffix facts of the context *)
Ltac sfx :=
  solve [ assumption | apply in_suffix_refl
        | match goal with
          | Hs : in_suffix ?a ?b |- in_suffix ?a ?c => apply (in_suffix_trans a b c Hs); sfx
          end ].

Ltac gather0 :=
  repeat match goal with
  | E : load_raw _ = Some _ |- _ => apply load_raw_suffix in E
  | E : load_lt57 _ = Some _ |- _ => apply load_lt57_suffix in E
  | E : load_le15 _ = Some _ |- _ => apply load_le15_suffix in E
  | E : next_bits _ _ = (_, _) |- _ => apply next_bits_in' in E; apply in_suffix_eq in E
  | E : (if ?c then next_bits _ _ else next_bits _ _) = (_, _) |- _ =>
      destruct c; apply next_bits_in' in E; apply in_suffix_eq in E
  | E : clc_decode _ _ _ = Some (_, _) |- _ => apply clc_decode_in in E; apply in_suffix_eq in E
  | E : dist_decode _ _ = Some (_, _) |- _ => apply dist_decode_in in E; apply in_suffix_eq in E
  | E : litlen_decode _ _ = Some (_, _, _) |- _ =>
      apply litlen_decode_in in E; apply in_suffix_eq in E
  | E : lit_drain _ _ _ _ _ _ = Some (_, _, _, _, _) |- _ =>
      apply lit_drain_in in E; apply in_suffix_eq in E
  | E : copy_list ?l ?n ?o ?p = (_, _) |- _ =>
      let Hc := fresh "Hc" in
      pose proof (copy_list_suffix n l o p) as Hc; rewrite E in Hc; cbn [snd] in Hc; clear E
  end.

Ltac norm1 H :=
  cbn [rd set_rd set_inputNil set_ov set_tb set_phase set_bfinal set_litBlockLength set_header
       set_dyn set_roffset set_wov set_cov end_of_block setupStaticHeader
       r_in br_drop br_set_bits br_set_len br_set_in rl_b rl_set_b] in H.
Ltac norm :=
  cbn [rd set_rd set_inputNil set_ov set_tb set_phase set_bfinal set_litBlockLength set_header
       set_dyn set_roffset set_wov set_cov end_of_block setupStaticHeader
       r_in br_drop br_set_bits br_set_len br_set_in rl_b rl_set_b];
  repeat match goal with Hs : in_suffix _ _ |- _ => progress norm1 Hs end.

(* ---------------------------------------------------------------- header *)
Lemma loadBits_suffix : forall s s', loadBits s = Some s' -> in_suffix (r_in (rd s)) (r_in (rd s')).
Proof.
  intros s s' H. unfold loadBits in H. dm H. apply some_inj in H. subst s'.
  gather0. norm. sfx.
Qed.

Lemma readBits_suffix : forall s k v s',
  readBits s k = Some (v, s') -> in_suffix (r_in (rd s)) (r_in (rd s')).
Proof.
  intros s k v s' H. unfold readBits in H. destruct (loadBits s) as [s1|] eqn:E; [|discriminate].
  apply loadBits_suffix in E. dm H. apply some_inj in H.
  apply pair_equal_spec in H. destruct H as [_ H]. subst s'.
  gather0. norm. sfx.
Qed.

Lemma prepareForLitBlock_suffix : forall s s' e,
  prepareForLitBlock s = (s', e) -> in_suffix (r_in (rd s)) (r_in (rd s')).
Proof.
  intros s s' e H. unfold prepareForLitBlock in H. cbv zeta in H.
  destruct (loadBits s) as [s1|] eqn:E.
  - apply loadBits_suffix in E. repeat dm H; fin H; subst s'; norm; sfx.
  - fin H. subst s'. apply in_suffix_refl.
Qed.

Lemma clc_loop_in : forall lo hi st,
  r_in (fst (fst (forN lo hi clc_read3 st))) = r_in (fst (fst st)).
Proof.
  intros lo hi st.
  apply (forN_inv _ (fun x => r_in (fst (fst x)) = r_in (fst (fst st)))); [reflexivity|].
  intros j x _ Hx. destruct x as [[b h] c]. cbn [fst] in Hx.
  unfold clc_read3, next_bits. cbn [fst r_in br_drop]. exact Hx.
Qed.

Lemma codeLenCodes_suffix : forall s hclen s' e,
  codeLenCodes s hclen = (s', e) -> in_suffix (r_in (rd s)) (r_in (rd s')).
Proof.
  intros s hclen s' e H. unfold codeLenCodes in H.
  pose proof (clc_loop_in 0 4 (rd s, aempty, aempty)) as L1.
  destruct (forN 0 4 clc_read3 (rd s, aempty, aempty)) as [[b1 h1] c1].
  cbn [fst] in L1. apply in_suffix_eq in L1.
  destruct (load_lt57 b1) as [b2|] eqn:E2.
  - pose proof (clc_loop_in 4 (hclen + 4) (b2, h1, c1)) as L3.
    destruct (forN 4 (hclen + 4) clc_read3 (b2, h1, c1)) as [[b3 h3] c3].
    cbn [fst] in L3. apply in_suffix_eq in L3. cbv zeta in H.
    gather0. repeat dm H; fin H; subst s'; norm; sfx.
  - fin H. subst s'. norm. sfx.
Qed.

Lemma rl_put_b : forall st split endv h st', rl_put st split endv h = Some st' -> rl_b st' = rl_b st.
Proof.
  intros st split endv h st' H. unfold rl_put in H. cbv zeta in H.
  repeat dm H; apply some_inj in H; subst st'; reflexivity.
Qed.

Lemma rl_rep_b : forall n st split endv h st',
  rl_rep n st split endv h = Some st' -> rl_b st' = rl_b st.
Proof.
  induction n as [|n IH]; intros st split endv h st' H.
  - cbn [rl_rep] in H. apply some_inj in H. subst st'. reflexivity.
  - cbn [rl_rep] in H. destruct (rl_put st split endv h) as [st1|] eqn:E; [|discriminate].
    apply IH in H. apply rl_put_b in E. rewrite H, E. reflexivity.
Qed.

Lemma in_suffix_eqb : forall (b b' : bitrd), b' = b -> in_suffix (r_in b) (r_in b').
Proof. intros b b' H. rewrite H. apply in_suffix_refl. Qed.

Ltac gather_rl :=
  repeat match goal with
  | E : rl_put _ _ _ _ = Some _ |- _ => apply rl_put_b in E; apply in_suffix_eqb in E
  | E : rl_rep _ _ _ _ _ = Some _ |- _ => apply rl_rep_b in E; apply in_suffix_eqb in E
  end.

Lemma rl_loop_suffix : forall fuel cs cl split endv st st' e,
  rl_loop fuel cs cl split endv st = (st', e) -> in_suffix (r_in (rl_b st)) (r_in (rl_b st')).
Proof.
  induction fuel as [|f IH]; intros cs cl split endv st st' e H.
  - cbn [rl_loop] in H. fin H. subst st'. apply in_suffix_refl.
  - cbn [rl_loop] in H.
    repeat dm H;
      (first [ apply IH in H | fin H; subst st' ]); gather0; gather_rl; norm; sfx.
Qed.

Lemma rld_body_suffix : forall fuel s hdist hlit s' e,
  rld_body fuel s hdist hlit = (s', e) -> in_suffix (r_in (rd s)) (r_in (rd s')).
Proof.
  intros fuel s hdist hlit s' e H. unfold rld_body in H. cbv zeta in H.
  match type of H with context [rl_loop fuel ?a ?b ?c ?d ?st0] =>
    destruct (rl_loop fuel a b c d st0) as [st err] eqn:E end.
  apply rl_loop_suffix in E. fin H. subst s'. norm. sfx.
Qed.

Lemma readLitDistLens_suffix : forall s hdist hlit s' e,
  readLitDistLens s hdist hlit = (s', e) -> in_suffix (r_in (rd s)) (r_in (rd s')).
Proof.
  intros s hdist hlit s' e H. rewrite rld_body_eq in H.
  apply (rld_body_suffix small_fuel s hdist hlit s' e H).
Qed.

Ltac gather_hdr :=
  repeat match goal with
  | E : loadBits _ = Some _ |- _ => apply loadBits_suffix in E
  | E : readBits _ _ = Some (_, _) |- _ => apply readBits_suffix in E
  | E : prepareForLitBlock _ = (_, _) |- _ => apply prepareForLitBlock_suffix in E
  | E : codeLenCodes _ _ = (_, _) |- _ => apply codeLenCodes_suffix in E
  | E : readLitDistLens _ _ _ = (_, _) |- _ => apply readLitDistLens_suffix in E
  end.

Lemma setupDynamicHeader_suffix : forall s s' e,
  setupDynamicHeader s = (s', e) -> in_suffix (r_in (rd s)) (r_in (rd s')).
Proof.
  intros s s' e H. unfold setupDynamicHeader in H. cbv zeta in H.
  (* multisym: keep its case analysis out of the way *)
  set (ms := if negb (bfinal (set_dyn s _) =? 0) && _ then singleSymFlag else _) in H.
  clearbody ms.
  repeat dm H; fin H; subst s'; gather0; gather_hdr; norm; sfx.
Qed.

Theorem tryDecodeHeader_suffix : forall s s' e,
  tryDecodeHeader s = (s', e) -> in_suffix (r_in (rd s)) (r_in (rd s')).
Proof.
  intros s s' e H. unfold tryDecodeHeader in H. cbv zeta in H.
  destruct (readBits s 1) as [[bf s1]|] eqn:E1.
  - destruct (readBits (set_bfinal s1 bf) 2) as [[bt s2]|] eqn:E2.
    + gather_hdr. norm.
      destruct (r_len (rd s2) <? 0)%Z; [fin H; subst s'; sfx|].
      destruct (bt =? 0); [apply prepareForLitBlock_suffix in H; sfx|].
      destruct (bt =? 1); [fin H; subst s'; norm; sfx|].
      destruct (bt =? 2); [apply setupDynamicHeader_suffix in H; sfx|].
      fin H. subst s'. sfx.
    + fin H. subst s'. gather_hdr. norm. sfx.
  - fin H. subst s'. apply in_suffix_refl.
Qed.

Theorem decodeLiteralBlock_suffix : forall s out w s' out' w' e,
  decodeLiteralBlock s out w = (s', out', w', e) -> in_suffix (r_in (rd s)) (r_in (rd s')).
Proof.
  intros s out w s' out' w' e H. unfold decodeLiteralBlock in H. cbv zeta in H.
  repeat dm H; fin H; subst s'; gather0; norm; sfx.
Qed.

(* ---------------------------------------------------------------- decodeHuffman *)
Definition hres_b (r : hres) : bitrd :=
  match r with HCont _ b _ _ => b | HFin _ b _ _ _ => b end.

(* both the current reader and the roll-back reader bTemp are suffixes of the initial input l0 *)
Lemma huff_inner_suffix : forall fuel s b out w sc nl bT wT l0 r,
  huff_inner fuel s b out w sc nl bT wT = r ->
  in_suffix l0 (r_in b) -> in_suffix l0 (r_in bT) ->
  in_suffix l0 (r_in (hres_b r)).
Proof.
  induction fuel as [|f IH]; intros s b out w sc nl bT wT l0 r H Hb HT.
  - cbn [huff_inner] in H. subst r. cbn [hres_b]. exact Hb.
  - cbn [huff_inner] in H.
    repeat dm H;
      (first [ eapply IH; [exact H| |] | subst r; cbn [hres_b] ]); gather0; norm; sfx.
Qed.

(* H : (s, b, out, w, e) = (s', b', out', w', e')  ~>  H : b = b' *)
Ltac finb H :=
  do 3 (apply pair_equal_spec in H; destruct H as [H _]);
  apply pair_equal_spec in H; destruct H as [_ H].

Lemma huff_outer_suffix : forall fuel s b out w s' b' out' w' e,
  huff_outer fuel s b out w = (s', b', out', w', e) -> in_suffix (r_in b) (r_in b').
Proof.
  induction fuel as [|f IH]; intros s b out w s' b' out' w' e H.
  - cbn [huff_outer] in H. finb H.
    subst b'. apply in_suffix_refl.
  - cbn [huff_outer] in H.
    destruct (phase s =? phaseHeaderDecoded).
    2: { finb H. subst b'. apply in_suffix_refl. }
    destruct (load_lt57 b) as [b1|] eqn:E1.
    2: { finb H. subst b'. apply in_suffix_refl. }
    destruct (load_le15 b1) as [b2|] eqn:E2.
    2: { finb H. subst b'. gather0. sfx. }
    destruct (litlen_decode (tb s) b2) as [[[b3 sc] nl]|] eqn:E3.
    2: { finb H. subst b'. gather0. sfx. }
    gather0.
    destruct (sc =? 0).
    { finb H. subst b'. sfx. }
    destruct (r_len b3 <? 0)%Z.
    { finb H. subst b'. sfx. }
    destruct (huff_inner 8 s b3 out w sc nl b1 w) as [s4 b4 o4 w4|s4 b4 o4 w4 e4] eqn:E4.
    + apply (huff_inner_suffix _ _ _ _ _ _ _ _ _ (r_in b)) in E4; [|sfx|sfx].
      cbn [hres_b] in E4. apply IH in H. sfx.
    + apply (huff_inner_suffix _ _ _ _ _ _ _ _ _ (r_in b)) in E4; [|sfx|sfx].
      cbn [hres_b] in E4.
      finb H. subst b'. sfx.
Qed.

Lemma decodeHuffman_suffix_gen : forall F s out w s' out' w' e,
  (let '(s1, b, out1, w1, err) :=
     huff_outer F (set_cov s 0 0) (rd (set_cov s 0 0)) out w in
   if (r_len b <? 0)%Z then
     (set_rd s1 b, out1, w1, match err with EFuel => EFuel | _ => EPanic end)
   else
     (set_rd s1 (br_set_bits b (if Z.to_N (r_len b) <? N.size (r_bits b)
                                then N.land (r_bits b) (ones64 (Z.to_N (r_len b)))
                                else r_bits b)), out1, w1, err)) = (s', out', w', e) ->
  in_suffix (r_in (rd s)) (r_in (rd s')).
Proof.
  intros F s out w s' out' w' e H.
  destruct (huff_outer F (set_cov s 0 0) (rd (set_cov s 0 0)) out w)
    as [[[[s1 b1] o1] w1] e1] eqn:E.
  apply huff_outer_suffix in E. norm.
  destruct (r_len b1 <? 0)%Z; fin H; subst s'; norm; sfx.
Qed.

Theorem decodeHuffman_suffix : forall s out w s' out' w' e,
  decodeHuffman s out w = (s', out', w', e) -> in_suffix (r_in (rd s)) (r_in (rd s')).
Proof.
  intros s out w s' out' w' e.
  (* unfold in the goal, not in a hypothesis: big_fuel is never evaluated *)
  unfold decodeHuffman.
  intros H. exact (decodeHuffman_suffix_gen big_fuel s out w s' out' w' e H).
Qed.

Print Assumptions tryDecodeHeader_suffix.
Print Assumptions decodeLiteralBlock_suffix.
Print Assumptions decodeHuffman_suffix.
