(* EngineRefineLitLenLookup.v -- litlen_decode on a short table satisfying short_ok and a long
   table satisfying long_ok is a total exact decoder (lit_tab_ok_x). *)
From Coq Require Import List NArith ZArith Bool Lia ZifyBool ZifyNat ZifyN.
From Verif Require Import Bits Huffman Inflate.
From Verif Require Import Base EngineTables Engine EngineRefineSpec.
From Verif Require Import EngineRefineLitLenBase EngineRefineLitLenDefs EngineRefineLitLenCode.
Import ListNotations.
Open Scope N_scope.

(* ---------------------------------------------------------------- agreement on low bits *)
Definition agree (n : N) (v v' : N) : Prop := forall i, i < n -> N.testbit v i = N.testbit v' i.

Lemma land_ones_agree : forall n v v', N.land v (N.ones n) = N.land v' (N.ones n) <-> agree n v v'.
Proof.
  intros n v v'. split.
  - intros H i Hi. apply (f_equal (fun z => N.testbit z i)) in H.
    rewrite !N.land_spec, N.ones_spec_low, !andb_true_r in H by exact Hi. exact H.
  - intros H. apply N.bits_inj. intro i. rewrite !N.land_spec.
    destruct (N.lt_ge_cases i n) as [Hi|Hi].
    + rewrite (H i Hi). reflexivity.
    + rewrite N.ones_spec_high by exact Hi. rewrite !andb_false_r. reflexivity.
Qed.

Lemma land_ones_low : forall v n m, m <= n ->
  N.land (N.land v (N.ones n)) (N.ones m) = N.land v (N.ones m).
Proof.
  intros v n m H. apply N.bits_inj. intro i. rewrite !N.land_spec.
  destruct (N.lt_ge_cases i m) as [Hi|Hi].
  - rewrite !N.ones_spec_low by lia. rewrite !andb_true_r. reflexivity.
  - rewrite (N.ones_spec_high m) by exact Hi. rewrite !andb_false_r. reflexivity.
Qed.

Lemma agree_le : forall n m v v', agree n v v' -> m <= n -> agree m v v'.
Proof. intros n m v v' H Hm i Hi. apply H. lia. Qed.

Lemma agree_shiftr : forall n k v v', agree (k + n) v v' -> agree n (N.shiftr v k) (N.shiftr v' k).
Proof. intros n k v v' H i Hi. rewrite !N.shiftr_spec by lia. apply H. lia. Qed.

Lemma agree_land_ones : forall n v, agree n (N.land v (N.ones n)) v.
Proof.
  intros n v i Hi. rewrite N.land_spec, N.ones_spec_low by exact Hi. apply andb_true_r.
Qed.

Lemma agree_sym : forall n v v', agree n v v' -> agree n v' v.
Proof. intros n v v' H i Hi. symmetry. apply H. exact Hi. Qed.

Lemma xmatch_agree : forall n v v' len val, agree n v v' -> N.of_nat len <= n ->
  xmatch v len val -> xmatch v' len val.
Proof.
  intros n v v' len val H Hl Hm. unfold xmatch in *. rewrite <- Hm. symmetry.
  apply land_ones_agree. apply (agree_le n); assumption.
Qed.

(* a decode of v is a decode of every v' that agrees with v on the decoded bits *)
Lemma xseq_agree : forall xc syms v v',
  agree (N.of_nat (syms_bits syms)) v v' -> xseq xc v syms -> xseq xc v' syms.
Proof.
  intros xc. induction syms as [|[s len] r IH]; intros v v' Ha Hx.
  - exact I.
  - cbn [xseq] in *. destruct Hx as [(val & Hin & Hm) Hr].
    change (syms_bits ((s, len) :: r)) with (len + syms_bits r)%nat in Ha.
    split.
    + exists val. split; [exact Hin|]. apply (xmatch_agree _ v v' len val Ha); [lia|exact Hm].
    + apply (IH (N.shiftr v (N.of_nat len))); [|exact Hr].
      apply agree_shiftr. replace (N.of_nat len + N.of_nat (syms_bits r))
        with (N.of_nat (len + syms_bits r)) by lia. exact Ha.
Qed.

(* ---------------------------------------------------------------- decidability *)
Lemma long_dec : forall (xc : xlist) x,
  (exists s len val, In (s, len, val) xc /\ (12 < len)%nat /\ N.land val 4095 = x) \/
  (forall s len val, In (s, len, val) xc -> (12 < len)%nat -> N.land val 4095 <> x).
Proof.
  induction xc as [|[[s len] val] r IH]; intros x.
  - right. intros s len val [].
  - destruct (IH x) as [(s' & len' & val' & Hin & Hl & Hv)|Hn].
    + left. exists s', len', val'. split; [right; exact Hin|]. split; assumption.
    + destruct (Nat.lt_ge_cases 12 len) as [Hl|Hl].
      * destruct (N.eq_dec (N.land val 4095) x) as [He|He].
        -- left. exists s, len, val. split; [left; reflexivity|]. split; assumption.
        -- right. intros s' len' val' [Heq|Hin] Hl'.
           ++ injection Heq as <- <- <-. exact He.
           ++ apply (Hn s' len' val' Hin Hl').
      * right. intros s' len' val' [Heq|Hin] Hl'.
        -- injection Heq as <- <- <-. lia.
        -- apply (Hn s' len' val' Hin Hl').
Qed.

(* ---------------------------------------------------------------- entry fields *)
Ltac Zify.zify_post_hook ::= Z.div_mod_to_equations.

Lemma short_entry_fields : forall pack c t, pack < 2 ^ 25 -> c <= 3 ->
  let e := pack + 2 ^ 26 * c + 2 ^ 28 * t in
  N.land e largeFlagBit = 0 /\ N.shiftr e 28 = t /\ N.land (N.shiftr e 26) 3 = c /\
  N.land e largeShortSymMask = pack.
Proof.
  intros pack c t Hp Hc e.
  assert (E : e = N.lor pack (N.shiftl (c + 4 * t) 26)).
  { rewrite lor_shiftl_add by (apply (lt_pow2_mono pack 25 26); [exact Hp|lia]).
    unfold e. change (2 ^ 28) with (2 ^ 26 * 4). lia. }
  split; [|split; [|split]].
  - change largeFlagBit with (2 ^ 25). apply land_pow2_testbit.
    rewrite E, N.lor_spec. rewrite (testbit_small pack 25 25 Hp) by lia.
    rewrite N.shiftl_spec_low by lia. reflexivity.
  - rewrite N.shiftr_div_pow2. unfold e. change (2 ^ 25) with 33554432 in Hp.
    change (2 ^ 26) with 67108864. change (2 ^ 28) with 268435456. lia.
  - rewrite N.shiftr_div_pow2. change 3 with (N.ones 2). rewrite N.land_ones.
    unfold e. change (2 ^ 25) with 33554432 in Hp.
    change (2 ^ 26) with 67108864. change (2 ^ 28) with 268435456. change (2 ^ 2) with 4. lia.
  - change largeShortSymMask with (N.ones 25). rewrite N.land_ones.
    unfold e. change (2 ^ 25) with 33554432 in *.
    change (2 ^ 26) with 67108864. change (2 ^ 28) with 268435456. lia.
Qed.

Lemma long_ptr_fields : forall base maxLen, base < 2 ^ 25 ->
  let e := long_ptr base maxLen in
  N.land e largeFlagBit <> 0 /\ N.shiftr e 26 = maxLen /\ N.land e largeShortSymMask = base.
Proof.
  intros base maxLen Hb e. unfold e, long_ptr.
  assert (E : base + 2 ^ 25 + 2 ^ 26 * maxLen = N.lor base (N.shiftl (1 + 2 * maxLen) 25)).
  { rewrite lor_shiftl_add by exact Hb. change (2 ^ 26) with (2 ^ 25 * 2). lia. }
  split; [|split].
  - change largeFlagBit with (2 ^ 25). intro H. apply land_pow2_testbit in H.
    rewrite E, N.lor_spec, N.shiftl_spec_high in H by lia.
    replace (25 - 25) with 0 in H by lia.
    replace (1 + 2 * maxLen) with (2 * maxLen + 1) in H by lia.
    rewrite N.testbit_odd_0, orb_true_r in H. discriminate.
  - rewrite N.shiftr_div_pow2. change (2 ^ 25) with 33554432 in *.
    change (2 ^ 26) with 67108864. lia.
  - change largeShortSymMask with (N.ones 25). rewrite N.land_ones.
    change (2 ^ 25) with 33554432 in *. change (2 ^ 26) with 67108864. lia.
Qed.

Lemma long_entry_fields : forall s len, s < 1024 ->
  N.shiftr (s + 1024 * len) 10 = len /\ N.land (s + 1024 * len) 1023 = s.
Proof.
  intros s len Hs. split.
  - rewrite N.shiftr_div_pow2. change (2 ^ 10) with 1024. lia.
  - change 1023 with (N.ones 10). rewrite N.land_ones. change (2 ^ 10) with 1024. lia.
Qed.

(* every symbol of a decode has at least one bit *)
Lemma xseq_bits_pos : forall xc syms v, xc_wf xc -> xseq xc v syms -> (1 <= length syms)%nat ->
  (1 <= syms_bits syms)%nat.
Proof.
  intros xc syms v Hwf Hx Hl. destruct syms as [|[s len] r]; [cbn [length] in Hl; lia|].
  cbn [xseq] in Hx. destruct Hx as [(val & Hin & _) _].
  destruct (Hwf s len val Hin) as [H1 _].
  change (syms_bits ((s, len) :: r)) with (len + syms_bits r)%nat. lia.
Qed.

(* v mod 2^len from its low 12 bits and the next len - 12 bits *)
Lemma split_low12 : forall v val len, 12 <= len -> val < 2 ^ len ->
  N.land val 4095 = N.land v 4095 ->
  (v / 4096) mod 2 ^ (len - 12) = N.shiftr val 12 ->
  N.land v (N.ones len) = val.
Proof.
  intros v val len Hl Hv H1 H2. rewrite N.land_ones.
  change 4095 with (N.ones 12) in H1. rewrite !N.land_ones in H1.
  rewrite N.shiftr_div_pow2 in H2. change (2 ^ 12) with 4096 in *.
  assert (HP : 2 ^ len = 4096 * 2 ^ (len - 12)).
  { change 4096 with (2 ^ 12). rewrite <- N.pow_add_r. f_equal. lia. }
  assert (Hq : 2 ^ (len - 12) <> 0) by (apply N.pow_nonzero; lia).
  rewrite HP. rewrite N.mod_mul_r by lia.
  rewrite H2, <- H1. symmetry. rewrite N.add_comm, N.mul_comm. rewrite N.mul_comm.
  pose proof (N.div_mod val 4096 ltac:(lia)). lia.
Qed.

Lemma div_mod4096 : forall v Q, Q <> 0 -> (v mod (4096 * Q)) / 4096 = (v / 4096) mod Q.
Proof.
  intros v Q HQ. rewrite N.mod_mul_r by lia.
  rewrite (N.mul_comm 4096), N.div_add by lia.
  rewrite (N.div_small (v mod 4096) 4096) by (apply N.mod_lt; lia). apply N.add_0_l.
Qed.

Lemma mod_mod_mul : forall a q q', q <> 0 -> q' <> 0 -> (a mod (q * q')) mod q = a mod q.
Proof.
  intros a q q' Hq Hq'. rewrite N.mod_mul_r by assumption.
  rewrite (N.mul_comm q), N.mod_add by exact Hq. apply N.mod_mod. exact Hq.
Qed.

Lemma pow2_split12 : forall m, 12 <= m -> 2 ^ m = 4096 * 2 ^ (m - 12).
Proof. intros m H. change 4096 with (2 ^ 12). rewrite <- N.pow_add_r. f_equal. lia. Qed.

Lemma div_mod_pow_low : forall v m len, 12 <= len -> len <= m ->
  ((v mod 2 ^ m) / 4096) mod 2 ^ (len - 12) = (v / 4096) mod 2 ^ (len - 12).
Proof.
  intros v m len Hl Hm.
  rewrite (pow2_split12 m) by lia.
  rewrite div_mod4096 by (apply N.pow_nonzero; lia).
  assert (HQ : 2 ^ (m - 12) = 2 ^ (len - 12) * 2 ^ (m - len)).
  { rewrite <- N.pow_add_r. f_equal. lia. }
  rewrite HQ. apply mod_mod_mul; apply N.pow_nonzero; lia.
Qed.

(* ---------------------------------------------------------------- the lookup *)
Theorem litlen_lookup_ok : forall xc S0 sh lg ds dl,
  xc_wf xc -> xc_prefix_free xc -> short_ok xc 12 S0 -> long_ok xc S0 sh lg ->
  lit_tab_ok_x xc (mkTB sh lg ds dl).
Proof.
  intros xc S0 sh lg ds dl Hwf Hpf Hso [Hkeep Hgrp] b.
  set (v := r_bits b).
  set (x := N.land v 4095).
  assert (Hx : x < 4096).
  { unfold x. change 4095 with (N.ones 12). rewrite N.land_ones. apply N.mod_lt. lia. }
  assert (Hag : agree 12 x v) by (unfold x; change 4095 with (N.ones 12); apply agree_land_ones).
  unfold litlen_decode. cbn [litShort litLong]. fold v. fold x.
  destruct (long_dec xc x) as [(s0 & len0 & val0 & Hin0 & Hl0 & Hv0)|Hnolong].
  - (* x is the low part of a long code: group *)
    destruct (Hgrp s0 len0 val0 Hin0 Hl0) as (base & maxLen & Hsh & Hml & Hbase & Hmax & Hent).
    rewrite Hv0 in Hsh, Hmax, Hent.
    assert (Hb25 : base < 2 ^ 25).
    { assert (0 < 2 ^ (maxLen - 12)) by (apply N.neq_0_lt_0, N.pow_nonzero; lia).
      change (2 ^ 25) with 33554432. lia. }
    destruct (long_ptr_fields base maxLen Hb25) as (F1 & F2 & F3). cbv zeta in F1, F2, F3.
    rewrite Hsh.
    destruct (N.land (long_ptr base maxLen) largeFlagBit =? 0) eqn:Efl; [lia|].
    rewrite F2, F3.
    assert (Ho : ones32 maxLen = N.ones maxLen).
    { unfold ones32. destruct (32 <=? maxLen) eqn:E; [lia|reflexivity]. }
    rewrite Ho.
    assert (Hu : N.land (u32 v) (N.ones maxLen) = v mod 2 ^ maxLen).
    { rewrite <- N.land_ones. apply land_ones_agree. intros i Hi. apply u32_testbit. lia. }
    rewrite Hu. rewrite N.shiftr_div_pow2. change (2 ^ 12) with 4096.
    set (p := (v mod 2 ^ maxLen) / 4096).
    assert (Hp : p < 2 ^ (maxLen - 12)).
    { unfold p. apply N.div_lt_upper_bound; [lia|].
      replace (4096 * 2 ^ (maxLen - 12)) with (2 ^ maxLen).
      - apply N.mod_lt. apply N.pow_nonzero. lia.
      - change 4096 with (2 ^ 12). rewrite <- N.pow_add_r. f_equal. lia. }
    destruct (1264 <=? base + p) eqn:E1264; [lia|].
    destruct (Hent p Hp) as [Hval Hcompl].
    (* matching long codes of this group *)
    assert (Hpm : forall len, 12 <= len -> len <= maxLen ->
              p mod 2 ^ (len - 12) = (v / 4096) mod 2 ^ (len - 12)).
    { intros len H1 H2. unfold p. apply div_mod_pow_low; assumption. }
    destruct Hval as [Hz|(s & len & val & Hin & Hl & Hv & Hpv & He)].
    + (* empty slot: nothing matches *)
      right. rewrite Hz. change (N.shiftr 0 10) with 0. cbn [N.eqb]. rewrite br_drop_0.
      split.
      * intros s len val Hin Hm. unfold xmatch in Hm. fold v in Hm.
        destruct (Hwf s len val Hin) as (Hlen & Hvl & Hs).
        destruct (Nat.lt_ge_cases 12 len) as [Hl|Hl].
        -- (* a long code matching v is in this group *)
           assert (Hvx : N.land val 4095 = x).
           { rewrite <- Hm. unfold x. change 4095 with (N.ones 12).
             apply land_ones_low. lia. }
           pose proof (Hmax s len val Hin Hl Hvx) as Hlm.
           apply (Hcompl s len val Hin Hl Hvx); [|exact Hz].
           rewrite Hpm by lia. rewrite <- Hm. rewrite N.land_ones, N.shiftr_div_pow2.
           change (2 ^ 12) with 4096.
           rewrite (pow2_split12 (N.of_nat len)) by lia.
           symmetry. apply div_mod4096. apply N.pow_nonzero. lia.
        -- (* a short code matching v would be a prefix of the long code val0 *)
           assert (Heq : len = len0).
           { apply (Hpf s len val s0 len0 val0 Hin Hin0); [lia|].
             rewrite <- Hm. apply land_ones_agree. intros i Hi.
             assert (Hi12 : i < 12) by lia.
             transitivity (N.testbit x i).
             - rewrite <- Hv0. rewrite N.land_spec. change 4095 with (N.ones 12).
               rewrite N.ones_spec_low by exact Hi12. symmetry. apply andb_true_r.
             - apply Hag. exact Hi12. }
           lia.
      * exists 1, (N.land invalidSymbolValue 1023). split; [reflexivity|].
        right. split; [reflexivity|]. vm_compute. reflexivity.
    + (* a member of the group *)
      left. destruct (Hwf s len val Hin) as (Hlen & Hvl & Hs).
      destruct (long_entry_fields s (N.of_nat len) ltac:(lia)) as [G1 G2].
      rewrite He, G1.
      destruct (N.of_nat len =? 0) eqn:E0; [lia|]. rewrite G2.
      exists [(s, len)]. split; [cbn [length]; lia|]. split; [exact I|]. split.
      * cbn [xseq]. split; [|exact I]. exists val. split; [exact Hin|].
        unfold xmatch. fold v.
        pose proof (Hmax s len val Hin Hl Hv) as Hlm.
        apply split_low12; [lia|exact Hvl|rewrite Hv; reflexivity|].
        rewrite <- Hpm by lia. exact Hpv.
      * cbn [syms_bits fold_right snd length pack_syms]. repeat f_equal; lia.
  - (* no long code: the entry of the short table *)
    rewrite (Hkeep x Hx Hnolong).
    destruct (Hso x Hx) as [Hok Hnz]. change (2 ^ N.of_nat 12) with 4096 in *.
    destruct Hok as [Hz|(syms & Hlen & Hlits & Hseq & Hbits & Hpack & He)].
    + right. rewrite Hz. cbn [N.land N.eqb]. change (N.shiftr 0 28) with 0. cbn [N.eqb].
      rewrite br_drop_0. split.
      * intros s len val Hin Hm. unfold xmatch in Hm. fold v in Hm.
        destruct (Nat.lt_ge_cases 12 len) as [Hl|Hl].
        -- apply (Hnolong s len val Hin Hl).
           rewrite <- Hm. unfold x. change 4095 with (N.ones 12).
           apply land_ones_low. lia.
        -- apply (Hnz s len val Hin Hl); [|exact Hz].
           apply (xmatch_agree 12 v x len val); [apply agree_sym; exact Hag|lia|exact Hm].
      * exists 0, (N.land invalidSymbolValue largeShortSymMask). split; [reflexivity|].
        left. reflexivity.
    + left.
      assert (Hb1 : (1 <= syms_bits syms)%nat) by (apply (xseq_bits_pos xc syms x Hwf Hseq); lia).
      destruct (short_entry_fields (pack_syms syms) (N.of_nat (length syms))
                  (N.of_nat (syms_bits syms)) Hpack ltac:(lia)) as (F1 & F2 & F3 & F4).
      cbv zeta in F1, F2, F3, F4. fold (short_entry syms) in F1, F2, F3, F4.
      rewrite He, F1. cbn [N.eqb]. rewrite F2.
      destruct (N.of_nat (syms_bits syms) =? 0) eqn:E0; [lia|].
      rewrite F3, F4.
      exists syms. split; [exact Hlen|]. split; [exact Hlits|]. split; [|reflexivity].
      fold v. apply (xseq_agree xc syms x v); [|exact Hseq].
      apply (agree_le 12); [exact Hag|lia].
Qed.

Print Assumptions litlen_lookup_ok.
