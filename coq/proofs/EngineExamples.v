(* EngineExamples.v -- non-vacuity of the top-level engine theorems (proofs/EngineTop.v): concrete
   streams that satisfy ALL the hypotheses of engine_valid_stream_decoded / engine_verdict /
   engine_schedule_independent_full, the theorems instantiated on them, and the conclusions
   cross-checked by running the engine model (vm_compute).

   The only hypothesis that is not a plain computation is `std_stream data`, which quantifies
   over the configurations the small-step reference reaches (`reach data`).  Part A makes that
   computable: `rnext` is an executable successor function for `rstep` (sound and complete), so
   `reach data` is the set of configurations on the one path `rnext` walks from `rinit data`,
   and a boolean predicate checked along the path (`path_all`) holds of every reachable
   configuration.  `std_check` is the resulting checker for std_stream. *)
From Coq Require Import List NArith ZArith Bool Lia Relations Operators_Properties.
From Verif Require Import Bits Huffman Inflate InflateSpec InflateMono.
From Verif Require Import Base EngineTables Engine EngineRefineSpecReach EngineRefineSpecTop
     EngineCompleteSpecB EngineCompleteSpecC EngineCompleteSpecG EngineCorollaries EngineTop.
Import ListNotations.
Open Scope N_scope.

(* ================================================================ A. reach, computably *)

Definition rnext (c : rcfg) : option rcfg :=
  match c with
  | CBlock st s =>
    match take 1 s with None => None | Some (bf, s1) =>
    match take 2 s1 with None => None | Some (bt, s2) =>
      if bt =? 1 then
        match fixed_tries with Some (lt, dt) => Some (CHuff bf lt dt st s2) | None => None end
      else if bt =? 2 then
        match dyn_header s2 with HOk (lt, dt) s3 => Some (CHuff bf lt dt st s3) | HStop _ => None end
      else if bt =? 0 then
        match take 16 (align s2) with None => None | Some (len, s4) =>
        match take 16 s4 with None => None | Some (nlen, s5) =>
          if len + nlen =? 65535 then Some (CStored bf len len st s5) else None
        end end
      else None
    end end
  | CHuff bf lt dt st s =>
    match sym1 lt dt st s with
    | SCont st' s' => Some (CHuff bf lt dt st' s')
    | SEnd st' s' => Some (next_block bf st' s')
    | SStop _ _ _ => None
    end
  | CStored bf len n st s =>
    if n =? 0 then Some (next_block bf (sync_upd bf len st s) s)
    else match take 8 s with
         | Some (b, s1) => Some (CStored bf len (n - 1) (push b st) s1)
         | None => None
         end
  | CDone _ _ => None
  end.

Lemma rnext_complete : forall c c', rstep c c' -> rnext c = Some c'.
Proof.
  intros c c' H. destruct H; cbn [rnext].
  - rewrite H, H0, H1. reflexivity.
  - rewrite H, H0, H1. reflexivity.
  - rewrite H, H0. cbn [N.eqb Pos.eqb]. rewrite H1, H2.
    apply N.eqb_eq in H3. rewrite H3. reflexivity.
  - rewrite H. reflexivity.
  - rewrite H. reflexivity.
  - destruct (N.eqb_spec n 0) as [E|_]; [lia|]. rewrite H0. reflexivity.
  - reflexivity.
Qed.

Lemma rnext_sound : forall c c', rnext c = Some c' -> rstep c c'.
Proof.
  intros c c' H. destruct c as [st s | bf lt dt st s | bf len n st s | st s]; cbn [rnext] in H.
  - destruct (take 1 s) as [[bf s1]|] eqn:T1; [|discriminate].
    destruct (take 2 s1) as [[bt s2]|] eqn:T2; [|discriminate].
    destruct (N.eqb_spec bt 1) as [E1|_].
    { subst bt. destruct fixed_tries as [[lt dt]|] eqn:F; [|discriminate].
      injection H as <-. eapply rs_fixed; eassumption. }
    destruct (N.eqb_spec bt 2) as [E2|_].
    { subst bt. destruct (dyn_header s2) as [[lt dt] s3|e] eqn:D; [|discriminate].
      injection H as <-. eapply rs_dyn; eassumption. }
    destruct (N.eqb_spec bt 0) as [E0|_]; [|discriminate].
    subst bt. destruct (take 16 (align s2)) as [[len s4]|] eqn:T3; [|discriminate].
    destruct (take 16 s4) as [[nlen s5]|] eqn:T4; [|discriminate].
    destruct (N.eqb_spec (len + nlen) 65535) as [E|_]; [|discriminate].
    injection H as <-. eapply rs_stored; eassumption.
  - destruct (sym1 lt dt st s) as [st' s'|st' s'|st' s' e] eqn:S1; [| |discriminate].
    + injection H as <-. apply rs_sym. exact S1.
    + injection H as <-. apply rs_eob. exact S1.
  - destruct (N.eqb_spec n 0) as [E|NE].
    + subst n. injection H as <-. apply rs_stored_end.
    + destruct (take 8 s) as [[b s1]|] eqn:T; [|discriminate].
      injection H as <-. apply rs_byte; [lia | exact T].
  - discriminate.
Qed.

(* P holds along the path from c, which ends (no successor) within `fuel` steps *)
Fixpoint path_all (P : rcfg -> bool) (fuel : nat) (c : rcfg) : bool :=
  match fuel with
  | O => false
  | S f => P c && match rnext c with None => true | Some c' => path_all P f c' end
  end.

Lemma path_all_sound : forall P c c',
  clos_refl_trans_1n rcfg rstep c c' -> forall fuel, path_all P fuel c = true -> P c' = true.
Proof.
  intros P c c' H. induction H as [c | c y z Hs Hr IH]; intros fuel Hp.
  - destruct fuel as [|f]; [discriminate|]. cbn [path_all] in Hp.
    apply andb_true_iff in Hp. exact (proj1 Hp).
  - destruct fuel as [|f]; [discriminate|]. cbn [path_all] in Hp.
    apply andb_true_iff in Hp. destruct Hp as [_ Hp].
    rewrite (rnext_complete _ _ Hs) in Hp. exact (IH f Hp).
Qed.

Lemma reach_all : forall P fuel data,
  path_all P fuel (rinit data) = true -> forall c, reach data c -> P c = true.
Proof.
  intros P fuel data Hp c Hr. unfold reach in Hr. apply clos_rt_rt1n in Hr.
  exact (path_all_sound P _ _ Hr fuel Hp).
Qed.

(* the path itself, for inspection *)
Fixpoint rpath (fuel : nat) (c : rcfg) : list rcfg :=
  match fuel with
  | O => []
  | S f => c :: match rnext c with None => [] | Some c' => rpath f c' end
  end.

(* every configuration on the path is reachable: the checker looks at real configurations *)
Lemma rpath_reach : forall fuel c0 c, clos_refl_trans rcfg rstep c0 c ->
  forall x, In x (rpath fuel c) -> clos_refl_trans rcfg rstep c0 x.
Proof.
  induction fuel as [|f IH]; intros c0 c Hc x Hin; [destruct Hin|].
  cbn [rpath] in Hin. destruct Hin as [<-|Hin]; [exact Hc|].
  destruct (rnext c) as [c'|] eqn:E; [|destruct Hin].
  apply (IH c0 c'); [|exact Hin].
  eapply rt_trans; [exact Hc|]. apply rt_step. apply rnext_sound. exact E.
Qed.

(* ---------------------------------------------------------------- the std_stream checker *)
Definition std_distb (dl : lens) : bool :=
  complete 15 dl || forallb (fun x => Nat.leb x 10) dl.

Lemma std_distb_sound : forall dl, std_distb dl = true -> std_dist dl.
Proof.
  intros dl H. unfold std_distb in H. apply orb_true_iff in H. destruct H as [H|H].
  - left. exact H.
  - right. apply Forall_forall. intros x Hx.
    rewrite forallb_forall in H. apply Nat.leb_le. exact (H x Hx).
Qed.

Definition blk_std (B : bs) : bool :=
  match take 1 B with None => true | Some (_, s1) =>
  match take 2 s1 with None => true | Some (bt, s2) =>
    if bt =? 2 then
      match dyn_lens s2 with HOk (_, dl) _ => std_distb dl | HStop _ => true end
    else true
  end end.

Definition cfg_std (c : rcfg) : bool :=
  match c with CBlock _ B => blk_std B | _ => true end.

Definition std_check (fuel : nat) (data : list N) : bool := path_all cfg_std fuel (rinit data).

Theorem std_check_sound : forall fuel data, std_check fuel data = true -> std_stream data.
Proof.
  intros fuel data Hc st S bf s1 s2 ll dl s3 Hr T1 T2 D.
  pose proof (reach_all cfg_std fuel data Hc _ Hr) as H.
  cbn [cfg_std] in H. unfold blk_std in H. rewrite T1, T2 in H. cbn [N.eqb Pos.eqb] in H. rewrite D in H.
  apply std_distb_sound. exact H.
Qed.

(* how many dynamic block headers (parsed by the reference) lie on the path: shows when the
   check above is not trivially true *)
Definition is_dyn_block (c : rcfg) : bool :=
  match c with
  | CBlock _ B =>
    match take 1 B with None => false | Some (_, s1) =>
    match take 2 s1 with None => false | Some (bt, s2) =>
      (bt =? 2) && match dyn_lens s2 with HOk _ _ => true | HStop _ => false end
    end end
  | _ => false
  end.

(* small helpers for the plain hypotheses *)
Ltac solve_bytes_ok := unfold bytes_ok; repeat (constructor; [reflexivity|]); constructor.
Ltac solve_cut := split; [reflexivity | repeat (constructor; [discriminate|]); constructor].
Ltac solve_bounds := split; vm_compute; discriminate.

(* ================================================================ B. a fixed-Huffman stream *)

(* BFINAL=1, BTYPE=01, 'a' 'm' 'd', end of block: what zlib writes for "amd" *)
Definition data1 : list N := [75; 204; 77; 1; 0].
Definition cs1 : list (list N) := [[75; 204]; [77]; [1; 0]].
Definition cs1' : list (list N) := [[75]; [204; 77; 1]; [0]].
Definition reads1 : list N := [1; 1; 1; 1; 1].
Definition reads1' : list N := [2; 7; 1; 3].

Lemma data1_bytes_ok : bytes_ok data1.
Proof. solve_bytes_ok. Qed.
Lemma cs1_cut : cut_of cs1 data1.
Proof. solve_cut. Qed.
Lemma cs1'_cut : cut_of cs1' data1.
Proof. solve_cut. Qed.
Lemma cs1_bounds : in_model_bounds 16 cs1.
Proof. solve_bounds. Qed.
Lemma cs1'_bounds : in_model_bounds 4096 cs1'.
Proof. solve_bounds. Qed.

Lemma data1_ref : Inflate.inflate [] data1 = mkires [97; 109; 100] Done 34 0 [].
Proof. vm_compute. reflexivity. Qed.

Lemma data1_done : status (Inflate.inflate [] data1) = Done.
Proof. rewrite data1_ref. reflexivity. Qed.

Lemma data1_enough : enough_reads data1 reads1.
Proof.
  split; [unfold reads1; repeat (constructor; [reflexivity|]); constructor|].
  rewrite data1_ref. cbn. lia.
Qed.
Lemma data1_enough' : enough_reads data1 reads1'.
Proof.
  split; [unfold reads1'; repeat (constructor; [reflexivity|]); constructor|].
  rewrite data1_ref. cbn. lia.
Qed.

(* the reference reaches exactly 6 configurations on data1: the block header, 4 symbol
   boundaries (before a, m, d, end-of-block) and CDone *)
Lemma data1_path_length : length (rpath 100 (rinit data1)) = 6%nat.
Proof. vm_compute. reflexivity. Qed.

(* characterisation of the block boundaries of data1: only the initial one, a final fixed block *)
Definition is_final_fixed (c : rcfg) : bool :=
  match c with
  | CBlock _ B =>
    match take 1 B with None => false | Some (bf, s1) =>
    match take 2 s1 with None => false | Some (bt, _) => (bf =? 1) && (bt =? 1) end end
  | _ => true
  end.

Lemma data1_blocks : forall st S, reach data1 (CBlock st S) ->
  exists s1 s2, take 1 S = Some (1, s1) /\ take 2 s1 = Some (1, s2).
Proof.
  intros st S Hr.
  assert (Hp : path_all is_final_fixed 100 (rinit data1) = true) by (vm_compute; reflexivity).
  pose proof (reach_all _ _ _ Hp _ Hr) as H. cbn [is_final_fixed] in H.
  destruct (take 1 S) as [[bf s1]|] eqn:T1; [|discriminate].
  destruct (take 2 s1) as [[bt s2]|] eqn:T2; [|discriminate].
  apply andb_true_iff in H. destruct H as [H1 H2].
  apply N.eqb_eq in H1. apply N.eqb_eq in H2. subst bf bt. exists s1, s2. split; [reflexivity | exact T2].
Qed.

(* std_stream, directly from the characterisation: no reachable block is dynamic *)
Lemma data1_std : std_stream data1.
Proof.
  intros st S bf s1 s2 ll dl s3 Hr T1 T2 _.
  destruct (data1_blocks st S Hr) as [s1' [s2' [E1 E2]]].
  rewrite E1 in T1. injection T1 as <- <-. rewrite E2 in T2. discriminate.
Qed.

(* ... and again through the checker *)
Lemma data1_std_check : std_check 100 data1 = true.
Proof. vm_compute. reflexivity. Qed.

(* the engine model run on this input *)
Lemma data1_run : erun_ext 16 cs1 TEOF reads1 = ([([97], ROk); ([109], ROk); ([100], REOF)], 5).
Proof. vm_compute. reflexivity. Qed.
Lemma data1_run' : erun_ext 4096 cs1' TErr reads1' = ([([97; 109], ROk); ([100], ROk); ([], REOF)], 5).
Proof. vm_compute. reflexivity. Qed.

(* (1) all six hypotheses of engine_valid_stream_decoded hold of (data1, cs1, 16, reads1); the
   theorem's conclusion for this input; and the same facts by computation *)
Example ex_fixed :
  (bytes_ok data1 /\ cut_of cs1 data1 /\ in_model_bounds 16 cs1 /\
   status (Inflate.inflate [] data1) = Done /\ std_stream data1 /\ enough_reads data1 reads1) /\
  (* the conclusion of engine_valid_stream_decoded *)
  (In REOF (map snd (fst (erun_ext 16 cs1 TEOF reads1))) /\
   results_bytes (fst (erun_ext 16 cs1 TEOF reads1)) = out (Inflate.inflate [] data1) /\
   snd (erun_ext 16 cs1 TEOF reads1) = (bitpos (Inflate.inflate [] data1) + 7) / 8) /\
  (* by computation *)
  (erun_ext 16 cs1 TEOF reads1 = ([([97], ROk); ([109], ROk); ([100], REOF)], 5) /\
   out (Inflate.inflate [] data1) = [97; 109; 100] /\
   (bitpos (Inflate.inflate [] data1) + 7) / 8 = 5).
Proof.
  split; [|split].
  - exact (conj data1_bytes_ok (conj cs1_cut (conj cs1_bounds
             (conj data1_done (conj data1_std data1_enough))))).
  - exact (engine_valid_stream_decoded data1 cs1 16 TEOF reads1
             data1_bytes_ok cs1_cut cs1_bounds data1_done data1_std data1_enough).
  - split; [exact data1_run|]. rewrite data1_ref. split; reflexivity.
Qed.
Print Assumptions ex_fixed.

(* the conclusion of the theorem agrees literally with the computed run *)
Example ex_fixed_consistent :
  In REOF (map snd [([97], ROk); ([109], ROk); ([100], REOF)]) /\
  results_bytes [([97], ROk); ([109], ROk); ([100], REOF)] = [97; 109; 100] /\
  5 = (34 + 7) / 8.
Proof.
  pose proof (engine_valid_stream_decoded data1 cs1 16 TEOF reads1
                data1_bytes_ok cs1_cut cs1_bounds data1_done data1_std data1_enough) as H.
  rewrite data1_run, data1_ref in H. exact H.
Qed.
Print Assumptions ex_fixed_consistent.

(* engine_schedule_independent_full on two schedules / buffer sizes / terminals / Read sizes *)
Example ex_fixed_schedules :
  (results_bytes (fst (erun_ext 16 cs1 TEOF reads1)) =
     results_bytes (fst (erun_ext 4096 cs1' TErr reads1')) /\
   snd (erun_ext 16 cs1 TEOF reads1) = snd (erun_ext 4096 cs1' TErr reads1') /\
   In REOF (map snd (fst (erun_ext 16 cs1 TEOF reads1))) /\
   In REOF (map snd (fst (erun_ext 4096 cs1' TErr reads1')))) /\
  erun_ext 16 cs1 TEOF reads1 = ([([97], ROk); ([109], ROk); ([100], REOF)], 5) /\
  erun_ext 4096 cs1' TErr reads1' = ([([97; 109], ROk); ([100], ROk); ([], REOF)], 5).
Proof.
  split; [|split; [exact data1_run | exact data1_run']].
  exact (engine_schedule_independent_full data1 cs1 cs1' 16 4096 TEOF TErr reads1 reads1'
           data1_bytes_ok cs1_cut cs1'_cut cs1_bounds cs1'_bounds data1_done data1_std
           data1_enough data1_enough').
Qed.
Print Assumptions ex_fixed_schedules.

(* ================================================================ C. a dynamic-Huffman stream *)

(* zlib (level 9, raw deflate) on the 60 bytes
   "cadcbaaaaaabaaccaadbabaababaaaccaaaababaaacabababbdbaabaabca":
   one final DYNAMIC block (first byte & 7 = 5), literals a-d, several matches
   (largest distance 30), a distance code with 6 code words that is complete *)
Definition data2 : list N :=
  [61; 137; 193; 17; 0; 32; 0; 130; 102; 69; 221; 127; 134; 138; 71; 62;
   4; 207; 178; 6; 115; 209; 194; 242; 204; 114; 127; 151; 201; 124; 73; 57].
Definition cs2 : list (list N) :=
  [[61; 137; 193]; [17]; [0; 32; 0; 130; 102; 69; 221]; [127; 134];
   [138; 71; 62; 4; 207; 178; 6; 115; 209; 194; 242; 204; 114; 127; 151]; [201; 124; 73; 57]].
Definition cs2' : list (list N) := map (fun b => [b]) data2.   (* one byte per delivery *)
Definition out2 : list N :=
  [99; 97; 100; 99; 98; 97; 97; 97; 97; 97; 97; 98; 97; 97; 99; 99;
   97; 97; 100; 98; 97; 98; 97; 97; 98; 97; 98; 97; 97; 97; 99; 99;
   97; 97; 97; 97; 98; 97; 98; 97; 97; 97; 99; 97; 98; 97; 98; 97;
   98; 98; 100; 98; 97; 97; 98; 97; 97; 98; 99; 97].
Definition reads2 : list N := repeat 7 61.
Definition reads2' : list N := repeat 1 61.

Lemma data2_bytes_ok : bytes_ok data2.
Proof. solve_bytes_ok. Qed.
Lemma cs2_cut : cut_of cs2 data2.
Proof. solve_cut. Qed.
Lemma cs2'_cut : cut_of cs2' data2.
Proof. solve_cut. Qed.
Lemma cs2_bounds : in_model_bounds 16 cs2.
Proof. solve_bounds. Qed.
Lemma cs2'_bounds : in_model_bounds 90000 cs2'.
Proof. solve_bounds. Qed.

Lemma data2_ref : Inflate.inflate [] data2 = mkires out2 Done 256 30 [].
Proof. vm_compute. reflexivity. Qed.
Lemma data2_done : status (Inflate.inflate [] data2) = Done.
Proof. rewrite data2_ref. reflexivity. Qed.

Lemma Forall_repeat_pos : forall (v : N) n, 0 < v -> Forall (fun p => 0 < p) (repeat v n).
Proof. intros v n Hv. induction n; cbn [repeat]; constructor; assumption. Qed.

Lemma data2_enough : enough_reads data2 reads2.
Proof.
  split; [apply Forall_repeat_pos; reflexivity|].
  rewrite data2_ref. unfold reads2. rewrite repeat_length. cbn. lia.
Qed.
Lemma data2_enough' : enough_reads data2 reads2'.
Proof.
  split; [apply Forall_repeat_pos; reflexivity|].
  rewrite data2_ref. unfold reads2'. rewrite repeat_length. cbn. lia.
Qed.

(* the std_stream premise is really exercised: the block at the start of data2 is a dynamic
   block whose header the reference parses, with this distance code (complete, 6 code words) *)
Lemma data2_is_dynamic :
  exists s1 s2 ll s3,
    take 1 (bs_of_bytes data2) = Some (1, s1) /\ take 2 s1 = Some (2, s2) /\
    dyn_lens s2 = HOk (ll, [3; 0; 0; 0; 3; 2; 2; 3; 0; 3]%nat) s3 /\
    complete 15 [3; 0; 0; 0; 3; 2; 2; 3; 0; 3]%nat = true.
Proof.
  destruct (take 1 (bs_of_bytes data2)) as [[bf s1]|] eqn:T1; [|vm_compute in T1; discriminate].
  destruct (take 2 s1) as [[bt s2]|] eqn:T2;
    [|vm_compute in T1; injection T1 as _ <-; vm_compute in T2; discriminate].
  destruct (dyn_lens s2) as [[ll dl] s3|e] eqn:D.
  - exists s1, s2, ll, s3.
    vm_compute in T1. injection T1 as <- <-.
    vm_compute in T2. injection T2 as <- <-.
    vm_compute in D. injection D as <- <- <-.
    repeat split; vm_compute; reflexivity.
  - vm_compute in T1. injection T1 as _ <-. vm_compute in T2. injection T2 as _ <-.
    vm_compute in D. discriminate.
Qed.

(* one dynamic block header on the path (the checker below is not trivially true), and the
   path has 30 configurations: header, 28 symbol boundaries, CDone *)
Lemma data2_path :
  length (rpath 1000 (rinit data2)) = 30%nat /\
  length (filter is_dyn_block (rpath 1000 (rinit data2))) = 1%nat.
Proof. split; vm_compute; reflexivity. Qed.

Lemma data2_std_check : std_check 1000 data2 = true.
Proof. vm_compute. reflexivity. Qed.

Lemma data2_std : std_stream data2.
Proof. exact (std_check_sound 1000 data2 data2_std_check). Qed.

Definition run2 : list (list N * rres) * N :=
  ([([99; 97; 100; 99; 98; 97; 97], ROk);
    ([97; 97; 97; 97; 98; 97; 97], ROk);
    ([99; 99; 97; 97; 100; 98; 97], ROk);
    ([98; 97; 97; 98; 97; 98; 97], ROk);
    ([97; 97; 99; 99; 97; 97; 97], ROk);
    ([97; 98; 97; 98; 97; 97; 97], ROk);
    ([99; 97; 98; 97; 98; 97], ROk);          (* a short Read: the delivery ran out *)
    ([98; 98; 100; 98; 97; 97; 98], ROk);
    ([97; 97; 98; 99; 97], REOF)], 32).

Lemma data2_run : erun_ext 16 cs2 TEOF reads2 = run2.
Proof. vm_compute. reflexivity. Qed.

(* one byte per delivery, one byte per Read: 60 Reads; the last one hands out the last byte
   together with io.EOF *)
Lemma data2_run' :
  erun_ext 90000 cs2' TErr reads2' =
  (map (fun b => ([b], ROk)) (firstn 59 out2) ++ [([97], REOF)], 32).
Proof. vm_compute. reflexivity. Qed.

(* (2) the same as ex_fixed for a stream with a dynamic block *)
Example ex_dynamic :
  (bytes_ok data2 /\ cut_of cs2 data2 /\ in_model_bounds 16 cs2 /\
   status (Inflate.inflate [] data2) = Done /\ std_stream data2 /\ enough_reads data2 reads2) /\
  (* the conclusion of engine_valid_stream_decoded *)
  (In REOF (map snd (fst (erun_ext 16 cs2 TEOF reads2))) /\
   results_bytes (fst (erun_ext 16 cs2 TEOF reads2)) = out (Inflate.inflate [] data2) /\
   snd (erun_ext 16 cs2 TEOF reads2) = (bitpos (Inflate.inflate [] data2) + 7) / 8) /\
  (* by computation *)
  (erun_ext 16 cs2 TEOF reads2 = run2 /\
   results_bytes (fst run2) = out2 /\
   out (Inflate.inflate [] data2) = out2 /\
   (bitpos (Inflate.inflate [] data2) + 7) / 8 = 32).
Proof.
  split; [|split].
  - exact (conj data2_bytes_ok (conj cs2_cut (conj cs2_bounds
             (conj data2_done (conj data2_std data2_enough))))).
  - exact (engine_valid_stream_decoded data2 cs2 16 TEOF reads2
             data2_bytes_ok cs2_cut cs2_bounds data2_done data2_std data2_enough).
  - split; [exact data2_run|]. rewrite data2_ref. repeat split; vm_compute; reflexivity.
Qed.
Print Assumptions ex_dynamic.

Example ex_dynamic_schedules :
  (results_bytes (fst (erun_ext 16 cs2 TEOF reads2)) =
     results_bytes (fst (erun_ext 90000 cs2' TErr reads2')) /\
   snd (erun_ext 16 cs2 TEOF reads2) = snd (erun_ext 90000 cs2' TErr reads2') /\
   In REOF (map snd (fst (erun_ext 16 cs2 TEOF reads2))) /\
   In REOF (map snd (fst (erun_ext 90000 cs2' TErr reads2')))) /\
  erun_ext 16 cs2 TEOF reads2 = run2 /\
  erun_ext 90000 cs2' TErr reads2' =
    (map (fun b => ([b], ROk)) (firstn 59 out2) ++ [([97], REOF)], 32).
Proof.
  split; [|split; [exact data2_run | exact data2_run']].
  exact (engine_schedule_independent_full data2 cs2 cs2' 16 90000 TEOF TErr reads2 reads2'
           data2_bytes_ok cs2_cut cs2'_cut cs2_bounds cs2'_bounds data2_done data2_std
           data2_enough data2_enough').
Qed.
Print Assumptions ex_dynamic_schedules.

(* ================================================================ D. a truncated stream *)

(* data1 without its last byte: the 7-bit end-of-block code is cut after its first 6 bits *)
Definition data3 : list N := [75; 204; 77; 1].
Definition cs3 : list (list N) := [[75; 204]; [77]; [1]].

Lemma data3_bytes_ok : bytes_ok data3.
Proof. solve_bytes_ok. Qed.
Lemma cs3_cut : cut_of cs3 data3.
Proof. solve_cut. Qed.
Lemma cs3_bounds : in_model_bounds 16 cs3.
Proof. solve_bounds. Qed.
Lemma data3_ref : Inflate.inflate [] data3 = mkires [97; 109; 100] NeedInput 27 0 [].
Proof. vm_compute. reflexivity. Qed.
Lemma data3_enough : enough_reads data3 reads1.
Proof.
  split; [unfold reads1; repeat (constructor; [reflexivity|]); constructor|].
  rewrite data3_ref. cbn. lia.
Qed.

Lemma data3_run :
  erun_ext 16 cs3 TEOF reads1 = ([([97], ROk); ([109], ROk); ([100], ROk); ([], RUnexpectedEOF)], 4).
Proof. vm_compute. reflexivity. Qed.
Lemma data3_run_err :
  erun_ext 16 cs3 TErr reads1 = ([([97], ROk); ([109], ROk); ([100], ROk); ([], RSrcErr)], 4).
Proof. vm_compute. reflexivity. Qed.

(* (3) the hypotheses of engine_verdict hold; its conclusion; the run by computation ends in
   io.ErrUnexpectedEOF and the reference says NeedInput, as the theorem demands *)
Example ex_truncated :
  (bytes_ok data3 /\ cut_of cs3 data3 /\ in_model_bounds 16 cs3 /\ enough_reads data3 reads1) /\
  (* the conclusion of engine_verdict *)
  (let l := fst (erun_ext 16 cs3 TEOF reads1) in
   exists bytes r, last l ([], ROk) = (bytes, r) /\ l <> [] /\
    (r = REOF \/ r = RUnexpectedEOF \/ r = RSrcErr \/ exists o, r = RCorrupt o) /\
    (status (Inflate.inflate [] data3) = Done -> strict data3 -> r = REOF) /\
    (r = REOF -> status (Inflate.inflate [] data3) = Done) /\
    (status (Inflate.inflate [] data3) = Corrupt -> exists o, r = RCorrupt o) /\
    (r = RUnexpectedEOF -> TEOF = TEOF /\ status (Inflate.inflate [] data3) = NeedInput) /\
    (r = RSrcErr -> TEOF = TErr /\ status (Inflate.inflate [] data3) = NeedInput) /\
    (r = RUnexpectedEOF \/ r = RSrcErr ->
       exists z, out (Inflate.inflate [] data3) = results_bytes l ++ z /\ (length z <= 2)%nat)) /\
  (* by computation *)
  (erun_ext 16 cs3 TEOF reads1 =
     ([([97], ROk); ([109], ROk); ([100], ROk); ([], RUnexpectedEOF)], 4) /\
   last (fst (erun_ext 16 cs3 TEOF reads1)) ([], ROk) = ([], RUnexpectedEOF) /\
   Inflate.inflate [] data3 = mkires [97; 109; 100] NeedInput 27 0 []).
Proof.
  split; [|split].
  - exact (conj data3_bytes_ok (conj cs3_cut (conj cs3_bounds data3_enough))).
  - exact (engine_verdict data3 cs3 16 TEOF reads1
             data3_bytes_ok cs3_cut cs3_bounds data3_enough).
  - split; [exact data3_run|]. split; [rewrite data3_run; reflexivity | exact data3_ref].
Qed.
Print Assumptions ex_truncated.

(* what engine_verdict + the computed run say about the REFERENCE, without running it: it needs
   more input, and has decoded exactly the bytes handed out (here nothing is withheld: z = []);
   then the same by running the reference *)
Example ex_truncated_verdict :
  (status (Inflate.inflate [] data3) = NeedInput /\
   exists z, out (Inflate.inflate [] data3) = [97; 109; 100] ++ z /\ (length z <= 2)%nat) /\
  (status (Inflate.inflate [] data3) = NeedInput /\ out (Inflate.inflate [] data3) = [97; 109; 100] ++ []).
Proof.
  split.
  - pose proof (engine_verdict data3 cs3 16 TEOF reads1
                  data3_bytes_ok cs3_cut cs3_bounds data3_enough) as H.
    cbv zeta in H. rewrite data3_run in H. cbn [fst last] in H.
    destruct H as [bytes [r [Hl [_ [_ [_ [_ [_ [Hu [_ Hp]]]]]]]]]].
    injection Hl as <- <-.
    split; [exact (proj2 (Hu eq_refl))|].
    destruct (Hp (or_introl eq_refl)) as [z [Hz Hlen]]. exists z. split; [exact Hz | exact Hlen].
  - rewrite data3_ref. split; reflexivity.
Qed.
Print Assumptions ex_truncated_verdict.

(* the same input with a failing source: the source's error, by engine_verdict and by computation *)
Example ex_truncated_srcerr :
  (let l := fst (erun_ext 16 cs3 TErr reads1) in
   exists bytes r, last l ([], ROk) = (bytes, r) /\ l <> [] /\
    (r = REOF \/ r = RUnexpectedEOF \/ r = RSrcErr \/ exists o, r = RCorrupt o) /\
    (status (Inflate.inflate [] data3) = Done -> strict data3 -> r = REOF) /\
    (r = REOF -> status (Inflate.inflate [] data3) = Done) /\
    (status (Inflate.inflate [] data3) = Corrupt -> exists o, r = RCorrupt o) /\
    (r = RUnexpectedEOF -> TErr = TEOF /\ status (Inflate.inflate [] data3) = NeedInput) /\
    (r = RSrcErr -> TErr = TErr /\ status (Inflate.inflate [] data3) = NeedInput) /\
    (r = RUnexpectedEOF \/ r = RSrcErr ->
       exists z, out (Inflate.inflate [] data3) = results_bytes l ++ z /\ (length z <= 2)%nat)) /\
  last (fst (erun_ext 16 cs3 TErr reads1)) ([], ROk) = ([], RSrcErr).
Proof.
  split.
  - exact (engine_verdict data3 cs3 16 TErr reads1
             data3_bytes_ok cs3_cut cs3_bounds data3_enough).
  - rewrite data3_run_err. reflexivity.
Qed.
Print Assumptions ex_truncated_srcerr.

(* the checker and the reach characterisation are themselves closed *)
Print Assumptions std_check_sound.
Print Assumptions data1_blocks.
