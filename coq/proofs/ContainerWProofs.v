(* ContainerWProofs.v — proofs of the statements of WModel/ContainerWSpec.v:

     gzw_roundtrip       : gzw_roundtrip_statement
     zlw_roundtrip       : zlw_roundtrip_statement
     cw_close_idempotent : cw_close_idempotent_statement

   Structure.
   1. Destination-prefix independence: the compressor functions only cons chunks onto the
      destination and never inspect them, and the call counter only matters for a destination
      that is set to fail; so running from a destination with extra chunks underneath
      (`cshift pre n`) gives the same result with the same chunks underneath.
   2. Simulation: after the header has been written, the container writer does on every
      operation exactly what the flate writer does, on the shifted destination.
   3. The first operation writes the header (and, for gzip's Flush/Close, an empty Write that
      does nothing).
   4. The bytes are header ++ DEFLATE body (C01_unconditional) ++ trailer; the reader lemmas of
      ContainersProofs.v finish.  The gzip header is parsed directly from the writer's layout
      (an empty non-nil Extra is written as a zero-length field, which gz_header never emits). *)
From Verif Require Import ContainerWSpec OracleSpec.
From Verif Require Import TraceContent Unconditional InflateMono WriterStateProofs.
From Verif Require ContainersProofs.
From Coq Require Import ZArith Lia ZifyBool ZifyNat ZifyN.
Open Scope N_scope.

Local Notation writer := WriterSM.writer.

(* ------------------------------------------------------------------ *)
(* 1. destination-prefix independence                                   *)

Definition dshift (pre : list (list N)) (n : N) (d : dest) : dest :=
  mkdest (dchunks d ++ pre) (dcalls d + n) (dfail d) (dtrace d).

Definition dyn_shift (pre : list (list N)) (n : N) (c : dyn) : dyn :=
  mkdyn (dW c) (dmask c) (dsync c) (dbuf c) (didx c) (dproc c) (dtable c) (dtoks c) (dntok c)
        (dbb c) (dshift pre n (ddest c)) (doob c).

Definition huf_shift (pre : list (list N)) (n : N) (h : huf) : huf :=
  mkhuf (hbuf h) (hbb h) (dshift pre n (hdest h)).

Definition cshift (pre : list (list N)) (n : N) (c : comp) : comp :=
  match c with CDyn d => CDyn (dyn_shift pre n d) | CHuf h => CHuf (huf_shift pre n h) end.

Definition wshift (pre : list (list N)) (n : N) (w : writer comp) : writer comp :=
  mkw comp (cshift pre n (wc comp w)) (we comp w).

Ltac dstp := cbn [dchunks dcalls dfail dtrace].

Lemma dest_write_shift : forall pre n d ch, dfail d = None ->
  dest_write (dshift pre n d) ch = let '(d1, f) := dest_write d ch in (dshift pre n d1, f).
Proof.
  intros pre n d ch H. unfold dest_write, dshift. dstp. rewrite H. dstp.
  f_equal. cbn [app]. f_equal. lia.
Qed.

Lemma dest_write_all_shift : forall pre n chunks d, dfail d = None ->
  dest_write_all (dshift pre n d) chunks =
  let '(d1, f) := dest_write_all d chunks in (dshift pre n d1, f).
Proof.
  intros pre n. induction chunks as [|c r IH]; intros d H; cbn [dest_write_all]; [reflexivity|].
  rewrite dest_write_shift by exact H.
  destruct (dest_write d c) as [d1 failed] eqn:E.
  destruct (dest_write_healthy _ _ _ _ E H) as (F1 & F2). subst failed.
  apply IH. exact F2.
Qed.

Lemma dyn_encode_shift : forall pre n c last, dfail (ddest c) = None ->
  dyn_encode_block (dyn_shift pre n c) last =
  let '(c1, f) := dyn_encode_block c last in (dyn_shift pre n c1, f).
Proof.
  intros pre n c last H. unfold dyn_encode_block, dyn_shift. dproj.
  destruct (encode_block (dsync c) (frev (dtoks c)) last (dbb c)) as [chunks bb].
  change (dest_event (dshift pre n (ddest c)) (EBlock (frev (dtoks c)) last))
    with (dshift pre n (dest_event (ddest c) (EBlock (frev (dtoks c)) last))).
  rewrite dest_write_all_shift by exact H.
  destruct (dest_write_all (dest_event (ddest c) (EBlock (frev (dtoks c)) last)) chunks) as [d1 failed].
  destruct failed; reflexivity.
Qed.

Lemma dyn_loop_shift : forall pre n fuel c flush final, dfail (ddest c) = None ->
  dyn_compress_loop fuel (dyn_shift pre n c) flush final =
  let '(c1, f) := dyn_compress_loop fuel c flush final in (dyn_shift pre n c1, f).
Proof.
  intros pre n. induction fuel as [|fuel IH]; intros c flush final H; [reflexivity|].
  rewrite !dyn_loop_S. cbv zeta.
  change (dyn_lz (dyn_shift pre n c) flush) with (dyn_lz c flush).
  change (dbuf (dyn_shift pre n c)) with (dbuf c).
  set (r := dyn_lz c flush).
  change (dyn_after_lz (dyn_shift pre n c) r) with (dyn_shift pre n (dyn_after_lz c r)).
  destruct ((lz_ntok r <? max_token) && negb flush); [reflexivity|].
  rewrite dyn_encode_shift by exact H.
  destruct (dyn_encode_block (dyn_after_lz c r) (final && (lz_off r =? lenN (dbuf c))))
    as [c2 failed] eqn:E.
  destruct (dyn_encode_par _ _ _ _ E) as (_ & P2).
  destruct (P2 H) as (_ & H2).
  destruct failed; [reflexivity|].
  destruct (lz_off r =? lenN (dbuf c)); [reflexivity|].
  apply IH. exact H2.
Qed.

Lemma dyn_block_shift : forall pre n c flush final, dfail (ddest c) = None ->
  dyn_compress_block (dyn_shift pre n c) flush final =
  let '(c1, f) := dyn_compress_block c flush final in (dyn_shift pre n c1, f).
Proof.
  intros pre n c flush final H. unfold dyn_compress_block.
  change (dbuf (dyn_shift pre n c)) with (dbuf c).
  destruct (final && (lenN (dbuf c) =? 0)).
  - change (dbb (dyn_shift pre n c)) with (dbb c).
    destruct (bb_take (bb_empty_block true (dbb c))) as [chunk bb].
    change (dest_event (ddest (dyn_shift pre n c)) EFinalEmpty)
      with (dshift pre n (dest_event (ddest c) EFinalEmpty)).
    rewrite dest_write_shift by exact H.
    destruct (dest_write (dest_event (ddest c) EFinalEmpty) chunk) as [d1 failed].
    reflexivity.
  - apply dyn_loop_shift. exact H.
Qed.

Lemma dyn_flush_shift : forall pre n c, dfail (ddest c) = None ->
  dyn_flush (dyn_shift pre n c) = let '(c1, f) := dyn_flush c in (dyn_shift pre n c1, f).
Proof.
  intros pre n c H. unfold dyn_flush. rewrite dyn_block_shift by exact H.
  destruct (dyn_compress_block c true false) as [c1 failed] eqn:E.
  destruct (dyn_block_par _ _ _ _ _ E) as (_ & P2). destruct (P2 H) as (_ & H1).
  destruct failed; [reflexivity|].
  change (dbb (dyn_shift pre n c1)) with (dbb c1).
  destruct (bb_take (bb_empty_block false (dbb c1))) as [chunk bb].
  change (dest_event (ddest (dyn_shift pre n c1)) ESync)
    with (dshift pre n (dest_event (ddest c1) ESync)).
  rewrite dest_write_shift by exact H1.
  destruct (dest_write (dest_event (ddest c1) ESync) chunk) as [d1 failed1].
  reflexivity.
Qed.

Lemma dyn_acc_shift : forall pre n c data,
  dyn_accumulate (dyn_shift pre n c) data =
  let '(c1, k, t) := dyn_accumulate c data in (dyn_shift pre n c1, k, t).
Proof.
  intros pre n c data. unfold dyn_accumulate, dyn_shift. dproj. cbv zeta.
  destruct (2 * dW c <=? didx c); reflexivity.
Qed.

Lemma huf_encode_shift : forall pre n h final, dfail (hdest h) = None ->
  huf_encode_block (huf_shift pre n h) final =
  let '(h1, f) := huf_encode_block h final in (huf_shift pre n h1, f).
Proof.
  intros pre n h final H. unfold huf_encode_block.
  change (hbuf (huf_shift pre n h)) with (hbuf h).
  change (hbb (huf_shift pre n h)) with (hbb h).
  destruct (hbuf h) as [|x r] eqn:Eb.
  - destruct final.
    + destruct (bb_take (bb_empty_block true (hbb h))) as [chunk bb].
      change (dest_event (hdest (huf_shift pre n h)) EFinalEmpty)
        with (dshift pre n (dest_event (hdest h) EFinalEmpty)).
      rewrite dest_write_shift by exact H.
      destruct (dest_write (dest_event (hdest h) EFinalEmpty) chunk) as [d1 failed].
      reflexivity.
    + unfold huf_shift. rewrite Eb. reflexivity.
  - destruct (hencode_block (x :: r) final (hbb h)) as [chunks bb].
    change (dest_event (hdest (huf_shift pre n h)) (EHBlock (x :: r) final))
      with (dshift pre n (dest_event (hdest h) (EHBlock (x :: r) final))).
    rewrite dest_write_all_shift by exact H.
    destruct (dest_write_all (dest_event (hdest h) (EHBlock (x :: r) final)) chunks) as [d1 failed].
    destruct failed; unfold huf_shift; cbn [hbuf hbb hdest]; rewrite ?Eb; reflexivity.
Qed.

Lemma huf_flush_shift : forall pre n h, dfail (hdest h) = None ->
  huf_flush (huf_shift pre n h) = let '(h1, f) := huf_flush h in (huf_shift pre n h1, f).
Proof.
  intros pre n h H. unfold huf_flush. rewrite huf_encode_shift by exact H.
  destruct (huf_encode_block h false) as [h1 failed] eqn:E.
  destruct (huf_encode_healthy _ _ _ _ E H) as (F1 & F2). subst failed.
  change (hbb (huf_shift pre n h1)) with (hbb h1).
  destruct (bb_take (bb_empty_block false (hbb h1))) as [chunk bb].
  change (dest_event (hdest (huf_shift pre n h1)) ESync)
    with (dshift pre n (dest_event (hdest h1) ESync)).
  rewrite dest_write_shift by exact F2.
  destruct (dest_write (dest_event (hdest h1) ESync) chunk) as [d1 failed1].
  reflexivity.
Qed.

Lemma c_acc_shift : forall pre n c data,
  c_accumulate (cshift pre n c) data =
  let '(c1, k, t) := c_accumulate c data in (cshift pre n c1, k, t).
Proof.
  intros pre n [d|h] data; cbn [cshift c_accumulate].
  - rewrite dyn_acc_shift. destruct (dyn_accumulate d data) as [[d1 k] t]. reflexivity.
  - reflexivity.
Qed.

Lemma c_compress_shift : forall pre n c, chealthy c ->
  c_compress (cshift pre n c) = let '(c1, f) := c_compress c in (cshift pre n c1, f).
Proof.
  intros pre n [d|h] H; unfold chealthy in H; cbn [c_dest] in H; cbn [cshift c_compress].
  - rewrite dyn_block_shift by exact H. destruct (dyn_compress_block d false false) as [d1 f]. reflexivity.
  - rewrite huf_encode_shift by exact H. destruct (huf_encode_block h false) as [h1 f]. reflexivity.
Qed.

Lemma c_flush_shift : forall pre n c, chealthy c ->
  c_flush (cshift pre n c) = let '(c1, f) := c_flush c in (cshift pre n c1, f).
Proof.
  intros pre n [d|h] H; unfold chealthy in H; cbn [c_dest] in H; cbn [cshift c_flush].
  - rewrite dyn_flush_shift by exact H. destruct (dyn_flush d) as [d1 f]. reflexivity.
  - rewrite huf_flush_shift by exact H. destruct (huf_flush h) as [h1 f]. reflexivity.
Qed.

Lemma c_close_shift : forall pre n c, chealthy c ->
  c_close (cshift pre n c) = let '(c1, f) := c_close c in (cshift pre n c1, f).
Proof.
  intros pre n [d|h] H; unfold chealthy in H; cbn [c_dest] in H; cbn [cshift c_close].
  - rewrite dyn_block_shift by exact H. destruct (dyn_compress_block d true true) as [d1 f]. reflexivity.
  - rewrite huf_encode_shift by exact H. destruct (huf_encode_block h true) as [h1 f]. reflexivity.
Qed.

Lemma cloop_shift : forall pre n f c d m, chealthy c ->
  cloop f (cshift pre n c) d m =
  match cloop f c d m with Some (c', k, e) => Some (cshift pre n c', k, e) | None => None end.
Proof.
  intros pre n. induction f as [|f IH]; intros c d m H.
  - destruct d as [|x r]; [rewrite !loop_nil; reflexivity|].
    rewrite !loop_O by discriminate. reflexivity.
  - destruct d as [|x r]; [rewrite !loop_nil; reflexivity|].
    rewrite !loop_S by discriminate. rewrite c_acc_shift.
    destruct (c_accumulate c (x :: r)) as [[c1 k] t] eqn:Ea.
    destruct (c_acc_par _ _ _ _ _ Ea) as (_ & A2).
    assert (H1 : chealthy c1) by (unfold chealthy in *; rewrite A2; exact H).
    destruct t.
    + rewrite c_compress_shift by exact H1.
      destruct (c_compress c1) as [c2 failed] eqn:Ec.
      destruct (c_compress_par _ _ _ Ec) as (_ & B2). destruct (B2 H1) as (_ & H2).
      destruct failed; [reflexivity|]. apply IH. exact H2.
    + apply IH. exact H1.
Qed.

Lemma wwrite_shift : forall pre n f w d, chealthy (wc comp w) ->
  W_write f (wshift pre n w) d =
  match W_write f w d with Some (w', k, e) => Some (wshift pre n w', k, e) | None => None end.
Proof.
  intros pre n f [c e] d H. cbn [wc] in H. unfold W_write, wwrite, wshift. cbn [wc we].
  destruct e; try reflexivity.
  rewrite cloop_shift by exact H.
  destruct (cloop f c d 0) as [[[c' k] failed]|]; reflexivity.
Qed.

Lemma wflush_shift : forall pre n w, chealthy (wc comp w) ->
  W_flush (wshift pre n w) = let '(w', e) := W_flush w in (wshift pre n w', e).
Proof.
  intros pre n [c e] H. cbn [wc] in H. unfold W_flush, wflush, wshift. cbn [wc we].
  destruct e; try reflexivity.
  rewrite c_flush_shift by exact H. destruct (c_flush c) as [c' failed]. reflexivity.
Qed.

Lemma wclose_shift : forall pre n w, chealthy (wc comp w) ->
  W_close (wshift pre n w) = let '(w', e) := W_close w in (wshift pre n w', e).
Proof.
  intros pre n [c e] H. cbn [wc] in H. unfold W_close, wclose, wshift. cbn [wc we].
  destruct e; try reflexivity.
  rewrite c_close_shift by exact H. destruct (c_close c) as [c' failed]. reflexivity.
Qed.

(* ------------------------------------------------------------------ *)
(* 2. the container writer after the header                             *)

Ltac cwp := cbn [cw_kind cw_level cw_inner cw_wrote cw_closed cw_err cw_payload].

(* header written, open, no error: the inner writer is the flate writer fw on a destination
   that has the chunks `pre` underneath *)
Definition cw_of (k : ckind) (level : Z) (pre : list (list N)) (n : N) (fw : writer comp)
           (cl : bool) (pl : list N) : cwriter :=
  mkcw k level (wshift pre n fw) true cl false pl.

Lemma wwrite_S : forall f w d r, W_write f w d = Some r -> W_write (S f) w d = Some r.
Proof.
  intros f w d r H. unfold W_write, wwrite in *. destruct (we comp w); try exact H.
  destruct (cloop f (wc comp w) d 0) as [p|] eqn:E; [|discriminate H].
  rewrite (loop_mono _ _ _ _ _ _ _ _ E). exact H.
Qed.

Lemma wwrite_plus : forall k f w d r, W_write f w d = Some r -> W_write (k + f) w d = Some r.
Proof.
  induction k as [|k IH]; intros f w d r H; [exact H|].
  cbn [Nat.add]. apply wwrite_S. apply IH. exact H.
Qed.

Lemma wwrite_fuel_indep : forall sync lv win4k F w d r, reachable sync lv win4k w ->
  W_write F w d = Some r -> W_write (S (length d)) w d = Some r.
Proof.
  intros sync lv win4k F w d r Hr H.
  destruct (W_write (S (length d)) w d) as [p|] eqn:E.
  - pose proof (wwrite_plus (S (length d)) _ _ _ _ H) as H1.
    pose proof (wwrite_plus F _ _ _ _ E) as H2.
    rewrite Nat.add_comm in H2. rewrite H1 in H2. symmetry. exact H2.
  - exfalso. apply (write_fuel sync lv win4k w d (S (length d)) Hr); [lia|exact E].
Qed.

Lemma wwrite_healthy : forall F w d w1 m e, chealthy (wc comp w) ->
  W_write F w d = Some (w1, m, e) ->
  chealthy (wc comp w1) /\ (we comp w = ENone -> e = false /\ we comp w1 = ENone).
Proof.
  intros F [c er] d w1 m e H Hw. cbn [wc we] in *. unfold W_write, wwrite in Hw. cbn [wc we] in Hw.
  destruct er.
  - destruct (cloop F c d 0) as [[[c' k] failed]|] eqn:E; [|discriminate Hw].
    destruct (cloop_par _ _ _ _ _ _ _ E) as (_ & P2). destruct (P2 H) as (P3 & P4). subst failed.
    injection Hw as H1 H2 H3. subst w1 m e. cbn [wc we]. split; [exact P4|]. intros _. split; reflexivity.
  - injection Hw as H1 H2 H3. subst w1 m e. cbn [wc we]. split; [exact H|]. discriminate.
  - injection Hw as H1 H2 H3. subst w1 m e. cbn [wc we]. split; [exact H|]. discriminate.
Qed.

Lemma wflush_healthy : forall w w1 e, chealthy (wc comp w) -> we comp w = ENone ->
  W_flush w = (w1, e) -> chealthy (wc comp w1) /\ e = false /\ we comp w1 = ENone.
Proof.
  intros [c er] w1 e H He Hw. cbn [wc we] in *. subst er. unfold W_flush, wflush in Hw. cbn [wc we] in Hw.
  destruct (c_flush c) as [c' failed] eqn:E.
  destruct (c_flush_par _ _ _ E) as (_ & P2). destruct (P2 H) as (P3 & P4). subst failed.
  injection Hw as H1 H2. subst w1 e. cbn [wc we]. repeat split. exact P4.
Qed.

Lemma wclose_healthy : forall w w1 e, chealthy (wc comp w) -> we comp w = ENone ->
  W_close w = (w1, e) -> chealthy (wc comp w1) /\ e = false.
Proof.
  intros [c er] w1 e H He Hw. cbn [wc we] in *. subst er. unfold W_close, wclose in Hw. cbn [wc we] in Hw.
  destruct (c_close c) as [c' failed] eqn:E.
  destruct (c_close_par _ _ _ E) as (_ & P2). destruct (P2 H) as (P3 & P4). subst failed.
  injection Hw as H1 H2. subst w1 e. cbn [wc we]. split; [exact P4|reflexivity].
Qed.

Lemma wwrite_nil : forall f (w : writer comp), we comp w = ENone ->
  wwrite comp c_accumulate c_compress f w [] = Some (w, 0%nat, false).
Proof. intros f w H. exact (write_empty w f H). Qed.

(* one Write after the header *)
Lemma cw_step_write : forall sync lv win4k k level pre n F fw pl d w1 m,
  reachable sync lv win4k fw -> chealthy (wc comp fw) -> we comp fw = ENone ->
  W_write F fw d = Some (w1, m, false) ->
  cw_step (cw_of k level pre n fw false pl) (HWrite d)
    = Some (cw_of k level pre n w1 false (rev d ++ pl), false).
Proof.
  intros sync lv win4k k level pre n F fw pl d w1 m Hr Hh He Hw.
  pose proof (wwrite_fuel_indep _ _ _ _ _ _ _ Hr Hw) as Hw1.
  pose proof (wwrite_shift pre n (S (length d)) fw d Hh) as Hs. rewrite Hw1 in Hs.
  unfold W_write in Hs.
  unfold cw_step, cw_of. cwp. destruct k as [hdr|].
  - unfold gzw_write. cwp. unfold cw_ensure_header. cwp. unfold inner_write. cwp.
    rewrite Hs. cbn [orb]. rewrite rev_append_rev. reflexivity.
  - unfold zlw_write. unfold cw_ensure_header. cwp.
    destruct d as [|x d'].
    + pose proof (write_empty fw F He) as Hw0. rewrite Hw in Hw0.
      injection Hw0 as H1 H2. subst w1 m. reflexivity.
    + unfold inner_write. cwp. rewrite Hs. cbn [orb]. cwp. rewrite rev_append_rev. reflexivity.
Qed.

Lemma cw_step_flush : forall k level pre n fw pl w1,
  chealthy (wc comp fw) -> W_flush fw = (w1, false) ->
  cw_step (cw_of k level pre n fw false pl) HFlush = Some (cw_of k level pre n w1 false pl, false).
Proof.
  intros k level pre n fw pl w1 Hh Hf.
  pose proof (wflush_shift pre n fw Hh) as Hs. rewrite Hf in Hs. unfold W_flush in Hs.
  unfold cw_step, cw_of. cwp. destruct k as [hdr|].
  - unfold gzw_flush. cwp. unfold cw_ensure_header. cwp. rewrite Hs. cbn [orb]. reflexivity.
  - unfold zlw_flush. unfold cw_ensure_header. cwp. rewrite Hs. reflexivity.
Qed.

Definition trailer_of (k : ckind) (payload : list N) : list N :=
  match k with KGzip _ => gz_trailer payload | KZlib => be32 (adler32 payload) end.

Lemma cshift_chunks : forall pre n c, dchunks (c_dest (cshift pre n c)) = dchunks (c_dest c) ++ pre.
Proof. intros pre n [d|h]; reflexivity. Qed.

Lemma comp_dest_write_healthy : forall c chunk, chealthy c ->
  exists c1, comp_dest_write c chunk = (c1, false) /\
             dchunks (c_dest c1) = chunk :: dchunks (c_dest c).
Proof.
  intros [d|h] chunk H; unfold chealthy in H; cbn [c_dest] in H; unfold comp_dest_write, dest_write;
    rewrite H; eexists; (split; [reflexivity|]); reflexivity.
Qed.

Lemma cshift_healthy : forall pre n c, chealthy c -> chealthy (cshift pre n c).
Proof. intros pre n [d|h] H; exact H. Qed.

(* the Close after the header *)
Lemma cw_step_close : forall k level pre n fw pl w1,
  chealthy (wc comp fw) -> we comp fw = ENone -> W_close fw = (w1, false) ->
  exists w, cw_step (cw_of k level pre n fw false pl) HClose = Some (w, false) /\
        cw_wrote w = true /\ cw_closed w = true /\ cw_err w = false /\
        dchunks (cw_dest w) = trailer_of k (rev pl) :: dchunks (c_dest (wc comp w1)) ++ pre.
Proof.
  intros k level pre n fw pl w1 Hh He Hc.
  pose proof (wclose_shift pre n fw Hh) as Hs. rewrite Hc in Hs. unfold W_close in Hs.
  destruct (wclose_healthy _ _ _ Hh He Hc) as (Hh1 & _).
  unfold cw_step, cw_of. cwp. destruct k as [hdr|].
  - unfold gzw_close. cwp. unfold cw_ensure_header. cwp. rewrite Hs.
    destruct (comp_dest_write_healthy (wc comp (wshift pre n w1)) (gz_trailer (rev pl))
                (cshift_healthy _ _ _ Hh1)) as (c1 & E1 & E2).
    rewrite E1. eexists. split; [reflexivity|]. cwp. repeat split.
    unfold cw_dest. cwp. cbn [wc]. rewrite E2. unfold wshift. cbn [wc]. rewrite cshift_chunks. reflexivity.
  - unfold zlw_close, cw_ensure_header. cwp. rewrite Hs.
    destruct (comp_dest_write_healthy (wc comp (wshift pre n w1)) (be32 (adler32 (rev pl)))
                (cshift_healthy _ _ _ Hh1)) as (c1 & E1 & E2).
    rewrite E1. eexists. split; [reflexivity|]. cwp. repeat split.
    unfold cw_dest. cwp. cbn [wc]. rewrite E2. unfold wshift. cbn [wc]. rewrite cshift_chunks. reflexivity.
Qed.

(* a history of Writes and Flushes after the header *)
Lemma cw_sim : forall sync lv win4k k level pre n F h fw pl fw' flags,
  no_close h -> reachable sync lv win4k fw -> chealthy (wc comp fw) -> we comp fw = ENone ->
  W_run F fw (map hop_op h) = Some (fw', flags) ->
  cw_hrun_from (cw_of k level pre n fw false pl) h
    = Some (cw_of k level pre n fw' false (rev (hist_data h) ++ pl), flags) /\
  Forall (fun e => e = false) flags /\
  reachable sync lv win4k fw' /\ chealthy (wc comp fw') /\ we comp fw' = ENone.
Proof.
  intros sync lv win4k k level pre n F. induction h as [|o h IH]; intros fw pl fw' flags Hnc Hr Hh He Hrun.
  - cbn [map] in Hrun. unfold W_run in Hrun. cbn [WriterSM.wrun] in Hrun.
    injection Hrun as H1 H2. subst fw' flags. cbn [cw_hrun_from hist_data flat_map rev app].
    repeat split; auto.
  - inversion Hnc as [|? ? Ho Hnc']; subst.
    unfold W_run in Hrun. cbn [map WriterSM.wrun] in Hrun.
    destruct o as [d| |]; [| |congruence]; cbn [hop_op wstep] in Hrun.
    + fold (W_write F fw d) in Hrun.
      destruct (W_write F fw d) as [[[w1 m] e]|] eqn:Ew; [|discriminate Hrun].
      destruct (wwrite_healthy _ _ _ _ _ _ Hh Ew) as (Hh1 & He1). destruct (He1 He) as (-> & He2).
      assert (Hr1 : reachable sync lv win4k w1) by (eapply R_write; eassumption).
      fold (W_run F w1 (map hop_op h)) in Hrun.
      destruct (W_run F w1 (map hop_op h)) as [[w2 es]|] eqn:Er; [|discriminate Hrun].
      injection Hrun as H1 H2. subst fw' flags.
      destruct (IH w1 (rev d ++ pl) w2 es Hnc' Hr1 Hh1 He2 Er) as (I1 & I2 & I3 & I4 & I5).
      cbn [cw_hrun_from].
      rewrite (cw_step_write _ _ _ k level pre n _ _ pl _ _ _ Hr Hh He Ew). rewrite I1.
      split.
      { cbn [hist_data flat_map]. fold (hist_data h). rewrite rev_app_distr, <- app_assoc. reflexivity. }
      split; [constructor; [reflexivity|exact I2]|]. auto.
    + fold (W_flush fw) in Hrun.
      destruct (W_flush fw) as [w1 e] eqn:Ef.
      destruct (wflush_healthy _ _ _ Hh He Ef) as (Hh1 & -> & He2).
      assert (Hr1 : reachable sync lv win4k w1).
      { replace w1 with (fst (W_flush fw)) by (rewrite Ef; reflexivity). apply R_flush. exact Hr. }
      fold (W_run F w1 (map hop_op h)) in Hrun.
      destruct (W_run F w1 (map hop_op h)) as [[w2 es]|] eqn:Er; [|discriminate Hrun].
      injection Hrun as H1 H2. subst fw' flags.
      destruct (IH w1 pl w2 es Hnc' Hr1 Hh1 He2 Er) as (I1 & I2 & I3 & I4 & I5).
      cbn [cw_hrun_from].
      rewrite (cw_step_flush k level pre n fw pl w1 Hh Ef). rewrite I1.
      split; [reflexivity|]. split; [constructor; [reflexivity|exact I2]|]. auto.
Qed.

Lemma cw_hrun_from_app : forall a b w,
  cw_hrun_from w (a ++ b) =
  match cw_hrun_from w a with
  | None => None
  | Some (w1, f1) =>
    match cw_hrun_from w1 b with None => None | Some (w2, f2) => Some (w2, f1 ++ f2) end
  end.
Proof.
  induction a as [|o a IH]; intros b w; cbn [app cw_hrun_from].
  - destruct (cw_hrun_from w b) as [[w2 f2]|]; reflexivity.
  - destruct (cw_step w o) as [[w1 e]|]; [|reflexivity]. rewrite IH.
    destruct (cw_hrun_from w1 a) as [[w2 es]|]; [|reflexivity].
    destruct (cw_hrun_from w2 b) as [[w3 f3]|]; reflexivity.
Qed.

(* ------------------------------------------------------------------ *)
(* 3. the first operation writes the header                             *)

Lemma cdwa_huf : forall chunks b bb pre n tr,
  comp_dest_write_all (CHuf (mkhuf b bb (mkdest pre n None tr))) chunks
  = (CHuf (mkhuf b bb (mkdest (rev chunks ++ pre) (n + lenN chunks) None tr)), false).
Proof.
  induction chunks as [|x r IH]; intros b bb pre n tr; cbn [comp_dest_write_all].
  - cbn [rev app]. unfold lenN. cbn [length]. f_equal. f_equal. f_equal. f_equal. lia.
  - unfold comp_dest_write, dest_write. cbn [hdest hbuf hbb dchunks dcalls dfail dtrace].
    rewrite IH. cbn [rev]. rewrite <- app_assoc. cbn [app].
    f_equal. f_equal. f_equal. f_equal. unfold lenN. cbn [length]. lia.
Qed.

Lemma cdwa_dyn : forall chunks W mask sy b ix pr tb tk nt bb ob pre n tr,
  comp_dest_write_all (CDyn (mkdyn W mask sy b ix pr tb tk nt bb (mkdest pre n None tr) ob)) chunks
  = (CDyn (mkdyn W mask sy b ix pr tb tk nt bb (mkdest (rev chunks ++ pre) (n + lenN chunks) None tr) ob), false).
Proof.
  induction chunks as [|x r IH]; intros W mask sy b ix pr tb tk nt bb ob pre n tr; cbn [comp_dest_write_all].
  - cbn [rev app]. unfold lenN. cbn [length]. f_equal. f_equal. f_equal. f_equal. lia.
  - unfold comp_dest_write, dest_write. dproj. cbn [dchunks dcalls dfail dtrace].
    rewrite IH. cbn [rev]. rewrite <- app_assoc. cbn [app].
    f_equal. f_equal. f_equal. f_equal. unfold lenN. cbn [length]. lia.
Qed.

Lemma header_on_new : forall sync lv chunks,
  comp_dest_write_all (comp_new sync lv false None) chunks
  = (cshift (rev chunks) (lenN chunks) (comp_new sync lv false None), false).
Proof.
  intros sync lv chunks. unfold comp_new. destruct (lv =? -2)%Z.
  - unfold huf_new, dest_new. rewrite cdwa_huf. rewrite app_nil_r. reflexivity.
  - unfold dyn_new, dest_new. rewrite cdwa_dyn. rewrite app_nil_r. reflexivity.
Qed.

Definition cw_lv (level : Z) : Z := if (level =? -1)%Z then 2%Z else level.

Definition hpre (k : ckind) (level : Z) : list (list N) := rev (header_pieces k level).
Definition hnum (k : ckind) (level : Z) : N := lenN (header_pieces k level).

Lemma ensure_header_fresh : forall k level sync lv cl pl,
  cw_ensure_header (mkcw k level (W_new sync lv false None) false cl false pl)
  = (cw_of k level (hpre k level) (hnum k level) (W_new sync lv false None) cl pl, false).
Proof.
  intros k level sync lv cl pl. unfold cw_ensure_header, W_new. cwp. cbn [wc we].
  rewrite header_on_new. cbn [orb]. reflexivity.
Qed.

Lemma first_step : forall k sync level o,
  cw_step (cw_new k sync level None) o
  = cw_step (cw_of k level (hpre k level) (hnum k level) (W_new sync (cw_lv level) false None) false []) o.
Proof.
  intros k sync level o. unfold cw_new. fold (cw_lv level).
  fold (W_new sync (cw_lv level) false None).
  set (fw := W_new sync (cw_lv level) false None).
  assert (Hfw : we comp (wshift (hpre k level) (hnum k level) fw) = ENone) by reflexivity.
  destruct o as [d| |]; unfold cw_step; cwp; unfold cw_of at 1; cwp; destruct k as [hdr|].
  - unfold gzw_write. cwp. subst fw. rewrite ensure_header_fresh.
    unfold cw_of, cw_ensure_header. cwp. reflexivity.
  - unfold zlw_write. subst fw. rewrite ensure_header_fresh.
    unfold cw_of, cw_ensure_header. cwp. reflexivity.
  - unfold gzw_flush. cwp. subst fw. rewrite ensure_header_fresh.
    unfold cw_of, cw_ensure_header, inner_write. cwp. rewrite (wwrite_nil _ _ Hfw). cbn [orb]. reflexivity.
  - unfold zlw_flush. subst fw. rewrite ensure_header_fresh.
    unfold cw_of, cw_ensure_header. cwp. reflexivity.
  - unfold gzw_close. cwp. subst fw. rewrite ensure_header_fresh.
    unfold cw_of, cw_ensure_header, inner_write. cwp. rewrite (wwrite_nil _ _ Hfw). cbn [orb]. reflexivity.
  - unfold zlw_close. subst fw. rewrite ensure_header_fresh.
    unfold cw_of, cw_ensure_header. cwp. reflexivity.
Qed.

Lemma first_run : forall k sync level l, l <> [] ->
  cw_hrun k sync level l
  = cw_hrun_from (cw_of k level (hpre k level) (hnum k level) (W_new sync (cw_lv level) false None) false []) l.
Proof.
  intros k sync level l Hl. destruct l as [|o r]; [congruence|].
  unfold cw_hrun. cbn [cw_hrun_from]. rewrite first_step. reflexivity.
Qed.

(* ------------------------------------------------------------------ *)
(* 4. whole histories                                                   *)

Lemma concat_rev_chunks : forall (t : list N) (inner pieces : list (list N)),
  concat (rev (t :: inner ++ rev pieces)) = concat pieces ++ concat (rev inner) ++ t.
Proof.
  intros t inner pieces. cbn [rev]. rewrite rev_app_distr, rev_involutive.
  rewrite !concat_app. cbn [concat]. rewrite app_nil_r, <- app_assoc. reflexivity.
Qed.

Lemma cw_core : forall k sync level h, no_close h -> bytes_ok (hist_data h) ->
  exists w flags body,
    cw_hrun k sync level (h ++ [HClose]) = Some (w, flags) /\
    Forall (fun e => e = false) flags /\
    cw_wrote w = true /\ cw_closed w = true /\ cw_err w = false /\
    body_for body (hist_data h) /\
    cw_bytes w = concat (header_pieces k level) ++ body ++ trailer_of k (hist_data h).
Proof.
  intros k sync level h Hnc Hb.
  destruct (C01_unconditional sync (cw_lv level) false h Hnc Hb) as (fw' & fl & Hrun & Hfl & Hinf).
  cbv zeta in Hinf.
  unfold hrun in Hrun. fold (W_new sync (cw_lv level) false None) in Hrun.
  set (F := S (length (hist_data (h ++ [HClose])))) in Hrun.
  fold (W_run F (W_new sync (cw_lv level) false None) (map hop_op (h ++ [HClose]))) in Hrun.
  rewrite map_app, wrun_app in Hrun.
  set (fw0 := W_new sync (cw_lv level) false None) in *.
  destruct (W_run F fw0 (map hop_op h)) as [[fw1 f1]|] eqn:E1; [|discriminate Hrun].
  assert (Hr0 : reachable sync (cw_lv level) false fw0) by apply R_new.
  assert (Hh0 : chealthy (wc comp fw0)) by apply comp_new_healthy.
  destruct (cw_sim sync (cw_lv level) false k level (hpre k level) (hnum k level) F h fw0 [] fw1 f1
              Hnc Hr0 Hh0 eq_refl E1) as (S1 & S2 & S3 & S4 & S5).
  unfold W_run in Hrun. cbn [map hop_op WriterSM.wrun wstep] in Hrun.
  fold (W_close fw1) in Hrun.
  destruct (W_close fw1) as [fw2 e] eqn:Ec.
  injection Hrun as H1 H2. subst fw' fl.
  destruct (wclose_healthy _ _ _ S4 S5 Ec) as (_ & ->).
  destruct (cw_step_close k level (hpre k level) (hnum k level) fw1 (rev (hist_data h) ++ []) fw2 S4 S5 Ec)
    as (w & C1 & C2 & C3 & C4 & C5).
  exists w, (f1 ++ [false]), (run_bytes fw2).
  split.
  { rewrite first_run by (destruct h; discriminate). fold fw0.
    rewrite cw_hrun_from_app. rewrite S1. cbn [cw_hrun_from]. rewrite C1. reflexivity. }
  split; [exact Hfl|]. split; [exact C2|]. split; [exact C3|]. split; [exact C4|].
  split; [exact Hinf|].
  unfold cw_bytes. rewrite C5. unfold hpre. rewrite concat_rev_chunks.
  rewrite app_nil_r, rev_involutive. reflexivity.
Qed.

(* ------------------------------------------------------------------ *)
(* the gzip header as the Writer lays it out                            *)

Import ContainersProofs.

Definition gzw_flg (ex : option (list N)) (nm cm : list N) : N :=
  (match ex with Some _ => 4 | None => 0 end) +
  (match nm with [] => 0 | _ => 8 end) + (match cm with [] => 0 | _ => 16 end).

Definition gzw_extra_bytes (ex : option (list N)) : list N :=
  match ex with Some e => le16 (N.of_nat (length e)) ++ e | None => [] end.

Lemma gzw_pieces_shape : forall ex nm cm mt os level rest,
  concat (gz_header_pieces (mkgwh ex nm cm mt os) level) ++ rest =
  31 :: 139 :: 8 :: gzw_flg ex nm cm ::
  mt mod 256 :: (mt / 256) mod 256 :: (mt / 65536) mod 256 :: (mt / 16777216) mod 256 ::
  gz_xfl level :: os :: (gzw_extra_bytes ex ++ enc_str nm ++ enc_str cm ++ rest).
Proof.
  intros ex nm cm mt os level rest. unfold gz_header_pieces. cbn [gw_extra gw_name gw_comment gw_mtime gw_os].
  fold (gzw_flg ex nm cm). unfold le32, gzw_extra_bytes.
  destruct ex as [e|], nm as [|x nm], cm as [|y cm]; cbn [app concat enc_str];
    repeat (first [rewrite <- app_assoc | rewrite app_nil_r | progress cbn [app]]); reflexivity.
Qed.

Lemma gzw_flg_bits : forall ex nm cm,
  N.testbit (gzw_flg ex nm cm) 1 = false /\
  N.testbit (gzw_flg ex nm cm) 2 = (match ex with Some _ => true | None => false end) /\
  N.testbit (gzw_flg ex nm cm) 3 = negb (nilb nm) /\
  N.testbit (gzw_flg ex nm cm) 4 = negb (nilb cm).
Proof.
  intros ex nm cm. unfold gzw_flg. destruct ex, nm, cm; repeat split; reflexivity.
Qed.

Lemma gzw_p_extra : forall ex Y,
  (match ex with Some e => (length e < 65536)%nat | None => True end) ->
  p_extra (match ex with Some _ => true | None => false end) (gzw_extra_bytes ex ++ Y)
  = inl (match ex with Some e => e | None => [] end, Y).
Proof.
  intros [e|] Y H; [|reflexivity].
  unfold gzw_extra_bytes, le16. rewrite <- app_assoc. cbn [app].
  apply (p_extra_gen _ _ e). apply le16_len. exact H.
Qed.

Lemma gzw_header_parse : forall hdr level rest, gzw_hdr_ok hdr ->
  gz_parse_header (concat (gz_header_pieces hdr level) ++ rest) = HP_ok (ghdr_of hdr level) rest.
Proof.
  intros [ex nm cm mt os] level rest (Hmt & Hos & Hex & _ & _ & Hn1 & Hc1 & Hn2 & Hc2).
  cbn [gw_extra gw_name gw_comment gw_mtime gw_os] in *.
  rewrite (parse_fixed _ _ _ _ _ _ _ _ _ (gzw_pieces_shape ex nm cm mt os level rest)).
  fold (le32 mt). rewrite of_le_le32 by exact Hmt.
  destruct (gzw_flg_bits ex nm cm) as (F1 & F2 & F3 & F4).
  unfold parse_tail. rewrite F1, F2, F3, F4.
  rewrite gzw_p_extra by (destruct ex as [e|]; [apply Hex|exact I]).
  rewrite p_str_ok by assumption. rewrite p_str_ok by assumption.
  reflexivity.
Qed.

(* ------------------------------------------------------------------ *)
(* the theorems                                                         *)

Theorem gzw_roundtrip : gzw_roundtrip_statement.
Proof.
  intros hdr sync level h _ Hok Hnc Hb.
  destruct (cw_core (KGzip hdr) sync level h Hnc Hb) as (w & flags & body & Hrun & Hfl & _ & _ & _ & Hbody & Hbytes).
  exists w, flags. split; [exact Hrun|]. split; [exact Hfl|].
  cbn [header_pieces trailer_of] in Hbytes.
  assert (E : gz_read true (cw_bytes w) = mkgres (hist_data h) CEOF [] [ghdr_of hdr level] false).
  { rewrite Hbytes. unfold gz_read. rewrite (gzw_header_parse hdr level _ Hok).
    match goal with |- gz_members ?fuel _ _ _ _ = _ =>
      pose proof (members_concat inflate_mono [] (Forall_nil _) fuel body (hist_data h) []
                    [ghdr_of hdr level] Hbody ltac:(cbn [length]; lia)) as Hm end.
    change (members_bytes []) with (@nil byte) in Hm. rewrite app_nil_r in Hm. rewrite Hm.
    cbn [map concat rev app]. rewrite app_nil_r. reflexivity. }
  rewrite E. cbn [g_payload g_err g_left g_hdrs]. repeat split.
Qed.

Lemma zl_level_bits_lt : forall level, zl_level_bits level < 4.
Proof.
  intros level. unfold zl_level_bits.
  destruct ((level =? -2) || (level =? 0) || (level =? 1))%Z; [lia|].
  destruct ((2 <=? level) && (level <=? 5))%Z; [lia|].
  destruct ((level =? 6) || (level =? -1))%Z; lia.
Qed.

Theorem zlw_roundtrip : zlw_roundtrip_statement.
Proof.
  intros sync level h _ Hnc Hb.
  destruct (cw_core KZlib sync level h Hnc Hb) as (w & flags & body & Hrun & Hfl & _ & _ & _ & Hbody & Hbytes).
  exists w, flags. split; [exact Hrun|]. split; [exact Hfl|].
  cbn [header_pieces trailer_of concat] in Hbytes. rewrite app_nil_r in Hbytes.
  destruct Hbody as (Hd & Ho & Hn).
  rewrite Hbytes.
  pose proof (zl_roundtrip inflate_mono (zl_level_bits level) None body (hist_data h) []
                (zl_level_bits_lt level) Hd Ho Hn) as Hz.
  unfold zl_stream in Hz. rewrite app_nil_r in Hz. exact Hz.
Qed.

Lemma closed_close_again : forall w, cw_wrote w = true -> cw_closed w = true -> cw_err w = false ->
  cw_step w HClose = Some (w, false).
Proof.
  intros w Hw Hc He. unfold cw_step. destruct (cw_kind w).
  - unfold gzw_close. rewrite He, Hc. reflexivity.
  - unfold zlw_close, cw_ensure_header. rewrite Hw, He, Hc. reflexivity.
Qed.

Theorem cw_close_idempotent : cw_close_idempotent_statement.
Proof.
  intros k sync level h w flags _ Hnc Hb Hrun.
  destruct (cw_core k sync level h Hnc Hb) as (w' & flags' & body & Hrun' & _ & Hw & Hc & He & _).
  rewrite Hrun in Hrun'. injection Hrun' as H1 H2. subst w' flags'.
  apply closed_close_again; assumption.
Qed.

Print Assumptions gzw_roundtrip.
Print Assumptions zlw_roundtrip.
Print Assumptions cw_close_idempotent.
