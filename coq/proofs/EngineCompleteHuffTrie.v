(* EngineCompleteHuffTrie.v -- completeness side of M5, layer 0: the reference's trie decoder
   on incomplete input (DNeed <-> the stream is a proper prefix of a code word), canonical
   code facts (length bound, one word per symbol). *)
From Coq Require Import List NArith ZArith Bool Lia ZifyBool ZifyNat ZifyN.
From Verif Require Import Bits Huffman HuffmanSpec Inflate.
From Verif Require Import Base.
From Verif Require HuffmanProofs.
From Verif Require Import EngineRefineBridge.
Import ListNotations.
Open Scope N_scope.

(* ---------------------------------------------------------------- live tries: every node
   has a leaf below it (what tinsert builds) *)
Inductive lv : trie -> Prop :=
| lv_leaf : forall x, lv (TLeaf x)
| lv_node : forall a b, (a = TEmpty \/ lv a) -> (b = TEmpty \/ lv b) -> (lv a \/ lv b) -> lv (TNode a b).

Lemma tinsert_lv : forall w t s t', (t = TEmpty \/ lv t) -> tinsert t w s = Some t' -> lv t'.
Proof.
  induction w as [|b r IH]; intros t s t' Ht H.
  - destruct t; cbn [tinsert] in H; try discriminate. injection H as <-. constructor.
  - destruct t as [|x|t0 t1]; cbn [tinsert] in H.
    + destruct (tinsert TEmpty r s) as [t2|] eqn:E; [|discriminate]. injection H as <-.
      assert (L : lv t2) by (eapply IH; [left; reflexivity|exact E]).
      destruct b; constructor; auto.
    + discriminate.
    + destruct Ht as [Ht|Ht]; [discriminate|]. inversion Ht as [|a b0 Ha Hb Hab]; subst.
      destruct b.
      * destruct (tinsert t1 r s) as [t2|] eqn:E; [|discriminate]. injection H as <-.
        assert (L : lv t2) by (eapply IH; [exact Hb|exact E]). constructor; auto.
      * destruct (tinsert t0 r s) as [t2|] eqn:E; [|discriminate]. injection H as <-.
        assert (L : lv t2) by (eapply IH; [exact Ha|exact E]). constructor; auto.
Qed.

Lemma build_lv : forall cs t t', (t = TEmpty \/ lv t) -> build cs t = Some t' -> (t' = TEmpty \/ lv t').
Proof.
  induction cs as [|[[s len] c] r IH]; intros t t' Ht H; cbn [build] in H.
  - injection H as <-. exact Ht.
  - destruct (tinsert t (code_bits len c) s) as [t1|] eqn:E; [|discriminate].
    eapply IH; [|exact H]. right. eapply tinsert_lv; eassumption.
Qed.

Lemma lv_has_leaf : forall t, lv t -> exists w x, HuffmanProofs.tlookup t w = Some x.
Proof.
  induction t as [|y|a IHa b IHb]; intros H.
  - inversion H.
  - exists [], y. reflexivity.
  - inversion H as [|a0 b0 Ha Hb Hab]; subst. destruct Hab as [L|L].
    + destruct (IHa L) as (w & x & E). exists (false :: w), x. exact E.
    + destruct (IHb L) as (w & x & E). exists (true :: w), x. exact E.
Qed.

(* the decoder runs out of bits: the bits are a proper prefix of a word of the trie *)
Lemma decode_need_prefix : forall q t p, (t = TEmpty \/ lv t) ->
  decode_sym t (mkbs q p) = DNeed ->
  exists z x, z <> [] /\ HuffmanProofs.tlookup t (q ++ z) = Some x.
Proof.
  induction q as [|b r IH]; intros t p Ht H.
  - destruct t as [|y|t0 t1]; cbn [decode_sym] in H; try discriminate.
    destruct Ht as [Ht|Ht]; [discriminate|].
    destruct (lv_has_leaf _ Ht) as (w & x & E).
    destruct w as [|b w]; [cbn in E; discriminate|].
    exists (b :: w), x. split; [discriminate|exact E].
  - destruct t as [|y|t0 t1]; cbn [decode_sym] in H; try discriminate.
    unfold take1 in H. cbn [bl bp] in H.
    destruct Ht as [Ht|Ht]; [discriminate|]. inversion Ht as [|a0 b0 Ha Hb Hab]; subst.
    assert (Hc : (if b then t1 else t0) = TEmpty \/ lv (if b then t1 else t0)) by (destruct b; assumption).
    destruct (IH _ _ Hc H) as (z & x & Hz & E).
    exists z, x. split; [exact Hz|]. cbn [app HuffmanProofs.tlookup]. exact E.
Qed.

(* ... and conversely *)
Lemma decode_prefix_need : forall q t z x p, z <> [] ->
  HuffmanProofs.tlookup t (q ++ z) = Some x -> decode_sym t (mkbs q p) = DNeed.
Proof.
  induction q as [|b r IH]; intros t z x p Hz E.
  - cbn [app] in E. destruct z as [|b z]; [contradiction|].
    destruct t as [|y|t0 t1]; cbn [HuffmanProofs.tlookup] in E; try discriminate.
    reflexivity.
  - cbn [app] in E. destruct t as [|y|t0 t1]; cbn [HuffmanProofs.tlookup] in E; try discriminate.
    cbn [decode_sym]. unfold take1. cbn [bl bp]. eapply IH; eassumption.
Qed.

(* ---------------------------------------------------------------- the same for mktrie *)
Lemma mktrie_build : forall maxl l t, mktrie maxl l = Some t ->
  oversubscribed maxl l = false /\ build (canon l) TEmpty = Some t.
Proof.
  intros maxl l t H. unfold mktrie in H. destruct (oversubscribed maxl l); [discriminate|]. auto.
Qed.

Lemma canon_need : forall maxl l t s len c q z p,
  mktrie maxl l = Some t -> In (s, len, c) (canon l) -> code_bits len c = q ++ z -> z <> [] ->
  decode_sym t (mkbs q p) = DNeed.
Proof.
  intros maxl l t s len c q z p Hmk Hin Hw Hz.
  destruct (mktrie_build _ _ _ Hmk) as [_ Hb].
  destruct (HuffmanProofs.build_lookup _ _ _ Hb) as [_ L].
  eapply decode_prefix_need; [exact Hz|]. rewrite <- Hw. apply L. exact Hin.
Qed.

Lemma need_canon : forall maxl l t q p,
  mktrie maxl l = Some t -> decode_sym t (mkbs q p) = DNeed ->
  exists s len c z, In (s, len, c) (canon l) /\ code_bits len c = q ++ z /\ z <> [].
Proof.
  intros maxl l t q p Hmk H.
  destruct (mktrie_build _ _ _ Hmk) as [_ Hb].
  assert (Ht : t = TEmpty \/ lv t) by (eapply build_lv; [left; reflexivity|exact Hb]).
  destruct (decode_need_prefix q t p Ht H) as (z & x & Hz & E).
  destruct (build_lookup_inv _ _ _ _ _ Hb E) as [E0|(len & c & Hin & Hw)].
  - rewrite HuffmanProofs.tlookup_empty in E0. discriminate.
  - exists x, len, c, z. auto.
Qed.

(* ---------------------------------------------------------------- canonical codes *)
Lemma canon_len : forall maxl l s len c, (maxl <= 16)%nat -> Forall (fun x => (x <= maxl)%nat) l ->
  In (s, len, c) (canon l) -> (1 <= len <= maxl)%nat.
Proof.
  intros maxl l s len c Hm Hl Hin.
  pose proof (HuffmanProofs.canon_good maxl l Hm Hl) as G. rewrite Forall_forall in G.
  specialize (G _ Hin). cbn in G. lia.
Qed.

Lemma assign_sym_ge : forall r sym nc s x c, In (s, x, c) (assign r sym nc) -> (sym <= s)%nat.
Proof.
  induction r as [|x0 r IH]; intros sym nc s x c H; cbn [assign] in H; [destruct H|].
  destruct (Nat.eqb x0 0).
  - apply IH in H. lia.
  - destruct H as [H|H]; [injection H as <- _ _; lia|apply IH in H; lia].
Qed.

Lemma assign_sym_unique : forall r sym nc s x c x' c',
  In (s, x, c) (assign r sym nc) -> In (s, x', c') (assign r sym nc) -> x = x' /\ c = c'.
Proof.
  induction r as [|x0 r IH]; intros sym nc s x c x' c' H H'; cbn [assign] in H, H'; [destruct H|].
  destruct (Nat.eqb x0 0).
  - eapply IH; eassumption.
  - destruct H as [H|H]; destruct H' as [H'|H'].
    + injection H as <- <- <-. injection H' as <- <-. auto.
    + injection H as <- _ _. apply assign_sym_ge in H'. lia.
    + injection H' as <- _ _. apply assign_sym_ge in H. lia.
    + eapply IH; eassumption.
Qed.

Lemma canon_sym_unique : forall l s x c x' c',
  In (s, x, c) (canon l) -> In (s, x', c') (canon l) -> x = x' /\ c = c'.
Proof. intros l s x c x' c'. unfold canon. apply assign_sym_unique. Qed.

Lemma canon_sym_lt : forall l s x c, In (s, x, c) (canon l) -> (s < length l)%nat.
Proof.
  intros l s x c. unfold canon. generalize (map (first_code l) (seq 0 17)) as nc.
  assert (G : forall r sym nc, In (s, x, c) (assign r sym nc) -> (s < sym + length r)%nat).
  { induction r as [|x0 r IH]; intros sym nc H; cbn [assign] in H; [destruct H|].
    cbn [length]. destruct (Nat.eqb x0 0).
    - apply IH in H. lia.
    - destruct H as [H|H]; [injection H as <- _ _; lia|apply IH in H; lia]. }
  intros nc H. apply G in H. lia.
Qed.
