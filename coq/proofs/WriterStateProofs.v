(* WriterStateProofs.v — proofs of the statements of WModel/WriterSpec.v.

   Historical note.  write_fuel_statement and write_split_statement originally quantified over
   ALL writer records, and were false in that form (refuted in Coq at the time):
   * Huffman-only compressor whose buffer already holds 65537 > huf_max bytes,
       w = mkw comp (CHuf (mkhuf (repeat 0 65537) bb_empty (dest_new None))) ENone :
     Accumulate copies 0 bytes and does not trigger, the loop of Write spins:
     W_write 2 w [0] = None (and for every other fuel); with a = [0], b = [] this also refuted
     the split statement, which requires the calls not to run out of fuel.
   * dynCompressor with window 1, a full buffer of 260 zeros, idx = 0, processed = 1, empty table,
       w = mkw comp (CDyn (mkdyn 1 4095 false (repeat 0 260) 0 1 aempty [] 0 bb_empty
                                 (dest_new None) false)) ENone :
     Accumulate copies nothing, Compress stops at once on the (modelled) out-of-bounds candidate
     without advancing idx, two iterations are wasted: W_write 2 w [0] = None.
   WriterSpec.v now restricts both statements to the states reachable from a new writer
   (predicate `reachable`), which is what is proved here.  The split equalities themselves
   (split_core + c_acc_split) hold for every state as soon as the one-shot call terminates; only
   termination (fuel) needs the invariant of reachable states (reachable_inv). *)
From Verif Require Import WriterSpec.
From Verif Require Import LZ77Proofs.
From Coq Require Import ZArith Lia ZifyBool ZifyNat ZifyN.
Open Scope N_scope.

(* ------------------------------------------------------------------ *)
(* list helpers                                                         *)

Lemma firstn_app_le : forall (A : Type) (n : nat) (a b : list A),
  (n <= length a)%nat -> firstn n (a ++ b) = firstn n a.
Proof.
  intros A n a b H. rewrite firstn_app.
  replace (n - length a)%nat with O by lia. cbn [firstn]. apply app_nil_r.
Qed.

Lemma firstn_app_ge : forall (A : Type) (n : nat) (a b : list A),
  (length a <= n)%nat -> firstn n (a ++ b) = a ++ firstn (n - length a) b.
Proof.
  intros A n a b H. rewrite firstn_app. rewrite firstn_all2 by exact H. reflexivity.
Qed.

Lemma skipn_app_le : forall (A : Type) (n : nat) (a b : list A),
  (n <= length a)%nat -> skipn n (a ++ b) = skipn n a ++ b.
Proof.
  intros A n a b H. rewrite skipn_app.
  replace (n - length a)%nat with O by lia. reflexivity.
Qed.

Lemma skipn_app_ge : forall (A : Type) (n : nat) (a b : list A),
  (length a <= n)%nat -> skipn n (a ++ b) = skipn (n - length a) b.
Proof.
  intros A n a b H. rewrite skipn_app. rewrite skipn_all2 by exact H. reflexivity.
Qed.

Lemma lenN_app : forall (A : Type) (a b : list A), lenN (a ++ b) = lenN a + lenN b.
Proof. intros A a b. unfold lenN. rewrite app_length. lia. Qed.

(* ------------------------------------------------------------------ *)
(* the loop of Write, for any compressor                                *)

Section Loop.
  Variable C : Type.
  Variable acc : C -> list N -> C * nat * bool.
  Variable cmp : C -> C * bool.

  Notation loop := (write_loop C acc cmp).

  (* the starting count is only an offset *)
  Lemma loop_num : forall f c d n,
    loop f c d n =
    match loop f c d 0 with Some (c', m, e) => Some (c', (n + m)%nat, e) | None => None end.
  Proof.
    induction f as [|f IH]; intros c d n.
    - destruct d as [|x r]; cbn [write_loop]; [|reflexivity].
      rewrite Nat.add_0_r. reflexivity.
    - destruct d as [|x r]; cbn [write_loop].
      + rewrite Nat.add_0_r. reflexivity.
      + destruct (acc c (x :: r)) as [[c1 k] t].
        destruct t.
        * destruct (cmp c1) as [c2 failed]. destruct failed.
          -- rewrite Nat.add_0_r. reflexivity.
          -- rewrite (IH c2 _ (n + k)%nat). rewrite (IH c2 _ (0 + k)%nat).
             destruct (loop f c2 (skipn k (x :: r)) 0) as [[[c' m] e]|]; [|reflexivity].
             f_equal. f_equal. f_equal. lia.
        * rewrite (IH c1 _ (n + k)%nat). rewrite (IH c1 _ (0 + k)%nat).
          destruct (loop f c1 (skipn k (x :: r)) 0) as [[[c' m] e]|]; [|reflexivity].
          f_equal. f_equal. f_equal. lia.
  Qed.

  Lemma loop_nil : forall f c n, loop f c [] n = Some (c, n, false).
  Proof. intros f c n. destruct f; reflexivity. Qed.

  Lemma loop_S : forall f c d n, d <> [] ->
    loop (S f) c d n =
    let '(c1, k, trig) := acc c d in
    if trig then
      let '(c2, failed) := cmp c1 in
      if failed then Some (c2, n, true) else loop f c2 (skipn k d) (n + k)
    else loop f c1 (skipn k d) (n + k).
  Proof. intros f c d n Hd. destruct d as [|y d']; [congruence|]. reflexivity. Qed.

  Lemma loop_O : forall c d n, d <> [] -> loop O c d n = None.
  Proof. intros c d n Hd. destruct d as [|y d']; [congruence|]. reflexivity. Qed.

  (* more fuel does not change a result *)
  Lemma loop_mono : forall f c d n r, loop f c d n = Some r -> loop (S f) c d n = Some r.
  Proof.
    induction f as [|f IH]; intros c d n r H.
    - destruct d as [|x d'].
      + rewrite loop_nil in *. exact H.
      + rewrite loop_O in H by discriminate. discriminate H.
    - destruct d as [|x d'].
      + rewrite loop_nil in *. exact H.
      + rewrite loop_S in H by discriminate. rewrite loop_S by discriminate.
        destruct (acc c (x :: d')) as [[c1 k] t]. destruct t.
        * destruct (cmp c1) as [c2 failed]. destruct failed; [exact H|].
          apply IH. exact H.
        * apply IH. exact H.
  Qed.

  (* what Accumulate must satisfy for Write (a ++ b) = Write a; Write b *)
  Definition acc_split : Prop :=
    forall c a b, a <> [] ->
      forall c1 k1 t1, acc c a = (c1, k1, t1) ->
      (k1 <= length a)%nat /\
      ((k1 < length a)%nat \/ t1 = true -> acc c (a ++ b) = (c1, k1, t1)) /\
      (k1 = length a -> t1 = false -> b <> [] ->
       forall c2 k2 t2, acc c1 b = (c2, k2, t2) -> acc c (a ++ b) = (c2, (k1 + k2)%nat, t2)).

  Hypothesis Hsplit : acc_split.

  Lemma split_core : forall f c a b n c12 n12 e12,
    loop f c (a ++ b) n = Some (c12, n12, e12) ->
    exists c1 n1 e1, loop f c a n = Some (c1, n1, e1) /\
      (e1 = true -> c12 = c1 /\ e12 = true) /\
      (e1 = false -> n1 = (n + length a)%nat /\
         exists n2, loop f c1 b n1 = Some (c12, n2, e12) /\ (e12 = false -> n2 = n12)).
  Proof.
    induction f as [|f IH]; intros c a b n c12 n12 e12 H.
    - destruct a as [|x a'].
      + exists c, n, false. rewrite loop_nil. split; [reflexivity|]. split; [discriminate|].
        intros _. cbn [length]. split; [lia|]. exists n12. split; [exact H|reflexivity].
      + rewrite loop_O in H by discriminate. discriminate H.
    - destruct a as [|x a'].
      + exists c, n, false. rewrite loop_nil. split; [reflexivity|]. split; [discriminate|].
        intros _. cbn [length]. split; [lia|]. exists n12. split; [exact H|reflexivity].
      + remember (x :: a') as a eqn:Ea.
        assert (Hne : a <> []) by (subst a; discriminate).
        assert (Hne2 : a ++ b <> []) by (subst a; discriminate).
        destruct (acc c a) as [[c1 k1] t1] eqn:Eacc.
        destruct (Hsplit c a b Hne c1 k1 t1 Eacc) as (Hk & Hsame & Hmerge).
        rewrite (loop_S _ _ _ _ Hne2) in H. rewrite (loop_S _ _ _ _ Hne). rewrite Eacc.
        assert (Hcont : forall c2, loop f c2 (skipn k1 a ++ b) (n + k1) = Some (c12, n12, e12) ->
                  exists c1' n1 e1, loop f c2 (skipn k1 a) (n + k1) = Some (c1', n1, e1) /\
                    (e1 = true -> c12 = c1' /\ e12 = true) /\
                    (e1 = false -> n1 = (n + length a)%nat /\
                       exists n2, loop (S f) c1' b n1 = Some (c12, n2, e12) /\
                                  (e12 = false -> n2 = n12))).
        { intros c2 H2.
          destruct (IH c2 (skipn k1 a) b (n + k1)%nat c12 n12 e12 H2)
            as (c1' & n1 & e1 & I1 & I2 & I3).
          exists c1', n1, e1. split; [exact I1|]. split; [exact I2|].
          intros He. destruct (I3 He) as (I4 & n2 & I5 & I6). rewrite skipn_length in I4.
          split; [lia|]. exists n2. split; [apply loop_mono; exact I5|exact I6]. }
        destruct (Nat.eq_dec k1 (length a)) as [Hfull|Hpart].
        * destruct t1.
          -- (* a fills the buffer exactly: Compress, then b is handled alone *)
             rewrite (Hsame (or_intror eq_refl)) in H.
             destruct (cmp c1) as [c2 failed]. destruct failed.
             ++ exists c2, n, true. split; [reflexivity|].
                split; [intros _; split; congruence|discriminate].
             ++ rewrite skipn_app_le in H by lia. apply Hcont. exact H.
          -- (* a is copied entirely and leaves room *)
             rewrite skipn_all2 by lia. rewrite loop_nil.
             exists c1, (n + k1)%nat, false. split; [reflexivity|]. split; [discriminate|].
             intros _. split; [lia|].
             destruct b as [|y b'].
             ++ rewrite loop_nil. rewrite app_nil_r in H. rewrite Eacc in H.
                rewrite skipn_all2 in H by lia. rewrite loop_nil in H.
                exists n12. split; [exact H|reflexivity].
             ++ remember (y :: b') as b0 eqn:Eb.
                assert (Hnb : b0 <> []) by (subst b0; discriminate).
                rewrite (loop_S _ _ _ _ Hnb).
                destruct (acc c1 b0) as [[c2 k2] t2] eqn:Eacc2.
                rewrite (Hmerge Hfull eq_refl Hnb c2 k2 t2 eq_refl) in H.
                rewrite skipn_app_ge in H by lia.
                replace (k1 + k2 - length a)%nat with k2 in H by lia.
                replace (n + (k1 + k2))%nat with (n + k1 + k2)%nat in H by lia.
                destruct t2.
                ** destruct (cmp c2) as [c3 failed]. destruct failed.
                   --- (* the one-shot call reports n, the second call n + |a| *)
                       exists (n + k1)%nat. inversion H; subst c12 n12 e12.
                       split; [reflexivity|discriminate].
                   --- exists n12. split; [exact H|reflexivity].
                ** exists n12. split; [exact H|reflexivity].
        * (* a does not fit: both calls start with the same Accumulate *)
          assert (Hlt : (k1 < length a)%nat) by lia.
          rewrite (Hsame (or_introl Hlt)) in H.
          rewrite skipn_app_le in H by lia.
          destruct t1.
          -- destruct (cmp c1) as [c2 failed]. destruct failed.
             ++ exists c2, n, true. split; [reflexivity|].
                split; [intros _; split; congruence|discriminate].
             ++ apply Hcont. exact H.
          -- apply Hcont. exact H.
  Qed.
End Loop.

(* ------------------------------------------------------------------ *)
(* Accumulate of the two compressors satisfies acc_split (all states)   *)

Definition dyn_with_buf (c : dyn) (b : list N) : dyn :=
  mkdyn (dW c) (dmask c) (dsync c) b (didx c) (dproc c) (dtable c) (dtoks c) (dntok c)
        (dbb c) (ddest c) (doob c).

Definition dyn_slide (c : dyn) : dyn :=
  if 2 * dW c <=? didx c then
    mkdyn (dW c) (dmask c) (dsync c) (skipn (N.to_nat (didx c - dW c)) (dbuf c))
          (didx c - (didx c - dW c)) (dproc c) (dtable c) (dtoks c) (dntok c) (dbb c) (ddest c) (doob c)
  else c.

Definition dyn_room (c1 : dyn) : nat := N.to_nat (dyn_cap c1 - lenN (dbuf c1)).

Definition dyn_put (c1 : dyn) (data : list N) : dyn * nat * bool :=
  let chunk := firstn (dyn_room c1) data in
  (dyn_with_buf c1 (dbuf c1 ++ chunk), length chunk,
   negb (lenN (dbuf c1 ++ chunk) <? dyn_cap c1)).

Lemma dyn_accumulate_eq : forall c data, dyn_accumulate c data = dyn_put (dyn_slide c) data.
Proof. intros c data. reflexivity. Qed.

Lemma dyn_slide_put : forall c b,
  dyn_slide (dyn_with_buf (dyn_slide c) b) = dyn_with_buf (dyn_slide c) b.
Proof.
  intros c b. unfold dyn_slide at 2 3. destruct (2 * dW c <=? didx c) eqn:E.
  - unfold dyn_slide, dyn_with_buf. cbn [dW dmask dsync dbuf didx dproc dtable dtoks dntok dbb ddest doob].
    destruct (2 * dW c <=? didx c - (didx c - dW c)) eqn:E2; [|reflexivity].
    assert (HW : dW c = 0) by lia.
    replace (didx c - (didx c - dW c) - dW c) with 0 by lia.
    cbn [N.to_nat skipn]. rewrite N.sub_0_r. reflexivity.
  - unfold dyn_slide, dyn_with_buf. cbn [dW dmask dsync dbuf didx dproc dtable dtoks dntok dbb ddest doob].
    rewrite E. reflexivity.
Qed.

Lemma dyn_put_split : forall c1 a b, a <> [] ->
  forall c2 k1 t1, dyn_put c1 a = (c2, k1, t1) ->
  (k1 <= length a)%nat /\
  ((k1 < length a)%nat \/ t1 = true -> dyn_put c1 (a ++ b) = (c2, k1, t1)) /\
  (k1 = length a -> t1 = false -> b <> [] ->
   forall c3 k2 t2, dyn_put c2 b = (c3, k2, t2) -> dyn_put c1 (a ++ b) = (c3, (k1 + k2)%nat, t2)).
Proof.
  intros c1 a b Ha c2 k1 t1 H. unfold dyn_put in H. inversion H as [[H1 H2 H3]]. clear H.
  pose proof (firstn_length (dyn_room c1) a) as HL.
  assert (Hla : (0 < length a)%nat) by (destruct a; [congruence|cbn [length]; lia]).
  split; [lia|]. split.
  - intros Hc.
    assert (Hroom : (dyn_room c1 <= length a)%nat).
    { destruct Hc as [Hc|Hc]; [lia|]. subst t1.
      rewrite lenN_app in Hc. unfold lenN in Hc. unfold dyn_room, lenN in *. lia. }
    unfold dyn_put. rewrite firstn_app_le by exact Hroom. reflexivity.
  - intros Hk Ht Hb c3 k2 t2 H.
    assert (Hroom : (length a < dyn_room c1)%nat).
    { subst t1. rewrite lenN_app in Ht. unfold dyn_room, lenN in *. lia. }
    assert (Hfa : firstn (dyn_room c1) a = a) by (apply firstn_all2; lia).
    unfold dyn_put in H |- *. rewrite firstn_app_ge by lia.
    rewrite Hfa in *.
    assert (Hr2 : dyn_room (dyn_with_buf c1 (dbuf c1 ++ a)) = (dyn_room c1 - length a)%nat).
    { unfold dyn_room, dyn_with_buf, dyn_cap. cbn [dW dbuf]. rewrite lenN_app. unfold lenN. lia. }
    rewrite Hr2 in H. unfold dyn_with_buf in H |- *.
    cbn [dW dmask dsync dbuf didx dproc dtable dtoks dntok dbb ddest doob] in H.
    unfold dyn_cap in H |- *. cbn [dW] in H.
    rewrite <- app_assoc in H. inversion H as [[G1 G2 G3]].
    rewrite app_length. reflexivity.
Qed.

Lemma dyn_acc_split : acc_split dyn dyn_accumulate.
Proof.
  intros c a b Ha c1 k1 t1 H. rewrite dyn_accumulate_eq in H.
  destruct (dyn_put_split (dyn_slide c) a b Ha c1 k1 t1 H) as (P1 & P2 & P3).
  split; [exact P1|]. split.
  - intros Hc. rewrite dyn_accumulate_eq. apply P2. exact Hc.
  - intros Hk Ht Hb c2 k2 t2 H2. rewrite dyn_accumulate_eq in H2 |- *.
    assert (Hc1 : c1 = dyn_with_buf (dyn_slide c) (dbuf c1)).
    { unfold dyn_put in H. inversion H. reflexivity. }
    rewrite Hc1 in H2. rewrite dyn_slide_put in H2. rewrite <- Hc1 in H2.
    apply P3; assumption.
Qed.

Definition huf_room (h : huf) : nat := N.to_nat (huf_max - lenN (hbuf h)).

Lemma huf_acc_split : acc_split huf huf_accumulate.
Proof.
  intros h a b Ha h1 k1 t1 H. unfold huf_accumulate in H. fold (huf_room h) in H.
  cbn [hbuf] in H. inversion H as [[H1 H2 H3]]. clear H.
  pose proof (firstn_length (huf_room h) a) as HL.
  assert (Hla : (0 < length a)%nat) by (destruct a; [congruence|cbn [length]; lia]).
  split; [lia|]. split.
  - intros Hc.
    assert (Hroom : (huf_room h <= length a)%nat).
    { destruct Hc as [Hc|Hc]; [lia|]. subst t1.
      rewrite lenN_app in Hc. unfold huf_room, lenN in *. lia. }
    unfold huf_accumulate. fold (huf_room h). rewrite firstn_app_le by exact Hroom. reflexivity.
  - intros Hk Ht Hb h2 k2 t2 H.
    assert (Hroom : (length a < huf_room h)%nat).
    { subst t1. rewrite lenN_app in Ht. unfold huf_room, lenN in *. lia. }
    assert (Hfa : firstn (huf_room h) a = a) by (apply firstn_all2; lia).
    unfold huf_accumulate in H |- *. fold (huf_room h). rewrite firstn_app_ge by lia.
    rewrite Hfa in *. cbn [hbuf hbb hdest] in H |- *.
    replace (N.to_nat (huf_max - lenN (hbuf h ++ a))) with (huf_room h - length a)%nat in H
      by (rewrite lenN_app; unfold huf_room, lenN; lia).
    rewrite <- app_assoc in H. inversion H as [[G1 G2 G3]].
    rewrite app_length. reflexivity.
Qed.

Lemma c_acc_split : acc_split comp c_accumulate.
Proof.
  intros c a b Ha c1 k1 t1 H. destruct c as [d|h]; cbn [c_accumulate] in H |- *.
  - destruct (dyn_accumulate d a) as [[d1 n1] tt1] eqn:E. inversion H; subst c1 k1 t1. clear H.
    destruct (dyn_acc_split d a b Ha d1 n1 tt1 E) as (P1 & P2 & P3).
    split; [exact P1|]. split.
    + intros Hc. rewrite (P2 Hc). reflexivity.
    + intros Hk Ht Hb c2 k2 t2 H2. cbn [c_accumulate] in H2.
      destruct (dyn_accumulate d1 b) as [[d2 n2] tt2] eqn:E2. inversion H2; subst c2 k2 t2.
      rewrite (P3 Hk Ht Hb d2 n2 tt2 eq_refl). reflexivity.
  - destruct (huf_accumulate h a) as [[d1 n1] tt1] eqn:E. inversion H; subst c1 k1 t1. clear H.
    destruct (huf_acc_split h a b Ha d1 n1 tt1 E) as (P1 & P2 & P3).
    split; [exact P1|]. split.
    + intros Hc. rewrite (P2 Hc). reflexivity.
    + intros Hk Ht Hb c2 k2 t2 H2. cbn [c_accumulate] in H2.
      destruct (huf_accumulate d1 b) as [[d2 n2] tt2] eqn:E2. inversion H2; subst c2 k2 t2.
      rewrite (P3 Hk Ht Hb d2 n2 tt2 eq_refl). reflexivity.
Qed.

(* ------------------------------------------------------------------ *)
(* facts about the match finder needed for progress                     *)

Lemma tlen_ge : forall W ts b, toks_ok W b ts -> lenN ts <= tlen ts.
Proof.
  intros W. induction ts as [|t r IH]; intros b H.
  - cbn [tlen]. rewrite lenN_nil. lia.
  - cbn [toks_ok] in H. destruct H as (Ht & Hr). rewrite lenN_cons. cbn [tlen].
    specialize (IH _ Hr). destruct t as [x|len dist]; cbn [tok_len tok_ok] in *; lia.
Qed.

Lemma lz77_facts : forall flush mask W input processed offset table toks ntok maxToken,
  offset <= lenN input ->
  forall r, r = lz77 flush mask W input processed offset table toks ntok maxToken ->
  lz_oob r = false ->
  offset <= lz_off r /\ lz_off r <= lenN input /\ ntok <= lz_ntok r /\
  lz_ntok r - ntok <= lz_off r - offset.
Proof.
  intros flush mask W input processed offset table toks ntok maxToken Hoff r Hr Hoob.
  unfold lz77 in Hr.
  destruct (lz_loop_ok flush W input (lenN input - 8) mask (processed - offset) maxToken
              (skipn (N.to_nat offset) input) offset O table toks ntok eq_refl
              ltac:(change (N.of_nat 0) with 0; lia) r Hr Hoob)
    as (new & adv & I1 & I2 & I3 & I4 & I5).
  change (N.of_nat 0) with 0 in *. rewrite N.add_0_r in *.
  destruct I3 as (G1 & G2 & G3 & G4).
  pose proof (tlen_ge _ _ _ G3) as HT. unfold lenN in HT. rewrite rev_length in HT.
  unfold lenN in *. lia.
Qed.

(* without flush the match finder stops only at the token limit or 8 bytes before the end *)
Lemma lz_loop_nonflush : forall W input e mask rel maxToken l offset skip table toks ntok,
  l = skipn (N.to_nat offset) input ->
  offset + N.of_nat skip <= lenN input ->
  forall r, r = lz_loop false (arr_of_list input) (lenN input) e mask W rel maxToken
                        l offset skip table toks ntok false ->
  lz_oob r = false ->
  maxToken < lz_ntok r \/ e <= lz_off r \/ lz_off r = lenN input.
Proof.
  intros W input e mask rel maxToken.
  induction l as [|b l' IH]; intros offset skip table toks ntok Hl Hlen r Hr Hoob.
  - cbn [lz_loop] in Hr. symmetry in Hl. apply skipn_nil_len in Hl.
    subst r. cbn [lz_off]. right. right. unfold lenN in *. lia.
  - pose proof Hl as Hl0. symmetry in Hl. apply skipn_cons_nth in Hl. destruct Hl as (Hlt & Hb & Hl').
    assert (Hl'' : l' = skipn (N.to_nat (offset + 1)) input).
    { rewrite Hl'. f_equal. lia. }
    cbn [lz_loop] in Hr. destruct skip as [|k].
    + change (N.of_nat 0) with 0 in *. rewrite N.add_0_r in *.
      destruct (offset <? e) eqn:Ee.
      * remember (lz_step (arr_of_list input) e mask W rel offset (b :: l') table ntok maxToken)
          as sr eqn:Hsr.
        destruct (sr_oob sr) eqn:Esro.
        { exfalso. cbn [orb] in Hr. destruct (sr_stop sr).
          - subst r. discriminate Hoob.
          - subst r. rewrite lz_loop_oob_true in Hoob. discriminate Hoob. }
        cbn [orb] in Hr. rewrite Hl0 in Hsr.
        destruct (lz_step_ok W input e mask rel offset table ntok maxToken
                    ltac:(unfold lenN; lia) sr Hsr Esro) as (SG & SA & SS).
        destruct (sr_stop sr) eqn:Estop.
        -- left. subst r. cbn [lz_ntok]. apply SS. reflexivity.
        -- destruct SG as (SG1 & SG2).
           apply (IH (offset + 1) (N.to_nat (sr_adv sr) - 1)%nat (sr_table sr)
                     (sr_toks sr ++ toks) (ntok + lenN (sr_toks sr)) Hl'' ltac:(lia) r Hr Hoob).
      * right. left. subst r. cbn [lz_off]. lia.
    + apply (IH (offset + 1) k table toks ntok Hl'' ltac:(lia) r Hr Hoob).
Qed.

Lemma lz77_nonflush : forall mask W input processed offset table toks ntok maxToken,
  offset <= lenN input ->
  forall r, r = lz77 false mask W input processed offset table toks ntok maxToken ->
  lz_oob r = false ->
  maxToken < lz_ntok r \/ lenN input - 8 <= lz_off r.
Proof.
  intros mask W input processed offset table toks ntok maxToken Hoff r Hr Hoob.
  unfold lz77 in Hr.
  destruct (lz_loop_nonflush W input (lenN input - 8) mask (processed - offset) maxToken
              (skipn (N.to_nat offset) input) offset O table toks ntok eq_refl
              ltac:(change (N.of_nat 0) with 0; lia) r Hr Hoob) as [H|[H|H]].
  - left. exact H.
  - right. exact H.
  - right. lia.
Qed.

(* ------------------------------------------------------------------ *)
(* invariant of the dynCompressor between the steps of Write            *)

Definition shape (W : N) (buf : list N) (idx proc : N) (table : arr) : Prop :=
  0 < W /\ W <= 32768 /\ lenN buf <= 2 * W + 258 /\ idx <= lenN buf /\
  (W <= idx \/ (proc = idx /\ table_below table (idx + 2))).

Definition dshape (c : dyn) : Prop := shape (dW c) (dbuf c) (didx c) (dproc c) (dtable c).
Definition dgood0 (c : dyn) : Prop := dshape c /\ dntok c < max_token.
(* the next Accumulate can copy at least one byte *)
Definition dprog (c : dyn) : Prop := lenN (dbuf c) < dyn_cap c \/ 2 * dW c <= didx c.

Ltac dproj := cbn [dW dmask dsync dbuf didx dproc dtable dtoks dntok dbb ddest doob].

Lemma dyn_slide_good : forall c, dshape c -> dprog c ->
  dshape (dyn_slide c) /\ lenN (dbuf (dyn_slide c)) < dyn_cap (dyn_slide c) /\
  dW (dyn_slide c) = dW c /\ dntok (dyn_slide c) = dntok c.
Proof.
  intros c (S1 & S2 & S3 & S4 & S5) Hp. unfold dprog, dyn_cap in Hp.
  unfold dyn_slide. destruct (2 * dW c <=? didx c) eqn:E.
  - unfold dshape, shape, dyn_cap. dproj.
    assert (HL : lenN (skipn (N.to_nat (didx c - dW c)) (dbuf c)) = lenN (dbuf c) - (didx c - dW c)).
    { unfold lenN. rewrite skipn_length. lia. }
    rewrite HL. repeat split; try lia.
  - unfold dshape, shape, dyn_cap. repeat split; try lia. exact S5.
Qed.

Lemma dyn_acc_good : forall c data c' k t, dshape c -> dprog c ->
  dyn_accumulate c data = (c', k, t) ->
  dshape c' /\ dntok c' = dntok c /\
  (t = false -> lenN (dbuf c') < dyn_cap c') /\
  (t = true -> lenN (dbuf c') = dyn_cap c') /\
  (data <> [] -> (1 <= k)%nat).
Proof.
  intros c data c' k t Hs Hp H. rewrite dyn_accumulate_eq in H.
  destruct (dyn_slide_good c Hs Hp) as ((S1 & S2 & S3 & S4 & S5) & Hroom & HW & Hnt).
  set (c1 := dyn_slide c) in *. unfold dyn_put in H. inversion H as [[H1 H2 H3]]. clear H.
  pose proof (firstn_length (dyn_room c1) data) as HL.
  subst c' k t.
  unfold dyn_with_buf, dshape, shape, dyn_cap. dproj. rewrite lenN_app.
  unfold dyn_cap in Hroom. unfold dyn_room, dyn_cap in *.
  assert (Hd : data <> [] -> (0 < length data)%nat).
  { intros Hd. destruct data; [congruence|cbn [length]; lia]. }
  unfold lenN in *.
  split; [repeat split; try lia; exact S5|]. split; [exact Hnt|].
  split; [intros Ht; lia|]. split; [intros Ht; lia|].
  intros Hne. specialize (Hd Hne). lia.
Qed.

Definition dyn_lz (c : dyn) (flush : bool) : lz_res :=
  lz77 flush (dmask c) (dW c) (dbuf c) (dproc c) (didx c) (dtable c) (dtoks c) (dntok c) max_token.

Definition dyn_after_lz (c : dyn) (r : lz_res) : dyn :=
  mkdyn (dW c) (dmask c) (dsync c) (dbuf c) (lz_off r) (dproc c + (lz_off r - didx c))
        (lz_table r) (lz_toks r) (lz_ntok r) (dbb c) (ddest c) (doob c || lz_oob r).

Lemma dyn_loop_S : forall f c flush final,
  dyn_compress_loop (S f) c flush final =
  let r := dyn_lz c flush in
  let c1 := dyn_after_lz c r in
  if (lz_ntok r <? max_token) && negb flush then (c1, false)
  else
    let at_end := lz_off r =? lenN (dbuf c) in
    let '(c2, failed) := dyn_encode_block c1 (final && at_end) in
    if failed then (c2, true)
    else if at_end then (c2, false)
    else dyn_compress_loop f c2 flush final.
Proof. intros f c flush final. reflexivity. Qed.

Lemma dyn_encode_block_ok : forall c last c',
  dyn_encode_block c last = (c', false) ->
  exists bb d, c' = mkdyn (dW c) (dmask c) (dsync c) (dbuf c) (didx c) (dproc c) (dtable c)
                          [] 0 bb d (doob c).
Proof.
  intros c last c' H. unfold dyn_encode_block in H.
  destruct (encode_block (dsync c) (frev (dtoks c)) last (dbb c)) as [chunks bb].
  destruct (dest_write_all _ chunks) as [d1 failed]. destruct failed; [discriminate H|].
  inversion H. exists bb, d1. reflexivity.
Qed.

Lemma dyn_lz_facts : forall c flush, dshape c ->
  let r := dyn_lz c flush in
  lz_oob r = false /\ dshape (dyn_after_lz c r) /\
  didx c <= lz_off r /\ dntok c <= lz_ntok r /\ lz_ntok r - dntok c <= lz_off r - didx c /\
  (flush = false -> max_token < lz_ntok r \/ lenN (dbuf c) - 8 <= lz_off r).
Proof.
  intros c flush (S1 & S2 & S3 & S4 & S5) r.
  destruct (lz77_no_oob flush (dmask c) (dW c) (dbuf c) (dproc c) (didx c) (dtable c) (dtoks c)
              (dntok c) max_token S4 S1 S2 S5) as (Hoob & Ht).
  fold (dyn_lz c flush) in Hoob, Ht. fold r in Hoob, Ht.
  destruct (lz77_facts flush (dmask c) (dW c) (dbuf c) (dproc c) (didx c) (dtable c) (dtoks c)
              (dntok c) max_token S4 r eq_refl Hoob) as (F1 & F2 & F3 & F4).
  split; [exact Hoob|]. split.
  - unfold dshape, shape, dyn_after_lz. dproj. repeat split; try lia.
    destruct Ht as [Ht|Ht]; [left; exact Ht|].
    destruct S5 as [S5|(S5 & S6)]; [left; lia|]. right. split; [lia|exact Ht].
  - split; [exact F1|]. split; [exact F3|]. split; [exact F4|].
    intros Hf. subst flush.
    exact (lz77_nonflush (dmask c) (dW c) (dbuf c) (dproc c) (didx c) (dtable c) (dtoks c)
             (dntok c) max_token S4 r eq_refl Hoob).
Qed.

Lemma dyn_loop_good : forall fuel c flush final c',
  dgood0 c -> dyn_compress_loop fuel c flush final = (c', false) ->
  dgood0 c' /\ dbuf c' = dbuf c /\ dW c' = dW c /\ didx c <= didx c' /\
  (flush = false -> lenN (dbuf c) - didx c < N.of_nat fuel -> lenN (dbuf c) - 8 <= didx c').
Proof.
  induction fuel as [|f IH]; intros c flush final c' (Hs & Hn) H.
  - cbn [dyn_compress_loop] in H. inversion H; subst c'.
    split; [split; assumption|]. split; [reflexivity|]. split; [reflexivity|]. split; [lia|].
    intros _ Hm. lia.
  - rewrite dyn_loop_S in H. cbv zeta in H.
    destruct (dyn_lz_facts c flush Hs) as (Hoob & Hs1 & F1 & F3 & F4 & F5).
    set (r := dyn_lz c flush) in *.
    destruct ((lz_ntok r <? max_token) && negb flush) eqn:Eret.
    + inversion H; subst c'. unfold dyn_after_lz at 2 3 4 5. dproj.
      split; [split; [exact Hs1|unfold dyn_after_lz; dproj; lia]|].
      split; [reflexivity|]. split; [reflexivity|]. split; [exact F1|].
      intros Hf Hm. destruct (F5 Hf) as [F|F]; [lia|exact F].
    + destruct (dyn_encode_block (dyn_after_lz c r) (final && (lz_off r =? lenN (dbuf c))))
        as [c2 failed] eqn:Eenc.
      destruct failed; [discriminate H|].
      apply dyn_encode_block_ok in Eenc. destruct Eenc as (bb & d & Ec2).
      unfold dyn_after_lz in Ec2. dproj.
      cbn [dW dmask dsync dbuf didx dproc dtable dtoks dntok dbb ddest doob] in Ec2.
      assert (Hg2 : dgood0 c2).
      { subst c2. split; [exact Hs1|]. dproj. unfold max_token. lia. }
      destruct (lz_off r =? lenN (dbuf c)) eqn:Eend.
      * inversion H; subst c'. split; [exact Hg2|]. subst c2. dproj.
        split; [reflexivity|]. split; [reflexivity|]. split; [exact F1|]. intros _ _. lia.
      * destruct (IH c2 flush final c' Hg2 H) as (I1 & I2 & I3 & I4 & I5).
        subst c2. cbn [dW dmask dsync dbuf didx dproc dtable dtoks dntok dbb ddest doob] in *.
        split; [exact I1|]. split; [exact I2|]. split; [exact I3|]. split; [lia|].
        intros Hf Hm. apply I5; [exact Hf|]. subst flush.
        cbn [negb] in Eret. rewrite andb_true_r in Eret.
        destruct Hs1 as (_ & _ & _ & T4 & _). unfold dyn_after_lz in T4.
        cbn [dW dmask dsync dbuf didx dproc dtable dtoks dntok dbb ddest doob] in T4.
        lia.
Qed.

Lemma dyn_compress_good : forall c c', dgood0 c -> lenN (dbuf c) = dyn_cap c ->
  dyn_compress_block c false false = (c', false) -> dgood0 c' /\ dprog c'.
Proof.
  intros c c' Hg Hfull H. unfold dyn_compress_block in H. cbn [andb] in H.
  destruct (dyn_loop_good _ c false false c' Hg H) as (I1 & I2 & I3 & I4 & I5).
  split; [exact I1|]. right. specialize (I5 eq_refl ltac:(unfold lenN; lia)).
  unfold dyn_cap in Hfull. rewrite I3. lia.
Qed.

Lemma dyn_flush_good : forall c c', dgood0 c -> dprog c ->
  dyn_flush c = (c', false) -> dgood0 c' /\ dprog c'.
Proof.
  intros c c' Hg Hp H. unfold dyn_flush, dyn_compress_block in H. cbn [andb] in H.
  destruct (dyn_compress_loop (S (S (length (dbuf c)))) c true false) as [c1 failed] eqn:El.
  destruct failed; [discriminate H|].
  destruct (dyn_loop_good _ c true false c1 Hg El) as ((I0 & I1) & I2 & I3 & I4 & I5).
  destruct (bb_take (bb_empty_block false (dbb c1))) as [chunk bb].
  destruct (dest_write (dest_event (ddest c1) ESync) chunk) as [d1 failed1].
  inversion H; subst c' failed1. unfold dgood0, dshape, dprog, dyn_cap in *. dproj.
  split; [split; assumption|]. rewrite I2, I3. lia.
Qed.

Lemma dyn_new_good : forall W mask sync d, W = 4096 \/ W = 32768 ->
  dgood0 (dyn_new W mask sync d) /\ dprog (dyn_new W mask sync d).
Proof.
  intros W mask sync d HW. unfold dgood0, dshape, shape, dprog, dyn_cap, dyn_new. dproj.
  rewrite lenN_nil. unfold max_token.
  split; [split; [|lia]|lia].
  repeat split; try lia. right. split; [reflexivity|]. intros h. rewrite aget_empty. lia.
Qed.

(* huffmanOnly *)
Definition hgood (h : huf) : Prop := lenN (hbuf h) < huf_max.

Lemma huf_acc_good : forall h data h' k t, hgood h -> huf_accumulate h data = (h', k, t) ->
  (t = false -> hgood h') /\ (t = true -> lenN (hbuf h') = huf_max) /\ (data <> [] -> (1 <= k)%nat).
Proof.
  intros h data h' k t Hg H. unfold hgood in *. unfold huf_accumulate in H.
  fold (huf_room h) in H. cbn [hbuf] in H.
  pose proof (firstn_length (huf_room h) data) as HL.
  set (chunk := firstn (huf_room h) data) in *.
  injection H as H1 H2 H3. subst h' k t. cbn [hbuf]. rewrite lenN_app.
  assert (Hd : data <> [] -> (0 < length data)%nat).
  { intros Hd. destruct data; [congruence|cbn [length]; lia]. }
  unfold huf_room in HL. unfold lenN in *. split; [intros Ht; lia|]. split; [intros Ht; lia|].
  intros Hne. specialize (Hd Hne). lia.
Qed.

Lemma huf_encode_ok : forall h final h', huf_encode_block h final = (h', false) -> hbuf h' = [].
Proof.
  intros h final h' H. unfold huf_encode_block in H. destruct (hbuf h) as [|x r] eqn:Eb.
  - destruct final.
    + destruct (bb_take (bb_empty_block true (hbb h))) as [chunk bb].
      destruct (dest_write (dest_event (hdest h) EFinalEmpty) chunk) as [d1 failed].
      inversion H. reflexivity.
    + inversion H; subst h'. exact Eb.
  - destruct (hencode_block (x :: r) final (hbb h)) as [chunks bb].
    destruct (dest_write_all _ chunks) as [d1 failed]. destruct failed; [discriminate H|].
    inversion H. reflexivity.
Qed.

Lemma huf_flush_ok : forall h h', huf_flush h = (h', false) -> hbuf h' = [].
Proof.
  intros h h' H. unfold huf_flush in H.
  destruct (huf_encode_block h false) as [h1 failed] eqn:E. destruct failed; [discriminate H|].
  apply huf_encode_ok in E.
  destruct (bb_take (bb_empty_block false (hbb h1))) as [chunk bb].
  destruct (dest_write (dest_event (hdest h1) ESync) chunk) as [d1 failed1].
  inversion H. cbn [hbuf]. exact E.
Qed.

(* ------------------------------------------------------------------ *)
(* settings are never changed; a healthy destination never fails         *)

Definition dpar (c : dyn) : N * N * bool := (dW c, dmask c, dsync c).

Lemma dest_write_healthy : forall d chunk d' f, dest_write d chunk = (d', f) ->
  dfail d = None -> f = false /\ dfail d' = None.
Proof.
  intros d chunk d' f H Hh. unfold dest_write in H. rewrite Hh in H.
  injection H as H1 H2. subst d' f. split; reflexivity.
Qed.

Lemma dest_write_all_healthy : forall chunks d d' f, dest_write_all d chunks = (d', f) ->
  dfail d = None -> f = false /\ dfail d' = None.
Proof.
  induction chunks as [|c r IH]; intros d d' f H Hh.
  - cbn [dest_write_all] in H. injection H as H1 H2. subst d' f. split; [reflexivity|exact Hh].
  - cbn [dest_write_all] in H. destruct (dest_write d c) as [d1 failed] eqn:E.
    destruct (dest_write_healthy _ _ _ _ E Hh) as (F1 & F2). subst failed.
    apply (IH d1 d' f H F2).
Qed.

Lemma dyn_acc_par : forall c data c' k t, dyn_accumulate c data = (c', k, t) ->
  dpar c' = dpar c /\ ddest c' = ddest c.
Proof.
  intros c data c' k t H. rewrite dyn_accumulate_eq in H. unfold dyn_put in H.
  injection H as H1 H2 H3. subst c'. unfold dyn_with_buf, dpar. dproj.
  unfold dyn_slide. destruct (2 * dW c <=? didx c); dproj; split; reflexivity.
Qed.

Lemma dyn_encode_par : forall c last c' f, dyn_encode_block c last = (c', f) ->
  dpar c' = dpar c /\ (dfail (ddest c) = None -> f = false /\ dfail (ddest c') = None).
Proof.
  intros c last c' f H. unfold dyn_encode_block in H.
  destruct (encode_block (dsync c) (frev (dtoks c)) last (dbb c)) as [chunks bb].
  destruct (dest_write_all (dest_event (ddest c) (EBlock (frev (dtoks c)) last)) chunks)
    as [d1 failed] eqn:E.
  assert (Hh : dfail (ddest c) = None -> failed = false /\ dfail d1 = None).
  { intros Hh. apply (dest_write_all_healthy _ _ _ _ E). exact Hh. }
  destruct failed; injection H as H1 H2; subst c' f; unfold dpar; dproj;
    (split; [reflexivity|exact Hh]).
Qed.

Lemma dyn_loop_par : forall fuel c flush final c' f,
  dyn_compress_loop fuel c flush final = (c', f) ->
  dpar c' = dpar c /\ (dfail (ddest c) = None -> f = false /\ dfail (ddest c') = None).
Proof.
  induction fuel as [|n IH]; intros c flush final c' f H.
  - cbn [dyn_compress_loop] in H. injection H as H1 H2. subst c' f. split; [reflexivity|].
    intros Hh. split; [reflexivity|exact Hh].
  - rewrite dyn_loop_S in H. cbv zeta in H. set (r := dyn_lz c flush) in *.
    destruct ((lz_ntok r <? max_token) && negb flush).
    + injection H as H1 H2. subst c' f. unfold dyn_after_lz, dpar. dproj.
      split; [reflexivity|]. intros Hh. split; [reflexivity|exact Hh].
    + destruct (dyn_encode_block (dyn_after_lz c r) (final && (lz_off r =? lenN (dbuf c))))
        as [c2 failed] eqn:Eenc.
      destruct (dyn_encode_par _ _ _ _ Eenc) as (P1 & P2).
      assert (P1' : dpar c2 = dpar c) by (rewrite P1; reflexivity).
      assert (P2' : dfail (ddest c) = None -> failed = false /\ dfail (ddest c2) = None)
        by (intros Hh; apply P2; exact Hh).
      destruct failed.
      * injection H as H1 H2. subst c' f. split; [exact P1'|exact P2'].
      * destruct (lz_off r =? lenN (dbuf c)).
        -- injection H as H1 H2. subst c' f. split; [exact P1'|exact P2'].
        -- destruct (IH c2 flush final c' f H) as (I1 & I2).
           split; [rewrite I1; exact P1'|]. intros Hh. apply I2. apply (P2' Hh).
Qed.

Lemma dyn_block_par : forall c flush final c' f, dyn_compress_block c flush final = (c', f) ->
  dpar c' = dpar c /\ (dfail (ddest c) = None -> f = false /\ dfail (ddest c') = None).
Proof.
  intros c flush final c' f H. unfold dyn_compress_block in H.
  destruct (final && (lenN (dbuf c) =? 0)).
  - destruct (bb_take (bb_empty_block true (dbb c))) as [chunk bb].
    destruct (dest_write (dest_event (ddest c) EFinalEmpty) chunk) as [d1 failed] eqn:E.
    injection H as H1 H2. subst c' f. unfold dpar. dproj. split; [reflexivity|].
    intros Hh. apply (dest_write_healthy _ _ _ _ E). exact Hh.
  - apply (dyn_loop_par _ _ _ _ _ _ H).
Qed.

Lemma dyn_flush_par : forall c c' f, dyn_flush c = (c', f) ->
  dpar c' = dpar c /\ (dfail (ddest c) = None -> f = false /\ dfail (ddest c') = None).
Proof.
  intros c c' f H. unfold dyn_flush in H.
  destruct (dyn_compress_block c true false) as [c1 failed] eqn:E.
  destruct (dyn_block_par _ _ _ _ _ E) as (P1 & P2).
  destruct failed.
  - injection H as H1 H2. subst c' f. split; [exact P1|exact P2].
  - destruct (bb_take (bb_empty_block false (dbb c1))) as [chunk bb].
    destruct (dest_write (dest_event (ddest c1) ESync) chunk) as [d1 failed1] eqn:E1.
    injection H as H1 H2. subst c' f. unfold dpar in *. dproj. split; [exact P1|].
    intros Hh. destruct (P2 Hh) as (_ & Hh1).
    apply (dest_write_healthy _ _ _ _ E1). exact Hh1.
Qed.

Lemma huf_encode_healthy : forall h final h' f, huf_encode_block h final = (h', f) ->
  dfail (hdest h) = None -> f = false /\ dfail (hdest h') = None.
Proof.
  intros h final h' f H Hh. unfold huf_encode_block in H. destruct (hbuf h) as [|x r].
  - destruct final.
    + destruct (bb_take (bb_empty_block true (hbb h))) as [chunk bb].
      destruct (dest_write (dest_event (hdest h) EFinalEmpty) chunk) as [d1 failed] eqn:E.
      injection H as H1 H2. subst h' f. cbn [hdest].
      apply (dest_write_healthy _ _ _ _ E). exact Hh.
    + injection H as H1 H2. subst h' f. split; [reflexivity|exact Hh].
  - destruct (hencode_block (x :: r) final (hbb h)) as [chunks bb].
    destruct (dest_write_all (dest_event (hdest h) (EHBlock (x :: r) final)) chunks)
      as [d1 failed] eqn:E.
    destruct (dest_write_all_healthy _ _ _ _ E Hh) as (F1 & F2). subst failed.
    injection H as H1 H2. subst h' f. cbn [hdest]. split; [reflexivity|exact F2].
Qed.

Lemma huf_flush_healthy : forall h h' f, huf_flush h = (h', f) ->
  dfail (hdest h) = None -> f = false /\ dfail (hdest h') = None.
Proof.
  intros h h' f H Hh. unfold huf_flush in H.
  destruct (huf_encode_block h false) as [h1 failed] eqn:E.
  destruct (huf_encode_healthy _ _ _ _ E Hh) as (F1 & F2). subst failed.
  destruct (bb_take (bb_empty_block false (hbb h1))) as [chunk bb].
  destruct (dest_write (dest_event (hdest h1) ESync) chunk) as [d1 failed1] eqn:E1.
  injection H as H1 H2. subst h' f. cbn [hdest].
  apply (dest_write_healthy _ _ _ _ E1). exact F2.
Qed.

(* ---- the same on comp ---- *)
Definition same_kind (c c' : comp) : Prop :=
  match c, c' with
  | CDyn d, CDyn d' => dpar d' = dpar d
  | CHuf _, CHuf _ => True
  | _, _ => False
  end.

Lemma same_kind_refl : forall c, same_kind c c.
Proof. intros [d|h]; cbn [same_kind]; auto. Qed.

Lemma same_kind_trans : forall a b c, same_kind a b -> same_kind b c -> same_kind a c.
Proof.
  intros [d1|h1] [d2|h2] [d3|h3]; cbn [same_kind]; intros H1 H2; auto; try contradiction.
  congruence.
Qed.

Definition chealthy (c : comp) : Prop := dfail (c_dest c) = None.

Lemma c_acc_par : forall c data c' k t, c_accumulate c data = (c', k, t) ->
  same_kind c c' /\ c_dest c' = c_dest c.
Proof.
  intros [d|h] data c' k t H; cbn [c_accumulate] in H.
  - destruct (dyn_accumulate d data) as [[d1 n1] t1] eqn:E. injection H as H1 H2 H3. subst c'.
    cbn [same_kind c_dest]. apply (dyn_acc_par _ _ _ _ _ E).
  - unfold huf_accumulate in H. injection H as H1 H2 H3. subst c'.
    cbn [same_kind c_dest hdest]. split; [exact I|reflexivity].
Qed.

Lemma c_compress_par : forall c c' f, c_compress c = (c', f) ->
  same_kind c c' /\ (chealthy c -> f = false /\ chealthy c').
Proof.
  intros [d|h] c' f H; cbn [c_compress] in H; unfold chealthy.
  - destruct (dyn_compress_block d false false) as [d1 f1] eqn:E. injection H as H1 H2. subst c' f.
    cbn [same_kind c_dest]. apply (dyn_block_par _ _ _ _ _ E).
  - destruct (huf_encode_block h false) as [h1 f1] eqn:E. injection H as H1 H2. subst c' f.
    cbn [same_kind c_dest]. split; [exact I|]. apply (huf_encode_healthy _ _ _ _ E).
Qed.

Lemma c_flush_par : forall c c' f, c_flush c = (c', f) ->
  same_kind c c' /\ (chealthy c -> f = false /\ chealthy c').
Proof.
  intros [d|h] c' f H; cbn [c_flush] in H; unfold chealthy.
  - destruct (dyn_flush d) as [d1 f1] eqn:E. injection H as H1 H2. subst c' f.
    cbn [same_kind c_dest]. apply (dyn_flush_par _ _ _ E).
  - destruct (huf_flush h) as [h1 f1] eqn:E. injection H as H1 H2. subst c' f.
    cbn [same_kind c_dest]. split; [exact I|]. apply (huf_flush_healthy _ _ _ E).
Qed.

Lemma c_close_par : forall c c' f, c_close c = (c', f) ->
  same_kind c c' /\ (chealthy c -> f = false /\ chealthy c').
Proof.
  intros [d|h] c' f H; cbn [c_close] in H; unfold chealthy.
  - destruct (dyn_compress_block d true true) as [d1 f1] eqn:E. injection H as H1 H2. subst c' f.
    cbn [same_kind c_dest]. apply (dyn_block_par _ _ _ _ _ E).
  - destruct (huf_encode_block h true) as [h1 f1] eqn:E. injection H as H1 H2. subst c' f.
    cbn [same_kind c_dest]. split; [exact I|]. apply (huf_encode_healthy _ _ _ _ E).
Qed.

Notation cloop := (write_loop comp c_accumulate c_compress).

Lemma cloop_par : forall f c d n c' m e, cloop f c d n = Some (c', m, e) ->
  same_kind c c' /\ (chealthy c -> e = false /\ chealthy c').
Proof.
  induction f as [|f IH]; intros c d n c' m e H.
  - destruct d as [|x r].
    + rewrite loop_nil in H. injection H as H1 H2 H3. subst c' m e.
      split; [apply same_kind_refl|]. intros Hh. split; [reflexivity|exact Hh].
    + rewrite loop_O in H by discriminate. discriminate H.
  - destruct d as [|x r].
    + rewrite loop_nil in H. injection H as H1 H2 H3. subst c' m e.
      split; [apply same_kind_refl|]. intros Hh. split; [reflexivity|exact Hh].
    + rewrite loop_S in H by discriminate.
      destruct (c_accumulate c (x :: r)) as [[c1 k] t] eqn:Ea.
      destruct (c_acc_par _ _ _ _ _ Ea) as (A1 & A2).
      assert (A3 : chealthy c -> chealthy c1) by (unfold chealthy; rewrite A2; auto).
      destruct t.
      * destruct (c_compress c1) as [c2 failed] eqn:Ec.
        destruct (c_compress_par _ _ _ Ec) as (B1 & B2).
        destruct failed.
        -- injection H as H1 H2 H3. subst c' m e.
           split; [apply (same_kind_trans _ _ _ A1 B1)|].
           intros Hh. destruct (B2 (A3 Hh)) as (B3 & _). discriminate B3.
        -- destruct (IH _ _ _ _ _ _ H) as (I1 & I2).
           split; [apply (same_kind_trans _ _ _ A1 (same_kind_trans _ _ _ B1 I1))|].
           intros Hh. apply I2. apply (B2 (A3 Hh)).
      * destruct (IH _ _ _ _ _ _ H) as (I1 & I2).
        split; [apply (same_kind_trans _ _ _ A1 I1)|].
        intros Hh. apply I2. apply (A3 Hh).
Qed.

(* ------------------------------------------------------------------ *)
(* the invariant that gives progress, on comp                           *)

Definition cgood (c : comp) : Prop :=
  match c with CDyn d => dgood0 d /\ dprog d | CHuf h => hgood h end.

Lemma c_step_good : forall c d c1 k t, cgood c -> c_accumulate c d = (c1, k, t) ->
  (d <> [] -> (1 <= k)%nat) /\
  (t = false -> cgood c1) /\
  (t = true -> forall c2, c_compress c1 = (c2, false) -> cgood c2).
Proof.
  intros [dd|h] d c1 k t Hg H; cbn [c_accumulate] in H; cbn [cgood] in Hg.
  - destruct (dyn_accumulate dd d) as [[d1 n1] t1] eqn:E. injection H as H1 H2 H3. subst c1 k t.
    destruct Hg as ((Hs & Hn) & Hp).
    destruct (dyn_acc_good _ _ _ _ _ Hs Hp E) as (A1 & A2 & A3 & A4 & A5).
    split; [exact A5|]. split.
    + intros Ht. cbn [cgood]. split; [split; [exact A1|lia]|]. left. apply A3. exact Ht.
    + intros Ht c2 Hc. cbn [c_compress] in Hc.
      destruct (dyn_compress_block d1 false false) as [d2 f2] eqn:Ec.
      injection Hc as H1 H2. subst c2 f2. cbn [cgood].
      apply (dyn_compress_good d1 d2); [split; [exact A1|lia]|apply A4; exact Ht|exact Ec].
  - destruct (huf_accumulate h d) as [[h1 n1] t1] eqn:E. injection H as H1 H2 H3. subst c1 k t.
    destruct (huf_acc_good _ _ _ _ _ Hg E) as (A1 & A2 & A3).
    split; [exact A3|]. split.
    + intros Ht. cbn [cgood]. apply A1. exact Ht.
    + intros Ht c2 Hc. cbn [c_compress] in Hc.
      destruct (huf_encode_block h1 false) as [h2 f2] eqn:Ec.
      injection Hc as H1 H2. subst c2 f2. cbn [cgood]. unfold hgood.
      rewrite (huf_encode_ok _ _ _ Ec). rewrite lenN_nil. unfold huf_max. lia.
Qed.

Lemma cloop_good : forall f c d n c' m, cgood c -> cloop f c d n = Some (c', m, false) -> cgood c'.
Proof.
  induction f as [|f IH]; intros c d n c' m Hg H.
  - destruct d as [|x r].
    + rewrite loop_nil in H. injection H as H1 H2. subst c'. exact Hg.
    + rewrite loop_O in H by discriminate. discriminate H.
  - destruct d as [|x r].
    + rewrite loop_nil in H. injection H as H1 H2. subst c'. exact Hg.
    + rewrite loop_S in H by discriminate.
      destruct (c_accumulate c (x :: r)) as [[c1 k] t] eqn:Ea.
      destruct (c_step_good _ _ _ _ _ Hg Ea) as (_ & S2 & S3).
      destruct t.
      * destruct (c_compress c1) as [c2 failed] eqn:Ec. destruct failed; [discriminate H|].
        apply (IH _ _ _ _ _ (S3 eq_refl c2 eq_refl) H).
      * apply (IH _ _ _ _ _ (S2 eq_refl) H).
Qed.

Lemma cloop_fuel : forall f c d n, cgood c -> (length d < f)%nat -> cloop f c d n <> None.
Proof.
  induction f as [|f IH]; intros c d n Hg Hf; [lia|].
  destruct d as [|x r].
  - rewrite loop_nil. discriminate.
  - rewrite loop_S by discriminate.
    destruct (c_accumulate c (x :: r)) as [[c1 k] t] eqn:Ea.
    destruct (c_step_good _ _ _ _ _ Hg Ea) as (S1 & S2 & S3).
    specialize (S1 ltac:(discriminate)).
    assert (Hlen : (length (skipn k (x :: r)) < f)%nat) by (rewrite skipn_length; cbn [length] in *; lia).
    destruct t.
    + destruct (c_compress c1) as [c2 failed] eqn:Ec. destruct failed; [discriminate|].
      apply IH; [apply (S3 eq_refl c2 eq_refl)|exact Hlen].
    + apply IH; [apply (S2 eq_refl)|exact Hlen].
Qed.

(* ------------------------------------------------------------------ *)
(* invariant of the reachable writer states                             *)

Definition cpar_ok (sync : bool) (level : Z) (win4k : bool) (c : comp) : Prop :=
  match c with
  | CHuf _ => level = (-2)%Z
  | CDyn d => level <> (-2)%Z /\
              dpar d = (if win4k then 4096 else 32768, if (level =? 1)%Z then 4095 else 32767, sync)
  end.

Lemma cpar_same_kind : forall sync level win4k c c',
  cpar_ok sync level win4k c -> same_kind c c' -> cpar_ok sync level win4k c'.
Proof.
  intros sync level win4k [d|h] [d'|h']; cbn [cpar_ok same_kind]; intros H1 H2;
    try contradiction; try exact H1.
  destruct H1 as (H1 & H3). split; [exact H1|]. rewrite H2. exact H3.
Qed.

Lemma cpar_reset : forall sync level win4k c fail,
  cpar_ok sync level win4k c -> c_reset_to fail c = comp_new sync level win4k fail.
Proof.
  intros sync level win4k [d|h] fail H; cbn [cpar_ok] in H; unfold comp_new, c_reset_to.
  - destruct H as (H1 & H2). destruct (level =? -2)%Z eqn:E; [lia|].
    unfold dpar in H2. injection H2 as H3 H4 H5. unfold dyn_reset. rewrite H3, H4, H5. reflexivity.
  - subst level. reflexivity.
Qed.

Lemma comp_new_par : forall sync level win4k fail,
  cpar_ok sync level win4k (comp_new sync level win4k fail).
Proof.
  intros sync level win4k fail. unfold comp_new. destruct (level =? -2)%Z eqn:E; cbn [cpar_ok].
  - lia.
  - split; [lia|]. reflexivity.
Qed.

Lemma comp_new_good : forall sync level win4k fail, cgood (comp_new sync level win4k fail).
Proof.
  intros sync level win4k fail. unfold comp_new. destruct (level =? -2)%Z; cbn [cgood].
  - unfold hgood, huf_new. cbn [hbuf]. rewrite lenN_nil. unfold huf_max. lia.
  - apply dyn_new_good. destruct win4k; [left|right]; reflexivity.
Qed.

Lemma comp_new_healthy : forall sync level win4k, chealthy (comp_new sync level win4k None).
Proof.
  intros sync level win4k. unfold chealthy, comp_new. destruct (level =? -2)%Z; reflexivity.
Qed.

Definition winv (sync : bool) (level : Z) (win4k : bool) (x : writer comp) : Prop :=
  cpar_ok sync level win4k (wc comp x) /\ (we comp x = ENone -> cgood (wc comp x)).

Lemma reachable_inv : forall sync level win4k x,
  reachable sync level win4k x -> winv sync level win4k x.
Proof.
  intros sync level win4k x H.
  induction H as [fail | x fuel d x' n e Hr IH Hw | x Hr IH | x Hr IH | x fail Hr IH].
  - unfold winv, W_new. cbn [wc we]. split; [apply comp_new_par|]. intros _. apply comp_new_good.
  - destruct IH as (I1 & I2). unfold W_write, wwrite in Hw.
    destruct (we comp x) eqn:Ee.
    + destruct (cloop fuel (wc comp x) d 0) as [[[c m] failed]|] eqn:El; [|discriminate Hw].
      injection Hw as H1 H2 H3. subst x' n e. unfold winv. cbn [wc we].
      destruct (cloop_par _ _ _ _ _ _ _ El) as (P1 & _).
      split; [apply (cpar_same_kind _ _ _ _ _ I1 P1)|].
      intros Hf. destruct failed; [discriminate Hf|].
      apply (cloop_good _ _ _ _ _ _ (I2 eq_refl) El).
    + injection Hw as H1 H2 H3. subst x'. unfold winv. rewrite Ee. split; [exact I1|discriminate].
    + injection Hw as H1 H2 H3. subst x'. unfold winv. rewrite Ee. split; [exact I1|discriminate].
  - destruct IH as (I1 & I2). unfold W_flush, wflush.
    destruct (we comp x) eqn:Ee.
    + destruct (c_flush (wc comp x)) as [c failed] eqn:Ef. cbn [fst]. unfold winv. cbn [wc we].
      destruct (c_flush_par _ _ _ Ef) as (P1 & _).
      split; [apply (cpar_same_kind _ _ _ _ _ I1 P1)|].
      intros Hf. destruct failed; [discriminate Hf|].
      specialize (I2 eq_refl). destruct (wc comp x) as [dd|h]; cbn [c_flush] in Ef.
      * destruct (dyn_flush dd) as [d1 f1] eqn:E1. injection Ef as H1 H2. subst c f1.
        cbn [cgood] in *. destruct I2 as (G1 & G2). apply (dyn_flush_good _ _ G1 G2 E1).
      * destruct (huf_flush h) as [h1 f1] eqn:E1. injection Ef as H1 H2. subst c f1.
        cbn [cgood]. unfold hgood. rewrite (huf_flush_ok _ _ E1). rewrite lenN_nil.
        unfold huf_max. lia.
    + cbn [fst]. unfold winv. rewrite Ee. split; [exact I1|discriminate].
    + cbn [fst]. unfold winv. rewrite Ee. split; [exact I1|discriminate].
  - destruct IH as (I1 & I2). unfold W_close, wclose.
    destruct (we comp x) eqn:Ee.
    + destruct (c_close (wc comp x)) as [c failed] eqn:Ef. cbn [fst]. unfold winv. cbn [wc we].
      destruct (c_close_par _ _ _ Ef) as (P1 & _).
      split; [apply (cpar_same_kind _ _ _ _ _ I1 P1)|].
      destruct failed; discriminate.
    + cbn [fst]. unfold winv. rewrite Ee. split; [exact I1|discriminate].
    + cbn [fst]. unfold winv. rewrite Ee. split; [exact I1|discriminate].
  - destruct IH as (I1 & I2). unfold W_reset, wreset, winv. cbn [wc we].
    rewrite (cpar_reset _ _ _ _ fail I1).
    split; [apply comp_new_par|]. intros _. apply comp_new_good.
Qed.

(* ------------------------------------------------------------------ *)
(* C09                                                                  *)

Theorem write_empty : write_empty_statement.
Proof.
  intros w fuel He. unfold W_write, wwrite. rewrite He. rewrite loop_nil.
  destruct w as [c e]. cbn [wc we] in *. subst e. reflexivity.
Qed.

Theorem write_fuel : write_fuel_statement.
Proof.
  intros sync level win4k w d fuel Hr Hf. destruct (reachable_inv _ _ _ _ Hr) as (I1 & I2).
  unfold W_write, wwrite. destruct (we comp w) eqn:Ee; try discriminate.
  destruct (cloop fuel (wc comp w) d 0) as [[[c m] failed]|] eqn:El; [discriminate|].
  exfalso. apply (cloop_fuel fuel (wc comp w) d 0%nat (I2 eq_refl) Hf). exact El.
Qed.

Theorem write_split : write_split_statement.
Proof.
  intros sync level win4k w a b fuel Hr Hf.
  pose proof (write_fuel sync level win4k w (a ++ b) fuel Hr
                ltac:(rewrite app_length; exact Hf)) as H12.
  unfold W_write, wwrite in *. destruct (we comp w) eqn:Ee.
  - destruct (cloop fuel (wc comp w) (a ++ b) 0) as [[[c12 n12] e12]|] eqn:E12; [|congruence].
    clear H12.
    destruct (split_core comp c_accumulate c_compress c_acc_split _ _ _ _ _ _ _ _ E12)
      as (c1 & n1 & e1 & S1 & S2 & S3).
    rewrite S1. cbn [wc we]. destruct e1.
    + destruct (S2 eq_refl) as (Hc & He). subst c12 e12. cbn [wc we orb].
      split; [reflexivity|]. split; [reflexivity|]. discriminate.
    + destruct (S3 eq_refl) as (Hn & n2 & L2 & Hn2). cbn [Nat.add] in Hn. subst n1.
      rewrite loop_num in L2.
      destruct (cloop fuel c1 b 0) as [[[c2 m2] e2]|] eqn:E2; [|discriminate L2].
      injection L2 as H1 H2 H3. subst c2 n2 e2. cbn [orb].
      split; [reflexivity|]. split; [reflexivity|]. intros He. symmetry. apply Hn2. exact He.
  - rewrite Ee. cbn [orb]. split; [reflexivity|]. split; [reflexivity|]. discriminate.
  - rewrite Ee. cbn [orb]. split; [reflexivity|]. split; [reflexivity|]. discriminate.
Qed.

(* ------------------------------------------------------------------ *)
(* C12                                                                  *)

Theorem reset_is_new : reset_is_new_statement.
Proof.
  intros sync level win4k w fail Hr. destruct (reachable_inv _ _ _ _ Hr) as (I1 & _).
  unfold W_reset, wreset, W_new. rewrite (cpar_reset _ _ _ _ fail I1). reflexivity.
Qed.

(* ------------------------------------------------------------------ *)
(* C14                                                                  *)

Theorem fault_sticky : fault_sticky_statement.
Proof.
  intros fuel w ops He Hn. exists (map (fun _ => true) ops). split.
  - unfold W_run. apply sticky_error; assumption.
  - clear. induction ops as [|o r IH]; cbn [map]; constructor; auto.
Qed.

Theorem closed_emits_nothing : closed_emits_nothing_statement.
Proof.
  intros fuel w ops He Hn. exists (map closed_result ops).
  unfold W_run. apply closed_is_absorbing; assumption.
Qed.

(* ------------------------------------------------------------------ *)
(* healthy destination; C16                                             *)

Definition whealthy (x : writer comp) : Prop := chealthy (wc comp x) /\ we comp x <> EDest.
Definition st_of (x : writer comp) : sstate :=
  match we comp x with ENone => SOpen | _ => SClosed end.

Notation cstep := (wstep comp c_accumulate c_compress c_flush c_close (c_reset_to None)).
Notation crun := (WriterSM.wrun comp c_accumulate c_compress c_flush c_close (c_reset_to None)).

Lemma wstep_healthy : forall fuel x o x' e, whealthy x -> cstep fuel x o = Some (x', e) ->
  whealthy x' /\ std_step (st_of x) o = (st_of x', e).
Proof.
  intros fuel x o x' e (Hh & Hne) H. unfold st_of. destruct o as [d| | |]; cbn [wstep] in H.
  - unfold wwrite in H. destruct (we comp x) eqn:Ee; [| |congruence].
    + destruct (cloop fuel (wc comp x) d 0) as [[[c m] failed]|] eqn:El; [|discriminate H].
      injection H as H1 H2. subst x' e.
      destruct (cloop_par _ _ _ _ _ _ _ El) as (_ & P2). destruct (P2 Hh) as (P3 & P4).
      subst failed. unfold whealthy. cbn [wc we]. split; [split; [exact P4|discriminate]|reflexivity].
    + injection H as H1 H2. subst x' e. rewrite Ee.
      split; [split; [exact Hh|congruence]|reflexivity].
  - unfold wflush in H. destruct (we comp x) eqn:Ee; [| |congruence].
    + destruct (c_flush (wc comp x)) as [c failed] eqn:Ef. injection H as H1 H2. subst x' e.
      destruct (c_flush_par _ _ _ Ef) as (_ & P2). destruct (P2 Hh) as (P3 & P4).
      subst failed. unfold whealthy. cbn [wc we]. split; [split; [exact P4|discriminate]|reflexivity].
    + injection H as H1 H2. subst x' e. rewrite Ee.
      split; [split; [exact Hh|congruence]|reflexivity].
  - unfold wclose in H. destruct (we comp x) eqn:Ee; [| |congruence].
    + destruct (c_close (wc comp x)) as [c failed] eqn:Ef. injection H as H1 H2. subst x' e.
      destruct (c_close_par _ _ _ Ef) as (_ & P2). destruct (P2 Hh) as (P3 & P4).
      subst failed. unfold whealthy. cbn [wc we]. split; [split; [exact P4|discriminate]|reflexivity].
    + injection H as H1 H2. subst x' e. rewrite Ee.
      split; [split; [exact Hh|congruence]|reflexivity].
  - injection H as H1 H2. subst x' e. unfold wreset, whealthy. cbn [wc we]. split.
    + split; [|discriminate]. unfold chealthy. destruct (wc comp x); reflexivity.
    + destruct (we comp x); reflexivity.
Qed.

Lemma wstep_reachable : forall sync level win4k fuel x o x' e,
  reachable sync level win4k x -> cstep fuel x o = Some (x', e) -> reachable sync level win4k x'.
Proof.
  intros sync level win4k fuel x o x' e Hr H. destruct o as [d| | |]; cbn [wstep] in H.
  - destruct (wwrite comp c_accumulate c_compress fuel x d) as [[[x1 n] e1]|] eqn:Ew; [|discriminate H].
    injection H as H1 H2. subst x1 e1. apply (R_write sync level win4k x fuel d x' n e Hr Ew).
  - injection H as H1. pose proof (R_flush sync level win4k x Hr) as R. unfold W_flush in R.
    destruct (wflush comp c_flush x) as [x1 e1]. cbn [fst] in R. injection H1 as H1 H2. subst x1. exact R.
  - injection H as H1. pose proof (R_close sync level win4k x Hr) as R. unfold W_close in R.
    destruct (wclose comp c_close x) as [x1 e1]. cbn [fst] in R. injection H1 as H1 H2. subst x1. exact R.
  - injection H as H1 H2. subst x'. apply (R_reset sync level win4k x None Hr).
Qed.

Lemma crun_healthy : forall ops fuel x x' flags, whealthy x -> crun fuel x ops = Some (x', flags) ->
  whealthy x' /\ flags = std_run (st_of x) ops.
Proof.
  induction ops as [|o r IH]; intros fuel x x' flags Hh H.
  - cbn [WriterSM.wrun] in H. injection H as H1 H2. subst x' flags. split; [exact Hh|reflexivity].
  - cbn [WriterSM.wrun] in H. destruct (cstep fuel x o) as [[x1 e]|] eqn:Es; [|discriminate H].
    destruct (crun fuel x1 r) as [[x2 es]|] eqn:Er; [|discriminate H].
    injection H as H1 H2. subst x' flags.
    destruct (wstep_healthy _ _ _ _ _ Hh Es) as (Hh1 & Hs).
    destruct (IH _ _ _ _ Hh1 Er) as (Hh2 & Hf).
    split; [exact Hh2|]. cbn [std_run]. rewrite Hs. rewrite Hf. reflexivity.
Qed.

Theorem healthy_no_error : healthy_no_error_statement.
Proof.
  intros sync level win4k fuel ops w flags H. unfold W_run in H.
  assert (Hh : whealthy (W_new sync level win4k None)).
  { unfold whealthy, W_new. cbn [wc we]. split; [apply comp_new_healthy|discriminate]. }
  destruct (crun_healthy _ _ _ _ _ Hh H) as ((H1 & H2) & _). split; [exact H1|exact H2].
Qed.

Lemma sum_writes_cons : forall o r,
  sum_writes (o :: r) = match o with OWrite d => (length d + sum_writes r)%nat | _ => sum_writes r end.
Proof. intros o r. reflexivity. Qed.

Lemma crun_exists : forall sync level win4k ops fuel x,
  reachable sync level win4k x -> (sum_writes ops < fuel)%nat ->
  exists x' flags, crun fuel x ops = Some (x', flags).
Proof.
  intros sync level win4k. induction ops as [|o r IH]; intros fuel x Hr Hf.
  - exists x, []. reflexivity.
  - rewrite sum_writes_cons in Hf.
    assert (Hs : exists x1 e, cstep fuel x o = Some (x1, e)).
    { destruct o as [d| | |]; cbn [wstep].
      - pose proof (write_fuel sync level win4k x d fuel Hr ltac:(lia)) as Hw.
        unfold W_write in Hw.
        destruct (wwrite comp c_accumulate c_compress fuel x d) as [[[x1 n] e1]|]; [|congruence].
        exists x1, e1. reflexivity.
      - destruct (wflush comp c_flush x) as [x1 e1]. exists x1, e1. reflexivity.
      - destruct (wclose comp c_close x) as [x1 e1]. exists x1, e1. reflexivity.
      - eexists. eexists. reflexivity. }
    destruct Hs as (x1 & e & Hs).
    pose proof (wstep_reachable _ _ _ _ _ _ _ _ Hr Hs) as Hr1.
    assert (Hf1 : (sum_writes r < fuel)%nat) by (destruct o; lia).
    destruct (IH fuel x1 Hr1 Hf1) as (x2 & es & Hrun).
    exists x2, (e :: es). cbn [WriterSM.wrun]. rewrite Hs, Hrun. reflexivity.
Qed.

Theorem call_sequences : call_sequences_statement.
Proof.
  intros sync level win4k ops.
  destruct (crun_exists sync level win4k ops (S (sum_writes ops)) (W_new sync level win4k None)
              (R_new sync level win4k None) ltac:(lia)) as (w & flags & Hrun).
  exists w, flags. split; [exact Hrun|].
  assert (Hh : whealthy (W_new sync level win4k None)).
  { unfold whealthy, W_new. cbn [wc we]. split; [apply comp_new_healthy|discriminate]. }
  destruct (crun_healthy _ _ _ _ _ Hh Hrun) as (_ & Hf). exact Hf.
Qed.

Print Assumptions write_fuel.
Print Assumptions write_empty.
Print Assumptions write_split.
Print Assumptions reset_is_new.
Print Assumptions fault_sticky.
Print Assumptions healthy_no_error.
Print Assumptions call_sequences.
Print Assumptions closed_emits_nothing.
