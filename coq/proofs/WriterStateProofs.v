(* WriterStateProofs.v — proofs of the statements of WModel/WriterSpec.v.

   STATEMENTS THAT ARE FALSE AS WRITTEN (they quantify over ALL writer states, including states
   no history can produce) and were therefore proved in a restricted form:

   * write_fuel_statement is false.  Counterexample (cex_huf below): a Huffman-only compressor
     whose buffer already holds 65537 > huf_max bytes: Accumulate copies 0 bytes and does not
     trigger, so the loop of Write spins: W_write fuel cex_huf [0] = None for every fuel
     (checked for fuel = 2).  A second counterexample with a dynCompressor (cex_dyn): window 1,
     full buffer of 260 zeros, idx = 0, processed = 1, empty table: Accumulate copies nothing,
     Compress stops at once on the (modelled) out-of-bounds candidate without advancing idx, so
     two iterations are wasted and W_write 2 cex_dyn [0] = None.
     Both are refuted formally: write_fuel_statement_false.
   * write_split_statement is false for the same reason (a = [0], b = [], fuel = 2 on cex_huf:
     the statement requires the calls not to run out of fuel): write_split_statement_false.

   Proved instead, for every state reachable from a new writer (predicate `reachable` of
   WriterSpec.v: any settings, any destination fault, any sequence of Write/Flush/Close/Reset):
     write_fuel_partial, write_split_partial.
   The split property itself (split_core) holds for all states whenever the one-shot call
   terminates; only the termination (fuel) part needs reachability.

   All other statements are proved as written. *)
From Verif Require Import WriterSpec.
From Verif Require Import LZ77Proofs.
From Coq Require Import Lia ZifyBool ZifyNat ZifyN.
Open Scope N_scope.

(* ------------------------------------------------------------------ *)
(* counterexamples                                                      *)

Definition cex_huf : writer comp :=
  mkw comp (CHuf (mkhuf (repeat 0 (N.to_nat 65537)) bb_empty (dest_new None))) ENone.
Definition cex_dyn : writer comp :=
  mkw comp (CDyn (mkdyn 1 4095 false (repeat 0 260) 0 1 aempty [] 0 bb_empty (dest_new None) false))
      ENone.

Lemma cex_huf_spins : W_write 2 cex_huf [0] = None.
Proof. vm_compute. reflexivity. Qed.

Lemma cex_dyn_spins : W_write 2 cex_dyn [0] = None.
Proof. vm_compute. reflexivity. Qed.

Lemma write_fuel_statement_false : ~ write_fuel_statement.
Proof.
  intros H. apply (H cex_huf [0] 2%nat); [cbn [length]; lia|]. exact cex_huf_spins.
Qed.

Lemma write_split_statement_false : ~ write_split_statement.
Proof.
  intros H. specialize (H cex_huf [0] [] 2%nat ltac:(cbn [length]; lia)).
  change ([0] ++ []) with [0] in H. rewrite cex_huf_spins in H. exact H.
Qed.

(* ------------------------------------------------------------------ *)
(* list helpers                                                         *)

Lemma firstn_app_le : forall (A : Type) (n : nat) (a b : list A),
  (n <= length a)%nat -> firstn n (a ++ b) = firstn n a.
Proof.
  intros A n a b H. rewrite firstn_app.
  replace (n - length a)%nat with O by lia. cbn [firstn]. apply app_nil_r.
Qed.

Lemma firstn_app_ge : forall (A : Type) (n : nat) (a b : list A),
  (length a <= n)%nat -> firstn n (a ++ b) = a ++ firstn (n - length a) b.
Proof.
  intros A n a b H. rewrite firstn_app. rewrite firstn_all2 by exact H. reflexivity.
Qed.

Lemma skipn_app_le : forall (A : Type) (n : nat) (a b : list A),
  (n <= length a)%nat -> skipn n (a ++ b) = skipn n a ++ b.
Proof.
  intros A n a b H. rewrite skipn_app.
  replace (n - length a)%nat with O by lia. reflexivity.
Qed.

Lemma skipn_app_ge : forall (A : Type) (n : nat) (a b : list A),
  (length a <= n)%nat -> skipn n (a ++ b) = skipn (n - length a) b.
Proof.
  intros A n a b H. rewrite skipn_app. rewrite skipn_all2 by exact H. reflexivity.
Qed.

Lemma lenN_app : forall (A : Type) (a b : list A), lenN (a ++ b) = lenN a + lenN b.
Proof. intros A a b. unfold lenN. rewrite app_length. lia. Qed.

(* ------------------------------------------------------------------ *)
(* the loop of Write, for any compressor                                *)

Section Loop.
  Variable C : Type.
  Variable acc : C -> list N -> C * nat * bool.
  Variable cmp : C -> C * bool.

  Notation loop := (write_loop C acc cmp).

  (* the starting count is only an offset *)
  Lemma loop_num : forall f c d n,
    loop f c d n =
    match loop f c d 0 with Some (c', m, e) => Some (c', (n + m)%nat, e) | None => None end.
  Proof.
    induction f as [|f IH]; intros c d n.
    - destruct d as [|x r]; cbn [write_loop]; [|reflexivity].
      rewrite Nat.add_0_r. reflexivity.
    - destruct d as [|x r]; cbn [write_loop].
      + rewrite Nat.add_0_r. reflexivity.
      + destruct (acc c (x :: r)) as [[c1 k] t].
        destruct t.
        * destruct (cmp c1) as [c2 failed]. destruct failed.
          -- rewrite Nat.add_0_r. reflexivity.
          -- rewrite (IH c2 _ (n + k)%nat). rewrite (IH c2 _ (0 + k)%nat).
             destruct (loop f c2 (skipn k (x :: r)) 0) as [[[c' m] e]|]; [|reflexivity].
             f_equal. f_equal. f_equal. lia.
        * rewrite (IH c1 _ (n + k)%nat). rewrite (IH c1 _ (0 + k)%nat).
          destruct (loop f c1 (skipn k (x :: r)) 0) as [[[c' m] e]|]; [|reflexivity].
          f_equal. f_equal. f_equal. lia.
  Qed.

  Lemma loop_nil : forall f c n, loop f c [] n = Some (c, n, false).
  Proof. intros f c n. destruct f; reflexivity. Qed.

  Lemma loop_S : forall f c d n, d <> [] ->
    loop (S f) c d n =
    let '(c1, k, trig) := acc c d in
    if trig then
      let '(c2, failed) := cmp c1 in
      if failed then Some (c2, n, true) else loop f c2 (skipn k d) (n + k)
    else loop f c1 (skipn k d) (n + k).
  Proof. intros f c d n Hd. destruct d as [|y d']; [congruence|]. reflexivity. Qed.

  Lemma loop_O : forall c d n, d <> [] -> loop O c d n = None.
  Proof. intros c d n Hd. destruct d as [|y d']; [congruence|]. reflexivity. Qed.

  (* more fuel does not change a result *)
  Lemma loop_mono : forall f c d n r, loop f c d n = Some r -> loop (S f) c d n = Some r.
  Proof.
    induction f as [|f IH]; intros c d n r H.
    - destruct d as [|x d'].
      + rewrite loop_nil in *. exact H.
      + rewrite loop_O in H by discriminate. discriminate H.
    - destruct d as [|x d'].
      + rewrite loop_nil in *. exact H.
      + rewrite loop_S in H by discriminate. rewrite loop_S by discriminate.
        destruct (acc c (x :: d')) as [[c1 k] t]. destruct t.
        * destruct (cmp c1) as [c2 failed]. destruct failed; [exact H|].
          apply IH. exact H.
        * apply IH. exact H.
  Qed.

  (* what Accumulate must satisfy for Write (a ++ b) = Write a; Write b *)
  Definition acc_split : Prop :=
    forall c a b, a <> [] ->
      forall c1 k1 t1, acc c a = (c1, k1, t1) ->
      (k1 <= length a)%nat /\
      ((k1 < length a)%nat \/ t1 = true -> acc c (a ++ b) = (c1, k1, t1)) /\
      (k1 = length a -> t1 = false -> b <> [] ->
       forall c2 k2 t2, acc c1 b = (c2, k2, t2) -> acc c (a ++ b) = (c2, (k1 + k2)%nat, t2)).

  Hypothesis Hsplit : acc_split.

  Lemma split_core : forall f c a b n c12 n12 e12,
    loop f c (a ++ b) n = Some (c12, n12, e12) ->
    exists c1 n1 e1, loop f c a n = Some (c1, n1, e1) /\
      (e1 = true -> c12 = c1 /\ e12 = true) /\
      (e1 = false -> n1 = (n + length a)%nat /\
         exists n2, loop f c1 b n1 = Some (c12, n2, e12) /\ (e12 = false -> n2 = n12)).
  Proof.
    induction f as [|f IH]; intros c a b n c12 n12 e12 H.
    - destruct a as [|x a'].
      + exists c, n, false. rewrite loop_nil. split; [reflexivity|]. split; [discriminate|].
        intros _. cbn [length]. split; [lia|]. exists n12. split; [exact H|reflexivity].
      + rewrite loop_O in H by discriminate. discriminate H.
    - destruct a as [|x a'].
      + exists c, n, false. rewrite loop_nil. split; [reflexivity|]. split; [discriminate|].
        intros _. cbn [length]. split; [lia|]. exists n12. split; [exact H|reflexivity].
      + remember (x :: a') as a eqn:Ea.
        assert (Hne : a <> []) by (subst a; discriminate).
        assert (Hne2 : a ++ b <> []) by (subst a; discriminate).
        destruct (acc c a) as [[c1 k1] t1] eqn:Eacc.
        destruct (Hsplit c a b Hne c1 k1 t1 Eacc) as (Hk & Hsame & Hmerge).
        rewrite (loop_S _ _ _ _ Hne2) in H. rewrite (loop_S _ _ _ _ Hne). rewrite Eacc.
        assert (Hcont : forall c2, loop f c2 (skipn k1 a ++ b) (n + k1) = Some (c12, n12, e12) ->
                  exists c1' n1 e1, loop f c2 (skipn k1 a) (n + k1) = Some (c1', n1, e1) /\
                    (e1 = true -> c12 = c1' /\ e12 = true) /\
                    (e1 = false -> n1 = (n + length a)%nat /\
                       exists n2, loop (S f) c1' b n1 = Some (c12, n2, e12) /\
                                  (e12 = false -> n2 = n12))).
        { intros c2 H2.
          destruct (IH c2 (skipn k1 a) b (n + k1)%nat c12 n12 e12 H2)
            as (c1' & n1 & e1 & I1 & I2 & I3).
          exists c1', n1, e1. split; [exact I1|]. split; [exact I2|].
          intros He. destruct (I3 He) as (I4 & n2 & I5 & I6). rewrite skipn_length in I4.
          split; [lia|]. exists n2. split; [apply loop_mono; exact I5|exact I6]. }
        destruct (Nat.eq_dec k1 (length a)) as [Hfull|Hpart].
        * destruct t1.
          -- (* a fills the buffer exactly: Compress, then b is handled alone *)
             rewrite (Hsame (or_intror eq_refl)) in H.
             destruct (cmp c1) as [c2 failed]. destruct failed.
             ++ exists c2, n, true. split; [reflexivity|].
                split; [intros _; split; congruence|discriminate].
             ++ rewrite skipn_app_le in H by lia. apply Hcont. exact H.
          -- (* a is copied entirely and leaves room *)
             rewrite skipn_all2 by lia. rewrite loop_nil.
             exists c1, (n + k1)%nat, false. split; [reflexivity|]. split; [discriminate|].
             intros _. split; [lia|].
             destruct b as [|y b'].
             ++ rewrite loop_nil. rewrite app_nil_r in H. rewrite Eacc in H.
                rewrite skipn_all2 in H by lia. rewrite loop_nil in H.
                exists n12. split; [exact H|reflexivity].
             ++ remember (y :: b') as b0 eqn:Eb.
                assert (Hnb : b0 <> []) by (subst b0; discriminate).
                rewrite (loop_S _ _ _ _ Hnb).
                destruct (acc c1 b0) as [[c2 k2] t2] eqn:Eacc2.
                rewrite (Hmerge Hfull eq_refl Hnb c2 k2 t2 eq_refl) in H.
                rewrite skipn_app_ge in H by lia.
                replace (k1 + k2 - length a)%nat with k2 in H by lia.
                replace (n + (k1 + k2))%nat with (n + k1 + k2)%nat in H by lia.
                destruct t2.
                ** destruct (cmp c2) as [c3 failed]. destruct failed.
                   --- (* the one-shot call reports n, the second call n + |a| *)
                       exists (n + k1)%nat. inversion H; subst c12 n12 e12.
                       split; [reflexivity|discriminate].
                   --- exists n12. split; [exact H|reflexivity].
                ** exists n12. split; [exact H|reflexivity].
        * (* a does not fit: both calls start with the same Accumulate *)
          assert (Hlt : (k1 < length a)%nat) by lia.
          rewrite (Hsame (or_introl Hlt)) in H.
          rewrite skipn_app_le in H by lia.
          destruct t1.
          -- destruct (cmp c1) as [c2 failed]. destruct failed.
             ++ exists c2, n, true. split; [reflexivity|].
                split; [intros _; split; congruence|discriminate].
             ++ apply Hcont. exact H.
          -- apply Hcont. exact H.
  Qed.
End Loop.

(* ------------------------------------------------------------------ *)
(* Accumulate of the two compressors satisfies acc_split (all states)   *)

Definition dyn_with_buf (c : dyn) (b : list N) : dyn :=
  mkdyn (dW c) (dmask c) (dsync c) b (didx c) (dproc c) (dtable c) (dtoks c) (dntok c)
        (dbb c) (ddest c) (doob c).

Definition dyn_slide (c : dyn) : dyn :=
  if 2 * dW c <=? didx c then
    mkdyn (dW c) (dmask c) (dsync c) (skipn (N.to_nat (didx c - dW c)) (dbuf c))
          (didx c - (didx c - dW c)) (dproc c) (dtable c) (dtoks c) (dntok c) (dbb c) (ddest c) (doob c)
  else c.

Definition dyn_room (c1 : dyn) : nat := N.to_nat (dyn_cap c1 - lenN (dbuf c1)).

Definition dyn_put (c1 : dyn) (data : list N) : dyn * nat * bool :=
  let chunk := firstn (dyn_room c1) data in
  (dyn_with_buf c1 (dbuf c1 ++ chunk), length chunk,
   negb (lenN (dbuf c1 ++ chunk) <? dyn_cap c1)).

Lemma dyn_accumulate_eq : forall c data, dyn_accumulate c data = dyn_put (dyn_slide c) data.
Proof. intros c data. reflexivity. Qed.

Lemma dyn_slide_put : forall c b,
  dyn_slide (dyn_with_buf (dyn_slide c) b) = dyn_with_buf (dyn_slide c) b.
Proof.
  intros c b. unfold dyn_slide at 2 3. destruct (2 * dW c <=? didx c) eqn:E.
  - unfold dyn_slide, dyn_with_buf. cbn [dW dmask dsync dbuf didx dproc dtable dtoks dntok dbb ddest doob].
    destruct (2 * dW c <=? didx c - (didx c - dW c)) eqn:E2; [|reflexivity].
    assert (HW : dW c = 0) by lia.
    replace (didx c - (didx c - dW c) - dW c) with 0 by lia.
    cbn [N.to_nat skipn]. rewrite N.sub_0_r. reflexivity.
  - unfold dyn_slide, dyn_with_buf. cbn [dW dmask dsync dbuf didx dproc dtable dtoks dntok dbb ddest doob].
    rewrite E. reflexivity.
Qed.

Lemma dyn_put_split : forall c1 a b, a <> [] ->
  forall c2 k1 t1, dyn_put c1 a = (c2, k1, t1) ->
  (k1 <= length a)%nat /\
  ((k1 < length a)%nat \/ t1 = true -> dyn_put c1 (a ++ b) = (c2, k1, t1)) /\
  (k1 = length a -> t1 = false -> b <> [] ->
   forall c3 k2 t2, dyn_put c2 b = (c3, k2, t2) -> dyn_put c1 (a ++ b) = (c3, (k1 + k2)%nat, t2)).
Proof.
  intros c1 a b Ha c2 k1 t1 H. unfold dyn_put in H. inversion H as [[H1 H2 H3]]. clear H.
  pose proof (firstn_length (dyn_room c1) a) as HL.
  assert (Hla : (0 < length a)%nat) by (destruct a; [congruence|cbn [length]; lia]).
  split; [lia|]. split.
  - intros Hc.
    assert (Hroom : (dyn_room c1 <= length a)%nat).
    { destruct Hc as [Hc|Hc]; [lia|]. subst t1.
      rewrite lenN_app in Hc. unfold lenN in Hc. unfold dyn_room, lenN in *. lia. }
    unfold dyn_put. rewrite firstn_app_le by exact Hroom. reflexivity.
  - intros Hk Ht Hb c3 k2 t2 H.
    assert (Hroom : (length a < dyn_room c1)%nat).
    { subst t1. rewrite lenN_app in Ht. unfold dyn_room, lenN in *. lia. }
    assert (Hfa : firstn (dyn_room c1) a = a) by (apply firstn_all2; lia).
    unfold dyn_put in H |- *. rewrite firstn_app_ge by lia.
    rewrite Hfa in *.
    assert (Hr2 : dyn_room (dyn_with_buf c1 (dbuf c1 ++ a)) = (dyn_room c1 - length a)%nat).
    { unfold dyn_room, dyn_with_buf, dyn_cap. cbn [dW dbuf]. rewrite lenN_app. unfold lenN. lia. }
    rewrite Hr2 in H. unfold dyn_with_buf in H |- *.
    cbn [dW dmask dsync dbuf didx dproc dtable dtoks dntok dbb ddest doob] in H.
    unfold dyn_cap in H |- *. cbn [dW] in H.
    rewrite <- app_assoc in H. inversion H as [[G1 G2 G3]].
    rewrite app_length. reflexivity.
Qed.

Lemma dyn_acc_split : acc_split dyn dyn_accumulate.
Proof.
  intros c a b Ha c1 k1 t1 H. rewrite dyn_accumulate_eq in H.
  destruct (dyn_put_split (dyn_slide c) a b Ha c1 k1 t1 H) as (P1 & P2 & P3).
  split; [exact P1|]. split.
  - intros Hc. rewrite dyn_accumulate_eq. apply P2. exact Hc.
  - intros Hk Ht Hb c2 k2 t2 H2. rewrite dyn_accumulate_eq in H2 |- *.
    assert (Hc1 : c1 = dyn_with_buf (dyn_slide c) (dbuf c1)).
    { unfold dyn_put in H. inversion H. reflexivity. }
    rewrite Hc1 in H2. rewrite dyn_slide_put in H2. rewrite <- Hc1 in H2.
    apply P3; assumption.
Qed.

Definition huf_room (h : huf) : nat := N.to_nat (huf_max - lenN (hbuf h)).

Lemma huf_acc_split : acc_split huf huf_accumulate.
Proof.
  intros h a b Ha h1 k1 t1 H. unfold huf_accumulate in H. fold (huf_room h) in H.
  cbn [hbuf] in H. inversion H as [[H1 H2 H3]]. clear H.
  pose proof (firstn_length (huf_room h) a) as HL.
  assert (Hla : (0 < length a)%nat) by (destruct a; [congruence|cbn [length]; lia]).
  split; [lia|]. split.
  - intros Hc.
    assert (Hroom : (huf_room h <= length a)%nat).
    { destruct Hc as [Hc|Hc]; [lia|]. subst t1.
      rewrite lenN_app in Hc. unfold huf_room, lenN in *. lia. }
    unfold huf_accumulate. fold (huf_room h). rewrite firstn_app_le by exact Hroom. reflexivity.
  - intros Hk Ht Hb h2 k2 t2 H.
    assert (Hroom : (length a < huf_room h)%nat).
    { subst t1. rewrite lenN_app in Ht. unfold huf_room, lenN in *. lia. }
    assert (Hfa : firstn (huf_room h) a = a) by (apply firstn_all2; lia).
    unfold huf_accumulate in H |- *. fold (huf_room h). rewrite firstn_app_ge by lia.
    rewrite Hfa in *. cbn [hbuf hbb hdest] in H |- *.
    replace (N.to_nat (huf_max - lenN (hbuf h ++ a))) with (huf_room h - length a)%nat in H
      by (rewrite lenN_app; unfold huf_room, lenN; lia).
    rewrite <- app_assoc in H. inversion H as [[G1 G2 G3]].
    rewrite app_length. reflexivity.
Qed.

Lemma c_acc_split : acc_split comp c_accumulate.
Proof.
  intros c a b Ha c1 k1 t1 H. destruct c as [d|h]; cbn [c_accumulate] in H |- *.
  - destruct (dyn_accumulate d a) as [[d1 n1] tt1] eqn:E. inversion H; subst c1 k1 t1. clear H.
    destruct (dyn_acc_split d a b Ha d1 n1 tt1 E) as (P1 & P2 & P3).
    split; [exact P1|]. split.
    + intros Hc. rewrite (P2 Hc). reflexivity.
    + intros Hk Ht Hb c2 k2 t2 H2. cbn [c_accumulate] in H2.
      destruct (dyn_accumulate d1 b) as [[d2 n2] tt2] eqn:E2. inversion H2; subst c2 k2 t2.
      rewrite (P3 Hk Ht Hb d2 n2 tt2 eq_refl). reflexivity.
  - destruct (huf_accumulate h a) as [[d1 n1] tt1] eqn:E. inversion H; subst c1 k1 t1. clear H.
    destruct (huf_acc_split h a b Ha d1 n1 tt1 E) as (P1 & P2 & P3).
    split; [exact P1|]. split.
    + intros Hc. rewrite (P2 Hc). reflexivity.
    + intros Hk Ht Hb c2 k2 t2 H2. cbn [c_accumulate] in H2.
      destruct (huf_accumulate d1 b) as [[d2 n2] tt2] eqn:E2. inversion H2; subst c2 k2 t2.
      rewrite (P3 Hk Ht Hb d2 n2 tt2 eq_refl). reflexivity.
Qed.

(* ------------------------------------------------------------------ *)
(* facts about the match finder needed for progress                     *)

Lemma tlen_ge : forall W ts b, toks_ok W b ts -> lenN ts <= tlen ts.
Proof.
  intros W. induction ts as [|t r IH]; intros b H.
  - cbn [tlen]. rewrite lenN_nil. lia.
  - cbn [toks_ok] in H. destruct H as (Ht & Hr). rewrite lenN_cons. cbn [tlen].
    specialize (IH _ Hr). destruct t as [x|len dist]; cbn [tok_len tok_ok] in *; lia.
Qed.

Lemma lz77_facts : forall flush mask W input processed offset table toks ntok maxToken,
  offset <= lenN input ->
  forall r, r = lz77 flush mask W input processed offset table toks ntok maxToken ->
  lz_oob r = false ->
  offset <= lz_off r /\ lz_off r <= lenN input /\ ntok <= lz_ntok r /\
  lz_ntok r - ntok <= lz_off r - offset.
Proof.
  intros flush mask W input processed offset table toks ntok maxToken Hoff r Hr Hoob.
  unfold lz77 in Hr.
  destruct (lz_loop_ok flush W input (lenN input - 8) mask (processed - offset) maxToken
              (skipn (N.to_nat offset) input) offset O table toks ntok eq_refl
              ltac:(change (N.of_nat 0) with 0; lia) r Hr Hoob)
    as (new & adv & I1 & I2 & I3 & I4 & I5).
  change (N.of_nat 0) with 0 in *. rewrite N.add_0_r in *.
  destruct I3 as (G1 & G2 & G3 & G4).
  pose proof (tlen_ge _ _ _ G3) as HT. unfold lenN in HT. rewrite rev_length in HT.
  unfold lenN in *. lia.
Qed.

(* without flush the match finder stops only at the token limit or 8 bytes before the end *)
Lemma lz_loop_nonflush : forall W input e mask rel maxToken l offset skip table toks ntok,
  l = skipn (N.to_nat offset) input ->
  offset + N.of_nat skip <= lenN input ->
  forall r, r = lz_loop false (arr_of_list input) (lenN input) e mask W rel maxToken
                        l offset skip table toks ntok false ->
  lz_oob r = false ->
  maxToken < lz_ntok r \/ e <= lz_off r \/ lz_off r = lenN input.
Proof.
  intros W input e mask rel maxToken.
  induction l as [|b l' IH]; intros offset skip table toks ntok Hl Hlen r Hr Hoob.
  - cbn [lz_loop] in Hr. symmetry in Hl. apply skipn_nil_len in Hl.
    subst r. cbn [lz_off]. right. right. unfold lenN in *. lia.
  - pose proof Hl as Hl0. symmetry in Hl. apply skipn_cons_nth in Hl. destruct Hl as (Hlt & Hb & Hl').
    assert (Hl'' : l' = skipn (N.to_nat (offset + 1)) input).
    { rewrite Hl'. f_equal. lia. }
    cbn [lz_loop] in Hr. destruct skip as [|k].
    + change (N.of_nat 0) with 0 in *. rewrite N.add_0_r in *.
      destruct (offset <? e) eqn:Ee.
      * remember (lz_step (arr_of_list input) e mask W rel offset (b :: l') table ntok maxToken)
          as sr eqn:Hsr.
        destruct (sr_oob sr) eqn:Esro.
        { exfalso. cbn [orb] in Hr. destruct (sr_stop sr).
          - subst r. discriminate Hoob.
          - subst r. rewrite lz_loop_oob_true in Hoob. discriminate Hoob. }
        cbn [orb] in Hr. rewrite Hl0 in Hsr.
        destruct (lz_step_ok W input e mask rel offset table ntok maxToken
                    ltac:(unfold lenN; lia) sr Hsr Esro) as (SG & SA & SS).
        destruct (sr_stop sr) eqn:Estop.
        -- left. subst r. cbn [lz_ntok]. apply SS. reflexivity.
        -- destruct SG as (SG1 & SG2).
           apply (IH (offset + 1) (N.to_nat (sr_adv sr) - 1)%nat (sr_table sr)
                     (sr_toks sr ++ toks) (ntok + lenN (sr_toks sr)) Hl'' ltac:(lia) r Hr Hoob).
      * right. left. subst r. cbn [lz_off]. lia.
    + apply (IH (offset + 1) k table toks ntok Hl'' ltac:(lia) r Hr Hoob).
Qed.

Lemma lz77_nonflush : forall mask W input processed offset table toks ntok maxToken,
  offset <= lenN input ->
  forall r, r = lz77 false mask W input processed offset table toks ntok maxToken ->
  lz_oob r = false ->
  maxToken < lz_ntok r \/ lenN input - 8 <= lz_off r.
Proof.
  intros mask W input processed offset table toks ntok maxToken Hoff r Hr Hoob.
  unfold lz77 in Hr.
  destruct (lz_loop_nonflush W input (lenN input - 8) mask (processed - offset) maxToken
              (skipn (N.to_nat offset) input) offset O table toks ntok eq_refl
              ltac:(change (N.of_nat 0) with 0; lia) r Hr Hoob) as [H|[H|H]].
  - left. exact H.
  - right. exact H.
  - right. lia.
Qed.
