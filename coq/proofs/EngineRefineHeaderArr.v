(* EngineRefineHeaderArr.v -- M4a: how the list of code lengths read so far sits in the arrays
   of readLitDistLens (huffs, litCount, distCount, litExpandCount), and how one more length
   changes them. *)
From Coq Require Import List NArith ZArith Bool Lia ZifyBool ZifyNat ZifyN.
From Verif Require Import Bits Huffman HuffmanSpec Inflate.
From Verif Require Import Base EngineTables Engine EngineRefineSpec EngineRefineBits EngineRefineBridge.
From Verif Require Import EngineRefineHeaderBase.
Import ListNotations.
Open Scope N_scope.

(* ---------------------------------------------------------------- lists *)
Lemma nth_snoc : forall (l : list nat) x k,
  nth k (l ++ [x]) 0%nat = if Nat.eqb k (length l) then x else nth k l 0%nat.
Proof.
  intros l x k. destruct (Nat.eqb_spec k (length l)) as [->|Hne].
  - apply nth_middle.
  - destruct (Nat.lt_ge_cases k (length l)) as [Hlt|Hge].
    + apply app_nth1. exact Hlt.
    + rewrite app_nth2 by lia. rewrite (nth_overflow l) by lia.
      destruct (k - length l)%nat as [|m] eqn:E; [lia|]. cbn [nth]. destruct m; reflexivity.
Qed.

Lemma count_len_snoc : forall l x y,
  count_len (l ++ [x]) y = count_len l y + (if Nat.eqb x y then 1 else 0).
Proof.
  intros l x y. unfold count_len. rewrite count_occ_app. cbn [count_occ].
  destruct (Nat.eq_dec x y) as [E|E]; destruct (Nat.eqb_spec x y); try congruence; lia.
Qed.

Lemma count_len_le : forall l y, count_len l y <= N.of_nat (length l).
Proof.
  intros l y. unfold count_len. induction l as [|a r IH]; [cbn; lia|].
  cbn [count_occ length]. destruct (Nat.eq_dec a y); lia.
Qed.

Lemma split_snoc_lit : forall (L : list nat) x nlit, (length L < nlit)%nat ->
  firstn nlit L = L /\ skipn nlit L = [] /\
  firstn nlit (L ++ [x]) = L ++ [x] /\ skipn nlit (L ++ [x]) = [].
Proof.
  intros L x nlit H.
  split; [apply firstn_all2; lia|]. split; [apply skipn_all2; lia|].
  split; [apply firstn_all2; rewrite app_length; cbn [length]; lia|].
  apply skipn_all2. rewrite app_length. cbn [length]. lia.
Qed.

Lemma split_snoc_dist : forall (L : list nat) x nlit, (nlit <= length L)%nat ->
  firstn nlit (L ++ [x]) = firstn nlit L /\ skipn nlit (L ++ [x]) = skipn nlit L ++ [x] /\
  length (skipn nlit L) = (length L - nlit)%nat.
Proof.
  intros L x nlit H.
  split; [|split].
  - rewrite firstn_app. replace (nlit - length L)%nat with 0%nat by lia. cbn [firstn]. apply app_nil_r.
  - rewrite skipn_app. replace (nlit - length L)%nat with 0%nat by lia. reflexivity.
  - apply skipn_length.
Qed.

(* ---------------------------------------------------------------- exp_delta, one more length *)
Definition edt (len s X : N) : Z :=
  let extra := aget rfc_len_extra (s - 257) in
  if len =? 0 then 0%Z
  else Z.sub (if len + extra =? X then Z.of_N (2 ^ extra) else 0%Z) (if len =? X then 1%Z else 0%Z).

Definition zsum (f : N -> Z) (l : list N) : Z := fold_right (fun s acc => Z.add (f s) acc) 0%Z l.

Lemma exp_delta_zsum : forall ll X,
  exp_delta ll X = zsum (fun s => edt (N.of_nat (nth (N.to_nat s) ll 0%nat)) s X) (seqN 264 22).
Proof. reflexivity. Qed.

Lemma zsum_seqN_change : forall n a (f g : N -> Z) s0 dl,
  (forall s, s <> s0 -> g s = f s) -> g s0 = (f s0 + dl)%Z ->
  zsum g (seqN a n) =
  Z.add (zsum f (seqN a n)) (if (a <=? s0) && (s0 <? a + N.of_nat n) then dl else 0%Z).
Proof.
  induction n as [|n IH]; intros a f g s0 dl Hne Heq.
  - cbn [seqN zsum fold_right].
    destruct (N.leb_spec a s0); destruct (N.ltb_spec s0 (a + N.of_nat 0)); cbn [andb]; lia.
  - cbn [seqN]. unfold zsum in *. cbn [fold_right].
    rewrite (IH (a + 1) f g s0 dl Hne Heq).
    destruct (N.eq_dec a s0) as [->|Hd].
    + rewrite Heq.
      destruct (N.leb_spec (s0 + 1) s0); [lia|].
      destruct (N.leb_spec s0 s0); [|lia].
      destruct (N.ltb_spec s0 (s0 + N.of_nat (S n))); [|lia]. cbn [andb]. lia.
    + rewrite (Hne a Hd).
      destruct (N.leb_spec (a + 1) s0); destruct (N.leb_spec a s0);
        destruct (N.ltb_spec s0 (a + 1 + N.of_nat n)); destruct (N.ltb_spec s0 (a + N.of_nat (S n)));
        cbn [andb]; lia.
Qed.

Lemma exp_delta_snoc : forall l x X,
  exp_delta (l ++ [x]) X =
  Z.add (exp_delta l X)
   (if (264 <=? N.of_nat (length l)) && (N.of_nat (length l) <? 286)
    then edt (N.of_nat x) (N.of_nat (length l)) X else 0%Z).
Proof.
  intros l x X. rewrite !exp_delta_zsum.
  apply (zsum_seqN_change 22 264 _ _ (N.of_nat (length l)) (edt (N.of_nat x) (N.of_nat (length l)) X)).
  - intros s Hs. rewrite nth_snoc.
    destruct (Nat.eqb_spec (N.to_nat s) (length l)) as [E|_]; [lia|reflexivity].
  - rewrite Nat2N.id, nth_snoc, Nat.eqb_refl. rewrite (nth_overflow l) by lia.
    unfold edt at 2. cbn [N.of_nat N.eqb]. lia.
Qed.

(* ---------------------------------------------------------------- uint16 arithmetic *)
Lemma sub16_mod : forall D : Z, sub16 (Z.to_N (D mod 65536)) 1 = Z.to_N ((D - 1) mod 65536).
Proof.
  intros D. unfold sub16, subw. change (N.shiftl 1 16) with 65536.
  pose proof (Z.mod_pos_bound D 65536 ltac:(lia)) as B.
  pose proof (Z.mod_pos_bound (D - 1) 65536 ltac:(lia)) as B1.
  pose proof (Z.div_mod D 65536 ltac:(lia)) as E.
  pose proof (Z.div_mod (D - 1) 65536 ltac:(lia)) as E1.
  destruct (N.leb_spec 1 (Z.to_N (D mod 65536))); lia.
Qed.

Lemma add16_mod : forall (D : Z) k, u16 (Z.to_N (D mod 65536) + k) = Z.to_N ((D + Z.of_N k) mod 65536).
Proof.
  intros D k. rewrite u16_mod.
  pose proof (Z.mod_pos_bound D 65536 ltac:(lia)) as B.
  pose proof (Z.mod_pos_bound (D + Z.of_N k) 65536 ltac:(lia)) as B1.
  pose proof (Z.div_mod D 65536 ltac:(lia)) as E.
  pose proof (Z.div_mod (D + Z.of_N k) 65536 ltac:(lia)) as E1.
  pose proof (N.mod_lt (Z.to_N (D mod 65536) + k) 65536 ltac:(lia)) as B2.
  pose proof (N.div_mod (Z.to_N (D mod 65536) + k) 65536 ltac:(lia)) as E2.
  lia.
Qed.

Lemma expand_adjust_spec : forall ex x s (D : N -> Z),
  x <> 0 -> aget ex 0 = 0 ->
  (forall X, 1 <= X -> aget ex X = Z.to_N (D X mod 65536)) ->
  aget (expand_adjust ex x (Z.of_N s)) 0 = 0 /\
  forall X, 1 <= X ->
    aget (expand_adjust ex x (Z.of_N s)) X = Z.to_N ((D X + edt x s X) mod 65536).
Proof.
  intros ex x s D Hx H0 HD. unfold expand_adjust.
  replace (Z.to_N (Z.of_N s - 257)) with (s - 257) by lia.
  set (extra := aget rfc_len_extra (s - 257)).
  set (ex1 := aset ex x (sub16 (aget ex x) 1)).
  assert (H1 : forall Y, 1 <= Y ->
            aget ex1 Y = Z.to_N ((D Y - (if x =? Y then 1 else 0)) mod 65536)).
  { intros Y HY. unfold ex1. rewrite aget_aset.
    destruct (N.eqb_spec Y x) as [->|Hne].
    - rewrite N.eqb_refl. rewrite (HD x HY). apply sub16_mod.
    - destruct (N.eqb_spec x Y) as [E|_]; [congruence|]. rewrite Z.sub_0_r. apply HD. exact HY. }
  split.
  - rewrite aget_aset. destruct (N.eqb_spec 0 (x + extra)) as [E|_]; [lia|].
    unfold ex1. rewrite aget_aset. destruct (N.eqb_spec 0 x) as [E|_]; [congruence|]. exact H0.
  - intros X HX. rewrite aget_aset. unfold edt. fold extra.
    destruct (N.eqb_spec x 0) as [E|_]; [contradiction|].
    destruct (N.eqb_spec X (x + extra)) as [->|Hne].
    + rewrite N.eqb_refl. rewrite (H1 (x + extra) HX). rewrite N.shiftl_1_l.
      rewrite add16_mod. apply f_equal. apply (f_equal (fun z => Z.modulo z 65536)).
      destruct (x =? x + extra); lia.
    + destruct (N.eqb_spec (x + extra) X) as [E|_]; [congruence|].
      rewrite (H1 X HX). apply f_equal. apply (f_equal (fun z => Z.modulo z 65536)).
      destruct (x =? X); lia.
Qed.

(* ---------------------------------------------------------------- the representation *)
Definition rl_arr (nlit : nat) (h lc dc ex : arr) (L : list nat) : Prop :=
  Forall (fun x => (x <= 15)%nat) L /\
  (forall i, i < 286 -> aget h i = hc_set 0 (N.of_nat (nth (N.to_nat i) (firstn nlit L) 0%nat))) /\
  (forall j, aget h (286 + j) = hc_set 0 (N.of_nat (nth (N.to_nat j) (skipn nlit L) 0%nat))) /\
  (forall x, 1 <= x <= 15 -> aget lc x = count_len (firstn nlit L) (N.to_nat x)) /\
  (forall x, 1 <= x <= 15 -> aget dc x = count_len (skipn nlit L) (N.to_nat x)) /\
  aget ex 0 = 0 /\
  (forall X, 1 <= X -> aget ex X = Z.to_N (exp_delta (firstn nlit L) X mod 65536)).

Lemma nth_nil0 : forall k, nth k (@nil nat) 0%nat = 0%nat.
Proof. intros k. destruct k; reflexivity. Qed.

Lemma rl_arr_init : forall nlit h lc dc ex,
  arr_zero h -> arr_zero lc -> arr_zero dc -> arr_zero ex -> rl_arr nlit h lc dc ex [].
Proof.
  intros nlit h lc dc ex Zh Zl Zd Ze. unfold rl_arr.
  rewrite firstn_nil, skipn_nil.
  split; [constructor|].
  split; [intros i _; rewrite Zh, nth_nil0; reflexivity|].
  split; [intros j; rewrite Zh, nth_nil0; reflexivity|].
  split; [intros x _; rewrite Zl; reflexivity|].
  split; [intros x _; rewrite Zd; reflexivity|].
  split; [apply Ze|].
  intros X _. rewrite Ze. rewrite exp_delta_zsum.
  assert (E : forall l, zsum (fun s => edt (N.of_nat (nth (N.to_nat s) (@nil nat) 0%nat)) s X) l = 0%Z).
  { induction l as [|a r IH]; [reflexivity|]. unfold zsum in *. cbn [fold_right]. rewrite IH.
    rewrite nth_nil0. unfold edt. cbn [N.of_nat N.eqb]. reflexivity. }
  rewrite E. reflexivity.
Qed.

(* one more literal/length code length *)
Lemma rl_arr_snoc_lit : forall nlit h lc dc ex L x,
  (nlit <= 286)%nat -> rl_arr nlit h lc dc ex L -> (length L < nlit)%nat -> (x <= 15)%nat ->
  rl_arr nlit (aset h (N.of_nat (length L)) (hc_set 0 (N.of_nat x)))
         (aset lc (N.of_nat x) (u16 (aget lc (N.of_nat x) + 1))) dc
         (if (N.of_nat x =? 0) || (Z.of_nat nlit <=? Z.of_nat (length L))%Z
             || (Z.of_nat (length L) <? 264)%Z
          then ex else expand_adjust ex (N.of_nat x) (Z.of_nat (length L)))
         (L ++ [x]).
Proof.
  intros nlit h lc dc ex L x Hnl (A1 & A2 & A3 & A4 & A5 & A6 & A7) Hlen Hx.
  destruct (split_snoc_lit L x nlit Hlen) as (E1 & E2 & E3 & E4).
  unfold rl_arr. rewrite E3, E4. rewrite E1 in A2, A4, A7. rewrite E2 in A3, A5.
  split; [apply Forall_app; split; [exact A1|constructor; [exact Hx|constructor]]|].
  split.
  { intros i Hi. rewrite aget_aset, nth_snoc.
    destruct (N.eqb_spec i (N.of_nat (length L))) as [->|Hne].
    - rewrite Nat2N.id, Nat.eqb_refl. reflexivity.
    - destruct (Nat.eqb_spec (N.to_nat i) (length L)) as [E|_]; [lia|]. apply A2. exact Hi. }
  split.
  { intros j. rewrite aget_aset.
    destruct (N.eqb_spec (286 + j) (N.of_nat (length L))) as [E|_]; [lia|]. apply A3. }
  split.
  { intros y Hy. rewrite aget_aset, count_len_snoc.
    destruct (N.eqb_spec y (N.of_nat x)) as [->|Hne].
    - rewrite (A4 _ Hy). rewrite !Nat2N.id, Nat.eqb_refl.
      pose proof (count_len_le L x) as B. apply u16_small. lia.
    - destruct (Nat.eqb_spec x (N.to_nat y)) as [E|_]; [lia|]. rewrite (A4 _ Hy). lia. }
  split; [exact A5|].
  assert (Hed : forall X, exp_delta (L ++ [x]) X =
            Z.add (exp_delta L X) (if (264 <=? N.of_nat (length L)) then edt (N.of_nat x) (N.of_nat (length L)) X else 0%Z)).
  { intros X. rewrite exp_delta_snoc.
    destruct (N.ltb_spec (N.of_nat (length L)) 286) as [_|Hc]; [|lia].
    rewrite andb_true_r. reflexivity. }
  destruct (N.eqb_spec (N.of_nat x) 0) as [Hx0|Hx0].
  { cbn [orb]. split; [exact A6|]. intros X HX. rewrite Hed, (A7 X HX).
    unfold edt. rewrite Hx0. cbn [N.eqb].
    destruct (264 <=? N.of_nat (length L)); f_equal; f_equal; lia. }
  destruct (Z.leb_spec (Z.of_nat nlit) (Z.of_nat (length L))) as [Hc|_]; [lia|].
  destruct (Z.ltb_spec (Z.of_nat (length L)) 264) as [Hs|Hs]; cbn [orb].
  { split; [exact A6|]. intros X HX. rewrite Hed, (A7 X HX).
    destruct (N.leb_spec 264 (N.of_nat (length L))) as [Hc|_]; [lia|]. f_equal. f_equal. lia. }
  rewrite <- nat_N_Z.
  destruct (expand_adjust_spec ex (N.of_nat x) (N.of_nat (length L)) (exp_delta L) Hx0 A6 A7) as [X1 X2].
  split; [exact X1|]. intros X HX. rewrite Hed, (X2 X HX).
  destruct (N.leb_spec 264 (N.of_nat (length L))) as [_|Hc]; [|lia]. reflexivity.
Qed.

(* one more distance code length *)
Lemma rl_arr_snoc_dist : forall nlit h lc dc ex L x,
  rl_arr nlit h lc dc ex L -> (nlit <= length L)%nat -> N.of_nat (length L) < 60000 -> (x <= 15)%nat ->
  rl_arr nlit (aset h (286 + N.of_nat (length L - nlit)) (hc_set 0 (N.of_nat x))) lc
         (aset dc (N.of_nat x) (u16 (aget dc (N.of_nat x) + 1))) ex (L ++ [x]).
Proof.
  intros nlit h lc dc ex L x (A1 & A2 & A3 & A4 & A5 & A6 & A7) Hlen Hbig Hx.
  destruct (split_snoc_dist L x nlit Hlen) as (E1 & E2 & E3).
  unfold rl_arr. rewrite E1, E2.
  split; [apply Forall_app; split; [exact A1|constructor; [exact Hx|constructor]]|].
  split.
  { intros i Hi. rewrite aget_aset.
    destruct (N.eqb_spec i (286 + N.of_nat (length L - nlit))) as [E|_]; [lia|]. apply A2. exact Hi. }
  split.
  { intros j. rewrite aget_aset, nth_snoc, E3.
    destruct (N.eqb_spec (286 + j) (286 + N.of_nat (length L - nlit))) as [E|Hne].
    - destruct (Nat.eqb_spec (N.to_nat j) (length L - nlit)) as [_|E']; [reflexivity|lia].
    - destruct (Nat.eqb_spec (N.to_nat j) (length L - nlit)) as [E'|_]; [lia|]. apply A3. }
  split; [exact A4|].
  split.
  { intros y Hy. rewrite aget_aset, count_len_snoc.
    pose proof (count_len_le (skipn nlit L) x) as B.
    destruct (N.eqb_spec y (N.of_nat x)) as [->|Hne].
    - rewrite (A5 _ Hy). rewrite !Nat2N.id, Nat.eqb_refl.
      apply u16_small. lia.
    - destruct (Nat.eqb_spec x (N.to_nat y)) as [E|_]; [lia|]. rewrite (A5 _ Hy). lia. }
  split; [exact A6|exact A7].
Qed.

(* a zero length that is not written (runs of zeros: symbols 17 and 18) *)
Lemma nth_snoc0 : forall (l : list nat) k, nth k (l ++ [0%nat]) 0%nat = nth k l 0%nat.
Proof.
  intros l k. rewrite nth_snoc. destruct (Nat.eqb_spec k (length l)) as [->|_]; [|reflexivity].
  symmetry. apply nth_overflow. lia.
Qed.

Lemma count_len_snoc0 : forall l y, y <> 0%nat -> count_len (l ++ [0%nat]) y = count_len l y.
Proof.
  intros l y Hy. rewrite count_len_snoc. destruct (Nat.eqb_spec 0 y) as [E|_]; [congruence|lia].
Qed.

Lemma exp_delta_snoc0 : forall l X, exp_delta (l ++ [0%nat]) X = exp_delta l X.
Proof.
  intros l X. rewrite exp_delta_snoc. unfold edt. cbn [N.of_nat N.eqb].
  destruct ((264 <=? N.of_nat (length l)) && (N.of_nat (length l) <? 286)); lia.
Qed.

Lemma rl_arr_snoc0 : forall nlit h lc dc ex L,
  rl_arr nlit h lc dc ex L -> rl_arr nlit h lc dc ex (L ++ [0%nat]).
Proof.
  intros nlit h lc dc ex L (A1 & A2 & A3 & A4 & A5 & A6 & A7). unfold rl_arr.
  split; [apply Forall_app; split; [exact A1|constructor; [lia|constructor]]|].
  destruct (Nat.lt_ge_cases (length L) nlit) as [Hlt|Hge].
  - destruct (split_snoc_lit L 0%nat nlit Hlt) as (E1 & E2 & E3 & E4).
    rewrite E3, E4. rewrite E1 in A2, A4, A7. rewrite E2 in A3, A5.
    split; [intros i Hi; rewrite nth_snoc0; apply A2; exact Hi|].
    split; [exact A3|].
    split; [intros y Hy; rewrite count_len_snoc0 by lia; apply A4; exact Hy|].
    split; [exact A5|]. split; [exact A6|].
    intros X HX. rewrite exp_delta_snoc0. apply A7. exact HX.
  - destruct (split_snoc_dist L 0%nat nlit Hge) as (E1 & E2 & E3).
    rewrite E1, E2.
    split; [exact A2|].
    split; [intros j; rewrite nth_snoc0; apply A3|].
    split; [exact A4|].
    split; [intros y Hy; rewrite count_len_snoc0 by lia; apply A5; exact Hy|].
    split; [exact A6|exact A7].
Qed.

Lemma rl_arr_zeros : forall k nlit h lc dc ex L,
  rl_arr nlit h lc dc ex L -> rl_arr nlit h lc dc ex (L ++ repeat 0%nat k).
Proof.
  induction k as [|k IH]; intros nlit h lc dc ex L H.
  - cbn [repeat]. rewrite app_nil_r. exact H.
  - cbn [repeat]. replace (L ++ 0%nat :: repeat 0%nat k) with ((L ++ [0%nat]) ++ repeat 0%nat k)
      by (rewrite <- app_assoc; reflexivity).
    apply IH. apply rl_arr_snoc0. exact H.
Qed.

(* the last length read is where prev points *)
Lemma rl_arr_last : forall nlit h lc dc ex L v,
  (nlit <= 286)%nat -> rl_arr nlit h lc dc ex (L ++ [v]) ->
  aget h (if (length L <? nlit)%nat then N.of_nat (length L)
          else 286 + N.of_nat (length L - nlit)) = hc_set 0 (N.of_nat v).
Proof.
  intros nlit h lc dc ex L v Hnl (A1 & A2 & A3 & A4 & A5 & A6 & A7).
  destruct (Nat.ltb_spec (length L) nlit) as [Hlt|Hge].
  - destruct (split_snoc_lit L v nlit Hlt) as (E1 & E2 & E3 & E4).
    rewrite E3 in A2. rewrite A2 by lia. rewrite Nat2N.id, nth_snoc, Nat.eqb_refl. reflexivity.
  - destruct (split_snoc_dist L v nlit Hge) as (E1 & E2 & E3).
    rewrite E2 in A3. rewrite A3. rewrite Nat2N.id, nth_snoc, E3, Nat.eqb_refl. reflexivity.
Qed.
