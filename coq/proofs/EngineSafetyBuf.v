(* EngineSafetyBuf.v -- item 1: the bufio.Reader layer of RModel/Engine.v (bufrd):
   fill / Peek / Discard never fail ("tried to fill full buffer") and never run out of fuel,
   given the invariant buf_inv. *)
From Verif Require Import Engine EngineTables.
From Verif Require Import Base EngineSafetyBase.
From Coq Require Import List NArith ZArith Bool Lia ZifyBool ZifyNat ZifyN.
Import ListNotations.
Open Scope N_scope.

Definition buf_inv (b : bufrd) : Prop :=
  blen b = N.of_nat (length (bbuf b)) /\ blen b <= bsize b /\ 0 < bsize b.

Lemma frev_length : forall A (l : list A), length (frev l) = length l.
Proof. intros A l. unfold frev. rewrite rev_append_rev, app_nil_r, rev_length. reflexivity. Qed.

Lemma take_upto_spec : forall l space acc cnt got n lft,
  take_upto l space acc cnt = (got, n, lft) ->
  n = cnt + N.of_nat (length got) - N.of_nat (length acc) /\
  N.of_nat (length acc) <= N.of_nat (length got) /\
  N.of_nat (length got) - N.of_nat (length acc) <= space /\
  (l <> [] -> 0 < space -> N.of_nat (length acc) < N.of_nat (length got)).
Proof.
  induction l as [|x r IH]; intros space acc cnt got n lft H; cbn [take_upto] in H.
  - inversion H; subst. rewrite frev_length. repeat split; try lia. intros Hc; contradiction.
  - destruct (space =? 0) eqn:E.
    + inversion H; subst. rewrite frev_length. repeat split; lia.
    + apply IH in H. cbn [length] in H. destruct H as (H1 & H2 & H3 & H4).
      repeat split; try lia.
Qed.

Lemma src_read_spec : forall cs t space got n err cs',
  src_read cs t space = (got, n, err, cs') ->
  n = N.of_nat (length got) /\ n <= space.
Proof.
  intros cs t space got n err cs' H. unfold src_read in H.
  destruct cs as [|c rest].
  - inversion H; subst. cbn. split; lia.
  - destruct (take_upto c space [] 0) as [[g k] lft] eqn:E.
    inversion H; subst. apply take_upto_spec in E. cbn [length] in E.
    destruct E as (E1 & E2 & E3 & E4). split; lia.
Qed.

(* fill_loop: invariant kept; afterwards either an error is recorded or bytes were added *)
Lemma fill_loop_spec : forall i b,
  buf_inv b ->
  let b' := fill_loop i b in
  buf_inv b' /\ bsize b' = bsize b /\ blen b <= blen b' /\
  (berr b' <> None \/ blen b < blen b').
Proof.
  induction i as [|k IH]; intros b Hinv; cbn [fill_loop].
  - cbn. destruct Hinv as (H1 & H2 & H3). unfold buf_inv. cbn.
    repeat split; try lia; auto; try (left; discriminate).
  - destruct (src_read (chunks b) (term b) (bsize b - blen b)) as [[[got n] err] cs] eqn:E.
    apply src_read_spec in E. destruct E as (E1 & E2).
    destruct Hinv as (H1 & H2 & H3).
    assert (Hinv1 : buf_inv (mkBuf (bsize b) (bbuf b ++ got) (blen b + n) (berr b) cs (term b) (consumed b))).
    { unfold buf_inv; cbn. rewrite app_length. repeat split; lia. }
    destruct err as [e|].
    + cbn. unfold buf_inv; cbn. rewrite app_length.
      repeat split; try lia; try (left; discriminate).
    + destruct (0 <? n) eqn:En.
      * cbn. unfold buf_inv; cbn. rewrite app_length. repeat split; try lia; try (right; lia).
      * specialize (IH _ Hinv1). cbn in IH. destruct IH as (I1 & I2 & I3 & I4).
        cbn in *. split; [exact I1|]. split; [lia|]. split; [lia|].
        destruct I4 as [I4|I4]; [left; exact I4|right; lia].
Qed.

Lemma bfill_spec : forall b,
  buf_inv b -> blen b < bsize b ->
  exists b', bfill b = Some b' /\ buf_inv b' /\ bsize b' = bsize b /\ blen b <= blen b' /\
             (berr b' <> None \/ blen b < blen b').
Proof.
  intros b Hinv Hlt. unfold bfill.
  destruct (bsize b <=? blen b) eqn:E; [lia|].
  exists (fill_loop 100 b). split; [reflexivity|]. apply fill_loop_spec; exact Hinv.
Qed.

Definition berr_w (b : bufrd) : N := match berr b with None => 1 | Some _ => 0 end.

Lemma peek_loop_spec : forall fuel b n,
  buf_inv b ->
  (n - blen b) + berr_w b < N.of_nat fuel ->
  exists b', peek_loop fuel b n = Some b' /\ buf_inv b' /\ bsize b' = bsize b /\ blen b <= blen b'.
Proof.
  induction fuel as [|f IH]; intros b n Hinv Hm; [lia|].
  cbn [peek_loop].
  destruct ((blen b <? n) && (blen b <? bsize b) &&
            match berr b with None => true | Some _ => false end) eqn:Ec.
  - apply andb_prop in Ec. destruct Ec as [Ec E3]. apply andb_prop in Ec. destruct Ec as [E1 E2].
    destruct (bfill_spec b Hinv) as (b1 & F1 & F2 & F3 & F4 & F5); [lia|].
    rewrite F1.
    assert (Hw : berr_w b = 1). { unfold berr_w. destruct (berr b); [discriminate|reflexivity]. }
    destruct (IH b1 n F2) as (b2 & G1 & G2 & G3 & G4).
    { destruct F5 as [F5|F5].
      - unfold berr_w at 1. destruct (berr b1); [|contradiction]. lia.
      - unfold berr_w at 1. destruct (berr b1); lia. }
    exists b2. split; [exact G1|]. split; [exact G2|]. split; [congruence|lia].
  - exists b. split; [reflexivity|]. split; [exact Hinv|]. split; [reflexivity|lia].
Qed.

(* Peek never runs out of fuel for n <= 262000 *)
Theorem bPeek_safe : forall b n,
  buf_inv b -> n <= 262000 ->
  exists bytes k e b', bPeek b n = Some (bytes, k, e, b') /\
    buf_inv b' /\ bsize b' = bsize b /\ k = N.of_nat (length bytes) /\ k <= blen b'.
Proof.
  intros b n Hinv Hn. unfold bPeek.
  destruct (peek_loop_spec big_fuel b n Hinv) as (b1 & P1 & P2 & P3 & P4).
  { unfold berr_w, big_fuel. destruct (berr b); lia. }
  rewrite P1. destruct P2 as (I1 & I2 & I3).
  destruct (bsize b1 <? n) eqn:E1.
  - do 4 eexists. split; [reflexivity|]. unfold buf_inv. repeat split; auto; lia.
  - destruct (blen b1 <? n) eqn:E2.
    + do 4 eexists. split; [reflexivity|]. unfold buf_inv; cbn. repeat split; auto; lia.
    + do 4 eexists. split; [reflexivity|]. unfold buf_inv.
      rewrite firstn_length. repeat split; auto; lia.
Qed.

(* Peek(Buffered()) returns the buffer as it is *)
Lemma bPeek_buffered : forall b,
  buf_inv b ->
  exists bytes, bPeek b (blen b) = Some (bytes, blen b, None, b) /\
                blen b = N.of_nat (length bytes).
Proof.
  intros b (I1 & I2 & I3). unfold bPeek, big_fuel.
  destruct (N.to_nat 262144) as [|f] eqn:Ef; [lia|].
  cbn [peek_loop]. rewrite N.ltb_irrefl. cbn [andb].
  replace (bsize b <? blen b) with false by lia. rewrite N.ltb_irrefl.
  eexists. split; [reflexivity|]. rewrite firstn_length. lia.
Qed.

Lemma discard_loop_spec : forall fuel b remain,
  buf_inv b -> 0 < remain ->
  (remain - blen b) + (if blen b =? 0 then 0 else 1) < N.of_nat fuel ->
  exists e b', discard_loop fuel b remain = Some (e, b') /\ buf_inv b' /\ bsize b' = bsize b /\
    (remain <= blen b -> e = None /\ blen b' = blen b - remain).
Proof.
  induction fuel as [|f IH]; intros b remain Hinv Hr Hm; [lia|].
  cbn [discard_loop].
  assert (Hob : exists b1, (if blen b =? 0 then bfill b else Some b) = Some b1 /\ buf_inv b1 /\
                 bsize b1 = bsize b /\ blen b <= blen b1 /\
                 (blen b = 0 -> berr b1 <> None \/ 0 < blen b1) /\ (blen b <> 0 -> b1 = b)).
  { destruct (blen b =? 0) eqn:E0.
    - destruct (bfill_spec b Hinv) as (b1 & F1 & F2 & F3 & F4 & F5).
      { destruct Hinv as (_ & _ & H3). lia. }
      exists b1. split; [exact F1|]. split; [exact F2|]. split; [exact F3|]. split; [exact F4|].
      split.
      + intros _. destruct F5 as [F5|F5]; [left; exact F5|right; lia].
      + intros Hc. lia.
    - exists b. split; [reflexivity|]. split; [exact Hinv|]. split; [reflexivity|].
      split; [lia|]. split; [intros Hc; lia|intros _; reflexivity]. }
  destruct Hob as (b1 & O1 & O2 & O3 & O4 & O5 & O6). rewrite O1.
  destruct O2 as (J1 & J2 & J3).
  set (skip := N.min (blen b1) remain).
  set (b2 := mkBuf (bsize b1) (skipn (N.to_nat skip) (bbuf b1)) (blen b1 - skip) (berr b1)
                   (chunks b1) (term b1) (consumed b1 + skip)).
  assert (Hinv2 : buf_inv b2).
  { unfold buf_inv, b2; cbn. rewrite skipn_length. unfold skip. split; [lia|]. split; lia. }
  assert (Hpos : blen b = 0 -> berr b2 = None -> 0 < blen b1).
  { intros Hz Hn. destruct (O5 Hz) as [Hc|Hc]; [|exact Hc]. unfold b2 in Hn; cbn in Hn. congruence. }
  destruct (remain - skip =? 0) eqn:Er.
  - do 2 eexists. split; [reflexivity|]. split; [exact Hinv2|]. split; [unfold b2; cbn; lia|].
    intros Hle. split; [reflexivity|]. unfold b2; cbn.
    destruct (N.eq_dec (blen b) 0) as [Hz|Hnz]; [lia|]. unfold skip. rewrite (O6 Hnz). lia.
  - assert (Hskip : skip = blen b1) by (unfold skip; lia).
    destruct (berr b2) as [e|] eqn:Eb.
    + do 2 eexists. split; [reflexivity|].
      split.
      { unfold buf_inv, b2; cbn. rewrite skipn_length. split; [lia|]. split; lia. }
      split; [unfold b2; cbn; lia|].
      intros Hle. exfalso. destruct (N.eq_dec (blen b) 0) as [Hz|Hnz]; [lia|].
      rewrite (O6 Hnz) in Hskip. unfold skip in Hskip. rewrite (O6 Hnz) in Hskip. lia.
    + assert (Hb2 : blen b2 = 0) by (unfold b2; cbn; lia).
      assert (Hb1 : 0 < blen b1).
      { destruct (N.eq_dec (blen b) 0) as [Hz|Hnz]; [apply Hpos; auto|lia]. }
      assert (Hr1 : 0 < remain - skip) by lia.
      assert (Hr2 : remain - skip - blen b2 + (if blen b2 =? 0 then 0 else 1) < N.of_nat f).
      { rewrite Hb2. cbn. destruct (N.eq_dec (blen b) 0) as [Hz|Hnz].
        - rewrite Hz in Hm. cbn in Hm. lia.
        - rewrite (O6 Hnz) in *. destruct (blen b =? 0) eqn:Eq; lia. }
      destruct (IH b2 (remain - skip) Hinv2 Hr1 Hr2) as (e & b3 & D1 & D2 & D3 & D4).
      exists e, b3. split; [exact D1|]. split; [exact D2|]. split; [unfold b2 in D3; cbn in D3; lia|].
      intros Hle. exfalso. destruct (N.eq_dec (blen b) 0) as [Hz|Hnz]; [lia|].
      rewrite (O6 Hnz) in Hskip. unfold skip in Hskip. rewrite (O6 Hnz) in Hskip. lia.
Qed.

(* Discard never fails and never runs out of fuel when at most 262000 bytes beyond the
   buffered ones are asked for; within the buffer it succeeds *)
Theorem bDiscard_safe : forall b n,
  buf_inv b -> n - blen b <= 262000 ->
  exists e b', bDiscard b n = Some (e, b') /\ buf_inv b' /\ bsize b' = bsize b /\
    (n <= blen b -> e = None /\ blen b' = blen b - n).
Proof.
  intros b n Hinv Hn. unfold bDiscard.
  destruct (n =? 0) eqn:E0.
  - exists None, b. split; [reflexivity|]. split; [exact Hinv|]. split; [reflexivity|]. intros _. split; [reflexivity|lia].
  - apply discard_loop_spec; auto; [lia|]. unfold big_fuel. destruct (blen b =? 0); lia.
Qed.

(* the source is read at most 100 times per fill: fill_loop is structurally bounded (the
   100-retry loop); stated as: fill always returns *)
Theorem bfill_total : forall b, buf_inv b -> blen b < bsize b -> bfill b <> None.
Proof.
  intros b H1 H2. destruct (bfill_spec b H1 H2) as (b' & F & _). congruence.
Qed.

(* ---------------------------------------------------------------- conservation of source bytes *)
(* bytes the source will still deliver *)
Fixpoint src_total (cs : list (list N)) : N :=
  match cs with [] => 0 | c :: r => N.of_nat (length c) + src_total r end.

(* the recorded error is never ErrBufferFull (fill records EOF, the source error or ErrNoProgress) *)
Definition berr_ok (b : bufrd) : Prop := berr b <> Some BBufferFull.

Lemma take_upto_total : forall l space acc cnt got n lft,
  take_upto l space acc cnt = (got, n, lft) ->
  N.of_nat (length got) + N.of_nat (length lft) = N.of_nat (length acc) + N.of_nat (length l).
Proof.
  induction l as [|x r IH]; intros space acc cnt got n lft H; cbn [take_upto] in H.
  - inversion H; subst. rewrite frev_length. cbn [length]. lia.
  - destruct (space =? 0).
    + inversion H; subst. rewrite frev_length. lia.
    + apply IH in H. cbn [length] in *. lia.
Qed.

Lemma src_read_total : forall cs t space got n err cs',
  src_read cs t space = (got, n, err, cs') ->
  n + src_total cs' = src_total cs /\ err <> Some BBufferFull.
Proof.
  intros cs t space got n err cs' H. unfold src_read in H. destruct cs as [|c rest].
  - inversion H; subst. cbn. split; [lia|]. destruct t; discriminate.
  - destruct (take_upto c space [] 0) as [[g k] lft] eqn:E. inversion H; subst.
    pose proof (take_upto_total _ _ _ _ _ _ _ E) as T. pose proof (take_upto_spec _ _ _ _ _ _ _ E) as (S1 & _).
    cbn [length] in *. split; [|discriminate].
    destruct lft as [|y lft']; cbn [src_total length] in *; lia.
Qed.

Lemma fill_loop_total : forall i b,
  berr_ok b ->
  let b' := fill_loop i b in
  src_total (chunks b') + blen b' = src_total (chunks b) + blen b /\ berr_ok b'.
Proof.
  induction i as [|k IH]; intros b Hok; cbn [fill_loop].
  - cbn. split; [reflexivity|]. unfold berr_ok; cbn. discriminate.
  - destruct (src_read (chunks b) (term b) (bsize b - blen b)) as [[[got n] err] cs] eqn:E.
    apply src_read_total in E. destruct E as (E1 & E2).
    destruct err as [e|].
    + cbn. split; [lia|]. unfold berr_ok; cbn. exact E2.
    + destruct (0 <? n).
      * cbn. split; [lia|]. exact Hok.
      * specialize (IH (mkBuf (bsize b) (bbuf b ++ got) (blen b + n) (berr b) cs (term b) (consumed b)) Hok).
        cbn in IH. destruct IH as (I1 & I2). split; [cbn in *; lia|exact I2].
Qed.

Lemma peek_loop_total : forall fuel b n b',
  peek_loop fuel b n = Some b' -> berr_ok b ->
  src_total (chunks b') + blen b' = src_total (chunks b) + blen b /\ berr_ok b' /\
  (blen b' < n -> blen b' < bsize b' -> berr b' <> None).
Proof.
  induction fuel as [|f IH]; intros b n b' H Hok; cbn [peek_loop] in H; [discriminate|].
  destruct ((blen b <? n) && (blen b <? bsize b) &&
            match berr b with None => true | Some _ => false end) eqn:Ec.
  - unfold bfill in H. destruct (bsize b <=? blen b); [discriminate|].
    pose proof (fill_loop_total 100 b Hok) as (F1 & F2).
    apply IH in H; [|exact F2]. destruct H as (H1 & H2 & H3). split; [lia|]. split; assumption.
  - inversion H; subst b'. split; [reflexivity|]. split; [exact Hok|].
    intros H1 H2. destruct (berr b); [discriminate|]. lia.
Qed.

(* Peek, with the facts needed by step *)
Theorem bPeek_safe2 : forall b n,
  buf_inv b -> berr_ok b -> n <= bsize b -> n <= 262000 ->
  exists bytes k e b', bPeek b n = Some (bytes, k, e, b') /\
    buf_inv b' /\ berr_ok b' /\ bsize b' = bsize b /\ k = N.of_nat (length bytes) /\ k <= blen b' /\
    blen b <= blen b' /\
    src_total (chunks b') + blen b' = src_total (chunks b) + blen b /\
    (e = None -> n <= blen b') /\ e <> Some BBufferFull.
Proof.
  intros b n Hinv Hok Hn Hn2. unfold bPeek.
  destruct (peek_loop_spec big_fuel b n Hinv) as (b1 & P1 & P2 & P3 & P4).
  { unfold berr_w, big_fuel. destruct (berr b); lia. }
  rewrite P1. destruct (peek_loop_total _ _ _ _ P1 Hok) as (T1 & T2 & T3).
  pose proof P2 as (I1 & I2 & I3).
  destruct (bsize b1 <? n) eqn:E1; [lia|].
  destruct (blen b1 <? n) eqn:E2.
  - assert (Hne : berr b1 <> None) by (apply T3; lia).
    destruct (berr b1) as [e1|] eqn:Eb; [|contradiction].
    do 4 eexists. split; [reflexivity|].
    unfold buf_inv, berr_ok. cbn [blen bsize bbuf berr chunks term consumed].
    split; [split; [exact I1|split; [exact I2|exact I3]]|].
    split; [discriminate|]. split; [exact P3|]. split; [exact I1|]. split; [lia|].
    split; [exact P4|]. split; [exact T1|]. split; [intros Hc; discriminate|].
    unfold berr_ok in T2. rewrite Eb in T2. exact T2.
  - do 4 eexists. split; [reflexivity|]. split; [exact P2|]. split; [exact T2|]. split; [exact P3|].
    split; [rewrite firstn_length; lia|]. split; [lia|]. split; [exact P4|]. split; [exact T1|].
    split; [intros _; lia|discriminate].
Qed.

(* Discard within the buffer does not touch the source *)
Lemma big_fuel_pos : (0 < big_fuel)%nat.
Proof. unfold big_fuel. lia. Qed.

Lemma discard_loop_within : forall fuel b n,
  (0 < fuel)%nat -> buf_inv b -> 0 < n -> n <= blen b ->
  discard_loop fuel b n =
  Some (None, mkBuf (bsize b) (skipn (N.to_nat n) (bbuf b)) (blen b - n) (berr b)
                    (chunks b) (term b) (consumed b + n)).
Proof.
  intros fuel b n Hf Hinv Hn0 Hn. destruct fuel as [|f]; [lia|]. cbn [discard_loop].
  destruct (blen b =? 0) eqn:Eb; [lia|].
  replace (N.min (blen b) n) with n by lia.
  replace (n - n =? 0) with true by lia. reflexivity.
Qed.

Lemma bDiscard_within : forall b n,
  buf_inv b -> berr_ok b -> n <= blen b ->
  exists b', bDiscard b n = Some (None, b') /\ buf_inv b' /\ berr_ok b' /\ bsize b' = bsize b /\
             blen b' = blen b - n /\ chunks b' = chunks b.
Proof.
  intros b n Hinv Hok Hn. unfold bDiscard. destruct (n =? 0) eqn:E0.
  - exists b. split; [reflexivity|]. split; [exact Hinv|]. split; [exact Hok|]. split; [reflexivity|]. split; [lia|reflexivity].
  - rewrite (discard_loop_within big_fuel b n big_fuel_pos Hinv) by lia.
    eexists. split; [reflexivity|]. destruct Hinv as (I1 & I2 & I3).
    unfold buf_inv, berr_ok. cbn [blen bsize bbuf berr chunks term consumed].
    split; [rewrite skipn_length; split; [lia|split; lia]|].
    split; [exact Hok|]. split; [reflexivity|]. split; [lia|reflexivity].
Qed.

Lemma fill_loop_blen_mono : forall i b, blen b <= blen (fill_loop i b).
Proof.
  induction i as [|k IHk]; intros b; cbn [fill_loop]; [cbn; lia|].
  destruct (src_read (chunks b) (term b) (bsize b - blen b)) as [[[got n] err] cs].
  destruct err; [cbn; lia|]. destruct (0 <? n); [cbn; lia|].
  specialize (IHk (mkBuf (bsize b) (bbuf b ++ got) (blen b + n) (berr b) cs (term b) (consumed b))).
  cbn in IHk. lia.
Qed.

(* Discard in general: the invariants survive *)
Lemma discard_loop_ok : forall fuel b remain e b',
  discard_loop fuel b remain = Some (e, b') -> berr_ok b ->
  berr_ok b' /\ src_total (chunks b') <= src_total (chunks b).
Proof.
  induction fuel as [|f IH]; intros b remain e b' H Hok; cbn [discard_loop] in H; [discriminate|].
  assert (Hb1 : forall b1, (if blen b =? 0 then bfill b else Some b) = Some b1 ->
                berr_ok b1 /\ src_total (chunks b1) <= src_total (chunks b)).
  { intros b1 Hb. destruct (blen b =? 0).
    - unfold bfill in Hb. destruct (bsize b <=? blen b); [discriminate|].
      assert (Hb' : fill_loop 100 b = b1) by congruence. subst b1.
      pose proof (fill_loop_total 100 b Hok) as (F1 & F2).
      split; [exact F2|].
      (* blen grows, total conserved *)
      pose proof (fill_loop_blen_mono 100 b).
      lia.
    - assert (Hb' : b = b1) by congruence. subst b1. split; [exact Hok|lia]. }
  destruct (if blen b =? 0 then bfill b else Some b) as [b1|] eqn:Eb1; [|discriminate].
  destruct (Hb1 b1 eq_refl) as (K1 & K2).
  destruct (remain - N.min (blen b1) remain =? 0).
  - inversion H; subst. split; [exact K1|exact K2].
  - cbn [berr] in H. destruct (berr b1) as [e1|] eqn:Ee.
    + inversion H; subst. split; [unfold berr_ok; cbn; discriminate|exact K2].
    + apply IH in H.
      * destruct H as (H1 & H2). cbn in H2. split; [exact H1|lia].
      * unfold berr_ok; cbn. try rewrite Ee. discriminate.
Qed.

(* ---------------------------------------------------------------- byte values *)
Definition bytes_ok (l : list N) : Prop := Forall (fun b => b < 256) l.

(* everything the bufio layer holds or will still receive is a byte *)
Definition buf_bytes (b : bufrd) : Prop := bytes_ok (bbuf b) /\ Forall bytes_ok (chunks b).

Lemma bytes_ok_app : forall a b, bytes_ok a -> bytes_ok b -> bytes_ok (a ++ b).
Proof. intros a b Ha Hb. unfold bytes_ok. apply Forall_app. split; assumption. Qed.

Lemma bytes_ok_firstn : forall n l, bytes_ok l -> bytes_ok (firstn n l).
Proof.
  induction n as [|k IH]; intros l H; cbn [firstn]; [constructor|].
  destruct l as [|x r]; [constructor|]. inversion H; subst. constructor; [assumption|]. apply IH. assumption.
Qed.

Lemma bytes_ok_skipn : forall n l, bytes_ok l -> bytes_ok (skipn n l).
Proof.
  induction n as [|k IH]; intros l H; cbn [skipn]; [exact H|].
  destruct l as [|x r]; [constructor|]. inversion H; subst. apply IH. assumption.
Qed.

Lemma bytes_ok_frev : forall l, bytes_ok l -> bytes_ok (frev l).
Proof.
  intros l H. unfold bytes_ok, frev. rewrite rev_append_rev, app_nil_r. apply Forall_rev. exact H.
Qed.

Lemma take_upto_bytes : forall l space acc cnt got n lft,
  take_upto l space acc cnt = (got, n, lft) -> bytes_ok l -> bytes_ok acc ->
  bytes_ok got /\ bytes_ok lft.
Proof.
  induction l as [|x r IH]; intros space acc cnt got n lft H Hl Ha; cbn [take_upto] in H.
  - inversion H; subst. split; [apply bytes_ok_frev; exact Ha|constructor].
  - destruct (space =? 0).
    + inversion H; subst. split; [apply bytes_ok_frev; exact Ha|exact Hl].
    + inversion Hl; subst. eapply IH; [exact H|assumption|]. constructor; assumption.
Qed.

Lemma src_read_bytes : forall cs t space got n err cs',
  src_read cs t space = (got, n, err, cs') -> Forall bytes_ok cs ->
  bytes_ok got /\ Forall bytes_ok cs'.
Proof.
  intros cs t space got n err cs' H Hcs. unfold src_read in H. destruct cs as [|c rest].
  - inversion H; subst. split; constructor.
  - destruct (take_upto c space [] 0) as [[g k] lft] eqn:E. inversion H; subst.
    inversion Hcs; subst.
    destruct (take_upto_bytes _ _ _ _ _ _ _ E) as (G1 & G2); [assumption|constructor|].
    split; [exact G1|]. destruct lft; [assumption|constructor; assumption].
Qed.

Lemma fill_loop_bytes : forall i b, buf_bytes b -> buf_bytes (fill_loop i b).
Proof.
  induction i as [|k IH]; intros b (H1 & H2); cbn [fill_loop].
  - split; assumption.
  - destruct (src_read (chunks b) (term b) (bsize b - blen b)) as [[[got n] err] cs] eqn:E.
    destruct (src_read_bytes _ _ _ _ _ _ _ E H2) as (G1 & G2).
    assert (Hb : buf_bytes (mkBuf (bsize b) (bbuf b ++ got) (blen b + n) (berr b) cs (term b) (consumed b))).
    { split; cbn; [apply bytes_ok_app; assumption|assumption]. }
    destruct err; [exact Hb|]. destruct (0 <? n); [exact Hb|]. apply IH. exact Hb.
Qed.

Lemma peek_loop_bytes : forall fuel b n b', peek_loop fuel b n = Some b' -> buf_bytes b -> buf_bytes b'.
Proof.
  induction fuel as [|f IH]; intros b n b' H Hb; cbn [peek_loop] in H; [discriminate|].
  destruct ((blen b <? n) && (blen b <? bsize b) && match berr b with None => true | Some _ => false end).
  - unfold bfill in H. destruct (bsize b <=? blen b); [discriminate|].
    eapply IH; [exact H|]. apply fill_loop_bytes. exact Hb.
  - assert (b = b') by congruence. subst. exact Hb.
Qed.

Lemma bPeek_bytes_gen : forall b n, buf_bytes b ->
  match bPeek b n with
  | Some (bytes, k, e, b') => bytes_ok bytes /\ buf_bytes b'
  | None => True
  end.
Proof.
  intros b n Hb. unfold bPeek.
  destruct (peek_loop big_fuel b n) as [b1|] eqn:E; [|exact I].
  pose proof (peek_loop_bytes _ _ _ _ E Hb) as (P1 & P2).
  destruct (bsize b1 <? n); [split; [exact P1|split; assumption]|].
  destruct (blen b1 <? n); [split; [exact P1|split; assumption]|].
  split; [apply bytes_ok_firstn; exact P1|split; assumption].
Qed.

Lemma bPeek_bytes : forall b n bytes k e b',
  bPeek b n = Some (bytes, k, e, b') -> buf_bytes b -> bytes_ok bytes /\ buf_bytes b'.
Proof.
  intros b n bytes k e b' H Hb. pose proof (bPeek_bytes_gen b n Hb) as G. rewrite H in G. exact G.
Qed.

Lemma discard_loop_bytes : forall fuel b remain e b',
  discard_loop fuel b remain = Some (e, b') -> buf_bytes b -> buf_bytes b'.
Proof.
  induction fuel as [|f IH]; intros b remain e b' H Hb; cbn [discard_loop] in H; [discriminate|].
  assert (Hb1 : forall b1, (if blen b =? 0 then bfill b else Some b) = Some b1 -> buf_bytes b1).
  { intros b1 Hx. destruct (blen b =? 0).
    - unfold bfill in Hx. destruct (bsize b <=? blen b); [discriminate|].
      assert (fill_loop 100 b = b1) by congruence. subst. apply fill_loop_bytes. exact Hb.
    - assert (b = b1) by congruence. subst. exact Hb. }
  destruct (if blen b =? 0 then bfill b else Some b) as [b1|]; [|discriminate].
  specialize (Hb1 b1 eq_refl). destruct Hb1 as (K1 & K2).
  assert (Hb2 : forall s, buf_bytes (mkBuf (bsize b1) (skipn s (bbuf b1)) (blen b1 - N.min (blen b1) remain) (berr b1)
                                 (chunks b1) (term b1) (consumed b1 + N.min (blen b1) remain))).
  { intros s. split; cbn; [apply bytes_ok_skipn; exact K1|exact K2]. }
  destruct (remain - N.min (blen b1) remain =? 0).
  - assert (Hx : b' = mkBuf (bsize b1) (skipn (N.to_nat (N.min (blen b1) remain)) (bbuf b1)) (blen b1 - N.min (blen b1) remain) (berr b1)
                                 (chunks b1) (term b1) (consumed b1 + N.min (blen b1) remain)) by congruence.
    subst b'. apply Hb2.
  - cbn [berr] in H. destruct (berr b1).
    + match type of H with Some (_, ?d) = _ => assert (Hx : b' = d) by congruence end.
      subst b'. split; cbn; [apply bytes_ok_skipn; exact K1|exact K2].
    + eapply IH; [exact H|]. split; cbn; [apply bytes_ok_skipn; exact K1|exact K2].
Qed.

Lemma bDiscard_bytes_gen : forall b n, buf_bytes b ->
  match bDiscard b n with
  | Some (e, b') => buf_bytes b'
  | None => True
  end.
Proof.
  intros b n Hb. unfold bDiscard. destruct (n =? 0); [exact Hb|].
  destruct (discard_loop big_fuel b n) as [[e b']|] eqn:E; [|exact I].
  eapply discard_loop_bytes; eassumption.
Qed.

Lemma bDiscard_bytes : forall b n e b', bDiscard b n = Some (e, b') -> buf_bytes b -> buf_bytes b'.
Proof.
  intros b n e b' H Hb. pose proof (bDiscard_bytes_gen b n Hb) as G. rewrite H in G. exact G.
Qed.
