(* EngineSafetyRestartBits.v -- bit-reader part of the proof of the (corrected) hypothesis
   HeaderRestartMonotone of EngineSafetyHeader.v (see EngineSafetyRestart.v).

   Two bit readers a (the failed header attempt, input R ++ Za) and b (the restarted attempt, input
   R ++ Xb) are related by REL m a b: they hold q common bits (the low q bits of r_bits agree) and
   have the common, still unloaded bytes R in front of their inputs.  Above r_len the field r_bits
   holds stale bits (the 64-bit load path ORs whole bytes in, load_raw counts only those that fit):
   the relation therefore compares r_bits "completed" by the bytes R at their future positions
   (wbit).  Loads preserve REL, dropping k <= q bits preserves REL; dropping more than q bits is only
   possible when R = [] and then reader b has consumed every common bit (FIN).
   Also: every reader operation is monotone (r_inlen and avail never grow), unconditionally. *)
From Verif Require Import Engine EngineTables.
From Verif Require Import Base EngineSafetyBase EngineSafetyBits EngineSafetyInv.
From Coq Require Import List NArith ZArith Bool Lia ZifyBool ZifyNat ZifyN.
Import ListNotations.
Open Scope N_scope.

Ltac dlia := zify; Z.div_mod_to_equations; lia.

(* ---------------------------------------------------------------- bytes as bits *)
(* bit p of the byte string R (byte p/8, bit p mod 8) *)
Definition tbR (R : list N) (p : N) : bool := N.testbit (nth (N.to_nat (p / 8)) R 0) (p mod 8).

Lemma tbR_nil : forall p, tbR [] p = false.
Proof. intros p. unfold tbR. destruct (N.to_nat (p / 8)); cbn [nth]; apply N.bits_0. Qed.

Lemma tbR_cons : forall x R p, tbR (x :: R) p = if p <? 8 then N.testbit x p else tbR R (p - 8).
Proof.
  intros x R p. unfold tbR. destruct (N.ltb_spec p 8) as [Hlt|Hge].
  - rewrite N.div_small, N.mod_small by exact Hlt. reflexivity.
  - assert (E1 : p / 8 = (p - 8) / 8 + 1) by dlia.
    assert (E2 : p mod 8 = (p - 8) mod 8) by dlia.
    rewrite E1, E2. replace (N.to_nat ((p - 8) / 8 + 1)) with (S (N.to_nat ((p - 8) / 8))) by lia.
    reflexivity.
Qed.

Lemma tbR_high : forall R p, 8 * N.of_nat (length R) <= p -> tbR R p = false.
Proof.
  intros R p H. unfold tbR. rewrite nth_overflow; [apply N.bits_0|].
  assert (N.of_nat (length R) <= p / 8) by dlia. lia.
Qed.

Lemma nth_skipn_add : forall (A : Type) (l : list A) k i d, nth i (skipn k l) d = nth (k + i) l d.
Proof.
  intros A l k. revert l. induction k as [|k IH]; intros l i d; [reflexivity|].
  destruct l as [|x l]; [destruct i; reflexivity|]. cbn [skipn Nat.add nth]. apply IH.
Qed.

Lemma nth_firstn_lt : forall (A : Type) (l : list A) k i d, (i < k)%nat -> nth i (firstn k l) d = nth i l d.
Proof.
  intros A l k. revert l. induction k as [|k IH]; intros l i d Hi; [lia|].
  destruct l as [|x l]; [reflexivity|]. destruct i as [|i]; [reflexivity|].
  cbn [firstn nth]. apply IH. lia.
Qed.

Lemma tbR_skipn : forall R j p, tbR (skipn j R) p = tbR R (p + 8 * N.of_nat j).
Proof.
  intros R j p. unfold tbR. rewrite nth_skipn_add.
  assert (E1 : (p + 8 * N.of_nat j) / 8 = p / 8 + N.of_nat j) by dlia.
  assert (E2 : (p + 8 * N.of_nat j) mod 8 = p mod 8) by dlia.
  rewrite E1, E2. f_equal. f_equal. lia.
Qed.

Lemma tbR_firstn : forall R j p, p < 8 * N.of_nat j -> tbR (firstn j R) p = tbR R p.
Proof.
  intros R j p H. unfold tbR. rewrite nth_firstn_lt; [reflexivity|].
  assert (p / 8 < N.of_nat j) by dlia. lia.
Qed.

Lemma tbR_app_l : forall R T p, p < 8 * N.of_nat (length R) -> tbR (R ++ T) p = tbR R p.
Proof.
  intros R T p H. unfold tbR. rewrite app_nth1; [reflexivity|].
  assert (p / 8 < N.of_nat (length R)) by dlia. lia.
Qed.

(* x + 256 * y with x a byte *)
Lemma add256_lor : forall x y, x < 256 -> x + 256 * y = N.lor x (N.shiftl y 8).
Proof.
  intros x y Hx.
  assert (H0 : N.land x (N.shiftl y 8) = 0).
  { apply N.bits_inj. intro i. rewrite N.land_spec, N.bits_0.
    destruct (N.ltb_spec i 8) as [Hlt|Hge].
    - rewrite N.shiftl_spec_low by exact Hlt. apply andb_false_r.
    - rewrite (testbit_small x 8 i) by (auto; lia). reflexivity. }
  rewrite <- (N.lxor_lor _ _ H0), <- (N.add_nocarry_lxor _ _ H0).
  rewrite N.shiftl_mul_pow2. change (2 ^ 8) with 256. lia.
Qed.

Lemma add256_tb : forall x y p, x < 256 ->
  N.testbit (x + 256 * y) p = if p <? 8 then N.testbit x p else N.testbit y (p - 8).
Proof.
  intros x y p Hx. rewrite add256_lor by exact Hx. rewrite N.lor_spec.
  destruct (N.ltb_spec p 8) as [Hlt|Hge].
  - rewrite N.shiftl_spec_low by exact Hlt. apply orb_false_r.
  - rewrite (testbit_small x 8 p) by (auto; lia). rewrite N.shiftl_spec_high' by exact Hge. reflexivity.
Qed.

(* little-endian sum of a byte list *)
Definition sumle (l : list N) : N := fold_right (fun x acc => x + 256 * acc) 0 l.

Lemma sumle_tb : forall R T p, Forall (fun x => x < 256) R -> p < 8 * N.of_nat (length R) ->
  N.testbit (sumle (R ++ T)) p = tbR R p.
Proof.
  induction R as [|x R IH]; intros T p HF Hp.
  - cbn [length] in Hp. lia.
  - inversion HF as [|x' R' Hx HR]; subst. cbn [app sumle fold_right]. fold (sumle (R ++ T)).
    rewrite add256_tb by exact Hx. rewrite tbR_cons.
    destruct (N.ltb_spec p 8) as [Hlt|Hge]; [reflexivity|].
    apply IH; [exact HR|]. cbn [length] in Hp. lia.
Qed.

Lemma le64_sumle : forall a0 a1 a2 a3 a4 a5 a6 a7,
  le64 a0 a1 a2 a3 a4 a5 a6 a7 = sumle [a0; a1; a2; a3; a4; a5; a6; a7].
Proof.
  intros. unfold le64, sumle. cbn [fold_right]. rewrite !N.shiftl_mul_pow2.
  change (2 ^ 8) with 256. change (2 ^ 16) with (256 * 256). change (2 ^ 24) with (256 * 256 * 256).
  change (2 ^ 32) with (256 * 256 * 256 * 256). change (2 ^ 40) with (256 * 256 * 256 * 256 * 256).
  change (2 ^ 48) with (256 * 256 * 256 * 256 * 256 * 256).
  change (2 ^ 56) with (256 * 256 * 256 * 256 * 256 * 256 * 256). ring.
Qed.

(* bit i of x << n computed in uint64 *)
Lemma shl64_tb : forall x n i,
  N.testbit (shl64 x n) i = (n <? 64) && (i <? 64) && (n <=? i) && N.testbit x (i - n).
Proof.
  intros x n i. unfold shl64. destruct (N.leb_spec 64 n) as [H64|H64].
  - rewrite N.bits_0. replace (n <? 64) with false by lia. reflexivity.
  - replace (n <? 64) with true by lia. cbn [andb]. unfold u64. change mask64 with (N.ones 64).
    rewrite N.land_spec. destruct (N.ltb_spec i 64) as [Hi|Hi].
    + rewrite N.ones_spec_low by exact Hi. rewrite andb_true_r. cbn [andb].
      destruct (N.leb_spec n i) as [Hn|Hn].
      * rewrite N.shiftl_spec_high' by exact Hn. reflexivity.
      * rewrite N.shiftl_spec_low by exact Hn. reflexivity.
    + rewrite N.ones_spec_high by exact Hi. rewrite andb_false_r. reflexivity.
Qed.

(* ---------------------------------------------------------------- what a load does to the bits *)
(* byte-wise path: exactly the loaded bytes of R are ORed in, at their positions *)
Lemma load_bytes_W : forall k b R T,
  r_in b = R ++ T -> Forall (fun x => x < 256) R -> (0 <= r_len b)%Z ->
  (r_len b + 8 * Z.of_nat k <= 64)%Z ->
  let n := Z.to_N (r_len b) in
  let j := Nat.min k (length (R ++ T)) in
  let kk := N.min (N.of_nat k) (N.of_nat (length R)) in
  r_len (load_bytes k b) = (r_len b + 8 * Z.of_nat j)%Z /\
  r_in (load_bytes k b) = skipn j (R ++ T) /\
  forall i, i < n + 8 * N.of_nat (length R) ->
    N.testbit (r_bits (load_bytes k b)) i =
    N.testbit (r_bits b) i || ((n <=? i) && (i <? n + 8 * kk) && tbR R (i - n)).
Proof.
  induction k as [|k IH]; intros b R T Hin HF H0 H64; cbv zeta.
  - cbn [load_bytes Nat.min skipn]. split; [lia|]. split; [exact Hin|].
    intros i Hi.
    replace ((Z.to_N (r_len b) <=? i) && (i <? Z.to_N (r_len b) + 8 * N.min (N.of_nat 0) (N.of_nat (length R))))
      with false by lia.
    cbn [andb]. rewrite orb_false_r. reflexivity.
  - cbn [load_bytes]. destruct (r_in b) as [|x rest] eqn:Ein.
    + assert (ER : R = [] /\ T = []) by (destruct R; [split; [reflexivity|exact (eq_sym Hin)]|discriminate Hin]).
      destruct ER as [-> ->]. cbn [app length Nat.min skipn]. rewrite Ein.
      split; [lia|]. split; [reflexivity|]. intros i Hi. cbn [length] in Hi.
      rewrite tbR_nil, andb_false_r, orb_false_r. reflexivity.
    + set (b1 := mkBR (N.lor (r_bits b) (shl64 x (Z.to_N (r_len b)))) (r_len b + 8)%Z rest (r_inlen b - 1)).
      destruct R as [|r0 R'].
      * (* all bytes belong to T *)
        cbn [app] in Hin. subst T.
        specialize (IH b1 [] rest eq_refl (Forall_nil _)). unfold b1 at 1 2 in IH. cbn [r_len] in IH.
        specialize (IH ltac:(lia) ltac:(lia)). cbv zeta in IH. destruct IH as (I1 & I2 & I3).
        assert (Hl1 : r_len b1 = (r_len b + 8)%Z) by reflexivity.
        cbn [app length] in *. rewrite Hl1 in I1, I3.
        replace (Nat.min (S k) (S (length rest))) with (S (Nat.min k (length rest))) by lia.
        split; [rewrite I1; lia|]. split; [rewrite I2; reflexivity|].
        intros i Hi. rewrite I3 by lia. unfold b1. cbn [r_bits].
        rewrite N.lor_spec, shl64_tb, !tbR_nil, !andb_false_r, !orb_false_r.
        replace (Z.to_N (r_len b) <=? i) with false by lia. rewrite andb_false_r. apply orb_false_r.
      * cbn [app] in Hin. injection Hin as Hx Hrest. subst r0 rest.
        inversion HF as [|x' R'' Hx HR]; subst.
        specialize (IH b1 R' T eq_refl HR). unfold b1 at 1 2 in IH. cbn [r_len] in IH.
        specialize (IH ltac:(lia) ltac:(lia)). cbv zeta in IH. destruct IH as (I1 & I2 & I3).
        assert (Hl1 : r_len b1 = (r_len b + 8)%Z) by reflexivity.
        cbn [app length] in *. rewrite Hl1 in I1, I3.
        replace (Nat.min (S k) (S (length (R' ++ T)))) with (S (Nat.min k (length (R' ++ T)))) by lia.
        split; [rewrite I1; lia|]. split; [rewrite I2; reflexivity|].
        intros i Hi. rewrite I3 by lia. unfold b1. cbn [r_bits].
        rewrite N.lor_spec, shl64_tb, tbR_cons.
        set (n := Z.to_N (r_len b)) in *.
        replace (Z.to_N (r_len b + 8)) with (n + 8) by lia.
        assert (Hn : n + 8 <= 64) by lia.
        destruct (N.ltb_spec i n) as [Hlt|Hge].
        { replace (n <=? i) with false by lia. replace (n + 8 <=? i) with false by lia.
          rewrite !andb_false_r. cbn [andb]. rewrite !orb_false_r. reflexivity. }
        destruct (N.ltb_spec (i - n) 8) as [Hlt8|Hge8].
        { replace (n + 8 <=? i) with false by lia. cbn [andb]. rewrite orb_false_r.
          replace (n <? 64) with true by lia. replace (i <? 64) with true by lia.
          replace (n <=? i) with true by lia.
          replace (i <? n + 8 * N.min (N.of_nat (S k)) (N.of_nat (S (length R')))) with true by lia.
          cbn [andb]. reflexivity. }
        rewrite (testbit_small x 8 (i - n)) by (auto; lia). rewrite !andb_false_r, orb_false_r.
        replace (n + 8 <=? i) with true by lia. replace (n <=? i) with true by lia.
        replace (i - (n + 8)) with (i - n - 8) by lia.
        replace (i <? n + 8 + 8 * N.min (N.of_nat k) (N.of_nat (length R')))
          with (i <? n + 8 * N.min (N.of_nat (S k)) (N.of_nat (S (length R')))) by lia.
        reflexivity.
Qed.

Lemma Forall_firstn_lt : forall (P : N -> Prop) k l, Forall P l -> Forall P (firstn k l).
Proof.
  intros P k. induction k as [|k IH]; intros l H; [constructor|].
  destruct l as [|x l]; [constructor|]. inversion H; subst. cbn [firstn]. constructor; auto.
Qed.

Lemma Forall_skipn_lt : forall (P : N -> Prop) k l, Forall P l -> Forall P (skipn k l).
Proof.
  intros P k. induction k as [|k IH]; intros l H; [exact H|].
  destruct l as [|x l]; [constructor|]. inversion H; subst. cbn [skipn]. auto.
Qed.

Lemma some_inj : forall (A : Type) (x y : A), Some x = Some y -> x = y.
Proof. intros A x y H. injection H as H. exact H. Qed.

Lemma cap_eq : forall n, n <= 64 -> 8 - (n + 7) / 8 = (64 - n) / 8.
Proof. intros n H. dlia. Qed.

(* load_raw on a reader whose input starts with the bytes R (all < 256): with cap = (64 - n) / 8 the
   number of bytes that fit, the first min cap |R| bytes of R are loaded at their positions; on the
   region below n + 8 |R| nothing else changes except that further bytes of R may already be ORed in
   (up to position hi). *)
Lemma load_raw_W : forall b b' R T,
  br_inv b -> (0 <= r_len b)%Z -> r_in b = R ++ T -> Forall (fun x => x < 256) R ->
  load_raw b = Some b' ->
  let n := Z.to_N (r_len b) in
  let cap := (64 - n) / 8 in
  let kk := N.min cap (N.of_nat (length R)) in
  (exists T', r_in b' = skipn (N.to_nat cap) R ++ T') /\
  (Z.of_N (n + 8 * kk) <= r_len b')%Z /\
  (cap <= N.of_nat (length R) -> r_len b' = Z.of_N (n + 8 * cap)) /\
  exists hi, n + 8 * kk <= hi /\
    forall i, i < n + 8 * N.of_nat (length R) ->
      N.testbit (r_bits b') i = N.testbit (r_bits b) i || ((n <=? i) && (i <? hi) && tbR R (i - n)).
Proof.
  intros b b' R T (I1 & I2 & I3) H0 Hin HF H. cbv zeta.
  set (n := Z.to_N (r_len b)). set (cap := (64 - n) / 8).
  assert (Hn : Z.of_N n = r_len b) by (unfold n; lia).
  assert (Hn64 : n <= 64) by lia.
  assert (Hcap : 8 * cap <= 64 - n) by (unfold cap; dlia).
  assert (HlenRT : r_inlen b = N.of_nat (length R) + N.of_nat (length T)).
  { rewrite I1, Hin, app_length. lia. }
  unfold load_raw in H.
  replace (r_len b <? 0)%Z with false in H by lia.
  replace (64 <? r_len b)%Z with false in H by lia.
  fold n in H.
  destruct (8 <=? r_inlen b) eqn:E8.
  - (* 64-bit path *)
    destruct (r_in b) as [|a0 [|a1 [|a2 [|a3 [|a4 [|a5 [|a6 [|a7 rest]]]]]]]] eqn:Ein; try discriminate H.
    rewrite (cap_eq n Hn64) in H. fold cap in H.
    apply some_inj in H.
    assert (Hb1 : r_bits b' = N.lor (r_bits b) (shl64 (le64 a0 a1 a2 a3 a4 a5 a6 a7) n)) by (subst b'; reflexivity).
    assert (Hb2 : r_len b' = (r_len b + 8 * Z.of_N cap)%Z) by (subst b'; reflexivity).
    assert (Hb3 : r_in b' = skipn (N.to_nat cap) (a0 :: a1 :: a2 :: a3 :: a4 :: a5 :: a6 :: a7 :: rest))
      by (subst b'; reflexivity).
    clear H. rewrite Hb1, Hb2, Hb3.
    split.
    { exists (skipn (N.to_nat cap - length R) T). rewrite Hin. apply skipn_app. }
    split; [lia|]. split; [intros _; lia|].
    exists 64. split; [lia|].
    intros i Hi. rewrite N.lor_spec, shl64_tb.
    destruct (N.leb_spec n i) as [Hni|Hni]; [|rewrite !andb_false_r; reflexivity].
    destruct (N.ltb_spec i 64) as [Hi64|Hi64]; [|rewrite !andb_false_r; reflexivity].
    replace (n <? 64) with true by lia. cbn [andb]. f_equal.
    rewrite le64_sumle.
    assert (E : [a0; a1; a2; a3; a4; a5; a6; a7] = firstn 8 (R ++ T)) by (rewrite <- Hin; reflexivity).
    rewrite E, firstn_app.
    rewrite sumle_tb.
    + apply tbR_firstn. lia.
    + apply Forall_firstn_lt. exact HF.
    + rewrite firstn_length. lia.
  - (* byte-wise path *)
    set (size := N.min cap (r_inlen b)) in H. apply some_inj in H. subst b'. fold cap. fold size.
    assert (Hsz : size <= cap) by (unfold size; lia).
    pose proof (load_bytes_W (N.to_nat size) b R T Hin HF H0 ltac:(lia)) as L.
    cbv zeta in L. destruct L as (L1 & L2 & L3).
    assert (Hj : Nat.min (N.to_nat size) (length (R ++ T)) = N.to_nat size).
    { rewrite app_length. unfold size. lia. }
    rewrite Hj in L1, L2.
    assert (Hkk : N.min (N.of_nat (N.to_nat size)) (N.of_nat (length R)) = N.min cap (N.of_nat (length R))).
    { unfold size. lia. }
    rewrite Hkk in L3. fold n in L3.
    split.
    { exists (skipn (N.to_nat size - length R) T). rewrite L2, skipn_app. f_equal.
      destruct (N.eq_dec size cap) as [->|Hne]; [reflexivity|].
      assert (length R <= N.to_nat size)%nat by (unfold size in *; lia).
      rewrite !skipn_all2 by lia. reflexivity. }
    split; [rewrite L1; unfold size; lia|].
    split; [intros Hc; rewrite L1; unfold size; lia|].
    exists (n + 8 * N.min cap (N.of_nat (length R))). split; [lia|]. exact L3.
Qed.

(* ---------------------------------------------------------------- the relation *)
(* bit i of r_bits completed by the bytes R placed at position q *)
Definition wbit (b : bitrd) (R : list N) (q i : N) : bool :=
  N.testbit (r_bits b) i || ((q <=? i) && tbR R (i - q)).

Section Rel.
Variable X : list N.
Definition lenX : Z := Z.of_nat (length X).

(* R: common bytes not yet loaded; q: common bits in the two buffers; m: lower bound for q that is
   guaranteed as long as R is not exhausted *)
Definition relc (R : list N) (q : N) (m : Z) (a b : bitrd) : Prop :=
  br_inv a /\ br_inv b /\
  (exists Za, r_in a = R ++ Za) /\ (exists Xb, r_in b = R ++ Xb) /\
  Forall (fun x => x < 256) R /\
  (Z.of_N q <= r_len a)%Z /\ (Z.of_N q <= r_len b)%Z /\
  (R <> [] -> r_len a = Z.of_N q /\ r_len b = Z.of_N q /\ (m <= Z.of_N q)%Z) /\
  (forall i, i < q + 8 * N.of_nat (length R) -> wbit a R q i = wbit b R q i) /\
  (avail b - 8 * lenX = Z.of_N q + 8 * Z.of_nat (length R))%Z.

Definition REL (m : Z) (a b : bitrd) : Prop := exists R q, relc R q m a b.

(* reader b has loaded every common byte and consumed every common bit *)
Definition FIN (b : bitrd) : Prop := (Z.of_N (r_inlen b) <= lenX)%Z /\ (avail b <= 8 * lenX)%Z.
(* the goal: restart_ok *)
Definition FINE (b : bitrd) (e : ierr) : Prop :=
  (Z.of_N (r_inlen b) <= lenX)%Z /\ (e = ENone -> (avail b <= 8 * lenX)%Z).

(* monotonicity of a reader operation *)
Definition mono (b b' : bitrd) : Prop := r_inlen b' <= r_inlen b /\ (avail b' <= avail b)%Z.

Lemma mono_refl : forall b, mono b b.
Proof. intros b. split; lia. Qed.
Lemma mono_trans : forall a b c, mono a b -> mono b c -> mono a c.
Proof. intros a b c [A1 A2] [B1 B2]. split; lia. Qed.

Lemma FIN_mono : forall b b', FIN b -> mono b b' -> FIN b'.
Proof. intros b b' [F1 F2] [M1 M2]. split; lia. Qed.
Lemma FIN_FINE : forall b e, FIN b -> FINE b e.
Proof. intros b e [F1 F2]. split; [exact F1|intros _; exact F2]. Qed.
Lemma FINE_FIN : forall b, FINE b ENone -> FIN b.
Proof. intros b [F1 F2]. split; [exact F1|apply F2; reflexivity]. Qed.
Lemma FINE_err : forall b e, (Z.of_N (r_inlen b) <= lenX)%Z -> e <> ENone -> FINE b e.
Proof. intros b e H He. split; [exact H|intros Hc; contradiction]. Qed.

Lemma REL_weaken : forall m m' a b, (m' <= m)%Z -> REL m a b -> REL m' a b.
Proof.
  intros m m' a b Hm (R & q & A1 & A2 & A3 & A4 & A5 & A6 & A7 & A8 & A9 & A10).
  exists R, q. unfold relc. repeat (split; [assumption|]).
  split; [|split; assumption].
  intros HR. destruct (A8 HR) as (B1 & B2 & B3). split; [exact B1|]. split; [exact B2|lia].
Qed.

Lemma REL_inv : forall m a b, REL m a b ->
  br_inv a /\ br_inv b /\ (0 <= r_len a)%Z /\ (0 <= r_len b)%Z.
Proof.
  intros m a b (R & q & A1 & A2 & A3 & A4 & A5 & A6 & A7 & A8 & A9 & A10).
  split; [exact A1|]. split; [exact A2|]. split; lia.
Qed.

(* once the common bytes are exhausted, b has loaded them all *)
Lemma relc_nil_inlen : forall q m a b, relc [] q m a b -> (Z.of_N (r_inlen b) <= lenX)%Z.
Proof.
  intros q m a b (A1 & A2 & A3 & A4 & A5 & A6 & A7 & A8 & A9 & A10).
  unfold avail in A10. cbn [length] in A10. lia.
Qed.

(* if reader a is exhausted the common bytes are *)
Lemma relc_exhausted : forall R q m a b, relc R q m a b -> r_inlen a = 0 -> R = [].
Proof.
  intros R q m a b (A1 & A2 & (Za & A3) & A4 & A5 & A6 & A7 & A8 & A9 & A10) H.
  destruct A1 as (I1 & _). rewrite I1, A3, app_length in H. destruct R; [reflexivity|cbn [length] in H; lia].
Qed.

(* the start *)
Lemma REL_init : forall bits len P Zt n1 n2,
  (0 <= len <= 64)%Z -> Forall (fun x => x < 256) P ->
  n1 = N.of_nat (length (P ++ Zt)) -> n2 = N.of_nat (length (P ++ X)) ->
  REL 0 (mkBR bits len (P ++ Zt) n1) (mkBR bits len (P ++ X) n2).
Proof.
  intros bits len P Zt n1 n2 Hlen HF H1 H2. exists P, (Z.to_N len).
  unfold relc, br_inv, avail, lenX. cbn [r_bits r_len r_in r_inlen].
  split; [split; [exact H1|split; [lia|intros; lia]]|].
  split; [split; [exact H2|split; [lia|intros; lia]]|].
  split; [exists Zt; reflexivity|]. split; [exists X; reflexivity|].
  split; [exact HF|]. split; [lia|]. split; [lia|].
  split; [intros _; lia|]. split; [intros i _; reflexivity|].
  rewrite H2, app_length. lia.
Qed.

(* ---------------------------------------------------------------- dropping bits *)
Lemma wbit_drop : forall b R q k i, k <= q ->
  wbit (br_drop b k) R (q - k) i = wbit b R q (i + k).
Proof.
  intros b R q k i Hk. unfold wbit, br_drop. cbn [r_bits].
  rewrite N.shiftr_spec'. f_equal.
  replace (q - k <=? i) with (q <=? i + k) by lia.
  replace (i - (q - k)) with (i + k - q) by lia. reflexivity.
Qed.

Lemma wbit_low : forall b R q i, i < q -> wbit b R q i = N.testbit (r_bits b) i.
Proof.
  intros b R q i H. unfold wbit. replace (q <=? i) with false by lia. apply orb_false_r.
Qed.

(* reading k bits: either both readers see the same value and stay related, or reader b has just
   consumed the last common bit *)
Lemma REL_read : forall m a b k, REL m a b -> (Z.of_N k <= m)%Z ->
  (N.land (r_bits a) (N.ones k) = N.land (r_bits b) (N.ones k) /\
   REL (m - Z.of_N k) (br_drop a k) (br_drop b k)) \/
  FIN (br_drop b k).
Proof.
  intros m a b k (R & q & A1 & A2 & A3 & A4 & A5 & A6 & A7 & A8 & A9 & A10) Hk.
  destruct (N.leb_spec k q) as [Hkq|Hkq].
  - left. split.
    + apply N.bits_inj. intro i. rewrite !N.land_spec.
      destruct (N.ltb_spec i k) as [Hi|Hi].
      * rewrite <- (wbit_low a R q i), <- (wbit_low b R q i) by lia. rewrite A9 by lia. reflexivity.
      * rewrite N.ones_spec_high by exact Hi. rewrite !andb_false_r. reflexivity.
    + exists R, (q - k). destruct A1 as (I1 & I2 & I3). destruct A2 as (J1 & J2 & J3).
      unfold relc, br_inv, avail in *. cbn [br_drop r_bits r_len r_in r_inlen].
      split; [split; [exact I1|split; [lia|intros; lia]]|].
      split; [split; [exact J1|split; [lia|intros; lia]]|].
      split; [exact A3|]. split; [exact A4|]. split; [exact A5|].
      split; [lia|]. split; [lia|].
      split; [intros HR; destruct (A8 HR) as (B1 & B2 & B3); lia|].
      split; [|lia].
      intros i Hi.
      change (wbit (br_drop a k) R (q - k) i = wbit (br_drop b k) R (q - k) i).
      rewrite !wbit_drop by exact Hkq. apply A9. lia.
  - right.
    assert (HR : R = []).
    { destruct R as [|r0 R']; [reflexivity|]. destruct (A8 ltac:(discriminate)) as (B1 & B2 & B3). lia. }
    subst R. cbn [length] in A10. unfold FIN, avail in *. cbn [br_drop r_bits r_len r_in r_inlen]. lia.
Qed.

Lemma next_bits_pair : forall b k, next_bits b k = (N.land (r_bits b) (N.ones k), br_drop b k).
Proof. reflexivity. Qed.

(* ---------------------------------------------------------------- loads *)
Lemma cap_57 : forall q, q <= 64 -> 57 <= q + 8 * ((64 - q) / 8).
Proof. intros q H. dlia. Qed.

(* unary: the completed bits are unchanged by a load *)
Lemma wbit_load : forall b b' R T q,
  br_inv b -> r_len b = Z.of_N q -> r_in b = R ++ T -> Forall (fun x => x < 256) R ->
  load_raw b = Some b' ->
  let cap := (64 - q) / 8 in
  let kk := N.min cap (N.of_nat (length R)) in
  forall i, i < q + 8 * N.of_nat (length R) ->
    wbit b' (skipn (N.to_nat cap) R) (q + 8 * kk) i = wbit b R q i.
Proof.
  intros b b' R T q Hinv Hlen Hin HF Hl. cbv zeta. intros i Hi.
  pose proof (load_raw_W b b' R T Hinv ltac:(lia) Hin HF Hl) as W. cbv zeta in W.
  replace (Z.to_N (r_len b)) with q in W by lia.
  destruct W as (_ & _ & _ & hi & Hhi & Hb).
  set (cap := (64 - q) / 8) in *. set (kk := N.min cap (N.of_nat (length R))) in *.
  unfold wbit. rewrite (Hb i Hi). rewrite tbR_skipn.
  destruct (N.leb_spec (q + 8 * kk) i) as [Hge|Hlt].
  - assert (Hkk : kk = cap) by (unfold kk in *; lia).
    replace (i - (q + 8 * kk) + 8 * N.of_nat (N.to_nat cap)) with (i - q) by lia.
    replace (q <=? i) with true by lia. cbn [andb].
    destruct (N.testbit (r_bits b) i), (i <? hi), (tbR R (i - q)); reflexivity.
  - replace (i <? hi) with true by lia. cbn [andb]. rewrite andb_true_r, orb_false_r. reflexivity.
Qed.

(* one reader loads (or not) while the common bytes are exhausted *)
Lemma load_side : forall b b' (c : bool),
  br_inv b -> (0 <= r_len b)%Z -> (if c then load_raw b else Some b) = Some b' ->
  br_inv b' /\ avail b' = avail b /\ (r_len b <= r_len b')%Z /\
  (forall i, Z.of_N i < r_len b -> N.testbit (r_bits b') i = N.testbit (r_bits b) i)%Z.
Proof.
  intros b b' c Hinv H0 H. destruct c.
  - destruct (load_raw_spec b Hinv) as (b2 & L1 & L2 & L3 & L4 & L5).
    rewrite L1 in H. apply some_inj in H. subst b2.
    split; [exact (proj1 L2)|]. split; [exact L3|]. split; [exact L4|].
    intros i Hi.
    pose proof (load_raw_W b b' [] (r_in b) Hinv H0 eq_refl (Forall_nil _) L1) as W. cbv zeta in W.
    destruct W as (_ & _ & _ & hi & _ & Hb). cbn [length] in Hb.
    rewrite Hb by lia. rewrite tbR_nil, andb_false_r, orb_false_r. reflexivity.
  - apply some_inj in H. subst b'. split; [exact Hinv|]. split; [reflexivity|]. split; [lia|]. intros; reflexivity.
Qed.

Lemma REL_load : forall m a b a' b' (ca cb : bool) mm,
  REL m a b ->
  (if ca then load_raw a else Some a) = Some a' ->
  (if cb then load_raw b else Some b) = Some b' ->
  (r_len a = r_len b -> ca = cb) ->
  (ca = false -> (mm <= r_len a)%Z) -> (cb = false -> (mm <= r_len b)%Z) -> (mm <= 57)%Z ->
  REL mm a' b'.
Proof.
  intros m a b a' b' ca cb mm (R & q & A1 & A2 & (Za & A3) & (Xb & A4) & A5 & A6 & A7 & A8 & A9 & A10)
         Ha Hb Hc Hma Hmb Hmm.
  destruct R as [|r0 R'].
  - (* common bytes exhausted: independent loads *)
    destruct (load_side a a' ca A1 ltac:(lia) Ha) as (P1 & P2 & P3 & P4).
    destruct (load_side b b' cb A2 ltac:(lia) Hb) as (Q1 & Q2 & Q3 & Q4).
    exists [], q. unfold relc.
    split; [exact P1|]. split; [exact Q1|].
    split; [exists (r_in a'); reflexivity|]. split; [exists (r_in b'); reflexivity|].
    split; [constructor|]. split; [lia|]. split; [lia|].
    split; [intros Hc0; contradiction|].
    split; [|rewrite Q2; exact A10].
    intros i Hi. cbn [length] in Hi, A9.
    rewrite !wbit_low by lia. rewrite P4, Q4 by lia.
    rewrite <- (wbit_low a [] q i), <- (wbit_low b [] q i) by lia. apply A9. lia.
  - set (R := r0 :: R') in *.
    destruct (A8 ltac:(discriminate)) as (B1 & B2 & B3).
    assert (Ec : ca = cb) by (apply Hc; lia). subst cb.
    destruct ca.
    + (* both load *)
      pose proof (load_raw_W a a' R Za A1 ltac:(lia) A3 A5 Ha) as WA.
      pose proof (load_raw_W b b' R Xb A2 ltac:(lia) A4 A5 Hb) as WB.
      cbv zeta in WA, WB.
      replace (Z.to_N (r_len a)) with q in WA by lia.
      replace (Z.to_N (r_len b)) with q in WB by lia.
      pose proof (wbit_load a a' R Za q A1 B1 A3 A5 Ha) as VA.
      pose proof (wbit_load b b' R Xb q A2 B2 A4 A5 Hb) as VB.
      cbv zeta in VA, VB.
      destruct (load_raw_spec a A1) as (a2 & LA1 & LA2 & LA3 & LA4 & LA5).
      rewrite LA1 in Ha. apply some_inj in Ha. subst a2.
      destruct (load_raw_spec b A2) as (b2 & LB1 & LB2 & LB3 & LB4 & LB5).
      rewrite LB1 in Hb. apply some_inj in Hb. subst b2.
      set (cap := (64 - q) / 8) in *. set (kk := N.min cap (N.of_nat (length R))) in *.
      destruct WA as ((Ta & WA1) & WA2 & WA3 & _). destruct WB as ((Tb & WB1) & WB2 & WB3 & _).
      assert (Hq64 : q <= 64) by (destruct A1 as (_ & I2 & _); lia).
      pose proof (cap_57 q Hq64) as H57. fold cap in H57.
      assert (Hlen' : N.of_nat (length (skipn (N.to_nat cap) R)) = N.of_nat (length R) - kk).
      { rewrite skipn_length. unfold kk. lia. }
      exists (skipn (N.to_nat cap) R), (q + 8 * kk). unfold relc.
      split; [exact (proj1 LA2)|]. split; [exact (proj1 LB2)|].
      split; [exists Ta; exact WA1|]. split; [exists Tb; exact WB1|].
      split; [apply Forall_skipn_lt; exact A5|].
      split; [exact WA2|]. split; [exact WB2|].
      split.
      { intros HR.
        assert (Hcl : cap < N.of_nat (length R)).
        { destruct (N.ltb_spec cap (N.of_nat (length R))) as [Hlt|Hge]; [exact Hlt|].
          exfalso. apply HR. apply skipn_all2. lia. }
        assert (Hkk : kk = cap) by (unfold kk; lia).
        rewrite WA3, WB3 by lia. rewrite Hkk. split; [reflexivity|]. split; [reflexivity|lia]. }
      split.
      { intros i Hi. rewrite VA, VB by lia. apply A9. lia. }
      rewrite LB3. unfold kk in *. lia.
    + (* neither loads *)
      apply some_inj in Ha. apply some_inj in Hb. subst a' b'.
      exists R, q. unfold relc.
      split; [exact A1|]. split; [exact A2|]. split; [exists Za; exact A3|]. split; [exists Xb; exact A4|].
      split; [exact A5|]. split; [exact A6|]. split; [exact A7|].
      split; [intros _; split; [exact B1|split; [exact B2|specialize (Hma eq_refl); lia]]|].
      split; [exact A9|exact A10].
Qed.

Lemma REL_load_raw : forall m a b a' b', REL m a b -> load_raw a = Some a' -> load_raw b = Some b' ->
  REL 57 a' b'.
Proof.
  intros m a b a' b' H Ha Hb.
  apply (REL_load m a b a' b' true true 57 H Ha Hb); try reflexivity; try (intros Hc; discriminate Hc); try lia.
Qed.

Lemma REL_load_lt57 : forall m a b a' b', REL m a b -> load_lt57 a = Some a' -> load_lt57 b = Some b' ->
  REL 57 a' b'.
Proof.
  intros m a b a' b' H Ha Hb. unfold load_lt57 in Ha, Hb.
  apply (REL_load m a b a' b' (r_len a <? 57)%Z (r_len b <? 57)%Z 57 H Ha Hb).
  - intros E. rewrite E. reflexivity.
  - intros E. lia.
  - intros E. lia.
  - lia.
Qed.

Lemma REL_load_le15 : forall m a b a' b', REL m a b -> load_le15 a = Some a' -> load_le15 b = Some b' ->
  REL 16 a' b'.
Proof.
  intros m a b a' b' H Ha Hb. unfold load_le15 in Ha, Hb.
  apply (REL_load m a b a' b' (r_len a <=? 15)%Z (r_len b <=? 15)%Z 16 H Ha Hb).
  - intros E. rewrite E. reflexivity.
  - intros E. lia.
  - intros E. lia.
  - lia.
Qed.

End Rel.

(* ---------------------------------------------------------------- monotonicity, unconditional *)
Lemma mono_drop : forall b k, mono b (br_drop b k).
Proof. intros b k. unfold mono, avail, br_drop. cbn [r_inlen r_len]. split; lia. Qed.

Lemma mono_load_bytes : forall k b, N.of_nat k <= r_inlen b -> mono b (load_bytes k b).
Proof.
  induction k as [|k IH]; intros b Hk; cbn [load_bytes]; [apply mono_refl|].
  destruct (r_in b) as [|x rest]; [apply mono_refl|].
  eapply mono_trans; [|apply IH; cbn [r_inlen]; lia].
  unfold mono, avail. cbn [r_inlen r_len]. split; lia.
Qed.

Lemma mono_load_raw : forall b b', load_raw b = Some b' -> mono b b'.
Proof.
  intros b b' H. unfold load_raw in H.
  destruct (r_len b <? 0)%Z eqn:E0.
  { destruct (r_inlen b =? 0); [|discriminate H]. apply some_inj in H. subst b'. apply mono_refl. }
  destruct (64 <? r_len b)%Z eqn:E64; [discriminate H|].
  set (n := Z.to_N (r_len b)) in *.
  destruct (8 <=? r_inlen b) eqn:E8.
  - destruct (r_in b) as [|a0 [|a1 [|a2 [|a3 [|a4 [|a5 [|a6 [|a7 rest]]]]]]]]; try discriminate H.
    apply some_inj in H.
    assert (H1 : r_inlen b' = r_inlen b - (8 - (n + 7) / 8)) by (subst b'; reflexivity).
    assert (H2 : r_len b' = (r_len b + 8 * Z.of_N (8 - (n + 7) / 8))%Z) by (subst b'; reflexivity).
    unfold mono, avail. rewrite H1, H2. split; lia.
  - apply some_inj in H. subst b'. apply mono_load_bytes. lia.
Qed.

Lemma mono_load_lt57 : forall b b', load_lt57 b = Some b' -> mono b b'.
Proof.
  intros b b' H. unfold load_lt57 in H. destruct (r_len b <? 57)%Z.
  - apply mono_load_raw. exact H.
  - apply some_inj in H. subst b'. apply mono_refl.
Qed.

Lemma mono_load_le15 : forall b b', load_le15 b = Some b' -> mono b b'.
Proof.
  intros b b' H. unfold load_le15 in H. destruct (r_len b <=? 15)%Z.
  - apply mono_load_raw. exact H.
  - apply some_inj in H. subst b'. apply mono_refl.
Qed.
