(* EngineSafetyInv.v -- the invariants used by the safety proofs of RModel/Engine.v:
   entry-wise invariants of the four decode tables and of the code-length table, the static
   tables satisfy them (by computation), counting functions relating code-length arrays to
   their histograms. *)
From Verif Require Import Engine EngineTables.
From Verif Require Import Base EngineSafetyBase EngineSafetyBits.
From Coq Require Import List NArith ZArith Bool Lia ZifyBool ZifyNat ZifyN.
Import ListNotations.
Open Scope N_scope.

(* ---------------------------------------------------------------- table entries *)
(* code-length table (clcTable.ShortCodeLookup): no long-code pointer, at most 15 bits *)
Definition clc_entry_ok (e : N) : Prop := e < 32768 /\ N.land e 1024 = 0.

(* distTable.ShortCodeLookup: a plain entry consumes at most 15 bits, and one with bit count 0
   (invalid symbol: the decoder then subtracts the whole entry from bitsLen) is at most 15; a
   long-code pointer (flag 1024) addresses a group that lies inside LongCodeLookup[80] *)
Definition dist_short_ok (e : N) : Prop :=
  e < 65536 /\
  (N.land e 1024 = 0 -> e < 32768 /\ (e < 2048 -> e <= 15)) /\
  (N.land e 1024 <> 0 -> N.land e 511 + 2 ^ (N.shiftr (e - 1024) 11 - 10) <= 80).
(* distTable.LongCodeLookup: at most 15 bits; an entry with bit count 0 is at most 15 *)
Definition dist_long_ok (e : N) : Prop := e < 16384 /\ (e < 1024 -> e <= 15).

(* litLenTable.shortCodeLookup: uint32; a plain entry that consumes bits carries a symbol count
   1..3; a long-code pointer (flag 1<<25) addresses a group inside longCodeLookup[1264] *)
Definition lit_short_ok (e : N) : Prop :=
  e < 4294967296 /\
  (N.land e largeFlagBit = 0 -> N.shiftr e 28 <> 0 -> N.land (N.shiftr e 26) 3 <> 0) /\
  (N.land e largeFlagBit <> 0 ->
     N.shiftr e 26 <= 31 /\ N.land e largeShortSymMask + 2 ^ (N.shiftr e 26 - 12) <= 1264).
(* litLenTable.longCodeLookup: at most 21 bits *)
Definition lit_long_ok (e : N) : Prop := e < 22528.

Definition tabs_ok (t : tabs) : Prop :=
  all_entries lit_short_ok (litShort t) /\ all_entries lit_long_ok (litLong t) /\
  all_entries dist_short_ok (distShort t) /\ all_entries dist_long_ok (distLong t).

Definition clc_ok (d : dynHdr) : Prop := all_entries clc_entry_ok (clcShort d).

(* boolean versions (for the static tables) *)
Definition dist_short_okb (e : N) : bool :=
  (e <? 65536) &&
  (if N.land e 1024 =? 0 then (e <? 32768) && ((2048 <=? e) || (e <=? 15))
   else N.land e 511 + 2 ^ (N.shiftr (e - 1024) 11 - 10) <=? 80).
Definition lit_short_okb (e : N) : bool :=
  (e <? 4294967296) &&
  (if N.land e largeFlagBit =? 0
   then (N.shiftr e 28 =? 0) || negb (N.land (N.shiftr e 26) 3 =? 0)
   else (N.shiftr e 26 <=? 31) && (N.land e largeShortSymMask + 2 ^ (N.shiftr e 26 - 12) <=? 1264)).

Lemma dist_short_okb_ok : forall e, dist_short_okb e = true -> dist_short_ok e.
Proof.
  intros e H. unfold dist_short_okb in H. apply andb_prop in H. destruct H as [H1 H2].
  unfold dist_short_ok. split; [lia|].
  destruct (N.land e 1024 =? 0) eqn:E.
  - split; [intros _; lia|intros Hc; lia].
  - split; [intros Hc; lia|intros _; lia].
Qed.

Definition dist_long_okb (e : N) : bool := (e <? 16384) && ((1024 <=? e) || (e <=? 15)).
Lemma dist_long_okb_ok : forall e, dist_long_okb e = true -> dist_long_ok e.
Proof. intros e H. unfold dist_long_okb in H. unfold dist_long_ok. lia. Qed.

Lemma lit_short_okb_ok : forall e, lit_short_okb e = true -> lit_short_ok e.
Proof.
  intros e H. unfold lit_short_okb in H. apply andb_prop in H. destruct H as [H1 H2].
  unfold lit_short_ok. split; [lia|].
  destruct (N.land e largeFlagBit =? 0) eqn:E.
  - split; [|intros Hc; lia]. intros _ H28.
    apply orb_prop in H2. destruct H2 as [H2|H2]; [lia|].
    intro Hc. rewrite Hc in H2. discriminate.
  - split; [intros Hc; lia|]. intros _. apply andb_prop in H2. destruct H2 as [H2 H3]. split; lia.
Qed.

Lemma all_entries_fill : forall (P : N -> Prop) l i a,
  all_entries P a -> Forall P l -> all_entries P (arr_fill l i a).
Proof.
  intros P l. induction l as [|x r IH]; intros i a Ha Hl; cbn [arr_fill]; [exact Ha|].
  inversion Hl; subst. apply IH; [|assumption]. apply all_entries_aset; assumption.
Qed.

Lemma all_entries_of_list : forall (P : N -> Prop) l,
  P 0 -> Forall P l -> all_entries P (arr_of_list l).
Proof.
  intros P l H0 Hl. unfold arr_of_list. apply all_entries_fill; [|exact Hl].
  apply all_entries_empty. exact H0.
Qed.

Lemma forallb_Forall_impl : forall (f : N -> bool) (P : N -> Prop) l,
  (forall x, f x = true -> P x) -> forallb f l = true -> Forall P l.
Proof.
  intros f P l Hf H. rewrite forallb_forall in H. apply Forall_forall.
  intros x Hx. apply Hf, H, Hx.
Qed.

Lemma lit_short_ok_0 : lit_short_ok 0.
Proof. apply lit_short_okb_ok. vm_compute. reflexivity. Qed.
Lemma dist_short_ok_0 : dist_short_ok 0.
Proof. apply dist_short_okb_ok. vm_compute. reflexivity. Qed.
Lemma clc_entry_ok_0 : clc_entry_ok 0.
Proof. split; [lia|reflexivity]. Qed.
Lemma lit_long_ok_0 : lit_long_ok 0.
Proof. unfold lit_long_ok. lia. Qed.
Lemma dist_long_ok_0 : dist_long_ok 0.
Proof. unfold dist_long_ok. lia. Qed.

(* the transcribed static tables satisfy the invariants *)
Theorem static_tabs_ok :
  tabs_ok (mkTB static_lit_short static_lit_long static_dist_short static_dist_long).
Proof.
  unfold tabs_ok; cbn [litShort litLong distShort distLong].
  split; [|split; [|split]].
  - apply all_entries_of_list; [exact lit_short_ok_0|].
    apply (forallb_Forall_impl lit_short_okb); [exact lit_short_okb_ok|]. vm_compute. reflexivity.
  - apply all_entries_of_list; [exact lit_long_ok_0|].
    apply (forallb_Forall_impl (fun e => e <? 22528)); [intros x Hx; unfold lit_long_ok; lia|].
    vm_compute. reflexivity.
  - apply all_entries_of_list; [exact dist_short_ok_0|].
    apply (forallb_Forall_impl dist_short_okb); [exact dist_short_okb_ok|]. vm_compute. reflexivity.
  - apply all_entries_of_list; [exact dist_long_ok_0|].
    apply (forallb_Forall_impl dist_long_okb); [exact dist_long_okb_ok|].
    vm_compute. reflexivity.
Qed.

Lemma tabs_ok_empty : tabs_ok (mkTB aempty aempty aempty aempty).
Proof.
  unfold tabs_ok; cbn [litShort litLong distShort distLong].
  split; [|split; [|split]]; apply all_entries_empty.
  - exact lit_short_ok_0. - exact lit_long_ok_0. - exact dist_short_ok_0. - exact dist_long_ok_0.
Qed.

(* ---------------------------------------------------------------- histograms of code lengths *)
(* number of i in [base, base+n) with hc_len (h i) = l *)
Fixpoint count_len (h : arr) (base : N) (n : nat) (l : N) : N :=
  match n with
  | O => 0
  | S k => count_len h base k l + (if hc_len (aget h (base + N.of_nat k)) =? l then 1 else 0)
  end.

Definition sum15 (c : arr) : N :=
  aget c 1 + aget c 2 + aget c 3 + aget c 4 + aget c 5 + aget c 6 + aget c 7 + aget c 8 +
  aget c 9 + aget c 10 + aget c 11 + aget c 12 + aget c 13 + aget c 14 + aget c 15.

(* precondition of gen_small (GenerateForHeader / genForDists): [count] is the histogram of the
   code lengths found in codes[0..ncodes), all lengths are at most 15, at most 30 codes *)
Definition small_pre (codes count : arr) (ncodes : N) : Prop :=
  (forall i, hc_len (aget codes i) <= 15) /\
  (forall i, aget codes i < 4294967296) /\
  (forall l, 1 <= l <= 15 -> aget count l = count_len codes 0 (N.to_nat ncodes) l) /\
  sum15 count <= 30.

(* extra-bit count of the length symbol stored at position s (257 <= s < 286) of huffs *)
Definition len_extra (s : N) : N := aget rfc_len_extra (s - 257).

(* the two sums maintained modulo 2^16 in litExpandCount by readLitDistLens, over the
   positions [264, 264 + n): the number of length symbols with code length L, and the number of
   expanded codes of expanded length L *)
Fixpoint ex_dec (h : arr) (n : nat) (L : N) : N :=
  match n with
  | O => 0
  | S k => ex_dec h k L +
           (let s := 264 + N.of_nat k in
            if (hc_len (aget h s) =? L) && negb (L =? 0) then 1 else 0)
  end.
Fixpoint ex_inc (h : arr) (n : nat) (L : N) : N :=
  match n with
  | O => 0
  | S k => ex_inc h k L +
           (let s := 264 + N.of_nat k in
            let l := hc_len (aget h s) in
            if negb (l =? 0) && (l + len_extra s =? L) then 2 ^ len_extra s else 0)
  end.

(* what readLitDistLens leaves in dynHdr when it returns nil (the positions [split, 286) of
   huffs are never written, so the sums may run up to 286) *)
Definition huff_ok (h : arr) : Prop :=
  forall i, aget h i < 4294967296 /\ hc_len (aget h i) <= 15.
(* literal/length part: litCount and litExpandCount against huffs[0..286) *)
Definition rl_post_lit (h lc ex : arr) : Prop :=
  huff_ok h /\
  (forall l, 1 <= l <= 15 -> aget lc l = count_len h 0 286 l) /\
  (forall L, aget ex L < 65536) /\
  (forall L, 1 <= L -> (aget ex L + ex_dec h 22 L) mod 65536 = ex_inc h 22 L mod 65536).
(* distance part: distCount against huffs[286..316) *)
Definition rl_post_dist (h dc : arr) : Prop :=
  huff_ok h /\
  (forall l, 1 <= l <= 15 -> aget dc l = count_len h 286 30 l) /\
  sum15 dc <= 30.
Definition rl_post (h lc dc ex : arr) : Prop := rl_post_lit h lc ex /\ rl_post_dist h dc.

(* what setAndExpandLitLenHuffCode leaves behind when it returns nil: litCount holds the start
   offsets of the expanded code lengths in codeList, codeList is sorted by expanded length and
   indexes the 514 expanded codes in litAndDistHuff *)
Definition litlen_sorted (d : dynHdr) : Prop :=
  let lc := litCount d in
  let cl := codeList d in
  let h := litAndDistHuff d in
  aget lc 0 = 0 /\ aget lc 1 = 0 /\
  (forall L, L < 22 -> aget lc L <= aget lc (L + 1)) /\
  aget lc 22 <= 514 /\
  (forall i, aget h i < 4294967296) /\
  (forall L k, L < 22 -> aget lc L <= k < aget lc (L + 1) ->
     aget cl k < 514 /\ hc_len (aget h (aget cl k)) = L).

(* ---------------------------------------------------------------- frames *)
(* everything of the inflate state except the bit reader and dynHdr is unchanged *)
Definition same_outer (s s' : inflate) : Prop :=
  inputNil s' = inputNil s /\ ov s' = ov s /\ tb s' = tb s /\ phase s' = phase s /\
  bfinal s' = bfinal s /\ litBlockLength s' = litBlockLength s /\
  headerBuffered s' = headerBuffered s /\ headerBuffer s' = headerBuffer s /\
  roffset s' = roffset s.

Lemma same_outer_refl : forall s, same_outer s s.
Proof. intros s. unfold same_outer. repeat split; reflexivity. Qed.

Lemma same_outer_trans : forall s1 s2 s3, same_outer s1 s2 -> same_outer s2 s3 -> same_outer s1 s3.
Proof.
  unfold same_outer. intros s1 s2 s3 (A1&A2&A3&A4&A5&A6&A7&A8&A9) (B1&B2&B3&B4&B5&B6&B7&B8&B9).
  repeat split; congruence.
Qed.

(* ---------------------------------------------------------------- the long-code groups of the
   literal/length table *)
(* the loop of encodeLongCodes, with its running total longCodeLookupLength kept *)
Definition elc_loop (short long : arr) (d : dynHdr) (codeListLen : N)
  : arr * arr * arr * N * bool :=
  let idx := aget (litCount d) 13 in
  let longCodeLength := sub32 codeListLen idx in
  let cl := codeList d in
    forN 0 longCodeLength (fun i (st : arr * arr * arr * N * bool) =>
      let '(short, long, huff, lcl, pan) := st in
      if pan then st
      else if 516 <=? idx + i then (short, long, huff, lcl, true)
      else
        let li := aget cl (idx + i) in
        if hc_code (aget huff li) =? invalidCodeValue then st
        else
          let maxLen0 := hc_len (aget huff li) in
          let firstBits := N.land (hc_code (aget huff li)) 4095 in
          let '(maxLen, tempRev) :=
            forN (i + 1) longCodeLength (fun j (a : N * list N) =>
              let '(ml, tl) := a in
              let lj := aget cl (idx + j) in
              if N.land (hc_code (aget huff lj)) 4095 =? firstBits
              then (hc_len (aget huff lj), lj :: tl) else a)
              (maxLen0, [li]) in
          let temp := frev tempRev in
          let grp := shl32 1 (maxLen - 12) in
          (* clear the group first (fix 93d504a); x reaching len(longCodeLookup) = 1264 panics *)
          if 1264 <? lcl + grp then (short, long, huff, lcl, true)
          else
          let long := forN lcl (lcl + grp) (fun x t => aset t x 0) long in
          let '(long, huff, pan) :=
            fold_left (fun (a : arr * arr * bool) (sym1Index : N) =>
              let '(long, huff, pan) := a in
              let sym1 := indexToSym sym1Index in
              let sym1Len := hc_len (aget huff sym1Index) in
              let sym1Code := hc_code (aget huff sym1Index) in
              let longBits := N.shiftr sym1Code 12 in
              let minInc := shl32 1 (sym1Len - 12) in
              let entry := u16 (N.lor sym1 (N.shiftl sym1Len 10)) in
              let '(long, pan) := long_fill small_fuel 1264 mask32 long lcl longBits grp minInc entry pan in
              (long, aset huff sym1Index (hc_setcode (aget huff sym1Index) invalidCodeValue), pan))
              temp (long, huff, pan) in
          let short := aset short firstBits
                         (u32 (N.lor (N.lor lcl (N.shiftl maxLen 26)) largeFlagBit)) in
          (short, long, huff, u32 (lcl + grp), pan))
      (short, long, litAndDistHuff d, 0, false).

Lemma encodeLongCodes_eq : forall short long d cll,
  encodeLongCodes short long d cll =
  let '(s, l, h, _, p) := elc_loop short long d cll in (s, l, h, p).
Proof. reflexivity. Qed.

(* "the long-code groups of this literal/length code fit longCodeLookup[1264]": encodeLongCodes
   does not report an index out of range (its explicit check `1264 <? lcl + grp` before clearing a
   group, the fill loop, the codeList index) *)
Definition long_groups_fit (d : dynHdr) : Prop :=
  forall short long,
    let '(_, _, _, _, pan) := elc_loop short long d (aget (litCount d) 22) in pan = false.
