(* EngineRefineBuf.v -- proofs of the statements of RModel/EngineRefineSpecBuf.v:
   Peek / Discard of the bufio.Reader model as operations on the abstract byte stream. *)
From Coq Require Import List NArith ZArith Bool Lia ZifyBool ZifyNat ZifyN.
From Verif Require Import Base EngineTables Engine EngineRefineSpecBuf.
Import ListNotations.
Open Scope N_scope.

(* ------------------------------------------------------------------ list helpers *)
Lemma ERB_frev_rev : forall A (l : list A), frev l = rev l.
Proof. intros A l. unfold frev. rewrite rev_append_rev, app_nil_r. reflexivity. Qed.

Lemma ERB_firstn_app_le : forall A (n : nat) (l1 l2 : list A),
  (n <= length l1)%nat -> firstn n (l1 ++ l2) = firstn n l1.
Proof.
  intros A n l1 l2 Hn. rewrite firstn_app.
  replace (n - length l1)%nat with 0%nat by lia.
  cbn [firstn]. apply app_nil_r.
Qed.

Lemma ERB_skipn_app_le : forall A (n : nat) (l1 l2 : list A),
  (n <= length l1)%nat -> skipn n (l1 ++ l2) = skipn n l1 ++ l2.
Proof.
  intros A n l1 l2 Hn. rewrite skipn_app.
  replace (n - length l1)%nat with 0%nat by lia.
  reflexivity.
Qed.

Lemma ERB_length_zero_nil : forall A (l : list A), length l = 0%nat -> l = [].
Proof. intros A l Hl. destruct l as [|x r]; [reflexivity | discriminate Hl]. Qed.

(* ------------------------------------------------------------------ take_upto / src_read *)
Lemma ERB_take_upto_gen : forall l space acc cnt,
  take_upto l space acc cnt =
  (rev acc ++ firstn (N.to_nat space) l,
   cnt + N.of_nat (length (firstn (N.to_nat space) l)),
   skipn (N.to_nat space) l).
Proof.
  induction l as [|x r IH]; intros space acc cnt.
  - cbn [take_upto]. rewrite firstn_nil, skipn_nil, ERB_frev_rev, app_nil_r.
    cbn [length]. f_equal. f_equal. lia.
  - cbn [take_upto]. destruct (space =? 0) eqn:E.
    + assert (Hs : N.to_nat space = 0%nat) by lia. rewrite Hs.
      cbn [firstn skipn length]. rewrite ERB_frev_rev, app_nil_r.
      f_equal. f_equal. lia.
    + assert (Hs : N.to_nat space = S (N.to_nat (space - 1))) by lia. rewrite Hs.
      cbn [firstn skipn length]. rewrite IH. cbn [rev]. rewrite <- app_assoc.
      cbn [app]. f_equal. f_equal. lia.
Qed.

Lemma ERB_take_upto0 : forall l space,
  take_upto l space [] 0 =
  (firstn (N.to_nat space) l, N.of_nat (length (firstn (N.to_nat space) l)),
   skipn (N.to_nat space) l).
Proof.
  intros l space. rewrite ERB_take_upto_gen. cbn [rev app]. rewrite N.add_0_l. reflexivity.
Qed.

Lemma ERB_src_read_cons : forall c rest t space,
  c <> [] -> 0 < space ->
  exists got cs',
    src_read (c :: rest) t space = (got, N.of_nat (length got), None, cs') /\
    got <> [] /\ N.of_nat (length got) <= space /\
    got ++ concat cs' = c ++ concat rest /\
    (Forall (fun c => c <> []) rest -> Forall (fun c => c <> []) cs').
Proof.
  intros c rest t space Hc Hsp.
  unfold src_read. rewrite ERB_take_upto0.
  exists (firstn (N.to_nat space) c).
  exists (match skipn (N.to_nat space) c with [] => rest | _ :: _ => skipn (N.to_nat space) c :: rest end).
  split; [reflexivity|]. split; [|split; [|split]].
  - destruct c as [|x r]; [contradiction Hc; reflexivity|].
    assert (Hs : N.to_nat space = S (N.to_nat (space - 1))) by lia. rewrite Hs.
    cbn [firstn]. discriminate.
  - rewrite firstn_length. lia.
  - destruct (skipn (N.to_nat space) c) as [|y l] eqn:Esk.
    + rewrite <- (firstn_skipn (N.to_nat space) c) at 2. rewrite Esk, app_nil_r. reflexivity.
    + cbn [concat]. rewrite app_assoc. rewrite <- Esk. rewrite firstn_skipn. reflexivity.
  - intros Hrest. destruct (skipn (N.to_nat space) c) as [|y l] eqn:Esk; [exact Hrest|].
    constructor; [discriminate | exact Hrest].
Qed.

(* ------------------------------------------------------------------ fill *)
Lemma ERB_fill_loop_spec : forall k b,
  buf_ok b -> berr b = None -> blen b < bsize b ->
  buf_ok (fill_loop (S k) b) /\
  bstream (fill_loop (S k) b) = bstream b /\
  consumed (fill_loop (S k) b) = consumed b /\
  bsize (fill_loop (S k) b) = bsize b /\
  term (fill_loop (S k) b) = term b /\
  (blen b < blen (fill_loop (S k) b) \/ berr (fill_loop (S k) b) <> None).
Proof.
  intros k b Hok He Hlt.
  destruct Hok as (Hlen & Hle & H16 & Hne & Herr).
  cbn [fill_loop].
  destruct (chunks b) as [|c rest] eqn:Ec.
  - cbn [src_read].
    cbn [bsize bbuf blen berr chunks term consumed].
    unfold buf_ok, bstream. cbn [bsize bbuf blen berr chunks term consumed].
    rewrite Ec, app_nil_r.
    split; [|split; [reflexivity|split; [reflexivity|split; [reflexivity|split; [reflexivity|]]]]].
    + split; [lia|]. split; [lia|]. split; [exact H16|]. split; [constructor|].
      intros e Hx. inversion Hx; subst. split; reflexivity.
    + right. discriminate.
  - assert (Hc : c <> []) by (inversion Hne; assumption).
    assert (Hrest : Forall (fun c => c <> []) rest) by (inversion Hne; assumption).
    assert (Hsp : 0 < bsize b - blen b) by lia.
    destruct (ERB_src_read_cons c rest (term b) (bsize b - blen b) Hc Hsp)
      as (got & cs' & Esr & Hgot & Hgl & Hcat & Hfa).
    rewrite Esr.
    cbn [bsize bbuf blen berr chunks term consumed].
    assert (Hpos : 0 < N.of_nat (length got)).
    { destruct (length got) as [|m] eqn:El; [|lia].
      contradiction Hgot. apply ERB_length_zero_nil. exact El. }
    destruct (0 <? N.of_nat (length got)) eqn:E0; [|lia].
    unfold buf_ok, bstream. cbn [bsize bbuf blen berr chunks term consumed].
    rewrite Ec.
    split; [|split; [|split; [reflexivity|split; [reflexivity|split; [reflexivity|]]]]].
    + split; [rewrite app_length; lia|]. split; [lia|]. split; [exact H16|].
      split; [apply Hfa; exact Hrest|].
      intros e Hx. rewrite He in Hx. discriminate Hx.
    + rewrite <- app_assoc. rewrite Hcat. reflexivity.
    + left. lia.
Qed.

(* ------------------------------------------------------------------ peek_loop *)
Definition ERB_peek_post (b : bufrd) (n : N) (b' : bufrd) : Prop :=
  buf_ok b' /\ bstream b' = bstream b /\ consumed b' = consumed b /\
  bsize b' = bsize b /\ term b' = term b /\
  (n <= blen b' \/ berr b' <> None).

Lemma ERB_peek_loop_stop : forall f b n,
  (n <= blen b \/ berr b <> None) -> peek_loop (S f) b n = Some b.
Proof.
  intros f b n H. cbn [peek_loop].
  destruct (blen b <? n) eqn:E1; cbn [andb]; [|reflexivity].
  destruct (blen b <? bsize b) eqn:E2; cbn [andb]; [|reflexivity].
  destruct (berr b) as [e|] eqn:E3; [reflexivity|].
  destruct H as [H|H]; [lia|contradiction H; reflexivity].
Qed.

Lemma ERB_peek_loop_gen : forall fuel b n,
  buf_ok b -> n <= bsize b ->
  (N.to_nat (n - blen b) + 1 < fuel)%nat ->
  exists b', peek_loop fuel b n = Some b' /\ ERB_peek_post b n b'.
Proof.
  induction fuel as [|f IH]; intros b n Hok Hn Hf; [lia|].
  destruct (blen b <? n) eqn:E1.
  2:{ exists b. split; [apply ERB_peek_loop_stop; left; lia|].
      unfold ERB_peek_post. split; [exact Hok|].
      split; [reflexivity|]. split; [reflexivity|]. split; [reflexivity|].
      split; [reflexivity|]. left; lia. }
  destruct (berr b) as [e|] eqn:E3.
  { exists b. split; [apply ERB_peek_loop_stop; right; rewrite E3; discriminate|].
    unfold ERB_peek_post. split; [exact Hok|].
    split; [reflexivity|]. split; [reflexivity|]. split; [reflexivity|].
    split; [reflexivity|]. right; rewrite E3; discriminate. }
  assert (Hlt : blen b < bsize b) by lia.
  cbn [peek_loop]. rewrite E1, E3.
  destruct (blen b <? bsize b) eqn:E2; [|lia]. cbn [andb].
  unfold bfill. destruct (bsize b <=? blen b) eqn:E4; [lia|].
  destruct (ERB_fill_loop_spec 99 b Hok E3 Hlt)
    as (Hok' & Hst & Hco & Hsz & Htm & Hprog).
  change 100%nat with (S 99).
  remember (fill_loop (S 99) b) as b1 eqn:Eb1.
  destruct Hprog as [Hprog|Hprog].
  - destruct (IH b1 n Hok') as (b' & Hpl & Hpost).
    + rewrite Hsz. exact Hn.
    + lia.
    + exists b'. split; [exact Hpl|].
      destruct Hpost as (P1 & P2 & P3 & P4 & P5 & P6).
      unfold ERB_peek_post.
      split; [exact P1|]. split; [congruence|]. split; [congruence|].
      split; [congruence|]. split; [congruence|exact P6].
  - destruct f as [|f']; [lia|].
    exists b1. split; [apply ERB_peek_loop_stop; right; exact Hprog|].
    unfold ERB_peek_post.
    split; [exact Hok'|]. split; [exact Hst|]. split; [exact Hco|].
    split; [exact Hsz|]. split; [exact Htm|]. right; exact Hprog.
Qed.

Lemma ERB_big_fuel_S : exists f, big_fuel = S f.
Proof.
  unfold big_fuel. destruct (N.to_nat 262144) as [|m] eqn:E; [lia|].
  exists m. reflexivity.
Qed.

Lemma ERB_peek_loop_big : forall b n,
  buf_ok b -> n <= 16 ->
  exists b', peek_loop big_fuel b n = Some b' /\ ERB_peek_post b n b'.
Proof.
  intros b n Hok Hn.
  apply ERB_peek_loop_gen; [exact Hok| |].
  - destruct Hok as (_ & _ & H16 & _). lia.
  - unfold big_fuel. lia.
Qed.

(* ------------------------------------------------------------------ main theorems *)
Theorem bPeek_spec : bPeek_spec_statement.
Proof.
  unfold bPeek_spec_statement. intros b n Hok Hn.
  destruct (ERB_peek_loop_big b n Hok Hn) as (b1 & Hpl & Hpost).
  destruct Hpost as (Hok1 & Hst & Hco & Hsz & Htm & Hex).
  unfold bPeek. rewrite Hpl.
  pose proof Hok1 as Hok1'.
  destruct Hok1' as (Hlen & Hle & H16 & Hne & Herr).
  destruct (bsize b1 <? n) eqn:E1; [lia|].
  destruct (blen b1 <? n) eqn:E2.
  - (* error exit *)
    destruct Hex as [Hex|Hex]; [lia|].
    destruct (berr b1) as [e|] eqn:E3; [|contradiction Hex; reflexivity].
    destruct (Herr e eq_refl) as (Hch & He).
    assert (Hbb : bbuf b1 = bstream b).
    { rewrite <- Hst. unfold bstream. rewrite Hch. cbn [concat]. rewrite app_nil_r. reflexivity. }
    eexists _, _, _, _. split; [reflexivity|].
    unfold buf_ok. cbn [bsize bbuf blen berr chunks term consumed].
    split.
    { split; [exact Hlen|]. split; [exact Hle|]. split; [exact H16|]. split; [exact Hne|].
      intros e0 Hx. discriminate Hx. }
    split; [exact Hst|]. split; [exact Hco|]. split; [exact Hsz|]. split; [exact Htm|].
    split.
    { rewrite <- Hbb. rewrite Hlen, Nat2N.id. rewrite firstn_all. reflexivity. }
    split; [exact Hlen|].
    split; [intros Hx; discriminate Hx|].
    intros e0 Hx. inversion Hx; subst e0.
    split; [lia|]. split; [exact Hbb|]. split; [exact Hch|]. split; [exact Hbb|].
    rewrite <- Htm. exact He.
  - (* success *)
    assert (Hnl : (N.to_nat n <= length (bbuf b1))%nat) by lia.
    eexists _, _, _, _. split; [reflexivity|].
    split; [exact Hok1|].
    split; [exact Hst|]. split; [exact Hco|]. split; [exact Hsz|]. split; [exact Htm|].
    split.
    { rewrite <- Hst. unfold bstream. rewrite ERB_firstn_app_le by exact Hnl. reflexivity. }
    split; [rewrite firstn_length; lia|].
    split; [intros _; reflexivity|].
    intros e0 Hx. discriminate Hx.
Qed.

Theorem bPeek_buffered : bPeek_buffered_statement.
Proof.
  unfold bPeek_buffered_statement. intros b Hok.
  destruct Hok as (Hlen & Hle & H16 & Hne & Herr).
  unfold bPeek, bBuffered.
  destruct ERB_big_fuel_S as (f & Ef). rewrite Ef.
  rewrite ERB_peek_loop_stop by (left; lia).
  destruct (bsize b <? blen b) eqn:E1; [lia|].
  destruct (blen b <? blen b) eqn:E2; [lia|].
  rewrite Hlen at 1. rewrite Nat2N.id, firstn_all. reflexivity.
Qed.

Theorem bDiscard_spec : bDiscard_spec_statement.
Proof.
  unfold bDiscard_spec_statement. intros b n Hok Hn.
  pose proof Hok as Hok'.
  destruct Hok' as (Hlen & Hle & H16 & Hne & Herr).
  unfold bDiscard.
  destruct (n =? 0) eqn:E0.
  - assert (n = 0) by lia. subst n.
    exists b. split; [reflexivity|]. split; [exact Hok|].
    change (N.to_nat 0) with 0%nat. cbn [skipn].
    split; [reflexivity|]. split; [lia|]. repeat split; reflexivity.
  - destruct ERB_big_fuel_S as (f & Ef). rewrite Ef.
    cbn [discard_loop].
    destruct (blen b =? 0) eqn:E1; [lia|].
    replace (N.min (blen b) n) with n by lia.
    cbn [bsize bbuf blen berr chunks term consumed].
    replace (n - n) with 0 by lia.
    change (0 =? 0) with true. cbv iota.
    assert (Hnl : (N.to_nat n <= length (bbuf b))%nat) by lia.
    eexists. split; [reflexivity|].
    unfold buf_ok, bstream. cbn [bsize bbuf blen berr chunks term consumed].
    split.
    { split; [rewrite skipn_length; lia|]. split; [lia|]. split; [exact H16|].
      split; [exact Hne|exact Herr]. }
    split; [rewrite ERB_skipn_app_le by exact Hnl; reflexivity|].
    repeat split; reflexivity.
Qed.

Theorem newbuf_ok : newbuf_ok_statement.
Proof.
  unfold newbuf_ok_statement. intros bufsize cs t Hcs. cbv zeta.
  unfold buf_ok, bstream. cbn [bsize bbuf blen berr chunks term consumed length app].
  split; [|split; reflexivity].
  split; [reflexivity|]. split; [lia|]. split; [lia|]. split; [exact Hcs|].
  intros e Hx. discriminate Hx.
Qed.

Print Assumptions bPeek_spec.
Print Assumptions bPeek_buffered.
Print Assumptions bDiscard_spec.
Print Assumptions newbuf_ok.
