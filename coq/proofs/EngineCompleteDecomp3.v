(* EngineCompleteDecomp3.v -- decomp3 (statement in RModel/EngineCompleteSpecF.v): decomp2 over
   st_sim3 (st_sim2 + the exact "needs input" invariant hdr_need3 at block boundaries), with
   the EEndInput outcome sharpened to end_fact: when the loop reports the end of its input and
   there is no unseen input, the reference on the whole data stops with NeedInput at most two
   bytes after the output of the configuration the final state simulates.
   Same induction on fuel as proofs/EngineCompleteDecomp.v / EngineRefineDecomp.v, whose
   configuration-independent lemmas are reused. *)
From Coq Require Import List NArith ZArith Bool Relations Lia ZifyBool ZifyNat ZifyN.
From Verif Require Import Bits Huffman HuffmanSpec Inflate InflateSpec InflateMono.
From Verif Require Import Base EngineTables Engine EngineRefineSpec EngineRefineSpecBlock
     EngineRefineSpecBlock2 EngineRefineSpecBlock3 EngineRefineSpecHdr EngineRefineSpecNeed
     EngineRefineSpecReach EngineRefineSpecBuf EngineRefineSpecTop EngineRefineSpecFinal
     EngineCompleteSpecA EngineCompleteSpecB EngineCompleteSpecReach EngineCompleteSpecC
     EngineCompleteSpecD EngineCompleteSpecE EngineCompleteSpecF EngineRefineBits.
From Verif Require Import EngineRefineReach EngineRefineDecompErr EngineRefineDecomp
     EngineCompleteDecompErr EngineCompleteDecomp.
Import ListNotations.
Open Scope N_scope.

(* ---------------------------------------------------------------- "needs input for the header"
   excludes "the header parses": a block whose header parses never stops at its own start *)
Lemma ref_need_not_parses B : ref_need B -> ~ hdr_parses B.
Proof.
  intros RN [bf [s1 [bt [s2 [T1 [T2 D]]]]]].
  pose proof (RN (st0 [])) as E. set (st := st0 []) in *.
  unfold block1 in E. rewrite T1, T2 in E. unfold block_body in E.
  pose proof (take_len 1 B) as L1. rewrite T1 in L1.
  pose proof (take_len 2 s1) as L2. rewrite T2 in L2.
  unfold InflateMono.blen in L1, L2.
  destruct D as [-> | [[-> [r [s3 DH]]] | [-> [len [s4 [nlen [s5 [T3 T4]]]]]]]].
  - change (1 =? 0) with false in E. change (1 =? 1) with true in E. cbv iota in E.
    destruct fixed_tries as [[lt dt]|]; [|discriminate].
    destruct (huff_len bf lt dt st s2) as [_ A]. rewrite E in A. cbn [bs_of] in A.
    unfold after, InflateMono.blen in A. lia.
  - change (2 =? 0) with false in E. change (2 =? 1) with false in E.
    change (2 =? 2) with true in E. cbv iota in E.
    pose proof (dyn_header_len s2) as HL. rewrite DH in HL, E. cbn [hlen] in HL.
    destruct r as [lt dt].
    destruct (huff_len bf lt dt st s3) as [_ A]. rewrite E in A. cbn [bs_of] in A.
    unfold after, InflateMono.blen in A, HL. lia.
  - change (0 =? 0) with true in E. cbv iota in E.
    unfold stored_block in E. cbv zeta in E. rewrite T3, T4 in E.
    pose proof (take_len 16 (align s2)) as L3. rewrite T3 in L3.
    pose proof (take_len 16 s4) as L4. rewrite T4 in L4.
    pose proof (blen_align s2) as LA.
    unfold InflateMono.blen in L3, L4, LA.
    destruct (negb (len + nlen =? 65535)); [discriminate|].
    pose proof (stored_len (N.to_nat len) st s5) as SL.
    destruct (stored (N.to_nat len) st s5) as [[st' s6] full]. destruct SL as [_ A].
    unfold after, InflateMono.blen in A.
    destruct (negb full).
    + injection E as _ ES. subst s6. lia.
    + unfold close in E. destruct (bf =? 1); discriminate.
Qed.

(* ---------------------------------------------------------------- runs over whole symbols from
   the same point are comparable (sym1 is a function) *)
Lemma sym_run_cmp lt dt st s a sa ea :
  sym_run lt dt st s a sa ea ->
  forall b sb eb, sym_run lt dt st s b sb eb -> ea = false -> eb = false ->
  sym_run lt dt a sa b sb false \/ sym_run lt dt b sb a sa false.
Proof.
  intros H. induction H as [st s | st s st1 s1 st2 s2 e E H IH | st s st1 s1 E];
    intros b sb eb H2 Ea Eb.
  - subst eb. left. exact H2.
  - subst e. inversion H2 as [st' s' | st' s' st1' s1' st2' s2' e' E' H' | st' s' st1' s1' E'];
      subst.
    + right. eapply sr_step; [exact E | exact H].
    + rewrite E in E'. injection E' as X1 X2. subst st1' s1'.
      exact (IH _ _ _ H' eq_refl eq_refl).
    + discriminate.
  - discriminate.
Qed.

Lemma sym_run_rout (bf : N) lt dt st s st' s' :
  sym_run lt dt st s st' s' false -> exists v, rout st' = v ++ rout st.
Proof.
  intros H. apply (sym_run_rstar bf) in H. exact (rstar_rout _ _ H).
Qed.

Section Decomp3.
Hypothesis HRH : readHeader_refine_body2.
Hypothesis HRN : readHeader_need3_body.
Hypothesis HRJ : readHeader_reject_body.
Hypothesis HDH : decodeHuffman_refine3_statement.
Hypothesis HDO : decodeHuffman_outcome3_body.
Hypothesis HLB : decodeLiteralBlock_refine_statement.
Hypothesis HRI : reach_inv_statement.
Hypothesis HRC : reach_complete_statement.
Hypothesis HSR : reach_sym_run_statement.
Hypothesis HSS : reach_sym_stop_statement.
Hypothesis HBS : reach_block_stop_statement.
Hypothesis HTS : reach_stored_stop_statement.
Variable data : list N.
Variable u : list N.
Local Notation U := (bits_of_bytes u).

Definition err_oc (err : ierr) : Prop := isError err = true -> strict data -> bad data.

Lemma err_oc_triv err : isError err = false -> err_oc err.
Proof. intros A B. rewrite A in B. discriminate. Qed.

Definition loop_post3 (s : inflate) (w : N) (c : rcfg) (r : inflate * arr * N * ierr) : Prop :=
  let '(s', out', w', err) := r in
  (let '(s2, out2, w2) := flush_ov s' out' w' in
   exists c',
     rstar c c' /\ win_rel out2 w2 (cfg_st c') /\ w <= w2 /\ w2 <= outLen + 261 /\
     olen (cfg_st c') = olen (cfg_st c) + (w2 - w) /\
     inputNil s2 = inputNil s /\
     (err <> EPanic -> err <> EFuel -> isError err = false ->
        st_sim3 s2 c' U /\
        qbytes s2 <= qbytes s /\
        (err = ENone \/ err = EEndInput \/ err = EOutputOverflow) /\
        (err = ENone -> phase s2 = phaseStreamEnd) /\
        (phase s2 = phaseDecodingHeader ->
           err = EEndInput /\ r_in (rd s2) = [] /\ r_inlen (rd s2) = 0)) /\
     (err = EEndInput -> u = [] -> end_fact data c')) /\
  err_oc err.

Definition blk_post3 (s : inflate) (w : N) (c : rcfg) (r : inflate * arr * N * ierr) : Prop :=
  let '(s', out', w', err) := r in
  (let '(s2, out2, w2) := flush_ov s' out' w' in
   exists c',
     rstar c c' /\ win_rel out2 w2 (cfg_st c') /\
     olen (cfg_st c') = olen (cfg_st c) + (w2 - w) /\
     w <= w' /\ w' <= outLen /\ w' <= w2 /\ w2 <= outLen + 261 /\
     inputNil s2 = inputNil s /\
     (err = ENone -> s2 = s' /\ out2 = out' /\ w2 = w') /\
     (err <> EPanic -> err <> EFuel -> isError err = false ->
        st_sim3 s2 c' U /\
        qbytes s2 <= qbytes s /\
        (err = ENone \/ err = EEndInput \/ err = EOutputOverflow) /\
        phase s2 <> phaseDecodingHeader) /\
     (err = EEndInput -> u = [] -> end_fact data c')) /\
  err_oc err.

Lemma loop_post3_trans s w c s1 w1 c1 r :
  rstar c c1 -> olen (cfg_st c1) = olen (cfg_st c) + (w1 - w) -> w <= w1 ->
  inputNil s1 = inputNil s -> qbytes s1 <= qbytes s ->
  loop_post3 s1 w1 c1 r -> loop_post3 s w c r.
Proof.
  destruct r as [[[s' out'] w'] err]. unfold loop_post3.
  destruct (flush_ov s' out' w') as [[s2 out2] w2].
  intros R L W I Q [[c' [R' [WR [W1 [W2 [L' [I' [NF EF]]]]]]]] OC]. split; [|exact OC].
  exists c'. split; [eapply rt_trans; eassumption|]. split; [exact WR|].
  split; [lia|]. split; [exact W2|]. split; [lia|]. split; [congruence|].
  split; [|exact EF].
  intros A B C. destruct (NF A B C) as [S1 [Q1 [T [P1 P2]]]].
  split; [exact S1|]. split; [lia|]. split; [exact T|]. split; [exact P1 | exact P2].
Qed.

Lemma loop_post3_ret s s1 out w c err :
  ov s1 = ov0 -> inputNil s1 = inputNil s -> win_rel out w (cfg_st c) -> w <= outLen ->
  (err <> EPanic -> err <> EFuel -> isError err = false ->
     st_sim3 s1 c U /\ qbytes s1 <= qbytes s /\
     (err = ENone \/ err = EEndInput \/ err = EOutputOverflow) /\
     (err = ENone -> phase s1 = phaseStreamEnd) /\
     (phase s1 = phaseDecodingHeader ->
        err = EEndInput /\ r_in (rd s1) = [] /\ r_inlen (rd s1) = 0)) ->
  (err = EEndInput -> u = [] -> end_fact data c) ->
  err_oc err ->
  loop_post3 s w c (s1, out, w, err).
Proof.
  intros OV I WR WL NF EF OC. unfold loop_post3. rewrite (flush_ov_id _ _ _ OV).
  split; [|exact OC].
  exists c. split; [apply rt_refl|]. split; [exact WR|]. split; [lia|].
  split; [unfold outLen in *; lia|]. split; [lia|]. split; [exact I|].
  split; [exact NF | exact EF].
Qed.

(* ---------------------------------------------------------------- readHeader *)
Lemma hdr_step3 st S0 s :
  reach data (CBlock st S0) -> st_sim3 s (CBlock st S0) U ->
  let '(s1, e1) := readHeader s in
  inputNil s1 = inputNil s /\ ov s1 = ov0 /\ hdr_err e1 /\
  (e1 = ENone ->
     qbytes s1 <= qbytes s /\
     exists c1, rstep (CBlock st S0) c1 /\ cfg_st c1 = st /\ st_sim3 s1 c1 U /\ blockish c1) /\
  (e1 = EEndInput ->
     st_sim3 s1 (CBlock st S0) U /\ qbytes s1 <= qbytes s /\ phase s1 = phaseDecodingHeader /\
     r_in (rd s1) = [] /\ r_inlen (rd s1) = 0 /\ (u = [] -> end_fact data (CBlock st S0))) /\
  (e1 = EInvalidBlock -> strict data -> bad data).
Proof.
  intros R [[OV [PH [OK [OKS [ND BL]]]]] ND3].
  assert (AL : ((Z.of_N (bp S0) + r_len (rd s)) mod 8 = 0)%Z).
  { destruct OK as [_ [NN _]].
    eapply (hdr_align HRI EngineRefineDecompErr.readHeader_no_overflow data u); eassumption. }
  pose proof (HRH s U (bp S0) OK OKS AL) as X.
  pose proof (HRN s (bp S0) OK OKS AL ND3) as Y.
  pose proof (readHeader_hdr_err s) as Z.
  pose proof (HRJ s U (bp S0) st OK OKS AL) as J. rewrite <- BL, mkbs_eta in J.
  destruct (readHeader s) as [s1 e1]. cbn [snd] in Z, J.
  destruct X as [[F1 [F2 F3]] [XN XE]]. destruct Y as [YE YN].
  split; [exact F1|]. split; [congruence|]. split; [exact Z|]. split; [|split].
  - intros ->. destruct (XN eq_refl) as [W1 [NN1 [HB1 [HBD1 HR]]]].
    split; [apply YN; reflexivity|].
    rewrite <- BL, mkbs_eta in HR.
    destruct HR as [bf [s1' [bt [s2 [T1 [T2 [BF D]]]]]]].
    pose proof (take1_bit _ _ _ T1) as BFB.
    assert (OV1 : ov s1 = ov0) by congruence.
    destruct D as [[-> [P [lt [dt [FT [TF B2]]]]]]
                  | [[-> [P [lt [dt [s3 [DH [TF B2]]]]]]]
                  | [-> [P [len [s4 [nlen [s5 [T3 [T4 [LN [LBL [B2 M8]]]]]]]]]]]]].
    + exists (CHuff bf lt dt st s2). split; [eapply rs_fixed; eassumption|].
      split; [reflexivity|]. split; [|exact I]. split; [|exact I]. unfold st_sim2.
      repeat match goal with |- _ /\ _ => split end; assumption.
    + exists (CHuff bf lt dt st s3). split; [eapply rs_dyn; eassumption|].
      split; [reflexivity|]. split; [|exact I]. split; [|exact I]. unfold st_sim2.
      repeat match goal with |- _ /\ _ => split end; assumption.
    + exists (CStored bf len len st s5). split; [eapply rs_stored; eassumption|].
      split; [reflexivity|]. split; [|exact I]. split; [|exact I]. unfold st_sim2.
      repeat match goal with |- _ /\ _ => split end; assumption.
  - intros ->. destruct (XE eq_refl) as [OK1 [OKS1 [P1 [LB1 [RI [RL [RB RLEN]]]]]]].
    pose proof (YE eq_refl) as ND3'.
    pose proof (ND3' P1) as RN.
    assert (NP : ~ hdr_parses (mkbs (hbits s1) (bp S0))) by (apply ref_need_not_parses; exact RN).
    split.
    + split; [|exact ND3'].
      unfold st_sim2. split; [congruence|]. split; [right; exact P1|]. split; [exact OK1|].
      split; [exact OKS1|]. split; [intros _; exact NP|]. rewrite LB1. exact BL.
    + split; [unfold qbytes; rewrite RLEN, RL; lia|].
      split; [exact P1|]. split; [exact RI|]. split; [exact RL|].
      (* no unseen input: the staged bits are all there is *)
      intros Hu.
      assert (E : hbits s1 = bl S0).
      { rewrite BL, <- LB1, Hu. change (bits_of_bytes []) with (@nil bool).
        rewrite app_nil_r. unfold lbits, br_bits, lrd, hbits. cbn [r_len r_bits r_in].
        rewrite RI, app_nil_r. reflexivity. }
      rewrite E, mkbs_eta in NP, RN.
      assert (NS : forall c', ~ rstep (CBlock st S0) c').
      { intros c' RS. apply NP. exact (rstep_parses _ _ _ RS). }
      destruct (HBS data st S0 NeedInput R NS (RN st)) as [ST OUT].
      split; [exact ST|]. exists []. cbn [cfg_st]. rewrite app_nil_r.
      split; [exact OUT | cbn [length]; lia].
  - intros -> STR. apply (stuck HRC data _ R).
    + intros st' s' E'. discriminate.
    + apply J; [reflexivity|]. exact (STR st S0 R).
Qed.

(* ---------------------------------------------------------------- the state after a block *)
Lemma sim_next3 s bf st' bs' :
  ov s = ov0 -> bfinal s = bf ->
  phase s = (if bf =? 1 then phaseStreamEnd else phaseNewBlock) ->
  br_wf (rd s) -> (0 <= r_len (rd s))%Z -> headerBuffer s = [] -> headerBuffered s = 0 ->
  bl bs' = br_bits (rd s) ++ U ->
  st_sim3 s (next_block bf st' bs') U.
Proof.
  intros OV BF PH WF NN HB HBD BL.
  split; [apply sim_next2; assumption|].
  unfold next_block. destruct (bf =? 1); [exact I|].
  unfold hdr_need3. rewrite PH. discriminate.
Qed.

(* ---------------------------------------------------------------- decodeHuffman *)
Lemma huff_step3 bf lt dt st S0 s out w :
  reach data (CHuff bf lt dt st S0) ->
  st_sim3 s (CHuff bf lt dt st S0) U -> win_rel out w st -> w <= outLen ->
  blk_post3 s w (CHuff bf lt dt st S0) (decodeHuffman s out w).
Proof.
  intros R [[OV [PH [BF [BFB [TF2 [WF [NN [HB [HBD BL]]]]]]]]] _] WR WL.
  assert (TF : tabs_for (tb s) lt dt) by (apply tabs_for2_1; exact TF2).
  assert (BFS : bfinal s = 0 \/ bfinal s = 1) by (rewrite BF; exact BFB).
  assert (WO0 : writeOverflowLen (ov s) = 0) by (rewrite OV; reflexivity).
  assert (WL0 : writeOverflowLits (ov s) = 0) by (rewrite OV; reflexivity).
  pose proof (HDH s out w lt dt st U (bp S0) WF NN PH BFS WO0 WL0 TF WR WL) as X.
  pose proof (HDO s out w lt dt st (bp S0) WF NN PH BFS OV TF2 WR WL) as O.
  unfold blk_post3. destruct (decodeHuffman s out w) as [[[s' out'] w'] err].
  destruct O as [OE [OI _]].
  split.
  2:{ intros IE _. destruct (OI IE U) as [st' [bs' [a [b [x [RUN [ST _]]]]]]].
      rewrite <- BL, mkbs_eta in RUN.
      exact (huff_stuck HRC data bf lt dt st' bs' a b x
               (HSR data bf lt dt st S0 st' bs' false R RUN) ST). }
  destruct (flush_ov s' out' w') as [[s2 out2] w2] eqn:FL.
  destruct X as [st' [bs' [ended [RUN0 [WR2 [OL [W1 [W2 [W3 [W4 [WO [SS1 [LB1 [SS2 [RD2 [PH2
                 [LB2 [OV2 NF]]]]]]]]]]]]]]]]]].
  rewrite <- BL, mkbs_eta in RUN0. pose proof (sym_run_rstar bf _ _ _ _ _ _ _ RUN0) as RUN.
  set (c' := if ended then next_block bf st' bs' else CHuff bf lt dt st' bs') in *.
  assert (CS : cfg_st c' = st') by (unfold c'; destruct ended; [apply next_st | reflexivity]).
  assert (CB : cfg_bs c' = bs') by (unfold c'; destruct ended; [apply next_bs | reflexivity]).
  destruct SS1 as [I1 [TB1 [BF1 [HBD1 [HB1 _]]]]].
  destruct SS2 as [I2 [TB2 [BF2 [HBD2 [HB2 _]]]]].
  exists c'. split; [exact RUN|]. rewrite CS. split; [exact WR2|]. cbn [cfg_st].
  split; [exact OL|]. split; [exact W1|]. split; [exact W2|]. split; [exact W3|].
  split; [exact W4|]. split; [congruence|]. split; [|split].
  - intros ->. assert (E : w2 = w').
    { destruct (N.lt_ge_cases w' w2) as [Hlt|Hge]; [|lia].
      destruct (WO Hlt) as [Q|[Q|[Q|Q]]]; discriminate. }
    destruct (flush_ov_same _ _ _ _ _ _ FL E) as [E1 E2]. auto.
  - intros A B C. destruct (NF A B C) as [WF' [NN' [BL' [PH' [EN [EE [TRI EO]]]]]]].
    assert (WF2 : br_wf (rd s2)) by (rewrite RD2; exact WF').
    assert (NN2 : (0 <= r_len (rd s2))%Z) by (rewrite RD2; exact NN').
    assert (BL2 : bl bs' = br_bits (rd s2) ++ U) by (rewrite RD2; exact BL').
    assert (HB' : headerBuffer s2 = []) by congruence.
    assert (HBD' : headerBuffered s2 = 0) by congruence.
    assert (BF' : bfinal s2 = bf) by congruence.
    split; [|split; [|split; [exact TRI|]]].
    + unfold c'. destruct ended.
      * apply sim_next3; try assumption. rewrite PH2, PH', BF. reflexivity.
      * split; [|exact I].
        unfold st_sim2. split; [exact OV2|]. split; [rewrite PH2; exact PH'|].
        split; [exact BF'|]. split; [exact BFB|]. split; [rewrite TB2, TB1; exact TF2|].
        repeat match goal with |- _ /\ _ => split end; assumption.
    + apply qbytes_le; try assumption.
      pose proof (rstar_len _ _ RUN) as L. rewrite CB in L. cbn [cfg_bs] in L.
      rewrite BL2, BL, !app_length in L. lia.
    + rewrite PH2, PH'. destruct ended; [destruct (bfinal s =? 1)|]; discriminate.
  - (* end of input with nothing unseen: the reference needs input at most 2 bytes later *)
    intros EE Hu. rewrite EE in *.
    destruct (NF ltac:(discriminate) ltac:(discriminate) eq_refl)
      as [_ [_ [_ [_ [_ [EF _]]]]]].
    pose proof (EF eq_refl) as EN0. unfold c' in *. clear c'. subst ended.
    assert (E : w2 = w').
    { destruct (N.lt_ge_cases w' w2) as [Hlt|Hge]; [|lia].
      destruct (WO Hlt) as [Q|[Q|[Q|Q]]]; discriminate. }
    destruct (OE eq_refl) as [_ [st2 [bs2 [RUN2 [[a [b ST]] OL2]]]]].
    assert (E0 : br_bits (rd s) = bl S0).
    { rewrite BL, Hu. change (bits_of_bytes []) with (@nil bool). rewrite app_nil_r.
      reflexivity. }
    rewrite E0, mkbs_eta in RUN2.
    assert (R1 : reach data (CHuff bf lt dt st' bs'))
      by exact (HSR data bf lt dt st S0 st' bs' false R RUN0).
    assert (R2 : reach data (CHuff bf lt dt st2 bs2))
      by exact (HSR data bf lt dt st S0 st2 bs2 false R RUN2).
    assert (RUN3 : sym_run lt dt st' bs' st2 bs2 false).
    { destruct (sym_run_cmp _ _ _ _ _ _ _ RUN0 _ _ _ RUN2 eq_refl eq_refl) as [H|H];
        [exact H|].
      inversion H as [x y | x y x1 y1 x2 y2 e E' H' | x y x1 y1 E']; subst.
      - apply sr_refl.
      - congruence. }
    destruct (sym_run_rout bf _ _ _ _ _ _ RUN3) as [z' EZ].
    destruct (HRI data _ R1) as [_ [L1 _]]. destruct (HRI data _ R2) as [_ [L2 _]].
    cbv zeta in L1, L2. cbn [cfg_st] in L1, L2.
    destruct (HSS data bf lt dt st2 bs2 a b NeedInput R2 ST) as [STAT OUT].
    cbn [cfg_st].
    split; [exact STAT|]. exists (rev z'). split.
    + rewrite OUT, EZ, !frev_rev, rev_app_distr. reflexivity.
    + rewrite rev_length. rewrite EZ, app_length in L2. lia.
Qed.

(* ---------------------------------------------------------------- decodeLiteralBlock *)
Lemma stored_step3 bf len n st S0 s out w :
  reach data (CStored bf len n st S0) ->
  st_sim3 s (CStored bf len n st S0) U -> win_rel out w st -> w <= outLen ->
  blk_post3 s w (CStored bf len n st S0) (decodeLiteralBlock s out w).
Proof.
  intros R [[OV [PH [BF [BFB [LBL [WF [NN [M8 [HB [HBD BL]]]]]]]]]] _] WR WL.
  destruct (HRI data _ R) as [_ [_ [_ [_ [NL [L64 _]]]]]].
  assert (BFS : bfinal s = 0 \/ bfinal s = 1) by (rewrite BF; exact BFB).
  assert (LT : litBlockLength s < 65536) by (rewrite LBL; lia).
  pose proof (HLB s out w st U (bp S0) WF NN M8 PH BFS WR WL LT) as X.
  unfold blk_post3.
  destruct (decodeLiteralBlock s out w) as [[[s' out'] w'] err] eqn:EDL.
  destruct X as [k [st' [bs' [KL [LB' [W' [WL' [ST [WR' [SS [OV' [E5 NF]]]]]]]]]]]].
  assert (OV1 : ov s' = ov0) by congruence.
  rewrite (flush_ov_id _ _ _ OV1).
  rewrite <- BL, mkbs_eta in ST. rewrite LBL in KL, LB'.
  destruct (stored_rstar bf len (N.to_nat k) n st S0 st' bs' ltac:(lia) ST) as [RS OL].
  rewrite N2Nat.id in RS, OL.
  destruct SS as [I1 [TB1 [BF1 [HBD1 [HB1 _]]]]].
  assert (HB' : headerBuffer s' = []) by congruence.
  assert (HBD' : headerBuffered s' = 0) by congruence.
  assert (BF' : bfinal s' = bf) by congruence.
  assert (QB : br_wf (rd s') -> (0 <= r_len (rd s'))%Z -> bl bs' = br_bits (rd s') ++ U ->
               qbytes s' <= qbytes s).
  { intros WF' NN' BL'. apply qbytes_le; try assumption.
    pose proof (rstar_len _ _ RS) as L. cbn [cfg_bs] in L.
    rewrite BL', BL, !app_length in L. lia. }
  split.
  2:{ intros IE _. destruct E5 as [Q|[Q|[Q|[Q|Q]]]]; rewrite Q in IE; discriminate. }
  (* the block is not complete *)
  assert (NE : err <> ENone ->
    exists c',
      rstar (CStored bf len n st S0) c' /\ win_rel out' w' (cfg_st c') /\
      olen (cfg_st c') = olen (cfg_st (CStored bf len n st S0)) + (w' - w) /\
      w <= w' /\ w' <= outLen /\ w' <= w' /\ w' <= outLen + 261 /\
      inputNil s' = inputNil s /\
      (err = ENone -> s' = s' /\ out' = out' /\ w' = w') /\
      (err <> EPanic -> err <> EFuel -> isError err = false ->
         st_sim3 s' c' U /\ qbytes s' <= qbytes s /\
         (err = ENone \/ err = EEndInput \/ err = EOutputOverflow) /\
         phase s' <> phaseDecodingHeader) /\
      (err = EEndInput -> u = [] -> end_fact data c')).
  { intros N0. exists (CStored bf len (n - k) st' bs'). cbn [cfg_st].
    split; [exact RS|]. split; [exact WR'|]. split; [lia|]. split; [lia|].
    split; [exact WL'|]. split; [lia|]. split; [unfold outLen in *; lia|].
    split; [exact I1|]. split; [intros; contradiction|]. split.
    - intros A B C. destruct (NF A B) as [WF' [NN' [M8' [BL' [EN [ENN [EE EO]]]]]]].
      split.
      { split; [|exact I].
        unfold st_sim2. split; [exact OV1|]. split; [apply ENN; exact N0|].
        repeat match goal with |- _ /\ _ => split end; assumption. }
      split; [apply QB; assumption|].
      split.
      { destruct E5 as [Q|[Q|[Q|[Q|Q]]]]; try contradiction; auto. }
      rewrite (ENN N0). discriminate.
    - intros EE Hu. rewrite EE in *.
      destruct (NF ltac:(discriminate) ltac:(discriminate))
        as [WF' [NN' [M8' [BL' [_ [_ [EI _]]]]]]].
      destruct (EI eq_refl) as [RI RL0].
      pose proof (lit_end_pos _ _ _ _ _ _ EDL) as POS. rewrite LB' in POS.
      assert (BE : bl bs' = []).
      { rewrite BL', Hu. unfold br_bits. rewrite RI, RL0. reflexivity. }
      assert (R' : reach data (CStored bf len (n - k) st' bs'))
        by (eapply rt_trans; [exact R | exact RS]).
      destruct (HTS data bf len (n - k) st' bs' R' POS (take8_nil _ BE)) as [STAT OUT].
      split; [exact STAT|]. exists []. rewrite app_nil_r.
      split; [exact OUT | cbn [length]; lia]. }
  destruct err; try (apply NE; discriminate).
  (* ENone: the block is complete *)
  destruct (NF ltac:(discriminate) ltac:(discriminate)) as [WF' [NN' [M8' [BL' [EN _]]]]].
  destruct (EN eq_refl) as [KN PH'].
  replace (n - k) with 0 in RS by lia.
  exists (next_block bf (sync_upd bf len st' bs') bs'). rewrite next_st, sync_upd_olen.
  cbn [cfg_st].
  split; [eapply rt_trans; [exact RS | apply rt_step, rs_stored_end]|].
  split; [apply win_rel_sync; exact WR'|]. split; [lia|]. split; [lia|].
  split; [exact WL'|]. split; [lia|]. split; [unfold outLen in *; lia|].
  split; [exact I1|]. split; [auto|]. split; [|intros A; discriminate].
  intros _ _ _. split; [|split; [apply QB; assumption|split; [auto|]]].
  - apply sim_next3; try assumption. rewrite PH', BF. reflexivity.
  - rewrite PH'. destruct (bfinal s =? 1); discriminate.
Qed.

(* ---------------------------------------------------------------- the loop *)
Definition P3 (f : nat) : Prop :=
  forall s out w c,
    reach data c -> st_sim3 s c U -> win_rel out w (cfg_st c) -> w <= outLen ->
    loop_post3 s w c (decomp_loop f s out w).

Lemma blk_loop3 f s w c r :
  P3 f -> reach data c -> blk_post3 s w c r ->
  loop_post3 s w c
    (let '(s', out', w', err) := r in
     match err with
     | ENone => decomp_loop f s' out' w'
     | _ => (s', out', w', err)
     end).
Proof.
  intros IH R B. destruct r as [[[s' out'] w'] err]. unfold blk_post3 in B.
  destruct B as [B OC].
  destruct (flush_ov s' out' w') as [[s2 out2] w2] eqn:FL.
  destruct B as [c' [RS [WR [OL [W1 [W2 [W3 [W4 [IN [EN [NF EF]]]]]]]]]]].
  assert (NE : err <> ENone -> loop_post3 s w c (s', out', w', err)).
  { intros N0. unfold loop_post3. rewrite FL. split; [|exact OC]. exists c'.
    split; [exact RS|]. split; [exact WR|]. split; [lia|]. split; [exact W4|].
    split; [exact OL|]. split; [exact IN|]. split; [|exact EF].
    intros A B C. destruct (NF A B C) as [SIM [Q [T PD]]].
    split; [exact SIM|]. split; [exact Q|]. split; [exact T|].
    split; intros; contradiction. }
  destruct err; try (apply NE; discriminate).
  destruct (EN eq_refl) as [E1 [E2 E3]]. subst s2 out2 w2.
  destruct (NF ltac:(discriminate) ltac:(discriminate) eq_refl) as [SIM [Q _]].
  apply (loop_post3_trans s w c s' w' c'); try assumption.
  apply IH; try assumption.
  eapply rt_trans; [exact R | exact RS].
Qed.

Lemma body_ok3 f s out w c :
  P3 f -> reach data c -> st_sim3 s c U -> win_rel out w (cfg_st c) -> w <= outLen ->
  blockish c -> loop_post3 s w c (loop_body f s out w).
Proof.
  intros IH R SIM WR WL B. unfold loop_body.
  destruct c as [st S0 | bf lt dt st S0 | bf len n st S0 | st S0]; try contradiction;
    cbn [cfg_st] in WR.
  - assert (PH : phase s = phaseHeaderDecoded) by (destruct SIM as [[_ [PH _]] _]; exact PH).
    rewrite PH. change (phaseHeaderDecoded =? phaseLitBlock) with false. cbv iota.
    apply (blk_loop3 f s w _ (decodeHuffman s out w)); [exact IH | exact R|].
    apply huff_step3; assumption.
  - assert (PH : phase s = phaseLitBlock) by (destruct SIM as [[_ [PH _]] _]; exact PH).
    rewrite PH. change (phaseLitBlock =? phaseLitBlock) with true. cbv iota.
    apply (blk_loop3 f s w _ (decodeLiteralBlock s out w)); [exact IH | exact R|].
    apply stored_step3; assumption.
Qed.

Lemma loop_ok3 : forall f, P3 f.
Proof.
  induction f as [|f IH]; intros s out w c R SIM WR WL.
  - cbn [decomp_loop]. apply loop_post3_ret; try assumption; try reflexivity.
    + destruct SIM as [[OV _] _]; exact OV.
    + intros _ A. contradiction.
    + intros A. discriminate.
    + apply err_oc_triv; reflexivity.
  - destruct c as [st S0 | bf lt dt st S0 | bf len n st S0 | st S0].
    + (* block boundary: readHeader *)
      assert (PH : phase s = phaseNewBlock \/ phase s = phaseDecodingHeader)
        by (destruct SIM as [[_ [PH _]] _]; exact PH).
      rewrite (dl_block f s out w PH).
      pose proof (hdr_step3 st S0 s R SIM) as X.
      destruct (readHeader s) as [s1 e1].
      destruct X as [I1 [OV1 [HE [XN [XE XI]]]]].
      destruct e1; try (exfalso; exact HE).
      * destruct (XN eq_refl) as [Q [c1 [RS [CS [SIM1 B1]]]]].
        apply (loop_post3_trans s w _ s1 w c1); try assumption.
        -- apply rt_step; exact RS.
        -- rewrite CS. cbn [cfg_st]. lia.
        -- lia.
        -- apply body_ok3; try assumption.
           ++ eapply rt_trans; [exact R | apply rt_step; exact RS].
           ++ rewrite CS. exact WR.
      * destruct (XE eq_refl) as [SIM1 [Q [P1 [RI [RL BU]]]]].
        apply loop_post3_ret; try assumption.
        -- intros _ _ _. split; [exact SIM1|]. split; [exact Q|]. split; [auto|].
           split; [discriminate|]. intros _. auto.
        -- intros _. exact BU.
        -- apply err_oc_triv; reflexivity.
      * apply loop_post3_ret; try assumption.
        -- intros _ _ A. discriminate.
        -- intros A. discriminate.
        -- intros _. exact (XI eq_refl).
      * apply loop_post3_ret; try assumption.
        -- intros A. contradiction.
        -- intros A. discriminate.
        -- apply err_oc_triv; reflexivity.
      * apply loop_post3_ret; try assumption.
        -- intros _ A. contradiction.
        -- intros A. discriminate.
        -- apply err_oc_triv; reflexivity.
    + assert (PH : phase s = phaseHeaderDecoded) by (destruct SIM as [[_ [PH _]] _]; exact PH).
      rewrite (dl_body f s out w (or_introl PH)).
      apply body_ok3; try assumption. exact I.
    + assert (PH : phase s = phaseLitBlock) by (destruct SIM as [[_ [PH _]] _]; exact PH).
      rewrite (dl_body f s out w (or_intror PH)).
      apply body_ok3; try assumption. exact I.
    + assert (PH : phase s = phaseStreamEnd) by (destruct SIM as [[_ [PH _]] _]; exact PH).
      rewrite (dl_end f s out w PH).
      apply loop_post3_ret; try assumption; try reflexivity.
      * destruct SIM as [[OV _] _]; exact OV.
      * intros _ _ _. split; [exact SIM|]. split; [lia|]. split; [auto|].
        split; [intros _; exact PH|]. rewrite PH. discriminate.
      * intros A. discriminate.
      * apply err_oc_triv; reflexivity.
Qed.

End Decomp3.

(* ---------------------------------------------------------------- the theorem *)
Theorem decomp3 : decomp3_statement.
Proof.
  intros HRH HRN HRJ HDH HDO HLB HRI HRC HSR HSS HBS HTS data fuel s out w c u FA R SIM WR WL.
  pose proof (loop_ok3 HRH HRN HRJ HDH HDO HLB HRI HRC HSR HSS HBS HTS data u fuel s out w c
                R SIM WR WL) as X.
  unfold loop_post3 in X.
  destruct (decomp_loop fuel s out w) as [[[s' out'] w'] err].
  destruct (flush_ov s' out' w') as [[s2 out2] w2].
  destruct X as [[c' [RS [WR' [W1 [W2 [OL [IN [NF EF]]]]]]]] OC].
  split; [|exact OC].
  assert (R' : reach data c') by (eapply rt_trans; [exact R | exact RS]).
  exists c'. split; [exact R'|]. split; [exact WR'|]. split; [exact W1|]. split; [exact W2|].
  split; [|split; [exact IN | split; [exact NF | exact EF]]].
  destruct (rstar_rout _ _ RS) as [v E]. exists v. split; [exact E|].
  destruct (HRI data c R) as [_ [L1 _]]. destruct (HRI data c' R') as [_ [L2 _]].
  cbv zeta in L1, L2. rewrite E, app_length in L2. lia.
Qed.

Print Assumptions decomp3.
