(* GzEngineInv.v -- GzEngineSpec.v section D: the decompressor on a shared bufio buffer.
     newReader_on_inv   the invariant holds for flate.NewReader(br), br partly consumed
     dReset_inv         the same for decompressor.Reset(br, _) on a used decompressor
     gz_dRead_ok_from   one Read keeps the invariant; prefix / EOF facts against the reference
                        inflater (from the shift invariance of dRead, section A) *)
From Coq Require Import List NArith ZArith Bool Lia Relations.
From Verif Require Import Bits Huffman Inflate InflateSpec InflateMono.
From Verif Require Import Containers ContainersSpec.
From Verif Require Import Base Engine EngineReset EngineRefineSpec EngineRefineSpecHdr
     EngineRefineSpecNeed EngineRefineSpecBlock EngineRefineSpecBuf EngineRefineSpecReach
     EngineRefineSpecTop EngineRefineSpecFinal EngineRefineTop EngineRefineRun GzEngine
     EngineRefineFinal EngineRefineReach EngineRefineBuf GzEngineSpec.
Import ListNotations.
Open Scope N_scope.

(* ---------------------------------------------------------------- the initial invariant, for
   any state that is inflate0 up to the tables / dynHdr scratch, and any window contents *)
Lemma fresh_run_inv : forall t dy h b,
  buf_ok b -> consumed b = 0 ->
  run_inv (bstream b) []
          (mkD (mkInflate br0 true ov0 t 0 0 0 0 [] dy 0%Z) 0 0 h b None 0 false false).
Proof.
  intros t dy h b B1 B3.
  set (data := bstream b).
  set (f := mkD (mkInflate br0 true ov0 t 0 0 0 0 [] dy 0%Z) 0 0 h b None 0 false false).
  assert (Hdec : dec_inv data [] f).
  { unfold dec_inv, f. cbn [rBuf state writePos readPos hist peekSize].
    split; [exact B1|].
    split; [exists []; cbn [app length]; split; [reflexivity|exact B3]|].
    split; [lia|]. split; [cbv; discriminate|]. split; [cbv; discriminate|].
    exists (rinit data), data.
    split; [apply rt_refl|].
    split.
    { unfold st_sim, rinit. split; [reflexivity|].
      split; [left; reflexivity|].
      split.
      { unfold hdr_ok, lrd, br0.
        cbn [rd r_bits r_len r_in r_inlen headerBuffer headerBuffered phase app].
        split.
        - unfold br_wf, br_bits. cbn [r_bits r_len r_in r_inlen length bits_of_bytes flat_map Z.to_nat bits_of_N app].
          split; [reflexivity|]. split; [lia|]. split; [intros; reflexivity|]. split; [constructor|].
          intros i Hi. rewrite N.bits_0 in Hi. discriminate.
        - split; [lia|]. split; [reflexivity|]. split; [cbv; discriminate|].
          split; [left; reflexivity|intros; reflexivity]. }
      split; [intros Hp; discriminate Hp|].
      split; [intros Hp; discriminate Hp|].
      reflexivity. }
    split.
    { unfold win_rel, rinit, st0. cbn [cfg_st oavail olen rout length].
      split; [reflexivity|]. split; [reflexivity|]. split; [lia|]. split; [left; reflexivity|].
      intros i Hi. lia. }
    split; [reflexivity|].
    cbn [inputNil rd br0 r_in r_inlen r_len].
    split; [reflexivity|]. split; [reflexivity|].
    reflexivity. }
  split.
  - exists (rinit data). split; [apply rt_refl|]. split; [reflexivity|].
    split; [cbn; lia|]. intros H; discriminate H.
  - intros _. exact Hdec.
Qed.

(* b with the counter set back to 0 *)
Definition bzero (b : bufrd) : bufrd :=
  mkBuf (bsize b) (bbuf b) (blen b) (berr b) (chunks b) (term b) 0.

Lemma bzero_ok : forall b, buf_ok b -> buf_ok (bzero b).
Proof. intros b H. exact H. Qed.

Lemma bzero_stream : forall b, bstream (bzero b) = bstream b.
Proof. intros b. reflexivity. Qed.

Lemma bshift_bzero : forall b, bshift (consumed b) (bzero b) = b.
Proof. intros b. destruct b. reflexivity. Qed.

Theorem newReader_on_inv : newReader_on_inv_statement.
Proof.
  intros b Hb.
  exists (newReader_on (bzero b)). split.
  - unfold dshift, set_rBuf, newReader_on.
    cbn [state writePos readPos hist rBuf derr peekSize eof haveBits].
    rewrite bshift_bzero. reflexivity.
  - rewrite <- (bzero_stream b). unfold newReader_on, inflate0.
    apply fresh_run_inv; [apply bzero_ok; exact Hb|reflexivity].
Qed.

Theorem dReset_inv : dReset_inv_statement.
Proof.
  intros d b Hb.
  exists (dReset d (bzero b)). split.
  - unfold dshift, set_rBuf, dReset.
    cbn [state writePos readPos hist rBuf derr peekSize eof haveBits].
    rewrite bshift_bzero. reflexivity.
  - rewrite <- (bzero_stream b). unfold dReset, inflate_reset.
    apply fresh_run_inv; [apply bzero_ok; exact Hb|reflexivity].
Qed.

(* ---------------------------------------------------------------- one Read *)
Lemma consumed_dshift : forall k f, consumed (rBuf (dshift k f)) = consumed (rBuf f) + k.
Proof. intros k f. reflexivity. Qed.

Theorem gz_dRead_ok_from : dRead_shift_statement -> gz_dRead_ok_statement.
Proof.
  intros Hshift base data delivered f p Hdata (f0 & Hf & Hinv).
  subst f. rewrite Hshift.
  unfold bytes_ok in Hdata.
  pose proof (read_loop_ok step_refine data Hdata big_fuel f0 p delivered Hinv) as HR.
  change (dRead f0 p) with (read_loop big_fuel f0 p).
  destruct (read_loop big_fuel f0 p) as [[f1 bytes] r].
  destruct HR as (R0 & RE).
  split; [exists f1; split; [reflexivity|exact R0]|].
  destruct R0 as ((c & R1 & R2 & R3 & R4) & _).
  split.
  - apply is_prefix_trans with (b := frev (rout (cfg_st c))).
    + exists (pending_out f1). symmetry. exact R2.
    + apply reach_out_prefix. exact R1.
  - intros Hr. destruct (RE Hr) as (E1 & E2).
    destruct (R4 E1) as (st & S0 & Hc & Hcons). subst c.
    destruct (reach_done data st S0 R1) as (D1 & D2 & D3).
    split; [exact D1|]. split.
    + rewrite D2. cbn [cfg_st] in R2. rewrite <- R2.
      rewrite (pending_out_nil f1 E2). symmetry. apply app_nil_r.
    + rewrite consumed_dshift, D3, Hcons. apply N.add_comm.
Qed.

Print Assumptions newReader_on_inv.
Print Assumptions dReset_inv.
Print Assumptions gz_dRead_ok_from.
