(* EngineRefineBridge.v -- from "the buffer starts with the code word (cw_match)" to the
   reference decoder on tries (decode_sym), and back.  Generic glue used by M3..M5. *)
From Coq Require Import List NArith ZArith Bool Lia ZifyBool ZifyNat ZifyN.
From Verif Require Import Bits Huffman HuffmanSpec Inflate.
From Verif Require Import Base EngineTables Engine EngineRefineSpec EngineRefineBits.
From Verif Require HuffmanProofs.
Import ListNotations.
Open Scope N_scope.

(* ---------------------------------------------------------------- N_of_bits is injective on
   lists of equal length *)
Lemma N_of_bits_inj : forall l1 l2, length l1 = length l2 -> N_of_bits l1 = N_of_bits l2 -> l1 = l2.
Proof.
  intros l1 l2 Hl He. apply (nth_ext _ _ false false); [exact Hl|].
  intros i _. rewrite <- !testbit_N_of_bits. rewrite He. reflexivity.
Qed.

Lemma code_bits_length : forall len c, length (code_bits len c) = len.
Proof. intros. apply HuffmanProofs.code_bits_length. Qed.

Lemma firstn_app_le : forall (A : Type) (l e : list A) k, (k <= length l)%nat -> firstn k (l ++ e) = firstn k l.
Proof.
  intros A l e k H. rewrite firstn_app. replace (k - length l)%nat with 0%nat by lia.
  cbn [firstn]. apply app_nil_r.
Qed.

(* the buffer starts with the code word and the bits are really there: the stream (with any
   continuation e) starts with the code word *)
Lemma cw_match_stream : forall b len c e,
  br_wf b -> (Z.of_nat len <= r_len b)%Z -> cw_match (r_bits b) len c ->
  br_bits b ++ e = code_bits len c ++ (br_bits (br_drop b (N.of_nat len)) ++ e).
Proof.
  intros b len c e Hwf Hlen Hm.
  destruct (br_drop_bits b (N.of_nat len) Hwf ltac:(lia)) as (D1 & D2 & D3).
  rewrite Nat2N.id in D2, D3.
  unfold cw_match, rcode in Hm.
  assert (Hld : br_loaded (Z.of_N (N.of_nat len)) b) by (right; lia).
  rewrite (peek_bits b (N.of_nat len) Hwf Hld) in Hm.
  rewrite Nat2N.id in Hm. rewrite padded_enough in Hm by exact D3.
  apply N_of_bits_inj in Hm; [|rewrite firstn_length, code_bits_length; lia].
  rewrite D2, <- Hm, app_assoc, firstn_skipn. reflexivity.
Qed.

(* ... hence the reference decodes that symbol *)
Lemma cw_match_decode : forall maxl l t s len c b e p,
  mktrie maxl l = Some t -> In (s, len, c) (canon l) ->
  br_wf b -> (Z.of_nat len <= r_len b)%Z -> cw_match (r_bits b) len c ->
  decode_sym t (mkbs (br_bits b ++ e) p)
  = DOk s (mkbs (br_bits (br_drop b (N.of_nat len)) ++ e) (p + N.of_nat len)).
Proof.
  intros maxl l t s len c b e p Hmk Hin Hwf Hlen Hm.
  rewrite (cw_match_stream b len c e Hwf Hlen Hm).
  apply (HuffmanProofs.decode_encode maxl l t s len c _ p Hmk Hin).
Qed.

(* matching is decidable: either some code word of the list matches or none does *)
Lemma cw_match_dec : forall v len c, {cw_match v len c} + {~ cw_match v len c}.
Proof. intros. unfold cw_match. apply N.eq_dec. Qed.

Lemma canon_match_dec : forall (cl : list (nat * nat * N)) v,
  (exists s len c, In (s, len, c) cl /\ cw_match v len c) \/
  (forall s len c, In (s, len, c) cl -> ~ cw_match v len c).
Proof.
  induction cl as [|[[s len] c] r IH]; intros v.
  - right. intros s len c [].
  - destruct (cw_match_dec v len c) as [H|H].
    + left. exists s, len, c. split; [left; reflexivity|exact H].
    + destruct (IH v) as [(s' & len' & c' & Hin & Hm)|Hn].
      * left. exists s', len', c'. split; [right; exact Hin|exact Hm].
      * right. intros s' len' c' [Heq|Hin].
        -- injection Heq as <- <- <-. exact H.
        -- apply Hn with s'; exact Hin.
Qed.

Lemma xmatch_dec : forall (xc : list (N * nat * N)) v,
  (exists s len val, In (s, len, val) xc /\ xmatch v len val) \/
  (forall s len val, In (s, len, val) xc -> ~ xmatch v len val).
Proof.
  induction xc as [|[[s len] val] r IH]; intros v.
  - right. intros s len val [].
  - destruct (N.eq_dec (N.land v (N.ones (N.of_nat len))) val) as [H|H].
    + left. exists s, len, val. split; [left; reflexivity|exact H].
    + destruct (IH v) as [(s' & len' & c' & Hin & Hm)|Hn].
      * left. exists s', len', c'. split; [right; exact Hin|exact Hm].
      * right. intros s' len' c' [Heq|Hin].
        -- injection Heq as <- <- <-. exact H.
        -- apply Hn with s'; exact Hin.
Qed.

(* ---------------------------------------------------------------- converse: what the trie
   decodes is a code word of canon *)
Lemma tinsert_lookup_inv : forall w t s t' w' s',
  tinsert t w s = Some t' -> HuffmanProofs.tlookup t' w' = Some s' ->
  HuffmanProofs.tlookup t w' = Some s' \/ (w' = w /\ s' = s).
Proof.
  induction w as [|b r IH]; intros t s t' w' s' H L.
  - destruct t; cbn [tinsert] in H; try discriminate. injection H as <-.
    destruct w'; cbn [HuffmanProofs.tlookup] in L; [injection L as <-; right; auto|discriminate].
  - destruct t as [|x|t0 t1]; cbn [tinsert] in H.
    + destruct (tinsert TEmpty r s) as [t2|] eqn:E; [|discriminate]. injection H as <-.
      destruct w' as [|b' r']; [destruct b; cbn in L; discriminate|].
      destruct b, b'; cbn [HuffmanProofs.tlookup] in L.
      * destruct (IH _ _ _ _ _ E L) as [H1|[-> ->]]; [rewrite HuffmanProofs.tlookup_empty in H1; discriminate|right; auto].
      * try rewrite HuffmanProofs.tlookup_empty in L; discriminate.
      * try rewrite HuffmanProofs.tlookup_empty in L; discriminate.
      * destruct (IH _ _ _ _ _ E L) as [H1|[-> ->]]; [rewrite HuffmanProofs.tlookup_empty in H1; discriminate|right; auto].
    + discriminate.
    + destruct b.
      * destruct (tinsert t1 r s) as [t2|] eqn:E; [|discriminate]. injection H as <-.
        destruct w' as [|b' r']; [cbn in L; discriminate|].
        destruct b'; cbn [HuffmanProofs.tlookup] in L |- *.
        -- destruct (IH _ _ _ _ _ E L) as [H1|[-> ->]]; [left; exact H1|right; auto].
        -- left; exact L.
      * destruct (tinsert t0 r s) as [t2|] eqn:E; [|discriminate]. injection H as <-.
        destruct w' as [|b' r']; [cbn in L; discriminate|].
        destruct b'; cbn [HuffmanProofs.tlookup] in L |- *.
        -- left; exact L.
        -- destruct (IH _ _ _ _ _ E L) as [H1|[-> ->]]; [left; exact H1|right; auto].
Qed.

Lemma build_lookup_inv : forall cs t t' w s,
  build cs t = Some t' -> HuffmanProofs.tlookup t' w = Some s ->
  HuffmanProofs.tlookup t w = Some s \/ exists len c, In (s, len, c) cs /\ w = code_bits len c.
Proof.
  induction cs as [|[[s0 len0] c0] r IH]; intros t t' w s H L.
  - cbn [build] in H. injection H as <-. left; exact L.
  - cbn [build] in H. destruct (tinsert t (code_bits len0 c0) s0) as [t1|] eqn:E; [|discriminate].
    destruct (IH _ _ _ _ H L) as [H1|(len & c & Hin & Hw)].
    + destruct (tinsert_lookup_inv _ _ _ _ _ _ E H1) as [H2|[-> ->]].
      * left; exact H2.
      * right. exists len0, c0. split; [left; reflexivity|reflexivity].
    + right. exists len, c. split; [right; exact Hin|exact Hw].
Qed.

(* decode_sym succeeded: the consumed bits are a word of the trie *)
Lemma decode_sym_lookup : forall t l p x s',
  decode_sym t (mkbs l p) = DOk x s' ->
  exists w, l = w ++ bl s' /\ HuffmanProofs.tlookup t w = Some x /\ bp s' = p + N.of_nat (length w).
Proof.
  induction t as [|y|t0 IH0 t1 IH1]; intros l p x s' H; cbn [decode_sym] in H.
  - discriminate.
  - injection H as <- <-. exists []. cbn [app bl bp length HuffmanProofs.tlookup].
    split; [reflexivity|]. split; [reflexivity|]. lia.
  - unfold take1 in H. cbn [bl bp] in H. destruct l as [|b r]; [discriminate|].
    destruct b.
    + destruct (IH1 _ _ _ _ H) as (w & E1 & E2 & E3).
      exists (true :: w). cbn [app HuffmanProofs.tlookup length]. rewrite <- E1.
      split; [reflexivity|]. split; [exact E2|]. lia.
    + destruct (IH0 _ _ _ _ H) as (w & E1 & E2 & E3).
      exists (false :: w). cbn [app HuffmanProofs.tlookup length]. rewrite <- E1.
      split; [reflexivity|]. split; [exact E2|]. lia.
Qed.

Theorem decode_sym_canon : forall maxl l t bits p x s',
  mktrie maxl l = Some t -> decode_sym t (mkbs bits p) = DOk x s' ->
  exists len c, In (x, len, c) (canon l) /\ bits = code_bits len c ++ bl s' /\
                bp s' = p + N.of_nat len.
Proof.
  intros maxl l t bits p x s' Hmk Hd. unfold mktrie in Hmk.
  destruct (oversubscribed maxl l); [discriminate|].
  destruct (decode_sym_lookup _ _ _ _ _ Hd) as (w & E1 & E2 & E3).
  destruct (build_lookup_inv _ _ _ _ _ Hmk E2) as [H|(len & c & Hin & Hw)].
  - cbn in H. destruct w; discriminate.
  - exists len, c. split; [exact Hin|]. subst w. rewrite code_bits_length in E3.
    split; [exact E1|exact E3].
Qed.

(* the stream starts with the code word: the buffer matches *)
Lemma stream_cw_match : forall b len c rest e,
  br_wf b -> br_loaded (Z.of_nat len) b ->
  br_bits b ++ e = code_bits len c ++ rest -> (len <= length (br_bits b))%nat ->
  cw_match (r_bits b) len c.
Proof.
  intros b len c rest e Hwf Hl Heq Hlen. unfold cw_match, rcode.
  assert (Hld : br_loaded (Z.of_N (N.of_nat len)) b) by (rewrite nat_N_Z; exact Hl).
  rewrite (peek_bits b (N.of_nat len) Hwf Hld).
  rewrite Nat2N.id, padded_enough by exact Hlen. f_equal.
  apply (f_equal (firstn len)) in Heq.
  rewrite firstn_app_le in Heq by exact Hlen.
  rewrite firstn_app_le in Heq by (rewrite code_bits_length; lia).
  rewrite Heq. rewrite <- (code_bits_length len c) at 1. apply firstn_all.
Qed.

Print Assumptions cw_match_decode.
Print Assumptions decode_sym_canon.
Print Assumptions stream_cw_match.
