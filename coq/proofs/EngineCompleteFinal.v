(* EngineCompleteFinal.v -- assembly of the completeness side: every component statement
   instantiated with its proof; the top-level theorems erun_kinds and erun_complete
   (statements in RModel/EngineCompleteSpecC.v).  Both take `no_fatal` (no Read result is RPanic
   or RStuck: the memory-safety theorem of proofs/EngineSafety.v) as a premise inside the
   statement; bytes < 256 and non-empty chunks are standing hypotheses. *)
From Coq Require Import List NArith ZArith Bool.
From Verif Require Import Bits Huffman Inflate InflateSpec InflateMono.
From Verif Require Import Base EngineTables Engine.
From Verif Require Import EngineRefineSpec EngineRefineSpecBlock EngineRefineSpecBlock2
     EngineRefineSpecBlock3 EngineRefineSpecHdr EngineRefineSpecReach EngineRefineSpecBuf
     EngineRefineSpecNeed EngineRefineSpecTop EngineRefineSpecFinal
     EngineCompleteSpecA EngineCompleteSpecB EngineCompleteSpecReach EngineCompleteSpecC
     EngineCompleteSpecD EngineCompleteSpecE.
From Verif Require EngineRefineFinal EngineRefineDecomp EngineRefineBuf EngineRefineReach
     EngineRefineHeaderClc EngineRefineHeaderRL EngineRefineHBound
     EngineCompletePad EngineCompleteReach EngineCompleteHeader EngineCompleteSmall
     EngineCompleteGlue EngineCompleteGlue2 EngineCompleteRdHdr EngineCompleteRdHdr2
     EngineCompleteHuffMain EngineCompleteDecomp EngineCompleteTop EngineCompleteRun.
Import ListNotations.
Open Scope N_scope.

Definition canon_pad_final : canon_pad_statement := EngineCompletePad.canon_pad.

(* ---------------------------------------------------------------- headers *)
Theorem setupDynamicHeader_refine2_final : setupDynamicHeader_refine_body2.
Proof.
  exact (EngineCompleteGlue2.setupDynamicHeader_refine2 EngineRefineFinal.M2_gen_clc
           EngineRefineFinal.M2_gen_dist EngineRefineFinal.M3b_gen_litlen
           EngineRefineHeaderClc.codeLenCodes_refine EngineRefineFinal.readLitDistLens_refine_final).
Qed.

Theorem readHeader_refine2_final : readHeader_refine_body2.
Proof.
  exact (EngineCompleteRdHdr2.readHeader_refine2 setupDynamicHeader_refine2_final
           EngineRefineFinal.header_bound_final EngineRefineFinal.prepareForLitBlock_refine_final
           EngineRefineFinal.M3a_static_lit EngineRefineFinal.M3a_static_dist).
Qed.

Theorem setupDynamicHeader_reject_final : setupDynamicHeader_reject_body.
Proof.
  exact (EngineCompleteGlue.setupDynamicHeader_reject_partial canon_pad_final
           EngineRefineFinal.M2_gen_clc EngineRefineFinal.M2_gen_dist EngineRefineFinal.M3b_gen_litlen
           EngineCompleteSmall.gen_dist_error
           EngineRefineHeaderClc.codeLenCodes_refine EngineRefineFinal.readLitDistLens_refine_final
           EngineCompleteHeader.codeLenCodes_reject EngineCompleteHeader.readLitDistLens_reject_partial
           EngineCompleteGlue.dyn_header_lens).
Qed.

Theorem readHeader_reject_final : readHeader_reject_body.
Proof.
  exact (EngineCompleteRdHdr.readHeader_reject
           (EngineCompleteRdHdr.tryDecodeHeader_reject setupDynamicHeader_reject_final
              EngineRefineFinal.setupDynamicHeader_refine
              EngineRefineFinal.prepareForLitBlock_refine_final)).
Qed.

(* ---------------------------------------------------------------- decodeHuffman outcomes *)
Theorem decodeHuffman_outcome2_final : decodeHuffman_outcome2_body.
Proof. exact (EngineCompleteHuffMain.decodeHuffman_outcome2 canon_pad_final). Qed.

(* ---------------------------------------------------------------- blocks, step, runs *)
Theorem decomp2_final : decomp_body2.
Proof.
  exact (EngineCompleteDecomp.decomp2 readHeader_refine2_final EngineRefineFinal.readHeader_need_final
           readHeader_reject_final EngineRefineFinal.decodeHuffman_refine_final
           decodeHuffman_outcome2_final EngineRefineFinal.decodeLiteralBlock_refine_final
           EngineRefineReach.reach_inv EngineRefineReach.reach_complete
           EngineCompleteReach.reach_sym_run).
Qed.

Theorem step_complete_final :
  forall data delivered f,
    Forall (fun x => x < 256) data ->
    dec_inv2 data delivered f -> readPos f = writePos f -> derr f = None ->
    let '(f', r) := step f in step_post2 data delivered f f' r.
Proof.
  exact (EngineCompleteTop.step_complete decomp2_final EngineRefineDecomp.decomperss_flush
           EngineRefineBuf.bPeek_spec EngineRefineBuf.bPeek_buffered EngineRefineBuf.bDiscard_spec
           EngineRefineReach.reach_inv).
Qed.

(* (B) the kind of the final result of a run *)
Theorem erun_kinds : erun_kinds_statement.
Proof.
  exact (EngineCompleteRun.erun_kinds_from_step step_complete_final EngineRefineBuf.newbuf_ok
           EngineRefineReach.reach_out_prefix EngineRefineReach.reach_done).
Qed.

(* (C) completeness on strict streams *)
Theorem erun_complete : erun_complete_statement.
Proof. exact (EngineCompleteRun.erun_complete_from_kinds erun_kinds EngineRefineFinal.erun_sound). Qed.

Print Assumptions erun_kinds.
Print Assumptions erun_complete.
