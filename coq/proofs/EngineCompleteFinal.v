(* EngineCompleteFinal.v -- assembly of the completeness side: every component statement
   instantiated with its proof; the top-level theorems erun_kinds and erun_complete
   (statements in RModel/EngineCompleteSpecC.v).  Both take `no_fatal` (no Read result is RPanic
   or RStuck: the memory-safety theorem of proofs/EngineSafety.v) as a premise inside the
   statement; bytes < 256 and non-empty chunks are standing hypotheses. *)
From Coq Require Import List NArith ZArith Bool.
From Verif Require Import Bits Huffman Inflate InflateSpec InflateMono.
From Verif Require Import Base EngineTables Engine.
From Verif Require Import EngineRefineSpec EngineRefineSpecBlock EngineRefineSpecBlock2
     EngineRefineSpecBlock3 EngineRefineSpecHdr EngineRefineSpecReach EngineRefineSpecBuf
     EngineRefineSpecNeed EngineRefineSpecTop EngineRefineSpecFinal
     EngineCompleteSpecA EngineCompleteSpecB EngineCompleteSpecReach EngineCompleteSpecC
     EngineCompleteSpecD EngineCompleteSpecE EngineCompleteSpecF EngineCompleteSpecG.
From Verif Require EngineRefineFinal EngineRefineDecomp EngineRefineBuf EngineRefineReach
     EngineRefineHeaderClc EngineRefineHeaderRL EngineRefineHBound
     EngineCompletePad EngineCompleteReach EngineCompleteHeader EngineCompleteSmall
     EngineCompleteGlue EngineCompleteGlue2 EngineCompleteRdHdr EngineCompleteRdHdr2
     EngineCompleteHuffMain EngineCompleteDecomp EngineCompleteTop EngineCompleteRun
     EngineCompleteHeaderNeed3 EngineCompleteGlue3 EngineCompleteRdHdr3 EngineCompleteHuff3
     EngineCompleteDecomp3 EngineCompleteTop3 EngineCompleteRun3 EngineCompleteSmallFit
     EngineRefineRdHdrA EngineCompleteStd.
Import ListNotations.
Open Scope N_scope.

Definition canon_pad_final : canon_pad_statement := EngineCompletePad.canon_pad.

(* ---------------------------------------------------------------- headers *)
Theorem setupDynamicHeader_refine2_final : setupDynamicHeader_refine_body2.
Proof.
  exact (EngineCompleteGlue2.setupDynamicHeader_refine2 EngineRefineFinal.M2_gen_clc
           EngineRefineFinal.M2_gen_dist EngineRefineFinal.M3b_gen_litlen
           EngineRefineHeaderClc.codeLenCodes_refine EngineRefineFinal.readLitDistLens_refine_final).
Qed.

Theorem readHeader_refine2_final : readHeader_refine_body2.
Proof.
  exact (EngineCompleteRdHdr2.readHeader_refine2 setupDynamicHeader_refine2_final
           EngineRefineFinal.header_bound_final EngineRefineFinal.prepareForLitBlock_refine_final
           EngineRefineFinal.M3a_static_lit EngineRefineFinal.M3a_static_dist).
Qed.

Theorem setupDynamicHeader_reject_final : setupDynamicHeader_reject_body.
Proof.
  exact (EngineCompleteGlue.setupDynamicHeader_reject_partial canon_pad_final
           EngineRefineFinal.M2_gen_clc EngineRefineFinal.M2_gen_dist EngineRefineFinal.M3b_gen_litlen
           EngineCompleteSmall.gen_dist_error
           EngineRefineHeaderClc.codeLenCodes_refine EngineRefineFinal.readLitDistLens_refine_final
           EngineCompleteHeader.codeLenCodes_reject EngineCompleteHeader.readLitDistLens_reject_partial
           EngineCompleteGlue.dyn_header_lens).
Qed.

Theorem readHeader_reject_final : readHeader_reject_body.
Proof.
  exact (EngineCompleteRdHdr.readHeader_reject
           (EngineCompleteRdHdr.tryDecodeHeader_reject setupDynamicHeader_reject_final
              EngineRefineFinal.setupDynamicHeader_refine
              EngineRefineFinal.prepareForLitBlock_refine_final)).
Qed.

(* ---------------------------------------------------------------- decodeHuffman outcomes *)
Theorem decodeHuffman_outcome2_final : decodeHuffman_outcome2_body.
Proof. exact (EngineCompleteHuffMain.decodeHuffman_outcome2 canon_pad_final). Qed.

(* ---------------------------------------------------------------- blocks, step, runs *)
Theorem decomp2_final : decomp_body2.
Proof.
  exact (EngineCompleteDecomp.decomp2 readHeader_refine2_final EngineRefineFinal.readHeader_need_final
           readHeader_reject_final EngineRefineFinal.decodeHuffman_refine_final
           decodeHuffman_outcome2_final EngineRefineFinal.decodeLiteralBlock_refine_final
           EngineRefineReach.reach_inv EngineRefineReach.reach_complete
           EngineCompleteReach.reach_sym_run).
Qed.

Theorem step_complete_final :
  forall data delivered f,
    Forall (fun x => x < 256) data ->
    dec_inv2 data delivered f -> readPos f = writePos f -> derr f = None ->
    let '(f', r) := step f in step_post2 data delivered f f' r.
Proof.
  exact (EngineCompleteTop.step_complete decomp2_final EngineRefineDecomp.decomperss_flush
           EngineRefineBuf.bPeek_spec EngineRefineBuf.bPeek_buffered EngineRefineBuf.bDiscard_spec
           EngineRefineReach.reach_inv).
Qed.

(* (B) the kind of the final result of a run *)
Theorem erun_kinds : erun_kinds_statement.
Proof.
  exact (EngineCompleteRun.erun_kinds_from_step step_complete_final EngineRefineBuf.newbuf_ok
           EngineRefineReach.reach_out_prefix EngineRefineReach.reach_done).
Qed.

(* (C) completeness on strict streams *)
Theorem erun_complete : erun_complete_statement.
Proof. exact (EngineCompleteRun.erun_complete_from_kinds erun_kinds EngineRefineFinal.erun_sound). Qed.

(* ---------------------------------------------------------------- exact end-of-input facts *)
Theorem setupDynamicHeader_need3_final : setupDynamicHeader_need3_body.
Proof.
  exact (EngineCompleteGlue3.setupDynamicHeader_need3 canon_pad_final EngineRefineFinal.M2_gen_clc
           EngineRefineHeaderClc.codeLenCodes_refine
           EngineCompleteHeaderNeed3.codeLenCodes_need3 EngineCompleteHeaderNeed3.readLitDistLens_need3).
Qed.

Theorem readHeader_need3_final : readHeader_need3_body.
Proof.
  exact (EngineCompleteRdHdr3.readHeader_need3
           (EngineCompleteRdHdr3.tryDecodeHeader_need3 setupDynamicHeader_need3_final)
           EngineRefineRdHdrA.tryDecodeHeader_refine EngineRefineFinal.header_bound_final
           EngineRefineFinal.setupDynamicHeader_refine EngineRefineFinal.prepareForLitBlock_refine_final
           EngineRefineFinal.M3a_static_lit EngineRefineFinal.M3a_static_dist).
Qed.

Theorem decomp3_final : decomp_body3.
Proof.
  exact (EngineCompleteDecomp3.decomp3 readHeader_refine2_final readHeader_need3_final
           readHeader_reject_final EngineRefineFinal.decodeHuffman_refine_final
           EngineCompleteHuff3.decodeHuffman_outcome3 EngineRefineFinal.decodeLiteralBlock_refine_final
           EngineRefineReach.reach_inv EngineRefineReach.reach_complete
           EngineCompleteReach.reach_sym_run EngineCompleteReach.reach_sym_stop
           EngineCompleteReach.reach_block_stop EngineCompleteReach.reach_stored_stop).
Qed.

(* (B), exact form, and the progress fact for C11: see erun_kinds3_statement *)
Theorem erun_kinds3 : erun_kinds3_statement.
Proof.
  exact (EngineCompleteRun3.erun_kinds3_from_step
           (EngineCompleteTop3.step_complete3 decomp3_final EngineRefineDecomp.decomperss_flush
              EngineRefineBuf.bPeek_spec EngineRefineBuf.bPeek_buffered EngineRefineBuf.bDiscard_spec
              EngineRefineReach.reach_inv)
           EngineRefineBuf.newbuf_ok EngineRefineReach.reach_out_prefix EngineRefineReach.reach_done).
Qed.

(* complete distance codes (and codes without long words) are strict *)
Definition dist_fits_complete_final := EngineCompleteSmallFit.dist_fits_complete.
Definition dist_fits_short_final : dist_fits_short_statement := EngineCompleteSmall.dist_fits_short.

(* engine-independent strictness: every dynamic block has a complete distance code or one
   without code words longer than 10 bits *)
Definition strict_std_final : strict_std_statement := EngineCompleteStd.strict_std.

(* (C) in its most readable form *)
Theorem erun_complete_std :
  forall data cs bufsize t reads,
    Forall (fun x => x < 256) data -> concat cs = data -> Forall (fun c => c <> []) cs ->
    status (Inflate.inflate [] data) = Done -> std_stream data ->
    enough_reads data reads ->
    let '(l, ncons) := erun_ext bufsize cs t reads in
    no_fatal l ->
    In REOF (map snd l) /\
    results_bytes l = out (Inflate.inflate [] data) /\
    ncons = (bitpos (Inflate.inflate [] data) + 7) / 8.
Proof.
  intros data cs bufsize t reads Hd Hc Hn Hdn Hstd Her.
  exact (erun_complete data cs bufsize t reads Hd Hc Hn Hdn (strict_std_final data Hdn Hstd) Her).
Qed.

Print Assumptions erun_kinds.
Print Assumptions erun_complete_std.
Print Assumptions erun_kinds3.
Print Assumptions erun_complete.
