(* Bits.v — bytes, LSB-first bit strings (RFC 1951 section 3.1.1).  Independent of fastgo. *)
From Coq Require Export List NArith Arith Bool.
Export ListNotations.
Open Scope N_scope.

(* linear-time reverse (List.rev is quadratic); rev_alt : rev l = rev_append l [] *)
Definition frev {A} (l : list A) : list A := rev_append l [].

Definition byte := N.                    (* invariant: < 256 *)

(* the n low bits of v, least significant first *)
Fixpoint bits_of_N (n : nat) (v : N) : list bool :=
  match n with
  | O => []
  | S n' => N.odd v :: bits_of_N n' (N.div2 v)
  end.

Fixpoint N_of_bits (l : list bool) : N :=
  match l with
  | [] => 0
  | b :: r => (if b then 1 else 0) + 2 * N_of_bits r
  end.

Definition bits_of_bytes (l : list byte) : list bool := flat_map (bits_of_N 8) l.

(* pack bits into bytes, the last byte zero-padded *)
Fixpoint bytes_of_bits_fuel (fuel : nat) (l : list bool) : list byte :=
  match fuel with
  | O => []
  | S f =>
    match l with
    | [] => []
    | _ => N_of_bits (firstn 8 l) :: bytes_of_bits_fuel f (skipn 8 l)
    end
  end.
Definition bytes_of_bits (l : list bool) : list byte := bytes_of_bits_fuel (S (length l)) l.

(* A bit stream with its absolute position. *)
Record bs := mkbs { bl : list bool; bp : N }.

Definition bs_of_bytes (l : list byte) : bs := mkbs (bits_of_bytes l) 0.

Definition take1 (s : bs) : option (bool * bs) :=
  match bl s with
  | [] => None
  | b :: r => Some (b, mkbs r (bp s + 1))
  end.

(* n bits as a number, LSB first *)
Fixpoint take (n : nat) (s : bs) : option (N * bs) :=
  match n with
  | O => Some (0, s)
  | S n' =>
    match take1 s with
    | None => None
    | Some (b, s1) =>
      match take n' s1 with
      | None => None
      | Some (v, s2) => Some ((if b then 1 else 0) + 2 * v, s2)
      end
    end
  end.

(* drop the bits up to the next byte boundary *)
Definition align (s : bs) : bs :=
  let k := (8 - bp s mod 8) mod 8 in
  mkbs (skipn (N.to_nat k) (bl s)) (bp s + k).
