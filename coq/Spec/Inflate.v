(* Inflate.v — a reference inflater written from RFC 1951 alone.  It plays the role of
   "an independent reference inflater" in the properties.  It is permissive in one
   respect only: an incomplete Huffman code is accepted and is an error only when an
   unassigned bit pattern is actually met (this is an upper bound on what any inflater
   may accept; Go's compress/flate, which rejects incomplete codes, is the lower bound).

   The result reports the maximal output (every element that is wholly present is decoded),
   the bit position after the last complete element, the largest back-reference distance
   and the sync points (empty stored blocks). *)
From Verif Require Export Huffman.
Open Scope N_scope.

Inductive istatus := Done | NeedInput | Corrupt | Fuel.

Record ostate := mkost {
  rout : list byte;        (* output so far, newest first *)
  olen : N;                (* its length *)
  oavail : N;              (* olen + dictionary length *)
  omax : N;                (* largest distance used *)
  osyncs : list (N * N)    (* (output length, byte offset) after each empty stored block, newest first *)
}.

Record ires := mkires {
  out : list byte;
  status : istatus;
  bitpos : N;
  maxdist : N;
  syncs : list (N * N)
}.

Definition len_table : list (N * N) :=
  [(3,0);(4,0);(5,0);(6,0);(7,0);(8,0);(9,0);(10,0);(11,1);(13,1);(15,1);(17,1);
   (19,2);(23,2);(27,2);(31,2);(35,3);(43,3);(51,3);(59,3);(67,4);(83,4);(99,4);(115,4);
   (131,5);(163,5);(195,5);(227,5);(258,0)].

Definition dist_table : list (N * N) :=
  [(1,0);(2,0);(3,0);(4,0);(5,1);(7,1);(9,2);(13,2);(17,3);(25,3);(33,4);(49,4);
   (65,5);(97,5);(129,6);(193,6);(257,7);(385,7);(513,8);(769,8);(1025,9);(1537,9);
   (2049,10);(3073,10);(4097,11);(6145,11);(8193,12);(12289,12);(16385,13);(24577,13)].

Definition push (b : byte) (st : ostate) : ostate :=
  mkost (b :: rout st) (olen st + 1) (oavail st + 1) (omax st) (osyncs st).

(* Copy len bytes from distance d (1 <= d <= available history): the source is the last d
   bytes, repeated as often as needed (RFC 1951 3.2.3: the copy may overlap itself). *)
Fixpoint copy_cyc (seg cur : list byte) (len : nat) (st : ostate) : ostate :=
  match len with
  | O => st
  | S l =>
    match cur with
    | b :: cur' => copy_cyc seg cur' l (push b st)
    | [] =>
      match seg with
      | [] => st
      | b :: s' => copy_cyc seg s' l (push b st)
      end
    end
  end.

Definition copy_match (len d : N) (st : ostate) : ostate :=
  let seg := frev (firstn (N.to_nat d) (rout st)) in
  let st' := copy_cyc seg seg (N.to_nat len) st in
  mkost (rout st') (olen st') (oavail st') (N.max (omax st) d) (osyncs st').

(* what happened to one block *)
Inductive bres :=
| BEnd (st : ostate) (s : bs)            (* end-of-block code seen *)
| BStop (st : ostate) (s : bs) (e : istatus).

(* Decode the symbols of a compressed block.  s always points at an element boundary. *)
Fixpoint symbols (fuel : nat) (lt dt : trie) (st : ostate) (s : bs) : bres :=
  match fuel with
  | O => BStop st s Fuel
  | S f =>
    match decode_sym lt s with
    | DNeed => BStop st s NeedInput
    | DBad => BStop st s Corrupt
    | DOk sym s1 =>
      if (sym <? 256)%nat then symbols f lt dt (push (N.of_nat sym) st) s1
      else if (sym =? 256)%nat then BEnd st s1
      else
        match nth_error len_table (sym - 257) with
        | None => BStop st s Corrupt                      (* 286, 287 *)
        | Some (lbase, lextra) =>
          match take (N.to_nat lextra) s1 with
          | None => BStop st s NeedInput
          | Some (le, s2) =>
            match decode_sym dt s2 with
            | DNeed => BStop st s NeedInput
            | DBad => BStop st s Corrupt
            | DOk dsym s3 =>
              match nth_error dist_table dsym with
              | None => BStop st s Corrupt                (* 30, 31 *)
              | Some (dbase, dextra) =>
                match take (N.to_nat dextra) s3 with
                | None => BStop st s NeedInput
                | Some (de, s4) =>
                  let d := dbase + de in
                  if oavail st <? d then BStop st s Corrupt   (* before the start of the data *)
                  else symbols f lt dt (copy_match (lbase + le) d st) s4
                end
              end
            end
          end
        end
    end
  end.

Definition fixed_lit_lens : lens :=
  repeat 8%nat 144 ++ repeat 9%nat 112 ++ repeat 7%nat 24 ++ repeat 8%nat 8.
Definition fixed_dist_lens : lens := repeat 5%nat 32.    (* 30 and 31 never valid: dist_table *)

Definition clen_order : list nat := [16;17;18;0;8;7;9;6;10;5;11;4;12;3;13;2;14;1;15]%nat.

Inductive hres (A : Type) := HOk (a : A) (s : bs) | HStop (e : istatus).
Arguments HOk {A}. Arguments HStop {A}.

(* n three-bit code lengths *)
Fixpoint read_clens (n : nat) (s : bs) : hres (list nat) :=
  match n with
  | O => HOk [] s
  | S n' =>
    match take 3 s with
    | None => HStop NeedInput
    | Some (v, s1) =>
      match read_clens n' s1 with
      | HOk l s2 => HOk (N.to_nat v :: l) s2
      | HStop e => HStop e
      end
    end
  end.

Fixpoint scatter (order : list nat) (vals : list nat) (acc : list nat) : list nat :=
  match order, vals with
  | o :: order', v :: vals' => scatter order' vals' (upd o v acc)
  | _, _ => acc
  end.

(* The hlit+hdist code lengths, run-length coded with the code length code.
   acc is newest first; total is the number still to read. *)
Fixpoint read_lens (fuel : nat) (ct : trie) (total : nat) (acc : list nat) (s : bs) : hres (list nat) :=
  match total with
  | O => HOk (frev acc) s
  | _ =>
    match fuel with
    | O => HStop Fuel
    | S f =>
      match decode_sym ct s with
      | DNeed => HStop NeedInput
      | DBad => HStop Corrupt
      | DOk sym s1 =>
        if (sym <? 16)%nat then read_lens f ct (total - 1) (sym :: acc) s1
        else
          let '(ebits, base, what) :=
            if (sym =? 16)%nat then (2%nat, 3%nat, hd_error acc)
            else if (sym =? 17)%nat then (3%nat, 3%nat, Some 0%nat)
            else (7%nat, 11%nat, Some 0%nat) in
          match take ebits s1 with
          | None => HStop NeedInput
          | Some (e, s2) =>
            let n := (base + N.to_nat e)%nat in
            match what with
            | None => HStop Corrupt                         (* repeat with nothing to repeat *)
            | Some v =>
              if (total <? n)%nat then HStop Corrupt       (* run past the declared count *)
              else read_lens f ct (total - n) (repeat v n ++ acc) s2
            end
          end
      end
    end
  end.

Definition dyn_header (s : bs) : hres (trie * trie) :=
  match take 5 s with None => HStop NeedInput | Some (hlit, s1) =>
  match take 5 s1 with None => HStop NeedInput | Some (hdist, s2) =>
  match take 4 s2 with None => HStop NeedInput | Some (hclen, s3) =>
  if (29 <? hlit) || (29 <? hdist) then HStop Corrupt else
  match read_clens (N.to_nat hclen + 4) s3 with
  | HStop e => HStop e
  | HOk cl s4 =>
    let clens := scatter clen_order cl (repeat 0%nat 19) in
    match mktrie 7 clens with
    | None => HStop Corrupt
    | Some ct =>
      let nlit := (N.to_nat hlit + 257)%nat in
      let ndist := (N.to_nat hdist + 1)%nat in
      match read_lens (nlit + ndist) ct (nlit + ndist) [] s4 with
      | HStop e => HStop e
      | HOk all s5 =>
        let ll := firstn nlit all in
        let dl := skipn nlit all in
        if (nth 256 ll 0 =? 0)%nat then HStop Corrupt      (* no end-of-block code *)
        else
          match mktrie 15 ll, mktrie 15 dl with
          | Some lt, Some dt => HOk (lt, dt) s5
          | _, _ => HStop Corrupt
          end
      end
    end
  end end end end.

(* stored bytes: copy as many of the n bytes as are present *)
Fixpoint stored (n : nat) (st : ostate) (s : bs) : ostate * bs * bool :=
  match n with
  | O => (st, s, true)
  | S n' =>
    match take 8 s with
    | None => (st, s, false)
    | Some (b, s1) => stored n' (push b st) s1
    end
  end.

Definition fixed_tries : option (trie * trie) :=
  match mktrie 15 fixed_lit_lens, mktrie 15 fixed_dist_lens with
  | Some a, Some b => Some (a, b)
  | _, _ => None
  end.

Definition finish (st : ostate) (s : bs) (e : istatus) : ires :=
  (* the dictionary (oavail - olen bytes at the front of the history) is not part of the output *)
  mkires (skipn (N.to_nat (oavail st - olen st)) (frev (rout st))) e (bp s) (omax st) (frev (osyncs st)).

Fixpoint blocks (fuel : nat) (st : ostate) (s : bs) : ires :=
  match fuel with
  | O => finish st s Fuel
  | S f =>
    match take 1 s with None => finish st s NeedInput | Some (bfinal, s1) =>
    match take 2 s1 with None => finish st s NeedInput | Some (btype, s2) =>
    let after (r : bres) : ires :=
      match r with
      | BStop st' s' e => finish st' s' e
      | BEnd st' s' => if bfinal =? 1 then finish st' s' Done else blocks f st' s'
      end in
    if btype =? 0 then
      let s3 := align s2 in
      match take 16 s3 with None => finish st s NeedInput | Some (len, s4) =>
      match take 16 s4 with None => finish st s NeedInput | Some (nlen, s5) =>
        if negb (len + nlen =? 65535) then finish st s Corrupt
        else
          let '(st', s6, full) := stored (N.to_nat len) st s5 in
          if negb full then finish st' s6 NeedInput
          else
            let st'' := if (len =? 0) && (bfinal =? 0)
                        then mkost (rout st') (olen st') (oavail st') (omax st')
                                   ((olen st', bp s6 / 8) :: osyncs st')
                        else st' in
            if bfinal =? 1 then finish st'' s6 Done else blocks f st'' s6
      end end
    else if btype =? 1 then
      match fixed_tries with
      | None => finish st s Corrupt
      | Some (lt, dt) => after (symbols (S (length (bl s2))) lt dt st s2)
      end
    else if btype =? 2 then
      match dyn_header s2 with
      | HStop NeedInput => finish st s NeedInput
      | HStop e => finish st s e
      | HOk (lt, dt) s3 => after (symbols (S (length (bl s3))) lt dt st s3)
      end
    else finish st s Corrupt
    end end
  end.

Definition inflate (dict : list byte) (data : list byte) : ires :=
  let s := bs_of_bytes data in
  let st := mkost (frev dict) 0 (N.of_nat (length dict)) 0 [] in
  blocks (S (length (bl s))) st s.
