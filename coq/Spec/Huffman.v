(* Huffman.v — canonical Huffman codes as defined by RFC 1951 section 3.2.2, and a
   decoder that follows the definition (a binary trie of the assigned codes).
   Independent of fastgo. *)
From Verif Require Export Bits.
Open Scope N_scope.

(* A length vector: index = symbol, 0 = symbol not used. *)
Definition lens := list nat.

Definition count_len (l : lens) (b : nat) : N :=
  N.of_nat (count_occ Nat.eq_dec l b).

(* Kraft sum scaled by 2^maxl :  sum over used symbols of 2^(maxl - len) *)
Fixpoint kraft (maxl : nat) (l : lens) : N :=
  match l with
  | [] => 0
  | x :: r => (if Nat.eqb x 0 then 0 else 2 ^ N.of_nat (maxl - x)) + kraft maxl r
  end.

Definition oversubscribed (maxl : nat) (l : lens) : bool := 2 ^ N.of_nat maxl <? kraft maxl l.
Definition complete (maxl : nat) (l : lens) : bool := kraft maxl l =? 2 ^ N.of_nat maxl.

(* RFC 1951 3.2.2 step 2: smallest code of each length; bl_count[0] is taken as 0 *)
Fixpoint first_code (l : lens) (b : nat) : N :=
  match b with
  | O => 0
  | S b' => 2 * (first_code l b' + (if Nat.eqb b' 0 then 0 else count_len l b'))
  end.

Definition upd {A} (i : nat) (v : A) (l : list A) : list A :=
  firstn i l ++ match skipn i l with [] => [] | _ :: r => v :: r end.

(* step 3: consecutive values within each length, in symbol order.
   Result: (symbol, length, code value). *)
Fixpoint assign (l : lens) (sym : nat) (nc : list N) : list (nat * nat * N) :=
  match l with
  | [] => []
  | x :: r =>
    if Nat.eqb x 0 then assign r (S sym) nc
    else let c := nth x nc 0 in (sym, x, c) :: assign r (S sym) (upd x (c + 1) nc)
  end.

Definition canon (l : lens) : list (nat * nat * N) :=
  assign l 0%nat (map (first_code l) (seq 0 17)).

(* Huffman codes are packed starting with the most significant bit *)
Definition code_bits (len : nat) (c : N) : list bool := frev (bits_of_N len c).

Inductive trie := TEmpty | TLeaf (s : nat) | TNode (l r : trie).

Fixpoint tinsert (t : trie) (code : list bool) (s : nat) : option trie :=
  match code with
  | [] => match t with TEmpty => Some (TLeaf s) | _ => None end
  | b :: r =>
    match t with
    | TLeaf _ => None
    | TEmpty =>
      match tinsert TEmpty r s with
      | None => None
      | Some t' => Some (if b then TNode TEmpty t' else TNode t' TEmpty)
      end
    | TNode t0 t1 =>
      if b then match tinsert t1 r s with None => None | Some t' => Some (TNode t0 t') end
      else match tinsert t0 r s with None => None | Some t' => Some (TNode t' t1) end
    end
  end.

Fixpoint build (cs : list (nat * nat * N)) (t : trie) : option trie :=
  match cs with
  | [] => Some t
  | (s, len, c) :: r =>
    match tinsert t (code_bits len c) s with
    | None => None
    | Some t' => build r t'
    end
  end.

(* None: the lengths are not a prefix code (over-subscribed).  An incomplete code is
   accepted; its unassigned bit patterns stay TEmpty. *)
Definition mktrie (maxl : nat) (l : lens) : option trie :=
  if oversubscribed maxl l then None else build (canon l) TEmpty.

Inductive dres (A : Type) := DOk (a : A) (s : bs) | DNeed | DBad.
Arguments DOk {A}. Arguments DNeed {A}. Arguments DBad {A}.

(* Read bits until a code of the trie is matched. *)
Fixpoint decode_sym (t : trie) (s : bs) : dres nat :=
  match t with
  | TEmpty => DBad                       (* unassigned code *)
  | TLeaf x => DOk x s
  | TNode t0 t1 =>
    match take1 s with
    | None => DNeed
    | Some (b, s') => decode_sym (if b then t1 else t0) s'
    end
  end.
