(* HuffmanSpec.v — statements about canonical Huffman codes (proofs in proofs/HuffmanProofs.v). *)
From Verif Require Export Huffman.
Open Scope N_scope.

(* (a) Whenever the trie of a length vector can be built, decoding the code word of a used
   symbol followed by anything gives back that symbol and leaves exactly the rest. *)
Definition decode_encode_statement : Prop :=
  forall (maxl : nat) (l : lens) (t : trie) (s len : nat) (c : N) (rest : list bool) (p : N),
    mktrie maxl l = Some t -> In (s, len, c) (canon l) ->
    decode_sym t (mkbs (code_bits len c ++ rest) p) = DOk s (mkbs rest (p + N.of_nat len)).

(* every used symbol has exactly one entry in canon, with its own length *)
Definition canon_complete_statement : Prop :=
  forall (l : lens) (s : nat), (nth s l 0 <> 0)%nat ->
    exists c, In (s, nth s l 0%nat, c) (canon l).

(* (b) Kraft's inequality is sufficient: a length vector with all lengths <= maxl <= 16 that is
   not over-subscribed has a canonical prefix code, i.e. its trie can be built. *)
Definition kraft_sufficient_statement : Prop :=
  forall (maxl : nat) (l : lens), (maxl <= 16)%nat ->
    Forall (fun x => (x <= maxl)%nat) l -> oversubscribed maxl l = false ->
    exists t, mktrie maxl l = Some t.

(* a successful decode consumes at least one bit unless the trie is a single leaf, and the
   trie built from a length vector is never a single leaf *)
Definition decode_consumes_statement : Prop :=
  forall (maxl : nat) (l : lens) (t : trie) (s : bs) (x : nat) (s' : bs),
    mktrie maxl l = Some t -> decode_sym t s = DOk x s' ->
    exists k, (0 < k)%nat /\ bl s = firstn k (bl s) ++ bl s' /\ bp s' = bp s + N.of_nat k /\ length (bl s) = (k + length (bl s'))%nat.
