(* InflateSpec.v — statements about the reference inflater that the reader properties rest on
   (proofs in proofs/InflateMono.v).  Everything here is independent of fastgo. *)
From Verif Require Export Inflate.
Open Scope N_scope.

Definition is_prefix {A} (a b : list A) : Prop := exists u, b = a ++ u.

(* The fuel given by `inflate` is always enough: status Fuel is never returned. *)
Definition inflate_never_fuel_statement : Prop :=
  forall dict s, status (inflate dict s) <> Fuel.

(* Prefix monotonicity: what the inflater makes of s ++ t extends what it makes of s.
   - a complete stream stays complete, with the same output, length and facts, whatever follows;
   - corrupt input stays corrupt with the same output;
   - when more input is needed, the output so far is a prefix of the output on any extension,
     and the position reached does not move backwards. *)
Definition inflate_mono_statement : Prop :=
  forall dict s t,
    let r1 := inflate dict s in
    let r2 := inflate dict (s ++ t) in
    match status r1 with
    | Done => r2 = r1
    | Corrupt => status r2 = Corrupt /\ out r2 = out r1 /\ bitpos r2 = bitpos r1
    | NeedInput => is_prefix (out r1) (out r2) /\ bitpos r1 <= bitpos r2 /\ maxdist r1 <= maxdist r2
    | Fuel => False
    end.

(* Consequences used by the reader model *)
Definition inflate_done_length_statement : Prop :=
  forall dict s, status (inflate dict s) = Done ->
    bitpos (inflate dict s) <= 8 * N.of_nat (length s).

(* the stream really ends where bitpos says: cutting the input after the last byte that
   bitpos touches gives the same result *)
Definition inflate_done_exact_statement : Prop :=
  forall dict s, status (inflate dict s) = Done ->
    let n := N.to_nat ((bitpos (inflate dict s) + 7) / 8) in
    inflate dict (firstn n s) = inflate dict s.

(* running out of input means that a bit beyond the end was needed: a completion of the
   stream ends strictly after the last whole byte that was available *)
Definition inflate_need_statement : Prop :=
  forall dict s t,
    status (inflate dict s) = NeedInput -> status (inflate dict (s ++ t)) = Done ->
    8 * N.of_nat (length s) < bitpos (inflate dict (s ++ t)).
