(* Extraction of the executable specifications and models to OCaml.
   Only the directives of ExtrOcamlBasic are used (bool, option, unit, list, prod, sumbool,
   sumor mapped to OCaml's own types; andb/orb inlined).  No Extract Constant / Extract
   Inductive of our own: N, Z, positive and nat stay Coq's inductive types. *)
From Coq Require Import Extraction ExtrOcamlBasic.
From Verif Require Import Inflate Compressor Reader Checked Containers Oracle ContainerW Engine.
Extraction Language OCaml.
Extraction "model.ml" inflate wrun_checked rrun gz_read zl_read orun cwrun erun_obs.
