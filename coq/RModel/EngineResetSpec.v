(* EngineResetSpec.v -- STATEMENTS (to be proved elsewhere) about the reuse of a Reader through
   Reset: "a reused Reader is indistinguishable from a new one", for the model (RModel/Engine.v +
   RModel/EngineReset.v) -- and, by the differential tests, for the Go code.  Only the regression
   example at the end is proved here (by computation).

   History.  Until /repo commit 93d504a the unconditional statement was FALSE, in the model and
   in the Go code alike: encodeLongCodes filled the entries of a literal/length long-code group
   that some code reaches but did not clear the others, so with an incomplete code a lookup
   landing in such a hole returned what an earlier table (an earlier block, or the previous
   stream through Reset) had left in litLenTable.longCodeLookup; a new Reader found 0 there
   (= invalid symbol = CorruptInputError).  Example (regress.txt entry 5, the streams at the end
   of this file): new Reader ("a", corrupt@73), reused Reader ("aZ", EOF).  93d504a clears each
   group before it is filled (as genForDists and GenerateForHeader already did), Engine.v
   follows (encodeLongCodes), and the statement is now made without side condition.  On 4000
   generated reuse cases (families of harness-engine/reset.go, including 300+ second streams
   that walk into such holes) the real reused Reader is never distinguishable from a new one
   any more, and model and code agree on all of them.

   Why it is true (guide for the proof).

   After dReset f rb the state differs from newReader's in exactly: hist, tb (4 tables), dyn (9
   scratch arrays).  Everything else is reset to the initial value; of the fields that Reset
   clears, peekSize, eof, bfinal, litBlockLength and the four overflow fields are dead anyway
   (overwritten before they are read, resp. always 0 between two steps), and a stale haveBits
   would only cost one empty step.  The surviving parts, one by one:

   hist      Every read of hist is at an index < writePos (Read: [readPos, writePos); a match
             copies from written - dist with dist <= written checked; the slide copies
             [readPos-32768, readPos) down; the overflow copy reads below idx), writePos restarts
             at 0, and writePos only ever moves over positions written in the same step (literal
             stores, byteCopy, copy_list, the 4-byte overflow store followed by idx += len <= 3
             and the overflow copy; a rollback only moves written back).  Invariant:
             the two hist agree on [0, writePos) -- inside huff_outer/huff_inner/
             decodeLiteralBlock: on [0, w).
   litShort  Rebuilt completely before use: phase = NewBlock after Reset, so readHeader runs
             before any decodeHuffman; setupStaticHeader replaces all four tables;
             genForLitLen clears [0, copySize) and then doubles up to 4096 (or returns aempty),
             so all 4096 entries are determined by the new code.
   distShort Same argument in gen_small (1024 entries; aempty when there is no code).
   distLong  Only reached through a flagged distShort entry (base | maxLength<<11 | flag) at
             base + (bits & ones maxLength) >> 10 < base + 2^(maxLength-10): inside the group,
             which gen_small clears (forN lcl clrEnd) before filling.  Entries outside the groups
             of the current code are stale but unreachable.
   litLong   Reached the same way (base + (bits & ones maxLen) >> 12, inside the group of the
             flagged litShort entry), and since 93d504a encodeLongCodes clears the group
             (forN lcl (lcl + grp)) before filling it.  Stale entries outside the groups of the
             current code are unreachable.
   dyn       litAndDistHuff, litCount, distCount, litExpandCount: reset to aempty at the top of
             setupDynamicHeader.  clcShort: rebuilt completely by gen_small true (code-length
             codes have at most 7 bits: never a flagged entry, so clcLong is never read nor
             written).  nextCode: entries 0..15 all written by setAndExpandLitLenHuffCode
             before calcCodeForLit reads them (code lengths <= 15).  lenHuffCodes: entries
             0..28 all copied before expandLenCodes reads them.  codeList: the slots
             [0, litCount[22]) are each written once by calcCodeForLit/expandLenCodes (the
             prefix sums in litExpandCount count exactly the expanded symbols that
             readLitDistLens booked) before genForLitLen reads them; slots beyond are not read.
   So the natural proof is a simulation: a relation between a reused and a new decompressor
   (equal on all live fields; hist equal below writePos; litShort/distShort equal whenever
   phase = HeaderDecoded, clcShort after codeLenCodes; long tables equal on the groups of the
   current code) preserved by step, hence by dRead and erun_loop.  A convenient weakening of
   "tables equal whenever used": compare the *lookups* -- litlen_decode, dist_decode and
   clc_decode return the same result in both states for every bit buffer. *)
From Coq Require Import List NArith ZArith Bool.
From Verif Require Import Base Engine EngineReset.
Import ListNotations.
Open Scope N_scope.

(* ---------------------------------------------------------------- the statement *)
(* A reused Reader is indistinguishable from a new one: whatever happened in phase 1 (stream
   valid, truncated, corrupt, abandoned anywhere -- with undelivered output, with header bytes
   staged, inside a stored block, at the window boundary --; any bufio size, delivery schedule,
   terminal, Read sizes, Reads after the error), the observations of phase 2 and the number of
   bytes consumed from the second source are those of a new Reader.  No condition on byte values
   or buffer sizes is needed (newReader/mkbufrd take max bufsize 16 themselves). *)
Definition reset_equiv_statement : Prop :=
  forall (bufsize1 : N) (chunks1 : list (list N)) (term1 : terminal) (reads1 : list N)
         (bufsize2 : N) (chunks2 : list (list N)) (term2 : terminal) (reads2 : list N),
    let '(_, l2, n2) := erun2 bufsize1 chunks1 term1 reads1 bufsize2 chunks2 term2 reads2 in
    (l2, n2) = erun_ext bufsize2 chunks2 term2 reads2.

(* the same for the line-protocol entry points *)
Definition reset_equiv_statement_obs : Prop :=
  forall (bufsize1 : N) (chunks1 : list (list N)) (term1 : bool) (reads1 : list N)
         (bufsize2 : N) (chunks2 : list (list N)) (term2 : bool) (reads2 : list N),
    let '(_, l2, n2) := erun2_obs bufsize1 chunks1 term1 reads1 bufsize2 chunks2 term2 reads2 in
    (l2, n2) = erun_obs bufsize2 chunks2 term2 reads2.

(* Corollary worth stating on its own: the history of the first stream is dead.  A second
   stream whose run on a new Reader ends in RCorrupt (e.g. a back-reference before its own first
   byte) ends in the same RCorrupt on the reused Reader, after the same bytes. *)

(* ---------------------------------------------------------------- optional decomposition *)
(* Still true and possibly convenient as stepping stones (they were the whole truth before the
   fix): phase 2 is the run of a new Reader whose litLong starts as the table phase 1 left
   behind; and the initial litLong of a new Reader does not matter. *)
Definition reset_equiv_modulo_litLong : Prop :=
  forall (bufsize1 : N) (chunks1 : list (list N)) (term1 : terminal) (reads1 : list N)
         (bufsize2 : N) (chunks2 : list (list N)) (term2 : terminal) (reads2 : list N),
    let '(_, l2, n2) := erun2 bufsize1 chunks1 term1 reads1 bufsize2 chunks2 term2 reads2 in
    (l2, n2) = erunL_ext (litLong_after bufsize1 chunks1 term1 reads1) bufsize2 chunks2 term2 reads2.

Definition litLong_irrelevant : Prop :=
  forall (L : arr) bufsize cs t reads,
    erunL_ext L bufsize cs t reads = erun_ext bufsize cs t reads.

(* ---------------------------------------------------------------- regression example (proved) *)
(* first stream: one final dynamic block, literal/length code {'a':1, 256:2, 'Y':14, 'Z':14},
   data "a"; second stream: code {'a':1, 256:2, 'b':14}, data: 'a', then the 12-bit prefix of
   the long codes followed by the two bits that 'Z' had in the first code, then end-of-block.
   Before 93d504a the reused Reader answered ("aZ", EOF). *)
Definition cex_stream1 : list N := [
   5; 192; 1; 8; 0; 0; 0; 128; 36; 0; 0; 0; 0; 0; 0; 0; 0; 0; 0; 0;
   0; 0; 0; 0; 0; 0; 0; 0; 0; 0; 0; 30; 0; 4; 0; 0; 0; 0; 0; 0;
   0; 0; 0; 0; 0; 0; 0; 0; 0; 0; 0; 0; 0; 0; 0; 0; 0; 0; 0; 0;
   0; 0; 0; 0; 0; 0; 0; 0; 0; 0; 0; 0; 128; 16].
Definition cex_stream2 : list N := [
   5; 192; 1; 8; 0; 0; 0; 128; 36; 0; 0; 0; 0; 0; 0; 0; 0; 0; 0; 0;
   0; 0; 0; 0; 0; 0; 0; 0; 0; 0; 0; 0; 0; 28; 0; 0; 0; 0; 0; 0;
   0; 0; 0; 0; 0; 0; 0; 0; 0; 0; 0; 0; 0; 0; 0; 0; 0; 0; 0; 0;
   0; 0; 0; 0; 0; 0; 0; 0; 0; 0; 0; 0; 128; 48; 0; 6].

Example reset_regression_entry5 :
  erun_ext 4096 [cex_stream2] TEOF [100; 100]
    = ([([97], RCorrupt 73)], 74)
  /\ erun2 4096 [cex_stream1] TEOF [100; 100] 4096 [cex_stream2] TEOF [100; 100]
    = ([([97], REOF); ([], REOF)], [([97], RCorrupt 73)], 74).
Proof. vm_compute. split; reflexivity. Qed.
