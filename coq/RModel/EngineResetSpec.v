(* EngineResetSpec.v -- STATEMENTS (to be proved elsewhere) about the reuse of a Reader through
   Reset: "a reused Reader is indistinguishable from a new one", in the form that holds for the
   model (RModel/Engine.v + RModel/EngineReset.v) -- and, by the differential tests, for the Go
   code.  Only the last theorem of this file (a computed counterexample) is proved here.

   THE UNCONDITIONAL STATEMENT IS FALSE (model and Go code alike).  One part of the old state
   survives Reset observably: the literal/length long-code table litLenTable.longCodeLookup
   (tb.litLong).  genForLitLen/encodeLongCodes fill the entries of a long-code group that some
   code reaches but never clear the others; with an incomplete literal/length code whose long
   codes leave holes, a lookup that lands in a hole returns whatever an earlier table (an earlier
   block of the same stream, or the previous stream: the static table's copy included) left
   there.  A new Reader finds 0 there (= invalid symbol = CorruptInputError).  See
   reset_is_observable at the end: a new Reader answers ("a", Corrupt) on the second stream, the
   reused one ("aZ", EOF), 'Z' being an entry of the first stream's table.
   (genForDists and GenerateForHeader do clear their groups: no such leak for distTable/clcTable.)

   What IS true, and why (guide for the proof):

   After dReset f rb the state differs from newReader's in exactly: hist, tb (4 tables), dyn (9
   scratch arrays).  Everything else is reset to the initial value; of the fields that Reset
   clears, peekSize, eof, bfinal, litBlockLength and the four overflow fields are dead anyway
   (overwritten before they are read, resp. always 0 between two steps), and a stale haveBits
   would only cost one empty step.  The surviving parts, one by one:

   hist      Every read of hist is at an index < writePos (Read: [readPos, writePos); a match
             copies from written - dist with dist <= written checked; the slide copies
             [readPos-32768, readPos) down; the overflow copy reads below idx), writePos restarts
             at 0, and writePos only ever moves over positions written in the same step (literal
             stores, byteCopy, copy_list, the 4-byte overflow store followed by idx += len <= 3
             and the overflow copy; a rollback only moves written back).  Invariant:
             the two hist agree on [0, writePos) -- inside huff_outer/huff_inner/
             decodeLiteralBlock: on [0, w).
   litShort  Rebuilt completely before use: phase = NewBlock after Reset, so readHeader runs
             before any decodeHuffman; setupStaticHeader replaces all four tables;
             genForLitLen clears [0, copySize) and then doubles up to 4096 (or returns aempty),
             so all 4096 entries are determined by the new code.
   distShort Same argument in gen_small (1024 entries; aempty when there is no code).
   distLong  Only reached through a flagged distShort entry (base | maxLength<<11 | flag) at
             base + (bits & ones maxLength) >> 10 < base + 2^(maxLength-10): inside the group,
             which gen_small clears (forN lcl clrEnd) before filling.  Entries outside the groups
             of the current code are stale but unreachable.
   litLong   Reached the same way (base + (bits & ones maxLen) >> 12, inside the group), but
             encodeLongCodes does NOT clear the group: holes are stale.  This is the leak.
   dyn       litAndDistHuff, litCount, distCount, litExpandCount: reset to aempty at the top of
             setupDynamicHeader.  clcShort: rebuilt completely by gen_small true (code-length
             codes have at most 7 bits: never a flagged entry, so clcLong is never read nor
             written).  nextCode: entries 0..15 all written by setAndExpandLitLenHuffCode
             before calcCodeForLit reads them (code lengths <= 15).  lenHuffCodes: entries
             0..28 all copied before expandLenCodes reads them.  codeList: the slots
             [0, litCount[22]) are each written once by calcCodeForLit/expandLenCodes (the
             prefix sums in litExpandCount count exactly the expanded symbols that
             readLitDistLens booked) before genForLitLen reads them; slots beyond are not read.
   So the natural proof is a simulation: a relation between a reused and a new decompressor
   (equal on all live fields; hist equal below writePos; litShort/distShort/clcShort equal
   whenever phase = HeaderDecoded resp. after codeLenCodes; long tables equal on the groups of the
   current code except for litLong holes) preserved by step, hence by dRead and erun_loop.
   Statement 1 keeps litLong as a parameter, which makes it exact; statement 2 says when that
   parameter cannot matter. *)
From Coq Require Import List NArith ZArith Bool.
From Verif Require Import Base Engine EngineReset.
Import ListNotations.
Open Scope N_scope.

(* ---------------------------------------------------------------- 1. exact, unconditional *)
(* Phase 2 of a reused Reader is the run of a new Reader whose literal/length long-code table
   starts as the one phase 1 left behind: nothing else of phase 1 is observable (not its output
   in hist, not its other tables, not its staged header bytes, not its error). *)
Definition reset_equiv_modulo_litLong : Prop :=
  forall (bufsize1 : N) (chunks1 : list (list N)) (term1 : terminal) (reads1 : list N)
         (bufsize2 : N) (chunks2 : list (list N)) (term2 : terminal) (reads2 : list N),
    let '(_, l2, n2) := erun2 bufsize1 chunks1 term1 reads1 bufsize2 chunks2 term2 reads2 in
    (l2, n2) = erunL_ext (litLong_after bufsize1 chunks1 term1 reads1) bufsize2 chunks2 term2 reads2.
(* (If the codeList argument above cannot be completed, the fallback is the same statement with
   the old codeList as a second parameter of the new Reader.) *)

(* erunL_ext with the all-zero table is erun_ext *)
Definition erunL_zero : Prop :=
  forall bufsize cs t reads, erunL_ext aempty bufsize cs t reads = erun_ext bufsize cs t reads.

(* ---------------------------------------------------------------- 2. the initial litLong is
   irrelevant unless the new Reader reports corrupt input *)
(* Two runs that differ only in the initial litLong coincide until the first lookup of a litLong
   entry that has not been written since the start; the run from the all-zero table reads 0
   there, which is the invalid symbol: that step ends with EInvalidSymbol and the Reader reports
   RCorrupt once its pending output is drained. *)
Definition is_corrupt (r : rres) : bool := match r with RCorrupt _ => true | _ => false end.
Definition no_corrupt (l : list (list N * rres)) : Prop :=
  forallb (fun br => negb (is_corrupt (snd br))) l = true.
(* the run went to the end of the stream: its last result is an error other than Corrupt
   (EOF, UnexpectedEOF, source error, ...) *)
Definition ran_to_end (l : list (list N * rres)) : Prop :=
  match rev l with
  | (_, ROk) :: _ => False
  | (_, RCorrupt _) :: _ => False
  | [] => False
  | _ => True
  end.

(* observations only: for any read list *)
Definition litLong_irrelevant_obs : Prop :=
  forall (L : arr) bufsize cs t reads,
    no_corrupt (fst (erun_ext bufsize cs t reads)) ->
    fst (erunL_ext L bufsize cs t reads) = fst (erun_ext bufsize cs t reads).
(* observations and consumed bytes, when the run reaches the end of the stream (with reads
   exhausted earlier the reused Reader may already have decoded further than the new one) *)
Definition litLong_irrelevant_full : Prop :=
  forall (L : arr) bufsize cs t reads,
    ran_to_end (fst (erun_ext bufsize cs t reads)) ->
    erunL_ext L bufsize cs t reads = erun_ext bufsize cs t reads.

(* ---------------------------------------------------------------- 3. the statement *)
(* A reused Reader is indistinguishable from a new one on every second stream that a new Reader
   does not report as corrupt -- whatever happened in phase 1 (stream valid, truncated, corrupt,
   abandoned anywhere; any bufio size, delivery schedule, terminal, Read sizes).  No condition
   on byte values or buffer sizes is needed (newReader/mkbufrd take max bufsize 16 themselves). *)
Definition reset_equiv_statement : Prop :=
  forall (bufsize1 : N) (chunks1 : list (list N)) (term1 : terminal) (reads1 : list N)
         (bufsize2 : N) (chunks2 : list (list N)) (term2 : terminal) (reads2 : list N),
    let '(l, n) := erun_ext bufsize2 chunks2 term2 reads2 in
    let '(_, l2, n2) := erun2 bufsize1 chunks1 term1 reads1 bufsize2 chunks2 term2 reads2 in
    (no_corrupt l -> l2 = l) /\ (ran_to_end l -> n2 = n).

(* the same for the line-protocol entry points (result code 3 = Corrupt) *)
Definition reset_equiv_statement_obs : Prop :=
  forall (bufsize1 : N) (chunks1 : list (list N)) (term1 : bool) (reads1 : list N)
         (bufsize2 : N) (chunks2 : list (list N)) (term2 : bool) (reads2 : list N),
    let '(l, n) := erun_obs bufsize2 chunks2 term2 reads2 in
    let '(_, l2, n2) := erun2_obs bufsize1 chunks1 term1 reads1 bufsize2 chunks2 term2 reads2 in
    forallb (fun br => negb (snd br =? 3)) l = true -> l2 = l.

(* reset_equiv_statement follows from 1, erunL_zero and 2.  Also expected to hold, as a
   corollary of 1: an early back-reference in the second stream never yields bytes of the first
   one (hist is dead): it is RCorrupt exactly as for a new Reader, unless the long-code leak
   strikes first. *)

(* ---------------------------------------------------------------- counterexample (proved) *)
(* first stream: one final dynamic block, literal/length code {'a':1, 256:2, 'Y':14, 'Z':14},
   data "a"; second stream: code {'a':1, 256:2, 'b':14}, data: 'a', then the 12-bit prefix of
   the long codes followed by the two bits that 'Z' had in the first code, then end-of-block. *)
Definition cex_stream1 : list N := [
   5; 192; 1; 8; 0; 0; 0; 128; 36; 0; 0; 0; 0; 0; 0; 0; 0; 0; 0; 0;
   0; 0; 0; 0; 0; 0; 0; 0; 0; 0; 0; 30; 0; 4; 0; 0; 0; 0; 0; 0;
   0; 0; 0; 0; 0; 0; 0; 0; 0; 0; 0; 0; 0; 0; 0; 0; 0; 0; 0; 0;
   0; 0; 0; 0; 0; 0; 0; 0; 0; 0; 0; 0; 128; 16].
Definition cex_stream2 : list N := [
   5; 192; 1; 8; 0; 0; 0; 128; 36; 0; 0; 0; 0; 0; 0; 0; 0; 0; 0; 0;
   0; 0; 0; 0; 0; 0; 0; 0; 0; 0; 0; 0; 0; 28; 0; 0; 0; 0; 0; 0;
   0; 0; 0; 0; 0; 0; 0; 0; 0; 0; 0; 0; 0; 0; 0; 0; 0; 0; 0; 0;
   0; 0; 0; 0; 0; 0; 0; 0; 0; 0; 0; 0; 128; 48; 0; 6].

Theorem reset_is_observable :
  erun_ext 4096 [cex_stream2] TEOF [100; 100]
    = ([([97], RCorrupt 73)], 74)
  /\ erun2 4096 [cex_stream1] TEOF [100; 100] 4096 [cex_stream2] TEOF [100; 100]
    = ([([97], REOF); ([], REOF)], [([97; 90], REOF)], 76).
Proof. vm_compute. split; reflexivity. Qed.
