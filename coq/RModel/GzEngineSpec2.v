(* GzEngineSpec2.v -- second layer of statements about the gzip / zlib reader model
   (RModel/GzEngine.v): the theorems of GzEngineSpec.v generalised from "NewReader on a new
   bufio.Reader" to "Reset of ANY Reader onto ANY bufio.Reader state", with the position in which
   the source is left.  Consequences: no over-read (the source is left exactly behind the trailer
   of the last member read), Reader reuse, and member-by-member walks with Multistream(false) +
   Reset.  Proofs: proofs/GzEngineSound2.v, proofs/GzEngineZl2.v, proofs/GzEngineTop2.v. *)
From Coq Require Import List NArith ZArith Bool.
From Verif Require Import Bits Huffman Inflate InflateSpec.
From Verif Require Import Containers ContainersSpec.
From Verif Require Import Base Engine EngineReset EngineRefineSpecBuf GzEngine GzEngineSpec.
Import ListNotations.
Open Scope N_scope.

(* ================================================================ gzip: Reset of any Reader *)
(* z.Reset(b) for any Reader value z (new, used, failed) and any bufio.Reader state b whose
   remaining stream is s = bstream b; then Multistream(multi) and the Reads.  R = gz_read multi s.
   As gz_sound_statement, plus: when a Read returns io.EOF the buffer is left holding exactly
   g_left R (Multistream(false): what follows the trailer of the first member; Multistream(true):
   nothing), and the bytes consumed are exactly those before it. *)
Definition gz_sound_gen_statement : Prop :=
  forall z b multi reads,
    buf_ok b -> bytes_ok (bstream b) ->
    let s := bstream b in
    let R := gz_read multi s in
    let '(z1, e0) := gzReset z b in
    let '(l, z2) := gz_reads_g (gzMultistream z1 multi) reads [] in
    z_err z1 = e0 /\
    (e0 = GR ROk -> g_at_ctor R = false) /\
    (e0 = GR REOF -> s = []) /\
    (e0 <> GR ROk -> Forall (fun br => br = ([], e0)) l) /\
    is_prefix (obs_bytes l) (g_payload R) /\
    (g_err R <> CEOF -> ~ In (GR REOF) (map snd l)) /\
    (In (GR REOF) (map snd l) ->
       (e0 = GR ROk \/ (e0 = GR REOF /\ s = [])) /\
       g_err R = CEOF /\ obs_bytes l = g_payload R /\
       buf_ok (z_r z2) /\ bstream (z_r z2) = g_left R /\ (exists pre, s = pre ++ g_left R) /\
       consumed (z_r z2) + lenN (g_left R) = consumed b + lenN s /\
       bsize (z_r z2) = bsize b /\ term (z_r z2) = term b).

(* REFUTED first version: the last conjunct began with "e0 = GR ROk /\ ..." instead of the
   disjunction.  Counterexample: Reset onto an exhausted source (z = gzZero b, b = mkbufrd 0 [] TEOF,
   multi = true, reads = [1]): Reset returns io.EOF, and so does the Read that follows (the error
   is sticky), so io.EOF occurs among the results although e0 = GR REOF.  The refuted form is kept,
   with its formal refutation gz_sound_gen_false, in proofs/GzEngineSound2.v
   (gz_sound_gen_refuted_statement). *)

(* the run with the number of source bytes consumed (the 4th component of gzrun_obs) *)
Definition gzrun_ext (bufsize : N) (cs : list (list N)) (t : terminal) (multi : bool) (reads : list N)
  : gres * list (list N * gres) * N :=
  let '(z, e) := gzNewReader (mkbufrd bufsize cs t) in
  if negb (gnil e) then (e, [], consumed (z_r z))
  else let '(l, z') := gz_reads_g (gzMultistream z multi) reads [] in (e, l, consumed (z_r z')).

(* no over-read: at io.EOF exactly the bytes up to the end of the (last) member's trailer have
   been consumed from the source *)
Definition gz_consumed_statement : Prop :=
  forall data cs bufsize t multi reads,
    bytes_ok data -> concat cs = data -> Forall (fun c => c <> []) cs ->
    let '(e0, l, n) := gzrun_ext bufsize cs t multi reads in
    In (GR REOF) (map snd l) ->
    n + lenN (g_left (gz_read multi data)) = lenN data.

(* member by member: NewReader, Multistream(false), Reads up to io.EOF, then Reset onto the SAME
   bufio.Reader, Multistream(false), more Reads: the second phase is the reader of what follows
   the first member (R2 = gz_read false (g_left R1)) *)
Definition gz_walk_statement : Prop :=
  forall data cs bufsize t reads1 reads2,
    bytes_ok data -> concat cs = data -> Forall (fun c => c <> []) cs ->
    let R1 := gz_read false data in
    let R2 := gz_read false (g_left R1) in
    let '(z0, e0) := gzNewReader (mkbufrd bufsize cs t) in
    let '(l1, z1) := gz_reads_g (gzMultistream z0 false) reads1 [] in
    In (GR REOF) (map snd l1) ->
    let '(z2, e2) := gzReset z1 (z_r z1) in
    let '(l2, z3) := gz_reads_g (gzMultistream z2 false) reads2 [] in
    (e2 = GR ROk -> g_at_ctor R2 = false) /\
    (e2 = GR REOF -> g_left R1 = []) /\
    is_prefix (obs_bytes l2) (g_payload R2) /\
    (In (GR REOF) (map snd l2) -> g_err R2 = CEOF /\ obs_bytes l2 = g_payload R2 /\
                                  bstream (z_r z3) = g_left R2) /\
    (g_err R2 <> CEOF -> ~ In (GR REOF) (map snd l2)).

(* ================================================================ zlib: Reset of a Reader *)
(* z.Reset(b, nil) for a reader z that has no decompressor yet or fastgo's own (not the standard
   library's, which a previous dictionary stream would have installed), FDICT clear *)
Definition zl_fast (z : zlreader) : Prop :=
  match zl_dec z with ZStd _ => False | _ => True end.

Definition zl_sound_gen_statement : Prop :=
  forall z b dict reads,
    buf_ok b -> bytes_ok (bstream b) -> zl_fast z ->
    let s := bstream b in
    N.testbit (nth 1 s 0) 5 = false ->
    let R := zl_read None s in
    let '(z1, e0) := zlReset z b dict in
    let '(l, z2) := zl_reads_g z1 reads [] in
    zl_err z1 = e0 /\
    (e0 = GR ROk -> g_at_ctor R = false) /\
    (e0 <> GR ROk -> Forall (fun br => br = ([], e0)) l) /\
    is_prefix (obs_bytes l) (g_payload R) /\
    (g_err R <> CEOF -> ~ In (GR REOF) (map snd l)) /\
    (In (GR REOF) (map snd l) ->
       e0 = GR ROk /\ g_err R = CEOF /\ obs_bytes l = g_payload R /\
       buf_ok (zl_r z2) /\ bstream (zl_r z2) = g_left R /\ (exists pre, s = pre ++ g_left R) /\
       consumed (zl_r z2) + lenN (g_left R) = consumed b + lenN s /\
       zl_fast z2).

Definition zlrun_ext (bufsize : N) (cs : list (list N)) (t : terminal) (dict : list N) (reads : list N)
  : gres * list (list N * gres) * N :=
  let '(z, e) := zlNewReaderDict (mkbufrd bufsize cs t) dict in
  if negb (gnil e) then (e, [], consumed (zl_r z))
  else let '(l, z') := zl_reads_g z reads [] in (e, l, consumed (zl_r z')).

(* no over-read: at io.EOF the source is left exactly behind the Adler-32 trailer *)
Definition zl_consumed_statement : Prop :=
  forall data cs bufsize t reads,
    bytes_ok data -> concat cs = data -> Forall (fun c => c <> []) cs ->
    N.testbit (nth 1 data 0) 5 = false ->
    let '(e0, l, n) := zlrun_ext bufsize cs t [] reads in
    In (GR REOF) (map snd l) ->
    n + lenN (g_left (zl_read None data)) = lenN data.
