(* Containers.v — specification-level model of compress/gzip (ungzip.go, gzip.go) and
   compress/zlib (reader.go, writer.go) as re-pointed at fastgo's flate: RFC 1952 / RFC 1950
   framing with Go's particular rules (strings capped at 512 bytes including the terminator,
   header CRC16 checked when present, members concatenated, io.EOF on an empty file), CRC-32
   and Adler-32 written out.  The DEFLATE payload is the reference inflater's business
   (Spec/Inflate.v); the implementation's inflater is tied to it by the reader correspondence. *)
From Verif Require Export Reader.
Open Scope N_scope.

(* ---------- checksums ---------- *)
Definition crc_poly : N := 3988292384.          (* 0xEDB88320 *)
Definition mask32 : N := 4294967295.

Fixpoint crc_bits (n : nat) (c : N) : N :=
  match n with
  | O => c
  | S k => crc_bits k (if N.odd c then N.lxor (N.shiftr c 1) crc_poly else N.shiftr c 1)
  end.
Definition crc_byte (c b : N) : N := crc_bits 8 (N.lxor c b).
Definition crc32_update (crc : N) (l : list byte) : N :=
  N.lxor (fold_left crc_byte l (N.lxor crc mask32)) mask32.
Definition crc32 (l : list byte) : N := crc32_update 0 l.

Definition adler_step (s : N * N) (x : byte) : N * N :=
  let a := (fst s + x) mod 65521 in (a, (snd s + a) mod 65521).
Definition adler32 (l : list byte) : N :=
  let s := fold_left adler_step l (1, 0) in snd s * 65536 + fst s.

Definition le16 (v : N) : list byte := [v mod 256; (v / 256) mod 256].
Definition le32 (v : N) : list byte := [v mod 256; (v / 256) mod 256; (v / 65536) mod 256; (v / 16777216) mod 256].
Definition be32 (v : N) : list byte := [(v / 16777216) mod 256; (v / 65536) mod 256; (v / 256) mod 256; v mod 256].
Definition of_le (l : list byte) : N := fold_right (fun b acc => b + 256 * acc) 0 l.
Definition of_be (l : list byte) : N := fold_left (fun acc b => 256 * acc + b) l 0.

(* ---------- gzip ---------- *)
Inductive cerr := CEOF | CUnexpectedEOF | CHeader | CChecksum | CCorrupt | CDictionary.

Record ghdr := mkgh { g_mtime : N; g_xfl : N; g_os : N; g_extra : list byte;
                      g_name : list byte; g_comment : list byte; g_hcrc : bool }.

(* the header a gzip.Writer emits: flags follow from which fields are non-empty; no header CRC *)
Definition gz_flags (h : ghdr) : N :=
  (if g_hcrc h then 2 else 0) + (match g_extra h with [] => 0 | _ => 4 end) +
  (match g_name h with [] => 0 | _ => 8 end) + (match g_comment h with [] => 0 | _ => 16 end).
Definition gz_header_nocrc (h : ghdr) : list byte :=
  [31; 139; 8; gz_flags h] ++ le32 (g_mtime h) ++ [g_xfl h; g_os h] ++
  (match g_extra h with [] => [] | e => le16 (N.of_nat (length e)) ++ e end) ++
  (match g_name h with [] => [] | s => s ++ [0] end) ++
  (match g_comment h with [] => [] | s => s ++ [0] end).
Definition gz_header (h : ghdr) : list byte :=
  let b := gz_header_nocrc h in if g_hcrc h then b ++ le16 (crc32 b mod 65536) else b.

Definition gz_trailer (payload : list byte) : list byte :=
  le32 (crc32 payload) ++ le32 (N.of_nat (length payload) mod 4294967296).
Definition gz_member (h : ghdr) (body payload : list byte) : list byte :=
  gz_header h ++ body ++ gz_trailer payload.

(* zero-terminated string within the first 512 bytes: (string, rest) *)
Fixpoint read_cstring (fuel : nat) (l : list byte) (acc : list byte) : option (option (list byte * list byte)) :=
  (* None: the source ended; Some None: no terminator within the limit (ErrHeader) *)
  match fuel with
  | O => Some None
  | S f =>
    match l with
    | [] => None
    | x :: r => if x =? 0 then Some (Some (rev acc, r)) else read_cstring f r (x :: acc)
    end
  end.

Inductive hparse := HP_ok (h : ghdr) (rest : list byte) | HP_err (e : cerr).

Definition gz_parse_header (l : list byte) : hparse :=
  match l with
  | [] => HP_err CEOF
  | _ =>
    if (length l <? 10)%nat then HP_err CUnexpectedEOF else
    let fixed := firstn 10 l in
    let r0 := skipn 10 l in
    if negb ((nth 0 fixed 0 =? 31) && (nth 1 fixed 0 =? 139) && (nth 2 fixed 0 =? 8)) then HP_err CHeader else
    let flg := nth 3 fixed 0 in
    let mtime := of_le (firstn 4 (skipn 4 fixed)) in
    let xfl := nth 8 fixed 0 in
    let os := nth 9 fixed 0 in
    (* FEXTRA *)
    let after_extra :=
      if N.testbit flg 2 then
        if (length r0 <? 2)%nat then inr CUnexpectedEOF else
        let n := N.to_nat (of_le (firstn 2 r0)) in
        let r1 := skipn 2 r0 in
        if (length r1 <? n)%nat then inr CUnexpectedEOF else inl (firstn n r1, skipn n r1)
      else inl ([], r0) in
    match after_extra with
    | inr e => HP_err e
    | inl (extra, r1) =>
      let after_name :=
        if N.testbit flg 3 then
          match read_cstring 512 r1 [] with
          | None => inr CUnexpectedEOF | Some None => inr CHeader | Some (Some (s, r)) => inl (s, r)
          end
        else inl ([], r1) in
      match after_name with
      | inr e => HP_err e
      | inl (name, r2) =>
        let after_comment :=
          if N.testbit flg 4 then
            match read_cstring 512 r2 [] with
            | None => inr CUnexpectedEOF | Some None => inr CHeader | Some (Some (s, r)) => inl (s, r)
            end
          else inl ([], r2) in
        match after_comment with
        | inr e => HP_err e
        | inl (comment, r3) =>
          if N.testbit flg 1 then
            if (length r3 <? 2)%nat then HP_err CUnexpectedEOF else
            let consumed := firstn (length l - length r3) l in
            if of_le (firstn 2 r3) =? crc32 consumed mod 65536
            then HP_ok (mkgh mtime xfl os extra name comment true) (skipn 2 r3)
            else HP_err CHeader
          else HP_ok (mkgh mtime xfl os extra name comment false) r3
        end
      end
    end
  end.

Record gres := mkgres { g_payload : list byte; g_err : cerr; g_left : list byte;
                        g_hdrs : list ghdr; g_at_ctor : bool }.

(* body + trailer of one member: (payload, error-or-ok, rest) *)
Definition gz_read_body (l : list byte) : list byte * option cerr * list byte :=
  let r := inflate [] l in
  match status r with
  | Done =>
    let n := N.to_nat ((bitpos r + 7) / 8) in
    let rest := skipn n l in
    if (length rest <? 8)%nat then (out r, Some CUnexpectedEOF, [])
    else
      let crc := of_le (firstn 4 rest) in
      let isize := of_le (firstn 4 (skipn 4 rest)) in
      if (crc =? crc32 (out r)) && (isize =? N.of_nat (length (out r)) mod 4294967296)
      then (out r, None, skipn 8 rest) else (out r, Some CChecksum, skipn 8 rest)
  | NeedInput => (out r, Some CUnexpectedEOF, [])
  | _ => (out r, Some CCorrupt, [])
  end.

(* members after the first header has been parsed (NewReader/Reset parse the first header) *)
Fixpoint gz_members (fuel : nat) (multi : bool) (l : list byte) (acc : list byte) (hs : list ghdr) : gres :=
  match fuel with
  | O => mkgres acc CCorrupt [] (rev hs) false
  | S f =>
    let '(payload, e, rest) := gz_read_body l in
    let acc' := acc ++ payload in
    match e with
    | Some err => mkgres acc' err rest (rev hs) false
    | None =>
      if negb multi then mkgres acc' CEOF rest (rev hs) false
      else
        match gz_parse_header rest with
        | HP_err CEOF => mkgres acc' CEOF [] (rev hs) false
        | HP_err err => mkgres acc' err [] (rev hs) false
        | HP_ok h rest' => gz_members f multi rest' acc' (h :: hs)
        end
    end
  end.

Definition gz_read (multi : bool) (l : list byte) : gres :=
  match gz_parse_header l with
  | HP_err e => mkgres [] e [] [] true
  | HP_ok h rest => gz_members (S (length l)) multi rest [] [h]
  end.

(* ---------- zlib ---------- *)
Definition zl_header (level_bits : N) (dict : option (list byte)) : list byte :=
  let cmf := 120 in                                      (* 0x78: deflate, 32 KiB window *)
  let flg0 := level_bits * 64 + (match dict with Some _ => 32 | None => 0 end) in
  let flg := flg0 + (31 - (cmf * 256 + flg0) mod 31) mod 31 in
  [cmf; flg] ++ match dict with Some d => be32 (adler32 d) | None => [] end.

Definition zl_stream (level_bits : N) (dict : option (list byte)) (body payload : list byte) : list byte :=
  zl_header level_bits dict ++ body ++ be32 (adler32 payload).

Definition zl_read (dict : option (list byte)) (l : list byte) : gres :=
  if (length l <? 2)%nat then mkgres [] CUnexpectedEOF [] [] true else
  let cmf := nth 0 l 0 in
  let flg := nth 1 l 0 in
  if negb ((cmf mod 16 =? 8) && (cmf / 16 <=? 7) && ((cmf * 256 + flg) mod 31 =? 0))
  then mkgres [] CHeader [] [] true else
  let r0 := skipn 2 l in
  let with_dict :=
    if N.testbit flg 5 then
      if (length r0 <? 4)%nat then inr CUnexpectedEOF else
      match dict with
      | Some d => if of_be (firstn 4 r0) =? adler32 d then inl (d, skipn 4 r0) else inr CDictionary
      | None => inr CDictionary
      end
    else inl ([], r0) in
  match with_dict with
  | inr e => mkgres [] e [] [] true
  | inl (d, r1) =>
    let r := inflate d r1 in
    match status r with
    | Done =>
      let rest := skipn (N.to_nat ((bitpos r + 7) / 8)) r1 in
      if (length rest <? 4)%nat then mkgres (out r) CUnexpectedEOF [] [] false
      else if of_be (firstn 4 rest) =? adler32 (out r)
           then mkgres (out r) CEOF (skipn 4 rest) [] false
           else mkgres (out r) CChecksum (skipn 4 rest) [] false
    | NeedInput => mkgres (out r) CUnexpectedEOF [] [] false
    | _ => mkgres (out r) CCorrupt [] [] false
    end
  end.
