(* Engine.v -- executable Gallina model of the pure-Go decompression engine of
   github.com/intel/fastgo/compress/flate (acceleration level 0: decodeHuffmanLargeLoop only).

   The model mirrors the Go code function by function; it is validated against the real
   code by differential testing (/verif/harness-engine).  No proofs here.

   ------------------------------------------------------------------------------------
   Go name (file)                                   Coq name
   ------------------------------------------------------------------------------------
   inflate (inflate.go)                             inflate (record)
     .input / len(.input) / .input==nil             rd.r_in / rd.r_inlen / inputNil
     .bits / .bitsLen                               rd.r_bits / rd.r_len (Z: may go negative)
     .writeOverflowLits/.writeOverflowLen           ov.writeOverflowLits / ov.writeOverflowLen
     .copyOverflowLength/.copyOverflowDistance      ov.copyOverflowLength / ov.copyOverflowDistance
     .litLenTable.shortCodeLookup/.longCodeLookup   tb.litShort / tb.litLong
     .distTable.ShortCodeLookup/.LongCodeLookup     tb.distShort / tb.distLong
     .phase .bfinal .litBlockLength                 phase bfinal litBlockLength
     .headerBuffered / .headerBuffer                headerBuffered / headerBuffer (valid prefix only)
     .dynHdr (dynamicHeaderReader)                  dyn : dynHdr (litAndDistHuff clcShort clcLong
                                                    codeList litCount distCount litExpandCount
                                                    nextCode lenHuffCodes)
     .roffset                                       roffset
   inflate.reset                                    inflate_reset (= inflate0 for a fresh value)
   nextBits / readBits / loadBits                   next_bits / readBits / loadBits (load_raw)
   the inlined "load 64 bits" blocks                load_raw, load_lt57, load_le15
   tryDecodeHeader / prepareForLitBlock             tryDecodeHeader / prepareForLitBlock
   huffCode.Set/SetCode/Code/Length                 hc_set / hc_setcode / hc_code / hc_len
   setCodes / bitReverse2                           setCodes / bitReverse2
   rOffset / readHeader                             rOffset / readHeader
   setupStaticHeader / codeLenCodes                 setupStaticHeader / codeLenCodes
   setupDynamicHeader / readLitDistLens             setupDynamicHeader / readLitDistLens
   setAndExpandLitLenHuffCode                       setAndExpandLitLenHuffCode
   calcCodeForLit / expandLenCodes                  calcCodeForLit / expandLenCodes
   smallHuffCodeTable.GenerateForHeader/genForDists gen_small true / gen_small false
   largeHuffCodeTable.genForLitLen                  genForLitLen
     encodeSingles/Pairs/Triples/LongCodes          encodeSingles / encodePairs / encodeTriples /
                                                    encodeLongCodes
   indexToSym                                       indexToSym
   decodeLiteralBlock                               decodeLiteralBlock
   decodeHuffman = decodeHuffmanLargeLoop           decodeHuffman (huff_outer / huff_inner)
   byteCopy and copy() of a match                   byteCopy
   staticLitHuffCode/staticDistHuffCode/rfcLookupTable   EngineTables.v (transcribed, see below)
   decompressor (reader.go)                         decompressor (record): state writePos readPos
                                                    hist err peekSize eof haveBits rBuf
   NewReader (caller-supplied *bufio.Reader)        newReader
   decompressor.Read / step / decomperss            dRead / step / decomperss
   bufio.Reader (buf[r:w], err, rd)                 bufrd: bbuf/blen = buf[r:w], berr, bsize, src
     Buffered / Peek / Discard / fill / readErr     bBuffered / bPeek / bDiscard / bfill
   the io.Reader under the bufio.Reader             source: list of chunks + terminal (src_read)
   ------------------------------------------------------------------------------------

   Static tables: TRANSCRIBED from inflate_table.go by /verif/bin/gen-engine-tables into
   EngineTables.v; proofs/EngineFacts.v proves (by computation) that the model's own table
   builder reproduces them entry by entry.

   Deliberate abstractions (everything else is meant to be literal):
   A1. Slices are values: state.input is a list plus a cached length; the aliasing of
       state.input with bufio's buffer / with headerBuffer is not represented (the Go code
       never mutates the aliased storage while state.input is live).
   A2. headerBuffer holds only its valid prefix (length headerBuffered); the stale bytes behind
       it in the Go array are never read.
   A3. Arrays are finite maps with default 0 (Base.arr).  Go bounds checks are made explicit
       only where an index is data dependent: such a failure is the error value EPanic
       ("the Go code panics here").  A Go panic is a result kind (RPanic) of the model.
   A4. copy() of a match and byteCopy are both modelled as the byte-by-byte forward copy
       (equal to memmove for distance >= length, and to byteCopy's doubling copy otherwise;
       distance 0 cannot reach either).
   A5. Unbounded Go loops carry fuel; running out of fuel is the explicit value EFuel / RStuck
       (never observed in testing).
   A6. Machine integers: uint64/uint32/uint16/uint8 are N reduced explicitly (u64, u32, u16,
       u8, shl64, shl32, sub16, ...) wherever the Go arithmetic can wrap or a shift can reach
       the width; int/int32 that may be negative (bitsLen, prev/curr, roffset, discard sizes)
       are Z with Go's truncating division (Z.quot).  bitsLen outside [.., 64] cannot occur.
   A7. Errors are an enumeration (ierr / rres); CorruptInputError carries roffset.
   A8. The 100-retry loop of bufio.Reader.fill is kept; the source returns (0, nil) only for an
       explicitly empty chunk.  A source Read returns at most one chunk (or the part of it that
       fits), never data together with an error.
   A9. The Go zeroing of whole arrays ([N]T{} assignments, full clears) is "aempty"
       (all-default map).
*)
From Coq Require Import List NArith ZArith Bool FMapPositive.
From Verif Require Import Base EngineTables.
Import ListNotations.
Open Scope N_scope.

(* ---------------------------------------------------------------- machine integers *)
Definition mask64 : N := Eval compute in N.ones 64.
Definition mask32 : N := Eval compute in N.ones 32.
Definition mask16 : N := Eval compute in N.ones 16.
Definition u64 (x : N) := N.land x mask64.
Definition u32 (x : N) := N.land x mask32.
Definition u16 (x : N) := N.land x mask16.
Definition u8 (x : N) := N.land x 255.
Definition shl64 (x n : N) := if 64 <=? n then 0 else u64 (N.shiftl x n).
Definition shl32 (x n : N) := if 32 <=? n then 0 else u32 (N.shiftl x n).
Definition shl16 (x n : N) := if 16 <=? n then 0 else u16 (N.shiftl x n).
(* a - b in uintK, for a, b already < 2^K *)
Definition subw (w a b : N) := if b <=? a then a - b else (a + N.shiftl 1 w) - b.
Definition sub32 := subw 32.
Definition sub16 := subw 16.
(* (1 << k) - 1 computed in uint32 / uint64 *)
Definition ones32 (k : N) := if 32 <=? k then mask32 else N.ones k.
Definition ones64 (k : N) := if 64 <=? k then mask64 else N.ones k.

Definition big_fuel : nat := N.to_nat 262144.
Definition small_fuel : nat := 1024%nat.

Fixpoint iterN {S : Type} (n : nat) (i : N) (f : N -> S -> S) (s : S) : S :=
  match n with O => s | S k => iterN k (i + 1) f (f i s) end.
(* for i := lo; i < hi; i++ *)
Definition forN {S : Type} (lo hi : N) (f : N -> S -> S) (s : S) : S :=
  iterN (N.to_nat (hi - lo)) lo f s.

Definition ainc (a : arr) (i : N) : arr := aset a i (aget a i + 1).

Definition rfc_dist_extra : arr := arr_of_list rfc_dist_extra_l.
Definition rfc_dist_start : arr := arr_of_list rfc_dist_start_l.
Definition rfc_len_extra : arr := arr_of_list rfc_len_extra_l.
Definition static_lit_short : arr := arr_of_list static_lit_short_l.
Definition static_lit_long : arr := arr_of_list static_lit_long_l.
Definition static_dist_short : arr := arr_of_list static_dist_short_l.
Definition static_dist_long : arr := arr_of_list static_dist_long_l.

(* ---------------------------------------------------------------- constants *)
Definition phaseNewBlock : N := 0.
Definition phaseDecodingHeader : N := 1.
Definition phaseLitBlock : N := 2.
Definition phaseHeaderDecoded : N := 3.
Definition phaseStreamEnd : N := 4.
Definition phaseFinish : N := 5.

Definition litLenElems : N := 514.
Definition maxLitLenCount : N := 23.
Definition singleSymFlag : N := 2.
Definition doubleSymFlag : N := 1.
Definition defaultSymFlag : N := 0.
Definition distLen : N := 30.
Definition litLen : N := 286.
Definition litTableSize : N := 257.
Definition litSymbolsSize : N := 257.
Definition maxHdrSize : N := 328.
Definition maxLitLenSym : N := 512.
Definition historySize : N := 32768.
Definition lookAhead : N := 288.
Definition histLen : N := 65824.        (* 2*historySize + lookAhead *)
Definition outLen : N := 65536.         (* limitedBoundary = len(output) *)
Definition invalidSymbolValue : N := 0x1FFF.
Definition invalidCodeValue : N := 0xFFFFFF.
Definition largeFlagBit : N := 0x2000000.          (* 1 << 25 *)
Definition largeShortSymMask : N := 0x1FFFFFF.     (* (1 << 25) - 1 *)
Definition smallFlagBit : N := 1024.

Inductive ierr := ENone | EEndInput | EOutputOverflow | EInvalidBlock | EInvalidSymbol
                | EInvalidLookBack | EPanic | EFuel.
Definition ierr_eqb (a b : ierr) : bool :=
  match a, b with
  | ENone, ENone | EEndInput, EEndInput | EOutputOverflow, EOutputOverflow
  | EInvalidBlock, EInvalidBlock | EInvalidSymbol, EInvalidSymbol
  | EInvalidLookBack, EInvalidLookBack | EPanic, EPanic | EFuel, EFuel => true
  | _, _ => false
  end.
Definition isError (e : ierr) : bool :=
  match e with EInvalidBlock | EInvalidSymbol | EInvalidLookBack => true | _ => false end.

(* ---------------------------------------------------------------- state records *)
Record bitrd := mkBR { r_bits : N; r_len : Z; r_in : list N; r_inlen : N }.

Record ovf := mkOV { writeOverflowLits : N; writeOverflowLen : N;
                     copyOverflowLength : N; copyOverflowDistance : N }.

Record tabs := mkTB { litShort : arr; litLong : arr; distShort : arr; distLong : arr }.

Record dynHdr := mkDyn {
  litAndDistHuff : arr;   (* [514]huffCode, each codeAndLength = code | length<<24 *)
  clcShort : arr; clcLong : arr;
  codeList : arr;         (* [516]uint32 *)
  litCount : arr;         (* [23]uint16 *)
  distCount : arr;        (* [16]uint16 *)
  litExpandCount : arr;   (* [23]uint16 *)
  nextCode : arr;         (* [16]uint32 *)
  lenHuffCodes : arr      (* [29]huffCode *)
}.

Record inflate := mkInflate {
  rd : bitrd; inputNil : bool;
  ov : ovf; tb : tabs;
  phase : N; bfinal : N; litBlockLength : N;
  headerBuffered : N; headerBuffer : list N;
  dyn : dynHdr;
  roffset : Z
}.

Definition set_rd (s : inflate) (v : bitrd) : inflate :=
  mkInflate v (inputNil s) (ov s) (tb s) (phase s) (bfinal s) (litBlockLength s)
            (headerBuffered s) (headerBuffer s) (dyn s) (roffset s).
Definition set_inputNil (s : inflate) (v : bool) : inflate :=
  mkInflate (rd s) v (ov s) (tb s) (phase s) (bfinal s) (litBlockLength s)
            (headerBuffered s) (headerBuffer s) (dyn s) (roffset s).
Definition set_ov (s : inflate) (v : ovf) : inflate :=
  mkInflate (rd s) (inputNil s) v (tb s) (phase s) (bfinal s) (litBlockLength s)
            (headerBuffered s) (headerBuffer s) (dyn s) (roffset s).
Definition set_tb (s : inflate) (v : tabs) : inflate :=
  mkInflate (rd s) (inputNil s) (ov s) v (phase s) (bfinal s) (litBlockLength s)
            (headerBuffered s) (headerBuffer s) (dyn s) (roffset s).
Definition set_phase (s : inflate) (v : N) : inflate :=
  mkInflate (rd s) (inputNil s) (ov s) (tb s) v (bfinal s) (litBlockLength s)
            (headerBuffered s) (headerBuffer s) (dyn s) (roffset s).
Definition set_bfinal (s : inflate) (v : N) : inflate :=
  mkInflate (rd s) (inputNil s) (ov s) (tb s) (phase s) v (litBlockLength s)
            (headerBuffered s) (headerBuffer s) (dyn s) (roffset s).
Definition set_litBlockLength (s : inflate) (v : N) : inflate :=
  mkInflate (rd s) (inputNil s) (ov s) (tb s) (phase s) (bfinal s) v
            (headerBuffered s) (headerBuffer s) (dyn s) (roffset s).
Definition set_header (s : inflate) (n : N) (b : list N) : inflate :=
  mkInflate (rd s) (inputNil s) (ov s) (tb s) (phase s) (bfinal s) (litBlockLength s)
            n b (dyn s) (roffset s).
Definition set_dyn (s : inflate) (v : dynHdr) : inflate :=
  mkInflate (rd s) (inputNil s) (ov s) (tb s) (phase s) (bfinal s) (litBlockLength s)
            (headerBuffered s) (headerBuffer s) v (roffset s).
Definition set_roffset (s : inflate) (v : Z) : inflate :=
  mkInflate (rd s) (inputNil s) (ov s) (tb s) (phase s) (bfinal s) (litBlockLength s)
            (headerBuffered s) (headerBuffer s) (dyn s) v.

Definition br0 : bitrd := mkBR 0 0%Z [] 0.
Definition ov0 : ovf := mkOV 0 0 0 0.
Definition dyn0 : dynHdr := mkDyn aempty aempty aempty aempty aempty aempty aempty aempty aempty.
Definition inflate0 : inflate :=
  mkInflate br0 true ov0 (mkTB aempty aempty aempty aempty) 0 0 0 0 [] dyn0 0%Z.

(* inflate.reset: tables and dynHdr are kept *)
Definition inflate_reset (s : inflate) : inflate :=
  mkInflate br0 true ov0 (tb s) 0 0 0 0 [] (dyn s) 0%Z.

(* bit-reader field updates *)
Definition br_set_bits (b : bitrd) (v : N) := mkBR v (r_len b) (r_in b) (r_inlen b).
Definition br_set_len (b : bitrd) (v : Z) := mkBR (r_bits b) v (r_in b) (r_inlen b).
Definition br_set_in (b : bitrd) (l : list N) (n : N) := mkBR (r_bits b) (r_len b) l n.
(* bits >>= k; bitsLen -= k *)
Definition br_drop (b : bitrd) (k : N) : bitrd :=
  mkBR (N.shiftr (r_bits b) k) (r_len b - Z.of_N k)%Z (r_in b) (r_inlen b).

(* ---------------------------------------------------------------- bit buffer *)
(* nextBits *)
Definition next_bits (b : bitrd) (k : N) : N * bitrd :=
  (N.land (r_bits b) (N.ones k), br_drop b k).

Definition le64 (a0 a1 a2 a3 a4 a5 a6 a7 : N) : N :=
  a0 + N.shiftl a1 8 + N.shiftl a2 16 + N.shiftl a3 24 + N.shiftl a4 32 + N.shiftl a5 40
  + N.shiftl a6 48 + N.shiftl a7 56.

Fixpoint load_bytes (n : nat) (b : bitrd) : bitrd :=
  match n with
  | O => b
  | S k =>
    match r_in b with
    | [] => b
    | x :: rest =>
      load_bytes k (mkBR (N.lor (r_bits b) (shl64 x (Z.to_N (r_len b)))) (r_len b + 8)%Z
                         rest (r_inlen b - 1))
    end
  end.

(* The block "if len(input) >= 8 { load 64 bits } else { load byte by byte }" that appears in
   loadBits and inlined in the decode loops.  None = Go panics (shift by a negative count);
   that needs bitsLen < 0 with input left, which the callers exclude. *)
Definition load_raw (b : bitrd) : option bitrd :=
  if (r_len b <? 0)%Z then (if r_inlen b =? 0 then Some b else None)
  else if (64 <? r_len b)%Z then None
  else
    let n := Z.to_N (r_len b) in
    if 8 <=? r_inlen b then
      match r_in b with
      | a0 :: a1 :: a2 :: a3 :: a4 :: a5 :: a6 :: a7 :: _ =>
        let consumed := 8 - (n + 7) / 8 in
        let temp := le64 a0 a1 a2 a3 a4 a5 a6 a7 in
        Some (mkBR (N.lor (r_bits b) (shl64 temp n)) (r_len b + 8 * Z.of_N consumed)%Z
                   (skipn (N.to_nat consumed) (r_in b)) (r_inlen b - consumed))
      | _ => None
      end
    else
      let size := N.min ((64 - n) / 8) (r_inlen b) in
      Some (load_bytes (N.to_nat size) b).

Definition load_lt57 (b : bitrd) : option bitrd :=
  if (r_len b <? 57)%Z then load_raw b else Some b.
Definition load_le15 (b : bitrd) : option bitrd :=
  if (r_len b <=? 15)%Z then load_raw b else Some b.

(* huffCode *)
Definition hc_len (h : N) : N := N.shiftr h 24.
Definition hc_code (h : N) : N := N.land h 0xFFFFFF.
Definition hc_set (code len : N) : N := u32 (N.lor code (N.shiftl len 24)).
Definition hc_setcode (h code : N) : N := N.lor (N.land h 0xFF000000) (N.land code 0xFFFFFF).

Fixpoint rev_bits (n : nat) (x acc : N) : N :=
  match n with O => acc | S k => rev_bits k (N.shiftr x 1) (2 * acc + N.land x 1) end.
(* bits.Reverse16(code) >> (16 - length) *)
Definition bitReverse2 (code len : N) : N :=
  N.shiftr (rev_bits 16 (u16 code) 0) (u8 (subw 8 16 (u8 len))).

(* setCodes on table[off : off+n]; returns the table and "invalid" *)
Definition setCodes (table : arr) (off n : N) (count : arr) : arr * bool :=
  let nc := forN 2 16 (fun i c => aset c i (shl32 (u32 (aget c (i - 1) + aget count (i - 1))) 1)) aempty in
  let mx := u32 (aget nc 15 + aget count 15) in
  if 32768 <? mx then (table, true)
  else
    let '(t, _) :=
      forN 0 n (fun i (st : arr * arr) =>
        let '(t, nc) := st in
        let length := hc_len (aget t (off + i)) in
        if length =? 0 then st
        else
          let code := bitReverse2 (u16 (aget nc length)) length in
          (aset t (off + i) (hc_set code length), aset nc length (u32 (aget nc length + 1))))
        (table, nc) in
    (t, false).

(* ---------------------------------------------------------------- small tables (huffcode.go / header.go) *)
(* GenerateForHeader (hdr = true) and genForDists (hdr = false).
   Result: short table, long table, codes (codes marked 0xFFFF), and ENone, or EInvalidBlock
   (genForDists returned false: the long-code groups do not fit LongCodeLookup), or EPanic *)
Fixpoint long_fill (fuel : nat) (bound wrap : N) (long : arr) (base longBits lim minInc entry : N)
         (pan : bool) : arr * bool :=
  match fuel with
  | O => (long, pan)
  | S f =>
    if longBits <? lim then
      let idx := base + longBits in
      if bound <=? idx then (long, true)
      else long_fill f bound wrap (aset long idx entry) base (N.land (longBits + minInc) wrap)
                     lim minInc entry pan
    else (long, pan)
  end.

Definition gen_small (hdr : bool) (short long codes : arr) (ncodes : N) (count : arr)
           (maxSymbol : N) : arr * arr * arr * ierr :=
  let ct := forN 2 17 (fun i c => aset c i (u32 (aget c (i - 1) + aget count (i - 1)))) aempty in
  let codeListLen := aget ct 16 in
  if codeListLen =? 0 then (aempty, long, codes, ENone)
  else
    (* codeList *)
    let '(cl, _, pan0) :=
      forN 0 ncodes (fun i (st : arr * arr * bool) =>
        let '(cl, ctt, pan) := st in
        let codeLength := hc_len (aget codes i) in
        if codeLength =? 0 then st
        else
          let ins := aget ctt codeLength in
          if 32 <=? ins then (cl, ctt, true)
          else (aset cl ins i, aset ctt codeLength (ins + 1), pan))
        (aempty, ct, false) in
    if pan0 then (short, long, codes, EPanic)
    else
      let lastLength0 := hc_len (aget codes (aget cl 0)) in
      let lastLength := if 10 <? lastLength0 then 11 else lastLength0 in
      let copySize := if lastLength =? 0 then 0 else N.shiftl 1 (lastLength - 1) in
      let short := forN 0 copySize (fun i t => aset t i 0) short in
      (* for ; lastLength <= distLookupBits; lastLength++ *)
      let '(short, _) :=
        forN lastLength 11 (fun ll (st : arr * N) =>
          let '(t, cs) := st in
          let t := forN 0 (N.min cs (1024 - cs)) (fun i t => aset t (cs + i) (aget t i)) t in
          let t := forN (aget ct ll) (aget ct (ll + 1)) (fun k t =>
                     let idx := aget cl k in
                     let h := aget codes idx in
                     if maxSymbol <=? idx then
                       (if hdr then t else aset t (hc_code h) (u16 (hc_len h)))
                     else if hdr then
                       aset t (hc_code h) (u16 (N.lor idx (N.shiftl (hc_len h) 11)))
                     else
                       aset t (hc_code h)
                            (u16 (N.lor (N.lor idx (N.shiftl (aget rfc_dist_extra idx) 5))
                                        (N.shiftl (hc_len h) 11)))) t in
          (t, cs * 2))
          (short, copySize) in
      let longCodeStart := aget ct 11 in
      let longCodeLength := sub32 codeListLen longCodeStart in
      let '(short, long, codes, _, pan) :=
        forN 0 longCodeLength (fun i (st : arr * arr * arr * N * ierr) =>
          let '(short, long, codes, lcl, pan) := st in
          if negb (ierr_eqb pan ENone) then st
          else if 32 <=? longCodeStart + i then (short, long, codes, lcl, EPanic)
          else
            let li := aget cl (longCodeStart + i) in
            if hc_code (aget codes li) =? 0xFFFF then st
            else
              let maxLength0 := hc_len (aget codes li) in
              let firstBits := N.land (hc_code (aget codes li)) 1023 in
              let '(maxLength, tempRev) :=
                forN (i + 1) longCodeLength (fun j (a : N * list N) =>
                  let '(ml, tl) := a in
                  let lj := aget cl (longCodeStart + j) in
                  if N.land (hc_code (aget codes lj)) 1023 =? firstBits then
                    let lenj := hc_len (aget codes lj) in
                    ((if hdr then (if ml <? lenj then lenj else ml) else lenj), lj :: tl)
                  else a)
                  (maxLength0, [li]) in
              let temp := frev tempRev in
              let grp := N.shiftl 1 (maxLength - 10) in
              let clrEnd := lcl + (if hdr then 2 * grp else grp) in
              (* genForDists: "if longCodeLookupLength+(1<<(maxLength-distLookupBits)) >
                 len(t.LongCodeLookup) { return false }" (GenerateForHeader has no such check) *)
              if negb hdr && (80 <? lcl + grp) then (short, long, codes, lcl, EInvalidBlock)
              else if 80 <? clrEnd then (short, long, codes, lcl, EPanic)
              else
                let long := forN lcl clrEnd (fun x t => aset t x 0) long in
                let '(long, codes, panb) :=
                  fold_left (fun (a : arr * arr * bool) (sym : N) =>
                    let '(long, codes, pan) := a in
                    let codeLength := hc_len (aget codes sym) in
                    let longBits := u16 (N.shiftr (hc_code (aget codes sym)) 10) in
                    let minInc := shl16 1 (codeLength - 10) in
                    let entry :=
                      if hdr then u16 (N.lor sym (N.shiftl codeLength 10))
                      else if maxSymbol <? sym then u16 codeLength
                      else u16 (N.lor (N.lor sym (N.shiftl (aget rfc_dist_extra sym) 5))
                                      (N.shiftl codeLength 10)) in
                    let '(long, pan) := long_fill small_fuel 80 mask16 long lcl longBits grp minInc entry pan in
                    (long, aset codes sym (hc_setcode (aget codes sym) 0xFFFF), pan))
                    temp (long, codes, false) in
                let short := aset short firstBits
                               (u16 (N.lor (N.lor lcl (N.shiftl maxLength 11)) smallFlagBit)) in
                (short, long, codes, lcl + grp, if panb then EPanic else ENone))
          (short, long, codes, 0, ENone) in
      (short, long, codes, pan).

(* ---------------------------------------------------------------- header.go *)
Definition setupStaticHeader (s : inflate) : inflate :=
  set_phase (set_tb s (mkTB static_lit_short static_lit_long static_dist_short static_dist_long))
            phaseHeaderDecoded.

Definition codeLengthOrder : arr :=
  arr_of_list [16; 17; 18; 0; 8; 7; 9; 6; 10; 5; 11; 4; 12; 3; 13; 2; 14; 1; 15].

(* loadBits *)
Definition loadBits (s : inflate) : option inflate :=
  match load_lt57 (rd s) with None => None | Some b => Some (set_rd s b) end.

(* readBits: loadBits then nextBits *)
Definition readBits (s : inflate) (k : N) : option (N * inflate) :=
  match loadBits s with
  | None => None
  | Some s => let '(v, b) := next_bits (rd s) k in Some (v, set_rd s b)
  end.

Definition clc_read3 (i : N) (st : bitrd * arr * arr) : bitrd * arr * arr :=
  let '(b, codeHuff, codeCount) := st in
  let '(length, b) := next_bits b 3 in
  (b, aset codeHuff (aget codeLengthOrder i) (hc_set 0 length), ainc codeCount length).

Definition codeLenCodes (s : inflate) (hclen : N) : inflate * ierr :=
  let '(b, codeHuff, codeCount) := forN 0 4 clc_read3 (rd s, aempty, aempty) in
  match load_lt57 b with
  | None => (set_rd s b, EPanic)
  | Some b =>
    let '(b, codeHuff, codeCount) := forN 4 (hclen + 4) clc_read3 (b, codeHuff, codeCount) in
    let s := set_rd s b in
    if (r_len b <? 0)%Z then (s, EEndInput)
    else
      let '(codeHuff, bad) := setCodes codeHuff 0 19 codeCount in
      if bad then (s, EInvalidBlock)
      else
        let d := dyn s in
        let '(sh, lg, _, e) := gen_small true (clcShort d) (clcLong d) codeHuff 19 codeCount 19 in
        let d := mkDyn (litAndDistHuff d) sh lg (codeList d) (litCount d) (distCount d)
                       (litExpandCount d) (nextCode d) (lenHuffCodes d) in
        (set_dyn s d, e)
  end.

(* one code-length symbol decoded with clcTable (the block at the top of readLitDistLens's loop,
   after the conditional load) *)
Definition clc_decode (clcS clcL : arr) (b : bitrd) : option (N * bitrd) :=
  let nextBits := N.land (r_bits b) 1023 in
  let nextSym := aget clcS nextBits in
  if N.land nextSym smallFlagBit =? 0 then
    let bitCount := N.shiftr nextSym 11 in
    let b := br_drop b bitCount in
    let nextSym := if bitCount =? 0 then invalidSymbolValue else nextSym in
    Some (N.land nextSym 511, b)
  else
    let bitMask := ones32 (N.shiftr (u32 (nextSym - smallFlagBit)) 11) in
    let nextBits := u16 (N.land (u32 (r_bits b)) bitMask) in
    let idx := u16 (N.land nextSym 511 + N.shiftr nextBits 10) in
    if 80 <=? idx then None
    else
      let nextSym := aget clcL idx in
      let bitCount := N.shiftr nextSym 10 in
      Some (N.land nextSym 511, br_drop b bitCount).

Record rlst := mkRL { rl_b : bitrd; rl_h : arr; rl_lc : arr; rl_dc : arr; rl_ex : arr;
                      rl_curr : Z; rl_prev : Z; rl_inDist : bool }.

Definition rl_count_inc (st : rlst) (inDist : bool) (i : N) : arr * arr :=
  if inDist then (rl_lc st, aset (rl_dc st) i (u16 (aget (rl_dc st) i + 1)))
  else (aset (rl_lc st) i (u16 (aget (rl_lc st) i + 1)), rl_dc st).

(* litExpandCount[len]--; litExpandCount[len+extra] += 1 << extra *)
Definition expand_adjust (ex : arr) (len : N) (prev : Z) : arr :=
  let extra := aget rfc_len_extra (Z.to_N (prev - 257)) in
  let ex1 := aset ex len (sub16 (aget ex len) 1) in
  aset ex1 (len + extra) (u16 (aget ex1 (len + extra) + N.shiftl 1 extra)).

(* store one code length (shared by "symbol < 16" and the body of the repeat-16 loop) *)
Definition rl_put (st : rlst) (split endv : Z) (h : N) : option rlst :=
  let '(curr, inDist) := if (rl_curr st =? split)%Z then (286%Z, true)
                         else (rl_curr st, rl_inDist st) in
  if (endv <=? curr)%Z then None
  else
    let len := hc_len h in
    let '(lc, dc) := rl_count_inc st inDist len in
    let hf := aset (rl_h st) (Z.to_N curr) h in
    let prev := curr in
    let ex := if (len =? 0) || (split <=? prev)%Z || (prev <? 264)%Z then rl_ex st
              else expand_adjust (rl_ex st) len prev in
    Some (mkRL (rl_b st) hf lc dc ex (curr + 1)%Z prev inDist).

Fixpoint rl_rep (n : nat) (st : rlst) (split endv : Z) (h : N) : option rlst :=
  match n with
  | O => Some st
  | S k => match rl_put st split endv h with None => None | Some st => rl_rep k st split endv h end
  end.

Definition rl_set_b (st : rlst) (b : bitrd) : rlst :=
  mkRL b (rl_h st) (rl_lc st) (rl_dc st) (rl_ex st) (rl_curr st) (rl_prev st) (rl_inDist st).

Fixpoint rl_loop (fuel : nat) (clcS clcL : arr) (split endv : Z) (st : rlst) : rlst * ierr :=
  match fuel with
  | O => (st, EFuel)
  | S f =>
    if (rl_curr st <? endv)%Z then
      match load_le15 (rl_b st) with
      | None => (st, EPanic)
      | Some b =>
        match clc_decode clcS clcL b with
        | None => (st, EPanic)
        | Some (symbol, b) =>
          let st := rl_set_b st b in
          if (r_len b <? 0)%Z then
            if (256 <? rl_curr st)%Z && (hc_len (aget (rl_h st) 256) =? 0)
            then (st, EInvalidBlock) else (st, EEndInput)
          else if symbol <? 16 then
            match rl_put st split endv (hc_set 0 symbol) with
            | None => (st, EPanic)
            | Some st => rl_loop f clcS clcL split endv st
            end
          else if symbol =? 16 then
            match load_raw b with
            | None => (st, EPanic)
            | Some b =>
              let '(ret, b) := next_bits b 2 in
              let st := rl_set_b st b in
              let i := Z.of_N (3 + ret) in
              let curr := rl_curr st in
              let last := (curr + i)%Z in
              let last := if (curr <=? split)%Z && (split <? last)%Z
                          then (last + (286 - split))%Z else last in
              if (endv <? last)%Z || (rl_prev st =? -1)%Z then (st, EInvalidBlock)
              else
                let repCode := aget (rl_h st) (Z.to_N (rl_prev st)) in
                match rl_rep (Z.to_nat i) st split endv repCode with
                | None => (st, EPanic)
                | Some st => rl_loop f clcS clcL split endv st
                end
            end
          else if (symbol =? 17) || (symbol =? 18) then
            match load_raw b with
            | None => (st, EPanic)
            | Some b =>
              let '(ret, b) := if symbol =? 17 then next_bits b 3 else next_bits b 7 in
              let i := Z.of_N ((if symbol =? 17 then 3 else 11) + ret) in
              let curr := (rl_curr st + i)%Z in
              let prev := (curr - 1)%Z in
              let '(curr, prev, inDist) :=
                if negb (rl_inDist st) && (split <? curr)%Z then
                  let curr := (curr + (286 - split))%Z in
                  (curr, (if (286 <? curr)%Z then (curr - 1)%Z else prev), true)
                else (curr, prev, rl_inDist st) in
              rl_loop f clcS clcL split endv
                      (mkRL b (rl_h st) (rl_lc st) (rl_dc st) (rl_ex st) curr prev inDist)
            end
          else (st, EInvalidBlock)
        end
      end
    else
      if (endv <? rl_curr st)%Z || (hc_len (aget (rl_h st) 256) =? 0)
      then (st, EInvalidBlock) else (st, ENone)
  end.

Definition set_dyn_counts (d : dynHdr) (h lc dc ex : arr) : dynHdr :=
  mkDyn h (clcShort d) (clcLong d) (codeList d) lc dc ex (nextCode d) (lenHuffCodes d).

Definition readLitDistLens (s : inflate) (hdist hlit : N) : inflate * ierr :=
  let d := dyn s in
  let endv := Z.of_N (litLen + hdist + 1) in
  let split := Z.of_N (litTableSize + hlit) in
  let st0 := mkRL (rd s) (litAndDistHuff d) (litCount d) (distCount d) (litExpandCount d)
                  0%Z (-1)%Z false in
  let '(st, err) := rl_loop small_fuel (clcShort d) (clcLong d) split endv st0 in
  (set_rd (set_dyn s (set_dyn_counts d (rl_h st) (rl_lc st) (rl_dc st) (rl_ex st))) (rl_b st), err).

Definition indexToSym (index : N) : N := if index =? 513 then 512 else index.

(* calcCodeForLit: returns (huff, codeList, litExpandCount, nextCode, panic) *)
Definition calcCodeForLit (huff cl ex nc : arr) : arr * arr * arr * arr * bool :=
  forN 0 litSymbolsSize (fun i (st : arr * arr * arr * arr * bool) =>
    let '(huff, cl, ex, nc, pan) := st in
    let codeLen := hc_len (aget huff i) in
    if codeLen =? 0 then st
    else
      let code := bitReverse2 (u16 (aget nc codeLen)) codeLen in
      let ins := aget ex codeLen in
      if 516 <=? ins then (huff, cl, ex, nc, true)
      else (aset huff i (hc_set code codeLen), aset cl ins i,
            aset ex codeLen (u16 (ins + 1)), aset nc codeLen (u32 (aget nc codeLen + 1)), pan))
    (huff, cl, ex, nc, false).

(* expandLenCodes *)
Definition expandLenCodes (huff cl ex nc lenHuff : arr) : arr * arr * arr * arr * bool :=
  let '(huff, cl, ex, nc, _, pan) :=
    forN 0 29 (fun lenSym (st : arr * arr * arr * arr * N * bool) =>
      let '(huff, cl, ex, nc, expandsIdx, pan) := st in
      let extraCount := aget rfc_len_extra lenSym in
      let lenSize := N.shiftl 1 extraCount in
      let codeLen := hc_len (aget lenHuff lenSym) in
      if codeLen =? 0 then (huff, cl, ex, nc, expandsIdx + lenSize, pan)
      else
        let code := bitReverse2 (u16 (aget nc codeLen)) codeLen in
        let expandLen := codeLen + extraCount in
        let nc := aset nc codeLen (u32 (aget nc codeLen + 1)) in
        let ins := aget ex expandLen in
        let ex := aset ex expandLen (u16 (ins + lenSize)) in
        let '(huff, cl, pan) :=
          forN 0 lenSize (fun extra (a : arr * arr * bool) =>
            let '(huff, cl, pan) := a in
            if (516 <=? ins + extra) || (514 <=? expandsIdx + extra) then (huff, cl, true)
            else (aset huff (expandsIdx + extra)
                       (hc_set (N.lor code (shl32 extra codeLen)) expandLen),
                  aset cl (ins + extra) (expandsIdx + extra), pan))
            (huff, cl, pan) in
        (huff, cl, ex, nc, expandsIdx + lenSize, pan))
      (huff, cl, ex, nc, litSymbolsSize, false) in
  (huff, cl, ex, nc, pan).

Definition setAndExpandLitLenHuffCode (d : dynHdr) : dynHdr * ierr :=
  let lc := litCount d in
  let ex := litExpandCount d in
  let countTmp := aget ex 1 in
  let nc := aset (aset (nextCode d) 0 0) 1 0 in
  let ex := aset (aset ex 0 0) 1 0 in
  let '(ex, nc, countTotal, countTmp) :=
    forN 1 15 (fun i (st : arr * arr * N * N) =>
      let '(ex, nc, countTotal, countTmp) := st in
      let countTotal := u32 (aget lc i + countTmp + countTotal) in
      let countTmp := aget ex (i + 1) in
      (aset ex (i + 1) (u16 countTotal),
       aset nc (i + 1) (shl32 (u32 (aget nc i + aget lc i)) 1), countTotal, countTmp))
      (ex, nc, 0, countTmp) in
  let countTmp := u32 (aget lc 15 + countTmp) in
  let '(ex, _, _) :=
    forN 15 22 (fun i (st : arr * N * N) =>
      let '(ex, countTotal, countTmp) := st in
      let countTotal := u32 (countTmp + countTotal) in
      let countTmp := aget ex (i + 1) in
      (aset ex (i + 1) (u16 countTotal), countTotal, countTmp))
      (ex, countTotal, countTmp) in
  let mx := u32 (aget nc 15 + aget lc 15) in
  let d1 := mkDyn (litAndDistHuff d) (clcShort d) (clcLong d) (codeList d) lc (distCount d) ex nc
                  (lenHuffCodes d) in
  if 32768 <? mx then (d1, EInvalidBlock)
  else
    let lc := forN 0 maxLitLenCount (fun i t => aset t i (aget ex i)) lc in
    let huff := litAndDistHuff d in
    let lenHuff := forN 0 29 (fun i t => aset t i (aget huff (litSymbolsSize + i))) (lenHuffCodes d) in
    let huff := forN litSymbolsSize litLenElems (fun i t => aset t i 0) huff in
    let '(huff, cl, ex, nc, pan1) := calcCodeForLit huff (codeList d) ex nc in
    let '(huff, cl, ex, nc, pan2) := expandLenCodes huff cl ex nc lenHuff in
    (mkDyn huff (clcShort d) (clcLong d) cl lc (distCount d) ex nc lenHuff,
     if pan1 || pan2 then EPanic else ENone).

(* ---------------------------------------------------------------- large table (huffcode.go) *)
Definition encodeSingles (short : arr) (d : dynHdr) (length : N) : arr * bool :=
  let start := aget (litCount d) length in
  let endi := aget (litCount d) (length + 1) in
  if (endi <? start) || (516 <? endi) then (short, true)
  else
    (forN start endi (fun k t =>
       let index := aget (codeList d) k in
       let sym := indexToSym index in
       let h := aget (litAndDistHuff d) index in
       if maxLitLenSym <? sym then t
       else aset t (hc_code h)
                 (u32 (N.lor (N.lor sym (N.shiftl (hc_len h) 28)) (N.shiftl 1 26)))) short,
     false).

Fixpoint pairs_loop (fuel : nat) (short : arr) (d : dynHdr) (length : N) (index1 iend : N)
  : arr * ierr :=
  match fuel with
  | O => (short, EFuel)
  | S f =>
    if index1 <? iend then
      let sym1Index := aget (codeList d) index1 in
      let sym1 := indexToSym sym1Index in
      let h := aget (litAndDistHuff d) sym1Index in
      let sym1Len := hc_len h in
      let sym1Code := hc_code h in
      if 256 <=? sym1 then
        pairs_loop f short d length (u16 (sub16 (aget (litCount d) (sym1Len + 1)) 1 + 1)) iend
      else
        let sym2Len := sub32 length sym1Len in
        if 22 <=? sym2Len then (short, EPanic)
        else
          let start := aget (litCount d) sym2Len in
          let endi := aget (litCount d) (sym2Len + 1) in
          if (endi <? start) || (516 <? endi) then (short, EPanic)
          else
            let '(short, _) :=
              forN start endi (fun k (a : arr * bool) =>
                let '(t, stop) := a in
                if stop then a
                else
                  let sym2Index := aget (codeList d) k in
                  let sym2 := indexToSym sym2Index in
                  if maxLitLenSym <? sym2 then (t, true)
                  else
                    let sym2Code := hc_code (aget (litAndDistHuff d) sym2Index) in
                    let code := u32 (N.lor sym1Code (shl32 sym2Code sym1Len)) in
                    let codeLen := sym1Len + sym2Len in
                    (aset t code (u32 (N.lor (N.lor (N.lor sym1 (N.shiftl sym2 8))
                                                    (N.shiftl codeLen 28)) (N.shiftl 2 26))),
                     false))
                (short, false) in
            pairs_loop f short d length (u16 (index1 + 1)) iend
    else (short, ENone)
  end.

Definition encodePairs (short : arr) (d : dynHdr) (length minLen : N) : arr * ierr :=
  pairs_loop small_fuel short d length (aget (litCount d) minLen)
             (aget (litCount d) (sub32 length minLen + 1)).

Fixpoint triples_loop2 (fuel : nat) (short : arr) (d : dynHdr) (length : N)
         (sym1 sym1Len sym1Code : N) (index2 iend2 : N) : arr * ierr :=
  match fuel with
  | O => (short, EFuel)
  | S f =>
    if index2 <? iend2 then
      let sym2Index := aget (codeList d) index2 in
      let sym2 := indexToSym sym2Index in
      let h2 := aget (litAndDistHuff d) sym2Index in
      let sym2Len := hc_len h2 in
      let sym2Code := hc_code h2 in
      if 256 <=? sym2 then
        triples_loop2 f short d length sym1 sym1Len sym1Code
                      (u16 (sub16 (aget (litCount d) (sym2Len + 1)) 1 + 1)) iend2
      else
        let sym3Len := sub32 (sub32 length sym1Len) sym2Len in
        if 22 <=? sym3Len then (short, EPanic)
        else
          let start := aget (litCount d) sym3Len in
          let endi := aget (litCount d) (sym3Len + 1) in
          let '(short, _) :=
            forN start endi (fun k (a : arr * bool) =>
              let '(t, stop) := a in
              if stop then a
              else
                let sym3Index := aget (codeList d) k in
                let sym3 := indexToSym sym3Index in
                let sym3Code := hc_code (aget (litAndDistHuff d) sym3Index) in
                if maxLitLenSym - 1 <? sym3 then (t, true)
                else
                  let code := u32 (N.lor (N.lor sym1Code (shl32 sym2Code sym1Len))
                                         (shl32 sym3Code (sym2Len + sym1Len))) in
                  let codeLen := sym1Len + sym2Len + sym3Len in
                  (aset t code
                        (u32 (N.lor (N.lor (N.lor (N.lor sym1 (N.shiftl sym2 8)) (N.shiftl sym3 16))
                                           (N.shiftl codeLen 28)) (N.shiftl 3 26))),
                   false))
              (short, false) in
          triples_loop2 f short d length sym1 sym1Len sym1Code (u16 (index2 + 1)) iend2
    else (short, ENone)
  end.

Fixpoint triples_loop1 (fuel : nat) (short : arr) (d : dynHdr) (length minLen : N)
         (index1 iend1 : N) : arr * ierr :=
  match fuel with
  | O => (short, EFuel)
  | S f =>
    if index1 <? iend1 then
      let sym1Index := aget (codeList d) index1 in
      let sym1 := indexToSym sym1Index in
      let h1 := aget (litAndDistHuff d) sym1Index in
      let sym1Len := hc_len h1 in
      let sym1Code := hc_code h1 in
      if 256 <=? sym1 then
        triples_loop1 f short d length minLen
                      (u16 (sub16 (aget (litCount d) (sym1Len + 1)) 1 + 1)) iend1
      else if sub32 length sym1Len <? 2 * minLen then (short, ENone)
      else
        let i2 := sub32 (sub32 length sym1Len) minLen + 1 in
        if 23 <=? i2 then (short, EPanic)
        else
          let '(short, e) := triples_loop2 small_fuel short d length sym1 sym1Len sym1Code
                                           (aget (litCount d) minLen) (aget (litCount d) i2) in
          match e with
          | ENone => triples_loop1 f short d length minLen (u16 (index1 + 1)) iend1
          | _ => (short, e)
          end
    else (short, ENone)
  end.

Definition encodeTriples (short : arr) (d : dynHdr) (length minLen : N) : arr * ierr :=
  triples_loop1 small_fuel short d length minLen (aget (litCount d) minLen)
                (aget (litCount d) (sub32 length (2 * minLen) + 1)).

(* encodeLongCodes: returns short, long, huff (codes marked invalidCodeValue), panic *)
Definition encodeLongCodes (short long : arr) (d : dynHdr) (codeListLen : N)
  : arr * arr * arr * bool :=
  let idx := aget (litCount d) 13 in
  let longCodeLength := sub32 codeListLen idx in
  let cl := codeList d in
  let '(short, long, huff, _, pan) :=
    forN 0 longCodeLength (fun i (st : arr * arr * arr * N * bool) =>
      let '(short, long, huff, lcl, pan) := st in
      if pan then st
      else if 516 <=? idx + i then (short, long, huff, lcl, true)
      else
        let li := aget cl (idx + i) in
        if hc_code (aget huff li) =? invalidCodeValue then st
        else
          let maxLen0 := hc_len (aget huff li) in
          let firstBits := N.land (hc_code (aget huff li)) 4095 in
          let '(maxLen, tempRev) :=
            forN (i + 1) longCodeLength (fun j (a : N * list N) =>
              let '(ml, tl) := a in
              let lj := aget cl (idx + j) in
              if N.land (hc_code (aget huff lj)) 4095 =? firstBits
              then (hc_len (aget huff lj), lj :: tl) else a)
              (maxLen0, [li]) in
          let temp := frev tempRev in
          let grp := shl32 1 (maxLen - 12) in
          (* clear the group first (fix 93d504a); x reaching len(longCodeLookup) = 1264 panics *)
          if 1264 <? lcl + grp then (short, long, huff, lcl, true)
          else
          let long := forN lcl (lcl + grp) (fun x t => aset t x 0) long in
          let '(long, huff, pan) :=
            fold_left (fun (a : arr * arr * bool) (sym1Index : N) =>
              let '(long, huff, pan) := a in
              let sym1 := indexToSym sym1Index in
              let sym1Len := hc_len (aget huff sym1Index) in
              let sym1Code := hc_code (aget huff sym1Index) in
              let longBits := N.shiftr sym1Code 12 in
              let minInc := shl32 1 (sym1Len - 12) in
              let entry := u16 (N.lor sym1 (N.shiftl sym1Len 10)) in
              let '(long, pan) := long_fill small_fuel 1264 mask32 long lcl longBits grp minInc entry pan in
              (long, aset huff sym1Index (hc_setcode (aget huff sym1Index) invalidCodeValue), pan))
              temp (long, huff, pan) in
          let short := aset short firstBits
                         (u32 (N.lor (N.lor lcl (N.shiftl maxLen 26)) largeFlagBit)) in
          (short, long, huff, u32 (lcl + grp), pan))
      (short, long, litAndDistHuff d, 0, false) in
  (short, long, huff, pan).

Definition set_dyn_huff (d : dynHdr) (h : arr) : dynHdr :=
  mkDyn h (clcShort d) (clcLong d) (codeList d) (litCount d) (distCount d) (litExpandCount d)
        (nextCode d) (lenHuffCodes d).

(* genForLitLen: returns short, long, dynHdr, error (ENone / EPanic / EFuel) *)
Definition genForLitLen (short long : arr) (d : dynHdr) (multisym : N)
  : arr * arr * dynHdr * ierr :=
  let codeListLen := aget (litCount d) (maxLitLenCount - 1) in
  if codeListLen =? 0 then (aempty, long, d, ENone)
  else
    let lastLen0 := hc_len (aget (litAndDistHuff d) (aget (codeList d) 0)) in
    let lastLen := if 12 <? lastLen0 then 13 else lastLen0 in
    let copySize := if lastLen =? 0 then 0 else N.shiftl 1 (lastLen - 1) in
    let short := forN 0 copySize (fun i t => aset t i 0) short in
    let minLen := lastLen in
    let '(short, _, err) :=
      forN lastLen 13 (fun ll (st : arr * N * ierr) =>
        let '(t, cs, err) := st in
        match err with
        | ENone =>
          let t := forN 0 (N.min cs (4096 - cs)) (fun i t => aset t (cs + i) (aget t i)) t in
          let cs := cs * 2 in
          let '(t, pan) := encodeSingles t d ll in
          if pan then (t, cs, EPanic)
          else if (singleSymFlag <=? multisym) || (ll <? 2 * minLen) then (t, cs, ENone)
          else
            let '(t, e) := encodePairs t d ll minLen in
            match e with
            | ENone =>
              if (doubleSymFlag <=? multisym) || (ll <? 3 * minLen) then (t, cs, ENone)
              else let '(t, e) := encodeTriples t d ll minLen in (t, cs, e)
            | _ => (t, cs, e)
            end
        | _ => st
        end)
        (short, copySize, ENone) in
    match err with
    | ENone =>
      let '(short, long, huff, pan) := encodeLongCodes short long d codeListLen in
      (short, long, set_dyn_huff d huff, if pan then EPanic else ENone)
    | _ => (short, long, d, err)
    end.

Definition setupDynamicHeader (s : inflate) : inflate * ierr :=
  let d := dyn s in
  let d := mkDyn aempty (clcShort d) (clcLong d) (codeList d) aempty aempty aempty (nextCode d)
                 (lenHuffCodes d) in
  let s := set_dyn s d in
  let ilen := r_inlen (rd s) in
  let multisym :=
    if negb (bfinal s =? 0) && (ilen <=? 2048) then singleSymFlag
    else if negb (bfinal s =? 0) && (ilen <=? 4096) then doubleSymFlag
    else defaultSymFlag in
  match loadBits s with
  | None => (s, EPanic)
  | Some s =>
    if (r_len (rd s) <? 14)%Z then (s, EEndInput)
    else
      let '(hlit, b) := next_bits (rd s) 5 in
      let '(hdist, b) := next_bits b 5 in
      let '(hclen, b) := next_bits b 4 in
      let s := set_rd s b in
      if (29 <? hlit) || (29 <? hdist) || (15 <? hclen) then (s, EInvalidBlock)
      else
        let '(s, err) := codeLenCodes s hclen in
        match err with
        | ENone =>
          let '(s, err) := readLitDistLens s hdist hlit in
          match err with
          | ENone =>
            if (r_len (rd s) <? 0)%Z then (s, EEndInput)
            else
              let d := dyn s in
              let '(huff, bad) := setCodes (litAndDistHuff d) litLen distLen (distCount d) in
              let d := set_dyn_huff d huff in
              let s := set_dyn s d in
              if bad then (s, EInvalidBlock)
              else
                (* codes = litAndDistHuff[litLen : litLen+distLen], as a 0-based copy *)
                let codes := forN 0 distLen (fun i t => aset t i (aget huff (litLen + i))) aempty in
                let '(dsh, dlg, codes, gerr) :=
                  gen_small false (distShort (tb s)) (distLong (tb s)) codes distLen (distCount d) distLen in
                let huff := forN 0 distLen (fun i t => aset t (litLen + i) (aget codes i)) huff in
                let d := set_dyn_huff d huff in
                let s := set_dyn (set_tb s (mkTB (litShort (tb s)) (litLong (tb s)) dsh dlg)) d in
                (* "if !genForDists(...) { return errInvalidBlock }" *)
                if negb (ierr_eqb gerr ENone) then (s, gerr)
                else
                  let '(d, err) := setAndExpandLitLenHuffCode d in
                  let s := set_dyn s d in
                  match err with
                  | ENone =>
                    let '(lsh, llg, d, err) := genForLitLen (litShort (tb s)) (litLong (tb s)) d multisym in
                    let s := set_dyn (set_tb s (mkTB lsh llg (distShort (tb s)) (distLong (tb s)))) d in
                    match err with
                    | ENone => (set_phase s phaseHeaderDecoded, ENone)
                    | _ => (s, err)
                    end
                  | _ => (s, err)
                  end
          | _ => (s, err)
          end
        | _ => (s, err)
        end
  end.

(* ---------------------------------------------------------------- inflate.go *)
Definition prepareForLitBlock (s : inflate) : inflate * ierr :=
  match loadBits s with
  | None => (s, EPanic)
  | Some s =>
    let b := rd s in
    if (r_len b <? 0)%Z then (s, EPanic)   (* excluded by tryDecodeHeader *)
    else
      let bl := Z.to_N (r_len b) in
      let bytes := u8 (bl / 8) in
      if bytes <? 4 then (s, EEndInput)
      else
        let bits := N.shiftr (r_bits b) (bl mod 8) in
        let bl := bytes * 8 in
        let len := N.land bits 0xFFFF in
        let bits := N.shiftr bits 16 in
        let nlen := N.land bits 0xFFFF in
        let bits := N.shiftr bits 16 in
        let bl := bl - 32 in
        let s1 := set_rd s (mkBR bits (Z.of_N bl) (r_in b) (r_inlen b)) in
        if negb (len =? 0xFFFF - nlen) then (s1, EInvalidBlock)
        else
          let rest := bl mod 8 in
          let '(bl, bits) := if rest =? 0 then (bl, bits) else (bl - rest, N.shiftr bits rest) in
          let bits := N.land bits (ones64 bl) in
          let s2 := set_rd s (mkBR bits (Z.of_N bl) (r_in b) (r_inlen b)) in
          (set_phase (set_litBlockLength s2 len) phaseLitBlock, ENone)
  end.

Definition tryDecodeHeader (s : inflate) : inflate * ierr :=
  match readBits s 1 with
  | None => (s, EPanic)
  | Some (bf, s) =>
    let s := set_bfinal s bf in
    match readBits s 2 with
    | None => (s, EPanic)
    | Some (btype, s) =>
      if (r_len (rd s) <? 0)%Z then (s, EEndInput)
      else if btype =? 0 then prepareForLitBlock s
      else if btype =? 1 then (setupStaticHeader s, ENone)
      else if btype =? 2 then setupDynamicHeader s
      else (s, EInvalidBlock)
    end
  end.

(* rOffset *)
Definition rOffset (s : inflate) (inputSize bitsLen0 : Z) : inflate :=
  let start := (inputSize * 8 + bitsLen0)%Z in
  let endv := (Z.of_N (r_inlen (rd s)) * 8 + r_len (rd s))%Z in
  set_roffset s (roffset s + Z.quot (start - endv) 8)%Z.

Definition readHeader (s : inflate) : inflate * ierr :=
  let b0 := rd s in
  let phase0 := phase s in
  let staged := phase0 =? phaseDecodingHeader in
  let hb := headerBuffered s in
  let copySize := N.min (maxHdrSize - hb) (r_inlen b0) in
  let tempLen := copySize + hb in
  let s1 := if staged
            then set_rd s (br_set_in b0 (headerBuffer s ++ firstn (N.to_nat copySize) (r_in b0)) tempLen)
            else s in
  let '(s2, err) := tryDecodeHeader s1 in
  match err with
  | EPanic | EFuel => (s2, err)
  | _ =>
    let read := (Z.of_N tempLen - Z.of_N (r_inlen (rd s2)) - Z.of_N hb)%Z in
    if staged && ((read <? 0)%Z || (Z.of_N (r_inlen b0) <? read)%Z) then (s2, EPanic)
    else
      let s3 := if staged
                then set_rd s2 (br_set_in (rd s2) (skipn (Z.to_nat read) (r_in b0))
                                          (r_inlen b0 - Z.to_N read))
                else s2 in
      match err with
      | EEndInput =>
        let size := N.min (maxHdrSize - hb) (r_inlen b0) in
        let s4 := set_header s3 (hb + size) (headerBuffer s ++ firstn (N.to_nat size) (r_in b0)) in
        let s5 := set_rd s4 (mkBR (r_bits b0) (r_len b0) [] 0) in
        (set_phase s5 phaseDecodingHeader, err)
      | _ => (set_header s3 0 [], err)
      end
  end.

(* ---------------------------------------------------------------- decode.go *)
(* byteCopy / copy of a match inside hist: hist[curr+i] = hist[curr-dist+i], i = 0..length-1 *)
Fixpoint byteCopy_nat (n : nat) (hist : arr) (curr dist : N) : arr :=
  match n with
  | O => hist
  | S k => byteCopy_nat k (aset hist curr (aget hist (curr - dist))) (curr + 1) dist
  end.
Definition byteCopy (hist : arr) (curr dist length : N) : arr :=
  byteCopy_nat (N.to_nat length) hist curr dist.

Fixpoint lit_drain (fuel : nat) (b : bitrd) (out : arr) (written count length : N)
  : option (bitrd * arr * N * N * bool) :=
  (* the loop "for state.bitsLen != 0"; the bool says "count == length: return" *)
  match fuel with
  | O => None
  | S f =>
    if (r_len b =? 0)%Z then Some (b, out, written, count, false)
    else
      let out := aset out written (N.land (r_bits b) 255) in
      let b := br_drop b 8 in
      let count := count + 1 in
      if count =? length then Some (b, out, written + 1, count, true)
      else lit_drain f b out (written + 1) count length
  end.

Fixpoint copy_list (l : list N) (n : nat) (out : arr) (pos : N) : arr * list N :=
  match n with
  | O => (out, l)
  | S k => match l with
           | [] => (out, l)
           | x :: r => copy_list r k (aset out pos x) (pos + 1)
           end
  end.

Definition decodeLiteralBlock (s : inflate) (out : arr) (written : N) : inflate * arr * N * ierr :=
  let s := set_phase s (if negb (bfinal s =? 0) then phaseStreamEnd else phaseNewBlock) in
  if litBlockLength s =? 0 then (s, out, written, ENone)
  else
    let length := litBlockLength s in
    let rest := outLen - written in
    let '(length, s, err) :=
      if rest <? length then (rest, set_phase s phaseLitBlock, EOutputOverflow)
      else (length, s, ENone) in
    if (ierr_eqb err EOutputOverflow) && (rest =? 0) then (s, out, written, err)
    else
      let b := rd s in
      if (r_len b <? 0)%Z then (s, out, written, EPanic)
      else
        let avail := Z.to_N (r_len b) / 8 + r_inlen b in
        let '(length, s, err) :=
          if avail <? length then (avail, set_phase s phaseLitBlock, EEndInput)
          else (length, s, err) in
        let s := set_litBlockLength s (litBlockLength s - length) in
        match lit_drain 16 b out written 0 length with
        | None => (s, out, written, EFuel)
        | Some (b, out, written, count, true) => (set_rd s b, out, written, err)
        | Some (b, out, written, count, false) =>
          let n := length - count in
          let '(out, inrest) := copy_list (r_in b) (N.to_nat n) out written in
          let num := N.min n (r_inlen b) in
          (set_rd s (mkBR 0 (r_len b) inrest (r_inlen b - num)), out, written + num, err)
        end.

Definition set_wov (s : inflate) (lits len : N) : inflate :=
  set_ov s (mkOV lits len (copyOverflowLength (ov s)) (copyOverflowDistance (ov s))).
Definition set_cov (s : inflate) (len dist : N) : inflate :=
  set_ov s (mkOV (writeOverflowLits (ov s)) (writeOverflowLen (ov s)) len dist).
Definition end_of_block (s : inflate) : inflate :=
  set_phase s (if bfinal s =? 1 then phaseStreamEnd else phaseNewBlock).

(* result of the inner "for symCount > 0" loop: go on with the outer loop, or goto FINISH *)
Inductive hres :=
| HCont (s : inflate) (b : bitrd) (out : arr) (w : N)
| HFin (s : inflate) (b : bitrd) (out : arr) (w : N) (e : ierr).

(* distance symbol lookup: returns nextDist and the bit reader; None = index panic *)
Definition dist_decode (t : tabs) (b : bitrd) : option (N * bitrd) :=
  let nextBits := N.land (r_bits b) 1023 in
  let nextSym := aget (distShort t) nextBits in
  if N.land nextSym smallFlagBit =? 0 then
    let bitCount := N.shiftr nextSym 11 in
    let b := br_drop b bitCount in
    if bitCount =? 0 then
      Some (N.land invalidSymbolValue 31, br_set_len b (r_len b - Z.of_N nextSym)%Z)
    else Some (N.land nextSym 31, b)
  else
    let bitMask := ones32 (N.shiftr (sub32 nextSym smallFlagBit) 11) in
    let nextBits := u16 (N.land (r_bits b) bitMask) in
    let idx := u16 (N.land nextSym 511 + N.shiftr nextBits 10) in
    if 80 <=? idx then None
    else
      let nextSym := aget (distLong t) idx in
      let bitCount := N.shiftr nextSym 10 in
      let b := br_drop b bitCount in
      if bitCount =? 0 then
        Some (N.land invalidSymbolValue 31, br_set_len b (r_len b - Z.of_N nextSym)%Z)
      else Some (N.land nextSym 31, b).

Fixpoint huff_inner (fuel : nat) (s : inflate) (b : bitrd) (out : arr) (w : N)
         (symCount nextLits : N) (bTemp : bitrd) (wTemp : N) : hres :=
  match fuel with
  | O => HFin s b out w EFuel
  | S f =>
    if symCount =? 0 then HCont s b out w
    else
      let nextLit := N.land nextLits 0xFFFF in
      if (nextLit <? 256) || (1 <? symCount) then
        if w =? outLen then
          let s := set_wov s nextLits symCount in
          let nextLits := N.shiftr nextLits (8 * (symCount - 1)) in
          if nextLits <? 256 then HFin s b out w EOutputOverflow
          else if nextLits =? 256 then
            let s := set_wov s (writeOverflowLits (ov s)) (writeOverflowLen (ov s) - 1) in
            HFin (end_of_block s) b out w EOutputOverflow
          else
            let s := set_wov s (writeOverflowLits (ov s)) (writeOverflowLen (ov s) - 1) in
            huff_inner f s b out w 1 nextLits bTemp wTemp     (* continue *)
        else
          huff_inner f s b (aset out w (N.land nextLit 255)) (w + 1)
                     (symCount - 1) (N.shiftr nextLits 8) bTemp wTemp
      else if nextLit =? 256 then
        huff_inner f (end_of_block s) b out w (symCount - 1) (N.shiftr nextLits 8) bTemp wTemp
      else if nextLit <=? maxLitLenSym then
        let repeatLength := nextLit - 254 in
        match load_le15 b with
        | None => HFin s b out w EPanic
        | Some b =>
          match dist_decode (tb s) b with
          | None => HFin s b out w EPanic
          | Some (nextDist, b) =>
            let step2 (b : bitrd) (lookBackDist : N) : hres :=
              if (r_len b <? 0)%Z then
                HFin (set_wov s 0 0) bTemp out wTemp EEndInput
              else if w <? lookBackDist then HFin s b out w EInvalidLookBack
              else
                let availOut := outLen - w in
                let '(s, repeatLength) :=
                  if availOut <? repeatLength
                  then (set_cov s (repeatLength - availOut) lookBackDist, availOut)
                  else (s, repeatLength) in
                let out := byteCopy out w lookBackDist repeatLength in
                let w := w + repeatLength in
                if 0 <? copyOverflowLength (ov s) then HFin s b out w EOutputOverflow
                else huff_inner f s b out w (symCount - 1) (N.shiftr nextLits 8) bTemp wTemp in
            if (0 <=? r_len b)%Z then
              if distLen <=? nextDist then HFin s b out w EInvalidSymbol
              else
                let bitCount := aget rfc_dist_extra nextDist in
                match load_lt57 b with
                | None => HFin s b out w EPanic
                | Some b =>
                  let '(extraBits, b) := next_bits b bitCount in
                  step2 b (aget rfc_dist_start nextDist + extraBits)
                end
            else step2 b 0
          end
        end
      else HFin s b out w EInvalidSymbol
  end.

(* one literal/length table lookup: returns the bit reader, symCount, nextLits; None = panic *)
Definition litlen_decode (t : tabs) (b : bitrd) : option (bitrd * N * N) :=
  let nextBits := N.land (r_bits b) 4095 in
  let nextSym := aget (litShort t) nextBits in
  if N.land nextSym largeFlagBit =? 0 then
    let bitCount := N.shiftr nextSym 28 in
    let b := br_drop b bitCount in
    let nextSym := if bitCount =? 0 then invalidSymbolValue else nextSym in
    Some (b, N.land (N.shiftr nextSym 26) 3, N.land nextSym largeShortSymMask)
  else
    let bitMask := ones32 (N.shiftr nextSym 26) in
    let nextBits := N.land (u32 (r_bits b)) bitMask in
    let idx := N.land nextSym largeShortSymMask + N.shiftr nextBits 12 in
    if 1264 <=? idx then None
    else
      let nextSym := aget (litLong t) idx in
      let bitCount := N.shiftr nextSym 10 in
      let b := br_drop b bitCount in
      let nextSym := if bitCount =? 0 then invalidSymbolValue else nextSym in
      Some (b, 1, N.land nextSym 1023).

Fixpoint huff_outer (fuel : nat) (s : inflate) (b : bitrd) (out : arr) (w : N)
  : inflate * bitrd * arr * N * ierr :=
  match fuel with
  | O => (s, b, out, w, EFuel)
  | S f =>
    if phase s =? phaseHeaderDecoded then
      match load_lt57 b with
      | None => (s, b, out, w, EPanic)
      | Some b =>
        let bTemp := b in
        let wTemp := w in
        match load_le15 b with
        | None => (s, b, out, w, EPanic)
        | Some b =>
          match litlen_decode (tb s) b with
          | None => (s, b, out, w, EPanic)
          | Some (b, symCount, nextLits) =>
            if symCount =? 0 then (s, b, out, w, EInvalidSymbol)
            else if (r_len b <? 0)%Z then (s, bTemp, out, w, EEndInput)
            else
              match huff_inner 8 s b out w symCount nextLits bTemp wTemp with
              | HCont s b out w => huff_outer f s b out w
              | HFin s b out w e => (s, b, out, w, e)
              end
          end
        end
      end
    else (s, b, out, w, ENone)
  end.

(* decodeHuffman = decodeHuffmanLargeLoop (acceleration level 0) *)
Definition decodeHuffman (s : inflate) (out : arr) (written : N) : inflate * arr * N * ierr :=
  let s := set_cov s 0 0 in
  let '(s, b, out, w, err) := huff_outer big_fuel s (rd s) out written in
  (* FINISH *)
  if (r_len b <? 0)%Z then
    (* bit length of bits > bitsLen holds, and 1 << bitsLen panics (never reached) *)
    (set_rd s b, out, w, match err with EFuel => EFuel | _ => EPanic end)
  else
    let bl := Z.to_N (r_len b) in
    let bits := if bl <? N.size (r_bits b) then N.land (r_bits b) (ones64 bl) else r_bits b in
    (set_rd s (br_set_bits b bits), out, w, err).

(* ---------------------------------------------------------------- bufio.Reader over a chunked source *)
Inductive terminal := TEOF | TErr.
Inductive berror := BEOF | BSrc | BNoProgress | BBufferFull.

Record bufrd := mkBuf {
  bsize : N;                 (* len(b.buf) *)
  bbuf : list N; blen : N;   (* b.buf[b.r:b.w] and its length *)
  berr : option berror;      (* b.err *)
  chunks : list (list N);    (* what the source will still deliver *)
  term : terminal;
  consumed : N               (* total bytes discarded (bookkeeping for the tester) *)
}.

(* source.Read(p) with len p = space: one chunk, or the part of it that fits *)
Fixpoint take_upto (l : list N) (space : N) (acc : list N) (cnt : N) : list N * N * list N :=
  match l with
  | [] => (frev acc, cnt, [])
  | x :: r => if space =? 0 then (frev acc, cnt, l) else take_upto r (space - 1) (x :: acc) (cnt + 1)
  end.

Definition src_read (cs : list (list N)) (t : terminal) (space : N)
  : list N * N * option berror * list (list N) :=
  match cs with
  | [] => ([], 0, Some (match t with TEOF => BEOF | TErr => BSrc end), [])
  | c :: rest =>
    let '(got, n, lft) := take_upto c space [] 0 in
    (got, n, None, match lft with [] => rest | _ => lft :: rest end)
  end.

Fixpoint fill_loop (i : nat) (b : bufrd) : bufrd :=
  match i with
  | O => mkBuf (bsize b) (bbuf b) (blen b) (Some BNoProgress) (chunks b) (term b) (consumed b)
  | S k =>
    let '(got, n, err, cs) := src_read (chunks b) (term b) (bsize b - blen b) in
    let b := mkBuf (bsize b) (bbuf b ++ got) (blen b + n) (berr b) cs (term b) (consumed b) in
    match err with
    | Some e => mkBuf (bsize b) (bbuf b) (blen b) (Some e) (chunks b) (term b) (consumed b)
    | None => if 0 <? n then b else fill_loop k b
    end
  end.

(* fill; None = "bufio: tried to fill full buffer" *)
Definition bfill (b : bufrd) : option bufrd :=
  if bsize b <=? blen b then None else Some (fill_loop 100 b).

Definition bBuffered (b : bufrd) : N := blen b.

Fixpoint peek_loop (fuel : nat) (b : bufrd) (n : N) : option bufrd :=
  match fuel with
  | O => None
  | S f =>
    if (blen b <? n) && (blen b <? bsize b) && (match berr b with None => true | _ => false end)
    then match bfill b with None => None | Some b => peek_loop f b n end
    else Some b
  end.

(* Peek: returns the bytes, their number, the error; None = out of fuel *)
Definition bPeek (b : bufrd) (n : N) : option (list N * N * option berror * bufrd) :=
  match peek_loop big_fuel b n with
  | None => None
  | Some b =>
    if bsize b <? n then Some (bbuf b, blen b, Some BBufferFull, b)
    else if blen b <? n then
      let err := match berr b with Some e => Some e | None => Some BBufferFull end in
      Some (bbuf b, blen b, err,
            mkBuf (bsize b) (bbuf b) (blen b) None (chunks b) (term b) (consumed b))
    else Some (firstn (N.to_nat n) (bbuf b), n, None, b)
  end.

Fixpoint discard_loop (fuel : nat) (b : bufrd) (remain : N) : option (option berror * bufrd) :=
  match fuel with
  | O => None
  | S f =>
    let ob := if blen b =? 0 then bfill b else Some b in
    match ob with
    | None => None
    | Some b =>
      let skip := N.min (blen b) remain in
      let b := mkBuf (bsize b) (skipn (N.to_nat skip) (bbuf b)) (blen b - skip) (berr b)
                     (chunks b) (term b) (consumed b + skip) in
      let remain := remain - skip in
      if remain =? 0 then Some (None, b)
      else match berr b with
           | Some e => Some (Some e, mkBuf (bsize b) (bbuf b) (blen b) None (chunks b) (term b)
                                           (consumed b))
           | None => discard_loop f b remain
           end
    end
  end.

(* Discard(n), n > 0 *)
Definition bDiscard (b : bufrd) (n : N) : option (option berror * bufrd) :=
  if n =? 0 then Some (None, b) else discard_loop big_fuel b n.

(* ---------------------------------------------------------------- reader.go *)
Inductive rres := ROk | REOF | RUnexpectedEOF | RCorrupt (off : Z) | RSrcErr | RNoProgress
                | RBufferFull | RPanic | RStuck.

Record decompressor := mkD {
  state : inflate;
  writePos : N; readPos : N;
  hist : arr;                       (* historyBuffer [2*historySize+lookAhead]uint8 *)
  rBuf : bufrd;
  derr : option rres;               (* f.err; None = nil *)
  peekSize : N; eof : bool; haveBits : bool
}.

Definition newReader (bufsize : N) (cs : list (list N)) (t : terminal) : decompressor :=
  mkD inflate0 0 0 aempty (mkBuf (N.max bufsize 16) [] 0 None cs t 0) None 0 false false.

Definition rres_of_berror (e : berror) : rres :=
  match e with BEOF => REOF | BSrc => RSrcErr | BNoProgress => RNoProgress
             | BBufferFull => RBufferFull end.

Definition set_state (f : decompressor) (s : inflate) : decompressor :=
  mkD s (writePos f) (readPos f) (hist f) (rBuf f) (derr f) (peekSize f) (eof f) (haveBits f).

Fixpoint decomp_loop (fuel : nat) (s : inflate) (out : arr) (idx : N) : inflate * arr * N * ierr :=
  match fuel with
  | O => (s, out, idx, EFuel)
  | S f =>
    if phase s =? phaseStreamEnd then (s, out, idx, ENone)
    else
      let '(s, err) :=
        if (phase s =? phaseNewBlock) || (phase s =? phaseDecodingHeader) then readHeader s
        else (s, ENone) in
      match err with
      | ENone =>
        let '(s, out, idx, err) :=
          if phase s =? phaseLitBlock then decodeLiteralBlock s out idx
          else decodeHuffman s out idx in
        match err with
        | ENone => decomp_loop f s out idx
        | _ => (s, out, idx, err)
        end
      | _ => (s, out, idx, err)
      end
  end.

(* decomperss: returns the new decompressor (state, hist, writePos) and the error *)
Definition decomperss (f : decompressor) : decompressor * ierr :=
  let '(s, h, idx, err) := decomp_loop big_fuel (state f) (hist f) (writePos f) in
  let '(s, h, idx) :=
    if negb (writeOverflowLen (ov s) =? 0) then
      let v := u32 (writeOverflowLits (ov s)) in
      let h := aset (aset (aset (aset h idx (N.land v 255)) (idx + 1) (N.land (N.shiftr v 8) 255))
                          (idx + 2) (N.land (N.shiftr v 16) 255)) (idx + 3) (N.shiftr v 24) in
      (set_wov s 0 0, h, idx + writeOverflowLen (ov s))
    else (s, h, idx) in
  let '(s, h, idx) :=
    if negb (copyOverflowLength (ov s) =? 0) then
      (set_cov s 0 0, byteCopy h idx (copyOverflowDistance (ov s)) (copyOverflowLength (ov s)),
       idx + copyOverflowLength (ov s))
    else (s, h, idx) in
  (mkD s idx (readPos f) h (rBuf f) (derr f) (peekSize f) (eof f) (haveBits f), err).

(* the "discard what was consumed, forget the input" block of step (second site; the first site
   is step_discard_at below); Some e = Discard failed with e *)
Definition step_discard (f : decompressor) : option (option berror * decompressor) :=
  let s := state f in
  let discardSize := (Z.of_N (peekSize f) - Z.of_N (r_inlen (rd s)) - Z.quot (r_len (rd s)) 8)%Z in
  let finish (f : decompressor) :=
    set_state f (set_inputNil (set_rd (state f) (br_set_in (rd (state f)) [] 0)) true) in
  if (0 <? discardSize)%Z then
    match bDiscard (rBuf f) (Z.to_N discardSize) with
    | None => None
    | Some (Some e, rb) =>
      Some (Some e, mkD (state f) (writePos f) (readPos f) (hist f) rb (derr f) (peekSize f) (eof f)
                        (haveBits f))
    | Some (None, rb) =>
      Some (None, finish (mkD (state f) (writePos f) (readPos f) (hist f) rb (derr f) (peekSize f)
                              (eof f) (haveBits f)))
    end
  else Some (None, finish f).

(* The first Discard site of step (the "isError(err) || (err == errEndInput && f.eof)" branch)
   since fix b29ee69: "held := 0; if state.bitsLen > 0 { held = int(state.bitsLen / 8) }".
   step_discard_at held f is step_discard f with Z.quot bitsLen 8 replaced by held. *)
Definition step_discard_at (held : Z) (f : decompressor) : option (option berror * decompressor) :=
  let s := state f in
  let discardSize := (Z.of_N (peekSize f) - Z.of_N (r_inlen (rd s)) - held)%Z in
  let finish (f : decompressor) :=
    set_state f (set_inputNil (set_rd (state f) (br_set_in (rd (state f)) [] 0)) true) in
  if (0 <? discardSize)%Z then
    match bDiscard (rBuf f) (Z.to_N discardSize) with
    | None => None
    | Some (Some e, rb) =>
      Some (Some e, mkD (state f) (writePos f) (readPos f) (hist f) rb (derr f) (peekSize f) (eof f)
                        (haveBits f))
    | Some (None, rb) =>
      Some (None, finish (mkD (state f) (writePos f) (readPos f) (hist f) rb (derr f) (peekSize f)
                              (eof f) (haveBits f)))
    end
  else Some (None, finish f).
Definition held_nonneg (f : decompressor) : Z :=
  let bl := r_len (rd (state f)) in if (0 <? bl)%Z then Z.quot bl 8 else 0%Z.

(* step: returns the error (None = nil) *)
Definition step (f : decompressor) : decompressor * option rres :=
  if phase (state f) =? phaseFinish then (f, Some REOF)
  else
    (* if state.input == nil { ... } *)
    let r1 : decompressor * option rres :=
      if inputNil (state f) then
        if (r_len (rd (state f)) <? 0)%Z then (f, Some RPanic)
        else
          let held := Z.to_N (Z.quot (r_len (rd (state f))) 8) in
          let f := mkD (state f) (writePos f) (readPos f) (hist f) (rBuf f) (derr f) (peekSize f)
                       false (haveBits f) in
          let r0 : decompressor * option rres :=
            if (bBuffered (rBuf f) <=? held) && negb (haveBits f) then
              match bPeek (rBuf f) (held + 1) with
              | None => (f, Some RStuck)
              | Some (_, _, e, rb) =>
                let f := mkD (state f) (writePos f) (readPos f) (hist f) rb (derr f) (peekSize f)
                             (eof f) (haveBits f) in
                match e with
                | Some BSrc => (f, Some RSrcErr)
                | Some BNoProgress => (f, Some RNoProgress)
                | Some BEOF =>
                  (mkD (state f) (writePos f) (readPos f) (hist f) (rBuf f) (derr f) (peekSize f)
                       true (haveBits f), None)
                | _ => (f, None)
                end
              end
            else (f, None) in
          match r0 with
          | (f, Some e) => (f, Some e)
          | (f, None) =>
            match bPeek (rBuf f) (bBuffered (rBuf f)) with
            | None => (f, Some RStuck)
            | Some (bytes, n, _, rb) =>
              if n <? held then (f, Some RPanic)
              else
                let s := state f in
                let s := set_inputNil (set_rd s (br_set_in (rd s) (skipn (N.to_nat held) bytes)
                                                           (n - held))) false in
                (mkD s (writePos f) (readPos f) (hist f) rb (derr f) n (eof f) (haveBits f), None)
            end
          end
      else (f, None) in
    match r1 with
    | (f, Some e) => (f, Some e)
    | (f, None) =>
      let readPos1 := writePos f in
      let '(h, readPos1, writePos1) :=
        if historySize * 2 <=? readPos1 then
          (forN 0 historySize (fun i h => aset h i (aget h (readPos1 - historySize + i))) (hist f),
           historySize, historySize)
        else (hist f, readPos1, writePos f) in
      let f := mkD (state f) writePos1 readPos1 h (rBuf f) (derr f) (peekSize f) (eof f) (haveBits f) in
      let startInputSize := Z.of_N (r_inlen (rd (state f))) in
      let startBitsLen := r_len (rd (state f)) in
      let '(f, e) := decomperss f in
      let f := set_state f (rOffset (state f) startInputSize startBitsLen) in
      let f := mkD (state f) (writePos f) (readPos f) (hist f) (rBuf f) (derr f) (peekSize f) (eof f)
                   (negb (ierr_eqb e EEndInput)) in
      match e with
      | EPanic => (f, Some RPanic)
      | EFuel => (f, Some RStuck)
      | _ =>
        if isError e || (ierr_eqb e EEndInput && eof f) then
          match step_discard_at (held_nonneg f) f with
          | None => (f, Some RStuck)
          | Some (Some be, f) => (f, Some (rres_of_berror be))
          | Some (None, f) =>
            if ierr_eqb e EEndInput then (f, Some RUnexpectedEOF)
            else (f, Some (RCorrupt (roffset (state f))))
          end
        else
          let '(f, ret) :=
            if phase (state f) =? phaseStreamEnd
            then (set_state f (set_phase (state f) phaseFinish), Some REOF)
            else (f, None) in
          if (r_inlen (rd (state f)) =? 0) || (phase (state f) =? phaseFinish) then
            match step_discard f with
            | None => (f, Some RStuck)
            | Some (Some be, f) => (f, Some (rres_of_berror be))
            | Some (None, f) => (f, ret)
            end
          else (f, ret)
      end
    end.

Fixpoint hist_slice (n : nat) (h : arr) (pos : N) : list N :=
  match n with O => [] | S k => aget h pos :: hist_slice k h (pos + 1) end.

Definition set_err (f : decompressor) (e : option rres) : decompressor :=
  mkD (state f) (writePos f) (readPos f) (hist f) (rBuf f) e (peekSize f) (eof f) (haveBits f).

(* Read(b) with len b = plen *)
Fixpoint read_loop (fuel : nat) (f : decompressor) (plen : N) : decompressor * list N * rres :=
  match fuel with
  | O => (f, [], RStuck)
  | S k =>
    if readPos f <? writePos f then
      let num := N.min plen (writePos f - readPos f) in
      let bytes := hist_slice (N.to_nat num) (hist f) (readPos f) in
      let f := mkD (state f) (writePos f) (readPos f + num) (hist f) (rBuf f) (derr f) (peekSize f)
                   (eof f) (haveBits f) in
      if writePos f =? readPos f
      then (f, bytes, match derr f with Some e => e | None => ROk end)
      else (f, bytes, ROk)
    else
      match derr f with
      | Some e => (f, [], e)
      | None =>
        let '(f, e) := step f in
        let f := set_err f e in
        match e with
        | Some e' => if writePos f <=? readPos f then (f, [], e') else read_loop k f plen
        | None => read_loop k f plen
        end
      end
  end.

Definition dRead (f : decompressor) (plen : N) : decompressor * list N * rres :=
  read_loop big_fuel f plen.

Fixpoint erun_loop (f : decompressor) (reads : list N) (acc : list (list N * rres))
  : list (list N * rres) * decompressor :=
  match reads with
  | [] => (frev acc, f)
  | p :: rest =>
    let '(f, bytes, r) := dRead f p in
    match r with
    | ROk => erun_loop f rest ((bytes, r) :: acc)
    | _ => (frev ((bytes, r) :: acc), f)
    end
  end.

(* the results of the successive Read calls, and the number of source bytes consumed
   (sum of the Discards) at the end *)
Definition erun_ext (bufsize : N) (cs : list (list N)) (t : terminal) (reads : list N)
  : list (list N * rres) * N :=
  let '(l, f) := erun_loop (newReader bufsize cs t) reads [] in
  (l, consumed (rBuf f)).

Definition erun (bufsize : N) (cs : list (list N)) (t : terminal) (reads : list N)
  : list (list N * rres) :=
  fst (erun_ext bufsize cs t reads).

(* Entry point for a line-protocol driver: result codes as small numbers
   (0 ok, 1 EOF, 2 UnexpectedEOF, 3 Corrupt, 4 SrcErr, 5 NoProgress, 6 BufferFull, 7 Panic,
   8 Stuck), the terminal as a bool; the second component is the number of source bytes consumed. *)
Definition rres_code (r : rres) : N :=
  match r with
  | ROk => 0 | REOF => 1 | RUnexpectedEOF => 2 | RCorrupt _ => 3 | RSrcErr => 4
  | RNoProgress => 5 | RBufferFull => 6 | RPanic => 7 | RStuck => 8
  end.

Definition erun_obs (bufsize : N) (chunks : list (list N)) (term_is_err : bool) (reads : list N)
  : list (list N * N) * N :=
  let '(l, c) := erun_ext bufsize chunks (if term_is_err then TErr else TEOF) reads in
  (frev (fold_left (fun acc (br : list N * rres) => (fst br, rres_code (snd br)) :: acc) l []), c).
