(* EngineRefineSpecHdr.v -- block headers: tryDecodeHeader and readHeader (with its 328-byte
   staging buffer) of RModel/Engine.v against the reference (Spec/Inflate.v). *)
From Coq Require Import List NArith ZArith Bool.
From Verif Require Import Bits Huffman Inflate InflateSpec InflateMono.
From Verif Require Import Base EngineTables Engine EngineRefineSpec EngineRefineSpecBlock.
Import ListNotations.
Open Scope N_scope.

(* What a successfully decoded block header leaves in the inflate state s', against the
   reference reading the same header from the stream S; e = continuation of the stream. *)
Definition hdr_result (s' : inflate) (S : bs) (e : list bool) : Prop :=
  exists bf s1 bt s2,
    take 1 S = Some (bf, s1) /\ take 2 s1 = Some (bt, s2) /\ bfinal s' = bf /\
    ((bt = 1 /\ phase s' = phaseHeaderDecoded /\
      exists lt dt, fixed_tries = Some (lt, dt) /\ tabs_for (tb s') lt dt /\
                    bl s2 = br_bits (rd s') ++ e) \/
     (bt = 2 /\ phase s' = phaseHeaderDecoded /\
      exists lt dt s3, dyn_header s2 = HOk (lt, dt) s3 /\ tabs_for (tb s') lt dt /\
                       bl s3 = br_bits (rd s') ++ e) \/
     (bt = 0 /\ phase s' = phaseLitBlock /\
      exists len s4 nlen s5,
        take 16 (align s2) = Some (len, s4) /\ take 16 s4 = Some (nlen, s5) /\
        len + nlen = 65535 /\ litBlockLength s' = len /\
        bl s5 = br_bits (rd s') ++ e /\ (r_len (rd s') mod 8 = 0)%Z)).

(* frame of the header functions *)
Definition same_hdr_frame (s s' : inflate) : Prop :=
  inputNil s' = inputNil s /\ ov s' = ov s /\ roffset s' = roffset s.

(* tryDecodeHeader (3 header bits, then stored / fixed / dynamic set-up) *)
Definition tryDecodeHeader_refine_statement : Prop :=
  setupDynamicHeader_refine_body -> prepareForLitBlock_refine_statement ->
  static_lit_tab_ok_statement -> static_dist_tab_ok_statement ->
  forall s e p,
    br_wf (rd s) -> (0 <= r_len (rd s))%Z -> ((Z.of_N p + r_len (rd s)) mod 8 = 0)%Z ->
    let '(s', err) := tryDecodeHeader s in
    same_hdr_frame s s' /\ headerBuffered s' = headerBuffered s /\ headerBuffer s' = headerBuffer s /\
    (err = ENone ->
       br_wf (rd s') /\ (0 <= r_len (rd s'))%Z /\
       hdr_result s' (mkbs (br_bits (rd s) ++ e) p) e).

(* A block header never needs 300 bytes: when tryDecodeHeader runs out of input, the input
   it was given was short.  (A dynamic header has at most 3 + 14 + 57 bits plus 316 code
   lengths of at most 7 bits each, the repeat codes covering at least 3 lengths with at most
   14 bits: < 290 bytes.)  This is what makes the 328-byte staging buffer of readHeader
   sufficient. *)
Definition header_bound_statement : Prop :=
  forall s s', br_wf (rd s) -> (0 <= r_len (rd s))%Z ->
    tryDecodeHeader s = (s', EEndInput) -> r_inlen (rd s) <= 300.

(* The bits a state between blocks still holds: the bit buffer, then the staged header bytes
   (phase DecodingHeader only), then the input. *)
Definition lrd (s : inflate) : bitrd :=
  mkBR (r_bits (rd s)) (r_len (rd s)) (headerBuffer s ++ r_in (rd s))
       (headerBuffered s + r_inlen (rd s)).
Definition lbits (s : inflate) : list bool := br_bits (lrd s).

Definition hdr_ok (s : inflate) : Prop :=
  br_wf (lrd s) /\ (0 <= r_len (rd s))%Z /\
  headerBuffered s = N.of_nat (length (headerBuffer s)) /\ headerBuffered s <= 300 /\
  (phase s = phaseNewBlock \/ phase s = phaseDecodingHeader) /\
  (phase s = phaseNewBlock -> headerBuffer s = []).

(* readHeader: either the header is decoded (from the staged bytes plus the input if a
   previous attempt ran out of input), or it runs out of input again and everything it was
   given is kept (bit buffer restored, input appended to the staging buffer), or an error. *)
Definition readHeader_refine_statement : Prop :=
  tryDecodeHeader_refine_statement -> header_bound_statement ->
  setupDynamicHeader_refine_body -> prepareForLitBlock_refine_statement ->
  static_lit_tab_ok_statement -> static_dist_tab_ok_statement ->
  forall s e p,
    hdr_ok s -> ((Z.of_N p + r_len (rd s)) mod 8 = 0)%Z ->
    let '(s', err) := readHeader s in
    same_hdr_frame s s' /\
    (err = ENone ->
       br_wf (rd s') /\ (0 <= r_len (rd s'))%Z /\ headerBuffer s' = [] /\ headerBuffered s' = 0 /\
       hdr_result s' (mkbs (lbits s ++ e) p) e) /\
    (err = EEndInput ->
       hdr_ok s' /\ phase s' = phaseDecodingHeader /\ lbits s' = lbits s /\
       r_in (rd s') = [] /\ r_inlen (rd s') = 0 /\
       r_bits (rd s') = r_bits (rd s) /\ r_len (rd s') = r_len (rd s)).
