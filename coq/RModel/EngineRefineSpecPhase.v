(* EngineRefineSpecPhase.v -- phaseFinish (5) is only ever set by step: the decode loop keeps
   the phase within 0..4 whatever happens (also on errors). *)
From Coq Require Import List NArith ZArith Bool.
From Verif Require Import Base EngineTables Engine.
From Verif Require Import EngineRefineSpec EngineRefineSpecBlock.
Import ListNotations.
Open Scope N_scope.

Definition decomp_phase_statement : Prop :=
  forall fuel s out w,
    phase s <= 4 ->
    let '(s', out', w', err) := decomp_loop fuel s out w in
    phase s' <= 4 /\
    let '(s2, _, _) := flush_ov s' out' w' in phase s2 <= 4.
