(* EngineCompleteSpecF.v -- completeness side, part F: EXACT end-of-input facts.
   "The engine reports the end of its input" (errEndInput) at a point where it has been given
   all the data means: the reference, on the same data, stops with NeedInput (not Corrupt), and
   has decoded at most 2 bytes more than the engine has produced (the literals at the front of
   one rolled-back multi-symbol table entry).  Consequences: a stream the reference calls
   Corrupt is answered with a CorruptInputError (never with unexpected EOF / the source's
   error), and when the source blocks or fails after a prefix p, all of out (inflate [] p) but
   at most 2 bytes has been handed out. *)
From Coq Require Import List NArith ZArith Bool.
From Verif Require Import Bits Huffman Inflate InflateSpec InflateMono.
From Verif Require Import Base EngineTables Engine EngineRefineSpec EngineRefineSpecBlock
     EngineRefineSpecBlock3 EngineRefineSpecHdr EngineRefineSpecNeed EngineRefineSpecReach
     EngineRefineSpecBuf EngineRefineSpecTop EngineRefineSpecFinal
     EngineCompleteSpecA EngineCompleteSpecB EngineCompleteSpecReach EngineCompleteSpecC
     EngineCompleteSpecD EngineCompleteSpecE.
Import ListNotations.
Open Scope N_scope.

(* the reference, at a block boundary with stream S, needs more input for the block header *)
Definition ref_need (S : bs) : Prop := forall st, block1 st S = SStop st S NeedInput.

(* ---------------------------------------------------------------- headers: exact versions of
   the statements of EngineRefineSpecNeed.v (there: "does not succeed"; here: "NeedInput") *)
Definition codeLenCodes_need3_statement : Prop :=
  gen_clc_statement ->
  forall s hclen p,
    br_wf (rd s) -> (0 <= r_len (rd s))%Z -> br_loaded 12 (rd s) -> hclen <= 15 ->
    snd (codeLenCodes s hclen) = EEndInput ->
    read_clens (N.to_nat hclen + 4) (mkbs (br_bits (rd s)) p) = HStop NeedInput.

Definition readLitDistLens_need3_statement : Prop :=
  canon_pad_statement ->
  forall s hlit hdist clens ct p,
    br_wf (rd s) -> (0 <= r_len (rd s))%Z -> hlit <= 29 -> hdist <= 29 ->
    Forall (fun x => (x <= 7)%nat) clens -> oversubscribed 7 clens = false ->
    (length clens <= 19)%nat ->
    mktrie 7 clens = Some ct ->
    clc_tab_ok clens (clcShort (dyn s)) (clcLong (dyn s)) ->
    arr_zero (litAndDistHuff (dyn s)) -> arr_zero (litCount (dyn s)) ->
    arr_zero (distCount (dyn s)) -> arr_zero (litExpandCount (dyn s)) ->
    let '(s', err) := readLitDistLens s hdist hlit in
    (err = EEndInput \/ (err = ENone /\ (r_len (rd s') < 0)%Z)) ->
    let n := (N.to_nat hlit + 257 + (N.to_nat hdist + 1))%nat in
    read_lens n ct n [] (mkbs (br_bits (rd s)) p) = HStop NeedInput.

Definition setupDynamicHeader_need3_body : Prop :=
  forall s p,
    br_wf (rd s) -> (0 <= r_len (rd s))%Z ->
    snd (setupDynamicHeader s) = EEndInput ->
    dyn_header (mkbs (br_bits (rd s)) p) = HStop NeedInput.

Definition setupDynamicHeader_need3_statement : Prop :=
  canon_pad_statement -> gen_clc_statement -> codeLenCodes_refine_statement ->
  codeLenCodes_need3_statement -> readLitDistLens_need3_statement ->
  setupDynamicHeader_need3_body.

Definition tryDecodeHeader_need3_body : Prop :=
  forall s p,
    br_wf (rd s) -> (0 <= r_len (rd s))%Z -> ((Z.of_N p + r_len (rd s)) mod 8 = 0)%Z ->
    snd (tryDecodeHeader s) = EEndInput ->
    ref_need (mkbs (br_bits (rd s)) p).

(* the exact form of hdr_need *)
Definition hdr_need3 (s : inflate) (p : N) : Prop :=
  phase s = phaseDecodingHeader -> ref_need (mkbs (hbits s) p).

Definition readHeader_need3_body : Prop :=
  forall s p,
    hdr_ok s -> hdr_ok_staged s -> ((Z.of_N p + r_len (rd s)) mod 8 = 0)%Z -> hdr_need3 s p ->
    let '(s', err) := readHeader s in
    (err = EEndInput -> hdr_need3 s' p) /\
    (err = ENone -> qbytes s' <= qbytes s).

(* ---------------------------------------------------------------- decodeHuffman: the reference
   gets at most 2 bytes ahead of the engine before it needs input *)
Definition decodeHuffman_outcome3_body : Prop :=
  forall s out w lt dt st p,
    br_wf (rd s) -> (0 <= r_len (rd s))%Z ->
    phase s = phaseHeaderDecoded -> (bfinal s = 0 \/ bfinal s = 1) ->
    ov s = ov0 ->
    tabs_for2 (tb s) lt dt -> win_rel out w st -> w <= outLen ->
    let '(s', out', w', err) := decodeHuffman s out w in
    (err = EEndInput ->
       r_in (rd s') = [] /\
       exists st2 bs2,
         sym_run lt dt st (mkbs (br_bits (rd s)) p) st2 bs2 false /\
         (exists a b, sym1 lt dt st2 bs2 = SStop a b NeedInput) /\
         olen st2 <= olen st + (w' - w) + 2) /\
    (isError err = true ->
       forall e, exists st' bs' a b x,
         sym_run lt dt st (mkbs (br_bits (rd s) ++ e) p) st' bs' false /\
         sym1 lt dt st' bs' = SStop a b x /\ (x = Corrupt \/ x = NeedInput) /\
         ((15 <= length e)%nat -> x = Corrupt)) /\
    (err = ENone \/ err = EEndInput \/ err = EOutputOverflow \/ isError err = true \/
     err = EPanic \/ err = EFuel).

(* ---------------------------------------------------------------- the simulation with hdr_need3 *)
Definition st_sim3 (s : inflate) (c : rcfg) (e : list bool) : Prop :=
  st_sim2 s c e /\
  match c with CBlock st S0 => hdr_need3 s (bp S0) | _ => True end.

(* the reference on the whole data stops with NeedInput at most 2 bytes after the output of c' *)
Definition end_fact (data : list N) (c' : rcfg) : Prop :=
  status (Inflate.inflate [] data) = NeedInput /\
  exists z, out (Inflate.inflate [] data) = frev (rout (cfg_st c')) ++ z /\ (length z <= 2)%nat.

Definition decomp_body3 : Prop :=
  forall data fuel s out w c u,
    Forall (fun x => x < 256) data ->
    reach data c -> st_sim3 s c (bits_of_bytes u) ->
    win_rel out w (cfg_st c) -> w <= outLen ->
    let '(s', out', w', err) := decomp_loop fuel s out w in
    let '(s2, out2, w2) := flush_ov s' out' w' in
    (exists c',
      reach data c' /\ win_rel out2 w2 (cfg_st c') /\ w <= w2 /\ w2 <= outLen + 261 /\
      (exists v, rout (cfg_st c') = v ++ rout (cfg_st c) /\ N.of_nat (length v) = w2 - w) /\
      inputNil s2 = inputNil s /\
      (err <> EPanic -> err <> EFuel -> isError err = false ->
         st_sim3 s2 c' (bits_of_bytes u) /\
         qbytes s2 <= qbytes s /\
         (err = ENone \/ err = EEndInput \/ err = EOutputOverflow) /\
         (err = ENone -> phase s2 = phaseStreamEnd) /\
         (phase s2 = phaseDecodingHeader ->
            err = EEndInput /\ r_in (rd s2) = [] /\ r_inlen (rd s2) = 0)) /\
      (err = EEndInput -> u = [] -> end_fact data c')) /\
    (isError err = true -> strict data -> status (Inflate.inflate [] data) <> Done).

Definition decomp3_statement : Prop :=
  readHeader_refine_body2 -> readHeader_need3_body -> readHeader_reject_body ->
  decodeHuffman_refine3_statement -> decodeHuffman_outcome3_body ->
  decodeLiteralBlock_refine_statement ->
  reach_inv_statement -> reach_complete_statement -> reach_sym_run_statement ->
  reach_sym_stop_statement -> reach_block_stop_statement -> reach_stored_stop_statement ->
  decomp_body3.

(* ---------------------------------------------------------------- whole runs *)
(* (B), exact: the final result of a run with enough reads and no fatal outcome, against the
   status of the reference *)
Definition erun_kinds3_statement : Prop :=
  forall data cs bufsize t reads,
    Forall (fun x => x < 256) data -> concat cs = data -> Forall (fun c => c <> []) cs ->
    enough_reads data reads ->
    let '(l, ncons) := erun_ext bufsize cs t reads in
    no_fatal l ->
    exists bytes r, last l ([], ROk) = (bytes, r) /\ l <> [] /\
      (r = REOF \/ r = RUnexpectedEOF \/ r = RSrcErr \/ exists o, r = RCorrupt o) /\
      (status (Inflate.inflate [] data) = Done -> strict data -> r = REOF) /\
      (r = REOF -> status (Inflate.inflate [] data) = Done) /\
      (status (Inflate.inflate [] data) = Corrupt -> exists o, r = RCorrupt o) /\
      (r = RUnexpectedEOF -> t = TEOF /\ status (Inflate.inflate [] data) = NeedInput) /\
      (r = RSrcErr -> t = TErr /\ status (Inflate.inflate [] data) = NeedInput) /\
      (* progress: when the source ends or fails, all but at most 2 bytes of what the reference
         decodes from the data delivered have been handed out *)
      (r = RUnexpectedEOF \/ r = RSrcErr ->
         exists z, out (Inflate.inflate [] data) = results_bytes l ++ z /\ (length z <= 2)%nat).
