(* EngineRefineSpecBlock.v -- block-level refinement statements (M5 and the header/stored-block
   parts of M6): the decode loops of RModel/Engine.v against the reference (Spec/Inflate.v,
   one-step functions of proofs/InflateMono.v).
   Conventions: `e` is any continuation of the bit stream (the bits of the input the engine
   has not been given yet), `p` the absolute bit position of the reference. *)
From Coq Require Import List NArith ZArith Bool.
From Verif Require Import Bits Huffman Inflate InflateSpec InflateMono.
From Verif Require Import Base EngineTables Engine EngineRefineSpec.
Import ListNotations.
Open Scope N_scope.

(* ---------------------------------------------------------------- output window *)
(* The engine's history buffer `out` with write position w, against the reference output
   state st (rout: newest byte first): the w bytes below w are the last w bytes produced, and
   either everything produced is still there (w = olen) or at least a full 32 KiB window is
   (after a slide). *)
Definition win_rel (out : arr) (w : N) (st : ostate) : Prop :=
  oavail st = olen st /\ olen st = N.of_nat (length (rout st)) /\
  w <= olen st /\ (w = olen st \/ 32768 <= w) /\
  (forall i, i < w -> aget out (w - 1 - i) = nth (N.to_nat i) (rout st) 0).

(* the engine's tables decode the codes of the tries lt, dt *)
Definition tabs_for (t : tabs) (lt dt : trie) : Prop :=
  exists ll dl, mktrie 15 ll = Some lt /\ mktrie 15 dl = Some dt /\
                lit_tab_ok ll t /\ dist_tab_ok dl t.

(* a run of the reference over whole symbols of one compressed block: from (st, s) to
   (st', s'); ended = the end-of-block symbol was the last one *)
Inductive sym_run (lt dt : trie) : ostate -> bs -> ostate -> bs -> bool -> Prop :=
| sr_refl : forall st s, sym_run lt dt st s st s false
| sr_step : forall st s st1 s1 st2 s2 b,
    sym1 lt dt st s = SCont st1 s1 -> sym_run lt dt st1 s1 st2 s2 b -> sym_run lt dt st s st2 s2 b
| sr_end : forall st s st1 s1,
    sym1 lt dt st s = SEnd st1 s1 -> sym_run lt dt st s st1 s1 true.

(* what decomperss does with the overflow fields after the decode loop returned: the parked
   literals (up to 3) and the rest of a match cut at the 64 KiB boundary go to the
   look-ahead area behind the boundary *)
Definition flush_ov (s : inflate) (h : arr) (idx : N) : inflate * arr * N :=
  let '(s, h, idx) :=
    if negb (writeOverflowLen (ov s) =? 0) then
      let v := u32 (writeOverflowLits (ov s)) in
      let h := aset (aset (aset (aset h idx (N.land v 255)) (idx + 1) (N.land (N.shiftr v 8) 255))
                          (idx + 2) (N.land (N.shiftr v 16) 255)) (idx + 3) (N.shiftr v 24) in
      (set_wov s 0 0, h, idx + writeOverflowLen (ov s))
    else (s, h, idx) in
  if negb (copyOverflowLength (ov s) =? 0) then
    (set_cov s 0 0, byteCopy h idx (copyOverflowDistance (ov s)) (copyOverflowLength (ov s)),
     idx + copyOverflowLength (ov s))
  else (s, h, idx).

(* fields of the inflate state a block decoder does not touch *)
Definition same_static (s s' : inflate) : Prop :=
  inputNil s' = inputNil s /\ tb s' = tb s /\ bfinal s' = bfinal s /\
  headerBuffered s' = headerBuffered s /\ headerBuffer s' = headerBuffer s /\
  dyn s' = dyn s /\ roffset s' = roffset s.

(* ---------------------------------------------------------------- M5: decodeHuffman *)
(* One call of decodeHuffman (= decodeHuffmanLargeLoop) followed by the overflow flush of
   decomperss.  In EVERY case (also errors, Go panics and fuel exhaustion of the model) the
   bytes in the window are what the reference produces on a run over whole symbols from the
   same point (never more: roll-back of a multi-symbol entry or of a length whose distance
   code is incomplete returns to a symbol boundary).  Unless the result is a panic / out of
   fuel: the reader is well formed, non-negative and holds exactly the rest of the stream;
   the phase says whether the block ended; nil means the block ended; "end of input" means
   it did not. *)
Definition decodeHuffman_refine_statement : Prop :=
  forall s out w lt dt st e p,
    br_wf (rd s) -> (0 <= r_len (rd s))%Z ->
    phase s = phaseHeaderDecoded -> (bfinal s = 0 \/ bfinal s = 1) ->
    writeOverflowLen (ov s) = 0 ->
    tabs_for (tb s) lt dt -> win_rel out w st -> w <= outLen ->
    let '(s', out', w', err) := decodeHuffman s out w in
    let '(s2, out2, w2) := flush_ov s' out' w' in
    exists st' bs' ended,
      sym_run lt dt st (mkbs (br_bits (rd s) ++ e) p) st' bs' ended /\
      win_rel out2 w2 st' /\ w <= w' /\ w' <= outLen /\ w' <= w2 /\ w2 <= outLen + 261 /\
      (w' < w2 -> err = EOutputOverflow \/ isError err = true \/ err = EPanic \/ err = EFuel) /\
      same_static s s' /\ litBlockLength s' = litBlockLength s /\
      same_static s' s2 /\ rd s2 = rd s' /\ phase s2 = phase s' /\
      litBlockLength s2 = litBlockLength s' /\ ov s2 = ov0 /\
      (err <> EPanic -> err <> EFuel -> isError err = false ->
         br_wf (rd s') /\ (0 <= r_len (rd s'))%Z /\ bl bs' = br_bits (rd s') ++ e /\
         phase s' = (if ended then (if bfinal s =? 1 then phaseStreamEnd else phaseNewBlock)
                     else phaseHeaderDecoded) /\
         (err = ENone -> ended = true) /\ (err = EEndInput -> ended = false) /\
         (err = ENone \/ err = EEndInput \/ err = EOutputOverflow) /\
         (err = EOutputOverflow -> w' = outLen)).

(* ---------------------------------------------------------------- stored blocks *)
(* prepareForLitBlock (after the 3 header bits): skip to the byte boundary, LEN, NLEN.
   (p + bitsLen) is a multiple of 8: the buffered bits end at a byte boundary of the stream,
   which is how "bitsLen mod 8" finds the boundary. *)
Definition prepareForLitBlock_refine_statement : Prop :=
  forall s e p,
    br_wf (rd s) -> (0 <= r_len (rd s))%Z ->
    ((Z.of_N p + r_len (rd s)) mod 8 = 0)%Z ->
    let '(s', err) := prepareForLitBlock s in
    same_static s s' /\ ov s' = ov s /\
    (err = EEndInput \/ err = EInvalidBlock \/ err = ENone) /\
    (err = EEndInput -> r_in (rd s') = [] /\ br_wf (rd s')) /\
    (err = ENone ->
       br_wf (rd s') /\ (0 <= r_len (rd s'))%Z /\ (r_len (rd s') mod 8 = 0)%Z /\
       phase s' = phaseLitBlock /\
       exists len s4 nlen s5,
         take 16 (align (mkbs (br_bits (rd s) ++ e) p)) = Some (len, s4) /\
         take 16 s4 = Some (nlen, s5) /\ len + nlen = 65535 /\
         litBlockLength s' = len /\ bl s5 = br_bits (rd s') ++ e).

(* decodeLiteralBlock: copies min(litBlockLength, room, available) bytes: exactly the
   reference's `stored` on that many bytes *)
Definition decodeLiteralBlock_refine_statement : Prop :=
  forall s out w st e p,
    br_wf (rd s) -> (0 <= r_len (rd s))%Z -> (r_len (rd s) mod 8 = 0)%Z ->
    phase s = phaseLitBlock -> (bfinal s = 0 \/ bfinal s = 1) ->
    win_rel out w st -> w <= outLen -> litBlockLength s < 65536 ->
    let '(s', out', w', err) := decodeLiteralBlock s out w in
    exists k st' bs',
      k <= litBlockLength s /\ litBlockLength s' = litBlockLength s - k /\ w' = w + k /\
      w' <= outLen /\
      stored (N.to_nat k) st (mkbs (br_bits (rd s) ++ e) p) = (st', bs', true) /\
      win_rel out' w' st' /\
      same_static s s' /\ ov s' = ov s /\
      (err = ENone \/ err = EEndInput \/ err = EOutputOverflow \/ err = EPanic \/ err = EFuel) /\
      (err <> EPanic -> err <> EFuel ->
         br_wf (rd s') /\ (0 <= r_len (rd s'))%Z /\ (r_len (rd s') mod 8 = 0)%Z /\
         bl bs' = br_bits (rd s') ++ e /\
         (err = ENone -> k = litBlockLength s /\
            phase s' = (if bfinal s =? 1 then phaseStreamEnd else phaseNewBlock)) /\
         (err <> ENone -> phase s' = phaseLitBlock) /\
         (err = EEndInput -> r_in (rd s') = [] /\ (r_len (rd s') = 0)%Z) /\
         (err = EOutputOverflow -> w' = outLen)).
