(* EngineCompleteSpecC.v -- completeness side, part C: the multi-block loop and the top level.
   Standing hypothesis: byte values < 256.  The statements about whole runs take "no Read
   result is RPanic or RStuck" as a premise (no_fatal: the memory-safety / termination theorem
   of proofs/EngineSafety.v discharges it under its side conditions). *)
From Coq Require Import List NArith ZArith Bool.
From Verif Require Import Bits Huffman Inflate InflateSpec InflateMono.
From Verif Require Import Base EngineTables Engine EngineRefineSpec EngineRefineSpecBlock
     EngineRefineSpecBlock3 EngineRefineSpecHdr EngineRefineSpecNeed EngineRefineSpecReach
     EngineRefineSpecBuf EngineRefineSpecTop EngineRefineSpecFinal
     EngineCompleteSpecA EngineCompleteSpecB EngineCompleteSpecReach.
Import ListNotations.
Open Scope N_scope.

(* the quantified part of decodeHuffman_outcome_statement *)
Definition decodeHuffman_outcome_body : Prop :=
  forall s out w lt dt st p,
    br_wf (rd s) -> (0 <= r_len (rd s))%Z ->
    phase s = phaseHeaderDecoded -> (bfinal s = 0 \/ bfinal s = 1) ->
    ov s = ov0 ->
    tabs_for (tb s) lt dt -> win_rel out w st -> w <= outLen ->
    let '(s', out', w', err) := decodeHuffman s out w in
    (err = EEndInput ->
       r_in (rd s') = [] /\
       exists st2 bs2,
         sym_run lt dt st (mkbs (br_bits (rd s)) p) st2 bs2 false /\
         exists a b, sym1 lt dt st2 bs2 = SStop a b NeedInput) /\
    (isError err = true ->
       forall e, exists st' bs' ended,
         sym_run lt dt st (mkbs (br_bits (rd s) ++ e) p) st' bs' ended /\ ended = false /\
         exists a b, sym1 lt dt st' bs' = SStop a b Corrupt) /\
    (err = ENone \/ err = EEndInput \/ err = EOutputOverflow \/ isError err = true \/
     err = EPanic \/ err = EFuel).

(* What the two non-fatal "bad" outcomes of the block loop mean for the reference run on the
   whole data:  an error on a strict stream, or "end of input" when the state has been given
   all the data (no unseen input: u = []), can only happen if the reference does not say Done. *)
Definition decomp_outcome_body : Prop :=
  forall data fuel s out w c u,
    Forall (fun x => x < 256) data ->
    reach data c -> st_sim s c (bits_of_bytes u) ->
    win_rel out w (cfg_st c) -> w <= outLen ->
    let '(s', out', w', err) := decomp_loop fuel s out w in
    (isError err = true -> strict data -> status (Inflate.inflate [] data) <> Done) /\
    (err = EEndInput -> u = [] -> status (Inflate.inflate [] data) <> Done).

Definition decomp_outcome_statement : Prop :=
  readHeader_refine_body -> readHeader_need_body -> readHeader_reject_body ->
  decodeHuffman_refine3_statement -> decodeHuffman_outcome_body ->
  decodeLiteralBlock_refine_statement ->
  reach_inv_statement -> reach_complete_statement -> reach_sym_run_statement ->
  decomp_outcome_body.

(* ---------------------------------------------------------------- whole runs *)
Definition no_fatal (l : list (list N * rres)) : Prop :=
  Forall (fun x => snd x <> RPanic /\ snd x <> RStuck) l.

(* reads are sufficient: all positive, and more of them than the reference output has bytes
   (every Read that returns nil error hands out at least one byte) *)
Definition enough_reads (data : list N) (reads : list N) : Prop :=
  Forall (fun p => 0 < p) reads /\
  (length (out (Inflate.inflate [] data)) < length reads)%nat.

(* (C) COMPLETENESS: on a strict stream that the reference inflates completely, with enough
   reads and no fatal outcome, some Read returns io.EOF (and then, by erun_sound, everything
   has been returned and exactly (bitpos+7)/8 source bytes were consumed). *)
Definition erun_complete_statement : Prop :=
  forall data cs bufsize t reads,
    Forall (fun x => x < 256) data -> concat cs = data -> Forall (fun c => c <> []) cs ->
    status (Inflate.inflate [] data) = Done -> strict data ->
    enough_reads data reads ->
    let '(l, ncons) := erun_ext bufsize cs t reads in
    no_fatal l ->
    In REOF (map snd l) /\
    results_bytes l = out (Inflate.inflate [] data) /\
    ncons = (bitpos (Inflate.inflate [] data) + 7) / 8.

(* (B) ERROR KINDS: with enough reads and no fatal outcome the run ends with a non-nil result,
   which is: io.EOF iff the reference says Done (on strict streams); otherwise unexpected EOF
   (source ended: TEOF), the source's error (TErr), or corrupt; unexpected EOF / source error
   are only reported for streams the reference does not complete; corrupt is only reported
   for streams the reference does not complete or that are not strict. *)
Definition erun_kinds_statement : Prop :=
  forall data cs bufsize t reads,
    Forall (fun x => x < 256) data -> concat cs = data -> Forall (fun c => c <> []) cs ->
    enough_reads data reads ->
    let '(l, ncons) := erun_ext bufsize cs t reads in
    no_fatal l ->
    exists bytes r, last l ([], ROk) = (bytes, r) /\ l <> [] /\
      (r = REOF \/ r = RUnexpectedEOF \/ r = RSrcErr \/ exists o, r = RCorrupt o) /\
      (r = REOF -> status (Inflate.inflate [] data) = Done) /\
      (status (Inflate.inflate [] data) = Done -> strict data -> r = REOF) /\
      (r = RUnexpectedEOF -> t = TEOF /\ status (Inflate.inflate [] data) <> Done) /\
      (r = RSrcErr -> t = TErr /\ status (Inflate.inflate [] data) <> Done) /\
      ((exists o, r = RCorrupt o) -> strict data -> status (Inflate.inflate [] data) <> Done).
