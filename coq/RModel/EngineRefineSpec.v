(* EngineRefineSpec.v -- statements relating the executable model of the Go decoder
   (RModel/Engine.v) to the reference inflater (Spec/Inflate.v).
   Proofs: proofs/EngineRefine*.v.  Nothing is proved here; every statement is a
   `Definition ..._statement : Prop`.

   Part 1 (M1): the bit buffer as an abstract bit stream. *)
From Coq Require Import List NArith ZArith Bool.
From Verif Require Import Bits Huffman Inflate.
From Verif Require Import Base EngineTables Engine.
Import ListNotations.
Open Scope N_scope.

(* ---------------------------------------------------------------- M1: bit buffer *)

(* The unread bits held by a bit reader: the r_len low bits of r_bits, least significant
   first, followed by the bits of the input bytes not yet loaded. *)
Definition br_bits (b : bitrd) : list bool :=
  bits_of_N (Z.to_nat (r_len b)) (r_bits b) ++ bits_of_bytes (r_in b).

(* Well-formedness.  The Go code leaves stale bits above bitsLen in `bits` (the 64-bit load
   ORs whole bytes in and only counts the bytes that fit; the rest is ORed in again by the
   next load).  What makes this harmless is the last clause: every bit set in r_bits is a
   bit of the stream at the same position (so above r_len only bits of the input still to
   come can be set, and once the input is exhausted r_bits is exactly the r_len held bits). *)
Definition br_wf (b : bitrd) : Prop :=
  r_inlen b = N.of_nat (length (r_in b)) /\
  (r_len b <= 64)%Z /\
  ((r_len b < 0)%Z -> r_in b = []) /\
  Forall (fun x => x < 256) (r_in b) /\
  (forall i, N.testbit (r_bits b) i = true -> nth (N.to_nat i) (br_bits b) false = true).

(* "k bits can be looked at": they are buffered, or the input is exhausted (then the
   missing bits read as zeros: phantom bits, detected afterwards by r_len < 0) *)
Definition br_loaded (k : Z) (b : bitrd) : Prop := r_in b = [] \/ (k <= r_len b)%Z.

(* the stream padded with zeros *)
Definition padded (l : list bool) (k : nat) : list bool := firstn k (l ++ repeat false k).

(* the loads keep the abstract stream *)
Definition load_raw_bits_statement : Prop :=
  forall b, br_wf b ->
    exists b', load_raw b = Some b' /\ br_wf b' /\ br_bits b' = br_bits b /\
               br_loaded 57 b' /\ (r_len b <= r_len b')%Z /\
               (0 <= r_len b -> 0 <= r_len b')%Z.
Definition load_lt57_bits_statement : Prop :=
  forall b, br_wf b ->
    exists b', load_lt57 b = Some b' /\ br_wf b' /\ br_bits b' = br_bits b /\
               br_loaded 57 b' /\ (r_len b <= r_len b')%Z.
Definition load_le15_bits_statement : Prop :=
  forall b, br_wf b ->
    exists b', load_le15 b = Some b' /\ br_wf b' /\ br_bits b' = br_bits b /\
               br_loaded 16 b' /\ (r_len b <= r_len b')%Z.

(* looking at k bits = the first k bits of the zero-padded stream *)
Definition peek_bits_statement : Prop :=
  forall b k, br_wf b -> br_loaded (Z.of_N k) b ->
    N.land (r_bits b) (N.ones k) = N_of_bits (padded (br_bits b) (N.to_nat k)).

(* dropping k buffered bits *)
Definition br_drop_bits_statement : Prop :=
  forall b k, br_wf b -> (Z.of_N k <= r_len b)%Z ->
    br_wf (br_drop b k) /\ br_bits (br_drop b k) = skipn (N.to_nat k) (br_bits b) /\
    (N.to_nat k <= length (br_bits b))%nat.

(* dropping more than there is: only once the input is exhausted; the reader goes negative
   (the decode loops test this and roll back) and the stream was indeed too short *)
Definition br_drop_short_statement : Prop :=
  forall b k, br_wf b -> r_in b = [] -> (0 <= r_len b < Z.of_N k)%Z ->
    br_wf (br_drop b k) /\ (r_len (br_drop b k) < 0)%Z /\
    (length (br_bits b) < N.to_nat k)%nat.

(* nextBits with enough bits buffered is Spec.Bits.take, on any continuation e of the
   stream (the bits the engine has not been given yet) *)
Definition next_bits_take_statement : Prop :=
  forall b k e p, br_wf b -> (Z.of_N k <= r_len b)%Z ->
    let '(v, b') := next_bits b k in
    br_wf b' /\
    take (N.to_nat k) (mkbs (br_bits b ++ e) p) = Some (v, mkbs (br_bits b' ++ e) (p + k)).

(* readBits (loadBits; nextBits) on the inflate state: either the k bits are there and it is
   `take`, or the reader went negative and the engine's whole input has fewer than k bits *)
Definition readBits_take_statement : Prop :=
  forall s k e p, br_wf (rd s) -> (0 <= r_len (rd s))%Z -> k <= 57 ->
    exists v s', readBits s k = Some (v, s') /\ br_wf (rd s') /\
      s' = set_rd s (rd s') /\
      ((0 <= r_len (rd s'))%Z ->
         take (N.to_nat k) (mkbs (br_bits (rd s) ++ e) p) = Some (v, mkbs (br_bits (rd s') ++ e) (p + k))) /\
      ((r_len (rd s') < 0)%Z ->
         r_in (rd s') = [] /\ (length (br_bits (rd s)) < N.to_nat k)%nat).

(* ================================================================ Part 2 (M2, M3): tables *)

(* A canonical code word (len, c) appears in the stream most significant bit first
   (Huffman.code_bits); read as a number, LSB = first bit, the word is rcode len c
   (the bit reversal of c on len bits). *)
Definition rcode (len : nat) (c : N) : N := N_of_bits (code_bits len c).

(* the next bits of the buffer (r_bits) start with the code word (len, c) *)
Definition cw_match (v : N) (len : nat) (c : N) : Prop :=
  N.land v (N.ones (N.of_nat len)) = rcode len c.

(* bitsLen -= k, nothing else (what the decoder does for the codes of the invalid distance
   symbols 30 and 31 of the fixed code: the table entry is the bare code length) *)
Definition br_sub_len (b : bitrd) (k : N) : bitrd :=
  mkBR (r_bits b) (r_len b - Z.of_N k)%Z (r_in b) (r_inlen b).

(* ---- M2: distance table.  Total characterisation of dist_decode against the canonical code
   of the length vector dl: if the buffer starts with the code word of d, the lookup returns d
   and drops exactly its length; if it starts with no code word, the lookup returns the
   invalid symbol 31 and consumes nothing. *)
Definition dist_tab_ok (dl : lens) (t : tabs) : Prop :=
  forall b : bitrd,
    (forall d len c, In (d, len, c) (canon dl) -> cw_match (r_bits b) len c ->
       dist_decode t b =
       Some (if (d <? 30)%nat then (N.of_nat d, br_drop b (N.of_nat len))
             else (31, br_sub_len b (N.of_nat len)))) /\
    ((forall d len c, In (d, len, c) (canon dl) -> ~ cw_match (r_bits b) len c) ->
       dist_decode t b = Some (31, b)).

(* the same for the code-length code (clcTable, GenerateForHeader) *)
Definition clc_tab_ok (cl : lens) (clcS clcL : arr) : Prop :=
  forall b : bitrd,
    (forall d len c, In (d, len, c) (canon cl) -> cw_match (r_bits b) len c ->
       clc_decode clcS clcL b = Some (N.of_nat d, br_drop b (N.of_nat len))) /\
    ((forall d len c, In (d, len, c) (canon cl) -> ~ cw_match (r_bits b) len c) ->
       clc_decode clcS clcL b = Some (511, b)).

(* How a length vector sits in the arrays after the code lengths were read: entry base+i of
   huff is the bare length (code 0), count is the histogram of the non-zero lengths. *)
Definition lens_in (l : lens) (base n : N) (huff count : arr) : Prop :=
  (length l <= N.to_nat n)%nat /\ Forall (fun x => (x <= 15)%nat) l /\
  (forall i, i < n -> aget huff (base + i) = hc_set 0 (N.of_nat (nth (N.to_nat i) l 0%nat))) /\
  (forall x, 1 <= x <= 15 -> aget count x = count_len l (N.to_nat x)).

(* genForDists as called by setupDynamicHeader: setCodes on huffs[286:316], copy, gen_small
   false with maxSymbol = 30, starting from ANY previous table contents. *)
Definition gen_dist_statement : Prop :=
  forall dl huff count sh0 lg0,
    lens_in dl 286 30 huff count ->
    let '(huff', bad) := setCodes huff 286 30 count in
    bad = oversubscribed 15 dl /\
    (forall i, i < 286 -> aget huff' i = aget huff i) /\
    (bad = false ->
       let codes := forN 0 30 (fun i t => aset t i (aget huff' (286 + i))) aempty in
       let '(sh, lg, _, e) := gen_small false sh0 lg0 codes 30 count 30 in
       e = ENone -> forall ls ll, dist_tab_ok dl (mkTB ls ll sh lg)).

(* GenerateForHeader as called by codeLenCodes: setCodes on the 19 code-length-code lengths
   (all < 8), gen_small true *)
Definition gen_clc_statement : Prop :=
  forall cl huff count sh0 lg0,
    lens_in cl 0 19 huff count -> Forall (fun x => (x <= 7)%nat) cl ->
    let '(huff', bad) := setCodes huff 0 19 count in
    bad = oversubscribed 7 cl /\
    (bad = false ->
       let '(sh, lg, _, e) := gen_small true sh0 lg0 huff' 19 count 19 in
       e = ENone /\ clc_tab_ok cl sh lg).

(* ---- M3: literal/length table.  The engine's alphabet: literals 0..255, end of block 256,
   and "expanded" length symbols 257..512: one symbol per (length symbol, extra-bits value),
   with value length + 254 (expandLenCodes folds the extra bits into the code: the extended
   code word is the code word followed by the extra bits).  Both spellings of length 258
   (symbol 284 with extra 31, symbol 285) give 512.
   xcodes: (engine symbol, total number of bits, value read LSB-first). *)
Definition xcodes (ll : lens) : list (N * nat * N) :=
  flat_map (fun e : nat * nat * N =>
    let '(s, len, c) := e in
    if (s <=? 256)%nat then [(N.of_nat s, len, rcode len c)]
    else match nth_error len_table (s - 257) with
         | None => []                                          (* 286, 287 *)
         | Some (base, ebits) =>
           map (fun x => (base + x + 254, (len + N.to_nat ebits)%nat,
                          rcode len c + x * 2 ^ N.of_nat len))
               (seqN 0 (N.to_nat (2 ^ ebits)))
         end) (canon ll).

Definition xmatch (v : N) (len : nat) (val : N) : Prop :=
  N.land v (N.ones (N.of_nat len)) = val.

(* v starts with the extended code words of the symbols syms (with their lengths), one after
   the other *)
Fixpoint xseq (xc : list (N * nat * N)) (v : N) (syms : list (N * nat)) : Prop :=
  match syms with
  | [] => True
  | (s, len) :: r =>
    (exists val, In (s, len, val) xc /\ xmatch v len val) /\
    xseq xc (N.shiftr v (N.of_nat len)) r
  end.

(* sym1 | sym2 << 8 | sym3 << 16 *)
Fixpoint pack_syms (syms : list (N * nat)) : N :=
  match syms with
  | [] => 0
  | (s, _) :: r => s + 256 * pack_syms r
  end.
Definition syms_bits (syms : list (N * nat)) : nat := fold_right (fun x a => (snd x + a)%nat) 0%nat syms.

(* all symbols but the last are literals *)
Fixpoint lits_then_any (syms : list (N * nat)) : Prop :=
  match syms with
  | [] => True
  | [_] => True
  | (s, _) :: r => s < 256 /\ lits_then_any r
  end.

(* Total characterisation of litlen_decode: either it returns 1, 2 or 3 symbols whose extended
   code words are the next bits (all but the last literals), packed, and drops exactly their
   bits; or the buffer starts with no extended code word and it returns an invalid result
   (symCount 0, or one symbol > 512) without consuming anything.  Which packing is chosen
   (multi-symbol mode, 12-bit limit, ...) is left open: any valid one is allowed. *)
Definition lit_tab_ok (ll : lens) (t : tabs) : Prop :=
  forall b : bitrd,
    (exists syms,
       (1 <= length syms <= 3)%nat /\ lits_then_any syms /\
       xseq (xcodes ll) (r_bits b) syms /\
       litlen_decode t b =
       Some (br_drop b (N.of_nat (syms_bits syms)), N.of_nat (length syms), pack_syms syms)) \/
    ((forall s len val, In (s, len, val) (xcodes ll) -> ~ xmatch (r_bits b) len val) /\
     exists cnt lits, litlen_decode t b = Some (b, cnt, lits) /\
                      (cnt = 0 \/ (cnt = 1 /\ 512 < N.land lits 0xFFFF))).

(* How the literal/length lengths sit in dynHdr after readLitDistLens: bare lengths in
   huffs[0..286), histogram in litCount, and litExpandCount holds (mod 2^16) for every L the
   number of expanded codes of expanded length L minus the number of length symbols >= 264 of
   code length L. *)
Definition exp_delta (ll : lens) (L : N) : Z :=
  fold_right (fun s acc =>
    let len := N.of_nat (nth (N.to_nat s) ll 0%nat) in
    let extra := aget rfc_len_extra (s - 257) in
    Z.add (if len =? 0 then 0%Z
           else Z.sub (if len + extra =? L then Z.of_N (2 ^ extra) else 0%Z)
                      (if len =? L then 1%Z else 0%Z)) acc)
    0%Z (seqN 264 22).

Definition lit_lens_in (ll : lens) (d : dynHdr) : Prop :=
  lens_in ll 0 286 (litAndDistHuff d) (litCount d) /\
  aget (litExpandCount d) 0 = 0 /\
  (forall L, 1 <= L -> aget (litExpandCount d) L = Z.to_N (exp_delta ll L mod 65536)).

(* setAndExpandLitLenHuffCode + genForLitLen as called by setupDynamicHeader, from ANY
   previous table contents and any multi-symbol mode *)
Definition gen_litlen_statement : Prop :=
  forall ll d sh0 lg0 multisym,
    lit_lens_in ll d ->
    let '(d1, e1) := setAndExpandLitLenHuffCode d in
    (e1 = EInvalidBlock <-> oversubscribed 15 ll = true) /\
    (e1 = ENone ->
       let '(sh, lg, _, e2) := genForLitLen sh0 lg0 d1 multisym in
       e2 = ENone -> forall ds dl, lit_tab_ok ll (mkTB sh lg ds dl)).

(* ---- M3a: the static tables (fixed code) *)
Definition static_tabs : tabs := mkTB static_lit_short static_lit_long static_dist_short static_dist_long.
Definition static_lit_tab_ok_statement : Prop := lit_tab_ok fixed_lit_lens static_tabs.
Definition static_dist_tab_ok_statement : Prop := dist_tab_ok fixed_dist_lens static_tabs.

(* ================================================================ Part 3 (M4): dynamic header *)

(* frame: everything of the inflate state except the bit reader, dynHdr, the tables and the
   phase is unchanged *)
Definition same_frame (s s' : inflate) : Prop :=
  inputNil s' = inputNil s /\ ov s' = ov s /\ bfinal s' = bfinal s /\
  litBlockLength s' = litBlockLength s /\ headerBuffered s' = headerBuffered s /\
  headerBuffer s' = headerBuffer s /\ roffset s' = roffset s.

Definition arr_zero (a : arr) : Prop := forall i, aget a i = 0.

(* codeLenCodes: the (hclen+4) three-bit lengths, read as the reference's read_clens does, on
   any continuation e of the bits the engine holds; then the code-length-code table.
   12 bits are looked at before the reload inside codeLenCodes: the caller has loaded. *)
Definition codeLenCodes_refine_statement : Prop :=
  gen_clc_statement ->
  forall s hclen e p,
    br_wf (rd s) -> (0 <= r_len (rd s))%Z -> br_loaded 12 (rd s) -> hclen <= 15 ->
    let '(s', err) := codeLenCodes s hclen in
    br_wf (rd s') /\ same_frame s s' /\ tb s' = tb s /\ phase s' = phase s /\
    litAndDistHuff (dyn s') = litAndDistHuff (dyn s) /\ litCount (dyn s') = litCount (dyn s) /\
    distCount (dyn s') = distCount (dyn s) /\ litExpandCount (dyn s') = litExpandCount (dyn s) /\
    (err = ENone ->
       (0 <= r_len (rd s'))%Z /\
       exists cl,
         read_clens (N.to_nat hclen + 4) (mkbs (br_bits (rd s) ++ e) p)
         = HOk cl (mkbs (br_bits (rd s') ++ e) (p + 3 * (hclen + 4))) /\
         let clens := scatter clen_order cl (repeat 0%nat 19) in
         oversubscribed 7 clens = false /\
         clc_tab_ok clens (clcShort (dyn s')) (clcLong (dyn s'))).

(* readLitDistLens: the run-length coded code lengths, as the reference's read_lens reads
   them; what it leaves in dynHdr represents the two length vectors.  (The engine tests for
   "ran out of input" after the fact: the statement is about runs that end with bitsLen >= 0.) *)
Definition readLitDistLens_refine_statement : Prop :=
  forall s hlit hdist clens ct e p,
    br_wf (rd s) -> (0 <= r_len (rd s))%Z -> hlit <= 29 -> hdist <= 29 ->
    mktrie 7 clens = Some ct ->
    clc_tab_ok clens (clcShort (dyn s)) (clcLong (dyn s)) ->
    arr_zero (litAndDistHuff (dyn s)) -> arr_zero (litCount (dyn s)) ->
    arr_zero (distCount (dyn s)) -> arr_zero (litExpandCount (dyn s)) ->
    let '(s', err) := readLitDistLens s hdist hlit in
    br_wf (rd s') /\ same_frame s s' /\ tb s' = tb s /\ phase s' = phase s /\
    (err = ENone -> (0 <= r_len (rd s'))%Z ->
       let nlit := (N.to_nat hlit + 257)%nat in
       let ndist := (N.to_nat hdist + 1)%nat in
       exists all p',
         read_lens (nlit + ndist) ct (nlit + ndist) [] (mkbs (br_bits (rd s) ++ e) p)
         = HOk all (mkbs (br_bits (rd s') ++ e) p') /\
         length all = (nlit + ndist)%nat /\
         let ll := firstn nlit all in
         let dl := skipn nlit all in
         nth 256 ll 0%nat <> 0%nat /\
         lit_lens_in ll (dyn s') /\
         lens_in dl 286 30 (litAndDistHuff (dyn s')) (distCount (dyn s'))).

(* setupDynamicHeader accepts a header only if the reference accepts it, parses the same two
   codes from the same bits, and builds tables that decode exactly these codes *)
Definition setupDynamicHeader_refine_body : Prop :=
  forall s e p,
    br_wf (rd s) -> (0 <= r_len (rd s))%Z ->
    let '(s', err) := setupDynamicHeader s in
    br_wf (rd s') /\ same_frame s s' /\
    (err = ENone ->
       (0 <= r_len (rd s'))%Z /\ phase s' = phaseHeaderDecoded /\
       exists ll dl lt dt p',
         dyn_header (mkbs (br_bits (rd s) ++ e) p) = HOk (lt, dt) (mkbs (br_bits (rd s') ++ e) p') /\
         mktrie 15 ll = Some lt /\ mktrie 15 dl = Some dt /\
         lit_tab_ok ll (tb s') /\ dist_tab_ok dl (tb s')).

(* the glue, from the component statements *)
Definition setupDynamicHeader_glue_statement : Prop :=
  gen_clc_statement -> gen_dist_statement -> gen_litlen_statement ->
  codeLenCodes_refine_statement -> readLitDistLens_refine_statement ->
  setupDynamicHeader_refine_body.
