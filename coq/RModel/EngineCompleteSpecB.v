(* EngineCompleteSpecB.v -- completeness side, part B: block headers.  Where the engine is
   stricter than the (permissive) reference, and "the engine rejects a header only if the
   reference does, or the block is not strict". *)
From Coq Require Import List NArith ZArith Bool.
From Verif Require Import Bits Huffman Inflate InflateSpec InflateMono.
From Verif Require Import Base EngineTables Engine EngineRefineSpec EngineRefineSpecBlock
     EngineRefineSpecHdr EngineRefineSpecNeed EngineRefineSpecReach EngineRefineSpecTop
     EngineCompleteSpecA.
Import ListNotations.
Open Scope N_scope.

(* ---------------------------------------------------------------- the one place where the
   engine rejects codes the reference accepts: genForDists gives up (errInvalidBlock since
   fix 50cc77e) when the long-code groups of the distance code need more than the 80 entries of
   LongCodeLookup.  dist_fits dl: the model's own builder, run on the canonical representation
   of the length vector dl from empty tables, does not give up. *)
Definition lens_huff (base : N) (l : lens) : arr :=
  fst (fold_left (fun (a : arr * N) x =>
                    (aset (fst a) (base + snd a) (hc_set 0 (N.of_nat x)), snd a + 1)) l (aempty, 0)).
Definition lens_count (l : lens) : arr :=
  fold_left (fun a x => ainc a (N.of_nat x)) l aempty.

Definition dist_fits (dl : lens) : bool :=
  let '(huff', bad) := setCodes (lens_huff 286 dl) 286 30 (lens_count dl) in
  let codes := forN 0 30 (fun i t => aset t i (aget huff' (286 + i))) aempty in
  let '(_, _, _, e) := gen_small false aempty aempty codes 30 (lens_count dl) 30 in
  ierr_eqb e ENone.

(* the outcome of genForDists does not depend on the previous table contents nor on how the
   length vector is laid out in the arrays *)
Definition gen_dist_error_statement : Prop :=
  forall dl huff count sh0 lg0,
    lens_in dl 286 30 huff count -> oversubscribed 15 dl = false ->
    let '(huff', bad) := setCodes huff 286 30 count in
    let codes := forN 0 30 (fun i t => aset t i (aget huff' (286 + i))) aempty in
    let '(_, _, _, e) := gen_small false sh0 lg0 codes 30 count 30 in
    (e = ENone \/ e = EInvalidBlock) /\ (e = ENone <-> dist_fits dl = true).

(* a distance code without codes longer than 10 bits always fits *)
Definition dist_fits_short_statement : Prop :=
  forall dl, (length dl <= 30)%nat -> Forall (fun x => (x <= 10)%nat) dl ->
    oversubscribed 15 dl = false -> dist_fits dl = true.

(* ---------------------------------------------------------------- the reference's dynamic
   header, returning the two length vectors instead of the tries *)
Definition dyn_lens (s : bs) : Inflate.hres (lens * lens) :=
  match take 5 s with None => HStop NeedInput | Some (hlit, s1) =>
  match take 5 s1 with None => HStop NeedInput | Some (hdist, s2) =>
  match take 4 s2 with None => HStop NeedInput | Some (hclen, s3) =>
  if (29 <? hlit) || (29 <? hdist) then HStop Corrupt else
  match read_clens (N.to_nat hclen + 4) s3 with
  | HStop e => HStop e
  | HOk cl s4 =>
    let clens := scatter clen_order cl (repeat 0%nat 19) in
    match mktrie 7 clens with
    | None => HStop Corrupt
    | Some ct =>
      let nlit := (N.to_nat hlit + 257)%nat in
      let ndist := (N.to_nat hdist + 1)%nat in
      match read_lens (nlit + ndist) ct (nlit + ndist) [] s4 with
      | HStop e => HStop e
      | HOk all s5 => HOk (firstn nlit all, skipn nlit all) s5
      end
    end
  end end end end.

Definition dyn_header_lens_statement : Prop :=
  forall s,
    dyn_header s =
    match dyn_lens s with
    | HStop e => HStop e
    | HOk (ll, dl) s5 =>
      if (nth 256 ll 0 =? 0)%nat then HStop Corrupt
      else match mktrie 15 ll, mktrie 15 dl with
           | Some lt, Some dt => HOk (lt, dt) s5
           | _, _ => HStop Corrupt
           end
    end.

(* a block (starting at S) is strict: if it is a dynamic block whose header the reference
   parses, its distance code fits the engine's table *)
Definition blk_strict (S : bs) : Prop :=
  forall bf s1 s2 ll dl s3,
    take 1 S = Some (bf, s1) -> take 2 s1 = Some (2, s2) -> dyn_lens s2 = HOk (ll, dl) s3 ->
    dist_fits dl = true.

(* a stream is strict: every block the reference reaches is *)
Definition strict (data : list N) : Prop :=
  forall st S, reach data (CBlock st S) -> blk_strict S.

(* ---------------------------------------------------------------- rejections *)
(* codeLenCodes rejects only an over-subscribed code-length code *)
Definition codeLenCodes_reject_statement : Prop :=
  gen_clc_statement ->
  forall s hclen e p,
    br_wf (rd s) -> (0 <= r_len (rd s))%Z -> br_loaded 12 (rd s) -> hclen <= 15 ->
    snd (codeLenCodes s hclen) = EInvalidBlock ->
    forall cl s1,
      read_clens (N.to_nat hclen + 4) (mkbs (br_bits (rd s) ++ e) p) = HOk cl s1 ->
      oversubscribed 7 (scatter clen_order cl (repeat 0%nat 19)) = true.

(* readLitDistLens rejects only when, whatever follows the bits it holds, the reference fails
   too or ends up without an end-of-block code *)
Definition readLitDistLens_reject_statement : Prop :=
  canon_pad_statement ->
  forall s hlit hdist clens ct e p,
    br_wf (rd s) -> (0 <= r_len (rd s))%Z -> hlit <= 29 -> hdist <= 29 ->
    Forall (fun x => (x <= 7)%nat) clens -> oversubscribed 7 clens = false ->
    mktrie 7 clens = Some ct ->
    clc_tab_ok clens (clcShort (dyn s)) (clcLong (dyn s)) ->
    arr_zero (litAndDistHuff (dyn s)) -> arr_zero (litCount (dyn s)) ->
    arr_zero (distCount (dyn s)) -> arr_zero (litExpandCount (dyn s)) ->
    snd (readLitDistLens s hdist hlit) = EInvalidBlock ->
    let nlit := (N.to_nat hlit + 257)%nat in
    let n := (nlit + (N.to_nat hdist + 1))%nat in
    forall all s1,
      read_lens n ct n [] (mkbs (br_bits (rd s) ++ e) p) = HOk all s1 ->
      nth 256 (firstn nlit all) 0%nat = 0%nat.

(* setupDynamicHeader rejects only headers the reference rejects, or whose distance code does
   not fit *)
Definition setupDynamicHeader_reject_body : Prop :=
  forall s e p,
    br_wf (rd s) -> (0 <= r_len (rd s))%Z ->
    snd (setupDynamicHeader s) = EInvalidBlock ->
    forall lt dt s3,
      dyn_header (mkbs (br_bits (rd s) ++ e) p) = HOk (lt, dt) s3 ->
      exists ll dl s3', dyn_lens (mkbs (br_bits (rd s) ++ e) p) = HOk (ll, dl) s3' /\
                        dist_fits dl = false.

Definition setupDynamicHeader_reject_statement : Prop :=
  canon_pad_statement -> gen_clc_statement -> gen_dist_statement -> gen_litlen_statement ->
  gen_dist_error_statement ->
  codeLenCodes_refine_statement -> readLitDistLens_refine_statement ->
  codeLenCodes_reject_statement -> readLitDistLens_reject_statement ->
  dyn_header_lens_statement ->
  setupDynamicHeader_reject_body.

(* tryDecodeHeader / readHeader reject only when the reference cannot take a block-header step
   from there, whatever follows, unless the block is not strict *)
Definition tryDecodeHeader_reject_body : Prop :=
  forall s e p st,
    br_wf (rd s) -> (0 <= r_len (rd s))%Z -> ((Z.of_N p + r_len (rd s)) mod 8 = 0)%Z ->
    snd (tryDecodeHeader s) = EInvalidBlock ->
    blk_strict (mkbs (br_bits (rd s) ++ e) p) ->
    forall c', ~ rstep (CBlock st (mkbs (br_bits (rd s) ++ e) p)) c'.

Definition readHeader_reject_body : Prop :=
  forall s e p st,
    hdr_ok s -> hdr_ok_staged s -> ((Z.of_N p + r_len (rd s)) mod 8 = 0)%Z ->
    snd (readHeader s) = EInvalidBlock ->
    blk_strict (mkbs (lbits s ++ e) p) ->
    forall c', ~ rstep (CBlock st (mkbs (lbits s ++ e) p)) c'.
