(* GzEngineSpec.v -- statements about the gzip / zlib reader model RModel/GzEngine.v
   (proofs: proofs/GzEngine*.v, compile order: proofs/GzEngineORDER.txt).

   Top-level theorems (proofs/GzEngineTop.v):
     gz_sound            the gzip reader model against Containers.gz_read + the reference inflater
     gz_eof_checked_eng  io.EOF only if every member's CRC-32 and ISIZE match (Containers.gz_stream)
     gz_truncated_eng    a truncated member never ends in a clean io.EOF
     zl_sound            the zlib reader model (no dictionary) against Containers.zl_read
     gz_sticky / zl_sticky   after a non-nil error every further Read returns it, and no bytes
   The other statements are the intermediate layers:
     A  dRead does not look at the `consumed` counter of the bufio model (shift invariance)
     S  dRead keeps the bufio model a suffix of the source stream (unconditionally)
     B  bufio.Reader.Read / ReadByte / io.ReadFull on the abstract stream
     C  readHeader against Containers.gz_parse_header (header fields are read correctly)
     D  the decompressor on a shared buffer: invariant of proofs/EngineRefineRun.v, rebased *)
From Coq Require Import List NArith ZArith Bool.
From Verif Require Import Bits Huffman Inflate InflateSpec.
From Verif Require Import Containers ContainersSpec.
From Verif Require Import Base Engine EngineReset EngineRefineSpecBuf EngineRefineSpecReach
     EngineRefineSpecTop EngineRefineSpecFinal EngineRefineRun GzEngine.
Import ListNotations.
Open Scope N_scope.

Definition bytes_ok (l : list N) : Prop := Forall (fun x => x < 256) l.

(* ================================================================ A: shift invariance *)
Definition bshift (k : N) (b : bufrd) : bufrd :=
  mkBuf (bsize b) (bbuf b) (blen b) (berr b) (chunks b) (term b) (consumed b + k).
Definition dshift (k : N) (f : decompressor) : decompressor := set_rBuf f (bshift k (rBuf f)).

Definition dRead_shift_statement : Prop :=
  forall k f p,
    dRead (dshift k f) p = let '(f', bytes, r) := dRead f p in (dshift k f', bytes, r).

(* ================================================================ S: the stream invariant *)
(* b holds a suffix of data; what was discarded is counted by `consumed` *)
Definition strm_inv (data : list N) (b : bufrd) : Prop :=
  buf_ok b /\ exists D, data = D ++ bstream b /\ consumed b = N.of_nat (length D).

Definition dRead_strm_statement : Prop :=
  forall data f p, strm_inv data (rBuf f) ->
    let '(f', _, _) := dRead f p in
    strm_inv data (rBuf f') /\ bsize (rBuf f') = bsize (rBuf f) /\ term (rBuf f') = term (rBuf f).

(* ================================================================ B: bufio Read / ReadByte / io.ReadFull *)
Definition term_berr (t : terminal) : berror := match t with TEOF => BEOF | TErr => BSrc end.

Definition bRead_spec_statement : Prop :=
  forall b n, buf_ok b ->
    let '(got, e, b') := bRead b n in
    buf_ok b' /\ bstream b = got ++ bstream b' /\ consumed b' = consumed b + lenN got /\
    lenN got <= n /\ bsize b' = bsize b /\ term b' = term b /\
    (e = None -> 0 < n -> got <> []) /\
    (forall x, e = Some x -> got = [] /\ bstream b = [] /\ x = term_berr (term b)).

Definition bReadByte_spec_statement : Prop :=
  forall b, buf_ok b ->
    exists oc e b',
      bReadByte b = Some (oc, e, b') /\ buf_ok b' /\ bsize b' = bsize b /\ term b' = term b /\
      (e = None -> exists c, oc = Some c /\ bstream b = c :: bstream b' /\
                             consumed b' = consumed b + 1) /\
      (forall x, e = Some x -> bstream b = [] /\ bstream b' = [] /\ consumed b' = consumed b /\
                               x = term_berr (term b)).

Definition ioReadFull_spec_statement : Prop :=
  forall b n, buf_ok b -> n < 262144 ->
    let '(bytes, r, b') := ioReadFull b n in
    buf_ok b' /\ bstream b = bytes ++ bstream b' /\ consumed b' = consumed b + lenN bytes /\
    bsize b' = bsize b /\ term b' = term b /\
    (r = ROk \/ r = REOF \/ r = RUnexpectedEOF \/ r = RSrcErr) /\
    (r = ROk -> lenN bytes = n) /\
    (r <> ROk -> lenN bytes < n /\ bstream b' = []) /\
    (r = REOF -> bytes = [] /\ term b = TEOF) /\
    (r = RUnexpectedEOF -> bytes <> [] /\ term b = TEOF) /\
    (r = RSrcErr -> term b = TErr).

(* checksums as running values *)
Definition crc32_update_app_statement : Prop :=
  forall c a b, crc32_update (crc32_update c a) b = crc32_update c (a ++ b).
Definition adler_update_app_statement : Prop :=
  forall s a b, adler_update (adler_update s a) b = adler_update s (a ++ b).
Definition adler_sum_statement : Prop :=
  forall l, adler_sum (adler_update adler0 l) = adler32 l.
(* z.size += uint32(n), from 0 *)
Definition u32_add_statement : Prop :=
  forall a n, u32 (a mod 4294967296 + n) = (a + n) mod 4294967296.

(* ================================================================ C: readHeader *)
(* the Header reported for the parsed header h (GzEngine.v G4) *)
Definition hdr_matches (hdr : gzheader) (h : ghdr) : Prop :=
  h_modtime hdr = g_mtime h /\ h_os hdr = g_os h /\
  h_name hdr = latin1_to_utf8 (g_name h) /\ h_comment hdr = latin1_to_utf8 (g_comment h) /\
  match h_extra hdr with None => g_extra h = [] | Some e => g_extra h = e end.

Definition gzReadHeader_spec_statement : Prop :=
  forall z, buf_ok (z_r z) -> bytes_ok (bstream (z_r z)) ->
    let s := bstream (z_r z) in
    let '(z', hdr, e) := gzReadHeader z in
    buf_ok (z_r z') /\
    (exists used, s = used ++ bstream (z_r z') /\
                  consumed (z_r z') = consumed (z_r z) + lenN used) /\
    bsize (z_r z') = bsize (z_r z) /\ term (z_r z') = term (z_r z) /\
    z_multistream z' = z_multistream z /\ z_err z' = z_err z /\ z_hdr z' = z_hdr z /\
    z_size z' = z_size z /\
    (e = GR ROk ->
       exists h rest,
         gz_parse_header s = HP_ok h rest /\ bstream (z_r z') = rest /\ hdr_matches hdr h /\
         z_digest z' = 0 /\
         z_dec z' = Some (match z_dec z with
                          | None => newReader_on (z_r z')
                          | Some d => dReset d (z_r z')
                          end)) /\
    (e <> GR ROk -> z_dec z' = z_dec z /\ forall h rest, gz_parse_header s <> HP_ok h rest) /\
    (e = GR REOF -> s = []) /\
    (e <> GR RStuck /\ e <> GR RPanic).

(* ================================================================ D: the decompressor on a shared buffer *)
(* f is a decompressor whose invariant (EngineRefineRun.run_inv) holds for the stream `data`
   that started when `base` bytes of the source had been consumed *)
Definition gz_eng_inv (base : N) (data delivered : list N) (f : decompressor) : Prop :=
  exists f0, f = dshift base f0 /\ run_inv data delivered f0.

Definition newReader_on_inv_statement : Prop :=
  forall b, buf_ok b -> gz_eng_inv (consumed b) (bstream b) [] (newReader_on b).

Definition dReset_inv_statement : Prop :=
  forall d b, buf_ok b -> gz_eng_inv (consumed b) (bstream b) [] (dReset d b).

Definition gz_dRead_ok_statement : Prop :=
  forall base data delivered f p, bytes_ok data ->
    gz_eng_inv base data delivered f ->
    let '(f', bytes, r) := dRead f p in
    gz_eng_inv base data (delivered ++ bytes) f' /\
    is_prefix (delivered ++ bytes) (out (Inflate.inflate [] data)) /\
    (r = REOF ->
       status (Inflate.inflate [] data) = Done /\
       delivered ++ bytes = out (Inflate.inflate [] data) /\
       consumed (rBuf f') = base + (bitpos (Inflate.inflate [] data) + 7) / 8).

(* ================================================================ the runs, with errors as values *)
Fixpoint gz_reads_g (z : gzreader) (reads : list N) (acc : list (list N * gres))
  : list (list N * gres) * gzreader :=
  match reads with
  | [] => (frev acc, z)
  | p :: rest => let '(z, bytes, e) := gzRead z p in gz_reads_g z rest ((bytes, e) :: acc)
  end.

(* NewReader(bufio.NewReaderSize(src, bufsize)); Multistream(multi); the Reads *)
Definition gzrun (bufsize : N) (cs : list (list N)) (t : terminal) (multi : bool) (reads : list N)
  : gres * list (list N * gres) :=
  let '(z, e) := gzNewReader (mkbufrd bufsize cs t) in
  if negb (gnil e) then (e, []) else (e, fst (gz_reads_g (gzMultistream z multi) reads [])).

Fixpoint zl_reads_g (z : zlreader) (reads : list N) (acc : list (list N * gres))
  : list (list N * gres) * zlreader :=
  match reads with
  | [] => (frev acc, z)
  | p :: rest => let '(z, bytes, e) := zlRead z p in zl_reads_g z rest ((bytes, e) :: acc)
  end.

Definition zlrun (bufsize : N) (cs : list (list N)) (t : terminal) (dict : list N) (reads : list N)
  : gres * list (list N * gres) :=
  let '(z, e) := zlNewReaderDict (mkbufrd bufsize cs t) dict in
  if negb (gnil e) then (e, []) else (e, fst (zl_reads_g z reads [])).

Definition obs_bytes (l : list (list N * gres)) : list N := concat (map fst l).
Definition obs_codes_g (l : list (list N * gres)) : list (list N * N) :=
  map (fun br : list N * gres => (fst br, gres_code (snd br))) l.

(* gzrun / zlrun are what the extracted entry points compute *)
Definition gzrun_obs_eq_statement : Prop :=
  forall bufsize cs te multi reads,
    let '(c, _, l, _) := gzrun_obs bufsize cs te multi reads in
    let '(e, lg) := gzrun bufsize cs (term_of te) multi reads in
    c = gres_code e /\ l = obs_codes_g lg.
Definition zlrun_obs_eq_statement : Prop :=
  forall bufsize cs te dict reads,
    let '(c, l, _) := zlrun_obs bufsize cs te dict reads in
    let '(e, lg) := zlrun bufsize cs (term_of te) (match dict with Some d => d | None => [] end) reads in
    c = gres_code e /\ l = obs_codes_g lg.

(* ================================================================ (a) gzip soundness *)
(* For every source content `data` (bytes < 256), every way of cutting it into non-empty chunks,
   every bufio size, either terminal condition, either Multistream setting and every list of
   Read sizes, with R = Containers.gz_read multi data (header parsing + the reference inflater
   + CRC-32/ISIZE of every member):
   - if NewReader succeeds the first header parses;
   - the bytes handed out by the Reads are a prefix of R's payload (the concatenated payloads of
     the members R accepts, plus what the reference inflater makes of a damaged last one);
   - if some Read returns io.EOF then R ends in CEOF (every member complete, CRC-32 and ISIZE
     matching) and exactly R's payload has been handed out;
   - hence if R does not end in CEOF (truncated, corrupt, bad checksum, bad header) no Read
     returns io.EOF. *)
Definition gz_sound_statement : Prop :=
  forall data cs bufsize t multi reads,
    bytes_ok data -> concat cs = data -> Forall (fun c => c <> []) cs ->
    let '(e0, l) := gzrun bufsize cs t multi reads in
    let R := gz_read multi data in
    (e0 = GR ROk -> g_at_ctor R = false) /\
    (e0 = GR REOF -> data = []) /\
    is_prefix (obs_bytes l) (g_payload R) /\
    (In (GR REOF) (map snd l) -> g_err R = CEOF /\ obs_bytes l = g_payload R) /\
    (g_err R <> CEOF -> ~ In (GR REOF) (map snd l)).

(* the Header fields NewReader reports are those of the first member's header *)
Definition gz_header_fields_statement : Prop :=
  forall data cs bufsize t,
    bytes_ok data -> concat cs = data -> Forall (fun c => c <> []) cs ->
    let '(z, e) := gzNewReader (mkbufrd bufsize cs t) in
    e = GR ROk ->
    exists h rest, gz_parse_header data = HP_ok h rest /\ hdr_matches (z_hdr z) h /\
                   bstream (z_r z) = rest.

(* io.EOF only with matching checksums, via Containers.gz_stream (ContainersSpec C07) *)
Definition gz_eof_checked_eng_statement : Prop :=
  forall data cs bufsize t multi reads,
    bytes_ok data -> concat cs = data -> Forall (fun c => c <> []) cs ->
    let '(e0, l) := gzrun bufsize cs t multi reads in
    In (GR REOF) (map snd l) ->
    gz_stream multi data (obs_bytes l) (g_left (gz_read multi data)).

(* a proper, non-empty prefix of one valid member never ends in a clean io.EOF (for the empty
   prefix NewReader itself fails: there is no Reader); what is handed out is a prefix of the
   true payload.  Stated for the default Multistream(true), where ContainersSpec's
   gz_payload_prefix applies; gz_truncated_eng_single_statement is the Multistream(false) case. *)
Definition gz_truncated_eng_statement : Prop :=
  forall h body payload k cs bufsize t reads, let multi := true in
    ghdr_ok h -> body_for body payload -> bytes_ok (gz_member h body payload) ->
    (k < length (gz_member h body payload))%nat ->
    concat cs = firstn k (gz_member h body payload) -> Forall (fun c => c <> []) cs ->
    let '(e0, l) := gzrun bufsize cs t multi reads in
    ~ In (GR REOF) (map snd l) /\ is_prefix (obs_bytes l) payload /\
    (k = 0%nat -> e0 <> GR ROk).

Definition gz_truncated_eng_single_statement : Prop :=
  forall h body payload k cs bufsize t reads,
    ghdr_ok h -> body_for body payload -> bytes_ok (gz_member h body payload) ->
    (k < length (gz_member h body payload))%nat ->
    concat cs = firstn k (gz_member h body payload) -> Forall (fun c => c <> []) cs ->
    let '(e0, l) := gzrun bufsize cs t false reads in
    ~ In (GR REOF) (map snd l).

(* ================================================================ (b) zlib without dictionary *)
(* The caller gives no dictionary and the stream does not ask for one (FDICT clear; with FDICT
   set and a nil dictionary Go compares the stream's dictionary id with Adler-32 of the empty
   string, 1, and goes on with the STANDARD inflater when they agree: not covered here). *)
Definition zl_sound_statement : Prop :=
  forall data cs bufsize t reads,
    bytes_ok data -> concat cs = data -> Forall (fun c => c <> []) cs ->
    N.testbit (nth 1 data 0) 5 = false ->
    let '(e0, l) := zlrun bufsize cs t [] reads in
    let R := zl_read None data in
    (e0 = GR ROk -> g_at_ctor R = false) /\
    is_prefix (obs_bytes l) (g_payload R) /\
    (In (GR REOF) (map snd l) -> g_err R = CEOF /\ obs_bytes l = g_payload R) /\
    (g_err R <> CEOF -> ~ In (GR REOF) (map snd l)).

(* ================================================================ (c) error stickiness *)
Definition gz_sticky_statement : Prop :=
  (forall z p z' bytes e, gzRead z p = (z', bytes, e) -> gnil e = false -> z_err z' = e) /\
  (forall z p, gnil (z_err z) = false -> gzRead z p = (z, [], z_err z)) /\
  (forall z p z' bytes e reads,
     gzRead z p = (z', bytes, e) -> gnil e = false ->
     Forall (fun br => br = ([], e)) (fst (gz_reads_g z' reads []))).

Definition zl_sticky_statement : Prop :=
  (forall z p z' bytes e, zlRead z p = (z', bytes, e) -> gnil e = false -> zl_err z' = e) /\
  (forall z p, gnil (zl_err z) = false -> zlRead z p = (z, [], zl_err z)) /\
  (forall z p z' bytes e reads,
     zlRead z p = (z', bytes, e) -> gnil e = false ->
     Forall (fun br => br = ([], e)) (fst (zl_reads_g z' reads []))).
