(* EngineCompleteSpecE.v -- completeness side, part E: step with the stronger invariant and what
   its error values mean. *)
From Coq Require Import List NArith ZArith Bool.
From Verif Require Import Bits Huffman Inflate InflateSpec InflateMono.
From Verif Require Import Base EngineTables Engine EngineRefineSpec EngineRefineSpecBlock
     EngineRefineSpecBlock3 EngineRefineSpecHdr EngineRefineSpecNeed EngineRefineSpecReach
     EngineRefineSpecBuf EngineRefineSpecTop EngineRefineSpecFinal
     EngineCompleteSpecA EngineCompleteSpecB EngineCompleteSpecReach EngineCompleteSpecC
     EngineCompleteSpecD.
Import ListNotations.
Open Scope N_scope.

(* dec_inv over st_sim2 *)
Definition dec_invS (data : list N) (delivered : list N) (f : decompressor) : Prop :=
  buf_ok (rBuf f) /\
  (exists D, data = D ++ bstream (rBuf f) /\ consumed (rBuf f) = N.of_nat (length D)) /\
  readPos f <= writePos f /\ writePos f <= outLen + 261 /\
  phase (state f) <> phaseFinish /\
  exists c u,
    reach data c /\ st_sim2 (state f) c (bits_of_bytes u) /\
    win_rel (hist f) (writePos f) (cfg_st c) /\
    delivered ++ pending_out f = frev (rout (cfg_st c)) /\
    (if inputNil (state f)
     then r_in (rd (state f)) = [] /\ r_inlen (rd (state f)) = 0 /\
          u = skipn (Z.to_nat (Z.quot (r_len (rd (state f))) 8)) (bstream (rBuf f))
     else u = skipn (N.to_nat (peekSize f)) (bstream (rBuf f)) /\
          blen (rBuf f) = peekSize f /\ qbytes (state f) <= peekSize f /\
          headerBuffer (state f) = [] /\ headerBuffered (state f) = 0).

(* the flags: `eof` is only set when the source has ended (with io.EOF) and everything it
   delivered has been given to the inflate state; `haveBits = false` with the input detached
   means the last decode ran out of input: if nothing more comes, the reference is not Done *)
Definition flags_inv (data : list N) (f : decompressor) : Prop :=
  (eof f = true -> inputNil (state f) = false ->
     term (rBuf f) = TEOF /\ skipn (N.to_nat (peekSize f)) (bstream (rBuf f)) = []) /\
  (inputNil (state f) = true -> haveBits f = false ->
     skipn (Z.to_nat (Z.quot (r_len (rd (state f))) 8)) (bstream (rBuf f)) = [] ->
     status (Inflate.inflate [] data) <> Done).

Definition dec_inv2 (data delivered : list N) (f : decompressor) : Prop :=
  dec_invS data delivered f /\ flags_inv data f.

Definition step_post2 (data delivered : list N) (f f' : decompressor) (r : option rres) : Prop :=
  (exists c, reach data c /\
             delivered ++ pending_out f' = frev (rout (cfg_st c)) /\
             readPos f' <= writePos f' /\
             (r = Some REOF ->
                exists st S0, c = CDone st S0 /\ consumed (rBuf f') = (bp S0 + 7) / 8)) /\
  derr f' = None /\
  (r = None -> dec_inv2 data delivered f') /\
  (* the kinds of errors *)
  (r = None \/ r = Some REOF \/ r = Some RUnexpectedEOF \/ r = Some RSrcErr \/
   (exists o, r = Some (RCorrupt o)) \/ r = Some RPanic \/ r = Some RStuck) /\
  (r = Some RUnexpectedEOF ->
     term (rBuf f) = TEOF /\ status (Inflate.inflate [] data) <> Done) /\
  (r = Some RSrcErr ->
     term (rBuf f) = TErr /\ status (Inflate.inflate [] data) <> Done) /\
  ((exists o, r = Some (RCorrupt o)) -> strict data -> status (Inflate.inflate [] data) <> Done).

Definition step_complete_statement : Prop :=
  decomp_body2 -> decomperss_flush_statement ->
  bPeek_spec_statement -> bPeek_buffered_statement -> bDiscard_spec_statement ->
  reach_inv_statement ->
  forall data delivered f,
    Forall (fun x => x < 256) data ->
    dec_inv2 data delivered f -> readPos f = writePos f -> derr f = None ->
    let '(f', r) := step f in step_post2 data delivered f f' r.
