(* GzEngineSpec4.v -- COMPLETENESS of the gzip / zlib reader model (RModel/GzEngine.v), on top of
   the engine's completeness development (proofs/EngineComplete*.v: step_complete3, run_inv3,
   read_loop_ok3).  Proofs: proofs/GzEngineComplete*.v.  (Kept apart from GzEngineSpec3.v, which
   was being compiled against by concurrent proofs when this was written.)

   If the specification reader Containers.gz_read accepts the source (CEOF: every member complete,
   CRC-32 and ISIZE matching) and every member's DEFLATE stream is standard (EngineCompleteSpecG.
   std_stream: every dynamic block has a complete distance code, or one without code words longer
   than 10 bits -- what every conforming compressor writes), then with enough positive-size Reads
   and no fatal outcome (excluded separately: GzEngineSpec3 gz_safe) some Read returns io.EOF;
   gz_sound then says that exactly the payload has been handed out. *)
From Coq Require Import List NArith ZArith Bool.
From Verif Require Import Bits Huffman Inflate InflateSpec.
From Verif Require Import Containers ContainersSpec.
From Verif Require Import Base Engine EngineReset EngineRefineSpecBuf EngineRefineSpecReach
     EngineCompleteSpecB EngineCompleteSpecC EngineCompleteSpecG EngineCompleteTop3 EngineCompleteRun3
     GzEngine GzEngineSpec GzEngineSpec3.
Import ListNotations.
Open Scope N_scope.

(* ================================================================ the engine layer, re-based *)
Definition gz_eng_inv3 (base : N) (data : list N) (t : terminal) (delivered : list N)
           (f : decompressor) : Prop :=
  exists f0, f = dshift base f0 /\ run_inv3 data t delivered f0.

Definition newReader_on_inv3_statement : Prop :=
  forall b, buf_ok b -> gz_eng_inv3 (consumed b) (bstream b) (term b) [] (newReader_on b).
Definition dReset_inv3_statement : Prop :=
  forall d b, buf_ok b -> gz_eng_inv3 (consumed b) (bstream b) (term b) [] (dReset d b).

(* one Read: soundness facts (as gz_dRead_ok_statement) + progress + the possible errors *)
Definition gz_dRead_ok3_statement : Prop :=
  forall base data t delivered f p, GzEngineSpec.bytes_ok data ->
    gz_eng_inv3 base data t delivered f ->
    let '(f', bytes, r) := dRead f p in
    gz_eng_inv3 base data t (delivered ++ bytes) f' /\
    is_prefix (delivered ++ bytes) (out (Inflate.inflate [] data)) /\
    (r = REOF ->
       status (Inflate.inflate [] data) = Done /\
       delivered ++ bytes = out (Inflate.inflate [] data) /\
       consumed (rBuf f') = base + (bitpos (Inflate.inflate [] data) + 7) / 8) /\
    (r = ROk -> 0 < p -> bytes <> []) /\
    (r <> ROk ->
       r = REOF \/ r = RPanic \/ r = RStuck \/
       ((r = RUnexpectedEOF \/ r = RSrcErr) /\ status (Inflate.inflate [] data) = NeedInput) \/
       ((exists o, r = RCorrupt o) /\ (strict data -> status (Inflate.inflate [] data) <> Done))).

(* ================================================================ gzip *)
(* every member that gz_members visits has a standard DEFLATE stream; l is the source from the
   start of the member's DEFLATE stream on *)
Fixpoint gz_members_std (fuel : nat) (multi : bool) (l : list N) : Prop :=
  match fuel with
  | O => True
  | S f =>
    std_stream l /\
    (let '(_, e, rest) := gz_read_body l in
     match e with
     | Some _ => True
     | None =>
       if negb multi then True
       else match gz_parse_header rest with
            | HP_ok _ rest' => gz_members_std f multi rest'
            | HP_err _ => True
            end
     end)
  end.

Definition gz_std (multi : bool) (data : list N) : Prop :=
  match gz_parse_header data with
  | HP_ok _ rest => gz_members_std (S (length data)) multi rest
  | HP_err _ => True
  end.

(* With Multistream(true) the end of the file is seen by a read that returns io.EOF: the source
   must end with EOF (t = TEOF); with a failing source the Reader reports the source's error
   after the last member (and that is right). *)
Definition gz_complete_statement : Prop :=
  forall data cs bufsize t multi reads,
    GzEngineSpec.bytes_ok data -> concat cs = data -> Forall (fun c => c <> []) cs ->
    let R := gz_read multi data in
    g_err R = CEOF -> g_at_ctor R = false -> gz_std multi data ->
    (multi = true -> t = TEOF) ->
    Forall (fun p => 0 < p) reads -> (length (g_payload R) < length reads)%nat ->
    let '(e0, l) := gzrun bufsize cs t multi reads in
    Forall (fun br => gres_safe (snd br)) l ->
    e0 = GR ROk /\ In (GR REOF) (map snd l).

(* ================================================================ zlib without dictionary *)
Definition zl_complete_statement : Prop :=
  forall data cs bufsize t reads,
    GzEngineSpec.bytes_ok data -> concat cs = data -> Forall (fun c => c <> []) cs ->
    N.testbit (nth 1 data 0) 5 = false ->
    let R := zl_read None data in
    g_err R = CEOF -> std_stream (skipn 2 data) ->
    Forall (fun p => 0 < p) reads -> (length (g_payload R) < length reads)%nat ->
    let '(e0, l) := zlrun bufsize cs t [] reads in
    Forall (fun br => gres_safe (snd br)) l ->
    e0 = GR ROk /\ In (GR REOF) (map snd l).

(* ================================================================ with the bounds of gz_safe *)
Definition gz_complete_bounded_statement : Prop :=
  forall data cs bufsize t multi reads,
    GzEngineSpec.bytes_ok data -> concat cs = data -> Forall (fun c => c <> []) cs ->
    bufsize <= 90000 -> lenN data <= 262141 ->
    let R := gz_read multi data in
    g_err R = CEOF -> g_at_ctor R = false -> gz_std multi data ->
    (multi = true -> t = TEOF) ->
    Forall (fun p => 0 < p) reads -> (length (g_payload R) < length reads)%nat ->
    let '(e0, l) := gzrun bufsize cs t multi reads in
    e0 = GR ROk /\ In (GR REOF) (map snd l) /\ obs_bytes l = g_payload R.

Definition zl_complete_bounded_statement : Prop :=
  forall data cs bufsize t reads,
    GzEngineSpec.bytes_ok data -> concat cs = data -> Forall (fun c => c <> []) cs ->
    bufsize <= 90000 -> lenN data <= 262141 ->
    N.testbit (nth 1 data 0) 5 = false ->
    let R := zl_read None data in
    g_err R = CEOF -> std_stream (skipn 2 data) ->
    Forall (fun p => 0 < p) reads -> (length (g_payload R) < length reads)%nat ->
    let '(e0, l) := zlrun bufsize cs t [] reads in
    e0 = GR ROk /\ In (GR REOF) (map snd l) /\ obs_bytes l = g_payload R.
