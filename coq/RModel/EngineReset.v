(* EngineReset.v -- reuse of a Reader: decompressor.Reset and Reads after the first error.
   Extends RModel/Engine.v (nothing there is changed).

   Go (reader.go), for `under` a *bufio.Reader:

     func (r * decompressor) Reset(under io.Reader, _ []byte) error {
         r.r = under; r.rBuf = ur
         r.peekSize = 0; r.eof = false; r.haveBits = false; r.err = nil
         r.readPos = 0; r.writePos = 0
         r.state.reset()        // input=nil bits=0 bitsLen=0 phase=0 bfinal=0 litBlockLength=0
         return nil             // the 4 overflow fields=0 headerBuffered=0 roffset=0
     }

   NOT touched by Reset:
     decompressor.historyBuffer (hist)        -- all 65824 bytes keep the output of the old stream
     inflate.litLenTable, inflate.distTable (tb: litShort litLong distShort distLong)
                                              -- the last tables built, or the static-table copies
     inflate.dynHdr (dyn: litAndDistHuff clcTable codeList litCount distCount litExpandCount
                     nextCode lenHuffCodes)   -- scratch of the last dynamic header
     inflate.headerBuffer bytes               -- (the model keeps only the valid prefix, which
                                                 headerBuffered = 0 makes empty: Engine.v A2)
   The second argument (dictionary) is ignored by the Go code.

   Sticky error: Engine.dRead already is the whole Go Read, including
   "if f.err != nil { return 0, f.err }"; only Engine.erun_loop stops at the first error.
   eread_all below issues every Read.  (After a Go panic the real object is in no defined state;
   the model keeps answering RPanic until Reset.) *)
From Coq Require Import List NArith ZArith Bool.
From Verif Require Import Base Engine.
Import ListNotations.
Open Scope N_scope.

(* a fresh bufio.Reader of the given size over a chunked source *)
Definition mkbufrd (bufsize : N) (cs : list (list N)) (t : terminal) : bufrd :=
  mkBuf (N.max bufsize 16) [] 0 None cs t 0.

(* Reset(under, _) with under = rb *)
Definition dReset (f : decompressor) (rb : bufrd) : decompressor :=
  mkD (inflate_reset (state f)) 0 0 (hist f) rb None 0 false false.

(* all the Read calls, whatever they return *)
Fixpoint eread_all (f : decompressor) (reads : list N) (acc : list (list N * rres))
  : list (list N * rres) * decompressor :=
  match reads with
  | [] => (frev acc, f)
  | p :: rest => let '(f, bytes, r) := dRead f p in eread_all f rest ((bytes, r) :: acc)
  end.

(* Reader on source 1, all of reads1 (errors are sticky), Reset onto a fresh bufio.Reader over
   source 2, then reads2 as in erun (until the first result that is not ok).
   Result: observations of phase 1, observations of phase 2, bytes consumed from source 2. *)
Definition erun2 (bufsize1 : N) (chunks1 : list (list N)) (term1 : terminal) (reads1 : list N)
                 (bufsize2 : N) (chunks2 : list (list N)) (term2 : terminal) (reads2 : list N)
  : list (list N * rres) * list (list N * rres) * N :=
  let '(l1, f1) := eread_all (newReader bufsize1 chunks1 term1) reads1 [] in
  let '(l2, f2) := erun_loop (dReset f1 (mkbufrd bufsize2 chunks2 term2)) reads2 [] in
  (l1, l2, consumed (rBuf f2)).

Definition obs_codes (l : list (list N * rres)) : list (list N * N) :=
  frev (fold_left (fun acc (br : list N * rres) => (fst br, rres_code (snd br)) :: acc) l []).

Definition term_of (is_err : bool) : terminal := if is_err then TErr else TEOF.

(* the same with result codes as in erun_obs *)
Definition erun2_obs (bufsize1 : N) (chunks1 : list (list N)) (term1_is_err : bool) (reads1 : list N)
                     (bufsize2 : N) (chunks2 : list (list N)) (term2_is_err : bool) (reads2 : list N)
  : list (list N * N) * list (list N * N) * N :=
  let '(l1, l2, c) := erun2 bufsize1 chunks1 (term_of term1_is_err) reads1
                            bufsize2 chunks2 (term_of term2_is_err) reads2 in
  (obs_codes l1, obs_codes l2, c).

(* A new Reader whose literal/length long-code table starts as L instead of all zeros (the one
   part of the old state that a reused Reader can still observe, see EngineResetSpec.v). *)
Definition newReaderL (L : arr) (bufsize : N) (cs : list (list N)) (t : terminal) : decompressor :=
  let f := newReader bufsize cs t in
  let s := state f in
  mkD (set_tb s (mkTB (litShort (tb s)) L (distShort (tb s)) (distLong (tb s))))
      (writePos f) (readPos f) (hist f) (rBuf f) (derr f) (peekSize f) (eof f) (haveBits f).

Definition erunL_ext (L : arr) (bufsize : N) (cs : list (list N)) (t : terminal) (reads : list N)
  : list (list N * rres) * N :=
  let '(l, f) := erun_loop (newReaderL L bufsize cs t) reads [] in
  (l, consumed (rBuf f)).

(* the literal/length long-code table a Reader is left with after phase 1 *)
Definition litLong_after (bufsize1 : N) (chunks1 : list (list N)) (term1 : terminal)
           (reads1 : list N) : arr :=
  litLong (tb (state (snd (eread_all (newReader bufsize1 chunks1 term1) reads1 [])))).
