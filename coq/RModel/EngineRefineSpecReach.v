(* EngineRefineSpecReach.v -- the reference inflater (Spec/Inflate.v) as a small-step system.
   The engine is related to the reference one element at a time (one symbol, one stored byte,
   one block header); these statements say that the configurations so reached are exactly
   the intermediate states of `Inflate.inflate [] data`, so that what the engine has produced
   is a prefix of the reference output, and "the final block was completed" means the
   reference says Done.  Independent of the engine.  Proofs: proofs/EngineRefineReach.v. *)
From Coq Require Import List NArith ZArith Bool Relations.
From Verif Require Import Bits Huffman Inflate InflateSpec InflateMono.
Import ListNotations.
Open Scope N_scope.

Inductive rcfg :=
| CBlock (st : ostate) (s : bs)                         (* at a block boundary *)
| CHuff (bf : N) (lt dt : trie) (st : ostate) (s : bs)  (* inside a compressed block, at a symbol boundary *)
| CStored (bf len n : N) (st : ostate) (s : bs)         (* inside a stored block of len bytes, n still to copy *)
| CDone (st : ostate) (s : bs).                         (* the final block is complete *)

Definition cfg_st (c : rcfg) : ostate :=
  match c with CBlock st _ | CHuff _ _ _ st _ | CStored _ _ _ st _ | CDone st _ => st end.
Definition cfg_bs (c : rcfg) : bs :=
  match c with CBlock _ s | CHuff _ _ _ _ s | CStored _ _ _ _ s | CDone _ s => s end.

(* the sync-point bookkeeping of an empty non-final stored block (only osyncs changes) *)
Definition sync_upd (bf len : N) (st : ostate) (s : bs) : ostate :=
  if (len =? 0) && (bf =? 0)
  then mkost (rout st) (olen st) (oavail st) (omax st) ((olen st, bp s / 8) :: osyncs st)
  else st.

Definition next_block (bf : N) (st : ostate) (s : bs) : rcfg :=
  if bf =? 1 then CDone st s else CBlock st s.

Inductive rstep : rcfg -> rcfg -> Prop :=
| rs_fixed : forall st s bf s1 s2 lt dt,
    take 1 s = Some (bf, s1) -> take 2 s1 = Some (1, s2) -> fixed_tries = Some (lt, dt) ->
    rstep (CBlock st s) (CHuff bf lt dt st s2)
| rs_dyn : forall st s bf s1 s2 lt dt s3,
    take 1 s = Some (bf, s1) -> take 2 s1 = Some (2, s2) -> dyn_header s2 = HOk (lt, dt) s3 ->
    rstep (CBlock st s) (CHuff bf lt dt st s3)
| rs_stored : forall st s bf s1 s2 len s4 nlen s5,
    take 1 s = Some (bf, s1) -> take 2 s1 = Some (0, s2) ->
    take 16 (align s2) = Some (len, s4) -> take 16 s4 = Some (nlen, s5) -> len + nlen = 65535 ->
    rstep (CBlock st s) (CStored bf len len st s5)
| rs_sym : forall bf lt dt st s st' s',
    sym1 lt dt st s = SCont st' s' -> rstep (CHuff bf lt dt st s) (CHuff bf lt dt st' s')
| rs_eob : forall bf lt dt st s st' s',
    sym1 lt dt st s = SEnd st' s' -> rstep (CHuff bf lt dt st s) (next_block bf st' s')
| rs_byte : forall bf len n st s b s1,
    0 < n -> take 8 s = Some (b, s1) ->
    rstep (CStored bf len n st s) (CStored bf len (n - 1) (push b st) s1)
| rs_stored_end : forall bf len st s,
    rstep (CStored bf len 0 st s) (next_block bf (sync_upd bf len st s) s).

Definition rinit (data : list byte) : rcfg := CBlock (st0 []) (bs_of_bytes data).
Definition reach (data : list byte) (c : rcfg) : Prop := clos_refl_trans rcfg rstep (rinit data) c.

(* invariants of reachable configurations *)
Definition reach_inv_statement : Prop :=
  forall data c, reach data c ->
    let st := cfg_st c in let s := cfg_bs c in
    oavail st = olen st /\ olen st = N.of_nat (length (rout st)) /\
    (Forall (fun x => x < 256) data -> Forall (fun x => x < 256) (rout st)) /\
    (exists pre, bits_of_bytes data = pre ++ bl s /\ bp s = N.of_nat (length pre)) /\
    match c with CStored _ len n _ _ => n <= len /\ len < 65536 /\ bp s mod 8 = 0 | _ => True end.

(* what has been produced is a prefix of the final output *)
Definition reach_out_prefix_statement : Prop :=
  forall data c, reach data c ->
    is_prefix (frev (rout (cfg_st c))) (out (inflate [] data)).

(* the final block was completed: the reference says Done, with this output and position *)
Definition reach_done_statement : Prop :=
  forall data st s, reach data (CDone st s) ->
    status (inflate [] data) = Done /\ out (inflate [] data) = frev (rout st) /\
    bitpos (inflate [] data) = bp s.

(* conversely a Done run passes through a CDone configuration, and never gets stuck before *)
Definition reach_complete_statement : Prop :=
  forall data, status (inflate [] data) = Done ->
    (exists st s, reach data (CDone st s)) /\
    (forall c, reach data c -> (exists st s, c = CDone st s) \/ (exists c', rstep c c')).

(* rstep is deterministic *)
Definition rstep_det_statement : Prop :=
  forall c c1 c2, rstep c c1 -> rstep c c2 -> c1 = c2.
