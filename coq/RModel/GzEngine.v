(* GzEngine.v -- executable Gallina model of fastgo's gzip and zlib READERS
     /repo/compress/gzip/ungzip.go   (type Reader)
     /repo/compress/zlib/reader.go   (type reader)
   on top of the engine model RModel/Engine.v (flate decompressor + bufio.Reader + chunked
   source).  Function-by-function transcription; validated against the real code by
   differential testing (/verif/harness-gz); no proofs here (statements: GzEngineSpec.v).

   ------------------------------------------------------------------------------------
   Go name                                            Coq name
   ------------------------------------------------------------------------------------
   bufio.Reader.Read / ReadByte / readErr             bRead / bReadByte / b_clear_err
     (Buffered/Peek/Discard/fill are Engine.v's)
   io.ReadFull (= io.ReadAtLeast(r, buf, len(buf)))   ioReadFull (readfull_loop)
   gzip.Header {Comment Extra ModTime Name OS}        gzheader (h_comment h_extra h_modtime
                                                      h_name h_os)
   gzip.Reader {Header r decompressor digest size     gzreader (z_hdr z_r z_dec z_digest z_size
                buf err multistream}                  z_err z_multistream); buf: see G3
   gzip.noEOF                                         noEOF
   gzip.NewReader / Reader.Reset / Multistream     gzNewReader / gzReset / gzMultistream
   Reader.readString / readHeader / Read / Close   gzReadString / gzReadHeader / gzRead / gzClose
   zlib.reader {r decompressor digest err scratch}    zlreader (zl_r zl_dec zl_digest zl_err)
   zlib.NewReaderDict / reader.Reset / Read / Close   zlNewReaderDict / zlReset / zlRead / zlClose
   flate.NewReader(br) for br a *bufio.Reader         newReader_on
   flate decompressor.Reset(br, _) / Read             EngineReset.dReset / Engine.dRead
   compress/flate (STANDARD LIBRARY) NewReaderDict,   stdinfl, std_new / std_reset / std_read
     its Reset and Read                               (reference inflater, see G5)
   hash/crc32 ChecksumIEEE / Update                   Containers.crc32 / crc32_update
   hash/adler32 New / Write / Sum32 / Checksum        adler0 / adler_update / adler_sum / adler32
   ------------------------------------------------------------------------------------

   G1. ONE bufio.Reader.  gzip.Reader.Reset wraps its source in a bufio.Reader (or adopts the
       caller's) and hands THAT object to flate.NewReader / decompressor.Reset, which adopt it
       (reader.go: "rr.rBuf = br").  Header, deflate data and trailer are therefore read
       through one buffer.  In the model the buffer is the field z_r / zl_r.  The decompressor
       record of Engine.v carries its own rBuf field: the pointer identity is modelled by
       installing z_r into the decompressor before every call of dRead (set_rBuf) and reading
       it back afterwards.  (In Go the two pointers can differ only between a Reset whose
       header parse failed and the next successful Reset; in that window z.err != nil and the
       decompressor is not used.)
   G2. Errors: gres = Engine.v's rres (GR) + the five container errors; nil is GR ROk.
       A Go panic (RPanic) and fuel exhaustion (RStuck) are result kinds as in Engine.v.
   G3. z.buf [512]byte / z.scratch [4]byte are scratch arrays: every read of them is preceded,
       in the same call, by a write of the very bytes that are read.  They are modelled as
       local values, not as fields.
   G4. Strings: Header.Name / Comment are the UTF-8 bytes of the Go string (Latin-1 bytes
       > 0x7f become two bytes: readString's []rune conversion followed by string()).
       Header.Extra is an option: None = nil slice (no FEXTRA), Some [] = XLEN 0.
       Header.ModTime is the Unix time in seconds, 0 = the zero time.Time (MTIME 0).
   G5. zlib streams with FDICT are NOT decoded by fastgo: reader.go hands them to the STANDARD
       LIBRARY's compress/flate (flate.NewReaderDict = stdlib).  That inflater is not
       transcribed; the branch is modelled by the REFERENCE inflater Spec/Inflate.v run with
       the dictionary on everything the source will deliver (std_start): its output is handed
       out with the standard library's flush discipline (a flush whenever the 32 KiB window,
       which starts out holding the dictionary, is full, and at the end), its status decides
       the final error, and (bitpos+7)/8 bytes are consumed from the shared bufio.Reader with
       ReadByte (the standard inflater reads byte by byte and never over-reads a ByteReader).
       Not faithful there: laziness (the model consumes the whole deflate stream on the first
       Read), the exact offset in CorruptInputError, streams the standard library rejects but
       the reference accepts (incomplete Huffman codes), bufio state with empty source reads.
   G6. A source Read returns at most one chunk, never data together with an error (Engine.v A8).
*)
From Coq Require Import List NArith ZArith Bool.
From Verif Require Import Containers.
From Verif Require Import Base Engine EngineReset.
Import ListNotations.
Open Scope N_scope.

(* ---------------------------------------------------------------- bufio.Reader: Read, ReadByte *)
(* readErr: err := b.err; b.err = nil *)
Definition b_clear_err (b : bufrd) : bufrd :=
  mkBuf (bsize b) (bbuf b) (blen b) None (chunks b) (term b) (consumed b).

(* Read(p), len p = n.  Result: bytes, error, new state *)
Definition bRead (b : bufrd) (n : N) : list N * option berror * bufrd :=
  if n =? 0 then
    if 0 <? bBuffered b then ([], None, b) else ([], berr b, b_clear_err b)
  else
    let r : (list N * option berror * bufrd) + bufrd :=
      if blen b =? 0 then                                   (* b.r == b.w *)
        match berr b with
        | Some e => inl ([], Some e, b_clear_err b)
        | None =>
          if bsize b <=? n then
            (* large read, empty buffer: read directly into p *)
            let '(got, k, err, cs) := src_read (chunks b) (term b) n in
            inl (got, err, mkBuf (bsize b) [] 0 None cs (term b) (consumed b + k))
          else
            (* one read into b.buf; not fill, which loops *)
            let '(got, k, err, cs) := src_read (chunks b) (term b) (bsize b) in
            if k =? 0 then inl ([], err, mkBuf (bsize b) [] 0 None cs (term b) (consumed b))
            else inr (mkBuf (bsize b) got k err cs (term b) (consumed b))
        end
      else inr b in
    match r with
    | inl x => x
    | inr b =>
      let k := N.min n (blen b) in                          (* copy(p, b.buf[b.r:b.w]) *)
      (firstn (N.to_nat k) (bbuf b), None,
       mkBuf (bsize b) (skipn (N.to_nat k) (bbuf b)) (blen b - k) (berr b) (chunks b) (term b)
             (consumed b + k))
    end.

(* ReadByte: for b.r == b.w { if b.err != nil { return 0, b.readErr() }; b.fill() }.
   None: out of fuel / fill on a full buffer / blen out of step with bbuf (none can occur) *)
Fixpoint readbyte_loop (fuel : nat) (b : bufrd) : option (option N * option berror * bufrd) :=
  match fuel with
  | O => None
  | S k =>
    if blen b =? 0 then
      match berr b with
      | Some e => Some (None, Some e, b_clear_err b)
      | None => match bfill b with None => None | Some b => readbyte_loop k b end
      end
    else
      match bbuf b with
      | c :: rest =>
        Some (Some c, None,
              mkBuf (bsize b) rest (blen b - 1) (berr b) (chunks b) (term b) (consumed b + 1))
      | [] => None
      end
  end.
Definition bReadByte (b : bufrd) : option (option N * option berror * bufrd) :=
  readbyte_loop 3 b.

(* io.ReadFull(b, buf), len buf = n: for got < n && err == nil { nn, err = b.Read(buf[got:]) } *)
Fixpoint readfull_loop (fuel : nat) (b : bufrd) (need : N) (acc : list N)
  : option (list N * option berror * bufrd) :=
  match fuel with
  | O => None
  | S k =>
    if need =? 0 then Some (frev acc, None, b)
    else
      let '(got, e, b) := bRead b need in
      let acc := rev_append got acc in
      let need := need - lenN got in
      match e with
      | Some e => Some (frev acc, Some e, b)
      | None => readfull_loop k b need acc
      end
  end.

(* result: the bytes read, the error (ROk = nil), the new state.
   "if n >= min { err = nil } else if n > 0 && err == EOF { err = ErrUnexpectedEOF }" *)
Definition ioReadFull (b : bufrd) (n : N) : list N * rres * bufrd :=
  match readfull_loop big_fuel b n [] with
  | None => ([], RStuck, b)
  | Some (bytes, None, b) => (bytes, ROk, b)
  | Some (bytes, Some e, b) =>
    (bytes,
     match bytes, e with
     | _ :: _, BEOF => RUnexpectedEOF
     | _, _ => rres_of_berror e
     end, b)
  end.

(* ---------------------------------------------------------------- errors *)
Inductive gres :=
| GR (r : rres)            (* nil (GR ROk), io.EOF, io.ErrUnexpectedEOF, flate errors, source errors *)
| GzErrHeader | GzErrChecksum            (* gzip.ErrHeader, gzip.ErrChecksum *)
| ZlErrHeader | ZlErrChecksum | ZlErrDictionary.

Definition gnil (e : gres) : bool := match e with GR ROk => true | _ => false end.
Definition gisEOF (e : gres) : bool := match e with GR REOF => true | _ => false end.
Definition noEOF (e : gres) : gres := match e with GR REOF => GR RUnexpectedEOF | _ => e end.

(* 0..8 as Engine.rres_code; 9 gzip.ErrHeader, 10 gzip.ErrChecksum, 11 zlib.ErrHeader,
   12 zlib.ErrChecksum, 13 zlib.ErrDictionary *)
Definition gres_code (e : gres) : N :=
  match e with
  | GR r => rres_code r
  | GzErrHeader => 9 | GzErrChecksum => 10
  | ZlErrHeader => 11 | ZlErrChecksum => 12 | ZlErrDictionary => 13
  end.

(* ---------------------------------------------------------------- the decompressor on a shared buffer *)
Definition set_rBuf (d : decompressor) (b : bufrd) : decompressor :=
  mkD (state d) (writePos d) (readPos d) (hist d) b (derr d) (peekSize d) (eof d) (haveBits d).

(* flate.NewReader(br), br a *bufio.Reader: adopted whatever its size *)
Definition newReader_on (b : bufrd) : decompressor :=
  mkD inflate0 0 0 aempty b None 0 false false.

(* ---------------------------------------------------------------- gzip *)
Record gzheader := mkHdr {
  h_comment : list N; h_extra : option (list N); h_modtime : N; h_name : list N; h_os : N }.
Definition hdr0 : gzheader := mkHdr [] None 0 [] 0.

Record gzreader := mkGZ {
  z_hdr : gzheader;
  z_r : bufrd;                         (* r *bufio.Reader, shared with the decompressor (G1) *)
  z_dec : option decompressor;         (* decompressor io.ReadCloser; None = nil *)
  z_digest : N; z_size : N;
  z_err : gres;
  z_multistream : bool }.

Definition gz_set_r (z : gzreader) (b : bufrd) : gzreader :=
  mkGZ (z_hdr z) b (z_dec z) (z_digest z) (z_size z) (z_err z) (z_multistream z).
Definition gz_set_dec (z : gzreader) (d : option decompressor) : gzreader :=
  mkGZ (z_hdr z) (z_r z) d (z_digest z) (z_size z) (z_err z) (z_multistream z).
Definition gz_set_digest (z : gzreader) (v : N) : gzreader :=
  mkGZ (z_hdr z) (z_r z) (z_dec z) v (z_size z) (z_err z) (z_multistream z).
Definition gz_set_size (z : gzreader) (v : N) : gzreader :=
  mkGZ (z_hdr z) (z_r z) (z_dec z) (z_digest z) v (z_err z) (z_multistream z).
Definition gz_set_err (z : gzreader) (e : gres) : gzreader :=
  mkGZ (z_hdr z) (z_r z) (z_dec z) (z_digest z) (z_size z) e (z_multistream z).
Definition gz_set_hdr (z : gzreader) (h : gzheader) : gzreader :=
  mkGZ h (z_r z) (z_dec z) (z_digest z) (z_size z) (z_err z) (z_multistream z).

Definition gzMultistream (z : gzreader) (ok : bool) : gzreader :=
  mkGZ (z_hdr z) (z_r z) (z_dec z) (z_digest z) (z_size z) (z_err z) ok.

(* string(s) for s []rune made of Latin-1 code points *)
Definition latin1_to_utf8 (l : list N) : list N :=
  flat_map (fun v => if v <? 128 then [v] else [192 + N.shiftr v 6; 128 + N.land v 63]) l.

(* the loop of readString; fuel = len(z.buf) - i.  Result: buffer, z.buf[:i] and needConv on
   success, the error *)
Fixpoint readString_loop (fuel : nat) (b : bufrd) (acc : list N) (needConv : bool)
  : bufrd * option (list N * bool) * gres :=
  match fuel with
  | O => (b, None, GzErrHeader)                              (* i >= len(z.buf) *)
  | S k =>
    match bReadByte b with
    | None => (b, None, GR RStuck)
    | Some (_, Some e, b) => (b, None, GR (rres_of_berror e))
    | Some (None, None, b) => (b, None, GR RStuck)
    | Some (Some c, None, b) =>
      let needConv := needConv || (127 <? c) in
      if c =? 0 then (b, Some (frev acc, needConv), GR ROk)
      else readString_loop k b (c :: acc) needConv
    end
  end.

Definition gzReadString (z : gzreader) : gzreader * list N * gres :=
  let '(b, r, e) := readString_loop 512 (z_r z) [] false in
  let z := gz_set_r z b in
  match r with
  | None => (z, [], e)
  | Some (raw, needConv) =>
    (* Digest covers the NUL terminator *)
    let z := gz_set_digest z (crc32_update (z_digest z) (raw ++ [0])) in
    (z, if needConv then latin1_to_utf8 raw else raw, GR ROk)
  end.

Definition flagHdrCrc : N := 1.     (* bit numbers *)
Definition flagExtra : N := 2.
Definition flagName : N := 3.
Definition flagComment : N := 4.

Definition h_set_extra (h : gzheader) (v : list N) : gzheader :=
  mkHdr (h_comment h) (Some v) (h_modtime h) (h_name h) (h_os h).
Definition h_set_name (h : gzheader) (v : list N) : gzheader :=
  mkHdr (h_comment h) (h_extra h) (h_modtime h) v (h_os h).
Definition h_set_comment (h : gzheader) (v : list N) : gzheader :=
  mkHdr v (h_extra h) (h_modtime h) (h_name h) (h_os h).

Definition rh_res : Type := gzreader * gzheader * gres.

(* if flg&flagExtra != 0 { ... } *)
Definition rh_extra (flg : N) (z : gzreader) (hdr : gzheader) : rh_res :=
  if N.testbit flg flagExtra then
    let '(buf, e, b) := ioReadFull (z_r z) 2 in
    let z := gz_set_r z b in
    match e with
    | ROk =>
      let z := gz_set_digest z (crc32_update (z_digest z) buf) in
      let '(data, e, b) := ioReadFull (z_r z) (of_le buf) in
      let z := gz_set_r z b in
      match e with
      | ROk => (gz_set_digest z (crc32_update (z_digest z) data), h_set_extra hdr data, GR ROk)
      | _ => (z, hdr, noEOF (GR e))
      end
    | _ => (z, hdr, noEOF (GR e))
    end
  else (z, hdr, GR ROk).

Definition rh_name (flg : N) (z : gzreader) (hdr : gzheader) : rh_res :=
  if N.testbit flg flagName then
    let '(z, s, e) := gzReadString z in
    if gnil e then (z, h_set_name hdr s, GR ROk) else (z, hdr, noEOF e)
  else (z, hdr, GR ROk).

Definition rh_comment (flg : N) (z : gzreader) (hdr : gzheader) : rh_res :=
  if N.testbit flg flagComment then
    let '(z, s, e) := gzReadString z in
    if gnil e then (z, h_set_comment hdr s, GR ROk) else (z, hdr, noEOF e)
  else (z, hdr, GR ROk).

Definition rh_hcrc (flg : N) (z : gzreader) (hdr : gzheader) : rh_res :=
  if N.testbit flg flagHdrCrc then
    let '(buf, e, b) := ioReadFull (z_r z) 2 in
    let z := gz_set_r z b in
    match e with
    | ROk => if of_le buf =? u16 (z_digest z) then (z, hdr, GR ROk) else (z, hdr, GzErrHeader)
    | _ => (z, hdr, noEOF (GR e))
    end
  else (z, hdr, GR ROk).

(* z.digest = 0; flate.NewReader(z.r) or z.decompressor.Reset(z.r, nil) *)
Definition rh_finish (z : gzreader) (hdr : gzheader) : rh_res :=
  let z := gz_set_digest z 0 in
  let d := match z_dec z with
           | None => newReader_on (z_r z)
           | Some d => dReset d (z_r z)
           end in
  (gz_set_dec z (Some d), hdr, GR ROk).

Definition rh_bind (r : rh_res) (f : gzreader -> gzheader -> rh_res) : rh_res :=
  let '(z, hdr, e) := r in if gnil e then f z hdr else r.

(* readHeader; does not set z.err *)
Definition gzReadHeader (z : gzreader) : rh_res :=
  let hdr := hdr0 in
  let '(buf, e, b) := ioReadFull (z_r z) 10 in
  let z := gz_set_r z b in
  match e with
  | ROk =>
    if negb ((nthN buf 0 =? 31) && (nthN buf 1 =? 139) && (nthN buf 2 =? 8))
    then (z, hdr, GzErrHeader)
    else
      let flg := nthN buf 3 in
      let t := of_le (firstn 4 (skipn 4 buf)) in
      (* if t > 0 { hdr.ModTime = time.Unix(t, 0) };  hdr.OS = z.buf[9] *)
      let hdr := mkHdr [] None t [] (nthN buf 9) in
      let z := gz_set_digest z (crc32 buf) in
      rh_bind (rh_bind (rh_bind (rh_bind (rh_extra flg z hdr) (rh_name flg)) (rh_comment flg))
                       (rh_hcrc flg)) rh_finish
  | _ => (z, hdr, GR e)                                    (* io.EOF stays io.EOF here *)
  end.

(* Reset(r) with r (wrapped in / being) the bufio.Reader rb *)
Definition gzReset (z : gzreader) (rb : bufrd) : gzreader * gres :=
  let z := mkGZ hdr0 rb (z_dec z) 0 0 (GR ROk) true in
  let '(z, hdr, e) := gzReadHeader z in
  (gz_set_err (gz_set_hdr z hdr) e, e).

(* new(Reader) *)
Definition gzZero (rb : bufrd) : gzreader := mkGZ hdr0 rb None 0 0 (GR ROk) false.
(* NewReader: the object exists for the caller only when the error is nil *)
Definition gzNewReader (rb : bufrd) : gzreader * gres := gzReset (gzZero rb) rb.

(* the body of Read after the "z.err != nil" test; fuel bounds "for n == 0" *)
Fixpoint gzRead_loop (fuel : nat) (z : gzreader) (plen : N) : gzreader * list N * gres :=
  match fuel with
  | O => (gz_set_err z (GR RStuck), [], GR RStuck)
  | S k =>
    match z_dec z with
    | None => (gz_set_err z (GR RPanic), [], GR RPanic)    (* nil interface: not reachable *)
    | Some d =>
      let '(d, bytes, r) := dRead (set_rBuf d (z_r z)) plen in
      let z := gz_set_err (gz_set_dec (gz_set_r z (rBuf d)) (Some d)) (GR r) in
      let z := gz_set_digest z (crc32_update (z_digest z) bytes) in
      let z := gz_set_size z (u32 (z_size z + lenN bytes)) in
      match r with
      | REOF =>
        let '(buf, e, b) := ioReadFull (z_r z) 8 in
        let z := gz_set_r z b in
        match e with
        | ROk =>
          (* Finished file; check checksum and size *)
          let digest := of_le (firstn 4 buf) in
          let size := of_le (skipn 4 buf) in
          if negb (digest =? z_digest z) || negb (size =? z_size z)
          then (gz_set_err z GzErrChecksum, bytes, GzErrChecksum)
          else
            let z := gz_set_size (gz_set_digest z 0) 0 in
            if negb (z_multistream z) then (z, bytes, GR REOF)   (* z.err stays io.EOF *)
            else
              let z := gz_set_err z (GR ROk) in
              let '(z, _, e) := gzReadHeader z in
              let z := gz_set_err z e in
              if negb (gnil e) then (z, bytes, e)
              else
                match bytes with
                | [] => gzRead_loop k z plen
                | _ => (z, bytes, GR ROk)
                end
        | _ => let e' := noEOF (GR e) in (gz_set_err z e', bytes, e')
        end
      | _ => (z, bytes, GR r)                              (* in the normal case we return here *)
      end
    end
  end.

Definition gzRead (z : gzreader) (plen : N) : gzreader * list N * gres :=
  if negb (gnil (z_err z)) then (z, [], z_err z) else gzRead_loop big_fuel z plen.

(* Close: z.decompressor.Close() = nil for fastgo's decompressor; a nil decompressor panics *)
Definition gzClose (z : gzreader) : gres :=
  match z_dec z with None => GR RPanic | Some _ => GR ROk end.

(* ---------------------------------------------------------------- Adler-32 as a running hash *)
Definition adler0 : N * N := (1, 0).
Definition adler_update (s : N * N) (l : list N) : N * N := fold_left adler_step l s.
Definition adler_sum (s : N * N) : N := snd s * 65536 + fst s.

(* ---------------------------------------------------------------- the standard library's inflater (G5) *)
Record stdinfl := mkSD {
  sd_dict : list N;
  sd_started : bool;
  sd_cur : list N;                 (* f.toRead *)
  sd_more : list (list N);         (* the flushes still to come; the last one is the final flush *)
  sd_final : gres;                 (* the error that comes with the final flush *)
  sd_ferr : gres }.                (* f.err *)

Definition std_new (dict : list N) : stdinfl := mkSD dict false [] [] (GR ROk) (GR ROk).
Definition std_reset (_ : stdinfl) (dict : list N) : stdinfl := std_new dict.

Definition std_window : nat := N.to_nat 32768.

Fixpoint std_segs (fuel : nat) (k : nat) (l : list N) : list (list N) :=
  match fuel with
  | O => [l]
  | S f => if (length l <? k)%nat then [l] else firstn k l :: std_segs f std_window (skipn k l)
  end.

Fixpoint std_advance (n : nat) (b : bufrd) : bufrd * option gres :=
  match n with
  | O => (b, None)
  | S k =>
    match bReadByte b with
    | Some (Some _, None, b) => std_advance k b
    | Some (_, Some e, b) => (b, Some (GR (rres_of_berror e)))
    | _ => (b, Some (GR RStuck))
    end
  end.

Fixpoint std_drain (fuel : nat) (b : bufrd) : bufrd * gres :=
  match fuel with
  | O => (b, GR RStuck)
  | S k =>
    match bReadByte b with
    | Some (Some _, None, b) => std_drain k b
    | Some (_, Some e, b) => (b, GR (rres_of_berror e))
    | _ => (b, GR RStuck)
    end
  end.

(* everything the source side still holds *)
Definition b_all (b : bufrd) : list N := bbuf b ++ concat (chunks b).

Definition std_start (s : stdinfl) (b : bufrd) : stdinfl * bufrd :=
  let data := b_all b in
  let r := Inflate.inflate (sd_dict s) data in
  let held := (N.min (lenN (sd_dict s)) 32768) mod 32768 in
  let segs := std_segs (S (length (out r))) (N.to_nat (32768 - held)) (out r) in
  let n := (bitpos r + 7) / 8 in
  let '(b, fin) :=
    match status r with
    | Done =>
      let '(b, e) := std_advance (N.to_nat n) b in
      (b, match e with None => GR REOF | Some e => e end)
    | NeedInput =>
      let '(b, e) := std_drain (S (length data)) b in (b, noEOF e)
    | _ =>
      let '(b, e) := std_advance (N.to_nat n) b in
      (b, match e with None => GR (RCorrupt (Z.of_N n)) | Some e => e end)
    end in
  (mkSD (sd_dict s) true [] segs fin (GR ROk), b).

(* compress/flate decompressor.Read: hand out f.toRead; when it is empty and f.err == nil, step *)
Fixpoint std_read_loop (fuel : nat) (s : stdinfl) (plen : N) : stdinfl * list N * gres :=
  match fuel with
  | O => (s, [], GR RStuck)
  | S k =>
    match sd_cur s with
    | _ :: _ =>
      let n := N.to_nat (N.min plen (lenN (sd_cur s))) in
      let rest := skipn n (sd_cur s) in
      let s' := mkSD (sd_dict s) true rest (sd_more s) (sd_final s) (sd_ferr s) in
      (s', firstn n (sd_cur s), match rest with [] => sd_ferr s | _ => GR ROk end)
    | [] =>
      if negb (gnil (sd_ferr s)) then (s, [], sd_ferr s)
      else
        match sd_more s with
        | [] => (s, [], GR RStuck)
        | [seg] => std_read_loop k (mkSD (sd_dict s) true seg [] (sd_final s) (sd_final s)) plen
        | seg :: more => std_read_loop k (mkSD (sd_dict s) true seg more (sd_final s) (GR ROk)) plen
        end
    end
  end.

Definition std_read (s : stdinfl) (b : bufrd) (plen : N) : stdinfl * bufrd * list N * gres :=
  let '(s, b) := if sd_started s then (s, b) else std_start s b in
  let '(s, bytes, e) := std_read_loop 3 s plen in
  (s, b, bytes, e).

(* compress/flate decompressor.Close: io.EOF counts as success *)
Definition std_close (s : stdinfl) : gres :=
  if gisEOF (sd_ferr s) then GR ROk else sd_ferr s.

(* ---------------------------------------------------------------- zlib *)
Inductive zdec := ZNone | ZFast (d : decompressor) | ZStd (s : stdinfl).

Record zlreader := mkZL {
  zl_r : bufrd;                    (* r flate.Reader: always the *bufio.Reader (G1) *)
  zl_dec : zdec;
  zl_digest : N * N;               (* digest hash.Hash32 *)
  zl_err : gres }.

Definition zl_set_r (z : zlreader) (b : bufrd) : zlreader :=
  mkZL b (zl_dec z) (zl_digest z) (zl_err z).
Definition zl_set_err (z : zlreader) (e : gres) : zlreader :=
  mkZL (zl_r z) (zl_dec z) (zl_digest z) e.

(* Reset(r, dict); a nil dictionary is the empty one *)
Definition zlReset (z : zlreader) (rb : bufrd) (dict : list N) : zlreader * gres :=
  let z := mkZL rb (zl_dec z) adler0 (GR ROk) in
  let '(buf, e, b) := ioReadFull (zl_r z) 2 in
  let z := zl_set_r z b in
  match e with
  | ROk =>
    let s0 := nthN buf 0 in
    let s1 := nthN buf 1 in
    let h := of_be buf in
    if negb (N.land s0 15 =? 8) || (7 <? N.shiftr s0 4) || negb (h mod 31 =? 0)
    then (zl_set_err z ZlErrHeader, ZlErrHeader)
    else
      let haveDict := negb (N.land s1 32 =? 0) in
      let r : zlreader * gres :=
        if haveDict then
          let '(buf, e, b) := ioReadFull (zl_r z) 4 in
          let z := zl_set_r z b in
          match e with
          | ROk => if of_be buf =? adler32 dict then (z, GR ROk)
                   else (zl_set_err z ZlErrDictionary, ZlErrDictionary)
          | _ => let e' := noEOF (GR e) in (zl_set_err z e', e')
          end
        else (z, GR ROk) in
      let '(z, e) := r in
      if negb (gnil e) then (z, e)
      else
        let dec :=
          match zl_dec z, haveDict with
          | _, true => ZStd (std_new dict)                  (* flate.NewReaderDict: stdlib *)
          | ZNone, false => ZFast (newReader_on (zl_r z))
          | ZFast d, false => ZFast (dReset d (zl_r z))     (* the dictionary is ignored *)
          | ZStd s, false => ZStd (std_reset s dict)        (* stdlib Reset(z.r, dict) *)
          end in
        (mkZL (zl_r z) dec adler0 (GR ROk), GR ROk)
  | _ => let e' := noEOF (GR e) in (zl_set_err z e', e')
  end.

Definition zlZero (rb : bufrd) : zlreader := mkZL rb ZNone adler0 (GR ROk).
Definition zlNewReaderDict (rb : bufrd) (dict : list N) : zlreader * gres :=
  zlReset (zlZero rb) rb dict.

(* z.decompressor.Read(p) on the shared buffer *)
Definition zl_decRead (z : zlreader) (plen : N) : zlreader * list N * gres :=
  match zl_dec z with
  | ZNone => (z, [], GR RPanic)
  | ZFast d =>
    let '(d, bytes, r) := dRead (set_rBuf d (zl_r z)) plen in
    (mkZL (rBuf d) (ZFast d) (zl_digest z) (zl_err z), bytes, GR r)
  | ZStd s =>
    let '(s, b, bytes, e) := std_read s (zl_r z) plen in
    (mkZL b (ZStd s) (zl_digest z) (zl_err z), bytes, e)
  end.

Definition zlRead (z : zlreader) (plen : N) : zlreader * list N * gres :=
  if negb (gnil (zl_err z)) then (z, [], zl_err z)
  else
    let '(z, bytes, e) := zl_decRead z plen in
    let z := mkZL (zl_r z) (zl_dec z) (adler_update (zl_digest z) bytes) e in
    if negb (gisEOF e) then (z, bytes, e)                   (* in the normal case we return here *)
    else
      (* Finished file; check checksum *)
      let '(buf, e, b) := ioReadFull (zl_r z) 4 in
      let z := zl_set_r z b in
      match e with
      | ROk =>
        if negb (of_be buf =? adler_sum (zl_digest z))
        then (zl_set_err z ZlErrChecksum, bytes, ZlErrChecksum)
        else (z, bytes, GR REOF)
      | _ => let e' := noEOF (GR e) in (zl_set_err z e', bytes, e')
      end.

Definition zlClose (z : zlreader) : zlreader * gres :=
  if negb (gnil (zl_err z)) && negb (gisEOF (zl_err z)) then (z, zl_err z)
  else
    let e := match zl_dec z with
             | ZNone => GR RPanic
             | ZFast _ => GR ROk
             | ZStd s => std_close s
             end in
    (zl_set_err z e, e).

(* ---------------------------------------------------------------- scripts *)
Definition mkbuf_obs (bufsize : N) (cs : list (list N)) (term_is_err : bool) : bufrd :=
  mkbufrd bufsize cs (term_of term_is_err).

(* a fresh bufio.Reader (4096) over the same underlying source: what gzip's Reset(r) makes for an
   r that is not a *bufio.Reader; the bytes the old buffer held are lost *)
Definition rewrap (b : bufrd) : bufrd :=
  mkBuf 4096 [] 0 None (chunks b) (term b) (consumed b + blen b).

Inductive gzop :=
| GoRead (n : N)
| GoReset                                     (* z.Reset(br), br the bufio.Reader in use *)
| GoResetRaw                                  (* z.Reset(src), src the raw source under it *)
| GoResetSrc (bufsize : N) (cs : list (list N)) (term_is_err : bool)   (* onto a new source *)
| GoMulti (ok : bool)
| GoClose.

Inductive gzob :=
| ObRead (bytes : list N) (e : gres)
| ObReset (e : gres) (h : gzheader)
| ObClose (e : gres)
| ObSrc (consumed : N).                       (* bytes consumed from the source being left *)

Fixpoint gz_ops (z : gzreader) (ops : list gzop) (acc : list gzob) : list gzob * gzreader :=
  match ops with
  | [] => (frev acc, z)
  | op :: rest =>
    match op with
    | GoRead n =>
      let '(z, bytes, e) := gzRead z n in gz_ops z rest (ObRead bytes e :: acc)
    | GoReset =>
      let '(z, e) := gzReset z (z_r z) in gz_ops z rest (ObReset e (z_hdr z) :: acc)
    | GoResetRaw =>
      let '(z, e) := gzReset z (rewrap (z_r z)) in
      gz_ops z rest (ObReset e (z_hdr z) :: acc)
    | GoResetSrc bs cs t =>
      let c := consumed (z_r z) in
      let '(z, e) := gzReset z (mkbuf_obs bs cs t) in
      gz_ops z rest (ObReset e (z_hdr z) :: ObSrc c :: acc)
    | GoMulti ok => gz_ops (gzMultistream z ok) rest acc
    | GoClose => gz_ops z rest (ObClose (gzClose z) :: acc)
    end
  end.

(* new(Reader); Reset(bufio.NewReaderSize(src, bufsize)); ops.  The first observation is the
   ObReset of that Reset; the last component is the number of bytes consumed from the last source *)
Definition gzrun_ops (bufsize : N) (chunks : list (list N)) (term_is_err : bool) (ops : list gzop)
  : list gzob * N :=
  let rb := mkbuf_obs bufsize chunks term_is_err in
  let '(l, z) := gz_ops (gzZero rb) (GoResetSrc bufsize chunks term_is_err :: ops) [] in
  (match l with ObSrc _ :: l' => l' | _ => l end, consumed (z_r z)).

Fixpoint gz_reads (z : gzreader) (reads : list N) (acc : list (list N * N))
  : list (list N * N) * gzreader :=
  match reads with
  | [] => (frev acc, z)
  | p :: rest => let '(z, bytes, e) := gzRead z p in gz_reads z rest ((bytes, gres_code e) :: acc)
  end.

(* NewReader(bufio.NewReaderSize(src, bufsize)); Multistream(multistream); every Read of reads.
   Result: NewReader's error code, the Header, per Read (bytes, code), source bytes consumed.
   When NewReader fails there is no Reader and no Read. *)
Definition gzrun_obs (bufsize : N) (chunks : list (list N)) (term_is_err : bool)
           (multistream : bool) (reads : list N)
  : N * gzheader * list (list N * N) * N :=
  let '(z, e) := gzNewReader (mkbuf_obs bufsize chunks term_is_err) in
  if negb (gnil e) then (gres_code e, z_hdr z, [], consumed (z_r z))
  else
    let '(l, z) := gz_reads (gzMultistream z multistream) reads [] in
    (gres_code e, z_hdr z, l, consumed (z_r z)).

Inductive zlop :=
| ZoRead (n : N)
| ZoReset (dict : list N)                      (* Reset(br, dict), br the bufio.Reader in use *)
| ZoResetSrc (bufsize : N) (cs : list (list N)) (term_is_err : bool) (dict : list N)
| ZoClose.

Inductive zlob :=
| ZbRead (bytes : list N) (e : gres)
| ZbReset (e : gres)
| ZbClose (e : gres)
| ZbSrc (consumed : N).

Fixpoint zl_ops (z : zlreader) (ops : list zlop) (acc : list zlob) : list zlob * zlreader :=
  match ops with
  | [] => (frev acc, z)
  | op :: rest =>
    match op with
    | ZoRead n =>
      let '(z, bytes, e) := zlRead z n in zl_ops z rest (ZbRead bytes e :: acc)
    | ZoReset dict =>
      let '(z, e) := zlReset z (zl_r z) dict in zl_ops z rest (ZbReset e :: acc)
    | ZoResetSrc bs cs t dict =>
      let c := consumed (zl_r z) in
      let '(z, e) := zlReset z (mkbuf_obs bs cs t) dict in
      zl_ops z rest (ZbReset e :: ZbSrc c :: acc)
    | ZoClose =>
      let '(z, e) := zlClose z in zl_ops z rest (ZbClose e :: acc)
    end
  end.

Definition zlrun_ops (bufsize : N) (chunks : list (list N)) (term_is_err : bool) (dict : list N)
           (ops : list zlop) : list zlob * N :=
  let rb := mkbuf_obs bufsize chunks term_is_err in
  let '(l, z) := zl_ops (zlZero rb) (ZoResetSrc bufsize chunks term_is_err dict :: ops) [] in
  (match l with ZbSrc _ :: l' => l' | _ => l end, consumed (zl_r z)).

Fixpoint zl_reads (z : zlreader) (reads : list N) (acc : list (list N * N))
  : list (list N * N) * zlreader :=
  match reads with
  | [] => (frev acc, z)
  | p :: rest => let '(z, bytes, e) := zlRead z p in zl_reads z rest ((bytes, gres_code e) :: acc)
  end.

(* NewReaderDict(bufio.NewReaderSize(src, bufsize), dict) (None: NewReader); every Read of reads *)
Definition zlrun_obs (bufsize : N) (chunks : list (list N)) (term_is_err : bool)
           (dict : option (list N)) (reads : list N)
  : N * list (list N * N) * N :=
  let d := match dict with Some d => d | None => [] end in
  let '(z, e) := zlNewReaderDict (mkbuf_obs bufsize chunks term_is_err) d in
  if negb (gnil e) then (gres_code e, [], consumed (zl_r z))
  else
    let '(l, z) := zl_reads z reads [] in
    (gres_code e, l, consumed (zl_r z)).

(* ---------------------------------------------------------------- links to Engine.v *)
Lemma newReader_on_eq : forall bufsize cs t,
  newReader bufsize cs t = newReader_on (mkbufrd bufsize cs t).
Proof. reflexivity. Qed.

Lemma set_rBuf_same : forall d, set_rBuf d (rBuf d) = d.
Proof. destruct d; reflexivity. Qed.
