(* Extraction of the gzip/zlib reader model (GzEngine.v, on top of Engine.v) to OCaml:
   gzengine.ml / gzengine.mli are written into the directory where coqc is run
   (/verif/driver/gz).  Only ExtrOcamlBasic: N, Z, positive, nat stay Coq's inductive types. *)
From Coq Require Import Extraction ExtrOcamlBasic.
From Verif Require Import GzEngine.
Extraction Language OCaml.
Extraction "gzengine.ml" gzrun_obs gzrun_ops zlrun_obs zlrun_ops gres_code.
