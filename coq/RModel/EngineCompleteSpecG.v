(* EngineCompleteSpecG.v -- a sufficient condition for `strict` that does not mention the engine:
   every dynamic block has a COMPLETE distance code, or one without code words longer than 10
   bits (in particular the usual exceptions: a single distance code of one bit, or none at
   all).  Streams produced by real deflaters satisfy it. *)
From Coq Require Import List NArith ZArith Bool.
From Verif Require Import Bits Huffman Inflate InflateSpec InflateMono.
From Verif Require Import Base EngineTables Engine EngineRefineSpecReach EngineCompleteSpecB.
Import ListNotations.
Open Scope N_scope.

Definition std_dist (dl : lens) : Prop :=
  complete 15 dl = true \/ Forall (fun x => (x <= 10)%nat) dl.

Definition std_stream (data : list N) : Prop :=
  forall st S bf s1 s2 ll dl s3,
    reach data (CBlock st S) ->
    take 1 S = Some (bf, s1) -> take 2 s1 = Some (2, s2) -> dyn_lens s2 = HOk (ll, dl) s3 ->
    std_dist dl.

(* the length vectors the reference parses are well formed *)
Definition dyn_lens_shape_statement : Prop :=
  forall s ll dl s3, dyn_lens s = HOk (ll, dl) s3 ->
    Forall (fun x => (x <= 15)%nat) ll /\ Forall (fun x => (x <= 15)%nat) dl /\
    (257 <= length ll <= 286)%nat /\ (1 <= length dl <= 30)%nat.

Definition strict_std_statement : Prop :=
  forall data, status (Inflate.inflate [] data) = Done -> std_stream data -> strict data.
