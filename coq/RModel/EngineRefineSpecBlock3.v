(* EngineRefineSpecBlock3.v -- the decodeHuffman statement as it is PROVED
   (proofs/EngineRefineHuffMain.v, decodeHuffman_refine2_partial): decodeHuffman_refine2_statement
   with the extra hypothesis writeOverflowLits (ov s) = 0.
   The version without it (EngineRefineSpecBlock2.decodeHuffman_refine2_statement) is REFUTED
   as stated: with writeOverflowLen = 0 but a stale non-zero writeOverflowLits, the conclusion
   `ov s2 = ov0` fails (the stale value survives when nothing is parked).  At every call site
   the overflow fields are all zero (st_sim: ov s = ov0), so nothing is lost. *)
From Coq Require Import List NArith ZArith Bool.
From Verif Require Import Bits Huffman Inflate InflateSpec InflateMono.
From Verif Require Import Base EngineTables Engine EngineRefineSpec EngineRefineSpecBlock.
Import ListNotations.
Open Scope N_scope.

Definition decodeHuffman_refine3_statement : Prop :=
  forall s out w lt dt st e p,
    br_wf (rd s) -> (0 <= r_len (rd s))%Z ->
    phase s = phaseHeaderDecoded -> (bfinal s = 0 \/ bfinal s = 1) ->
    writeOverflowLen (ov s) = 0 ->
    writeOverflowLits (ov s) = 0 ->
    tabs_for (tb s) lt dt -> win_rel out w st -> w <= outLen ->
    let '(s', out', w', err) := decodeHuffman s out w in
    let '(s2, out2, w2) := flush_ov s' out' w' in
    exists st' bs' ended,
      sym_run lt dt st (mkbs (br_bits (rd s) ++ e) p) st' bs' ended /\
      win_rel out2 w2 st' /\ olen st' = olen st + (w2 - w) /\
      w <= w' /\ w' <= outLen /\ w' <= w2 /\ w2 <= outLen + 261 /\
      (w' < w2 -> err = EOutputOverflow \/ isError err = true \/ err = EPanic \/ err = EFuel) /\
      same_static s s' /\ litBlockLength s' = litBlockLength s /\
      same_static s' s2 /\ rd s2 = rd s' /\ phase s2 = phase s' /\
      litBlockLength s2 = litBlockLength s' /\ ov s2 = ov0 /\
      (err <> EPanic -> err <> EFuel -> isError err = false ->
         br_wf (rd s') /\ (0 <= r_len (rd s'))%Z /\ bl bs' = br_bits (rd s') ++ e /\
         phase s' = (if ended then (if bfinal s =? 1 then phaseStreamEnd else phaseNewBlock)
                     else phaseHeaderDecoded) /\
         (err = ENone -> ended = true) /\ (err = EEndInput -> ended = false) /\
         (err = ENone \/ err = EEndInput \/ err = EOutputOverflow) /\
         (err = EOutputOverflow -> w' = outLen)).
