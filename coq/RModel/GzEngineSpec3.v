(* GzEngineSpec3.v -- third layer of statements about the gzip / zlib reader model
   (RModel/GzEngine.v): NO PANIC / NO STUCK at the container level, on top of the engine's safety
   development (proofs/EngineSafety*.v).  Proofs: proofs/GzEngineSafe*.v.

   Standing conditions (those of EngineSafetyFinal.erun_safe, plus non-empty deliveries):
   byte values < 256, bufio size <= 90000, source length <= 262141, every chunk non-empty (the
   model's io.ReadFull loop carries fuel; a source that answers (0, nil) hundreds of thousands of
   times in a row would exhaust it -- the Go loop just keeps reading). *)
From Coq Require Import List NArith ZArith Bool.
From Verif Require Import Bits Huffman Inflate InflateSpec.
From Verif Require Import Containers ContainersSpec.
From Verif Require Import Base Engine EngineReset EngineRefineSpecBuf
     EngineSafetyBase EngineSafetyInv EngineSafetyBuf EngineSafetyHeader EngineSafety GzEngine GzEngineSpec.
Import ListNotations.
Open Scope N_scope.

(* ================================================================ E: the engine layer *)
(* the part of the engine invariant that survives a Reset: the lookup tables and the code-length
   scratch are well formed (inflate.reset keeps them) *)
Definition tk (s : Engine.inflate) : Prop := clc_ok (dyn s) /\ tabs_ok2 (tb s).

(* EngineSafety.r_inv, plus: a decompressor that has reported io.EOF has well-formed tables *)
Definition rs_inv (T : N) (f : decompressor) : Prop :=
  r_inv T f /\ (derr f = Some REOF -> tk (state f)).

(* E1: the step that reports io.EOF leaves well-formed tables *)
Definition step_eof_tables_statement : Prop :=
  forall f, d_inv f -> snd (step f) = Some REOF -> tk (state (fst (step f))).

(* E2: Read keeps rs_inv and never panics / gets stuck *)
Definition dRead_rs_statement : Prop :=
  forall T f p, rs_inv T f -> T + 3 <= 262144 ->
    let '(f', _, r) := dRead f p in
    (r <> RPanic /\ r <> RStuck) /\ rs_inv T f'.

(* E3: the buffer part of the invariant, and the decompressors made on such a buffer *)
Definition sbuf (T : N) (b : bufrd) : Prop :=
  buf_inv b /\ berr_ok b /\ 16 <= bsize b /\ bsize b <= BUFMAX /\ buf_bytes b /\
  src_total (chunks b) <= T.

Definition newReader_on_rs_statement : Prop :=
  forall T b, sbuf T b -> rs_inv T (newReader_on b).
Definition dReset_rs_statement : Prop :=
  forall T d b, sbuf T b -> tk (state d) -> rs_inv T (dReset d b).

(* a buffer that holds a suffix of a source of bytes is such a buffer *)
Definition sbuf_of_strm_statement : Prop :=
  forall data T b, strm_inv data b -> GzEngineSpec.bytes_ok data -> lenN data <= T ->
    bsize b <= BUFMAX -> sbuf T b.

(* ================================================================ no panic, no stuck *)
Definition gres_safe (e : gres) : Prop := e <> GR RPanic /\ e <> GR RStuck.

Definition gz_safe_statement : Prop :=
  forall data cs bufsize t multi reads,
    GzEngineSpec.bytes_ok data -> concat cs = data -> Forall (fun c => c <> []) cs ->
    bufsize <= 90000 -> lenN data <= 262141 ->
    let '(e0, l) := gzrun bufsize cs t multi reads in
    gres_safe e0 /\ Forall (fun br => gres_safe (snd br)) l.

(* zlib, no dictionary (FDICT clear, as in zl_sound_statement) *)
Definition zl_safe_statement : Prop :=
  forall data cs bufsize t reads,
    GzEngineSpec.bytes_ok data -> concat cs = data -> Forall (fun c => c <> []) cs ->
    bufsize <= 90000 -> lenN data <= 262141 ->
    N.testbit (nth 1 data 0) 5 = false ->
    let '(e0, l) := zlrun bufsize cs t [] reads in
    gres_safe e0 /\ Forall (fun br => gres_safe (snd br)) l.
