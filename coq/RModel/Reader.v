(* Reader.v — specification-level model of fastgo's flate Reader (compress/flate/reader.go on top
   of the inflate engine).

   What is modelled: the observable contract of NewReader/Reset + Read on a source that delivers
   its bytes in arbitrary chunks and then reports EOF or an error: which bytes are handed out,
   which error ends the run, how many source bytes have been consumed at that point, and how
   many source deliveries were needed.  The engine is the *ideal* one: after every delivery it
   has decoded every element of the stream that is wholly present (Spec/Inflate.v).

   What is not modelled (DESIGN.md 9): the 64-bit bit buffer, the lookup tables, roll-back of
   multi-symbol entries, the output window and its carry-over, bufio's buffer management.  They
   decide *when* bytes become visible inside one delivery, never the observables above, except
   for the documented slack on truncated streams (finding F-C04), where the implementation may
   hold back a few bytes that the ideal engine delivers.  The correspondence run compares the
   implementation with this model on those observables. *)
From Verif Require Export InflateSpec.
Open Scope N_scope.

Inductive terminal := TEOF | TErr (e : N).          (* what the source does after its bytes *)
Inductive rerr := REOF | RUnexpectedEOF | RCorrupt | RSrc (e : N).

Record robs := mkrobs {
  rbytes : list byte;       (* concatenation of everything Read handed out *)
  rerror : rerr;            (* the error that ended the run (returned by every later Read) *)
  rconsumed : N;            (* source bytes consumed when the run ended *)
  rused : nat               (* source deliveries requested *)
}.

Definition term_err (t : terminal) : rerr :=
  match t with TEOF => RUnexpectedEOF | TErr e => RSrc e end.

(* verdict on the bytes received so far; None = more input is needed *)
Definition verdict (r : ires) (used : nat) : option robs :=
  match status r with
  | Done => Some (mkrobs (out r) REOF ((bitpos r + 7) / 8) used)
  | Corrupt => Some (mkrobs (out r) RCorrupt ((bitpos r + 7) / 8) used)
  | Fuel => Some (mkrobs (out r) RCorrupt 0 used)
  | NeedInput => None
  end.

(* the Read loop: decode what has been received; ask the source only when that is not enough *)
Fixpoint rrun_from (dict received : list byte) (chunks : list (list byte)) (term : terminal)
         (used : nat) : robs :=
  let r := inflate dict received in
  match verdict r used with
  | Some o => o
  | None =>
    match chunks with
    | [] => mkrobs (out r) (term_err term) (N.of_nat (length received)) used
    | c :: cs => rrun_from dict (received ++ c) cs term (S used)
    end
  end.

(* a Reader is its sticky state; Reset(src) and NewReader(src) both start here *)
Record rstate := mkrs { rs_received : list byte; rs_delivered : N; rs_err : option rerr }.
Definition rs_init : rstate := mkrs [] 0 None.
Definition rs_reset (_ : rstate) : rstate := rs_init.

Definition rrun (dict : list byte) (chunks : list (list byte)) (term : terminal) : robs :=
  rrun_from dict [] chunks term 0.

(* Reads with caller-chosen buffer sizes hand the same bytes out in pieces *)
Fixpoint split_reads (l : list byte) (sizes : list nat) : list (list byte) :=
  match sizes with
  | [] => [l]
  | n :: r => match l with [] => [] | _ => firstn (S n) l :: split_reads (skipn (S n) l) r end
  end.

(* what the run must look like as a function of the whole source content *)
Definition final_obs (dict s : list byte) (term : terminal) : list byte * rerr :=
  let r := inflate dict s in
  match status r with
  | Done => (out r, REOF)
  | Corrupt | Fuel => (out r, RCorrupt)
  | NeedInput => (out r, term_err term)
  end.
