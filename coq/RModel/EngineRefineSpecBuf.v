(* EngineRefineSpecBuf.v -- the bufio.Reader model of RModel/Engine.v over a source that
   delivers non-empty chunks and then EOF (or an error): Peek and Discard as operations on the
   abstract stream of bytes still to come. *)
From Coq Require Import List NArith ZArith Bool.
From Verif Require Import Base EngineTables Engine.
Import ListNotations.
Open Scope N_scope.

(* the bytes not yet discarded: buffered ones, then what the source will still deliver *)
Definition bstream (b : bufrd) : list N := bbuf b ++ concat (chunks b).

Definition buf_ok (b : bufrd) : Prop :=
  blen b = N.of_nat (length (bbuf b)) /\ blen b <= bsize b /\ 16 <= bsize b /\
  Forall (fun c => c <> []) (chunks b) /\
  (forall e, berr b = Some e ->
     chunks b = [] /\ e = match term b with TEOF => BEOF | TErr => BSrc end).

(* Peek(n) for small n (the decoder peeks held+1 <= 9 bytes, or exactly what is buffered):
   never out of fuel, the stream is unchanged, the bytes returned are its first cnt bytes;
   without error cnt = n; with an error fewer than n bytes were left in total (the source is
   exhausted) and the error is the source's. *)
Definition bPeek_spec_statement : Prop :=
  forall b n, buf_ok b -> n <= 16 ->
    exists bytes cnt err b',
      bPeek b n = Some (bytes, cnt, err, b') /\
      buf_ok b' /\ bstream b' = bstream b /\ consumed b' = consumed b /\
      bsize b' = bsize b /\ term b' = term b /\
      bytes = firstn (N.to_nat cnt) (bstream b) /\ cnt = N.of_nat (length bytes) /\
      (err = None -> cnt = n) /\
      (forall e, err = Some e ->
         cnt < n /\ bytes = bstream b /\ chunks b' = [] /\ bbuf b' = bstream b /\
         e = match term b with TEOF => BEOF | TErr => BSrc end).

(* Peek(Buffered()) returns the buffered bytes and changes nothing *)
Definition bPeek_buffered_statement : Prop :=
  forall b, buf_ok b ->
    bPeek b (bBuffered b) = Some (bbuf b, blen b, None, b).

(* Discard(n) of buffered bytes *)
Definition bDiscard_spec_statement : Prop :=
  forall b n, buf_ok b -> n <= blen b ->
    exists b',
      bDiscard b n = Some (None, b') /\ buf_ok b' /\
      bstream b' = skipn (N.to_nat n) (bstream b) /\ consumed b' = consumed b + n /\
      bsize b' = bsize b /\ term b' = term b /\ chunks b' = chunks b /\
      bbuf b' = skipn (N.to_nat n) (bbuf b).

(* a new bufio.Reader *)
Definition newbuf_ok_statement : Prop :=
  forall bufsize cs t, Forall (fun c => c <> []) cs ->
    let b := mkBuf (N.max bufsize 16) [] 0 None cs t 0 in
    buf_ok b /\ bstream b = concat cs /\ consumed b = 0.
