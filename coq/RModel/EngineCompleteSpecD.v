(* EngineCompleteSpecD.v -- completeness side, part D: the same simulation statements as in
   EngineRefineSpecTop/Final, with a STRONGER table predicate.  The outcome lemma for
   decodeHuffman ("an error means the reference calls the symbol corrupt", "end of input means
   the reader is empty") needs facts about the length vectors that `tabs_for` hides
   (refuted without them, see proofs/EngineCompleteHuff*.v): lengths <= 15, and no code word
   for the literal/length symbols 286/287 except in the fixed code. *)
From Coq Require Import List NArith ZArith Bool.
From Verif Require Import Bits Huffman Inflate InflateSpec InflateMono.
From Verif Require Import Base EngineTables Engine EngineRefineSpec EngineRefineSpecBlock
     EngineRefineSpecBlock3 EngineRefineSpecHdr EngineRefineSpecNeed EngineRefineSpecReach
     EngineRefineSpecBuf EngineRefineSpecTop EngineRefineSpecFinal
     EngineCompleteSpecA EngineCompleteSpecB EngineCompleteSpecReach.
Import ListNotations.
Open Scope N_scope.

Definition lens_good (ll dl : lens) : Prop :=
  Forall (fun x => (x <= 15)%nat) ll /\ Forall (fun x => (x <= 15)%nat) dl /\
  ((length ll <= 286)%nat \/ ll = fixed_lit_lens) /\ (length dl <= 32)%nat.

Definition tabs_for2 (t : tabs) (lt dt : trie) : Prop :=
  exists ll dl, mktrie 15 ll = Some lt /\ mktrie 15 dl = Some dt /\
                lit_tab_ok ll t /\ dist_tab_ok dl t /\ lens_good ll dl.

(* hdr_result with tabs_for2 *)
Definition hdr_result2 (s' : inflate) (S : bs) (e : list bool) : Prop :=
  exists bf s1 bt s2,
    take 1 S = Some (bf, s1) /\ take 2 s1 = Some (bt, s2) /\ bfinal s' = bf /\
    ((bt = 1 /\ phase s' = phaseHeaderDecoded /\
      exists lt dt, fixed_tries = Some (lt, dt) /\ tabs_for2 (tb s') lt dt /\
                    bl s2 = br_bits (rd s') ++ e) \/
     (bt = 2 /\ phase s' = phaseHeaderDecoded /\
      exists lt dt s3, dyn_header s2 = HOk (lt, dt) s3 /\ tabs_for2 (tb s') lt dt /\
                       bl s3 = br_bits (rd s') ++ e) \/
     (bt = 0 /\ phase s' = phaseLitBlock /\
      exists len s4 nlen s5,
        take 16 (align s2) = Some (len, s4) /\ take 16 s4 = Some (nlen, s5) /\
        len + nlen = 65535 /\ litBlockLength s' = len /\
        bl s5 = br_bits (rd s') ++ e /\ (r_len (rd s') mod 8 = 0)%Z)).

Definition setupDynamicHeader_refine_body2 : Prop :=
  forall s e p,
    br_wf (rd s) -> (0 <= r_len (rd s))%Z ->
    let '(s', err) := setupDynamicHeader s in
    br_wf (rd s') /\ same_frame s s' /\
    (err = ENone ->
       (0 <= r_len (rd s'))%Z /\ phase s' = phaseHeaderDecoded /\
       exists ll dl lt dt p',
         dyn_header (mkbs (br_bits (rd s) ++ e) p) = HOk (lt, dt) (mkbs (br_bits (rd s') ++ e) p') /\
         mktrie 15 ll = Some lt /\ mktrie 15 dl = Some dt /\
         lit_tab_ok ll (tb s') /\ dist_tab_ok dl (tb s') /\ lens_good ll dl).

Definition readHeader_refine_body2 : Prop :=
  forall s e p,
    hdr_ok s -> hdr_ok_staged s -> ((Z.of_N p + r_len (rd s)) mod 8 = 0)%Z ->
    let '(s', err) := readHeader s in
    same_hdr_frame s s' /\
    (err = ENone ->
       br_wf (rd s') /\ (0 <= r_len (rd s'))%Z /\ headerBuffer s' = [] /\ headerBuffered s' = 0 /\
       hdr_result2 s' (mkbs (lbits s ++ e) p) e) /\
    (err = EEndInput ->
       hdr_ok s' /\ hdr_ok_staged s' /\ phase s' = phaseDecodingHeader /\ lbits s' = lbits s /\
       r_in (rd s') = [] /\ r_inlen (rd s') = 0 /\
       r_bits (rd s') = r_bits (rd s) /\ r_len (rd s') = r_len (rd s)).

(* st_sim with tabs_for2 *)
Definition st_sim2 (s : inflate) (c : rcfg) (e : list bool) : Prop :=
  ov s = ov0 /\
  match c with
  | CBlock st S0 =>
      (phase s = phaseNewBlock \/ phase s = phaseDecodingHeader) /\ hdr_ok s /\
      hdr_ok_staged s /\ hdr_need s (bp S0) /\
      bl S0 = lbits s ++ e
  | CHuff bf lt dt st S0 =>
      phase s = phaseHeaderDecoded /\ bfinal s = bf /\ (bf = 0 \/ bf = 1) /\
      tabs_for2 (tb s) lt dt /\ br_wf (rd s) /\ (0 <= r_len (rd s))%Z /\
      headerBuffer s = [] /\ headerBuffered s = 0 /\
      bl S0 = br_bits (rd s) ++ e
  | CStored bf len n st S0 =>
      phase s = phaseLitBlock /\ bfinal s = bf /\ (bf = 0 \/ bf = 1) /\ litBlockLength s = n /\
      br_wf (rd s) /\ (0 <= r_len (rd s))%Z /\ (r_len (rd s) mod 8 = 0)%Z /\
      headerBuffer s = [] /\ headerBuffered s = 0 /\
      bl S0 = br_bits (rd s) ++ e
  | CDone st S0 =>
      phase s = phaseStreamEnd /\
      br_wf (rd s) /\ (0 <= r_len (rd s))%Z /\ headerBuffer s = [] /\
      bl S0 = br_bits (rd s) ++ e
  end.

(* the outcomes of decodeHuffman, with the length vectors explicit *)
Definition decodeHuffman_outcome2_statement : Prop :=
  canon_pad_statement ->
  forall s out w lt dt st p,
    br_wf (rd s) -> (0 <= r_len (rd s))%Z ->
    phase s = phaseHeaderDecoded -> (bfinal s = 0 \/ bfinal s = 1) ->
    ov s = ov0 ->
    tabs_for2 (tb s) lt dt -> win_rel out w st -> w <= outLen ->
    let '(s', out', w', err) := decodeHuffman s out w in
    (err = EEndInput ->
       r_in (rd s') = [] /\
       exists st2 bs2,
         sym_run lt dt st (mkbs (br_bits (rd s)) p) st2 bs2 false /\
         exists a b, sym1 lt dt st2 bs2 = SStop a b NeedInput) /\
    (isError err = true ->
       forall e, exists st' bs' a b x,
         sym_run lt dt st (mkbs (br_bits (rd s) ++ e) p) st' bs' false /\
         sym1 lt dt st' bs' = SStop a b x /\ (x = Corrupt \/ x = NeedInput) /\
         ((15 <= length e)%nat -> x = Corrupt)) /\
    (err = ENone \/ err = EEndInput \/ err = EOutputOverflow \/ isError err = true \/
     err = EPanic \/ err = EFuel).

Definition decodeHuffman_outcome2_body : Prop :=
  forall s out w lt dt st p,
    br_wf (rd s) -> (0 <= r_len (rd s))%Z ->
    phase s = phaseHeaderDecoded -> (bfinal s = 0 \/ bfinal s = 1) ->
    ov s = ov0 ->
    tabs_for2 (tb s) lt dt -> win_rel out w st -> w <= outLen ->
    let '(s', out', w', err) := decodeHuffman s out w in
    (err = EEndInput ->
       r_in (rd s') = [] /\
       exists st2 bs2,
         sym_run lt dt st (mkbs (br_bits (rd s)) p) st2 bs2 false /\
         exists a b, sym1 lt dt st2 bs2 = SStop a b NeedInput) /\
    (isError err = true ->
       forall e, exists st' bs' a b x,
         sym_run lt dt st (mkbs (br_bits (rd s) ++ e) p) st' bs' false /\
         sym1 lt dt st' bs' = SStop a b x /\ (x = Corrupt \/ x = NeedInput) /\
         ((15 <= length e)%nat -> x = Corrupt)) /\
    (err = ENone \/ err = EEndInput \/ err = EOutputOverflow \/ isError err = true \/
     err = EPanic \/ err = EFuel).

(* the block loop over st_sim2: decomp_body with st_sim2, plus the outcome facts *)
Definition decomp_body2 : Prop :=
  forall data fuel s out w c u,
    Forall (fun x => x < 256) data ->
    reach data c -> st_sim2 s c (bits_of_bytes u) ->
    win_rel out w (cfg_st c) -> w <= outLen ->
    let '(s', out', w', err) := decomp_loop fuel s out w in
    let '(s2, out2, w2) := flush_ov s' out' w' in
    (exists c',
      reach data c' /\ win_rel out2 w2 (cfg_st c') /\ w <= w2 /\ w2 <= outLen + 261 /\
      (exists v, rout (cfg_st c') = v ++ rout (cfg_st c) /\ N.of_nat (length v) = w2 - w) /\
      inputNil s2 = inputNil s /\
      (err <> EPanic -> err <> EFuel -> isError err = false ->
         st_sim2 s2 c' (bits_of_bytes u) /\
         qbytes s2 <= qbytes s /\
         (err = ENone \/ err = EEndInput \/ err = EOutputOverflow) /\
         (err = ENone -> phase s2 = phaseStreamEnd) /\
         (phase s2 = phaseDecodingHeader ->
            err = EEndInput /\ r_in (rd s2) = [] /\ r_inlen (rd s2) = 0))) /\
    (isError err = true -> strict data -> status (Inflate.inflate [] data) <> Done) /\
    (err = EEndInput -> u = [] -> status (Inflate.inflate [] data) <> Done).

Definition decomp2_statement : Prop :=
  readHeader_refine_body2 -> readHeader_need_body -> readHeader_reject_body ->
  decodeHuffman_refine3_statement -> decodeHuffman_outcome2_body ->
  decodeLiteralBlock_refine_statement ->
  reach_inv_statement -> reach_complete_statement -> reach_sym_run_statement ->
  decomp_body2.
