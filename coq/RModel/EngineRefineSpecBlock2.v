(* EngineRefineSpecBlock2.v -- strengthened form of decodeHuffman_refine_statement: also the
   NUMBER of bytes the reference produced on its run equals the growth of the window (needed
   because win_rel alone allows the window to hold only the last >= 32 KiB of the output). *)
From Coq Require Import List NArith ZArith Bool.
From Verif Require Import Bits Huffman Inflate InflateSpec InflateMono.
From Verif Require Import Base EngineTables Engine EngineRefineSpec EngineRefineSpecBlock.
Import ListNotations.
Open Scope N_scope.

Definition decodeHuffman_refine2_statement : Prop :=
  forall s out w lt dt st e p,
    br_wf (rd s) -> (0 <= r_len (rd s))%Z ->
    phase s = phaseHeaderDecoded -> (bfinal s = 0 \/ bfinal s = 1) ->
    writeOverflowLen (ov s) = 0 ->
    tabs_for (tb s) lt dt -> win_rel out w st -> w <= outLen ->
    let '(s', out', w', err) := decodeHuffman s out w in
    let '(s2, out2, w2) := flush_ov s' out' w' in
    exists st' bs' ended,
      sym_run lt dt st (mkbs (br_bits (rd s) ++ e) p) st' bs' ended /\
      win_rel out2 w2 st' /\ olen st' = olen st + (w2 - w) /\
      w <= w' /\ w' <= outLen /\ w' <= w2 /\ w2 <= outLen + 261 /\
      (w' < w2 -> err = EOutputOverflow \/ isError err = true \/ err = EPanic \/ err = EFuel) /\
      same_static s s' /\ litBlockLength s' = litBlockLength s /\
      same_static s' s2 /\ rd s2 = rd s' /\ phase s2 = phase s' /\
      litBlockLength s2 = litBlockLength s' /\ ov s2 = ov0 /\
      (err <> EPanic -> err <> EFuel -> isError err = false ->
         br_wf (rd s') /\ (0 <= r_len (rd s'))%Z /\ bl bs' = br_bits (rd s') ++ e /\
         phase s' = (if ended then (if bfinal s =? 1 then phaseStreamEnd else phaseNewBlock)
                     else phaseHeaderDecoded) /\
         (err = ENone -> ended = true) /\ (err = EEndInput -> ended = false) /\
         (err = ENone \/ err = EEndInput \/ err = EOutputOverflow) /\
         (err = EOutputOverflow -> w' = outLen)).
