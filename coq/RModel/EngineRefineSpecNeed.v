(* EngineRefineSpecNeed.v -- "ran out of input" is honest for block headers: when the engine's
   header parser reports EEndInput, the reference, given exactly the bits the engine holds
   (no continuation), does not get through the header either.  This is what makes the
   staging buffer of readHeader sound: a header that is finally decoded from the staged bytes
   plus new input ends beyond the staged bytes, so the whole bytes left in the bit buffer
   afterwards all belong to the new input (the byte accounting of step relies on it). *)
From Coq Require Import List NArith ZArith Bool.
From Verif Require Import Bits Huffman Inflate InflateSpec InflateMono.
From Verif Require Import Base EngineTables Engine EngineRefineSpec EngineRefineSpecBlock
     EngineRefineSpecHdr.
Import ListNotations.
Open Scope N_scope.

(* the reference gets through a block header on the stream S (for a stored block: through
   LEN and NLEN, whatever their values) *)
Definition hdr_parses (S : bs) : Prop :=
  exists bf s1 bt s2,
    take 1 S = Some (bf, s1) /\ take 2 s1 = Some (bt, s2) /\
    (bt = 1 \/
     (bt = 2 /\ exists r s3, dyn_header s2 = HOk r s3) \/
     (bt = 0 /\ exists len s4 nlen s5,
        take 16 (align s2) = Some (len, s4) /\ take 16 s4 = Some (nlen, s5))).

Definition codeLenCodes_need_statement : Prop :=
  gen_clc_statement ->
  forall s hclen p,
    br_wf (rd s) -> (0 <= r_len (rd s))%Z -> br_loaded 12 (rd s) -> hclen <= 15 ->
    snd (codeLenCodes s hclen) = EEndInput ->
    forall cl s1, read_clens (N.to_nat hclen + 4) (mkbs (br_bits (rd s)) p) <> HOk cl s1.

(* readLitDistLens reports the end of input itself, or returns nil with a negative bit count
   (the caller then reports it) *)
Definition readLitDistLens_need_statement : Prop :=
  forall s hlit hdist clens ct p,
    br_wf (rd s) -> (0 <= r_len (rd s))%Z -> hlit <= 29 -> hdist <= 29 ->
    mktrie 7 clens = Some ct ->
    clc_tab_ok clens (clcShort (dyn s)) (clcLong (dyn s)) ->
    arr_zero (litAndDistHuff (dyn s)) -> arr_zero (litCount (dyn s)) ->
    arr_zero (distCount (dyn s)) -> arr_zero (litExpandCount (dyn s)) ->
    let '(s', err) := readLitDistLens s hdist hlit in
    (err = EEndInput \/ (err = ENone /\ (r_len (rd s') < 0)%Z)) ->
    let n := (N.to_nat hlit + 257 + (N.to_nat hdist + 1))%nat in
    forall all s1, read_lens n ct n [] (mkbs (br_bits (rd s)) p) <> HOk all s1.

Definition setupDynamicHeader_need_statement : Prop :=
  gen_clc_statement -> codeLenCodes_refine_statement ->
  codeLenCodes_need_statement -> readLitDistLens_need_statement ->
  forall s p,
    br_wf (rd s) -> (0 <= r_len (rd s))%Z ->
    snd (setupDynamicHeader s) = EEndInput ->
    forall r s1, dyn_header (mkbs (br_bits (rd s)) p) <> HOk r s1.

Definition prepareForLitBlock_need_statement : Prop :=
  forall s p,
    br_wf (rd s) -> (0 <= r_len (rd s))%Z -> ((Z.of_N p + r_len (rd s)) mod 8 = 0)%Z ->
    snd (prepareForLitBlock s) = EEndInput ->
    ~ (exists len s4 nlen s5,
         take 16 (align (mkbs (br_bits (rd s)) p)) = Some (len, s4) /\ take 16 s4 = Some (nlen, s5)).

Definition setupDynamicHeader_need_body : Prop :=
  forall s p,
    br_wf (rd s) -> (0 <= r_len (rd s))%Z ->
    snd (setupDynamicHeader s) = EEndInput ->
    forall r s1, dyn_header (mkbs (br_bits (rd s)) p) <> HOk r s1.

Definition tryDecodeHeader_need_statement : Prop :=
  setupDynamicHeader_need_body -> prepareForLitBlock_need_statement ->
  forall s p,
    br_wf (rd s) -> (0 <= r_len (rd s))%Z -> ((Z.of_N p + r_len (rd s)) mod 8 = 0)%Z ->
    snd (tryDecodeHeader s) = EEndInput ->
    ~ hdr_parses (mkbs (br_bits (rd s)) p).

Definition tryDecodeHeader_need_body : Prop :=
  forall s p,
    br_wf (rd s) -> (0 <= r_len (rd s))%Z -> ((Z.of_N p + r_len (rd s)) mod 8 = 0)%Z ->
    snd (tryDecodeHeader s) = EEndInput ->
    ~ hdr_parses (mkbs (br_bits (rd s)) p).

(* the bits a state holds WITHOUT its input: bit buffer, then the staged header bytes *)
Definition hbits (s : inflate) : list bool :=
  bits_of_N (Z.to_nat (r_len (rd s))) (r_bits (rd s)) ++ bits_of_bytes (headerBuffer s).

(* in phase DecodingHeader the staged bytes alone were not enough for the header *)
Definition hdr_need (s : inflate) (p : N) : Prop :=
  phase s = phaseDecodingHeader -> ~ hdr_parses (mkbs (hbits s) p).

(* whole bytes in the bit buffer plus bytes of input *)
Definition qbytes (s : inflate) : N := Z.to_N (Z.quot (r_len (rd s)) 8) + r_inlen (rd s).

(* readHeader keeps hdr_need when it runs out of input again; when it succeeds, the bytes
   still held (bit buffer + input) are all bytes of the input it was given: none of the
   staged bytes is left in the bit buffer *)
Definition readHeader_need_statement : Prop :=
  tryDecodeHeader_need_body ->
  tryDecodeHeader_refine_statement -> header_bound_statement ->
  setupDynamicHeader_refine_body -> prepareForLitBlock_refine_statement ->
  static_lit_tab_ok_statement -> static_dist_tab_ok_statement ->
  forall s p,
    hdr_ok s -> ((Z.of_N p + r_len (rd s)) mod 8 = 0)%Z -> hdr_need s p ->
    let '(s', err) := readHeader s in
    (err = EEndInput -> hdr_need s' p) /\
    (err = ENone -> qbytes s' <= qbytes s).
