(* EngineRefineSpecTop.v -- M6: the multi-block loop (decomp_loop / decomperss), step (refills,
   window slides), Read and the top level erun of RModel/Engine.v against the reference
   inflater, via the small-step presentation of the reference (EngineRefineSpecReach.v). *)
From Coq Require Import List NArith ZArith Bool.
From Verif Require Import Bits Huffman Inflate InflateSpec InflateMono.
From Verif Require Import Base EngineTables Engine EngineRefineSpec EngineRefineSpecBlock
     EngineRefineSpecHdr EngineRefineSpecReach EngineRefineSpecBuf EngineRefineSpecNeed
     EngineRefineSpecBlock2.
Import ListNotations.
Open Scope N_scope.

(* in phase DecodingHeader the bit buffer is well formed against the staged bytes alone (its
   stale bits, if any, do not refer to input beyond them) *)
Definition hdr_ok_staged (s : inflate) : Prop :=
  phase s = phaseDecodingHeader ->
  br_wf (mkBR (r_bits (rd s)) (r_len (rd s)) (headerBuffer s) (headerBuffered s)).

(* the quantified part of readHeader_refine_statement (its premises discharged), with the
   extra invariant hdr_ok_staged *)
Definition readHeader_refine_body : Prop :=
  forall s e p,
    hdr_ok s -> hdr_ok_staged s -> ((Z.of_N p + r_len (rd s)) mod 8 = 0)%Z ->
    let '(s', err) := readHeader s in
    same_hdr_frame s s' /\
    (err = ENone ->
       br_wf (rd s') /\ (0 <= r_len (rd s'))%Z /\ headerBuffer s' = [] /\ headerBuffered s' = 0 /\
       hdr_result s' (mkbs (lbits s ++ e) p) e) /\
    (err = EEndInput ->
       hdr_ok s' /\ hdr_ok_staged s' /\ phase s' = phaseDecodingHeader /\ lbits s' = lbits s /\
       r_in (rd s') = [] /\ r_inlen (rd s') = 0 /\
       r_bits (rd s') = r_bits (rd s) /\ r_len (rd s') = r_len (rd s)).

Definition readHeader_need_body : Prop :=
  forall s p,
    hdr_ok s -> hdr_ok_staged s -> ((Z.of_N p + r_len (rd s)) mod 8 = 0)%Z -> hdr_need s p ->
    let '(s', err) := readHeader s in
    (err = EEndInput -> hdr_need s' p) /\
    (err = ENone -> qbytes s' <= qbytes s).

(* ---------------------------------------------------------------- the inflate state against a
   configuration of the reference; e = the bits of the input bytes the state has not been
   given yet *)
Definition st_sim (s : inflate) (c : rcfg) (e : list bool) : Prop :=
  ov s = ov0 /\
  match c with
  | CBlock st S0 =>
      (phase s = phaseNewBlock \/ phase s = phaseDecodingHeader) /\ hdr_ok s /\
      hdr_ok_staged s /\ hdr_need s (bp S0) /\
      bl S0 = lbits s ++ e
  | CHuff bf lt dt st S0 =>
      phase s = phaseHeaderDecoded /\ bfinal s = bf /\ (bf = 0 \/ bf = 1) /\
      tabs_for (tb s) lt dt /\ br_wf (rd s) /\ (0 <= r_len (rd s))%Z /\
      headerBuffer s = [] /\ headerBuffered s = 0 /\
      bl S0 = br_bits (rd s) ++ e
  | CStored bf len n st S0 =>
      phase s = phaseLitBlock /\ bfinal s = bf /\ (bf = 0 \/ bf = 1) /\ litBlockLength s = n /\
      br_wf (rd s) /\ (0 <= r_len (rd s))%Z /\ (r_len (rd s) mod 8 = 0)%Z /\
      headerBuffer s = [] /\ headerBuffered s = 0 /\
      bl S0 = br_bits (rd s) ++ e
  | CDone st S0 =>
      phase s = phaseStreamEnd /\
      br_wf (rd s) /\ (0 <= r_len (rd s))%Z /\ headerBuffer s = [] /\
      bl S0 = br_bits (rd s) ++ e
  end.

(* ---------------------------------------------------------------- T1: decomp_loop + the
   overflow flush of decomperss: any number of blocks / parts of blocks.  In every outcome the
   window holds the output of a reachable configuration of the reference; unless the outcome
   is an error / panic / out of fuel, the new state simulates that configuration on the same
   unseen input. *)
Definition decomp_refine_statement : Prop :=
  readHeader_refine_body -> readHeader_need_body ->
  decodeHuffman_refine2_statement -> decodeLiteralBlock_refine_statement ->
  reach_inv_statement ->
  forall data fuel s out w c u,
    Forall (fun x => x < 256) data ->
    reach data c -> st_sim s c (bits_of_bytes u) ->
    win_rel out w (cfg_st c) -> w <= outLen ->
    let '(s', out', w', err) := decomp_loop fuel s out w in
    let '(s2, out2, w2) := flush_ov s' out' w' in
    exists c',
      reach data c' /\ win_rel out2 w2 (cfg_st c') /\ w <= w2 /\ w2 <= outLen + 261 /\
      (exists v, rout (cfg_st c') = v ++ rout (cfg_st c) /\ N.of_nat (length v) = w2 - w) /\
      inputNil s2 = inputNil s /\
      (err <> EPanic -> err <> EFuel -> isError err = false ->
         st_sim s2 c' (bits_of_bytes u) /\
         qbytes s2 <= qbytes s /\
         (err = ENone \/ err = EEndInput \/ err = EOutputOverflow) /\
         (err = ENone -> phase s2 = phaseStreamEnd) /\
         (phase s2 = phaseDecodingHeader ->
            err = EEndInput /\ r_in (rd s2) = [] /\ r_inlen (rd s2) = 0)).

(* decomperss is decomp_loop followed by flush_ov *)
Definition decomperss_flush_statement : Prop :=
  forall f,
    decomperss f =
    let '(s, h, idx, err) := decomp_loop big_fuel (state f) (hist f) (writePos f) in
    let '(s2, h2, idx2) := flush_ov s h idx in
    (mkD s2 idx2 (readPos f) h2 (rBuf f) (derr f) (peekSize f) (eof f) (haveBits f), err).

(* ---------------------------------------------------------------- T2: step *)
(* All output produced so far, oldest first, is `delivered ++ hist[readPos..writePos)`. *)
Definition pending_out (f : decompressor) : list N :=
  hist_slice (N.to_nat (writePos f - readPos f)) (hist f) (readPos f).

(* The invariant of a decompressor between calls of step, for the compressed stream `data`
   and the bytes `delivered` to the caller so far:
   - the bufio reader holds a suffix of data (D = the bytes discarded so far);
   - the inflate state simulates a reachable configuration c of the reference, the unseen
     input u being what follows the held bytes (input detached) / the peeked window (input
     attached) in the bufio stream;
   - the window holds the output of c, of which `delivered` plus the pending part is all. *)
Definition dec_inv (data : list N) (delivered : list N) (f : decompressor) : Prop :=
  buf_ok (rBuf f) /\
  (exists D, data = D ++ bstream (rBuf f) /\ consumed (rBuf f) = N.of_nat (length D)) /\
  readPos f <= writePos f /\ writePos f <= outLen + 261 /\
  phase (state f) <> phaseFinish /\
  exists c u,
    reach data c /\ st_sim (state f) c (bits_of_bytes u) /\
    win_rel (hist f) (writePos f) (cfg_st c) /\
    delivered ++ pending_out f = frev (rout (cfg_st c)) /\
    (if inputNil (state f)
     then r_in (rd (state f)) = [] /\ r_inlen (rd (state f)) = 0 /\
          u = skipn (Z.to_nat (Z.quot (r_len (rd (state f))) 8)) (bstream (rBuf f))
     else u = skipn (N.to_nat (peekSize f)) (bstream (rBuf f)) /\
          blen (rBuf f) = peekSize f /\ qbytes (state f) <= peekSize f /\
          headerBuffer (state f) = [] /\ headerBuffered (state f) = 0).

(* One call of step (made by Read when everything produced has been delivered).  Whatever the
   outcome, the window holds reference output (so what Read delivers afterwards is correct);
   io.EOF is only reported at the end of the final block, with exactly the bytes up to the
   end of the stream consumed from the source; when step reports no error the invariant
   holds again. *)
Definition step_refine_statement : Prop :=
  decomp_refine_statement -> decomperss_flush_statement ->
  bPeek_spec_statement -> bPeek_buffered_statement -> bDiscard_spec_statement ->
  reach_inv_statement ->
  readHeader_refine_body -> readHeader_need_body ->
  decodeHuffman_refine2_statement -> decodeLiteralBlock_refine_statement ->
  forall data delivered f,
    Forall (fun x => x < 256) data ->
    dec_inv data delivered f -> readPos f = writePos f -> derr f = None ->
    let '(f', r) := step f in
    (exists c, reach data c /\
               delivered ++ pending_out f' = frev (rout (cfg_st c)) /\
               readPos f' <= writePos f' /\
               (r = Some REOF ->
                  exists st S0, c = CDone st S0 /\
                    consumed (rBuf f') = (bp S0 + 7) / 8)) /\
    derr f' = None /\
    (r = None -> dec_inv data delivered f').

(* ---------------------------------------------------------------- T3/T4: Read and erun *)
Definition results_bytes (l : list (list N * rres)) : list N := concat (map fst l).

(* The main soundness theorem: whatever the chunking, bufio size and read sizes, the bytes
   returned by the successive Read calls are a prefix of the reference output; if some Read
   returns io.EOF, the reference says Done, ALL of its output has been returned and the
   number of source bytes consumed is (bitpos + 7) / 8; so on a stream the reference calls
   corrupt (or incomplete) the engine never reports EOF. *)
Definition erun_sound_statement : Prop :=
  forall data cs bufsize t reads,
    Forall (fun x => x < 256) data -> concat cs = data -> Forall (fun c => c <> []) cs ->
    let '(l, ncons) := erun_ext bufsize cs t reads in
    is_prefix (results_bytes l) (out (Inflate.inflate [] data)) /\
    (In REOF (map snd l) ->
       status (Inflate.inflate [] data) = Done /\
       results_bytes l = out (Inflate.inflate [] data) /\
       ncons = (bitpos (Inflate.inflate [] data) + 7) / 8) /\
    (status (Inflate.inflate [] data) <> Done -> ~ In REOF (map snd l)).
