(* ContainersSpec.v — statements about the gzip/zlib container model (proofs in
   proofs/ContainersProofs.v). *)
From Verif Require Export Containers.
Open Scope N_scope.

Definition bytes_lt256 (l : list byte) : Prop := Forall (fun x => x < 256) l.

(* the header fields a gzip.Writer can represent and a gzip.Reader reads back *)
Definition ghdr_ok (h : ghdr) : Prop :=
  g_mtime h < 4294967296 /\ g_xfl h < 256 /\ g_os h < 256 /\
  (length (g_extra h) < 65536)%nat /\ bytes_lt256 (g_extra h) /\
  bytes_lt256 (g_name h) /\ bytes_lt256 (g_comment h) /\
  ~ In 0 (g_name h) /\ ~ In 0 (g_comment h) /\
  (length (g_name h) < 512)%nat /\ (length (g_comment h) < 512)%nat.

(* body is exactly one complete DEFLATE stream for payload *)
Definition body_for (body payload : list byte) : Prop :=
  status (inflate [] body) = Done /\ out (inflate [] body) = payload /\
  (bitpos (inflate [] body) + 7) / 8 = N.of_nat (length body).

(* ---------- C06: what the writers emit is read back with the same header and payload ---------- *)
Definition gz_header_roundtrip_statement : Prop :=
  forall h rest, ghdr_ok h -> gz_parse_header (gz_header h ++ rest) = HP_ok h rest.

Definition gz_member_roundtrip_statement : Prop :=
  inflate_mono_statement ->
  forall h body payload rest, ghdr_ok h -> body_for body payload ->
    gz_read false (gz_member h body payload ++ rest) = mkgres payload CEOF rest [h] false.

(* (for lists of bytes; `byte` is N in this development, and the first version of this and of the
   two *_eof_checked statements below, without the byte premise, was refuted in Coq: see the top of
   proofs/ContainersProofs.v) *)
Definition checksum_width_statement : Prop :=
  forall l, bytes_lt256 l -> crc32 l < 4294967296 /\ adler32 l < 4294967296.

Definition zl_roundtrip_statement : Prop :=
  inflate_mono_statement ->
  forall lv dict body payload rest, lv < 4 ->
    status (inflate (match dict with Some d => d | None => [] end) body) = Done ->
    out (inflate (match dict with Some d => d | None => [] end) body) = payload ->
    (bitpos (inflate (match dict with Some d => d | None => [] end) body) + 7) / 8 = N.of_nat (length body) ->
    zl_read dict (zl_stream lv dict body payload ++ rest) = mkgres payload CEOF rest [] false.

(* ---------- C08: concatenated members ---------- *)
Definition gmember := (ghdr * list byte * list byte)%type.     (* header, body, payload *)
Definition member_ok (m : gmember) : Prop := let '(h, b, p) := m in ghdr_ok h /\ body_for b p.
Definition member_bytes (m : gmember) : list byte := let '(h, b, p) := m in gz_member h b p.
Definition members_bytes (ms : list gmember) : list byte := concat (map member_bytes ms).

Definition gz_concat_statement : Prop :=
  inflate_mono_statement ->
  forall ms, ms <> [] -> Forall member_ok ms ->
    gz_read true (members_bytes ms)
      = mkgres (concat (map (fun m => snd m) ms)) CEOF [] (map (fun m => fst (fst m)) ms) false.

(* member by member: with Multistream(false) the first member is returned and the source is
   left exactly after its trailer, whatever follows (the next member, or non-gzip data) *)
Definition gz_member_by_member_statement : Prop :=
  inflate_mono_statement ->
  forall m rest, member_ok m ->
    gz_read false (member_bytes m ++ rest) = mkgres (snd m) CEOF rest [fst (fst m)] false.

(* ---------- C07: io.EOF only with matching checksums ---------- *)
Inductive gz_stream : bool -> list byte -> list byte -> list byte -> Prop :=
| GS_last (multi : bool) l h rest n :
    gz_parse_header l = HP_ok h rest ->
    status (inflate [] rest) = Done -> n = N.to_nat ((bitpos (inflate [] rest) + 7) / 8) ->
    firstn 8 (skipn n rest) = gz_trailer (out (inflate [] rest)) ->
    (multi = false \/ skipn (n + 8) rest = []) ->
    gz_stream multi l (out (inflate [] rest)) (skipn (n + 8) rest)
| GS_more l h rest n p left :
    gz_parse_header l = HP_ok h rest ->
    status (inflate [] rest) = Done -> n = N.to_nat ((bitpos (inflate [] rest) + 7) / 8) ->
    firstn 8 (skipn n rest) = gz_trailer (out (inflate [] rest)) ->
    gz_stream true (skipn (n + 8) rest) p left ->
    gz_stream true l (out (inflate [] rest) ++ p) left.

Definition gz_eof_checked_statement : Prop :=
  forall multi l, bytes_lt256 l -> g_err (gz_read multi l) = CEOF -> g_at_ctor (gz_read multi l) = false ->
    gz_stream multi l (g_payload (gz_read multi l)) (g_left (gz_read multi l)).

Definition zl_eof_checked_statement : Prop :=
  forall dict l, bytes_lt256 l -> g_err (zl_read dict l) = CEOF ->
    exists d rest r, r = inflate d rest /\ status r = Done /\ g_payload (zl_read dict l) = out r /\
      firstn 4 (skipn (N.to_nat ((bitpos r + 7) / 8)) rest) = be32 (adler32 (out r)).

(* what is handed out before any error is a prefix of what the complete input would give
   (C07: "nothing but a prefix of the true payload") *)
Definition gz_payload_prefix_statement : Prop :=
  inflate_mono_statement -> inflate_never_fuel_statement ->
  forall h body payload k, ghdr_ok h -> body_for body payload ->
    let whole := gz_member h body payload in
    (k < length whole)%nat ->
    let r := gz_read true (firstn k whole) in
    is_prefix (g_payload r) payload /\ (g_err r = CUnexpectedEOF \/ (k = 0%nat /\ g_err r = CEOF)).
