(* Extraction of the engine model to OCaml (engine.ml / engine.mli, written into the directory
   where coqc is run).  Only ExtrOcamlBasic: N, Z, positive, nat stay Coq's inductive types. *)
From Coq Require Import Extraction ExtrOcamlBasic.
From Verif Require Import Engine EngineReset.
Extraction Language OCaml.
Extraction "engine.ml" erun erun_ext erun_obs erun2 erun2_obs.
