(* EngineCompleteSpecReach.v -- more facts about the small-step presentation of the reference:
   where a reachable configuration gets stuck decides the status of the whole run. *)
From Coq Require Import List NArith ZArith Bool Relations.
From Verif Require Import Bits Huffman Inflate InflateSpec InflateMono.
From Verif Require Import EngineRefineSpecReach EngineRefineSpecBlock.
Import ListNotations.
Open Scope N_scope.

(* a run over whole symbols stays reachable *)
Definition reach_sym_run_statement : Prop :=
  forall data bf lt dt st S st' S' ended,
    reach data (CHuff bf lt dt st S) -> sym_run lt dt st S st' S' ended ->
    reach data (if ended then next_block bf st' S' else CHuff bf lt dt st' S').

(* the reference stops inside a compressed block *)
Definition reach_sym_stop_statement : Prop :=
  forall data bf lt dt st S a b k,
    reach data (CHuff bf lt dt st S) -> sym1 lt dt st S = SStop a b k ->
    status (inflate [] data) = k /\ out (inflate [] data) = frev (rout st).

(* the reference stops at a block header (block1 of InflateMono: header + whole block; a stop
   with the state and stream unchanged is a stop in the header) *)
Definition reach_block_stop_statement : Prop :=
  forall data st S k,
    reach data (CBlock st S) -> (forall c', ~ rstep (CBlock st S) c') ->
    block1 st S = SStop st S k ->
    status (inflate [] data) = k /\ out (inflate [] data) = frev (rout st).

(* a block boundary without successor: the reference stops right there, with NeedInput or
   Corrupt *)
Definition reach_block_stuck_statement : Prop :=
  forall data st S,
    reach data (CBlock st S) -> (forall c', ~ rstep (CBlock st S) c') ->
    exists k, (k = NeedInput \/ k = Corrupt) /\ block1 st S = SStop st S k /\
              status (inflate [] data) = k /\ out (inflate [] data) = frev (rout st).

(* a stored block runs out of data *)
Definition reach_stored_stop_statement : Prop :=
  forall data bf len n st S,
    reach data (CStored bf len n st S) -> 0 < n -> take 8 S = None ->
    status (inflate [] data) = NeedInput /\ out (inflate [] data) = frev (rout st).

(* the status depends only on what has been consumed: if the reference, run on a prefix of the
   data, needs input at a reachable configuration whose remaining stream is the rest of the
   prefix, then ... (monotonicity is InflateSpec.inflate_mono_statement) *)
