(* EngineRefineSpecFinal.v -- the top-level statements actually proved about step / Read / erun.
   They differ from the ones first written down in EngineRefineSpecTop.v (step_refine_statement,
   erun_sound_statement) in ONE respect: "io.EOF is only reported at the end of the final block"
   is FALSE for the engine as it stands.  step() computes
       discardSize := peekSize - len(input) - bitsLen/8
   also after a decode error, where bitsLen can be as low as -14 (readLitDistLens reports
   errInvalidBlock after reading past the end of the input); Go's truncating division makes
   bitsLen/8 = -1, discardSize exceeds what is buffered, bufio's Discard fails with io.EOF at
   the end of the source, and step returns that error: a truncated stream is reported as a
   clean EOF.  Concrete stream (6 bytes): ed 1d 80 e4 ff 9f  (theorem eof_on_truncated_stream).
   So the EOF claims below are stated for an EOF reported in phase Finish (the legitimate
   path); the prefix property holds unconditionally. *)
From Coq Require Import List NArith ZArith Bool.
From Verif Require Import Bits Huffman Inflate InflateSpec InflateMono.
From Verif Require Import Base EngineTables Engine EngineRefineSpec EngineRefineSpecBlock
     EngineRefineSpecHdr EngineRefineSpecReach EngineRefineSpecBuf EngineRefineSpecNeed
     EngineRefineSpecBlock2 EngineRefineSpecTop EngineRefineSpecPhase.
Import ListNotations.
Open Scope N_scope.

Definition step_refine2_statement : Prop :=
  decomp_refine_statement -> decomperss_flush_statement -> decomp_phase_statement ->
  bPeek_spec_statement -> bPeek_buffered_statement -> bDiscard_spec_statement ->
  reach_inv_statement ->
  readHeader_refine_body -> readHeader_need_body ->
  decodeHuffman_refine2_statement -> decodeLiteralBlock_refine_statement ->
  forall data delivered f,
    Forall (fun x => x < 256) data ->
    dec_inv data delivered f -> readPos f = writePos f -> derr f = None ->
    let '(f', r) := step f in
    (exists c, reach data c /\
               delivered ++ pending_out f' = frev (rout (cfg_st c)) /\
               readPos f' <= writePos f' /\
               (r = Some REOF -> phase (state f') = phaseFinish ->
                  exists st S0, c = CDone st S0 /\
                    consumed (rBuf f') = (bp S0 + 7) / 8)) /\
    derr f' = None /\
    (r = None -> dec_inv data delivered f').

(* The main soundness theorem about the top level (erun_loop is erun_ext keeping the final
   decompressor): whatever the chunking of the source, the bufio size, the terminal condition
   of the source and the read sizes,
   - the bytes returned by the successive Read calls are a prefix of the reference output;
   - if a Read returned io.EOF and the decoder is in phase Finish, the reference says Done, ALL
     of its output has been returned, and the number of source bytes consumed is
     (bitpos + 7) / 8. *)
Definition erun_sound2_statement : Prop :=
  forall data cs bufsize t reads,
    Forall (fun x => x < 256) data -> concat cs = data -> Forall (fun c => c <> []) cs ->
    let '(l, f) := erun_loop (newReader bufsize cs t) reads [] in
    is_prefix (results_bytes l) (out (Inflate.inflate [] data)) /\
    (In REOF (map snd l) -> phase (state f) = phaseFinish ->
       status (Inflate.inflate [] data) = Done /\
       results_bytes l = out (Inflate.inflate [] data) /\
       consumed (rBuf f) = (bitpos (Inflate.inflate [] data) + 7) / 8).

(* erun_ext / erun are projections of erun_loop *)
Definition erun_ext_loop_statement : Prop :=
  forall bufsize cs t reads,
    erun_ext bufsize cs t reads =
    let '(l, f) := erun_loop (newReader bufsize cs t) reads [] in (l, consumed (rBuf f)).

(* the defect: a truncated stream on which the engine reports a clean EOF *)
Definition trunc_stream : list N := [237; 29; 128; 228; 255; 159].
Definition eof_on_truncated_stream_statement : Prop :=
  erun 4096 [trunc_stream] TEOF [100] = [([], REOF)] /\
  status (Inflate.inflate [] trunc_stream) = NeedInput.
