(* EngineRefineSpecFinal.v -- the top-level statements about step / Read / erun, for the engine
   AFTER fix b29ee69 (reader.go step(): the whole bytes held in the bit buffer are counted as 0
   when bitsLen is negative, first Discard site).

   HISTORY (refuted version).  Before that fix the statement "io.EOF is only reported at the
   end of the final block" was FALSE: step() computed
       discardSize := peekSize - len(input) - bitsLen/8
   also after a decode error, where bitsLen can be as low as -14 (readLitDistLens reports
   errInvalidBlock after reading past the end of the input); Go's truncating division made
   bitsLen/8 = -1, discardSize exceeded what is buffered, bufio's Discard failed with io.EOF at
   the end of the source, and step returned that error: a truncated stream was reported as a
   clean EOF.  Concrete stream (6 bytes): ed 1d 80 e4 ff 9f; with output before it:
   00 05 00 fa ff "hello" ed 1d 80 e4 ff 9f  gave ("hello", EOF).  Found while proving
   step_refine (the proof obligation "Discard cannot fail" needed 0 <= bitsLen on the error
   path).  `trunc_stream_regression` below records the behaviour after the fix. *)
From Coq Require Import List NArith ZArith Bool.
From Verif Require Import Bits Huffman Inflate InflateSpec InflateMono.
From Verif Require Import Base EngineTables Engine EngineRefineSpec EngineRefineSpecBlock
     EngineRefineSpecHdr EngineRefineSpecReach EngineRefineSpecBuf EngineRefineSpecNeed
     EngineRefineSpecBlock2 EngineRefineSpecTop EngineRefineSpecPhase.
Import ListNotations.
Open Scope N_scope.

(* the quantified part of decomp_refine_statement *)
Definition decomp_body : Prop :=
  forall data fuel s out w c u,
    Forall (fun x => x < 256) data ->
    reach data c -> st_sim s c (bits_of_bytes u) ->
    win_rel out w (cfg_st c) -> w <= outLen ->
    let '(s', out', w', err) := decomp_loop fuel s out w in
    let '(s2, out2, w2) := flush_ov s' out' w' in
    exists c',
      reach data c' /\ win_rel out2 w2 (cfg_st c') /\ w <= w2 /\ w2 <= outLen + 261 /\
      (exists v, rout (cfg_st c') = v ++ rout (cfg_st c) /\ N.of_nat (length v) = w2 - w) /\
      inputNil s2 = inputNil s /\
      (err <> EPanic -> err <> EFuel -> isError err = false ->
         st_sim s2 c' (bits_of_bytes u) /\
         qbytes s2 <= qbytes s /\
         (err = ENone \/ err = EEndInput \/ err = EOutputOverflow) /\
         (err = ENone -> phase s2 = phaseStreamEnd) /\
         (phase s2 = phaseDecodingHeader ->
            err = EEndInput /\ r_in (rd s2) = [] /\ r_inlen (rd s2) = 0)).

(* One call of step (made by Read when everything produced has been delivered).  Whatever the
   outcome, the window holds reference output (so what Read delivers afterwards is correct);
   io.EOF is only reported at the end of the final block, with exactly the bytes up to the
   end of the stream consumed from the source; when step reports no error the invariant
   holds again. *)
Definition step_post (data delivered : list N) (f' : decompressor) (r : option rres) : Prop :=
  (exists c, reach data c /\
             delivered ++ pending_out f' = frev (rout (cfg_st c)) /\
             readPos f' <= writePos f' /\
             (r = Some REOF ->
                exists st S0, c = CDone st S0 /\
                  consumed (rBuf f') = (bp S0 + 7) / 8)) /\
  derr f' = None /\
  (r = None -> dec_inv data delivered f').

Definition step_refine_final_statement : Prop :=
  decomp_body -> decomperss_flush_statement ->
  bPeek_spec_statement -> bPeek_buffered_statement -> bDiscard_spec_statement ->
  reach_inv_statement ->
  forall data delivered f,
    Forall (fun x => x < 256) data ->
    dec_inv data delivered f -> readPos f = writePos f -> derr f = None ->
    let '(f', r) := step f in step_post data delivered f' r.

(* erun_ext / erun are projections of erun_loop *)
Definition erun_ext_loop_statement : Prop :=
  forall bufsize cs t reads,
    erun_ext bufsize cs t reads =
    let '(l, f) := erun_loop (newReader bufsize cs t) reads [] in (l, consumed (rBuf f)).

(* the stream that used to be reported as a clean EOF *)
Definition trunc_stream : list N := [237; 29; 128; 228; 255; 159].
Definition trunc_stream_regression_statement : Prop :=
  (forall r, In r (map snd (erun 4096 [trunc_stream] TEOF [100; 100])) -> r <> REOF) /\
  status (Inflate.inflate [] trunc_stream) = NeedInput.
