(* EngineCompleteSpecA.v -- completeness side of the engine refinement, part A: statements about
   single components ("the engine does not give up or reject unless the reference does").
   Proofs: proofs/EngineComplete*.v. *)
From Coq Require Import List NArith ZArith Bool.
From Verif Require Import Bits Huffman Inflate InflateSpec InflateMono.
From Verif Require Import Base EngineTables Engine EngineRefineSpec EngineRefineSpecBlock
     EngineRefineSpecBlock3 EngineRefineSpecHdr EngineRefineSpecNeed.
Import ListNotations.
Open Scope N_scope.

(* ---------------------------------------------------------------- canonical codes are "left
   packed": the assigned bit patterns form an initial segment, so padding a proper prefix of a
   code word with zero bits gives a pattern that again starts with a code word.  This is why
   looking a word up with phantom zero bits at the end of the input never reports an
   unassigned pattern for a stream that can still be completed. *)
Definition canon_pad_statement : Prop :=
  forall (maxl : nat) (l : lens) (p z : list bool) (s len : nat) (c : N),
    (maxl <= 16)%nat -> Forall (fun x => (x <= maxl)%nat) l -> oversubscribed maxl l = false ->
    In (s, len, c) (canon l) -> code_bits len c = p ++ z ->
    exists s' len' c' z',
      In (s', len', c') (canon l) /\
      p ++ repeat false maxl = code_bits len' c' ++ z' /\ (length p <= len')%nat.

(* ---------------------------------------------------------------- restart of a header attempt
   (the fact called HeaderRestartMonotone in proofs/EngineSafetyHeader.v, first half, for byte
   values < 256: for larger "bytes" it is false, proofs/EngineSafetyRestartCex.v).
   If a header attempt runs out of input, an attempt that starts from the same bit buffer on
   the same input followed by more bytes X loads all of the old input, whatever its outcome
   and whatever the other fields of the state (stale tables, dynHdr scratch, ...) are. *)
Definition restart_loads_statement : Prop :=
  forall sA sA' sB X,
    br_wf (rd sA) -> (0 <= r_len (rd sA))%Z -> Forall (fun x => x < 256) X ->
    tryDecodeHeader sA = (sA', EEndInput) ->
    rd sB = mkBR (r_bits (rd sA)) (r_len (rd sA)) (r_in (rd sA) ++ X)
                 (r_inlen (rd sA) + N.of_nat (length X)) ->
    r_inlen (rd (fst (tryDecodeHeader sB))) <= N.of_nat (length X).

(* ---------------------------------------------------------------- decodeHuffman: what the
   outcomes mean for the reference.  Same setting as decodeHuffman_refine3_statement; st', bs'
   is the symbol boundary of the reference that the window corresponds to.
   - EEndInput: the reader has no input left, and the reference, given EXACTLY the bits the
     engine holds, runs over some more whole symbols (the engine rolls a multi-symbol table entry
     back as a whole, so up to two literals that the reference can still decode are not
     delivered: the statement "the reference needs input at the symbol where the engine
     stopped" is FALSE) and then needs more input;
   - an error (invalid symbol / look-back): the reference calls the next symbol corrupt,
     whatever follows the bits the engine holds. *)
Definition decodeHuffman_outcome_statement : Prop :=
  canon_pad_statement ->
  forall s out w lt dt st p,
    br_wf (rd s) -> (0 <= r_len (rd s))%Z ->
    phase s = phaseHeaderDecoded -> (bfinal s = 0 \/ bfinal s = 1) ->
    ov s = ov0 ->
    tabs_for (tb s) lt dt -> win_rel out w st -> w <= outLen ->
    let '(s', out', w', err) := decodeHuffman s out w in
    (err = EEndInput ->
       r_in (rd s') = [] /\
       exists st2 bs2,
         sym_run lt dt st (mkbs (br_bits (rd s)) p) st2 bs2 false /\
         exists a b, sym1 lt dt st2 bs2 = SStop a b NeedInput) /\
    (isError err = true ->
       forall e, exists st' bs' ended,
         sym_run lt dt st (mkbs (br_bits (rd s) ++ e) p) st' bs' ended /\ ended = false /\
         exists a b, sym1 lt dt st' bs' = SStop a b Corrupt) /\
    (* progress: unless it reports the end of the input, an error, or a fatal condition, the
       call ends a block or fills the window *)
    (err = ENone \/ err = EEndInput \/ err = EOutputOverflow \/ isError err = true \/
     err = EPanic \/ err = EFuel).
