#!/bin/sh
# Compiles the Coq model, extracts it and builds the OCaml driver (/verif/driver/engine/engine_driver).
set -e
cd /verif/coq
/verif/bin/gen-engine-tables > /dev/null
timeout 900 coqc -Q . Verif RModel/EngineTables.v
timeout 900 coqc -Q . Verif RModel/Engine.v
mkdir -p /verif/driver/engine
cd /verif/driver/engine
timeout 900 coqc -Q ../../coq Verif ../../coq/RModel/EngineExtract.v > extract.log 2>&1 || { cat extract.log; exit 1; }
cp ../engine_main.ml engine_main.ml
timeout 1200 ocamlfind ocamlopt -O3 -w -a engine.mli engine.ml engine_main.ml -o engine_driver > ocaml.log 2>&1 || { cat ocaml.log; exit 1; }
