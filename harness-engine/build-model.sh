#!/bin/sh
# Compiles the Coq model (only the files that are out of date: Engine.vo is shared with the proof
# files), extracts it and builds the OCaml driver (/verif/driver/engine/engine_driver).
set -e
cd /verif/coq
/verif/bin/gen-engine-tables > /dev/null
comp() { # comp file.v dep.vo...
  v=$1; vo=${1%.v}.vo; shift
  need=0
  [ -f "$vo" ] || need=1
  [ "$need" = 1 ] || [ "$v" -nt "$vo" ] && need=1
  for d in "$@"; do [ "$d" -nt "$vo" ] && need=1; done
  if [ "$need" = 1 ]; then timeout 900 coqc -Q . Verif "$v"; fi
}
comp RModel/EngineTables.v
comp RModel/Engine.v RModel/EngineTables.vo WModel/Base.vo
comp RModel/EngineReset.v RModel/Engine.vo
mkdir -p /verif/driver/engine
cd /verif/driver/engine
timeout 900 coqc -Q ../../coq Verif ../../coq/RModel/EngineExtract.v > extract.log 2>&1 || { cat extract.log; exit 1; }
cp ../engine_main.ml engine_main.ml
timeout 1200 ocamlfind ocamlopt -O3 -w -a engine.mli engine.ml engine_main.ml -o engine_driver > ocaml.log 2>&1 || { cat ocaml.log; exit 1; }
