// Differential tester: the real fastgo flate.Reader (pure-Go decode loop, acceleration level 0)
// against the Gallina engine model extracted to OCaml (/verif/driver/engine/engine_driver).
//
// For every case the real Reader is driven through a caller-supplied *bufio.Reader over a
// source that delivers a fixed chunk schedule and then EOF or an error; every Read call is
// recorded (bytes, error kind).  The model driver gets the same case on one line and answers
// with its per-Read results.  Compared: bytes and kind of every Read, and the number of source
// bytes consumed at the end.
package main

import (
	"bufio"
	"bytes"
	stdflate "compress/flate"
	"errors"
	"flag"
	"fmt"
	"io"
	"os"
	"os/exec"
	"strconv"
	"sort"
	"strings"
	"sync"
	"time"

	"github.com/intel/fastgo/compress/flate"
)

var errSrc = errors.New("source failed")

type rep struct{ size, count int }

type Case struct {
	Name    string
	Stream  []byte
	BufSize int
	Chunks  []int // sizes cut from the left; the rest of the stream is one last chunk
	TermErr bool
	Reads   []rep
	// Reader reuse: after the reads of this case (every one of them is issued; Extra more after
	// the first error, which is sticky) the same Reader is Reset onto the source of Next.
	Next  *Case
	Extra int
}

func sizesString(xs []int) string {
	if len(xs) == 0 {
		return "-"
	}
	var sb strings.Builder
	i := 0
	for i < len(xs) {
		j := i
		for j < len(xs) && xs[j] == xs[i] {
			j++
		}
		if sb.Len() > 0 {
			sb.WriteByte(',')
		}
		if j-i > 1 {
			fmt.Fprintf(&sb, "%dx%d", xs[i], j-i)
		} else {
			fmt.Fprintf(&sb, "%d", xs[i])
		}
		i = j
	}
	return sb.String()
}

func (c *Case) Line() string {
	hx := "-"
	if len(c.Stream) > 0 {
		hx = hexs(c.Stream)
	}
	term := "eof"
	if c.TermErr {
		term = "err"
	}
	var rs []string
	for _, r := range c.Reads {
		if r.count == 1 {
			rs = append(rs, strconv.Itoa(r.size))
		} else {
			rs = append(rs, fmt.Sprintf("%dx%d", r.size, r.count))
		}
	}
	rss := strings.Join(rs, ",")
	if rss == "" {
		rss = "-"
	}
	line := fmt.Sprintf("%s %d %s %s %s", hx, c.BufSize, sizesString(c.Chunks), term, rss)
	if c.Next != nil {
		line += " " + c.Next.Line()
	}
	return line
}

// chunkSrc is the io.Reader under the bufio.Reader: one chunk (or the part that fits) per Read.
type chunkSrc struct {
	chunks    [][]byte
	term      error
	delivered int
}

func (s *chunkSrc) Read(p []byte) (int, error) {
	if len(s.chunks) == 0 {
		return 0, s.term
	}
	c := s.chunks[0]
	n := copy(p, c)
	if n == len(c) {
		s.chunks = s.chunks[1:]
	} else {
		s.chunks[0] = c[n:]
	}
	s.delivered += n
	return n, nil
}

type readRes struct {
	kind  string
	bytes []byte
	msg   string // panic message
}

func kindOf(err error) string {
	var ce flate.CorruptInputError
	switch {
	case err == nil:
		return "ok"
	case err == io.EOF:
		return "eof"
	case err == io.ErrUnexpectedEOF:
		return "ueof"
	case errors.As(err, &ce):
		return fmt.Sprintf("corrupt@%d", int64(ce))
	case err == errSrc:
		return "src"
	case err == io.ErrNoProgress:
		return "noprogress"
	case err == bufio.ErrBufferFull:
		return "bufferfull"
	}
	return "other:" + strings.ReplaceAll(err.Error(), " ", "_")
}

func splitChunks(stream []byte, sizes []int) [][]byte {
	var out [][]byte
	rest := stream
	for _, k := range sizes {
		if k > len(rest) {
			k = len(rest)
		}
		out = append(out, rest[:k])
		rest = rest[k:]
	}
	if len(rest) > 0 {
		out = append(out, rest)
	}
	return out
}

// drive issues Read calls; after the first error it issues extra more (the error is sticky) and
// stops.  used = the calls that were made.
func drive(r io.Reader, reads []rep, extra int) (res []readRes, used []rep, panicked bool) {
	failed := false
	for _, rp := range reads {
		buf := make([]byte, rp.size)
		used = append(used, rep{rp.size, 0})
		for i := 0; i < rp.count; i++ {
			if failed {
				if extra == 0 {
					return
				}
				extra--
			}
			used[len(used)-1].count++
			var n int
			var err error
			pmsg := ""
			func() {
				defer func() {
					if x := recover(); x != nil {
						panicked = true
						pmsg = fmt.Sprint(x)
					}
				}()
				n, err = r.Read(buf)
			}()
			if panicked {
				res = append(res, readRes{kind: "panic", msg: pmsg})
				return
			}
			res = append(res, readRes{kind: kindOf(err), bytes: append([]byte(nil), buf[:n]...)})
			if err != nil {
				failed = true
			}
		}
	}
	return
}

func trimReps(u []rep) []rep {
	var out []rep
	for _, x := range u {
		if x.count > 0 {
			out = append(out, x)
		}
	}
	return out
}

func newSource(c *Case) (*chunkSrc, *bufio.Reader) {
	src := &chunkSrc{chunks: splitChunks(append([]byte(nil), c.Stream...), c.Chunks), term: io.EOF}
	if c.TermErr {
		src.term = errSrc
	}
	return src, bufio.NewReaderSize(src, c.BufSize)
}

var (
	reuseMu      sync.Mutex
	reuseCases   int
	reuseVisible []string
)

// runReal drives the real Reader.  With c.Next: phase 1, Reset, phase 2; the result is the
// observations of phase 1, a separator, those of phase 2, and the bytes consumed from source 2.
func runReal(c *Case) (res []readRes, consumed int) {
	src, br := newSource(c)
	r := flate.NewReader(br)
	extra := 0
	if c.Next != nil {
		extra = c.Extra
	}
	res, used, panicked := drive(r, c.Reads, extra)
	c.Reads = trimReps(used) // the model is given exactly the Read calls that were made
	if c.Next == nil || panicked {
		c.Next = nil
		return res, src.delivered - br.Buffered()
	}
	n := c.Next
	src2, br2 := newSource(n)
	r.(flate.Resetter).Reset(br2, nil)
	res2, used2, _ := drive(r, n.Reads, 0)
	n.Reads = trimReps(used2)
	// for information: is the reused Reader distinguishable from a new one on source 2?
	_, br3 := newSource(n)
	res3, _, _ := drive(flate.NewReader(br3), n.Reads, 0)
	reuseMu.Lock()
	reuseCases++
	if d := compare(res2, 0, res3, 0); d != "" {
		reuseVisible = append(reuseVisible, fmt.Sprintf("# %s: reused vs new Reader: %s\n%s", c.Name, d, c.Line()))
	}
	reuseMu.Unlock()
	res = append(res, readRes{kind: "|"})
	res = append(res, res2...)
	return res, src2.delivered - br2.Buffered()
}

func parseModel(line string) (res []readRes, consumed int, err error) {
	toks := strings.Fields(line)
	if len(toks) == 0 || toks[0] == "ERR" {
		return nil, 0, fmt.Errorf("model driver: %q", line)
	}
	consumed, err = strconv.Atoi(toks[0])
	if err != nil {
		return nil, 0, err
	}
	for _, t := range toks[1:] {
		if t == "|" {
			res = append(res, readRes{kind: "|"})
			continue
		}
		i := strings.LastIndexByte(t, ':')
		if i < 0 {
			return nil, 0, fmt.Errorf("bad item %q", t)
		}
		var b []byte
		if t[i+1:] != "-" {
			b = unhex(t[i+1:])
		}
		res = append(res, readRes{kind: t[:i], bytes: b})
	}
	return res, consumed, nil
}

// compare returns "" when the two runs agree.
func compare(real []readRes, rc int, model []readRes, mc int) string {
	n := len(real)
	if len(model) < n {
		n = len(model)
	}
	for i := 0; i < n; i++ {
		a, b := real[i], model[i]
		if a.kind == "panic" && b.kind == "panic" {
			return ""
		}
		if a.kind != b.kind {
			return fmt.Sprintf("Read #%d: kind real=%s (n=%d) model=%s (n=%d)", i, a.kind, len(a.bytes), b.kind, len(b.bytes))
		}
		if !bytes.Equal(a.bytes, b.bytes) {
			k := 0
			for k < len(a.bytes) && k < len(b.bytes) && a.bytes[k] == b.bytes[k] {
				k++
			}
			return fmt.Sprintf("Read #%d (%s): bytes differ at %d (real n=%d, model n=%d)", i, a.kind, k, len(a.bytes), len(b.bytes))
		}
	}
	if len(real) != len(model) {
		return fmt.Sprintf("number of Read calls: real=%d model=%d", len(real), len(model))
	}
	if rc != mc {
		return fmt.Sprintf("consumed source bytes: real=%d model=%d", rc, mc)
	}
	return ""
}

type modelProc struct {
	cmd *exec.Cmd
	in  *bufio.Writer
	out *bufio.Reader
}

func startModel(path string) (*modelProc, error) {
	cmd := exec.Command(path)
	stdin, err := cmd.StdinPipe()
	if err != nil {
		return nil, err
	}
	stdout, err := cmd.StdoutPipe()
	if err != nil {
		return nil, err
	}
	cmd.Stderr = os.Stderr
	if err := cmd.Start(); err != nil {
		return nil, err
	}
	return &modelProc{cmd: cmd, in: bufio.NewWriterSize(stdin, 1<<20), out: bufio.NewReaderSize(stdout, 1<<20)}, nil
}

func (m *modelProc) ask(line string) (string, error) {
	if _, err := m.in.WriteString(line + "\n"); err != nil {
		return "", err
	}
	if err := m.in.Flush(); err != nil {
		return "", err
	}
	s, err := m.out.ReadString('\n')
	return strings.TrimRight(s, "\n"), err
}

func summarize(res []readRes) string {
	tot := 0
	for _, r := range res {
		tot += len(r.bytes)
	}
	last := "-"
	if len(res) > 0 {
		last = res[len(res)-1].kind
	}
	return fmt.Sprintf("%d reads, %d bytes, last=%s", len(res), tot, last)
}

func main() {
	n := flag.Int("n", 2000, "number of cases")
	seed := flag.Uint64("seed", 1, "seed")
	driver := flag.String("driver", "/verif/driver/engine/engine_driver", "model driver")
	workers := flag.Int("workers", 8, "parallel model processes")
	replay := flag.String("replay", "", "file with case lines to replay instead of generating")
	only := flag.String("only", "", "generate only this family (reset)")
	dump := flag.String("dump", "", "write the generated case lines to this file")
	verbose := flag.Bool("v", false, "print every case")
	maxShow := flag.Int("show", 5, "mismatches to print in full")
	flag.Parse()

	if lv := archLevel(); lv != 0 {
		fmt.Printf("engine-correspondence: acceleration level is %d, need 0 (build with -tags verif and set FASTGO_VERIF_ARCHLEVEL=0)\n", lv)
		os.Exit(2)
	}

	var cases []*Case
	if *replay != "" {
		cs, err := loadCases(*replay)
		if err != nil {
			fmt.Println(err)
			os.Exit(2)
		}
		cases = cs
	} else {
		if *only == "reset" {
			cases = generateReset(*n, *seed)
		} else {
			cases = generate(*n, *seed)
		}
	}
	if *dump != "" {
		f, _ := os.Create(*dump)
		w := bufio.NewWriter(f)
		for _, c := range cases {
			fmt.Fprintf(w, "%s\n", c.Line())
		}
		w.Flush()
		f.Close()
	}

	type outcome struct {
		diff  string
		real  string
		model string
		kind  string
		dur   time.Duration
		pmsg  string
	}
	outs := make([]outcome, len(cases))
	var wg sync.WaitGroup
	next := make(chan int, len(cases))
	for i := range cases {
		next <- i
	}
	close(next)
	for w := 0; w < *workers; w++ {
		wg.Add(1)
		go func() {
			defer wg.Done()
			mp, err := startModel(*driver)
			if err != nil {
				fmt.Println("cannot start model driver:", err)
				os.Exit(2)
			}
			for i := range next {
				c := cases[i]
				real, rc := runReal(c)
				t0 := time.Now()
				ans, err := mp.ask(c.Line())
				dur := time.Since(t0)
				if err != nil {
					outs[i] = outcome{diff: "model driver died: " + err.Error()}
					mp, _ = startModel(*driver)
					continue
				}
				model, mc, err := parseModel(ans)
				if err != nil {
					outs[i] = outcome{diff: err.Error()}
					continue
				}
				last := "-"
				pm := ""
				if len(real) > 0 {
					last = real[len(real)-1].kind
					pm = real[len(real)-1].msg
					if strings.HasPrefix(last, "corrupt") {
						last = "corrupt"
					}
				}
				outs[i] = outcome{diff: compare(real, rc, model, mc),
					real:  summarize(real) + fmt.Sprintf(", consumed=%d", rc),
					model: summarize(model) + fmt.Sprintf(", consumed=%d", mc), kind: last, dur: dur, pmsg: pm}
			}
			mp.in.Flush()
			mp.cmd.Process.Kill()
		}()
	}
	wg.Wait()

	mism := 0
	kinds := map[string]int{}
	fams := map[string]int{}
	var mf, pf *os.File
	var truncEOF []string
	for i, c := range cases {
		o := outs[i]
		if o.kind == "panic" {
			if pf == nil {
				pf, _ = os.Create("panics.txt")
			}
			fmt.Fprintf(pf, "# case %d %s: the real Reader panics: %s (model: %s)\n%s\n", i, c.Name, o.pmsg, o.model, c.Line())
		}
		kinds[o.kind]++
		fam := c.Name
		if k := strings.IndexByte(fam, '/'); k >= 0 {
			fam = fam[:k]
		}
		fams[fam]++
		if (fam == "trunc" || fam == "truncbig") && o.kind == "eof" {
			// a proper prefix of a valid stream must not end in a clean EOF (oracle independent of the model)
			truncEOF = append(truncEOF, c.Line())
		}
		if *verbose {
			fmt.Printf("case %d %s: %s\n", i, c.Name, o.real)
		}
		if o.diff != "" {
			mism++
			if mf == nil {
				mf, _ = os.Create("mismatches.txt")
			}
			fmt.Fprintf(mf, "# case %d %s: %s\n%s\n", i, c.Name, o.diff, c.Line())
			if mism <= *maxShow {
				line := c.Line()
				if len(line) > 600 {
					line = line[:600] + "...(see mismatches.txt)"
				}
				fmt.Printf("MISMATCH case %d (%s, stream %d bytes): %s\n  real : %s\n  model: %s\n  case : %s\n",
					i, c.Name, len(c.Stream), o.diff, o.real, o.model, line)
			}
		}
	}
	if mf != nil {
		mf.Close()
	}
	if pf != nil {
		pf.Close()
		fmt.Printf("the real Reader panicked in %d cases (see panics.txt)\n", kinds["panic"])
	}
	idx := make([]int, len(cases))
	for i := range idx {
		idx[i] = i
	}
	sort.Slice(idx, func(a, b int) bool { return outs[idx[a]].dur > outs[idx[b]].dur })
	var tot time.Duration
	for _, o := range outs {
		tot += o.dur
	}
	fmt.Printf("model time: total %.1fs; slowest:", tot.Seconds())
	for k := 0; k < 3 && k < len(idx); k++ {
		i := idx[k]
		fmt.Printf(" [case %d %s stream=%d chunks=%d buf=%d %s: %.1fs]", i, cases[i].Name, len(cases[i].Stream), len(cases[i].Chunks), cases[i].BufSize, outs[i].real, outs[i].dur.Seconds())
	}
	fmt.Println()
	if len(truncEOF) > 0 {
		f, _ := os.Create("trunc-eof.txt")
		for _, l := range truncEOF {
			fmt.Fprintln(f, l)
		}
		f.Close()
	}
	fmt.Printf("truncated valid streams reported as clean EOF by the real Reader: %d\n", len(truncEOF))
	if reuseCases > 0 {
		fmt.Printf("reader-reuse cases: %d; in %d of them the real reused Reader differs from a new Reader on the second stream (see reuse-visible.txt)\n", reuseCases, len(reuseVisible))
		if len(reuseVisible) > 0 {
			f, _ := os.Create("reuse-visible.txt")
			for _, l := range reuseVisible {
				fmt.Fprintln(f, l)
			}
			f.Close()
		}
	}
	fmt.Printf("families: %v\n", fams)
	fmt.Printf("final Read kinds (real): %v\n", kinds)
	fmt.Printf("engine-correspondence: %d cases, %d mismatches\n", len(cases), mism)
	if mism != 0 {
		os.Exit(1)
	}
}

func loadCases(path string) ([]*Case, error) {
	f, err := os.Open(path)
	if err != nil {
		return nil, err
	}
	defer f.Close()
	var out []*Case
	sc := bufio.NewScanner(f)
	sc.Buffer(make([]byte, 1<<20), 1<<28)
	ln := 0
	for sc.Scan() {
		ln++
		line := strings.TrimSpace(sc.Text())
		if line == "" || line[0] == '#' {
			continue
		}
		t := strings.Fields(line)
		if len(t) != 5 && len(t) != 10 {
			return nil, fmt.Errorf("%s:%d: want 5 or 10 fields", path, ln)
		}
		mk := func(t []string) *Case {
			c := &Case{Name: fmt.Sprintf("replay/%d", ln)}
			if t[0] != "-" {
				c.Stream = unhex(t[0])
			}
			c.BufSize, _ = strconv.Atoi(t[1])
			for _, r := range parseReps(t[2]) {
				for i := 0; i < r.count; i++ {
					c.Chunks = append(c.Chunks, r.size)
				}
			}
			c.TermErr = t[3] == "err"
			c.Reads = parseReps(t[4])
			return c
		}
		c := mk(t[:5])
		if len(t) == 10 {
			c.Next = mk(t[5:])
			c.Extra = 1 << 30 // every listed Read of phase 1 is issued
		}
		out = append(out, c)
	}
	return out, sc.Err()
}

func parseReps(s string) []rep {
	if s == "-" || s == "" {
		return nil
	}
	var out []rep
	for _, it := range strings.Split(s, ",") {
		ab := strings.Split(it, "x")
		a, _ := strconv.Atoi(ab[0])
		b := 1
		if len(ab) == 2 {
			b, _ = strconv.Atoi(ab[1])
		}
		out = append(out, rep{a, b})
	}
	return out
}

// ---------------------------------------------------------------- stream producers

func stdDeflate(data []byte, level int) []byte {
	var b bytes.Buffer
	w, _ := stdflate.NewWriter(&b, level)
	w.Write(data)
	w.Close()
	return b.Bytes()
}

// stdDeflateFlushed writes in pieces with Flush in between (sync markers: empty stored blocks).
func stdDeflateFlushed(r *Rng, data []byte, level int) []byte {
	var b bytes.Buffer
	w, _ := stdflate.NewWriter(&b, level)
	for len(data) > 0 {
		k := r.Range(1, len(data))
		w.Write(data[:k])
		data = data[k:]
		w.Flush()
	}
	w.Close()
	return b.Bytes()
}

func fastDeflate(data []byte, level int, win4k bool) []byte {
	var b bytes.Buffer
	var w *flate.Writer
	if win4k {
		w, _ = flate.NewWriterwWith4KWindow(&b, level)
	} else {
		w, _ = flate.NewWriter(&b, level)
	}
	w.Write(data)
	w.Close()
	return b.Bytes()
}
