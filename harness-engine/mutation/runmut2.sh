#!/bin/sh
# usage: runmut2.sh <name> <Engine|EngineReset> <old> <new>   (reset family only)
name=$1
rm -rf /tmp/mut/$name && mkdir -p /tmp/mut/$name && cd /tmp/mut/$name
python3 - "$2" "$3" "$4" <<'PY'
import sys
which,old,new=sys.argv[1],sys.argv[2],sys.argv[3]
e=open('/verif/coq/RModel/Engine.v').read()
r=open('/verif/coq/RModel/EngineReset.v').read()
if which=='Engine':
    assert e.count(old)>=1, "pattern not found"; e=e.replace(old,new,1)
else:
    assert r.count(old)>=1, "pattern not found"; r=r.replace(old,new,1)
r=r.replace('From Verif Require Import Base Engine.','From Verif Require Import Base.\nFrom VerifMut Require Import Engine.')
open('Engine.v','w').write(e); open('EngineReset.v','w').write(r)
open('EngineExtract.v','w').write('From Coq Require Import Extraction ExtrOcamlBasic.\nFrom VerifMut Require Import Engine EngineReset.\nExtraction Language OCaml.\nExtraction "engine.ml" erun erun_ext erun_obs erun2 erun2_obs.\n')
PY
[ $? -eq 0 ] || exit 1
timeout 900 coqc -Q /verif/coq Verif -Q . VerifMut Engine.v || exit 1
timeout 900 coqc -Q /verif/coq Verif -Q . VerifMut EngineReset.v || exit 1
timeout 900 coqc -Q /verif/coq Verif -Q . VerifMut EngineExtract.v >/dev/null || exit 1
cp /verif/driver/engine_main.ml .
timeout 900 ocamlfind ocamlopt -O3 -w -a engine.mli engine.ml engine_main.ml -o engine_driver >/dev/null 2>&1 || exit 1
cd /verif/harness-engine
echo "== $name: $(FASTGO_VERIF_ARCHLEVEL=0 timeout 900 ./engine-harness -only reset -n 1000 -seed 1 -workers 3 -driver /tmp/mut/$name/engine_driver -show 1 | grep -m1 'MISMATCH\|engine-corr' | cut -c1-220)"
