#!/bin/bash
# Mutation check of the differential tester: each "run <name> <old> <new>" builds a copy of
# Engine.v with one textual change under /tmp/mut/<name>, extracts it and runs the harness against
# it.  Results: /tmp/mut/results.txt.  See ENGINE_NOTES.md for the outcome.
mkdir -p /tmp/mut
cd /verif/harness-engine/mutation
run() { ./runmut.sh "$@" >> /tmp/mut/results.txt 2>&1; }
: > /tmp/mut/results.txt
(
run m2 "HFin (set_wov s 0 0) bTemp out wTemp EEndInput" "HFin s bTemp out wTemp EEndInput"
run m6 "(ilen <=? 2048)" "(ilen <=? 2047)"
run m7 "(ilen <=? 4096)" "(ilen <=? 4095)"
run m8 "let copySize := N.min (maxHdrSize - hb) (r_inlen b0) in" "let copySize := N.min (327 - hb) (r_inlen b0) in"
run m10 "let bits := if bl <? N.size (r_bits b) then N.land (r_bits b) (ones64 bl) else r_bits b in" "let bits := r_bits b in"
) &
(
run m11 "if maxLitLenSym - 1 <? sym3 then (t, true)" "if maxLitLenSym <? sym3 then (t, true)"
run m12 "(sub16 (aget ex len) 1)" "(aget ex len - 1)"
run m15 "then (last + (286 - split))%Z else last in" "then last else last in"
run m17 "if (r_inlen (rd (state f)) =? 0) || (phase (state f) =? phaseFinish) then" "if (r_inlen (rd (state f)) =? 0) then"
run m18 "Some (N.land invalidSymbolValue 31, br_set_len b (r_len b - Z.of_N nextSym)%Z)
    else Some (N.land nextSym 31, b)
  else" "Some (N.land invalidSymbolValue 31, b)
    else Some (N.land nextSym 31, b)
  else"
) &
(
run m19 "else if w <? lookBackDist then HFin s b out w EInvalidLookBack" "else if w <=? lookBackDist then HFin s b out w EInvalidLookBack"
run m20 "(idx + 1) (N.land (N.shiftr v 8) 255))" "(idx + 1) 0)"
run m21 "Some (b, 1, N.land nextSym 1023)." "Some (b, 1, N.land nextSym 511)."
run m22 "if (r_len b <=? 15)%Z then load_raw b else Some b." "if (r_len b <? 15)%Z then load_raw b else Some b."
run m23 "if bytes <? 4 then (s, EEndInput)" "if bytes <? 5 then (s, EEndInput)"
) &
(
run m24 "if (256 <? rl_curr st)%Z && (hc_len (aget (rl_h st) 256) =? 0)" "if false && (hc_len (aget (rl_h st) 256) =? 0)"
run m25 "if bsize b <? n then Some (bbuf b, blen b, Some BBufferFull, b)" "if bsize b <=? n then Some (bbuf b, blen b, Some BBufferFull, b)"
run m26 "Some (fill_loop 100 b)" "Some (fill_loop 99 b)"
run m27 "if (bBuffered (rBuf f) <=? held) && negb (haveBits f) then" "if (bBuffered (rBuf f) <? held) && negb (haveBits f) then"
run m28 "let '(length, s, err) :=
          if avail <? length then (avail, set_phase s phaseLitBlock, EEndInput)" "let '(length, s, err) :=
          if avail <=? length then (avail, set_phase s phaseLitBlock, EEndInput)"
) &
wait
echo ALLDONE >> /tmp/mut/results.txt
(
run n1 "let clrEnd := lcl + (if hdr then 2 * grp else grp) in" "let clrEnd := lcl + 2 * grp in"
run n2 "if negb (rl_inDist st) && (split <? curr)%Z then" "if negb (rl_inDist st) && (split <=? curr)%Z then"
run n3 "|| (prev <? 264)%Z then rl_ex st" "|| (prev <? 265)%Z then rl_ex st"
run n4 "forN 15 22 (fun i (st : arr * N * N) =>" "forN 15 21 (fun i (st : arr * N * N) =>"
) &
(
run n5 "if (doubleSymFlag <=? multisym) || (ll <? 3 * minLen) then (t, cs, ENone)" "if (doubleSymFlag <=? multisym) || (ll <? 3 * minLen + 1) then (t, cs, ENone)"
run n6 "      if 256 <=? sym1 then
        pairs_loop" "      if 257 <=? sym1 then
        pairs_loop"
run n9 "if (ierr_eqb err EOutputOverflow) && (rest =? 0) then (s, out, written, err)" "if (ierr_eqb err EOutputOverflow) then (s, out, written, err)"
run n10 "if nextLits <? 256 then HFin s b out w EOutputOverflow" "if nextLits <=? 256 then HFin s b out w EOutputOverflow"
) &
(
run n12 "          let f := mkD (state f) (writePos f) (readPos f) (hist f) (rBuf f) (derr f) (peekSize f)
                       false (haveBits f) in" "          let f := mkD (state f) (writePos f) (readPos f) (hist f) (rBuf f) (derr f) (peekSize f)
                       (eof f) (haveBits f) in"
run n13 "then (f, bytes, match derr f with Some e => e | None => ROk end)" "then (f, bytes, ROk)"
run n14 "Some (bbuf b, blen b, err,
            mkBuf (bsize b) (bbuf b) (blen b) None (chunks b) (term b) (consumed b))" "Some (bbuf b, blen b, err,
            mkBuf (bsize b) (bbuf b) (blen b) (berr b) (chunks b) (term b) (consumed b))"
) &
(
run n15 "src_read (chunks b) (term b) (bsize b - blen b) in" "src_read (chunks b) (term b) (bsize b) in"
run n21 "if (r_len (rd s) <? 14)%Z then (s, EEndInput)" "if (r_len (rd s) <? 13)%Z then (s, EEndInput)"
run n22 "  match load_lt57 b with
  | None => (set_rd s b, EPanic)" "  match Some b with
  | None => (set_rd s b, EPanic)"
) &
wait
echo ALLDONE >> /tmp/mut/results.txt
