#!/bin/sh
# usage: runmut.sh <name> <python-replace-old> <new>
name=$1
rm -rf /tmp/mut/$name && mkdir -p /tmp/mut/$name && cd /tmp/mut/$name
python3 - "$2" "$3" <<'PY'
import sys
s=open('/verif/coq/RModel/Engine.v').read()
old,new=sys.argv[1],sys.argv[2]
assert s.count(old)>=1, "pattern not found"
s=s.replace(old,new,1)
open('Engine.v','w').write(s)
open('EngineExtract.v','w').write('From Coq Require Import Extraction ExtrOcamlBasic.\nFrom VerifMut Require Import Engine.\nExtraction Language OCaml.\nExtraction "engine.ml" erun erun_ext.\n')
PY
[ $? -eq 0 ] || exit 1
timeout 900 coqc -Q /verif/coq Verif -Q . VerifMut Engine.v || exit 1
timeout 900 coqc -Q /verif/coq Verif -Q . VerifMut EngineExtract.v >/dev/null || exit 1
cp /verif/driver/engine_main.ml .
timeout 900 ocamlfind ocamlopt -O3 -w -a engine.mli engine.ml engine_main.ml -o engine_driver >/dev/null 2>&1 || exit 1
cd /verif/harness-engine
echo "== $name: $(FASTGO_VERIF_ARCHLEVEL=0 timeout 900 ./engine-harness -n 2000 -seed 3 -workers 4 -driver /tmp/mut/$name/engine_driver -show 1 | grep -m1 'MISMATCH\|engine-corr' | cut -c1-200)"
