package main

import "fmt"

var bufSizes = []int{16, 17, 64, 4096, 65536}
var readSizes = []int{1, 7, 100, 4096, 100000}

const unbounded = 1 << 30

// schedule picks the delivery schedule, bufio size, terminal and read pattern of a case.
func schedule(r *Rng, c *Case) {
	n := len(c.Stream)
	c.BufSize = bufSizes[r.Intn(len(bufSizes))]
	c.TermErr = r.Intn(5) == 0
	mode := r.Intn(10)
	if n > 30000 && mode >= 3 && mode <= 4 {
		mode = 5
	}
	switch {
	case mode < 3: // all at once
		c.Chunks = nil
	case mode < 5: // one byte at a time
		c.Chunks = make([]int, n)
		for i := range c.Chunks {
			c.Chunks[i] = 1
		}
	case mode < 8: // random sizes
		max := []int{2, 5, 20, 300, 5000, 70000}[r.Intn(6)]
		for left := n; left > 0; {
			k := r.Range(1, max)
			if k > left {
				k = left
			}
			c.Chunks = append(c.Chunks, k)
			left -= k
		}
	case mode < 9: // random sizes with empty deliveries in between
		for left := n; left > 0; {
			if r.Intn(4) == 0 {
				z := r.Range(1, 3)
				if r.Intn(40) == 0 {
					z = r.Range(99, 101) // around bufio's 100 empty reads
				}
				for i := 0; i < z; i++ {
					c.Chunks = append(c.Chunks, 0)
				}
			}
			k := r.Range(1, 64)
			if k > left {
				k = left
			}
			c.Chunks = append(c.Chunks, k)
			left -= k
		}
		if r.Intn(3) == 0 {
			c.Chunks = append(c.Chunks, 0)
		}
	default: // multiples of the bufio size, and one off
		for left := n; left > 0; {
			k := c.BufSize*r.Range(1, 3) + r.Range(-1, 1)
			if k > left {
				k = left
			}
			c.Chunks = append(c.Chunks, k)
			left -= k
		}
	}
	switch r.Intn(7) {
	case 0, 1, 2, 3, 4:
		c.Reads = []rep{{readSizes[r.Intn(len(readSizes))], unbounded}}
	case 5: // a few odd reads first
		for i := r.Range(1, 6); i > 0; i-- {
			c.Reads = append(c.Reads, rep{r.Pick([]int{1, 2, 3, 7, 100, 257, 258, 259, 4096, 32768, 65535, 65536, 65537}), r.Range(1, 3)})
		}
		c.Reads = append(c.Reads, rep{readSizes[r.Intn(len(readSizes))], unbounded})
	default:
		c.Reads = []rep{{r.Range(1, 70000), unbounded}}
	}
}

func dataFor(r *Rng, class int) []byte {
	var n int
	switch class {
	case 0:
		n = r.Range(0, 300)
	case 1:
		n = r.Range(300, 20000)
	default:
		n = r.Range(66000, 200000)
	}
	kind := dataKinds[r.Intn(len(dataKinds))]
	return DataSpec{Gen: kind, Seed: r.U64(), N: n}.Generate()
}

func sizeClass(r *Rng) int {
	x := r.Intn(100)
	switch {
	case x < 50:
		return 0
	case x < 85:
		return 1
	}
	return 2
}

// validStream returns some valid stream and a short description.
func validStream(r *Rng, class int) ([]byte, string) {
	switch r.Intn(10) {
	case 0, 1, 2:
		lv := r.Pick([]int{0, 1, 6, 9, -2})
		return stdDeflate(dataFor(r, class), lv), fmt.Sprintf("std%d", lv)
	case 3:
		lv := r.Pick([]int{0, 1, 6, -2})
		d := dataFor(r, class)
		if len(d) == 0 {
			d = []byte{1}
		}
		return stdDeflateFlushed(r, d, lv), fmt.Sprintf("stdflush%d", lv)
	case 4, 5:
		lv := r.Pick([]int{1, 2, -2})
		return fastDeflate(dataFor(r, class), lv, r.Intn(4) == 0), fmt.Sprintf("fast%d", lv)
	default:
		size := []int{r.Range(1, 60), r.Range(60, 3000), r.Range(3000, 40000)}[class]
		sp := SynthSpec{Seed: r.U64(), Blocks: r.Range(1, 5), Size: size, Incomp: r.Intn(4) == 0,
			Kinds: r.PickS([]string{"", "", "d", "d", "f", "s", "sf", "fd"})}
		st, _, _, _ := sp.Synthesize()
		return st, "synth"
	}
}

func generate(n int, seed uint64) []*Case {
	r := NewRng(seed)
	var cases []*Case
	add := func(name string, stream []byte) {
		c := &Case{Name: name, Stream: stream}
		schedule(r, c)
		cases = append(cases, c)
	}
	for len(cases) < n {
		x := r.Intn(100)
		if x >= 68 && x < 78 && r.Intn(25) != 0 {
			x = r.Intn(66) // the cut-at-every-byte family yields ~50 cases per draw
		}
		if n > 1 && r.Intn(12) == 0 {
			cases = append(cases, generateReset(1, r.U64())...)
			continue
		}
		switch {
		case x < 22:
			lv := r.Pick([]int{0, 1, 6, 9, -2})
			add(fmt.Sprintf("std/%d", lv), stdDeflate(dataFor(r, sizeClass(r)), lv))
		case x < 26:
			lv := r.Pick([]int{0, 1, 6, -2})
			d := dataFor(r, sizeClass(r))
			if len(d) == 0 {
				d = []byte{7}
			}
			add(fmt.Sprintf("stdflush/%d", lv), stdDeflateFlushed(r, d, lv))
		case x < 40:
			lv := r.Pick([]int{1, 2, -2})
			add(fmt.Sprintf("fast/%d", lv), fastDeflate(dataFor(r, sizeClass(r)), lv, r.Intn(4) == 0))
		case x < 52:
			size := []int{r.Range(1, 60), r.Range(60, 3000), r.Range(3000, 40000)}[sizeClass(r)]
			sp := SynthSpec{Seed: r.U64(), Blocks: r.Range(1, 6), Size: size, Incomp: r.Intn(4) == 0,
				Kinds: r.PickS([]string{"", "", "d", "d", "f", "s", "sf", "fd"})}
			s, _, _, _ := sp.Synthesize()
			add("synth/valid", s)
		case x < 63:
			switch r.Intn(16) {
			case 0:
				sp := SynthSpec{Seed: r.U64(), Blocks: 1, Size: 100, Kinds: "E"}
				s, _, _, _ := sp.Synthesize()
				add("synth/edge", s)
			case 1, 2:
				add("longonly", synthLongOnly(r))
			case 6, 7, 8:
				add("manylong", synthManyLong(r))
			case 3, 4, 5:
				st, off := synthOvfRoll(r)
				add("ovfroll", st)
				c := cases[len(cases)-1]
				// everything up to somewhere in the dynamic block at once, the rest byte by byte
				first := off + r.Intn(len(st)-off)
				c.Chunks = []int{first}
				for i := first; i < len(st); i++ {
					c.Chunks = append(c.Chunks, 1)
				}
				if r.Bool() {
					c.BufSize = 65536
				}
			default:
				st := synthBoundary(r)
				add("boundary", st)
				c := cases[len(cases)-1]
				switch r.Intn(6) {
				case 0, 1:
					c.Chunks, c.BufSize = nil, 65536
				case 2, 3, 4:
					// everything up to a short tail at once, the tail byte by byte: the entry that
					// meets the output boundary then also meets the end of the delivered input
					tail := r.Range(1, 80)
					if tail > len(st) {
						tail = len(st)
					}
					c.Chunks = []int{len(st) - tail}
					for i := 0; i < tail; i++ {
						c.Chunks = append(c.Chunks, 1)
					}
					if r.Bool() {
						c.BufSize = 65536
					}
				}
			}
		case x < 68:
			blocks := r.Range(1, 4)
			sp := SynthSpec{Seed: r.U64(), Blocks: blocks, Size: r.Range(1, 3000), Fault: r.PickS(faultKinds),
				FaultB: r.Intn(blocks), Kinds: r.PickS([]string{"", "d", "d"})}
			s, _, _, _ := sp.Synthesize()
			add("synthfault/"+sp.Fault, s)
		case x < 78:
			// a small stream cut at every byte
			var s []byte
			var desc string
			for tries := 0; tries < 50; tries++ {
				s, desc = validStream(r, 0)
				if len(s) > 0 && len(s) <= 90 {
					break
				}
			}
			if len(s) > 90 {
				s = s[:90]
			}
			fixed := r.Bool()
			tmpl := &Case{Stream: s}
			schedule(r, tmpl)
			for k := 0; k < len(s) && len(cases) < n; k++ {
				c := &Case{Name: "trunc/" + desc, Stream: s[:k]}
				if fixed {
					// same bufio size / read pattern for all cuts, chunks re-cut
					schedule(r, c)
					c.BufSize, c.Reads, c.TermErr = tmpl.BufSize, tmpl.Reads, tmpl.TermErr
				} else {
					schedule(r, c)
				}
				cases = append(cases, c)
			}
		case x < 80:
			// one final dynamic block cut so that exactly 2048 / 4096 bytes (+-1) are left when
			// its header is decoded (the table builder then switches between single, pair and
			// triple entries), delivered at once
			// (small alphabets: short codes, so that pair and triple entries are the rule)
			// (compress/flate never sets BFINAL on a data block, so the block is synthesised)
			var st []byte
			for tries := 0; tries < 20 && len(st) < 4200; tries++ {
				w := &bitW{}
				var out []byte
				smallDynBlock(r, w, &out, true, r.Range(12000, 40000), 0, 0)
				st = w.bytes()
			}
			for _, t := range []int{2048 + 8, 2048 + 9, 4096 + 8, 4096 + 9} {
				if t > len(st) || len(cases) >= n {
					continue
				}
				c := &Case{Name: "thresh", Stream: st[:t]}
				schedule(r, c)
				c.Chunks, c.BufSize = nil, r.Pick([]int{4096, 65536})
				if t > 4096 {
					c.BufSize = 65536
				}
				cases = append(cases, c)
			}
		case x < 82:
			// larger stream cut at a random place
			s, desc := validStream(r, r.Range(1, 2))
			if len(s) > 0 {
				s = s[:r.Intn(len(s))]
			}
			add("truncbig/"+desc, s)
		case x < 93:
			s, desc := validStream(r, r.Pick([]int{0, 0, 1, 1, 2}))
			s = append([]byte(nil), s...)
			if len(s) > 0 {
				nf := r.Range(1, 3)
				for i := 0; i < nf; i++ {
					var p int
					if r.Intn(3) == 0 {
						p = r.Intn(min2(len(s), 40)) // in the first header
					} else {
						p = r.Intn(len(s))
					}
					if r.Bool() {
						s[p] ^= 1 << uint(r.Intn(8))
					} else {
						s[p] = byte(r.Intn(256))
					}
				}
			}
			add("corrupt/"+desc, s)
		case x < 97:
			g := r.Bytes(r.Range(0, 400))
			if r.Intn(8) == 0 {
				g = clcAllZero(r)
			}
			if r.Intn(3) == 0 && len(g) > 0 {
				// force a dynamic block header: BFINAL=?, BTYPE=2
				g[0] = g[0]&^6 | 4
			}
			add("garbage", g)
		default:
			s, desc := validStream(r, r.Intn(2))
			s = append(append([]byte(nil), s...), r.Bytes(r.Range(1, 100))...)
			add("trailing/"+desc, s)
		}
	}
	return cases[:n]
}
