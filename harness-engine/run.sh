#!/bin/sh
# Builds the Coq model, its OCaml driver and the Go differential tester, then runs N cases
# (default 2000).  Usage: run.sh [N] [seed] [extra engine-harness flags]
set -e
N=${1:-2000}
SEED=${2:-1}
[ $# -gt 0 ] && shift
[ $# -gt 0 ] && shift
export GOFLAGS=-mod=mod GOPROXY=off GOSUMDB=off GOTOOLCHAIN=local
cd /verif/harness-engine
./build-model.sh
timeout 900 go build -tags verif -o engine-harness .
FASTGO_VERIF_ARCHLEVEL=0 timeout 7200 ./engine-harness -n "$N" -seed "$SEED" "$@"
