package main

import "fmt"

// Reader reuse: a first stream (valid, truncated, corrupt, or abandoned part-way: with
// undelivered output, inside a block header with bytes staged in headerBuffer, inside a stored
// block, at the 64 KiB window boundary), then Reset onto a second source.

// earlyRef: a stream whose first back-reference reaches before its own output (k literals, then
// a match at a distance > k): must be Corrupt, never bytes of the previous stream.
func earlyRef(r *Rng) []byte {
	w := &bitW{}
	var out []byte
	k := r.Pick([]int{0, 0, 1, 2, 5, 100, 300})
	if r.Intn(3) == 0 {
		// a stored block first
		blk := r.Bytes(k)
		storedBlock(w, false, blk)
		out = append(out, blk...)
		k = 0
	}
	var toks []tok
	for i := 0; i < k; i++ {
		toks = append(toks, tok{Lit: byte(r.Intn(256))})
		out = append(out, 0)
	}
	d := len(out) + r.Pick([]int{1, 1, 2, 3, 100, 4000, 32768 - len(out)})
	if d > 32768 {
		d = 32768
	}
	if d <= len(out) {
		d = len(out) + 1
	}
	toks = append(toks, tok{Len: r.Pick([]int{3, 4, 10, 258}), Dist: d})
	for i := r.Intn(3); i > 0; i-- {
		toks = append(toks, tok{Lit: byte(r.Intn(256))})
	}
	ll, dl := fixedLens()
	w.bits(1, 1)
	w.bits(1, 2)
	writeTokens(w, toks, ll, dl, true)
	return w.bytes()
}

// holeStream: a dynamic block whose literal/length code is incomplete and has long codes: the
// long-code groups of the lookup table have entries that no code fills.  The data walks into
// such a hole.
func holeStream(r *Rng) []byte {
	litLens := make([]int, 286)
	a, b := r.Intn(256), r.Intn(256)
	for b == a {
		b = r.Intn(256)
	}
	long := r.Range(13, 15)
	litLens[a], litLens[256], litLens[b] = 1, 2, long
	distLens := make([]int, 30)
	if r.Bool() {
		distLens[r.Intn(30)] = 1
	}
	w := &bitW{}
	dynHeader(r, w, r.Bool(), litLens, distLens, r.Intn(3), r.Intn(4), "")
	for i := r.Intn(4); i > 0; i-- {
		w.code(0, 1) // a
	}
	w.bits(3, 2)  // the two 1 bits all long codes start with
	w.bits(0, 10) // rest of the 12-bit prefix of b
	w.bits(uint32(r.Intn(1<<uint(long-12))), uint(long-12))
	for i := r.Range(4, 12); i > 0; i-- {
		w.bits(uint32(r.Intn(256)), 8)
	}
	return w.bytes()
}

// stagedAbandon: a first block whose output is handed out while the header of the following
// dynamic block is only partly delivered (headerBuffered > 0 when the stream is abandoned).
func stagedAbandon(r *Rng) *Case {
	w := &bitW{}
	var out []byte
	blk := r.Bytes(r.Range(1, 3000))
	if r.Bool() {
		storedBlock(w, false, blk)
	} else {
		ll, dl := fixedLens()
		var toks []tok
		for _, x := range blk {
			toks = append(toks, tok{Lit: x})
		}
		w.bits(0, 1)
		w.bits(1, 2)
		writeTokens(w, toks, ll, dl, true)
	}
	out = append(out, blk...)
	off := len(w.bytes())
	sp := SynthSpec{Seed: r.U64(), Blocks: 1, Size: r.Range(50, 2000), Kinds: "d"}
	// the dynamic block is appended bit-exactly by re-synthesising it behind the prefix
	_ = sp
	smallDynBlock(r, w, &out, true, r.Range(1, 200), 0, 0)
	st := w.bytes()
	cut := off + r.Range(1, 12)
	if cut > len(st) {
		cut = len(st)
	}
	c := &Case{Name: "reset/staged", Stream: st, BufSize: r.Pick([]int{4096, 65536}), Chunks: []int{cut}}
	c.Reads = []rep{{len(blk) + r.Intn(10), 1}}
	if r.Intn(3) == 0 {
		c.Reads = []rep{{r.Range(1, len(blk)), 1}} // undelivered output as well
	}
	return c
}

func firstPhase(r *Rng) *Case {
	switch r.Intn(12) {
	case 0, 1:
		return stagedAbandon(r)
	case 2:
		// inside a stored block
		d := dataFor(r, r.Pick([]int{1, 2}))
		c := &Case{Name: "reset/stored", Stream: stdDeflate(d, 0)}
		schedule(r, c)
		c.Reads = []rep{{r.Pick([]int{1, 7, 100, 4096}), r.Range(1, 20)}}
		return c
	case 3, 4:
		// at the 64 KiB window boundary
		var st []byte
		if r.Bool() {
			st = synthBoundary(r)
		} else {
			st, _ = synthOvfRoll(r)
		}
		c := &Case{Name: "reset/64k", Stream: st}
		schedule(r, c)
		if r.Bool() {
			c.Chunks, c.BufSize = nil, 65536
		}
		total := 65536 + r.Pick([]int{-300, -2, -1, 0, 0, 1, 2, 300})
		sz := r.Pick([]int{1, 7, 4096, 65536, 100000})
		c.Reads = []rep{{sz, total/sz + r.Intn(2)}}
		return c
	}
	// any case of the main generator; read all of it, part of it, or nothing
	c := generate(1, r.U64())[0]
	c.Name = "reset/" + c.Name
	switch r.Intn(6) {
	case 0:
		c.Reads = nil // Reset before the first Read
	case 1, 2:
		c.Reads = []rep{{c.Reads[len(c.Reads)-1].size, r.Range(1, 30)}} // abandoned after a few reads
	default:
		// to the end (the last rep is unbounded), plus sticky reads
	}
	return c
}

func secondPhase(r *Rng) *Case {
	var c *Case
	switch r.Intn(12) {
	case 0, 1, 2:
		c = &Case{Name: "earlyref", Stream: earlyRef(r)}
		schedule(r, c)
	case 3:
		c = &Case{Name: "hole", Stream: holeStream(r)}
		schedule(r, c)
	case 4:
		blocks := r.Range(1, 3)
		sp := SynthSpec{Seed: r.U64(), Blocks: blocks, Size: r.Range(1, 2000), Fault: "dist-too-far", FaultB: 0, Kinds: r.PickS([]string{"", "d", "f"})}
		s, _, _, _ := sp.Synthesize()
		c = &Case{Name: "distfar", Stream: s}
		schedule(r, c)
	default:
		c = generate(1, r.U64())[0]
	}
	return c
}

func generateReset(n int, seed uint64) []*Case {
	r := NewRng(seed ^ 0x5e5e7)
	var out []*Case
	for len(out) < n {
		c := firstPhase(r)
		c.Extra = r.Intn(3)
		c.Next = secondPhase(r)
		c.Name = fmt.Sprintf("%s>%s", c.Name, c.Next.Name)
		out = append(out, c)
	}
	return out
}
